import TrionModel.Lemmas.C06MentionDu
import TrionModel.Lemmas.FrontReject
/-!
# `Front.assemble` does not complete when an EVALUATING operand does not evaluate

Operand kinds `immediate / immReg / address / offset / addrOffset` (`Kind.evals`) evaluate their argument before looking at
it; `register / systemReg / regSet / identifier` positions never evaluate.  If `assemble` of a fresh statement returns
`Completed`, every argument at an evaluating position evaluated to `Complete` (`assemble_completed_evals`).
-/
namespace Trion.Front
open Trion

theorem evalArg_error_not_completed {e : Arg → EvalOut} {loc : Bool} {pos done : Nat} {a a' : Arg} :
    evalArg e loc pos done a ≠ .error (a', .completed) := by
  intro h
  unfold evalArg at h
  repeat' split at h
  all_goals cases h

theorem post_stop_not_completed {k : Kind} {pos : Nat} {a : Arg} {d : Nat} {a' : Arg} {d' : Nat} :
    post k pos a d ≠ .stop a' d' .completed := by
  intro h
  cases k <;> simp only [post] at h
  all_goals (repeat' split at h)
  all_goals cases h

theorem get_stop_not_completed {k : Kind} {e : Arg → EvalOut} {loc : Bool} {pos done : Nat} {a a' : Arg} {d' : Nat} :
    get k e loc pos done a ≠ .stop a' d' .completed := by
  intro h
  cases hk : k.evals with
  | true =>
    rw [get_eq_post k hk] at h
    cases he : evalArg e loc pos done a with
    | error p =>
      obtain ⟨x, r⟩ := p
      rw [he] at h
      simp only [GetOut.stop.injEq] at h
      obtain ⟨rfl, _, rfl⟩ := h
      exact evalArg_error_not_completed he
    | ok p => rw [he] at h; exact post_stop_not_completed h
  | false =>
    cases k <;> simp [Kind.evals] at hk
    all_goals (simp only [get] at h; repeat' split at h)
    all_goals cases h

theorem conv_stop_not_completed (e : Arg → EvalOut) (loc : Bool) : ∀ (ks : List Kind) (pos : Nat) (pre rest : List Arg)
    (done : Nat) (instr : Instr) (vals : List Val) (A : List Arg) (D : Nat) (I : Instr),
    conv e loc ks pos pre rest done instr vals ≠ .stop A D I .completed := by
  intro ks
  induction ks with
  | nil => intro pos pre rest done instr vals A D I h; simp [conv] at h
  | cons k ks ih =>
    intro pos pre rest done instr vals A D I h
    cases rest with
    | nil => simp only [conv] at h; cases h
    | cons a rest =>
      simp only [conv] at h
      cases hg : get k e loc pos done a with
      | ok v a' d' => rw [hg] at h; exact ih _ _ _ _ _ _ _ _ _ h
      | stop a' d' r =>
        rw [hg] at h
        simp only [ConvOut.stop.injEq] at h
        obtain ⟨_, _, _, rfl⟩ := h
        exact get_stop_not_completed hg

/-- a getter of an evaluating kind that succeeds on a not yet evaluated position has evaluated its argument -/
theorem get_ok_evals {k : Kind} (hk : k.evals = true) {e : Arg → EvalOut} {loc : Bool} {pos done : Nat} (hd : done ≤ pos)
    {a : Arg} {v : Val} {a' : Arg} {d' : Nat} (h : get k e loc pos done a = .ok v a' d') :
    (∃ x, e a = .complete x) ∧ d' = pos + 1 := by
  rw [get_eq_post k hk] at h
  cases he : evalArg e loc pos done a with
  | error p => rw [he] at h; cases h
  | ok p =>
    obtain ⟨x, d⟩ := p
    rw [he] at h
    simp only at h
    obtain ⟨_, p2, _⟩ := post_ok h
    unfold evalArg at he
    simp only [hd, if_true] at he
    cases hea : e a with
    | complete y =>
      rw [hea] at he
      simp only [Except.ok.injEq, Prod.mk.injEq] at he
      exact ⟨⟨y, rfl⟩, by rw [p2, ← he.2]⟩
    | deferred c y => rw [hea] at he; cases he
    | noSuchVariable n y => rw [hea] at he; cases loc <;> cases he
    | error er y => rw [hea] at he; cases he

theorem get_ok_done_le {k : Kind} {e : Arg → EvalOut} {loc : Bool} {pos done : Nat} (hd : done ≤ pos)
    {a : Arg} {v : Val} {a' : Arg} {d' : Nat} (h : get k e loc pos done a = .ok v a' d') : d' ≤ pos + 1 := by
  cases hk : k.evals with
  | true => rw [(get_ok_evals hk hd h).2]; exact Nat.le_refl _
  | false =>
    obtain ⟨_, h2, _⟩ := (get_nonevals hk).1 _ _ _ h
    omega

theorem conv_ok_evals (e : Arg → EvalOut) (loc : Bool) : ∀ (ks : List Kind) (pos : Nat) (pre rest : List Arg) (done : Nat)
    (instr : Instr) (vals : List Val) (A : List Arg) (D : Nat) (I : Instr) (V : List Val),
    conv e loc ks pos pre rest done instr vals = .ok A D I V → done ≤ pos →
    ∀ (j : Nat) (k : Kind) (a : Arg), ks[j]? = some k → rest[j]? = some a → k.evals = true → ∃ x, e a = .complete x := by
  intro ks
  induction ks with
  | nil => intro pos pre rest done instr vals A D I V _ _ j k a hk; simp at hk
  | cons k0 ks ih =>
    intro pos pre rest done instr vals A D I V h hd j k a hk ha hev
    cases rest with
    | nil => simp at ha
    | cons a0 rest =>
      simp only [conv] at h
      cases hg : get k0 e loc pos done a0 with
      | stop a' d' r => rw [hg] at h; cases h
      | ok v a' d' =>
        rw [hg] at h
        simp only at h
        cases j with
        | zero =>
          simp only [List.getElem?_cons_zero, Option.some.injEq] at hk ha
          subst hk; subst ha
          exact (get_ok_evals hev hd hg).1
        | succ j =>
          simp only [List.getElem?_cons_succ] at hk ha
          exact ih _ _ _ _ _ _ _ _ _ _ h (get_ok_done_le hd hg) j k a hk ha hev

/-- **a fresh statement that `assemble` completes has evaluated every argument at an evaluating position** -/
theorem assemble_completed_evals (e : Arg → EvalOut) (loc : Bool) (addr : Nat) (t : Instr) (args : List Arg) (fs1 : St)
    (h : assemble ⟨addr, t, 0, args⟩ e loc = (fs1, .completed)) :
    ∀ (j : Nat) (k : Kind) (a : Arg), (kinds t)[j]? = some k → args[j]? = some a → k.evals = true →
      ∃ x, e a = .complete x := by
  unfold assemble at h
  simp only at h
  split at h
  · cases h
  · split at h
    · cases h
    · cases hc : conv e loc (kinds t) 0 [] args 0 t [] with
      | stop A D I r =>
        rw [hc] at h
        simp only [Prod.mk.injEq] at h
        obtain ⟨_, rfl⟩ := h
        exact absurd hc (conv_stop_not_completed e loc _ _ _ _ _ _ _ _ _ _)
      | ok A D I V => exact conv_ok_evals e loc _ _ _ _ _ _ _ _ _ _ _ hc (Nat.le_refl _)

end Trion.Front

namespace Trion.C04
open Trion Trion.Front Trion.Asm

/-- over a table without an entry for the non-register name `n`, an instruction with an evaluating operand that mentions
`n` is not completed by the front end: its first attempt is `Deferred` or an error -/
theorem assemble_mentions (tbl : Asm.Table) (n : Bytes) (hr : isRegister n = false) (hf : tbl.find n = none)
    (addr : Nat) (t : Instr) (args : List Arg) (j : Nat) (k : Front.Kind) (a : Arg) (hk : (kinds t)[j]? = some k)
    (ha : args[j]? = some a) (hev : k.evals = true) (hm : Simp.mentions n a = true) :
    (∃ fs1 c, Front.assemble ⟨addr, t, 0, args⟩ (Asm.frontEval tbl) true = (fs1, .deferred c)) ∨
    (∃ fs1 d, Front.assemble ⟨addr, t, 0, args⟩ (Asm.frontEval tbl) true = (fs1, .error d)) := by
  cases h : Front.assemble ⟨addr, t, 0, args⟩ (Asm.frontEval tbl) true with
  | mk fs1 out =>
    cases out with
    | completed =>
      obtain ⟨x, hx⟩ := assemble_completed_evals _ _ _ _ _ _ h j k a hk ha hev
      exfalso
      unfold Asm.frontEval at hx
      rcases evalIn_mentions tbl n hr hf a hm with ⟨m, a', he, _⟩ | ⟨e, a', he⟩
      · rw [he] at hx; cases hx
      · rw [he] at hx; cases e <;> cases hx
    | deferred c => exact .inl ⟨fs1, c, rfl⟩
    | error d => exact .inr ⟨fs1, d, rfl⟩
    | panic =>
      have := Front.assemble_no_panic_proof ⟨addr, t, 0, args⟩ (Asm.frontEval tbl) true
      rw [h] at this
      exact absurd rfl this

end Trion.C04
