import TrionModel.Lemmas.ParseVals
/-!
# Parser: rendered statements followed by ONE instruction statement with arbitrary (redundant) parentheses

`all_of_vals_then`: a token list whose values are the renderings of the statements `evs` followed by
`name <pargs as> ;` — `as : PArgs` any way of writing the operand trees `as.erase` with redundant parentheses — is
read as `evs` followed by the instruction statement `name as.erase`.
-/
namespace Trion.Parse

def prepend (els : List Element) : Outcome → Outcome
  | .done r e => .done (els ++ r) e
  | o => o

theorem allLoop_prefix (lo : LexOut) :
    ∀ (prog : List (ElemVal × Token × List Token)),
      (∀ x ∈ prog, x.1.wf ∧ (x.2.1 :: x.2.2).map (·.val) = Render.elemVal x.1) →
      ∀ (tail : List Token) (m : Nat),
        allLoop lo (prog.length + m) (progToks prog ++ tail) = prepend (progElems prog) (allLoop lo m tail) := by
  intro prog
  induction prog with
  | nil => intro _ tail m; simp only [progToks, List.flatMap_nil, List.nil_append, List.length_nil, Nat.zero_add, progElems, List.map_nil]
           cases allLoop lo m tail <;> rfl
  | cons x prog ih =>
    intro h tail m
    obtain ⟨ev, first, body⟩ := x
    have hx := h (ev, first, body) (List.mem_cons_self ..)
    have e : progToks ((ev, first, body) :: prog) ++ tail = first :: (body ++ (progToks prog ++ tail)) := by
      simp [progToks]
    rw [e]
    have hn : ((ev, first, body) :: prog).length + m = (prog.length + m) + 1 := by simp; omega
    rw [hn]
    simp only [allLoop]
    rw [element_render lo ev hx.1 first body (progToks prog ++ tail) hx.2]
    simp only []
    rw [ih (fun y hy => h y (List.mem_cons_of_mem _ hy)) tail m]
    cases allLoop lo m tail <;> simp [prepend, progElems]

theorem all_of_vals_then (evs : List ElemVal) (hwf : ∀ ev ∈ evs, ev.wf) (name : Bytes) (as : PArgs) (haswf : as.wf)
    (ts : List Token)
    (h : ts.map (·.val) = (evs.map Render.elemVal).flatten ++ (.ident name :: Render.pargs as ++ [.term]))
    (endLine endCol : Nat) :
    ∃ els last, all ⟨ts, none, endLine, endCol⟩ = .done (els ++ [last]) none ∧ els.map (·.val) = evs ∧
      last.val = .instruction name as.erase := by
  obtain ⟨tp, tl, rfl, hp, hl⟩ := exists_of_map_eq_append h
  obtain ⟨prog, hp1, hp2, hp3⟩ := prog_of_vals evs tp hwf hp
  obtain ⟨first, tl', rfl, hf, hl'⟩ := exists_of_map_eq_cons hl
  obtain ⟨ta, tb, rfl, hta, htb⟩ := exists_of_map_eq_append hl'
  obtain ⟨tt, tc, rfl, htt, hnil⟩ := exists_of_map_eq_cons htb
  have : tc = [] := map_eq_nil' hnil
  subst this
  refine ⟨progElems prog, ⟨first.line, first.col, .instruction name as.erase⟩, ?_, by rw [← hp2]; simp [progElems], rfl⟩
  unfold all
  simp only
  rw [← hp1]
  have hlen : (progToks prog ++ first :: (ta ++ [tt])).length + 1 = prog.length +
      ((progToks prog ++ first :: (ta ++ [tt])).length + 1 - prog.length) := by
    have : prog.length ≤ (progToks prog).length := by
      clear hp1 hp2 hp3 h hp
      induction prog with
      | nil => simp
      | cons x prog ih => simp [progToks] at ih ⊢; omega
    simp only [List.length_append] at this ⊢
    omega
  rw [hlen, allLoop_prefix _ prog hp3]
  have hm : ∃ m', (progToks prog ++ first :: (ta ++ [tt])).length + 1 - prog.length = m' + 2 := by
    have : prog.length ≤ (progToks prog).length := by
      clear hp1 hp2 hp3 h hp hlen
      induction prog with
      | nil => simp
      | cons x prog ih => simp [progToks] at ih ⊢; omega
    refine ⟨(progToks prog ++ first :: (ta ++ [tt])).length + 1 - prog.length - 2, ?_⟩
    simp only [List.length_append, List.length_cons, List.length_nil] at this ⊢
    omega
  obtain ⟨m', hm'⟩ := hm
  rw [hm']
  have hel := instruction_ok ⟨progToks prog ++ first :: (ta ++ [tt]), none, endLine, endCol⟩ name as haswf first tt ta [] hf hta htt
  simp only [allLoop, hel]
  simp [prepend]

end Trion.Parse
