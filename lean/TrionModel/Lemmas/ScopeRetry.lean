import TrionModel.Lemmas.ScopeRun
/-!
Helper lemmas for C14 (core Lean only): what the RETRIES of a `.du32 n` read — stage 1 = the local task at the end of
the statement's file, stage 2 = the task rescheduled into the includer (run at the includer's end) or into the real
global list (run by `finalize`).

* `RetryEv ts T e`: `e` is a diagnostic, or the value a task `.use n c tag g ∈ ts` wrote: the cached value, or `n`'s valued
  entry in the table `T`;
* `exit_retried` / `finalize_retried`: everything an `exit` / a `finalize` adds to the log is such an event, with `T` the
  table of the file being left / the global table;
* `CInv`: in every state reachable from `Context::new()` a cached value is out of range (`.du32` caches the value only on
  the path where `u32::try_from` failed), so the cached alternative never writes.
-/
namespace Trion.Scope

/-! ## the events of a retry -/

/-- the table an evaluation reads (`realm = if ctx.has_curr_file() {Local} else {Global}`) -/
def evalTab (s : State) : Option Table := if s.depth ≠ 0 then s.locals else some s.globals

theorem getConstant_evalTab {s : State} {T : Table} (n : Bytes) (h : evalTab s = some T) :
    getConstant s n (if s.hasCurrFile then .loc else .global) = .ok (T.get n) := by
  unfold evalTab at h
  by_cases hd : s.depth ≠ 0
  · rw [if_pos hd] at h
    simp [State.hasCurrFile, hd, getConstant, h]
  · rw [if_neg hd] at h
    cases h
    simp [State.hasCurrFile, hd, getConstant]

/-- `e` is a diagnostic, or the value written by the retry of a `.du32 n` of `ts` — at stage 1 (local task) or 2
(rescheduled) — which is the cached value (then in range) or `n`'s valued entry in `T` -/
def RetryEv (ts : List Task) (T : Table) (e : Ev) : Prop :=
  (∃ tag k, e = .diag tag k) ∨
  ∃ n c tag g v, Task.use n c tag g ∈ ts ∧ e = .value tag v (if g then 2 else 1) ∧
    ((c = some v ∧ 0 ≤ v ∧ v < 4294967296) ∨ (c = none ∧ T.find n = some (some v)))

/-- the log grew by retry events only -/
def Retried (ts : List Task) (T : Table) (s s' : State) : Prop :=
  ∃ add, s'.log = add ++ s.log ∧ ∀ e ∈ add, RetryEv ts T e

theorem RetryEv.mono {ts ts' : List Task} {T : Table} {e : Ev} (h : RetryEv ts T e) (hs : ∀ t ∈ ts, t ∈ ts') :
    RetryEv ts' T e := by
  rcases h with h | ⟨n, c, tag, g, v, hm, he, hc⟩
  · exact .inl h
  · exact .inr ⟨n, c, tag, g, v, hs _ hm, he, hc⟩

theorem Retried.refl (ts : List Task) (T : Table) (s : State) : Retried ts T s s := ⟨[], rfl, by simp⟩

theorem Retried.of_log {ts : List Task} {T : Table} {s s' : State} (h : s'.log = s.log) : Retried ts T s s' :=
  ⟨[], by simp [h], by simp⟩

theorem Retried.trans {ts : List Task} {T : Table} {a b c : State} (h1 : Retried ts T a b) (h2 : Retried ts T b c) :
    Retried ts T a c := by
  obtain ⟨x, hx, px⟩ := h1
  obtain ⟨y, hy, py⟩ := h2
  refine ⟨y ++ x, by rw [hy, hx, List.append_assoc], fun e he => ?_⟩
  rcases List.mem_append.1 he with he | he
  · exact py e he
  · exact px e he

theorem Retried.mono {ts ts' : List Task} {T : Table} {s s' : State} (h : Retried ts T s s')
    (hs : ∀ t ∈ ts, t ∈ ts') : Retried ts' T s s' := by
  obtain ⟨x, hx, px⟩ := h
  exact ⟨x, hx, fun e he => (px e he).mono hs⟩

theorem retried_diag (ts : List Task) (T : Table) (s : State) (tag : Nat) (k : Kind) : Retried ts T s (s.err tag k) :=
  ⟨[.diag tag k], rfl, fun e he => by simp at he; exact .inl ⟨tag, k, he⟩⟩

theorem insertConstant_log {s s' : State} {n : Bytes} {v : Int} {r : Realm} {res : Except CErr Bool}
    (h : insertConstant s n v r = .ok (s', res)) : s'.log = s.log := by
  unfold insertConstant at h
  split at h
  · cases h; rfl
  · cases r with
    | global => simp only at h; split at h <;> cases h <;> rfl
    | loc =>
      simp only at h
      split at h
      · cases h
      · split at h <;> cases h <;> rfl

/-- what `DataExpr::apply` of a retried `.du32 n` adds to the log -/
theorem applyUse_log {s s' : State} {T : Table} {n : Bytes} {c c' : Option Int} {tag stage : Nat} {b : Bool}
    {res : Except Level DataOp} (hT : evalTab s = some T) (h : applyUse s n c tag stage b = .ok (s', res, c')) :
    s'.log = s.log ∨ (∃ k, s'.log = .diag tag k :: s.log) ∨
    ∃ v, s'.log = .value tag v stage :: s.log ∧
      ((c = some v ∧ 0 ≤ v ∧ v < 4294967296) ∨ (c = none ∧ T.find n = some (some v))) := by
  have wv : ∀ v, ((writeVal s tag v stage).1.log = .diag tag .range :: s.log) ∨
      ((writeVal s tag v stage).1.log = .value tag v stage :: s.log ∧ 0 ≤ v ∧ v < 4294967296) := by
    intro v
    unfold writeVal
    split
    · rename_i hr; exact .inr ⟨rfl, hr⟩
    · exact .inl rfl
  unfold applyUse at h
  split at h
  · rename_i v
    split at h <;> (rename_i hw; cases h; have := wv v; rw [hw] at this)
    all_goals
      rcases this with e | ⟨e, hr⟩
      · exact .inr (.inl ⟨_, e⟩)
      · exact .inr (.inr ⟨v, e, .inl ⟨rfl, hr⟩⟩)
  · split at h
    · cases h; exact .inr (.inl ⟨_, rfl⟩)
    · rw [getConstant_evalTab n hT] at h
      split at h
      · rename_i heq; cases heq
      · split at h <;> cases h
        · exact .inl rfl
        · exact .inr (.inl ⟨_, rfl⟩)
      · cases h; exact .inl rfl
      · rename_i v heq
        have hf : T.find n = some (some v) := get_found (Except.ok.inj heq)
        split at h <;> (rename_i hw; cases h; have := wv v; rw [hw] at this)
        all_goals
          rcases this with e | ⟨e, _⟩
          · exact .inr (.inl ⟨_, e⟩)
          · exact .inr (.inr ⟨v, e, .inr ⟨rfl, hf⟩⟩)

theorem runUse_retried {s s' : State} {T : Table} {n : Bytes} {c : Option Int} {tag : Nat} {g : Bool}
    {r : Option Level} (hT : evalTab s = some T) (h : runUse s n c tag g = .ok (s', r)) :
    Retried [.use n c tag g] T s s' := by
  have key : ∀ {s1 : State} {res : Except Level DataOp} {c1 : Option Int},
      applyUse s n c tag (if g then 2 else 1) false = .ok (s1, res, c1) → Retried [.use n c tag g] T s s1 := by
    intro s1 res c1 ha
    rcases applyUse_log hT ha with e | ⟨k, e⟩ | ⟨v, e, hc⟩
    · exact .of_log e
    · exact ⟨[.diag tag k], e, fun x hx => by simp at hx; exact .inl ⟨tag, k, hx⟩⟩
    · exact ⟨[.value tag v (if g then 2 else 1)], e, fun x hx => by
        simp at hx; exact .inr ⟨n, c, tag, g, v, by simp, hx, hc⟩⟩
  unfold runUse at h
  split at h
  · cases h
  · rename_i ha; cases h; exact key ha
  · rename_i ha
    split at h
    · cases h; exact (key ha).trans (retried_diag _ _ _ _ _)
    · split at h
      · cases h
      · rename_i hadd; cases h
        exact (key ha).trans (.of_log (addTask_log hadd))
  · rename_i ha; cases h; exact key ha

theorem runGlobalCopy_retried {s s' : State} {ts : List Task} {T : Table} {n : Bytes} {tag : Nat} {r : Option Level}
    (h : runGlobalCopy s n tag = .ok (s', r)) : Retried ts T s s' := by
  unfold runGlobalCopy at h
  split at h
  · cases h
  · cases h; exact retried_diag _ _ _ _ _
  · cases h; exact retried_diag _ _ _ _ _
  · split at h
    · cases h
    · rename_i hi; cases h; exact .of_log (insertConstant_log hi)
    · rename_i hi; cases h; exact (Retried.of_log (insertConstant_log hi)).trans (retried_diag _ _ _ _ _)
    · cases h

theorem runTask_retried {s s' : State} {T : Table} {t : Task} {r : Option Level} (hT : evalTab s = some T)
    (h : runTask s t = .ok (s', r)) : Retried [t] T s s' := by
  cases t with
  | globalCopy n tag => exact runGlobalCopy_retried h
  | use n c tag g => exact runUse_retried hT h

/-! ## tasks keep the table they read -/

theorem runGlobalCopy_locals {s s' : State} {n : Bytes} {tag : Nat} {r : Option Level}
    (h : runGlobalCopy s n tag = .ok (s', r)) : s'.locals = s.locals ∧ s'.localTasks = s.localTasks := by
  unfold runGlobalCopy at h
  split at h
  · cases h
  · cases h; exact ⟨rfl, rfl⟩
  · cases h; exact ⟨rfl, rfl⟩
  · split at h
    · cases h
    · rename_i hi; cases h; exact ⟨(insertConstant_glob_char hi).1, (insertConstant_tasks hi).1⟩
    · rename_i hi; cases h; exact ⟨(insertConstant_glob_char hi).1, (insertConstant_tasks hi).1⟩
    · cases h

theorem applyUse_ltasks {s s' : State} {n : Bytes} {c c' : Option Int} {tag stage : Nat} {b : Bool}
    {r : Except Level DataOp} (h : applyUse s n c tag stage b = .ok (s', r, c')) :
    s'.localTasks = s.localTasks ∧ s'.globalTasks = s.globalTasks ∧ s'.frames = s.frames := by
  have wv : ∀ v, (writeVal s tag v stage).1.localTasks = s.localTasks ∧
      (writeVal s tag v stage).1.globalTasks = s.globalTasks ∧ (writeVal s tag v stage).1.frames = s.frames := by
    intro v; unfold writeVal; split <;> exact ⟨rfl, rfl, rfl⟩
  unfold applyUse at h
  split at h
  · rename_i v
    split at h <;> (rename_i hw; cases h; have := wv v; rw [hw] at this; exact this)
  · split at h
    · cases h; exact ⟨rfl, rfl, rfl⟩
    · split at h
      · cases h
      · split at h <;> cases h <;> exact ⟨rfl, rfl, rfl⟩
      · cases h; exact ⟨rfl, rfl, rfl⟩
      · rename_i v _
        split at h <;> (rename_i hw; cases h; have := wv v; rw [hw] at this; exact this)

theorem runUse_ltasks {s s' : State} {n : Bytes} {c : Option Int} {tag : Nat} {g : Bool} {r : Option Level}
    (h : runUse s n c tag g = .ok (s', r)) : s'.localTasks = s.localTasks := by
  unfold runUse at h
  split at h
  · cases h
  · rename_i ha; cases h; exact (applyUse_ltasks ha).1
  · rename_i ha
    split at h
    · cases h; exact (applyUse_ltasks ha).1
    · split at h
      · cases h
      · rename_i hadd; cases h
        simp only [addTask] at hadd; cases hadd
        exact (applyUse_ltasks ha).1
  · rename_i ha; cases h; exact (applyUse_ltasks ha).1

/-- a task never touches the current file's table nor `local_tasks`, and keeps the depth -/
theorem runTask_keeps {s s' : State} {t : Task} {r : Option Level} (h : runTask s t = .ok (s', r)) :
    s'.locals = s.locals ∧ s'.localTasks = s.localTasks ∧ s'.depth = s.depth := by
  have hd := (eff_runTask h).depth
  cases t with
  | globalCopy n tag => exact ⟨(runGlobalCopy_locals h).1, (runGlobalCopy_locals h).2, hd⟩
  | use n c tag g => exact ⟨(runUse_tables h).1, runUse_ltasks h, hd⟩

/-- … and a rescheduled `.du32` touches no table at all -/
theorem runTask_keeps_gu {s s' : State} {t : Task} {r : Option Level} (ht : t.isGU) (h : runTask s t = .ok (s', r)) :
    s'.globals = s.globals := by
  cases t with
  | globalCopy n tag => exact ht.elim
  | use n c tag g => exact (runUse_tables h).2

/-- the table read stays the same: inside a file it is the file's own table; outside, the global table, which the tasks
of the real global list (rescheduled `.du32`s) never touch -/
theorem runTask_evalTab {s s' : State} {T : Table} {t : Task} {r : Option Level} (hT : evalTab s = some T)
    (hg : s.depth = 0 → t.isGU) (h : runTask s t = .ok (s', r)) : evalTab s' = some T := by
  obtain ⟨hl, _, hd⟩ := runTask_keeps h
  unfold evalTab at hT ⊢
  rw [hd, hl]
  by_cases h0 : s.depth ≠ 0
  · rw [if_pos h0] at hT ⊢; exact hT
  · rw [if_neg h0] at hT ⊢
    rw [runTask_keeps_gu (hg (by simpa using h0)) h]; exact hT

/-! ## the two task loops -/

theorem drain_retried {T : Table} : ∀ (ts : List Task) {s s' : State} {r r' : Option Level},
    evalTab s = some T → (s.depth = 0 → ∀ t ∈ ts, t.isGU) → drain s r ts = .ok (s', r') →
    Retried ts T s s' ∧ evalTab s' = some T ∧ s'.localTasks = s.localTasks ∧ s'.depth = s.depth
  | [], s, s', r, r', hT, _, h => by
    simp only [drain] at h; cases h; exact ⟨.refl _ _ _, hT, rfl, rfl⟩
  | t :: ts, s, s', r, r', hT, hg, h => by
    simp only [drain] at h
    have step1 : ∀ {s1 : State} {r1 : Option Level}, runTask s t = .ok (s1, r1) →
        Retried (t :: ts) T s s1 ∧ evalTab s1 = some T ∧ s1.localTasks = s.localTasks ∧ s1.depth = s.depth :=
      fun h1 => ⟨(runTask_retried hT h1).mono (by simp), runTask_evalTab hT (fun h0 => hg h0 t (by simp)) h1,
        (runTask_keeps h1).2.1, (runTask_keeps h1).2.2⟩
    have rest : ∀ {s1 : State} {r1 : Option Level}, evalTab s1 = some T → s1.depth = s.depth →
        drain s1 r1 ts = .ok (s', r') →
        Retried (t :: ts) T s1 s' ∧ evalTab s' = some T ∧ s'.localTasks = s1.localTasks ∧ s'.depth = s1.depth :=
      fun hT1 hd1 h2 =>
        let ⟨a, b, c, d⟩ := drain_retried ts hT1 (fun h0 x hx => hg (hd1 ▸ h0) x (by simp [hx])) h2
        ⟨a.mono (by simp +contextual), b, c, d⟩
    split at h
    · cases h
    · rename_i s1 h1
      obtain ⟨a1, b1, c1, d1⟩ := step1 h1
      obtain ⟨a2, b2, c2, d2⟩ := rest b1 d1 h
      exact ⟨a1.trans a2, b2, c2.trans c1, d2.trans d1⟩
    · rename_i s1 lvl h1
      obtain ⟨a1, b1, c1, d1⟩ := step1 h1
      split at h
      · cases h; exact ⟨a1, b1, c1, d1⟩
      · obtain ⟨a2, b2, c2, d2⟩ := rest b1 d1 h
        exact ⟨a1.trans a2, b2, c2.trans c1, d2.trans d1⟩

/-- the `while !tasks.is_empty()` loop of `assemble`, started with an emptied `local_tasks`: one round -/
theorem localLoop_retried {T : Table} (fuel : Nat) {s s' : State} {r r' : Option Level} (ts : List Task)
    (hT : evalTab s = some T) (hd : s.depth ≠ 0) (hlt : s.localTasks = some [])
    (h : localLoop (fuel + 1) s r ts = .ok (s', r')) : Retried ts T s s' := by
  cases ts with
  | nil => simp only [localLoop] at h; cases h; exact .refl _ _ _
  | cons t ts =>
    simp only [localLoop] at h
    split at h
    · cases h
    · rename_i s1 r1 hdr
      obtain ⟨a1, _, c1, _⟩ := drain_retried (t :: ts) hT (fun h0 => absurd h0 hd) hdr
      have hn : s1.localTasks = some [] := c1.trans hlt
      rw [hn] at h
      simp only at h
      have a2 : Retried (t :: ts) T s1 { s1 with localTasks := some [] } := .of_log rfl
      split at h
      · cases h; exact a1.trans a2
      · cases fuel <;> (simp only [localLoop] at h; cases h; exact a1.trans a2)

theorem intoInner_log {s s' : State} {f : Saved} {fs : List Saved} (h : intoInner s f fs = .ok s') : s'.log = s.log := by
  unfold intoInner at h
  split at h
  · cases h
  · split at h
    · cases h
    · cases h; rfl

/-- C14.isolation (retries, one `exit`)  Everything the end of a file adds to the log — the file's local tasks, then at
most the includer's `AssemblyFailed` — is a diagnostic or the value of a retried `.du32 n` of the file's task list,
resolved in the table `C` of the file being left (or its cached value). -/
theorem exit_retried {s s' : State} {res : Option Level} {C : Table} {ts : List Task} (hd : s.depth ≠ 0)
    (hl : s.locals = some C) (hts : s.localTasks = some ts) (h : exitFile s res = .ok s') : Retried ts C s s' := by
  have hT : evalTab s = some C := by simp [evalTab, hd, hl]
  unfold exitFile at h
  split at h
  · cases h; exact .refl _ _ _
  · rename_i f fs hf
    simp only at h
    split at h
    · cases h
    · rename_i mid r' hloop
      have hx : Retried ts C s mid := by
        split at hloop
        · cases hloop; exact .refl _ _ _
        · rw [hts] at hloop
          simp only at hloop
          have a0 : Retried ts C s { s with localTasks := some [] } := .of_log rfl
          exact a0.trans (localLoop_retried 1 ts (s := { s with localTasks := some [] }) hT hd rfl hloop)
      split at h
      · cases h
      · rename_i s2 hin
        have a2 : Retried ts C mid s2 := .of_log (intoInner_log hin)
        split at h <;> cases h
        · exact (hx.trans a2).trans ((retried_diag _ _ _ _ _).trans (.of_log rfl))
        · exact (hx.trans a2).trans (.of_log rfl)

theorem drainFinal_retried {T : Table} : ∀ (ts : List Task) {s s' : State} {b : Bool},
    evalTab s = some T → (s.depth = 0 → ∀ t ∈ ts, t.isGU) → drainFinal s ts = .ok (s', b) →
    Retried ts T s s' ∧ evalTab s' = some T ∧ s'.depth = s.depth
  | [], s, s', b, hT, _, h => by
    simp only [drainFinal] at h; cases h; exact ⟨.refl _ _ _, hT, rfl⟩
  | t :: ts, s, s', b, hT, hg, h => by
    simp only [drainFinal] at h
    have step1 : ∀ {s1 : State} {r1 : Option Level}, runTask s t = .ok (s1, r1) →
        Retried (t :: ts) T s s1 ∧ evalTab s1 = some T ∧ s1.depth = s.depth :=
      fun h1 => ⟨(runTask_retried hT h1).mono (by simp), runTask_evalTab hT (fun h0 => hg h0 t (by simp)) h1,
        (runTask_keeps h1).2.2⟩
    split at h
    · cases h
    · rename_i s1 h1; cases h; exact step1 h1
    · rename_i s1 r1 _ h1
      obtain ⟨a1, b1, d1⟩ := step1 h1
      obtain ⟨a2, b2, d2⟩ := drainFinal_retried ts b1 (fun h0 x hx => hg (d1 ▸ h0) x (by simp [hx])) h
      exact ⟨a1.trans (a2.mono (by simp +contextual)), b2, d2.trans d1⟩

/-! ## cached values are out of range: `CInv`

`DataExpr::apply` replaces the identifier by its value in place (`cached = some v`) and then hands the value to the writer;
the statement is only ever queued again when the writer refused the value (`u32::try_from` failed).  So in every state
reachable from `Context::new()` each queued `.du32` with a cached value caches a value out of range — its retry can only
repeat the diagnostic. -/

def cokOpt (c : Option Int) : Prop := ∀ v, c = some v → ¬ (0 ≤ v ∧ v < 4294967296)

/-- a cached value is one `u32::try_from` refused -/
def Task.cok : Task → Prop
  | .use _ c _ _ => cokOpt c
  | .globalCopy _ _ => True

structure CInv (s : State) : Prop where
  g : ∀ t ∈ s.globalTasks, t.cok
  l : ∀ q, s.localTasks = some q → ∀ t ∈ q, t.cok
  f : ∀ fr ∈ s.frames, ∀ q, fr.tasks = some q → ∀ t ∈ q, t.cok

theorem cinv_init : CInv init :=
  ⟨(fun _ h => by cases h), (fun _ h => by cases h), (fun _ h => by cases h)⟩

theorem cinv_of_queues {s s' : State} (h : CInv s) (hg : s'.globalTasks = s.globalTasks)
    (hl : s'.localTasks = s.localTasks) (hf : s'.frames = s.frames) : CInv s' :=
  ⟨by rw [hg]; exact h.g, by rw [hl]; exact h.l, by rw [hf]; exact h.f⟩

theorem insertConstant_queues {s s' : State} {n : Bytes} {v : Int} {r : Realm} {res : Except CErr Bool}
    (h : insertConstant s n v r = .ok (s', res)) :
    s'.globalTasks = s.globalTasks ∧ s'.localTasks = s.localTasks ∧ s'.frames = s.frames :=
  ⟨(insertConstant_tasks h).2, (insertConstant_tasks h).1, (eff_insertConstant h).frames⟩

theorem deferConstant_queues {s s' : State} {n : Bytes} {r : Realm} {res : Except CErr Unit}
    (h : deferConstant s n r = .ok (s', res)) :
    s'.globalTasks = s.globalTasks ∧ s'.localTasks = s.localTasks ∧ s'.frames = s.frames := by
  unfold deferConstant at h
  split at h
  · cases h; exact ⟨rfl, rfl, rfl⟩
  · cases r with
    | global => simp only at h; split at h <;> cases h <;> exact ⟨rfl, rfl, rfl⟩
    | loc =>
      simp only at h
      split at h
      · cases h
      · split at h <;> cases h <;> exact ⟨rfl, rfl, rfl⟩

theorem insertConstant_cinv {s s' : State} {n : Bytes} {v : Int} {r : Realm} {res : Except CErr Bool}
    (h : insertConstant s n v r = .ok (s', res)) (hi : CInv s) : CInv s' :=
  let ⟨a, b, c⟩ := insertConstant_queues h
  cinv_of_queues hi a b c

theorem deferConstant_cinv {s s' : State} {n : Bytes} {r : Realm} {res : Except CErr Unit}
    (h : deferConstant s n r = .ok (s', res)) (hi : CInv s) : CInv s' :=
  let ⟨a, b, c⟩ := deferConstant_queues h
  cinv_of_queues hi a b c

theorem cinv_err {s : State} (h : CInv s) (tag : Nat) (k : Kind) : CInv (s.err tag k) :=
  cinv_of_queues h rfl rfl rfl

theorem addTask_cinv {s s' : State} {t : Task} {r : Realm} (h : addTask s t r = .ok s') (hi : CInv s) (ht : t.cok) :
    CInv s' := by
  unfold addTask at h
  cases r with
  | global =>
    cases h
    refine ⟨fun x hx => ?_, hi.l, hi.f⟩
    rcases List.mem_append.1 hx with hx | hx
    · exact hi.g x hx
    · simp only [List.mem_singleton] at hx; subst hx; exact ht
  | loc =>
    simp only at h
    split at h
    · cases h
    · rename_i q0 hq0
      cases h
      refine ⟨hi.g, fun q hq x hx => ?_, hi.f⟩
      cases hq
      rcases List.mem_append.1 hx with hx | hx
      · exact hi.l q0 hq0 x hx
      · simp only [List.mem_singleton] at hx; subst hx; exact ht

/-- `apply` either completes or leaves a cache the writer refused -/
theorem applyUse_cok {s s' : State} {n : Bytes} {c c' : Option Int} {tag stage : Nat} {b : Bool}
    {res : Except Level DataOp} (hc : cokOpt c) (h : applyUse s n c tag stage b = .ok (s', res, c')) :
    res = .ok .completed ∨ cokOpt c' := by
  have wv : ∀ v l, (writeVal s tag v stage).2 = some l → ¬ (0 ≤ v ∧ v < 4294967296) := by
    intro v l hw hr
    unfold writeVal at hw
    rw [if_pos hr] at hw
    cases hw
  unfold applyUse at h
  split at h
  · rename_i v
    split at h <;> cases h
    · exact .inl rfl
    · exact .inr hc
  · split at h
    · cases h; exact .inr (fun _ e => by cases e)
    · split at h
      · cases h
      · split at h <;> cases h <;> exact .inr (fun _ e => by cases e)
      · cases h; exact .inr (fun _ e => by cases e)
      · rename_i v _
        split at h
        · cases h; exact .inl rfl
        · rename_i s1 l hw
          cases h
          refine .inr (fun w e => ?_)
          cases e
          exact wv v l (by rw [hw])

theorem applyUse_cinv {s s' : State} {n : Bytes} {c c' : Option Int} {tag stage : Nat} {b : Bool}
    {res : Except Level DataOp} (h : applyUse s n c tag stage b = .ok (s', res, c')) (hi : CInv s) : CInv s' :=
  let ⟨a, b, c⟩ := applyUse_ltasks h
  cinv_of_queues hi b a c

theorem doUse_cinv {s s' : State} {n : Bytes} {tag : Nat} {r : Option Level} (h : doUse s n tag = .ok (s', r))
    (hi : CInv s) : CInv s' := by
  unfold doUse at h
  split at h
  · cases h
  · rename_i ha; cases h; exact applyUse_cinv ha hi
  · rename_i s1 res c hne ha
    split at h
    · cases h
    · rename_i hadd
      cases h
      refine addTask_cinv hadd (applyUse_cinv ha hi) ?_
      rcases applyUse_cok (fun _ e => by cases e) ha with e | e
      · exact absurd e hne
      · exact e

theorem runUse_cinv {s s' : State} {n : Bytes} {c : Option Int} {tag : Nat} {g : Bool} {r : Option Level}
    (hc : cokOpt c) (h : runUse s n c tag g = .ok (s', r)) (hi : CInv s) : CInv s' := by
  unfold runUse at h
  split at h
  · cases h
  · rename_i ha; cases h; exact applyUse_cinv ha hi
  · rename_i s1 c1 ha
    split at h
    · cases h; exact cinv_err (applyUse_cinv ha hi) _ _
    · split at h
      · cases h
      · rename_i hadd
        cases h
        refine addTask_cinv hadd (applyUse_cinv ha hi) ?_
        rcases applyUse_cok hc ha with e | e
        · cases e
        · exact e
  · rename_i ha; cases h; exact applyUse_cinv ha hi

theorem runGlobalCopy_cinv {s s' : State} {n : Bytes} {tag : Nat} {r : Option Level}
    (h : runGlobalCopy s n tag = .ok (s', r)) (hi : CInv s) : CInv s' := by
  unfold runGlobalCopy at h
  split at h
  · cases h
  · cases h; exact cinv_err hi _ _
  · cases h; exact cinv_err hi _ _
  · split at h
    · cases h
    · rename_i hic; cases h; exact insertConstant_cinv hic hi
    · rename_i hic; cases h; exact cinv_err (insertConstant_cinv hic hi) _ _
    · cases h

theorem runTask_cinv {s s' : State} {t : Task} {r : Option Level} (ht : t.cok) (h : runTask s t = .ok (s', r))
    (hi : CInv s) : CInv s' := by
  cases t with
  | globalCopy n tag => exact runGlobalCopy_cinv h hi
  | use n c tag g => exact runUse_cinv ht h hi

theorem stmt_cinv {s s' : State} {op : Op} {r : Option Level} (h : stmt s op = .ok (s', r)) (hi : CInv s) : CInv s' := by
  cases op with
  | enter tag => simp only [stmt] at h; cases h; exact hi
  | exit => simp only [stmt] at h; cases h; exact hi
  | finalize => simp only [stmt] at h; cases h; exact hi
  | use n tag => exact doUse_cinv h hi
  | label n v tag =>
    simp only [stmt] at h
    unfold doLabel at h
    split at h
    · cases h
    · rename_i hic; cases h; exact insertConstant_cinv hic hi
    · rename_i hic; cases h; exact cinv_err (insertConstant_cinv hic hi) _ _
    · rename_i hic; cases h; exact cinv_err (insertConstant_cinv hic hi) _ _
  | const n v tag =>
    simp only [stmt] at h
    unfold doConst at h
    split at h
    · cases h
    · rename_i hic; cases h; exact insertConstant_cinv hic hi
    · rename_i hic; cases h; exact cinv_err (insertConstant_cinv hic hi) _ _
    · rename_i hic; cases h; exact cinv_err (insertConstant_cinv hic hi) _ _
  | «import» n tag =>
    simp only [stmt] at h
    unfold doImport at h
    split at h
    · cases h
    · cases h; exact cinv_err hi _ _
    · split at h
      · cases h
      · rename_i hd; cases h; exact deferConstant_cinv hd hi
      · rename_i hd; cases h; exact cinv_err (deferConstant_cinv hd hi) _ _
      · cases h
    · split at h
      · cases h
      · rename_i hic; cases h; exact insertConstant_cinv hic hi
      · rename_i hic; cases h; exact cinv_err (insertConstant_cinv hic hi) _ _
      · cases h
  | «export» n tag =>
    simp only [stmt] at h
    unfold doExport at h
    split at h
    · cases h
    · cases h; exact cinv_err hi _ _
    · cases h; exact cinv_err hi _ _
    · split at h
      · cases h
      · rename_i hic; cases h; exact insertConstant_cinv hic hi
      · rename_i hic; cases h; exact cinv_err (insertConstant_cinv hic hi) _ _
      · cases h
  | global n tag =>
    simp only [stmt] at h
    unfold doGlobal at h
    split at h
    · cases h
    · rename_i hd; cases h; exact cinv_err (deferConstant_cinv hd hi) _ _
    · rename_i hd; cases h; exact cinv_err (deferConstant_cinv hd hi) _ _
    · rename_i s1 hd
      have i1 := deferConstant_cinv hd hi
      split at h
      · cases h
      · split at h
        · cases h
        · cases h
        · cases h
        · rename_i hic; cases h; exact insertConstant_cinv hic i1
      · split at h
        · cases h
        · cases h
        · rename_i s2 hd2
          split at h
          · cases h
          · rename_i hadd; cases h; exact addTask_cinv hadd (deferConstant_cinv hd2 i1) trivial
      · split at h
        · cases h
        · rename_i hadd; cases h; exact addTask_cinv hadd i1 trivial

theorem drain_cinv : ∀ (ts : List Task) {s s' : State} {r r' : Option Level}, (∀ t ∈ ts, t.cok) → CInv s →
    drain s r ts = .ok (s', r') → CInv s'
  | [], s, s', r, r', _, hi, h => by simp only [drain] at h; cases h; exact hi
  | t :: ts, s, s', r, r', ht, hi, h => by
    simp only [drain] at h
    split at h
    · cases h
    · rename_i s1 h1
      exact drain_cinv ts (fun x hx => ht x (by simp [hx])) (runTask_cinv (ht t (by simp)) h1 hi) h
    · rename_i s1 lvl h1
      have i1 := runTask_cinv (ht t (by simp)) h1 hi
      split at h
      · cases h; exact i1
      · exact drain_cinv ts (fun x hx => ht x (by simp [hx])) i1 h

theorem cinv_clearLocal {s : State} (h : CInv s) : CInv { s with localTasks := some [] } :=
  ⟨h.g, (fun q hq t ht => by cases hq; cases ht), h.f⟩

theorem localLoop_cinv : ∀ (fuel : Nat) {s s' : State} {r r' : Option Level} (ts : List Task), (∀ t ∈ ts, t.cok) →
    CInv s → localLoop fuel s r ts = .ok (s', r') → CInv s'
  | _, s, s', r, r', [], _, hi, h => by simp only [localLoop] at h; cases h; exact hi
  | 0, s, s', r, r', _ :: _, _, _, h => by simp only [localLoop] at h; cases h
  | fuel + 1, s, s', r, r', t :: ts, ht, hi, h => by
    simp only [localLoop] at h
    split at h
    · cases h
    · rename_i s1 r1 hd
      have i1 := drain_cinv (t :: ts) ht hi hd
      split at h
      · cases h
      · rename_i next hn
        split at h
        · cases h; exact cinv_clearLocal i1
        · exact localLoop_cinv fuel next (i1.l next hn) (cinv_clearLocal i1) h

theorem enterFile_cinv {s : State} (h : CInv s) (tag : Nat) : CInv (enterFile s tag) := by
  have hfr : ∀ (sv : Saved), (∀ q, sv.tasks = some q → ∀ t ∈ q, t.cok) →
      ∀ fr ∈ sv :: s.frames, ∀ q, fr.tasks = some q → ∀ t ∈ q, t.cok := by
    intro sv hsv fr hfr
    rcases List.mem_cons.1 hfr with rfl | hfr
    · exact hsv
    · exact h.f fr hfr
  have hnil : ∀ q, some ([] : List Task) = some q → ∀ t ∈ q, t.cok := fun q hq t ht => by cases hq; cases ht
  unfold enterFile
  cases hl : s.locals <;> cases hq : s.localTasks <;> simp only
  · exact ⟨h.g, hnil, hfr _ (fun q hq' => by cases hq')⟩
  · exact ⟨h.l _ hq, hnil, hfr _ (fun q hq' => by cases hq'; exact h.g)⟩
  · exact ⟨h.g, hnil, hfr _ (fun q hq' => by cases hq')⟩
  · exact ⟨h.l _ hq, hnil, hfr _ (fun q hq' => by cases hq'; exact h.g)⟩

theorem intoInner_cinv {s s' : State} {f : Saved} {fs : List Saved} (hf : s.frames = f :: fs) (hi : CInv s)
    (h : intoInner s f fs = .ok s') : CInv s' := by
  have hfs : ∀ fr ∈ fs, ∀ q, fr.tasks = some q → ∀ t ∈ q, t.cok :=
    fun fr hfr => hi.f fr (by rw [hf]; exact List.mem_cons_of_mem _ hfr)
  have hf0 : ∀ q, f.tasks = some q → ∀ t ∈ q, t.cok := hi.f f (by rw [hf]; exact List.mem_cons_self)
  unfold intoInner at h
  split at h
  · cases h
  · split at h
    · cases h
    · cases hc : f.constants <;> cases ht : f.tasks <;> simp only [hc, ht] at h <;> cases h
      · exact ⟨hi.g, (fun q hq => by cases hq), hfs⟩
      · exact ⟨hf0 _ ht, (fun q hq => by cases hq; exact hi.g), hfs⟩
      · exact ⟨hi.g, (fun q hq => by cases hq), hfs⟩
      · exact ⟨hf0 _ ht, (fun q hq => by cases hq; exact hi.g), hfs⟩

theorem exitFile_cinv {s s' : State} {r : Option Level} (hi : CInv s) (h : exitFile s r = .ok s') : CInv s' := by
  unfold exitFile at h
  split at h
  · cases h; exact hi
  · rename_i f fs hf
    simp only at h
    split at h
    · cases h
    · rename_i mid r' hloop
      have im : CInv mid ∧ mid.frames = f :: fs := by
        split at hloop
        · cases hloop; exact ⟨hi, hf⟩
        · split at hloop
          · cases hloop
          · rename_i tasks ht
            have i0 : CInv ({ s with localTasks := some [] } : State) := cinv_clearLocal hi
            refine ⟨localLoop_cinv 2 tasks (hi.l tasks ht) i0 hloop, ?_⟩
            have := (eff_localLoop 2 tasks hloop).frames
            exact this.trans hf
      split at h
      · cases h
      · rename_i s2 hin
        have i2 := intoInner_cinv im.2 im.1 hin
        split at h <;> cases h
        · exact cinv_of_queues i2 rfl rfl rfl
        · exact cinv_of_queues i2 rfl rfl rfl

theorem drainFinal_cinv : ∀ (ts : List Task) {s s' : State} {b : Bool}, (∀ t ∈ ts, t.cok) → CInv s →
    drainFinal s ts = .ok (s', b) → CInv s'
  | [], s, s', b, _, hi, h => by simp only [drainFinal] at h; cases h; exact hi
  | t :: ts, s, s', b, ht, hi, h => by
    simp only [drainFinal] at h
    split at h
    · cases h
    · rename_i s1 h1; cases h; exact runTask_cinv (ht t (by simp)) h1 hi
    · rename_i s1 r1 _ h1
      exact drainFinal_cinv ts (fun x hx => ht x (by simp [hx])) (runTask_cinv (ht t (by simp)) h1 hi) h

theorem cinv_clearGlobal {s : State} (h : CInv s) : CInv { s with globalTasks := [] } :=
  ⟨(fun t ht => by cases ht), h.l, h.f⟩

theorem finalLoop_cinv : ∀ (fuel : Nat) {s s' : State} {b : Bool} (ts : List Task), (∀ t ∈ ts, t.cok) → CInv s →
    finalLoop fuel s ts = .ok (s', b) → CInv s'
  | _, s, s', b, [], _, hi, h => by simp only [finalLoop] at h; cases h; exact hi
  | 0, s, s', b, _ :: _, _, _, h => by simp only [finalLoop] at h; cases h
  | fuel + 1, s, s', b, t :: ts, ht, hi, h => by
    simp only [finalLoop] at h
    split at h
    · cases h
    · rename_i s1 ab hd
      have i1 := drainFinal_cinv (t :: ts) ht hi hd
      split at h
      · cases h; exact cinv_clearGlobal i1
      · exact finalLoop_cinv fuel s1.globalTasks i1.g (cinv_clearGlobal i1) h

theorem finalize_cinv {s s' : State} (hi : CInv s) (h : finalize s = .ok s') : CInv s' := by
  unfold finalize at h
  split at h
  · cases h
  · rename_i s1 ab hl
    cases h
    exact cinv_of_queues (finalLoop_cinv 3 s.globalTasks hi.g (cinv_clearGlobal hi) hl) rfl rfl rfl

theorem step_cinv {s s' : State} {op : Op} (hi : CInv s) (h : step s op = .ok s') : CInv s' := by
  unfold step at h
  split at h
  · cases h; exact cinv_of_queues hi rfl rfl rfl
  · cases h; exact cinv_of_queues hi rfl rfl rfl
  · exact exitFile_cinv hi h
  · cases h; exact hi
  · cases h; exact enterFile_cinv hi _
  · exact exitFile_cinv hi h
  · exact finalize_cinv hi h
  · split at h
    · cases h; exact hi
    · split at h
      · cases h
      · rename_i hs; cases h; exact stmt_cinv hs hi
      · rename_i hs; cases h; exact cinv_of_queues (stmt_cinv hs hi) rfl rfl rfl

theorem run_cinv : ∀ (ops : List Op) {s s' : State}, CInv s → run s ops = .ok s' → CInv s'
  | [], s, s', hi, h => by simp only [run] at h; cases h; exact hi
  | op :: ops, s, s', hi, h => by
    simp only [run] at h
    split at h
    · cases h
    · rename_i s1 hs; exact run_cinv ops (step_cinv hi hs) h

theorem reach_cinv {s0 : State} (h0 : CInv s0) : ∀ (ctx : List (Nat × Body)) {s : State}, Reach s0 ctx s → CInv s
  | [], s, h => by cases h; exact h0
  | (tag, pre) :: outer, s, ⟨so, hr, _, hrun⟩ => run_cinv _ (reach_cinv h0 outer hr) hrun

/-- with `CInv`, the cached alternative of a retry event is impossible: the value was read from the table -/
theorem RetryEv.resolved {ts : List Task} {T : Table} {e : Ev} (h : RetryEv ts T e) (hc : ∀ t ∈ ts, t.cok) :
    (∃ tag k, e = .diag tag k) ∨
    ∃ n tag g v, Task.use n none tag g ∈ ts ∧ e = .value tag v (if g then 2 else 1) ∧ T.find n = some (some v) := by
  rcases h with h | ⟨n, c, tag, g, v, hm, he, hcase⟩
  · exact .inl h
  · rcases hcase with ⟨rfl, hr⟩ | ⟨rfl, hf⟩
    · exact absurd hr (hc _ hm v rfl)
    · exact .inr ⟨n, tag, g, v, hm, he, hf⟩

/-- `Context::finalize` outside any file (the real global list holds rescheduled `.du32`s only): what it adds to the log
before its verdict are diagnostics and the values of those `.du32 n`, resolved in the global table -/
theorem finalize_retried {s s' : State} (hi : Inv s) (hd : s.depth = 0) (h : finalize s = .ok s') :
    ∃ add b, s'.log = .done b :: (add ++ s.log) ∧ ∀ e ∈ add, RetryEv s.globalTasks s.globals e := by
  have hgu : ∀ t ∈ s.globalTasks, t.isGU := hi.vis.bot (by rw [← hi.depth, hd]; exact Nat.zero_le _)
  have hT : evalTab ({ s with globalTasks := [] } : State) = some s.globals := by simp [evalTab, hd]
  unfold finalize at h
  split at h
  · cases h
  · rename_i s1 ab hl
    cases h
    have key : Retried s.globalTasks s.globals ({ s with globalTasks := [] } : State) s1 := by
      cases hts : s.globalTasks with
      | nil => rw [hts] at hl; simp only [finalLoop] at hl; cases hl; exact .refl _ _ _
      | cons t ts =>
        rw [hts] at hl hgu
        simp only [finalLoop] at hl
        split at hl
        · cases hl
        · rename_i s2 ab2 hdr
          obtain ⟨a1, _, _⟩ := drainFinal_retried (t :: ts) hT (fun _ => hgu) hdr
          obtain ⟨s2', b2', h2', _, _, _, gu2⟩ := drainFinal_ok (t :: ts) (vis_clearGlobal hi.vis)
            (fun h0 => absurd hd h0) (fun _ => hgu) (fun x hx => Task.ok_of_isGU (hgu x hx))
          rw [hdr] at h2'; cases h2'
          have hn : s2.globalTasks = [] := gu2 hgu
          have a2 : Retried (t :: ts) s.globals s2 { s2 with globalTasks := [] } := .of_log rfl
          split at hl
          · cases hl; exact a1.trans a2
          · rw [hn] at hl; simp only [finalLoop] at hl; cases hl; exact a1.trans a2
    obtain ⟨add, hadd, hev⟩ := key
    exact ⟨add, _, by rw [hadd], hev⟩

end Trion.Scope
