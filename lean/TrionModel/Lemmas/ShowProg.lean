import TrionModel.Lemmas.ShowParts
import TrionModel.Lemmas.ParseVals
import TrionModel.Lemmas.AsmShow
/-!
# A one-statement program around the disassembly text, through the whole pipeline model

`progText i a` = `.addr <a>;` newline, then — if the text of `i` mentions a label — `.const l_XXXXXXXX, <target>;`
newline, then `Show.text i a`. `parseFile_prog`: the tokenizer and parser models read it as those two or three
statements.
-/
namespace Trion.Show
open Trion.Lex Trion.Front

/-- the pieces of `.NAME a, b;` -/
def dirPieces (p : Bytes × List Arg) : List Piece := .tok [46] .dirMark :: stmtPieces p

theorem pbytes_dir (p : Bytes × List Arg) (h : ∀ x ∈ p.2, Opnd x) : pbytes (dirPieces p) = bytesOf "." ++ render p := by
  simp [dirPieces, pbytes, Piece.bytes, pbytes_stmt p h, bytesOf]

theorem valid_dir (p : Bytes × List Arg) (hn : identOk p.1 = true) (h : ∀ x ∈ p.2, Opnd x) (nx : Option UInt8) :
    Valid (dirPieces p) nx :=
  ⟨TokOk.punct 46 .dirMark _ (by decide) (by decide), valid_stmt p hn h nx⟩

theorem tokVals_dir (p : Bytes × List Arg) (h : ∀ x ∈ p.2, Opnd x) :
    tokVals (dirPieces p) = Render.elemVal (.directive p.1 (Args.ofList p.2)) := by
  have := tokVals_stmt p h
  simp only [Render.elemVal] at this
  simp [dirPieces, tokVals, Render.elemVal, this]

theorem dir_wf (p : Bytes × List Arg) (hn : identOk p.1 = true) (h : ∀ x ∈ p.2, Opnd x) :
    (ElemVal.directive p.1 (Args.ofList p.2)).wf := stmt_wf p hn h

/-- a line break -/
def nl : Piece := .ws [10]

/-- the statements in front of the instruction: `.addr a`, and the definition of the label the text mentions -/
def preStmts (i : Instr) (a : Nat) : List (Bytes × List Arg) :=
  (bytesOf "addr", [.const a]) ::
    (match targetOf i a with
     | none => []
     | some t => [(bytesOf "const", [.ident (label t), .const t])])

def progPieces (i : Instr) (a : Nat) : List Piece :=
  ((preStmts i a).map fun p => dirPieces p ++ [nl]).flatten ++ stmtPieces (parts i a)

/-- the program text: `.addr <a>;⏎`, `.const l_XXXXXXXX, <t>;⏎` if the text mentions a label, then the text -/
def progText (i : Instr) (a : Nat) : Bytes :=
  ((preStmts i a).map fun p => bytesOf "." ++ render p ++ [10]).flatten ++ text i a

def progVals (i : Instr) (a : Nat) : List ElemVal :=
  (preStmts i a).map (fun p => ElemVal.directive p.1 (Args.ofList p.2)) ++
    [.instruction (parts i a).1 (Args.ofList (parts i a).2)]

theorem pre_ok (i : Instr) (a : Nat) (ha : a < 4294967296) (ht : ∀ t, targetOf i a = some t → t < 4294967296) :
    ∀ p ∈ preStmts i a, identOk p.1 = true ∧ ∀ x ∈ p.2, Opnd x := by
  intro p hp
  simp only [preStmts, List.mem_cons] at hp
  rcases hp with rfl | hp
  · refine ⟨by dsimp only; decide, ?_⟩
    intro x hx; simp at hx; subst hx
    exact opnd_const _ ⟨by omega, by simp [i64Max]; omega⟩
  · cases htt : targetOf i a with
    | none => rw [htt] at hp; simp at hp
    | some t =>
      rw [htt] at hp
      simp at hp; subst hp
      refine ⟨by dsimp only; decide, ?_⟩
      intro x hx; simp at hx
      rcases hx with rfl | rfl
      · exact opnd_lblA t
      · have := ht t htt
        exact opnd_const _ ⟨by omega, by simp [i64Max]; omega⟩

theorem valid_flat (l : List (Bytes × List Arg)) (h : ∀ p ∈ l, identOk p.1 = true ∧ ∀ x ∈ p.2, Opnd x)
    (rest : List Piece) (nx : Option UInt8) (hr : Valid rest nx) :
    Valid ((l.map fun p => dirPieces p ++ [nl]).flatten ++ rest) nx := by
  induction l with
  | nil => simpa using hr
  | cons p l ih =>
    have hp := h p (by simp)
    simp only [List.map_cons, List.flatten_cons, List.append_assoc]
    refine valid_append (valid_dir p hp.1 hp.2 _) ?_
    exact ⟨by decide, ih (fun q hq => h q (by simp [hq]))⟩

theorem pbytes_flat (l : List (Bytes × List Arg)) (h : ∀ p ∈ l, ∀ x ∈ p.2, Opnd x) :
    pbytes ((l.map fun p => dirPieces p ++ [nl]).flatten) = (l.map fun p => bytesOf "." ++ render p ++ [10]).flatten := by
  induction l with
  | nil => rfl
  | cons p l ih =>
    simp only [List.map_cons, List.flatten_cons, pbytes_append, pbytes_dir p (h p (by simp)),
      ih (fun q hq => h q (by simp [hq]))]
    simp [pbytes, Piece.bytes, nl]

theorem tokVals_flat (l : List (Bytes × List Arg)) (h : ∀ p ∈ l, ∀ x ∈ p.2, Opnd x) :
    tokVals ((l.map fun p => dirPieces p ++ [nl]).flatten) =
      ((l.map fun p => ElemVal.directive p.1 (Args.ofList p.2)).map Render.elemVal).flatten := by
  induction l with
  | nil => rfl
  | cons p l ih =>
    simp only [List.map_cons, List.flatten_cons, tokVals_append, tokVals_dir p (h p (by simp)),
      ih (fun q hq => h q (by simp [hq]))]
    simp [tokVals, nl]

/-- **the tokenizer and the parser on the program text**: exactly the two or three statements, no error -/
theorem parseFile_prog (i : Instr) (a : Nat) (hl : LitOk i) (ha : a < 4294967296)
    (ht : ∀ t, targetOf i a = some t → t < 4294967296) :
    ∃ els, Asm.parseFile (progText i a) = .ok (els, none) ∧ els.map (·.val) = progVals i a := by
  have hpre := pre_ok i a ha ht
  have hargs := args_ok i a hl
  have hv : Valid (progPieces i a) none :=
    valid_flat _ hpre _ none (valid_stmt (parts i a) (name_ok i a) hargs none)
  have hb : pbytes (progPieces i a) = progText i a := by
    simp only [progPieces, progText, pbytes_append, pbytes_flat _ (fun p hp => (hpre p hp).2), pbytes_stmt _ hargs,
      text_eq_render_proof]
  have hvals : (lexed (1, 1) (progPieces i a)).map (·.val) = ((progVals i a).map Render.elemVal).flatten := by
    rw [lexed_vals]
    simp only [progPieces, progVals, tokVals_append, tokVals_flat _ (fun p hp => (hpre p hp).2), tokVals_stmt _ hargs,
      List.map_append, List.flatten_append]
    simp
  have hwf : ∀ ev ∈ progVals i a, ev.wf := by
    intro ev hev
    simp only [progVals, List.mem_append, List.mem_map, List.mem_singleton] at hev
    rcases hev with ⟨p, hp, rfl⟩ | rfl
    · exact dir_wf p (hpre p hp).1 (hpre p hp).2
    · exact stmt_wf _ (name_ok i a) hargs
  have hlex := tokens_pieces _ hv
  rw [hb] at hlex
  obtain ⟨els, hall, hels⟩ := Parse.all_of_vals (progVals i a) hwf _ hvals
    (Pos.adv (1, 1) (progText i a)).1 (Pos.adv (1, 1) (progText i a)).2
  exact ⟨els, by simp [Asm.parseFile, hlex, hall], hels⟩

theorem targetOf_lt (i : Instr) (a t : Nat) (h : targetOf i a = some t) : t < 4294967296 := by
  cases i <;> simp only [targetOf] at h <;> try cases h
  case adr d off => have := wrapAdd_lt (alPc a) off; omega
  case b c off => have := wrapAdd_lt (pcOf a) off; omega
  case bl off => have := wrapAdd_lt (pcOf a) off; omega
  case ldr d ad o =>
    cases o with
    | reg r => cases h
    | imm off =>
      simp only at h
      split at h
      · cases h; have := wrapAdd_lt (alPc a) off; omega
      · cases h

theorem cur_empty (a m : Nat) (ha : a < 4294967296) : Seg.Active.cur ⟨a, [], m⟩ = a := by
  simp [Seg.Active.cur, Map.u32Max]; omega

/-- the symbol table after the statements in front of the instruction -/
def progTable (i : Instr) (a : Nat) : Asm.Table :=
  match targetOf i a with
  | none => []
  | some t => [(label t, some (t : Int))]

theorem progTable_get (i : Instr) (a : Nat) : ∀ t, targetOf i a = some t → (progTable i a).get (label t) = .found (t : Int) := by
  intro t ht
  simp [progTable, ht, Asm.Table.get, Asm.Table.find]

/-- **The one-statement program through the whole pipeline model.** If the printed statement builds (over the table
the program defines) to `i` and the encoder accepts `i`, then `Asm.run` on the program succeeds without a diagnostic
and its image is exactly the encoding of `i` at `a`. -/
theorem run_prog (i : Instr) (a : Nat) (hl : LitOk i) (hws : List Nat) (he : Codec.encode i = .ok hws)
    (hlen : hws.length = 1 ∨ hws.length = 2) (hfit : a + 2 * hws.length ≤ 4294967296)
    (hbuild : build a (parts i a).1 (parts i a).2 (Asm.frontEval (progTable i a)) true = .completed i)
    (fs : Bytes → Option Bytes) (main : Bytes) (hfs : fs main = some (progText i a)) :
    Asm.run fs main = .done ⟨true, none, true, [], [(a, (Codec.toBytes hws).map (·.toUInt8))]⟩ := by
  have ha : a < 4294967296 := by omega
  obtain ⟨els, hparse, hels⟩ := parseFile_prog i a hl ha (targetOf_lt i a)
  have henc := Asm.encoder_ok i hws he (by omega)
  have hblen : ((Codec.toBytes hws).map (·.toUInt8)).length = 2 * hws.length := by
    simp [Asm.toBytes_length]
  let seg : Seg.Active := ⟨a, [] ++ (Codec.toBytes hws).map (·.toUInt8), Map.u32Max - a + 1⟩
  have key : Asm.doAssemble fs Asm.encoder (Asm.assembleFile fs Asm.encoder (Asm.maxDepth - 1)) ⟨[main], main⟩ els none
      ⟨Seg.init, [], some [], [], some [], []⟩ =
      .ok (⟨⟨[], some seg, [(a, ((Codec.toBytes hws).map (·.toUInt8)).length)]⟩, [], some (progTable i a), [], some [], []⟩, .ok) := by
    -- the instruction statement, from the state after the definitions
    have hinstr : ∀ (l c : Nat),
        Asm.statement fs Asm.encoder (Asm.assembleFile fs Asm.encoder (Asm.maxDepth - 1)) ⟨[main], main⟩
          ⟨⟨[], some ⟨a, [], Map.u32Max - a + 1⟩, []⟩, [], some (progTable i a), [], some [], []⟩
          ⟨l, c, .instruction (parts i a).1 (Args.ofList (parts i a).2)⟩ =
        .ok (⟨⟨[], some seg, [(a, ((Codec.toBytes hws).map (·.toUInt8)).length)]⟩, [], some (progTable i a), [], some [], []⟩, .ok) := by
      intro l c
      have := Asm.instr_ok fs Asm.encoder (Asm.assembleFile fs Asm.encoder (Asm.maxDepth - 1)) ⟨[main], main⟩
        ⟨⟨[], some ⟨a, [], Map.u32Max - a + 1⟩, []⟩, [], some (progTable i a), [], some [], []⟩ (progTable i a)
        (by simp) rfl l c (parts i a).1 (Args.ofList (parts i a).2) [] ⟨a, [], Map.u32Max - a + 1⟩ [] rfl i
        (by rw [cur_empty a _ ha, toList_ofList]; exact hbuild) _ henc
        (by simp only [hblen, List.length_nil, Map.u32Max]; omega)
      rw [this, cur_empty a _ ha]
    have haddr : ∀ (l c : Nat) (tbl : Asm.Table),
        Asm.statement fs Asm.encoder (Asm.assembleFile fs Asm.encoder (Asm.maxDepth - 1)) ⟨[main], main⟩
          ⟨Seg.init, [], some tbl, [], some [], []⟩ ⟨l, c, .directive (bytesOf "addr") (Args.ofList [.const a])⟩ =
        .ok (⟨⟨[], some ⟨a, [], Map.u32Max - a + 1⟩, []⟩, [], some tbl, [], some [], []⟩, .ok) := by
      intro l c tbl
      have := Asm.addr_ok fs (Asm.assembleFile fs Asm.encoder (Asm.maxDepth - 1)) ⟨[main], main⟩
        ⟨Seg.init, [], some tbl, [], some [], []⟩ tbl (by simp) rfl rfl l c (a : Int) (by omega) (by omega)
      simp only [Asm.statement, toList_ofList, this]
      simp
    cases htt : targetOf i a with
    | none =>
      have hv : progVals i a = [.directive (bytesOf "addr") (Args.ofList [.const a]),
          .instruction (parts i a).1 (Args.ofList (parts i a).2)] := by
        simp [progVals, preStmts, htt]
      rw [hv] at hels
      obtain ⟨e1, r1, rfl, h1, hr1⟩ := List.map_eq_cons_iff.mp hels
      obtain ⟨e2, r2, rfl, h2, hr2⟩ := List.map_eq_cons_iff.mp hr1
      have : r2 = [] := by simpa using hr2
      subst this
      obtain ⟨l1, c1, v1⟩ := e1
      obtain ⟨l2, c2, v2⟩ := e2
      simp only at h1 h2
      subst h1 h2
      have hpt : progTable i a = [] := by simp [progTable, htt]
      simp only [Asm.doAssemble]
      rw [haddr l1 c1 []]
      simp only
      have h2 := hinstr l2 c2
      rw [hpt] at h2 ⊢
      rw [h2]
    | some t =>
      have hv : progVals i a = [.directive (bytesOf "addr") (Args.ofList [.const a]),
          .directive (bytesOf "const") (Args.ofList [.ident (label t), .const t]),
          .instruction (parts i a).1 (Args.ofList (parts i a).2)] := by
        simp [progVals, preStmts, htt]
      rw [hv] at hels
      obtain ⟨e1, r1, rfl, h1, hr1⟩ := List.map_eq_cons_iff.mp hels
      obtain ⟨e2, r2, rfl, h2, hr2⟩ := List.map_eq_cons_iff.mp hr1
      obtain ⟨e3, r3, rfl, h3, hr3⟩ := List.map_eq_cons_iff.mp hr2
      have : r3 = [] := by simpa using hr3
      subst this
      obtain ⟨l1, c1, v1⟩ := e1
      obtain ⟨l2, c2, v2⟩ := e2
      obtain ⟨l3, c3, v3⟩ := e3
      simp only at h1 h2 h3
      subst h1 h2 h3
      have hpt : progTable i a = [(label t, some (t : Int))] := by simp [progTable, htt]
      have hconst : Asm.statement fs Asm.encoder (Asm.assembleFile fs Asm.encoder (Asm.maxDepth - 1)) ⟨[main], main⟩
          ⟨⟨[], some ⟨a, [], Map.u32Max - a + 1⟩, []⟩, [], some [], [], some [], []⟩
          ⟨l2, c2, .directive (bytesOf "const") (Args.ofList [.ident (label t), .const t])⟩ =
          .ok (⟨⟨[], some ⟨a, [], Map.u32Max - a + 1⟩, []⟩, [], some (progTable i a), [], some [], []⟩, .ok) := by
        have := Asm.const_ok fs (Asm.assembleFile fs Asm.encoder (Asm.maxDepth - 1)) ⟨[main], main⟩
          ⟨⟨[], some ⟨a, [], Map.u32Max - a + 1⟩, []⟩, [], some [], [], some [], []⟩ [] (by simp) rfl l2 c2 (label t) (t : Int)
          (isRegister_label t) rfl
        simp only [Asm.statement, toList_ofList, this, hpt]
        simp [Asm.Table.set]
      simp only [Asm.doAssemble]
      rw [haddr l1 c1 []]
      simp only
      rw [hconst]
      simp only
      rw [hinstr l3 c3]
  have hrun := Asm.run_of_statements fs main (progText i a) hfs els hparse (progTable i a) seg
    [(a, ((Codec.toBytes hws).map (·.toUInt8)).length)] key
    (by
      intro e
      have e' : (([] : Bytes) ++ (Codec.toBytes hws).map (·.toUInt8)) = [] := e
      have := congrArg List.length e'
      simp only [List.nil_append, hblen, List.length_nil] at this
      omega)
    (by show a + (([] : Bytes) ++ (Codec.toBytes hws).map (·.toUInt8)).length ≤ 4294967296
        simp only [List.nil_append, hblen]; exact hfit)
  simpa [seg] using hrun

end Trion.Show
