import TrionModel.Lemmas.AsmDir
/-!
# `Trion.Asm`: statements, task loops, files and `finalize` keep the invariant and do not panic
-/
namespace Trion.Asm
open Trion

/-- what the recursive call of `.include` has to satisfy -/
def IncOk (inc : Inc) : Prop := ∀ env st data path, Good true st → Safe true st (inc env st data path)

theorem includeDirective_safe {inc : Inc} (hinc : IncOk inc) {env : Env} {st : St} (h : Good true st)
    (fs : Bytes → Option Bytes) (line col : Nat) (args : List Arg) :
    Safe true st (includeDirective fs inc env st line col args) := by
  unfold includeDirective
  split
  · exact safe_push h ..
  · rename_i har
    obtain ⟨a, rfl⟩ := arity_one har
    cases a with
    | str p =>
      simp only
      split
      · exact safe_push h ..
      · rename_i data _
        have hi := fun path => hinc env st data path h
        split
        · rename_i st1 hr
          obtain ⟨g, e⟩ := (hi _).2 _ _ hr
          exact ⟨by simp, fun st' x eq => by cases eq; exact ⟨g, e⟩⟩
        · rename_i st1 l hr
          obtain ⟨g, e⟩ := (hi _).2 _ _ hr
          exact ⟨by simp, fun st' x eq => by cases eq; exact ⟨good_push g .., e.trans (ext_push ..)⟩⟩
        · rename_i r hr
          exact ⟨fun e => by cases e; exact (hi _).1 hr, fun st' x eq => by cases eq⟩
    | _ => exact safe_push h ..

theorem directive_safe {inc : Inc} (hinc : IncOk inc) {env : Env} {st : St} (h : Good true st)
    (hb : env.paths.isEmpty = false) (fs : Bytes → Option Bytes) (line col : Nat) (name : Bytes) (args : List Arg) :
    Safe true st (directive fs inc env st line col name args) := by
  delta directive
  by_cases h0 : name = bytesOf "addr"
  · rw [if_pos h0]; exact addrDirective_safe h hb ..
  rw [if_neg h0]
  by_cases h1 : name = bytesOf "align"
  · rw [if_pos h1]; exact alignDirective_safe h hb ..
  rw [if_neg h1]
  by_cases h2 : name = bytesOf "const"
  · rw [if_pos h2]; exact constDirective_safe h hb ..
  rw [if_neg h2]
  by_cases h3 : name = bytesOf "du8"
  · rw [if_pos h3]; exact duDirective_safe h hb ..
  rw [if_neg h3]
  by_cases h4 : name = bytesOf "du16"
  · rw [if_pos h4]; exact duDirective_safe h hb ..
  rw [if_neg h4]
  by_cases h5 : name = bytesOf "du32"
  · rw [if_pos h5]; exact duDirective_safe h hb ..
  rw [if_neg h5]
  by_cases h6 : name = bytesOf "dhex"
  · rw [if_pos h6]; exact stringDirective_safe h hb ..
  rw [if_neg h6]
  by_cases h7 : name = bytesOf "dstr"
  · rw [if_pos h7]; exact stringDirective_safe h hb ..
  rw [if_neg h7]
  by_cases h8 : name = bytesOf "dfile"
  · rw [if_pos h8]; exact stringDirective_safe h hb ..
  rw [if_neg h8]
  by_cases h9 : name = bytesOf "global"
  · rw [if_pos h9]; exact globalDirective_safe h ..
  rw [if_neg h9]
  by_cases h10 : name = bytesOf "import"
  · rw [if_pos h10]; exact globalDirective_safe h ..
  rw [if_neg h10]
  by_cases h11 : name = bytesOf "export"
  · rw [if_pos h11]; exact globalDirective_safe h ..
  rw [if_neg h11]
  by_cases h12 : name = bytesOf "include"
  · rw [if_pos h12]; exact includeDirective_safe hinc h ..
  rw [if_neg h12]
  exact safe_push h ..

theorem statement_safe {enc : Encoder} (henc : EncLen enc) {inc : Inc} (hinc : IncOk inc) {env : Env} {st : St}
    (h : Good true st) (hb : env.paths.isEmpty = false) (fs : Bytes → Option Bytes) (el : Element) :
    Safe true st (statement fs enc inc env st el) := by
  unfold statement
  split
  · exact directive_safe hinc h hb ..
  · split
    · exact safe_push h ..
    · have ic := insertConstant_safe h ‹Bytes› (‹Nat› : Int) .loc (fun _ => rfl)
      split
      · rename_i st1 _ hic
        obtain ⟨g1, e1⟩ := ic.2 _ _ hic
        exact ⟨by simp, fun st' x eq => by cases eq; exact ⟨g1, e1⟩⟩
      · rename_i st1 e hic
        obtain ⟨g1, e1⟩ := ic.2 _ _ hic
        exact ⟨by simp, fun st' x eq => by cases eq; exact ⟨good_push g1 .., e1.trans (ext_push ..)⟩⟩
      · rename_i r hic
        exact ⟨fun e => by cases e; exact ic.1 hic, fun st' x eq => by cases eq⟩
  · split
    · exact safe_push h ..
    · rename_i hact
      exact instruction_safe henc h hb (by
        cases ha : st.seg.active with
        | none => simp [ha] at hact
        | some _ => rfl) ..

theorem doAssemble_safe {enc : Encoder} (henc : EncLen enc) {inc : Inc} (hinc : IncOk inc) {env : Env}
    (hb : env.paths.isEmpty = false) (fs : Bytes → Option Bytes) (err : Option ParseErr) :
    ∀ (els : List Element) (st : St), Good true st → Safe true st (doAssemble fs enc inc env els err st) := by
  intro els
  induction els with
  | nil =>
    intro st h
    cases err with
    | none => exact safe_ok h _
    | some e => exact safe_push h ..
  | cons el els ih =>
    intro st h
    simp only [doAssemble]
    have ss := statement_safe henc hinc h hb fs el
    split
    · rename_i st1 hs
      obtain ⟨g1, e1⟩ := ss.2 _ _ hs
      exact (ih st1 g1).from e1
    · rename_i st1 l hs
      obtain ⟨g1, e1⟩ := ss.2 _ _ hs
      exact ⟨by simp, fun st' x eq => by cases eq; exact ⟨g1, e1⟩⟩
    · rename_i r hs
      exact ⟨fun e => by cases e; exact ss.1 hs, fun st' x eq => by cases eq⟩

/-! ## tasks -/

theorem runTask_safe {enc : Encoder} (henc : EncLen enc) {b : Bool} {env : Env} {st : St} (h : Good b st)
    (hb : env.paths.isEmpty = !b) (t : Task) (ht : TaskOk st.seg.pending t) (hc : b = false → t.notCopy = true) :
    Safe b st (runTask enc env st t) := by
  cases t with
  | data d g => exact runDataTask_safe h hb d g ht
  | instr i g => exact runInstrTask_safe henc h hb i g ht
  | globalCopy n l c =>
    cases b with
    | false => have := hc rfl; simp [Task.notCopy] at this
    | true => exact runGlobalCopy_safe h n l c ht

theorem localRound_safe {enc : Encoder} (henc : EncLen enc) {env : Env} (hb : env.paths.isEmpty = false) :
    ∀ (ts : List Task) (st : St) (res : Res), Good true st → (∀ t ∈ ts, TaskOk st.seg.pending t) →
      Safe true st (localRound enc env ts st res) := by
  intro ts
  induction ts with
  | nil => intro st res h _; exact safe_ok h _
  | cons t ts ih =>
    intro st res h hts
    simp only [localRound]
    have rt := runTask_safe henc h (by simpa using hb) t (hts t List.mem_cons_self) (fun e => by cases e)
    split
    · rename_i st1 hr
      obtain ⟨g1, e1⟩ := rt.2 _ _ hr
      exact (ih st1 res g1 (fun t' m => (hts t' (List.mem_cons_of_mem _ m)).mono e1.1)).from e1
    · rename_i st1 l hr
      obtain ⟨g1, e1⟩ := rt.2 _ _ hr
      split
      · exact ⟨by simp, fun st' x eq => by cases eq; exact ⟨g1, e1⟩⟩
      · exact (ih st1 _ g1 (fun t' m => (hts t' (List.mem_cons_of_mem _ m)).mono e1.1)).from e1
    · rename_i r hr
      exact ⟨fun e => by cases e; exact rt.1 hr, fun st' x eq => by cases eq⟩

/-- emptying the local queue of a good state -/
theorem good_clearLocal {st : St} (h : Good true st) : Good true { st with localTasks := some [] } ∧
    Ext st { st with localTasks := some [] } :=
  ⟨⟨h.inv, h.gt, fun l e t m => (by cases e; simp at m), h.gtab, h.ltab,
    fun _ => ⟨(h.inFile rfl).1, rfl⟩, fun e => by cases e⟩, Ext.refl _⟩

theorem localLoop_safe {enc : Encoder} (henc : EncLen enc) {env : Env} (hb : env.paths.isEmpty = false) :
    ∀ (n : Nat) (ts : List Task) (st : St) (res : Res), Good true st → (∀ t ∈ ts, TaskOk st.seg.pending t) →
      Safe true st (localLoop enc env n ts st res) := by
  intro n
  induction n with
  | zero => intro ts st res h _; exact ⟨by simp [localLoop], fun st' x eq => by simp [localLoop] at eq⟩
  | succ n ih =>
    intro ts st res h hts
    simp only [localLoop]
    split
    · exact safe_ok h _
    · have lr := localRound_safe henc hb ts st res h hts
      split
      · rename_i st1 res1 hr
        obtain ⟨g1, e1⟩ := lr.2 _ _ hr
        obtain ⟨new, hnew⟩ := Option.isSome_iff_exists.mp (g1.inFile rfl).2
        simp only [hnew]
        have gc := good_clearLocal g1
        split
        · exact ⟨by simp, fun st' x eq => by cases eq; exact ⟨gc.1, e1.trans gc.2⟩⟩
        · exact (ih new _ res1 gc.1 (fun t m => g1.lt new hnew t m)).from (e1.trans gc.2)
      · rename_i r hr
        exact ⟨fun e => by cases e; exact lr.1 hr, fun st' x eq => by cases eq⟩

theorem globalRound_safe {enc : Encoder} (henc : EncLen enc) {env : Env} (hb : env.paths.isEmpty = true) :
    ∀ (ts : List Task) (st : St), Good false st → (∀ t ∈ ts, TaskOk st.seg.pending t ∧ t.notCopy = true) →
      Safe false st (globalRound enc env ts st) := by
  intro ts
  induction ts with
  | nil => intro st h _; exact safe_ok h _
  | cons t ts ih =>
    intro st h hts
    simp only [globalRound]
    have rt := runTask_safe henc h (by simpa using hb) t (hts t List.mem_cons_self).1
      (fun _ => (hts t List.mem_cons_self).2)
    split
    · rename_i st1 r hr
      obtain ⟨g1, e1⟩ := rt.2 _ _ hr
      split
      · exact ⟨by simp, fun st' x eq => by cases eq; exact ⟨g1, e1⟩⟩
      · exact (ih st1 g1 (fun t' m => ⟨(hts t' (List.mem_cons_of_mem _ m)).1.mono e1.1,
          (hts t' (List.mem_cons_of_mem _ m)).2⟩)).from e1
    · rename_i r hr
      exact ⟨fun e => by cases e; exact rt.1 hr, fun st' x eq => by cases eq⟩

theorem good_clearGlobal {st : St} (h : Good false st) : Good false { st with globalTasks := [] } ∧
    Ext st { st with globalTasks := [] } :=
  ⟨⟨h.inv, fun t m => (by simp at m), h.lt, h.gtab, h.ltab, fun e => (by cases e),
    fun _ => ⟨(h.top rfl).1, (h.top rfl).2.1, fun t m => by simp at m⟩⟩, fun _ x => x, fun t m => (by simp at m), Traced.refl st⟩

theorem globalLoop_safe {enc : Encoder} (henc : EncLen enc) {env : Env} (hb : env.paths.isEmpty = true) :
    ∀ (n : Nat) (ts : List Task) (st : St), Good false st → (∀ t ∈ ts, TaskOk st.seg.pending t ∧ t.notCopy = true) →
      Safe false st (globalLoop enc env n ts st) := by
  intro n
  induction n with
  | zero => intro ts st h _; exact ⟨by simp [globalLoop], fun st' x eq => by simp [globalLoop] at eq⟩
  | succ n ih =>
    intro ts st h hts
    simp only [globalLoop]
    split
    · exact safe_ok h _
    · have gr := globalRound_safe henc hb ts st h hts
      split
      · rename_i st1 abort hr
        obtain ⟨g1, e1⟩ := gr.2 _ _ hr
        have gc := good_clearGlobal g1
        split
        · exact ⟨by simp, fun st' x eq => by cases eq; exact ⟨gc.1, e1.trans gc.2⟩⟩
        · exact (ih st1.globalTasks _ gc.1 (fun t m => ⟨g1.gt t m, (g1.top rfl).2.2 t m⟩)).from (e1.trans gc.2)
      · rename_i r hr
        exact ⟨fun e => by cases e; exact gr.1 hr, fun st' x eq => by cases eq⟩

theorem finalize_safe {enc : Encoder} (henc : EncLen enc) {st : St} (h : Good false st) :
    finalize enc Env.init st ≠ .stop .panic := by
  unfold finalize
  have gc := good_clearGlobal h
  have gl := globalLoop_safe henc (env := Env.init) rfl rounds st.globalTasks _ gc.1
    (fun t m => ⟨h.gt t m, (h.top rfl).2.2 t m⟩)
  split
  · simp
  · rename_i r hr
    intro e
    cases e
    exact gl.1 hr

/-! ## files -/

theorem parseFile_ne_panic (data : Bytes) : parseFile data ≠ .stop .panic := by
  unfold parseFile
  obtain ⟨lo, hlo⟩ := Lex.lex_total data
  obtain ⟨els, err, hp⟩ := Parse.parse_shape lo
  rw [hlo]
  simp only [hp]
  simp

theorem parseFile_cases (data : Bytes) : ∃ els err, parseFile data = .ok (els, err) := by
  unfold parseFile
  obtain ⟨lo, hlo⟩ := Lex.lex_total data
  obtain ⟨els, err, hp⟩ := Parse.parse_shape lo
  exact ⟨els, err, by rw [hlo]; simp only [hp]⟩

theorem fileBody_safe {enc : Encoder} (henc : EncLen enc) {inc : Inc} (hinc : IncOk inc) {env : Env}
    (hb : env.paths.isEmpty = false) (fs : Bytes → Option Bytes) (data : Bytes) {st : St} (h : Good true st) :
    Safe true st (fileBody fs enc inc env data st) := by
  unfold fileBody
  obtain ⟨els, err, hp⟩ := parseFile_cases data
  rw [hp]
  simp only
  have da := doAssemble_safe henc hinc hb fs err els st h
  split
  · rename_i st3 res hd
    obtain ⟨g3, e3⟩ := da.2 _ _ hd
    split
    · exact ⟨by simp, fun st' x eq => by cases eq; exact ⟨g3, e3⟩⟩
    · obtain ⟨tasks, ht⟩ := Option.isSome_iff_exists.mp (g3.inFile rfl).2
      simp only [ht]
      have gc := good_clearLocal g3
      exact (localLoop_safe henc hb rounds tasks _ res gc.1 (fun t m => g3.lt tasks ht t m)).from (e3.trans gc.2)
  · rename_i r hd
    exact ⟨fun e => by cases e; exact da.1 hd, fun st' x eq => by cases eq⟩

/-- `assemble` entered from inside a file (`.include`) -/
theorem enterFile_true {st : St} (h : Good true st) :
    ∃ c t, st.locals = some c ∧ st.localTasks = some t ∧
      enterFile st = (some st.globals, some st.globalTasks,
        { st with locals := some [], globals := c, localTasks := some [], globalTasks := t }) := by
  obtain ⟨c, hc⟩ := Option.isSome_iff_exists.mp (h.inFile rfl).1
  obtain ⟨t, ht⟩ := Option.isSome_iff_exists.mp (h.inFile rfl).2
  exact ⟨c, t, hc, ht, by simp [enterFile, hc, ht]⟩

/-- `assemble` entered from outside (the main file) -/
theorem enterFile_false {st : St} (h : Good false st) :
    enterFile st = (none, none, { st with locals := some [], localTasks := some [] }) := by
  simp [enterFile, (h.top rfl).1, (h.top rfl).2.1]

theorem assembleFile_safe {enc : Encoder} (henc : EncLen enc) (fs : Bytes → Option Bytes) :
    ∀ (fuel : Nat) (b : Bool) (env : Env) (st : St) (data path : Bytes), Good b st →
      Safe b st (assembleFile fs enc fuel env st data path) := by
  intro fuel
  induction fuel with
  | zero => intro b env st data path _; exact ⟨by simp [assembleFile], fun st' x eq => by simp [assembleFile] at eq⟩
  | succ fuel ih =>
    intro b env st data path h
    have hinc : IncOk (assembleFile fs enc fuel) := fun env st data path g => ih true env st data path g
    simp only [assembleFile, List.length_cons, Nat.add_one_ne_zero, if_false, ne_eq, not_true_eq_false]
    cases b with
    | true =>
      obtain ⟨c, t, hc, ht, he⟩ := enterFile_true h
      rw [he]
      simp only
      have g2 : Good true { st with locals := some [], globals := c, localTasks := some [], globalTasks := t } :=
        ⟨h.inv, fun t' m => h.lt t ht t' m, fun l e t' m => (by cases e; simp at m), h.ltab c hc,
          fun l e => (by cases e; exact tableOk_nil), fun _ => ⟨rfl, rfl⟩, fun e => by cases e⟩
      have fb := fileBody_safe henc hinc (env := { paths := path :: env.paths, curName := path }) rfl fs data g2
      split
      · rename_i st4 res hf
        obtain ⟨g4, e4⟩ := fb.2 _ _ hf
        refine ⟨by simp, fun st' x eq => ?_⟩
        cases eq
        simp only [leaveFile]
        refine ⟨⟨g4.inv, fun t' m => (h.gt t' m).mono e4.1, fun l e t' m => (by cases e; exact g4.gt t' m),
          h.gtab, fun l e => (by cases e; exact g4.gtab), fun _ => ⟨rfl, rfl⟩, fun e => by cases e⟩, e4.1, fun t' m => .inl m, e4.2.2⟩
      · rename_i r hf
        exact ⟨fun e => by cases e; exact fb.1 hf, fun st' x eq => by cases eq⟩
    | false =>
      rw [enterFile_false h]
      simp only
      have g2 : Good true { st with locals := some [], localTasks := some [] } :=
        ⟨h.inv, h.gt, fun l e t' m => (by cases e; simp at m), h.gtab,
          fun l e => (by cases e; exact tableOk_nil), fun _ => ⟨rfl, rfl⟩, fun e => by cases e⟩
      have fb := fileBody_safe henc hinc (env := { paths := path :: env.paths, curName := path }) rfl fs data g2
      split
      · rename_i st4 res hf
        obtain ⟨g4, e4⟩ := fb.2 _ _ hf
        refine ⟨by simp, fun st' x eq => ?_⟩
        cases eq
        simp only [leaveFile]
        refine ⟨⟨g4.inv, g4.gt, fun l e => (by cases e), g4.gtab, fun l e => (by cases e), fun e => (by cases e),
          fun _ => ⟨rfl, rfl, fun t' m => ?_⟩⟩, e4.1, e4.2.1, e4.2.2⟩
        rcases e4.2.1 t' m with m' | m'
        · exact (h.top rfl).2.2 t' m'
        · exact m'
      · rename_i r hf
        exact ⟨fun e => by cases e; exact fb.1 hf, fun st' x eq => by cases eq⟩

end Trion.Asm
