import TrionModel.Lemmas.SimpSound3
/-!
# Soundness of the simplifier, part 4: the merge, `simplify_raw`, `simplify`, `evaluate`
-/
namespace Trion.Simp
open Trion

/-- the lhs after `*lhs_val = n` -/
def lTree (op : BinOp) (l : Arg) (n : Int) : Arg :=
  match cval l with
  | some _ => .const n
  | none => setC op n l

theorem mergeTree_eq (op : BinOp) (l r : Arg) (c : Int) :
    mergeTree op l r c = match cval r with
      | some _ => lTree op l c
      | none => .bin op (lTree op l c) (dropC op r) := by
  unfold mergeTree lTree; rfl

/-! ### additive family -/

theorem preInv_addsub {op : BinOp} (h : isAddSub op = true) : preInv op = (op == .sub) := by
  cases op <;> simp_all [isAddSub, preInv]

theorem combine_addsub {op : BinOp} (h : isAddSub op = true) {s1 s2 : Bool} {c1 c2 cc : Int}
    (hc : combine op s1 s2 c1 c2 = .ok cc) : cc = c1 + sgn (s1 ^^ s2) * c2 := by
  have : combine op s1 s2 c1 c2 =
      if s1 ^^ s2 then (match checkedSub c1 c2 with | some v => .ok v | none => .error .sub)
      else (match checkedAdd c1 c2 with | some v => .ok v | none => .error .add) := by
    cases op <;> first | rfl | (exact absurd h (by simp [isAddSub]))
  rw [this] at hc
  cases hx : (s1 ^^ s2)
  · simp only [hx, Bool.false_eq_true, if_false] at hc
    cases h1 : checkedAdd c1 c2 with
    | none => simp [h1] at hc
    | some w =>
      simp only [h1, Except.ok.injEq] at hc; subst hc
      have := (checked_eq_some.1 h1).2
      simp [sgn, this]
  · simp only [hx, if_true] at hc
    cases h1 : checkedSub c1 c2 with
    | none => simp [h1] at hc
    | some w =>
      simp only [h1, Except.ok.injEq] at hc; subst hc
      have := (checked_eq_some.1 h1).2
      simp [sgn, this]; omega

theorem mergeTree_val_addsub (ρ : Env) {op : BinOp} (hop : isAddSub op = true) {l r : Arg} {v : Int}
    (hv : valZ ρ (.bin op l r) = some v) {c1 c2 cc : Int} {s1 s2 : Bool}
    (hL : mergeL op l = .found c1 s1) (hR : mergeR op r = .found c2 s2)
    (hc : combine op s1 s2 c1 c2 = .ok cc) : valZ ρ (mergeTree op l r cc) = some v := by
  obtain ⟨x, y, hl, hr, ho⟩ := valZ_bin hv
  rw [opZ_addsub hop] at ho
  have hv' : v = asZ (op == .sub) x y := (Option.some.inj ho).symm
  have hcc := combine_addsub hop hc
  have hpre := preInv_addsub hop
  -- the lhs
  have hLt : ∃ ql, x = ql + sgn s1 * c1 ∧ ∀ n, valZ ρ (lTree op l n) = some (ql + sgn s1 * n) := by
    unfold mergeL at hL
    unfold lTree
    cases hcl : cval l with
    | some cl =>
      simp only [hcl, Find.found.injEq] at hL
      obtain ⟨rfl, rfl⟩ := hL
      have hx : x = cl := by have := cval_valZ (ρ := ρ) hcl; rw [hl] at this; exact Option.some.inj this
      exact ⟨0, by simp [sgn, hx], fun n => by simp [sgn, valZ]⟩
    | none =>
      simp only [hcl] at hL
      obtain ⟨q, hq, hset, _⟩ := addsub_chain ρ op hop l c1 s1 x hL hl
      exact ⟨q, hq, hset⟩
  obtain ⟨ql, hx, hset⟩ := hLt
  rw [mergeTree_eq]
  unfold mergeR at hR
  cases hcr : cval r with
  | some cr =>
    simp only [hcr, Find.found.injEq] at hR
    obtain ⟨rfl, rfl⟩ := hR
    have hy : y = cr := by have := cval_valZ (ρ := ρ) hcr; rw [hr] at this; exact Option.some.inj this
    simp only
    rw [hset cc, hv', hx, hy, hcc, hpre]
    congr 1
    cases (op == BinOp.sub) <;> cases s1 <;> simp [asZ, sgn] <;> omega
  | none =>
    have hnd : (op == BinOp.div) = false := by cases op <;> simp_all [isAddSub]
    simp only [hcr, hnd, Bool.false_eq_true, if_false] at hR
    obtain ⟨s0, hf0, hs⟩ := findC_found_inv hR
    obtain ⟨qr, hy, _, hdrop⟩ := addsub_chain ρ op hop r c2 s0 y hf0 hr
    simp only
    rw [valZ_bin_mk (hset cc) hdrop, opZ_addsub hop, hv', hx, hy, hcc, hs, hpre]
    congr 1
    cases (op == BinOp.sub) <;> cases s1 <;> cases s0 <;> simp [asZ, sgn] <;> omega

/-! ### one-operator families -/

theorem mergeTree_val_ca {ty : BinOp} {f D e} (F : CAFam ty f D e) (ρ : Env) {l r : Arg} {v : Int}
    (hv : valZ ρ (.bin ty l r) = some v) {c1 c2 cc : Int} {s1 s2 : Bool}
    (hL : mergeL ty l = .found c1 s1) (hR : mergeR ty r = .found c2 s2)
    (hcc : cc = f c1 c2) : valZ ρ (mergeTree ty l r cc) = some v := by
  obtain ⟨x, y, hl, hr, ho⟩ := valZ_bin hv
  obtain ⟨hDx, hDy, rfl⟩ := (F.opz x y v).1 ho
  have hLt : ∃ ql, D ql ∧ D c1 ∧ x = f ql c1 ∧ ∀ n, D n → valZ ρ (lTree ty l n) = some (f ql n) := by
    unfold mergeL at hL
    unfold lTree
    cases hcl : cval l with
    | some cl =>
      simp only [hcl, Find.found.injEq] at hL
      obtain ⟨rfl, rfl⟩ := hL
      have hx : x = cl := by have := cval_valZ (ρ := ρ) hcl; rw [hl] at this; exact Option.some.inj this
      subst hx
      exact ⟨e, F.dunit, hDx, (F.hunit x hDx).symm, fun n hn => by simp [valZ, F.hunit n hn]⟩
    | none =>
      simp only [hcl] at hL
      obtain ⟨q, hDq, hDc, hq, hset, _⟩ := ca_chain F ρ l c1 s1 x hL hl
      exact ⟨q, hDq, hDc, hq, hset⟩
  obtain ⟨ql, hDql, hDc1, hx, hset⟩ := hLt
  rw [mergeTree_eq]
  unfold mergeR at hR
  cases hcr : cval r with
  | some cr =>
    simp only [hcr, Find.found.injEq] at hR
    obtain ⟨rfl, _⟩ := hR
    have hy : y = cr := by have := cval_valZ (ρ := ρ) hcr; rw [hr] at this; exact Option.some.inj this
    subst hy
    simp only
    rw [hset cc (hcc ▸ F.closed _ _ hDc1 hDy), hcc, hx, F.assoc]
  | none =>
    simp only [hcr, F.ne_div, Bool.false_eq_true, if_false] at hR
    obtain ⟨s0, hf0, _⟩ := findC_found_inv hR
    obtain ⟨qr, hDqr, hDc2, hy, _, hdrop⟩ := ca_chain F ρ r c2 s0 y hf0 hr
    have hDcc : D cc := hcc ▸ F.closed _ _ hDc1 hDc2
    simp only
    rw [F.mk_val (hset cc hDcc) hdrop (F.closed _ _ hDql hDcc) hDqr, hcc, hx, hy]
    congr 1
    rw [F.assoc ql (f c1 c2) qr, F.assoc c1 c2 qr, F.comm c2 qr, ← F.assoc ql c1 (f qr c2)]

/-! ### the merge as a whole -/

theorem isC_of_cval_ne {a : Arg} (h : isC a = false) : cval a = none := cval_none_iff.2 h

theorem merge_val (ρ : Env) (op : BinOp) (l r : Arg) (hlr : ¬ (isC l = true ∧ isC r = true))
    (hop : op ≠ .mod ∧ op ≠ .shl ∧ op ≠ .shr) (c : Bool) (a' : Arg) (v : Int)
    (he : merge op l r = .ok (c, a')) (hv : valZ ρ (.bin op l r) = some v) : valZ ρ a' = some v := by
  unfold merge at he
  cases hL : mergeL op l with
  | panic => simp [hL] at he
  | none =>
    cases hR : mergeR op r with
    | panic => simp [hL, hR] at he
    | none => simp only [hL, hR] at he; exact neutralizeRaw_val ρ he hv
    | found c s => simp only [hL, hR] at he; exact neutralizeRaw_val ρ he hv
  | found c1 s1 =>
    cases hR : mergeR op r with
    | panic => simp [hL, hR] at he
    | none => simp only [hL, hR] at he; exact neutralizeRaw_val ρ he hv
    | found c2 s2 =>
      simp only [hL, hR] at he
      cases hc : combine op s1 s2 c1 c2 with
      | error k => simp [hc] at he
      | ok cc =>
        simp only [hc] at he
        cases hn : neutralize (mergeTree op l r cc) with
        | panic => simp [hn] at he
        | err e => simp [hn] at he
        | ok p =>
          obtain ⟨c3, a3⟩ := p
          simp only [hn, Res.ok.injEq, Prod.mk.injEq] at he
          obtain ⟨_, rfl⟩ := he
          refine neutralize_val ρ _ c3 a3 v hn ?_
          cases op with
          | add => exact mergeTree_val_addsub ρ rfl hv hL hR hc
          | sub => exact mergeTree_val_addsub ρ rfl hv hL hR hc
          | mul =>
            refine mergeTree_val_ca famMul ρ hv hL hR ?_
            simp only [combine] at hc
            cases h1 : checkedMul c1 c2 with
            | none => simp [h1] at hc
            | some w => simp only [h1, Except.ok.injEq] at hc; subst hc; exact (checked_eq_some.1 h1).2
          | band =>
            refine mergeTree_val_ca famAnd ρ hv hL hR ?_
            simp only [combine, Except.ok.injEq] at hc; exact hc.symm
          | bor =>
            refine mergeTree_val_ca famOr ρ hv hL hR ?_
            simp only [combine, Except.ok.injEq] at hc; exact hc.symm
          | bxor =>
            refine mergeTree_val_ca famXor ρ hv hL hR ?_
            simp only [combine, Except.ok.injEq] at hc; exact hc.symm
          | mod => exact (hop.1 rfl).elim
          | shl => exact (hop.2.1 rfl).elim
          | shr => exact (hop.2.2 rfl).elim
          | div =>
            obtain ⟨x, y, hl, hr, ho⟩ := valZ_bin hv
            simp only [opZ] at ho
            by_cases hy0 : y = 0
            · simp [hy0] at ho
            · simp only [hy0, if_false, Option.some.injEq] at ho
              subst ho
              -- the rhs of a division is only taken when it is a constant itself
              unfold mergeR at hR
              cases hcr : cval r with
              | none => simp [hcr] at hR
              | some cr =>
                simp only [hcr, Find.found.injEq] at hR
                obtain ⟨rfl, rfl⟩ := hR
                have hy : y = cr := by have := cval_valZ (ρ := ρ) hcr; rw [hr] at this; exact Option.some.inj this
                subst hy
                have hcl : cval l = none := by
                  apply cval_none_iff.2
                  cases h : isC l
                  · rfl
                  · exact (hlr ⟨h, cval_some_isC hcr⟩).elim
                unfold mergeL at hL
                simp only [hcl] at hL
                have hcc : cc = if s1 then c1 * y else c1.tdiv y := by
                  simp only [combine] at hc
                  cases s1
                  · simp only [Bool.false_eq_true, if_false, checkedDiv, hy0] at hc ⊢
                    cases h1 : checked (c1.tdiv y) with
                    | none => simp [h1] at hc
                    | some w => simp only [h1, Except.ok.injEq] at hc; subst hc; exact (checked_eq_some.1 h1).2
                  · simp only [if_true] at hc ⊢
                    cases h1 : checkedMul c1 y with
                    | none => simp [h1] at hc
                    | some w => simp only [h1, Except.ok.injEq] at hc; subst hc; exact (checked_eq_some.1 h1).2
                have := div_chain ρ l c1 s1 x hL hl y hy0
                rw [mergeTree_eq]
                simp only [hcr, lTree, hcl]
                rw [hcc]; exact this

end Trion.Simp
