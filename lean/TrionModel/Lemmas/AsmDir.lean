import TrionModel.Lemmas.AsmStmt
/-!
# `Trion.Asm`: the directives keep the invariant and do not panic
-/
namespace Trion.Asm
open Trion

theorem insertConstant_reserved {st st' : St} {n : Bytes} {v : Int} {r : Realm}
    (h : insertConstant st n v r = .ok (st', .error .reserved)) : Front.isRegister n = true := by
  by_cases hr : Front.isRegister n = true
  · exact hr
  · exfalso
    unfold insertConstant at h
    rw [if_neg hr] at h
    cases r <;> simp only at h <;> repeat' split at h
    all_goals cases h

theorem deferConstant_reserved {st st' : St} {n : Bytes} {r : Realm}
    (h : deferConstant st n r = .ok (st', .error .reserved)) : Front.isRegister n = true := by
  by_cases hr : Front.isRegister n = true
  · exact hr
  · exfalso
    unfold deferConstant at h
    rw [if_neg hr] at h
    cases r <;> simp only at h <;> repeat' split at h
    all_goals cases h

/-- a name that a table knows is not a register name -/
theorem getConstant_known {b : Bool} {st : St} (h : Good b st) {n : Bytes} {r : Realm} {lk : Simp.Lookup}
    (hg : getConstant st n r = .ok lk) (hk : lk ≠ .notFound) : Front.isRegister n = false := by
  cases r with
  | global =>
    simp only [getConstant, Out.ok.injEq] at hg
    subst hg
    unfold Table.get at hk
    split at hk
    · exact absurd rfl hk
    · rename_i hf; exact h.gtab _ _ hf
    · rename_i hf; exact h.gtab _ _ hf
  | loc =>
    simp only [getConstant] at hg
    split at hg
    · cases hg
    · rename_i l hl
      simp only [Out.ok.injEq] at hg
      subst hg
      unfold Table.get at hk
      split at hk
      · exact absurd rfl hk
      · rename_i hf; exact h.ltab l hl _ _ hf
      · rename_i hf; exact h.ltab l hl _ _ hf

theorem runGlobalCopy_safe {env : Env} {st : St} (h : Good true st) (name : Bytes) (line col : Nat)
    (hn : Front.isRegister name = false) : Safe true st (runGlobalCopy name line col env st) := by
  obtain ⟨l, hl, hg⟩ := getConstant_loc_ok (h.inFile rfl).1 name
  unfold runGlobalCopy
  rw [hg]
  cases hlk : l.get name with
  | notFound => exact safe_push h ..
  | deferred => exact safe_push h ..
  | found v =>
    simp only
    have ic := insertConstant_safe h name v .global (fun e => by cases e)
    split
    · rename_i st1 _ hic
      obtain ⟨g1, e1⟩ := ic.2 _ _ hic
      exact ⟨by simp, fun st' x eq => by cases eq; exact ⟨g1, e1⟩⟩
    · rename_i st1 r hic
      obtain ⟨g1, e1⟩ := ic.2 _ _ hic
      exact ⟨by simp, fun st' x eq => by cases eq; exact ⟨good_push g1 .., e1.trans (ext_push ..)⟩⟩
    · rename_i st1 hic
      have := insertConstant_reserved hic
      rw [hn] at this; cases this
    · rename_i r hic
      exact ⟨fun e => by cases e; exact ic.1 hic, fun st' x eq => by cases eq⟩

/-- after the arity check, a one-argument list is `[a]` -/
theorem arity_one {dir : String} {args : List Arg} (h : arity dir 1 args.length = none) : ∃ a, args = [a] := by
  unfold arity at h
  split at h
  · rename_i hlen
    match args, hlen with
    | [a], _ => exact ⟨a, rfl⟩
  · split at h <;> cases h

theorem arity_two {dir : String} {args : List Arg} (h : arity dir 2 args.length = none) : ∃ a b, args = [a, b] := by
  unfold arity at h
  split at h
  · rename_i hlen
    match args, hlen with
    | [a, b], _ => exact ⟨a, b, rfl⟩
  · split at h <;> cases h

theorem deferConstant_loc_fresh {st : St} {l : Table} {n : Bytes} (hl : st.locals = some l)
    (hn : Front.isRegister n = false) (hf : l.find n = none) :
    deferConstant st n .loc = .ok ({ st with locals := some (l.set n none) }, .ok ()) := by
  simp [deferConstant, hn, hl, hf]

theorem insertConstant_global_fill {st : St} {n : Bytes} (v : Int)
    (hn : Front.isRegister n = false) (hf : st.globals.find n = some none) :
    insertConstant st n v .global = .ok ({ st with globals := st.globals.set n (some v) }, .ok false) := by
  simp [insertConstant, hn, hf]

theorem globalDirective_safe {env : Env} {st : St} (h : Good true st) (g : GDir) (line col : Nat) (args : List Arg) :
    Safe true st (globalDirective g env st line col args) := by
  unfold globalDirective
  split
  · exact safe_push h ..
  · rename_i har
    obtain ⟨a, rfl⟩ := arity_one har
    cases a with
    | ident name =>
      simp only
      cases g with
      | global =>
        simp only
        have dc := deferConstant_safe h name .global (fun e => by cases e)
        split
        · rename_i st1 hdc
          obtain ⟨g1, e1⟩ := dc.2 _ _ hdc
          obtain ⟨hreg, hst1⟩ := deferConstant_global_ok hdc
          obtain ⟨l, hl, hg⟩ := getConstant_loc_ok (g1.inFile rfl).1 name
          rw [hg]
          have hfill : st1.globals.find name = some none := by rw [hst1]; simp [find_set]
          cases hlk : l.get name with
          | found v =>
            simp only
            rw [insertConstant_global_fill v hreg hfill]
            have ic := insertConstant_safe g1 name v .global (fun e => by cases e)
            rw [insertConstant_global_fill v hreg hfill] at ic
            obtain ⟨g2, e2⟩ := ic.2 _ _ rfl
            exact ⟨by simp, fun st' x eq => by cases eq; exact ⟨g2, e1.trans e2⟩⟩
          | notFound =>
            simp only
            rw [deferConstant_loc_fresh hl hreg (get_notFound hlk)]
            have dl := deferConstant_safe g1 name .loc (fun _ => rfl)
            rw [deferConstant_loc_fresh hl hreg (get_notFound hlk)] at dl
            obtain ⟨g2, e2⟩ := dl.2 _ _ rfl
            simp only
            have at_ := addTask_safe g2 (.globalCopy name line col) .loc hreg (fun _ => rfl) (fun e => by cases e)
            split
            · rename_i st3 hat3
              obtain ⟨g3, e3⟩ := at_.2 _ hat3
              exact ⟨by simp, fun st' x eq => by cases eq; exact ⟨g3, (e1.trans e2).trans e3⟩⟩
            · rename_i r hat3
              exact ⟨fun e => by cases e; exact at_.1 hat3, fun st' x eq => by cases eq⟩
          | deferred =>
            simp only
            have at_ := addTask_safe g1 (.globalCopy name line col) .loc hreg (fun _ => rfl) (fun e => by cases e)
            split
            · rename_i st3 hat3
              obtain ⟨g3, e3⟩ := at_.2 _ hat3
              exact ⟨by simp, fun st' x eq => by cases eq; exact ⟨g3, e1.trans e3⟩⟩
            · rename_i r hat3
              exact ⟨fun e => by cases e; exact at_.1 hat3, fun st' x eq => by cases eq⟩
        · rename_i st1 r hdc
          obtain ⟨g1, e1⟩ := dc.2 _ _ hdc
          exact ⟨by simp, fun st' x eq => by cases eq; exact ⟨good_push g1 .., e1.trans (ext_push ..)⟩⟩
        · rename_i st1 hdc
          obtain ⟨g1, e1⟩ := dc.2 _ _ hdc
          exact ⟨by simp, fun st' x eq => by cases eq; exact ⟨good_push g1 .., e1.trans (ext_push ..)⟩⟩
        · rename_i r hdc
          exact ⟨fun e => by cases e; exact dc.1 hdc, fun st' x eq => by cases eq⟩
      | import_ =>
        simp only [show (GDir.import_ = GDir.export_) = False from by simp, if_false]
        cases hlk : st.globals.get name with
        | notFound => simp only [getConstant, hlk]; exact safe_push h ..
        | deferred =>
          simp only [getConstant, hlk, if_true]
          have hreg := getConstant_known h (r := .global) (n := name) (by simp [getConstant]; rfl) (by rw [hlk]; simp)
          have dc := deferConstant_safe h name .loc (fun _ => rfl)
          split
          · rename_i st1 hdc
            obtain ⟨g1, e1⟩ := dc.2 _ _ hdc
            exact ⟨by simp, fun st' x eq => by cases eq; exact ⟨g1, e1⟩⟩
          · rename_i st1 r hdc
            obtain ⟨g1, e1⟩ := dc.2 _ _ hdc
            exact ⟨by simp, fun st' x eq => by cases eq; exact ⟨good_push g1 .., e1.trans (ext_push ..)⟩⟩
          · rename_i st1 hdc
            have := deferConstant_reserved hdc
            rw [hreg] at this; cases this
          · rename_i r hdc
            exact ⟨fun e => by cases e; exact dc.1 hdc, fun st' x eq => by cases eq⟩
        | found v =>
          simp only [getConstant, hlk]
          have hreg := getConstant_known h (r := .global) (n := name) (by simp [getConstant]; rfl) (by rw [hlk]; simp)
          have ic := insertConstant_safe h name v .loc (fun _ => rfl)
          split
          · rename_i st1 _ hic
            obtain ⟨g1, e1⟩ := ic.2 _ _ hic
            exact ⟨by simp, fun st' x eq => by cases eq; exact ⟨g1, e1⟩⟩
          · rename_i st1 r hic
            obtain ⟨g1, e1⟩ := ic.2 _ _ hic
            exact ⟨by simp, fun st' x eq => by cases eq; exact ⟨good_push g1 .., e1.trans (ext_push ..)⟩⟩
          · rename_i st1 hic
            have := insertConstant_reserved hic
            rw [hreg] at this; cases this
          · rename_i r hic
            exact ⟨fun e => by cases e; exact ic.1 hic, fun st' x eq => by cases eq⟩
      | export_ =>
        simp only [if_true]
        obtain ⟨l, hl, hg⟩ := getConstant_loc_ok (h.inFile rfl).1 name
        rw [hg]
        cases hlk : l.get name with
        | notFound => exact safe_push h ..
        | deferred =>
          simp only [show (GDir.export_ = GDir.import_) = False from by simp, if_false]
          exact safe_push h ..
        | found v =>
          simp only
          have hreg := getConstant_known h hg (by rw [hlk]; simp)
          have ic := insertConstant_safe h name v .global (fun e => by cases e)
          split
          · rename_i st1 _ hic
            obtain ⟨g1, e1⟩ := ic.2 _ _ hic
            exact ⟨by simp, fun st' x eq => by cases eq; exact ⟨g1, e1⟩⟩
          · rename_i st1 r hic
            obtain ⟨g1, e1⟩ := ic.2 _ _ hic
            exact ⟨by simp, fun st' x eq => by cases eq; exact ⟨good_push g1 .., e1.trans (ext_push ..)⟩⟩
          · rename_i st1 hic
            have := insertConstant_reserved hic
            rw [hreg] at this; cases this
          · rename_i r hic
            exact ⟨fun e => by cases e; exact ic.1 hic, fun st' x eq => by cases eq⟩
    | _ => exact safe_push h ..

/-! ## regions: `.addr`, `.align`, immediate data -/

theorem pending_close (s : Seg.State) : (Seg.closeSegment s).1.pending = s.pending := by
  unfold Seg.closeSegment
  split
  · rfl
  · split
    · split <;> rfl
    · rfl

theorem pending_open (s : Seg.State) (a : Nat) : (Seg.openSegment s a).1.pending = s.pending := by
  unfold Seg.openSegment
  repeat' split
  all_goals rfl

theorem pending_change (s : Seg.State) (a : Nat) : (Seg.changeSegment s a).1.pending = s.pending := by
  unfold Seg.changeSegment
  split
  · split
    · rfl
    · split
      · rename_i s' hc
        rw [pending_open]
        have := pending_close s
        rw [hc] at this
        exact this
      · exact pending_close s
  · exact pending_open s a

theorem pending_step (s : Seg.State) (op : Seg.Op) : s.pending ⊆ (Seg.step s op).1.pending := by
  cases op with
  | select a =>
    simp only [Seg.step, pending_change]
    exact fun _ x => x
  | append d =>
    simp only [Seg.step]
    repeat' split
    all_goals exact fun _ x => x
  | align n =>
    simp only [Seg.step]
    repeat' split
    all_goals exact fun _ x => x
  | place d =>
    simp only [Seg.step]
    repeat' split
    all_goals (first | exact fun _ x => x | exact fun _ x => List.mem_cons_of_mem _ x)
  | rewrite a d =>
    simp only [Seg.step, Seg.rewrite]
    repeat' split
    all_goals exact fun _ x => x
  | close =>
    simp only [Seg.step, pending_close]
    exact fun _ x => x

theorem segOp_safe {b : Bool} {st : St} (h : Good b st) (op : Seg.Op) (wf : Seg.Op.wf st.seg op)
    (hop : ∀ a d, op ≠ .rewrite a d) :
    segStep st.seg op ≠ .stop .panic ∧ ∀ s' o, segStep st.seg op = .ok (s', o) →
      Good b { st with seg := s' } ∧ st.seg.pending ⊆ s'.pending ∧ Path st.seg [(op, o)] s' := by
  have hs := segStep_nonrewrite h.inv op wf hop
  refine ⟨hs.1, fun s' o e => ?_⟩
  obtain ⟨he, hi⟩ := hs.2 _ _ e
  have hp : st.seg.pending ⊆ s'.pending := by
    have := pending_step st.seg op
    rw [← he] at this
    exact this
  have hnp : o ≠ .panic := by
    have := (Seg.step_nonrewrite h.inv op wf hop).1
    rw [← he] at this
    exact this
  exact ⟨good_setSeg h hi hp, hp, .cons h.inv wf he.symm hnp (.nil _)⟩

theorem evalStrict_ok {b : Bool} {env : Env} {st : St} (h : Good b st) (hb : env.paths.isEmpty = !b)
    (dir : String) (line col : Nat) (a : Arg) :
    ∃ r, evalStrict dir env st line col a = .ok r ∧ ∀ st' x, r = .error (st', x) → Good b st' ∧ Ext st st' := by
  obtain ⟨ev, hev⟩ := evalArg_ok h hb a
  unfold evalStrict
  rw [hev]
  cases ev with
  | complete a' => exact ⟨_, rfl, fun st' x e => by cases e⟩
  | deferred c a' => exact ⟨_, rfl, fun st' x e => by cases e; exact ⟨good_push h .., ext_push ..⟩⟩
  | noSuch n a' => exact ⟨_, rfl, fun st' x e => by cases e; exact ⟨good_push h .., ext_push ..⟩⟩
  | err e a' => exact ⟨_, rfl, fun st' x e => by cases e; exact ⟨good_push h .., ext_push ..⟩⟩

/-- the shape shared by the three region directives after `segStep` -/
theorem seg_result_safe {b : Bool} {st : St} (h : Good b st) (env : Env) (line col : Nat) (op : Seg.Op)
    (wf : Seg.Op.wf st.seg op) (hop : ∀ a d, op ≠ .rewrite a d) (mk : Seg.Diag → Kind) :
    Safe b st (match segStep st.seg op with
      | .ok (s', .diag e) => .ok (({ st with seg := s' }).push env line col (mk e), Res.err .fatal)
      | .ok (s', _) => .ok ({ st with seg := s' }, Res.ok)
      | .stop r => .stop r) := by
  have so := segOp_safe h op wf hop
  split
  · rename_i s' e hs
    obtain ⟨g, hp, hpath⟩ := so.2 _ _ hs
    exact ⟨by simp, fun st' x eq => by
      cases eq
      exact ⟨good_push g .., ext_of_path (st'' := St.push { st with seg := _ } _ _ _ _) hp rfl hpath
        (by simp [diags, isDiag, St.push, St.pushIn])⟩⟩
  · rename_i s' o hne hs
    obtain ⟨g, hp, hpath⟩ := so.2 _ _ hs
    exact ⟨by simp, fun st' x eq => by
      cases eq
      refine ⟨g, ext_of_path (st'' := { st with seg := _ }) hp rfl hpath ?_⟩
      have : isDiag o = false := by
        cases o with
        | diag e => exact absurd rfl (hne e)
        | _ => rfl
      simp [diags, this]⟩
  · rename_i r hs
    exact ⟨fun e => by cases e; exact so.1 hs, fun st' x eq => by cases eq⟩

theorem addrDirective_safe {env : Env} {st : St} (h : Good true st) (hb : env.paths.isEmpty = false)
    (line col : Nat) (args : List Arg) : Safe true st (addrDirective env st line col args) := by
  unfold addrDirective
  split
  · exact safe_push h ..
  · rename_i har
    obtain ⟨a, rfl⟩ := arity_one har
    simp only
    obtain ⟨r, hr, hre⟩ := evalStrict_ok h (by simpa using hb) "addr" line col a
    rw [hr]
    cases r with
    | error p =>
      obtain ⟨st1, x⟩ := p
      obtain ⟨g, e⟩ := hre _ _ rfl
      exact ⟨by simp, fun st' x eq => by cases eq; exact ⟨g, e⟩⟩
    | ok a' =>
      cases a' with
      | const v =>
        simp only
        split
        · rename_i hv
          exact seg_result_safe h env line col (.select v.toNat)
            (by show v.toNat ≤ Map.u32Max; unfold Map.u32Max; omega) (fun _ _ e => by cases e) _
        · exact safe_push h ..
      | _ => exact safe_push h ..

theorem alignDirective_safe {env : Env} {st : St} (h : Good true st) (hb : env.paths.isEmpty = false)
    (line col : Nat) (args : List Arg) : Safe true st (alignDirective env st line col args) := by
  unfold alignDirective
  split
  · exact safe_push h ..
  · rename_i hact
    split
    · exact safe_push h ..
    · rename_i har
      obtain ⟨a, rfl⟩ := arity_one har
      simp only
      obtain ⟨r, hr, hre⟩ := evalStrict_ok h (by simpa using hb) "align" line col a
      rw [hr]
      cases r with
      | error p =>
        obtain ⟨st1, x⟩ := p
        obtain ⟨g, e⟩ := hre _ _ rfl
        exact ⟨by simp, fun st' x eq => by cases eq; exact ⟨g, e⟩⟩
      | ok a' =>
        simp only
        cases hseg : st.seg.active with
        | none => simp [hseg] at hact
        | some seg =>
          simp only
          cases a' with
          | const v =>
            simp only
            split
            · split
              · exact safe_ok h _
              · have hrem : seg.remaining = some (seg.maxLen - seg.buf.length) := by
                  unfold Seg.Active.remaining
                  rw [if_pos (h.inv.2.1 seg hseg).1]
                rw [hrem]
                simp only
                split
                · exact seg_result_safe h env line col (.append _) trivial (fun _ _ e => by cases e) _
                · exact safe_push h ..
            · exact safe_push h ..
          | _ => exact safe_push h ..

theorem constDirective_safe {env : Env} {st : St} (h : Good true st) (hb : env.paths.isEmpty = false)
    (line col : Nat) (args : List Arg) : Safe true st (constDirective env st line col args) := by
  unfold constDirective
  split
  · exact safe_push h ..
  · rename_i har
    obtain ⟨a, b', rfl⟩ := arity_two har
    cases a with
    | ident name =>
      simp only
      obtain ⟨r, hr, hre⟩ := evalStrict_ok h (by simpa using hb) "const" line col b'
      rw [hr]
      cases r with
      | error p =>
        obtain ⟨st1, x⟩ := p
        obtain ⟨g, e⟩ := hre _ _ rfl
        exact ⟨by simp, fun st' x eq => by cases eq; exact ⟨g, e⟩⟩
      | ok a' =>
        cases a' with
        | const v =>
          simp only
          have ic := insertConstant_safe h name v .loc (fun _ => rfl)
          split
          · rename_i st1 _ hic
            obtain ⟨g1, e1⟩ := ic.2 _ _ hic
            exact ⟨by simp, fun st' x eq => by cases eq; exact ⟨g1, e1⟩⟩
          · rename_i st1 r hic
            obtain ⟨g1, e1⟩ := ic.2 _ _ hic
            exact ⟨by simp, fun st' x eq => by cases eq; exact ⟨good_push g1 .., e1.trans (ext_push ..)⟩⟩
          · rename_i st1 hic
            obtain ⟨g1, e1⟩ := ic.2 _ _ hic
            exact ⟨by simp, fun st' x eq => by cases eq; exact ⟨good_push g1 .., e1.trans (ext_push ..)⟩⟩
          · rename_i r hic
            exact ⟨fun e => by cases e; exact ic.1 hic, fun st' x eq => by cases eq⟩
        | _ => exact safe_push h ..
    | _ => exact safe_push h ..

theorem appendData_safe {b : Bool} {st : St} (h : Good b st) (dir : String) (env : Env) (line col : Nat) (d : Bytes) :
    Safe b st (appendData dir env st line col d) := by
  unfold appendData
  exact seg_result_safe h env line col (.append d) trivial (fun _ _ e => by cases e) _

theorem stringDirective_safe {env : Env} {st : St} (h : Good true st) (hb : env.paths.isEmpty = false)
    (fs : Bytes → Option Bytes) (dir : String) (line col : Nat) (args : List Arg) :
    Safe true st (stringDirective fs dir env st line col args) := by
  unfold stringDirective
  split
  · exact safe_push h ..
  · rename_i hact
    split
    · exact safe_push h ..
    · rename_i har
      obtain ⟨a, rfl⟩ := arity_one har
      cases a with
      | str s =>
        simp only
        split
        · split
          · exact safe_push h ..
          · exact safe_push h ..
          · exact appendData_safe h ..
        · split
          · exact appendData_safe h ..
          · cases hp : env.paths with
            | nil => simp [hp] at hb
            | cons curr rest =>
              simp only [hact, if_false]
              split
              · exact safe_push h ..
              · exact appendData_safe h ..
      | _ => exact safe_push h ..

end Trion.Asm
