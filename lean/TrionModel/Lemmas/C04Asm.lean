import TrionModel.Lemmas.C04Fin
import TrionModel.Lemmas.FrontWf
import TrionModel.Lemmas.FrontReject
/-!
# C04 closed: `conv`, `assemble`, `build` with the concrete evaluator against `C04.means`
-/
namespace Trion.C04
open Trion Trion.Front Trion.Simp

theorem kinds_sig (t : Instr) : kinds t = sig t := by cases t <;> rfl

section
variable {lk : Bytes → Lookup} (hn : NoDef lk) (hT : Simp.tableOk lk) {eval : Arg → EvalOut} (hE : EvalSimp eval lk)
include hn hT hE

theorem conv_sound (loc : Bool) : ∀ (ks : List Kind) (pos : Nat) (pre rest : List Arg) (done : Nat) (instr : Instr)
    (vals0 : List Val) (A : List Arg) (D : Nat) (I : Instr) (vs : List Val), done ≤ pos → ks.length = rest.length →
    wellFormed (tab lk) ks rest → conv eval loc ks pos pre rest done instr vals0 = .ok A D I vs →
    ∃ new, denoteAll (tab lk) ks rest = some new ∧ (∀ v ∈ new, okVal v) ∧ vs = vals0.reverse ++ new ∧
      I = replayFrom pos new instr := by
  intro ks
  induction ks with
  | nil =>
    intro pos pre rest done instr vals0 A D I vs _ hlen _ h
    cases rest with
    | nil => simp only [conv] at h; cases h; exact ⟨[], rfl, by simp, by simp, rfl⟩
    | cons a r => simp at hlen
  | cons k ks ih =>
    intro pos pre rest done instr vals0 A D I vs hd hlen hw h
    cases rest with
    | nil => simp at hlen
    | cons a rest =>
      simp only [conv] at h
      obtain ⟨hslot, hw'⟩ := hw
      cases hg : Front.get k eval loc pos done a with
      | stop a' d' r => rw [hg] at h; cases h
      | ok v a' d' =>
        rw [hg] at h
        simp only at h
        obtain ⟨hden, hok, hd'⟩ := get_sound hn hT hE hd hslot hg
        obtain ⟨new, h1, h2, h3, h4⟩ := ih (pos + 1) _ rest d' _ _ A D I vs hd' (by simpa using hlen) hw' h
        refine ⟨v :: new, by simp [denoteAll, hden, h1], ?_, by simp [h3], by simp [replayFrom, h4]⟩
        intro w hw
        simp only [List.mem_cons] at hw
        rcases hw with rfl | hw
        · exact hok
        · exact h2 w hw

omit hT in
theorem conv_complete (loc : Bool) : ∀ (ks : List Kind) (pos : Nat) (pre rest : List Arg) (done : Nat) (instr : Instr)
    (vals0 : List Val) (new : List Val), done ≤ pos → denoteAll (tab lk) ks rest = some new → (∀ v ∈ new, okValC v) →
    ∃ A D, conv eval loc ks pos pre rest done instr vals0 = .ok A D (replayFrom pos new instr) (vals0.reverse ++ new) := by
  intro ks
  induction ks with
  | nil =>
    intro pos pre rest done instr vals0 new _ hden _
    cases rest with
    | nil => simp only [denoteAll, Option.some.injEq] at hden; subst hden; exact ⟨pre.reverse ++ [], done, by simp [conv, replayFrom]⟩
    | cons a r => simp [denoteAll] at hden
  | cons k ks ih =>
    intro pos pre rest done instr vals0 new hd hden hok
    cases rest with
    | nil => simp [denoteAll] at hden
    | cons a rest =>
      simp only [denoteAll] at hden
      cases h1 : denote (tab lk) k a with
      | none => simp [h1] at hden
      | some v =>
        cases h2 : denoteAll (tab lk) ks rest with
        | none => simp [h1, h2] at hden
        | some vs =>
          simp only [h1, h2, Option.some.injEq] at hden
          subst hden
          obtain ⟨a', d', hg, hd'⟩ := get_complete hn hE (loc := loc) hd h1 (hok v (by simp))
          obtain ⟨A, D, hc⟩ := ih (pos + 1) (a' :: pre) rest d' (setOp instr pos v) (v :: vals0) vs hd' h2
            (fun w hw => hok w (by simp [hw]))
          exact ⟨A, D, by simp only [conv, hg, hc, replayFrom]; simp⟩

theorem conv_total (loc : Bool) : ∀ (ks : List Kind) (pos : Nat) (pre rest : List Arg) (done : Nat) (instr : Instr)
    (vals0 : List Val), done ≤ pos → ks.length = rest.length → wellFormed (tab lk) ks rest →
    (∃ A D I vs, conv eval loc ks pos pre rest done instr vals0 = .ok A D I vs) ∨
    (∃ A D I e, conv eval loc ks pos pre rest done instr vals0 = .stop A D I (.error e)) := by
  intro ks
  induction ks with
  | nil => intro pos pre rest done instr vals0 _ _ _; exact .inl ⟨pre.reverse ++ rest, done, instr, vals0.reverse, by simp [conv]⟩
  | cons k ks ih =>
    intro pos pre rest done instr vals0 hd hlen hw
    cases rest with
    | nil => simp at hlen
    | cons a rest =>
      obtain ⟨hslot, hw'⟩ := hw
      simp only [conv]
      rcases get_total hn hE (loc := loc) hd hslot with ⟨v, a', d', hg⟩ | ⟨a', d', e, hg⟩
      · rw [hg]
        simp only
        have hd' : d' ≤ pos + 1 := (get_sound hn hT hE hd hslot hg).2.2
        exact ih (pos + 1) _ rest d' _ _ hd' (by simpa using hlen) hw'
      · rw [hg]; exact .inr ⟨_, _, _, _, rfl⟩

/-- **T1, soundness**: what `build` completes is the statement's meaning, inside the Rust field types -/
theorem build_sound (loc : Bool) (A : Nat) (name : Bytes) (args : List Arg) (t : Instr) (hm : mnemonic name = some t)
    (hw : wellFormed (tab lk) (sig t) args) (i : Instr) (hb : build A name args eval loc = .completed i)
    (hq : ∀ vs, denoteAll (tab lk) (sig t) args = some vs → ¬ svQuirk t vs) :
    means (tab lk) A name args = some i ∧ i.wf := by
  refine ⟨?_, build_wf_proof A name args eval loc i hb⟩
  unfold build at hb
  rw [hm] at hb
  simp only at hb
  unfold assemble at hb
  simp only [kinds_sig] at hb
  by_cases h1 : args.length > (sig t).length
  · simp [h1] at hb
  · by_cases h2 : args.length < (sig t).length
    · simp [h1, h2] at hb
    · have hlen : (sig t).length = args.length := by omega
      simp only [h1, h2, if_false] at hb
      cases hc : conv eval loc (sig t) 0 [] args 0 t [] with
      | stop a d ins r =>
        have hr := conv_ne_completed eval loc _ _ _ _ _ _ _ _ _ _ _ hc
        rw [hc] at hb
        cases r <;> simp at hb
        exact absurd rfl hr
      | ok a d ins vs =>
        rw [hc] at hb
        simp only at hb
        obtain ⟨new, hden, hok, hvs, hI⟩ := conv_sound hn hT hE loc _ 0 [] args 0 t [] a d ins vs (Nat.le_refl _) hlen hw hc
        simp only [List.reverse_nil, List.nil_append] at hvs
        subst hvs hI
        cases hf : finish A (replayFrom 0 vs t) vs (sig t).length with
        | error e => rw [hf] at hb; simp at hb
        | ok j =>
          rw [hf] at hb
          simp only at hb
          have hj : j = i := by injection hb
          subst hj
          simp only [means, hm, hden]
          exact finish_sound A t vs _ (denoteAll_shapes hden) hok (hq vs hden) j hf

omit hT in
/-- **T1, completeness**: a statement whose meaning fits the field types and is accepted by the encoder is completed -/
theorem build_complete (loc : Bool) (A : Nat) (name : Bytes) (args : List Arg) (i : Instr)
    (hmeans : means (tab lk) A name args = some i) (hwf : i.wf) (hws : List Nat) (he : Codec.encode i = .ok hws) :
    build A name args eval loc = .completed i := by
  unfold means at hmeans
  cases hm : mnemonic name with
  | none => simp [hm] at hmeans
  | some t =>
    simp only [hm] at hmeans
    cases hden : denoteAll (tab lk) (sig t) args with
    | none => simp [hden] at hmeans
    | some vs =>
      simp only [hden] at hmeans
      have hlen : (sig t).length = args.length := by
        clear hmeans
        generalize sig t = ks at hden
        induction ks generalizing args vs with
        | nil => cases args <;> simp [denoteAll] at hden ⊢
        | cons k ks ih =>
          cases args with
          | nil => simp [denoteAll] at hden
          | cons a as =>
            simp only [denoteAll] at hden
            cases h1 : denote (tab lk) k a with
            | none => simp [h1] at hden
            | some v =>
              cases h2 : denoteAll (tab lk) ks as with
              | none => simp [h1, h2] at hden
              | some vs' => simp [ih as vs' h2]
      obtain ⟨hok, hf⟩ := finish_complete A t vs (sig t).length i (denoteAll_shapes hden) hmeans hwf hws he
      obtain ⟨a, d, hc⟩ := conv_complete hn hE loc (sig t) 0 [] args 0 t [] vs (Nat.le_refl _) hden hok
      simp only [List.reverse_nil, List.nil_append] at hc
      unfold build
      rw [hm]
      simp only
      unfold assemble
      simp only [kinds_sig]
      have h1 : ¬ args.length > (sig t).length := by omega
      have h2 : ¬ args.length < (sig t).length := by omega
      simp only [h1, h2, if_false, hc, hf]

/-- **T1, totality**: with every name defined the first `assemble` either completes or reports a diagnostic -/
theorem build_total (loc : Bool) (A : Nat) (name : Bytes) (args : List Arg) (t : Instr) (hm : mnemonic name = some t)
    (hw : wellFormed (tab lk) (sig t) args) :
    (∃ i, build A name args eval loc = .completed i) ∨ (∃ d st, build A name args eval loc = .error d st) := by
  unfold build
  rw [hm]
  simp only
  unfold assemble
  simp only [kinds_sig]
  by_cases h1 : args.length > (sig t).length
  · simp [h1]
  · by_cases h2 : args.length < (sig t).length
    · simp [h1, h2]
    · have hlen : (sig t).length = args.length := by omega
      simp only [h1, h2, if_false]
      rcases conv_total hn hT hE loc (sig t) 0 [] args 0 t [] (Nat.le_refl _) hlen hw with ⟨a, d, ins, vs, hc⟩ | ⟨a, d, ins, e, hc⟩
      · rw [hc]
        simp only
        cases hf : finish A ins vs (sig t).length with
        | ok j => exact .inl ⟨_, rfl⟩
        | error e => exact .inr ⟨_, _, rfl⟩
      · rw [hc]; exact .inr ⟨_, _, rfl⟩

end

end Trion.C04
