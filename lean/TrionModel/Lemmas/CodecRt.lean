import TrionModel.Lemmas.CodecRtA
import TrionModel.Lemmas.CodecRtB
import TrionModel.Lemmas.CodecRtW
/-! The round trip `RT` for every instruction, and the two lemmas that reduce `decode` on the
little-endian bytes of one or two halfwords to `decode16` / `decode32`. -/
namespace Trion.Codec
open Trion

theorem rt_all (i : Instr) : RT i := by
  cases i with
  | adc a b => exact rt_adc a b
  | add f a b x => cases x with
    | imm v => exact rt_add_imm f a b v
    | reg c => exact rt_add_reg f a b c
  | adr a v => exact rt_adr a v
  | and a b => exact rt_and a b
  | asr a b x => cases x with
    | imm v => exact rt_asr_imm a b v
    | reg c => exact rt_asr_reg a b c
  | b c v => exact rt_b c v
  | bic a b => exact rt_bic a b
  | bkpt v => exact rt_bkpt v
  | bl v => exact rt_bl v
  | blx a => exact rt_blx a
  | bx a => exact rt_bx a
  | cmn a b => exact rt_cmn a b
  | cmp a x => cases x with
    | imm v => exact rt_cmp_imm a v
    | reg c => exact rt_cmp_reg a c
  | cps e => exact rt_cps e
  | dmb => exact rt_dmb
  | dsb => exact rt_dsb
  | eor a b => exact rt_eor a b
  | isb => exact rt_isb
  | ldm a m => exact rt_ldm a m
  | ldr a b x => cases x with
    | imm v => exact rt_ldr_imm a b v
    | reg c => exact rt_ldr_reg a b c
  | ldrb a b x => cases x with
    | imm v => exact rt_ldrb_imm a b v
    | reg c => exact rt_ldrb_reg a b c
  | ldrh a b x => cases x with
    | imm v => exact rt_ldrh_imm a b v
    | reg c => exact rt_ldrh_reg a b c
  | ldrsb a b c => exact rt_ldrsb a b c
  | ldrsh a b c => exact rt_ldrsh a b c
  | lsl a b x => cases x with
    | imm v => exact rt_lsl_imm a b v
    | reg c => exact rt_lsl_reg a b c
  | lsr a b x => cases x with
    | imm v => exact rt_lsr_imm a b v
    | reg c => exact rt_lsr_reg a b c
  | mov f a x => cases x with
    | imm v => exact rt_mov_imm f a v
    | reg c => exact rt_mov_reg f a c
  | mrs a s => exact rt_mrs a s
  | msr s a => exact rt_msr s a
  | mul a b => exact rt_mul a b
  | mvn a b => exact rt_mvn a b
  | nop => exact rt_nop
  | orr a b => exact rt_orr a b
  | pop m => exact rt_pop m
  | push m => exact rt_push m
  | rev a b => exact rt_rev a b
  | rev16 a b => exact rt_rev16 a b
  | revsh a b => exact rt_revsh a b
  | ror a b => exact rt_ror a b
  | rsb a b => exact rt_rsb a b
  | sbc a b => exact rt_sbc a b
  | sev => exact rt_sev
  | stm a m => exact rt_stm a m
  | str a b x => cases x with
    | imm v => exact rt_str_imm a b v
    | reg c => exact rt_str_reg a b c
  | strb a b x => cases x with
    | imm v => exact rt_strb_imm a b v
    | reg c => exact rt_strb_reg a b c
  | strh a b x => cases x with
    | imm v => exact rt_strh_imm a b v
    | reg c => exact rt_strh_reg a b c
  | sub f a b x => cases x with
    | imm v => exact rt_sub_imm f a b v
    | reg c => exact rt_sub_reg f a b c
  | svc v => exact rt_svc v
  | sxtb a b => exact rt_sxtb a b
  | sxth a b => exact rt_sxth a b
  | tst a b => exact rt_tst a b
  | udf v => exact rt_udf v
  | udfw v => exact rt_udfw v
  | uxtb a b => exact rt_uxtb a b
  | uxth a b => exact rt_uxth a b
  | wfe => exact rt_wfe
  | wfi => exact rt_wfi
  | yield => exact rt_yield

theorem le16 (w : Nat) : w % 256 + 256 * (w / 256) = w := by omega

/-- the bytes of one halfword below the 32-bit space, whatever follows -/
theorem decode_single (w : Nat) (rest : List Nat) (h : w / 2048 < 29) :
    decode (toBytes [w] ++ rest) = decode16 w := by
  simp only [toBytes, List.cons_append, List.nil_append, decode, le16]
  rw [if_pos h]

/-- the bytes of two halfwords, the first in the 32-bit space, whatever follows -/
theorem decode_double (w0 w1 : Nat) (rest : List Nat) (h : 29 ≤ w0 / 2048) (h' : w0 / 2048 < 32) :
    decode (toBytes [w0, w1] ++ rest) = decode32 w0 w1 := by
  simp only [toBytes, List.cons_append, List.nil_append, decode, le16]
  rw [if_neg (by omega), if_pos h']

end Trion.Codec
