import TrionModel.Model.Simp
/-! Induction principles for the mutual `Arg` / `Args` and small facts used by all simplifier proofs. -/
namespace Trion

/-- simultaneous induction over `Arg` and `Args` -/
theorem Arg.ind2 {P : Arg → Prop} {Q : Args → Prop}
    (const : ∀ v, P (.const v)) (ident : ∀ s, P (.ident s)) (str : ∀ s, P (.str s))
    (bin : ∀ op l r, P l → P r → P (.bin op l r))
    (neg : ∀ a, P a → P (.neg a)) (not : ∀ a, P a → P (.not a)) (addr : ∀ a, P a → P (.addr a))
    (seq : ∀ as, Q as → P (.seq as)) (func : ∀ n as, Q as → P (.func n as))
    (nil : Q .nil) (cons : ∀ a as, P a → Q as → Q (.cons a as)) :
    (∀ a, P a) ∧ (∀ as, Q as) :=
  ⟨fun a => Arg.rec (motive_1 := P) (motive_2 := Q) const ident str bin neg not addr seq func nil cons a,
   fun as => Args.rec (motive_1 := P) (motive_2 := Q) const ident str bin neg not addr seq func nil cons as⟩

/-- induction over `Arg` when sequences / function arguments need no hypothesis -/
theorem Arg.ind {P : Arg → Prop}
    (const : ∀ v, P (.const v)) (ident : ∀ s, P (.ident s)) (str : ∀ s, P (.str s))
    (bin : ∀ op l r, P l → P r → P (.bin op l r))
    (neg : ∀ a, P a → P (.neg a)) (not : ∀ a, P a → P (.not a)) (addr : ∀ a, P a → P (.addr a))
    (seq : ∀ as, P (.seq as)) (func : ∀ n as, P (.func n as)) : ∀ a, P a :=
  (Arg.ind2 (Q := fun _ => True) const ident str bin neg not addr (fun as _ => seq as) (fun n as _ => func n as)
    trivial (fun _ _ _ _ => trivial)).1

end Trion
