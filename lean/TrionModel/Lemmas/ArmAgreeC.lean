import TrionModel.Lemmas.ArmTac
/-! Agreement of the ARMv6-M table with the decoder model on 16-bit patterns, group by group:
`decodeIn table16 h 16 = toOpt (decode16 h)`.  The decoder side is split into its branches (`dec_split`),
in every branch the few rows of the group are walked (`spec_leaf`). -/
set_option linter.unusedSimpArgs false
namespace Trion.Codec
open Trion Trion.Arm

theorem spec16_10 (h : Nat) (hlt : h < 65536) (hk : h / 2048 = 10) : decodeIn table16 h 16 = toOpt (decode16 h) := by
  rw [table16_at_10 h hlt hk]
  generalize hres : decode16 h = res
  unfold g10
  dec_split at hres
  all_goals (subst hres; spec_leaf)

theorem spec16_11 (h : Nat) (hlt : h < 65536) (hk : h / 2048 = 11) : decodeIn table16 h 16 = toOpt (decode16 h) := by
  rw [table16_at_11 h hlt hk]
  generalize hres : decode16 h = res
  unfold g11
  dec_split at hres
  all_goals (subst hres; spec_leaf)

theorem spec16_12 (h : Nat) (hlt : h < 65536) (hk : h / 2048 = 12) : decodeIn table16 h 16 = toOpt (decode16 h) := by
  rw [table16_at_12 h hlt hk]
  generalize hres : decode16 h = res
  unfold g12
  dec_split at hres
  all_goals (subst hres; spec_leaf)

theorem spec16_13 (h : Nat) (hlt : h < 65536) (hk : h / 2048 = 13) : decodeIn table16 h 16 = toOpt (decode16 h) := by
  rw [table16_at_13 h hlt hk]
  generalize hres : decode16 h = res
  unfold g13
  dec_split at hres
  all_goals (subst hres; spec_leaf)

theorem spec16_14 (h : Nat) (hlt : h < 65536) (hk : h / 2048 = 14) : decodeIn table16 h 16 = toOpt (decode16 h) := by
  rw [table16_at_14 h hlt hk]
  generalize hres : decode16 h = res
  unfold g14
  dec_split at hres
  all_goals (subst hres; spec_leaf)

theorem spec16_15 (h : Nat) (hlt : h < 65536) (hk : h / 2048 = 15) : decodeIn table16 h 16 = toOpt (decode16 h) := by
  rw [table16_at_15 h hlt hk]
  generalize hres : decode16 h = res
  unfold g15
  dec_split at hres
  all_goals (subst hres; spec_leaf)

theorem spec16_16 (h : Nat) (hlt : h < 65536) (hk : h / 2048 = 16) : decodeIn table16 h 16 = toOpt (decode16 h) := by
  rw [table16_at_16 h hlt hk]
  generalize hres : decode16 h = res
  unfold g16
  dec_split at hres
  all_goals (subst hres; spec_leaf)

theorem spec16_17 (h : Nat) (hlt : h < 65536) (hk : h / 2048 = 17) : decodeIn table16 h 16 = toOpt (decode16 h) := by
  rw [table16_at_17 h hlt hk]
  generalize hres : decode16 h = res
  unfold g17
  dec_split at hres
  all_goals (subst hres; spec_leaf)

theorem spec16_18 (h : Nat) (hlt : h < 65536) (hk : h / 2048 = 18) : decodeIn table16 h 16 = toOpt (decode16 h) := by
  rw [table16_at_18 h hlt hk]
  generalize hres : decode16 h = res
  unfold g18
  dec_split at hres
  all_goals (subst hres; spec_leaf)

theorem spec16_19 (h : Nat) (hlt : h < 65536) (hk : h / 2048 = 19) : decodeIn table16 h 16 = toOpt (decode16 h) := by
  rw [table16_at_19 h hlt hk]
  generalize hres : decode16 h = res
  unfold g19
  dec_split at hres
  all_goals (subst hres; spec_leaf)

theorem spec16_20 (h : Nat) (hlt : h < 65536) (hk : h / 2048 = 20) : decodeIn table16 h 16 = toOpt (decode16 h) := by
  rw [table16_at_20 h hlt hk]
  generalize hres : decode16 h = res
  unfold g20
  dec_split at hres
  all_goals (subst hres; spec_leaf)

theorem spec16_21 (h : Nat) (hlt : h < 65536) (hk : h / 2048 = 21) : decodeIn table16 h 16 = toOpt (decode16 h) := by
  rw [table16_at_21 h hlt hk]
  generalize hres : decode16 h = res
  unfold g21
  dec_split at hres
  all_goals (subst hres; spec_leaf)

end Trion.Codec
