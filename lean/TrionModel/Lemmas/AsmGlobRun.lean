import TrionModel.Lemmas.AsmMultiRun
/-!
# Projects with `.include` and `.global` (a name declared global after it is defined) against the reference

`.global x` in a file publishes the file's `x` to its includer's table (to the real global table for the main file):
in the flattened program this is an alias statement `.const (includer's x) [file's x] v` placed where the included file
ends (`aliases`).  `GFlat` is `Multi.FlatEls` with `.global` statements (which emit nothing at their place) and the
aliases behind every included file.  Scope of this file: every `.global x` stands BELOW the definition of `x` in its
file (`declOk`), so no table ever holds an unvalued entry between two statements.
-/
namespace Trion.Asm.Glob
open Trion Trion.SegLayout Trion.Asm Trion.Asm.Multi
open Trion.Layout (MRun withTasks)

/-- a `.global` statement -/
def isGlobal (el : Element) : Bool :=
  match el.val with
  | .directive name _ => name = bytesOf "global"
  | _ => false

/-- a statement of a project without `.import / .export` -/
def okGlob (el : Element) : Bool :=
  match el.val with
  | .directive name _ => !(name = bytesOf "import" || name = bytesOf "export")
  | _ => true

/-- the operand of a `.global x` statement -/
def globalName (el : Element) : Option Bytes :=
  match el.val with
  | .directive name args =>
    if name = bytesOf "global" then
      match args.toList with
      | [.ident x] => some x
      | _ => none
    else none
  | _ => none

theorem okInc_of {el : Element} (h1 : okGlob el = true) (h2 : isGlobal el = false) : okInc el = true := by
  unfold okInc
  unfold okGlob at h1
  unfold isGlobal at h2
  split
  · rename_i name args hv
    rw [hv] at h1 h2
    simp only at h1 h2
    simp only [Bool.not_eq_true', Bool.or_eq_false_iff, decide_eq_false_iff_not] at h1 h2 ⊢
    exact ⟨⟨h2, h1.1⟩, h1.2⟩
  · rfl

/-! ## publishing -/

/-- `defer_constant(x, Global)` followed by `insert_constant(x, v, Global)` -/
def pub1 (g : Table) (x : Bytes) (v : Int) : Table := (g.set x none).set x (some v)

def pub (g : Table) : List (Bytes × Int) → Table
  | [] => g
  | xv :: A => pub (pub1 g xv.1 xv.2) A

/-- every name was absent from the includer's table when it was published -/
def PubOk (g : Table) : List (Bytes × Int) → Prop
  | [] => True
  | xv :: A => g.find xv.1 = none ∧ PubOk (pub1 g xv.1 xv.2) A

theorem pub_snoc (g : Table) (A : List (Bytes × Int)) (x : Bytes) (v : Int) : pub g (A ++ [(x, v)]) = pub1 (pub g A) x v := by
  induction A generalizing g with
  | nil => rfl
  | cons xv A ih => simp only [List.cons_append, pub, ih]

theorem pubOk_snoc (g : Table) (A : List (Bytes × Int)) (x : Bytes) (v : Int) (h : PubOk g A)
    (hx : (pub g A).find x = none) : PubOk g (A ++ [(x, v)]) := by
  induction A generalizing g with
  | nil => exact ⟨hx, trivial⟩
  | cons xv A ih => exact ⟨h.1, ih _ h.2 hx⟩

theorem find_pub1 (g : Table) (x : Bytes) (v : Int) (m : Bytes) :
    (pub1 g x v).find m = if x = m then some (some v) else g.find m := by
  unfold pub1
  rw [find_set, find_set]
  by_cases h : x = m <;> simp [h]

theorem val_pub1 (g : Table) (x : Bytes) (v : Int) (m : Bytes) :
    (pub1 g x v).val m = if x = m then some v else g.val m := by
  unfold Table.val
  rw [find_pub1]
  by_cases h : x = m <;> simp [h]

theorem nodef_pub1 {g : Table} (h : Table.NoDef g) (x : Bytes) (v : Int) : Table.NoDef (pub1 g x v) := by
  intro m hm
  rw [find_pub1] at hm
  by_cases hx : x = m
  · rw [if_pos hx] at hm; cases hm
  · rw [if_neg hx] at hm; exact h m hm

/-- the statements of the flattened program that stand for the publication of the names `A` of the file instance
numbered by `cnum` into the table of its includer numbered by `pnum`: `pnum x := cnum x` -/
def aliases (pnum cnum : Bytes → Nat) (A : List (Bytes × Int)) : List Layout.Stmt :=
  A.map fun xv => .const (pnum xv.1) [cnum xv.1] xv.2

theorem MRun.append {a b c : Layout.State} {p q : List Layout.Stmt} (h1 : MRun a p b) (h2 : MRun b q c) :
    MRun a (p ++ q) c := by
  induction h1 with
  | nil l => exact h2
  | step hs _ ih => exact .step hs (ih h2)
  | file hm hr _ _ ih2 => rw [List.append_assoc]; exact .file hm hr (ih2 h2)

theorem alias_steps (pnum cnum : Bytes → Nat) (hpinj : Function.Injective pnum) :
    ∀ (A : List (Bytes × Int)) (g : Table) (l : Layout.State), PubOk g A → Table.NoDef g → EnvRel pnum g l.env →
      (∀ xv ∈ A, l.env.get (cnum xv.1) = some xv.2) → (∀ a b, pnum a ≠ cnum b) →
      ∃ l', MRun l (aliases pnum cnum A) l' ∧ l'.closed = l.closed ∧ l'.active = l.active ∧ l'.tasks = l.tasks ∧
        EnvRel pnum (pub g A) l'.env ∧ Table.NoDef (pub g A) ∧ (∀ k, (∀ x, k ≠ pnum x) → l'.env.get k = l.env.get k) := by
  intro A
  induction A with
  | nil =>
    intro g l _ hn hr _ _
    exact ⟨l, .nil l, rfl, rfl, rfl, hr, hn, fun _ _ => rfl⟩
  | cons xv A ih =>
    intro g l hok hn hr hc hne
    obtain ⟨x, v⟩ := xv
    obtain ⟨hx, hok'⟩ := hok
    have hget : l.env.get (pnum x) = none := by rw [hr x]; simp [Table.val, hx]
    have hdep : l.env.hasAll [cnum x] = true := by
      simp [Layout.Env.hasAll, hc (x, v) List.mem_cons_self]
    let l1 : Layout.State := { l with env := (pnum x, v) :: l.env }
    have hstep : Layout.step l (.const (pnum x) [cnum x] v) = .ok l1 := by
      simp only [Layout.step, hdep, if_true, Layout.insertConst, hget]
      rfl
    have hr1 : EnvRel pnum (pub1 g x v) l1.env := by
      intro m
      rw [val_pub1]
      show Layout.Env.get ((pnum x, v) :: l.env) (pnum m) = _
      simp only [Layout.Env.get]
      by_cases h : x = m
      · subst h; simp
      · have : pnum x ≠ pnum m := fun hh => h (hpinj hh)
        rw [if_neg this, if_neg h]; exact hr m
    obtain ⟨l', hm, e1, e2, e3, e4, e5, e6⟩ := ih (pub1 g x v) l1 hok' (nodef_pub1 hn x v) hr1
      (fun xv hxv => by
        show Layout.Env.get ((pnum x, v) :: l.env) (cnum xv.1) = _
        simp only [Layout.Env.get, if_neg (hne x xv.1)]
        exact hc xv (List.mem_cons_of_mem _ hxv)) hne
    refine ⟨l', .step hstep hm, e1, e2, e3, e4, e5, fun k hk => ?_⟩
    rw [e6 k hk]
    show Layout.Env.get ((pnum x, v) :: l.env) k = _
    simp only [Layout.Env.get, if_neg (fun (e : pnum x = k) => hk x e.symm)]

/-- the name a label or a `.const` statement defines -/
def definedName (el : Element) : Option Bytes :=
  match el.val with
  | .label x => some x
  | .directive name args =>
    if name = bytesOf "const" then
      match args.toList with
      | [.ident x, _] => some x
      | _ => none
    else none
  | _ => none

theorem insertConstant_loc_valued {st st' : St} {n : Bytes} {v : Int} {b : Bool}
    (h : insertConstant st n v .loc = .ok (st', .ok b)) : ∃ l', st'.locals = some l' ∧ l'.find n = some (some v) := by
  unfold insertConstant at h
  split at h
  · cases h
  · simp only at h
    split at h
    · cases h
    · rename_i l hl
      split at h
      · cases h; exact ⟨_, rfl, by rw [find_set]; simp⟩
      · cases h; exact ⟨_, rfl, by rw [find_set]; simp⟩
      · cases h

/-- a label or `.const` statement that succeeded leaves its name valued in the file's table -/
theorem defined_valued {fs : Bytes → Option Bytes} {enc : Encoder} {inc : Inc} {env : Env} {st st' : St} {el : Element}
    {x : Bytes} (hd : definedName el = some x) (h : statement fs enc inc env st el = .ok (st', .ok))
 :
    ∃ l' v, st'.locals = some l' ∧ l'.find x = some (some v) := by
  obtain ⟨line, col, val⟩ := el
  cases val with
  | instruction n a => simp [definedName] at hd
  | label name =>
    simp only [definedName, Option.some.injEq] at hd
    subst hd
    simp only [statement] at h
    split at h
    · simp only [Out.ok.injEq, Prod.mk.injEq] at h; cases h.2
    · split at h
      · rename_i st1 b hi
        simp only [Out.ok.injEq, Prod.mk.injEq, and_true] at h
        subst h
        obtain ⟨l', h1, h2⟩ := insertConstant_loc_valued hi
        exact ⟨l', _, h1, h2⟩
      · simp only [Out.ok.injEq, Prod.mk.injEq] at h; cases h.2
      · cases h
  | directive name args =>
    simp only [definedName] at hd
    split at hd
    · rename_i hname
      subst hname
      simp only [statement, directive_const] at h
      unfold constDirective at h
      split at h
      · simp only [Out.ok.injEq, Prod.mk.injEq] at h; cases h.2
      · split at h
        · rename_i nm b hargs
          rw [hargs] at hd
          simp only [Option.some.injEq] at hd
          subst hd
          split at h
          · rename_i r hr
            obtain ⟨st1, res⟩ := r
            have := evalStrict_err hr
            simp only [Out.ok.injEq, Prod.mk.injEq] at h
            obtain ⟨h1, h2⟩ := h
            subst h1; subst h2
            simp at this
          · split at h
            · rename_i st1 bb hi
              simp only [Out.ok.injEq, Prod.mk.injEq, and_true] at h
              subst h
              obtain ⟨l', h1, h2⟩ := insertConstant_loc_valued hi
              exact ⟨l', _, h1, h2⟩
            · simp only [Out.ok.injEq, Prod.mk.injEq] at h; cases h.2
            · simp only [Out.ok.injEq, Prod.mk.injEq] at h; cases h.2
            · cases h
          · simp only [Out.ok.injEq, Prod.mk.injEq] at h; cases h.2
          · cases h
        · rename_i hargs
          split at hd
          · rename_i x' b' hargs'
            simp only [Out.ok.injEq, Prod.mk.injEq] at h; cases h.2
          · cases hd
        · cases h
    · cases hd
/-- a `.global x` statement that finds `x` valued in the file's table and leaves no diagnostic: `x` was absent from the
includer's table, which now holds the file's value; nothing else changes -/
theorem global_inv {fs : Bytes → Option Bytes} {enc : Encoder} {inc : Inc} {env : Env} {st st' : St} {el : Element}
    (hg : isGlobal el = true) (h : statement fs enc inc env st el = .ok (st', .ok)) {t : Table} (hl : st.locals = some t)
    (hfound : ∀ x, globalName el = some x → ∃ v, t.find x = some (some v)) :
    ∃ x v, globalName el = some x ∧ t.find x = some (some v) ∧ st.globals.find x = none ∧
      st' = { st with globals := pub1 st.globals x v } := by
  obtain ⟨line, col, val⟩ := el
  cases val with
  | label n => simp [isGlobal] at hg
  | instruction n a => simp [isGlobal] at hg
  | directive name args =>
    simp only [isGlobal, decide_eq_true_eq] at hg
    subst hg
    simp only [statement, directive_global] at h
    unfold globalDirective at h
    split at h
    · simp only [Out.ok.injEq, Prod.mk.injEq] at h; cases h.2
    · split at h
      · rename_i x hargs
        have hgn : globalName ⟨line, col, .directive (bytesOf "global") args⟩ = some x := by
          simp [globalName, hargs]
        obtain ⟨v, hv⟩ := hfound x hgn
        simp only at h
        unfold deferConstant at h
        by_cases hreg : Front.isRegister x = true
        · simp only [hreg, if_true] at h
          simp only [Out.ok.injEq, Prod.mk.injEq] at h; cases h.2
        · simp only [hreg, Bool.false_eq_true, if_false] at h
          cases hf : st.globals.find x with
          | some w =>
            simp only [hf] at h
            simp only [Out.ok.injEq, Prod.mk.injEq] at h; cases h.2
          | none =>
            simp only [hf] at h
            have hget : getConstant { st with globals := st.globals.set x none } x .loc = .ok (.found v) := by
              simp [getConstant, hl, Table.get, hv]
            simp only [hget] at h
            have hins : insertConstant { st with globals := st.globals.set x none } x v .global =
                .ok ({ st with globals := pub1 st.globals x v }, .ok false) := by
              unfold insertConstant
              simp only [hreg, Bool.false_eq_true, if_false]
              have : (st.globals.set x none).find x = some none := by rw [find_set]; simp
              simp only [this]
              rfl
            simp only [hins] at h
            simp only [Out.ok.injEq, Prod.mk.injEq, and_true] at h
            exact ⟨x, v, hgn, hv, hf, h.symm⟩
      · simp only [Out.ok.injEq, Prod.mk.injEq] at h; cases h.2
      · cases h

theorem globalName_none {el : Element} (h : isGlobal el = false) : globalName el = none := by
  unfold globalName
  unfold isGlobal at h
  split
  · rename_i name args hv
    rw [hv] at h
    simp only [decide_eq_false_iff_not] at h
    rw [if_neg h]
  · rfl

theorem cursorAfter_aliases (pnum cnum : Bytes → Nat) (A : List (Bytes × Int)) (c : Option Nat) :
    Layout.Ref.cursorAfter c (aliases pnum cnum A) = c := by
  induction A with
  | nil => rfl
  | cons xv A ih => simp only [aliases, List.map_cons, Layout.Ref.cursorAfter, Layout.Ref.next]; exact ih

theorem aliases_wf (pnum cnum : Bytes → Nat) (A : List (Bytes × Int)) : ∀ s ∈ aliases pnum cnum A, s.wf = true := by
  intro s hs
  simp only [aliases, List.mem_map] at hs
  obtain ⟨_, _, rfl⟩ := hs
  rfl

/-- the names an `.include` statement brings into the includer's table: the operands of the `.global` statements of the
included file -/
def incNames (fs : Bytes → Option Bytes) (path : Bytes) (el : Element) : List Bytes :=
  match incTarget fs path el with
  | some (_, d') =>
    match parseFile d' with
    | .ok (els', _) => els'.filterMap globalName
    | .stop _ => []
  | none => []

/-- the names a statement adds (valued) to its file's table -/
def newNames (fs : Bytes → Option Bytes) (path : Bytes) (el : Element) : List Bytes :=
  (match definedName el with | some x => [x] | none => []) ++ incNames fs path el

/-- every `.global x` stands below a label or `.const` of its own file that defines `x`, or below an `.include` of a file
that declares `x` global -/
def declOk (fs : Bytes → Option Bytes) (path : Bytes) : List Bytes → List Element → Bool
  | _, [] => true
  | seen, el :: els =>
    (if isGlobal el then (match globalName el with | some x => seen.contains x | none => false) else true) &&
    declOk fs path (newNames fs path el ++ seen) els

theorem incTarget_none {fs : Bytes → Option Bytes} {path : Bytes} {el : Element} (h : isInclude el = false) :
    incTarget fs path el = none := by
  unfold incTarget
  unfold isInclude at h
  split
  · rename_i name args hv
    rw [hv] at h
    simp only [decide_eq_false_iff_not] at h
    rw [if_neg h]
  · rfl

theorem pub_valued : ∀ (A : List (Bytes × Int)) (g : Table) (x : Bytes),
    (x ∈ A.map Prod.fst ∨ ∃ v, g.find x = some (some v)) → ∃ v, (pub g A).find x = some (some v) := by
  intro A
  induction A with
  | nil =>
    intro g x h
    rcases h with h | h
    · cases h
    · exact h
  | cons xv A ih =>
    intro g x h
    refine ih (pub1 g xv.1 xv.2) x ?_
    by_cases hx : xv.1 = x
    · exact .inr ⟨xv.2, by rw [find_pub1, if_pos hx]⟩
    · rcases h with h | ⟨v, hv⟩
      · simp only [List.map_cons, List.mem_cons] at h
        rcases h with h | h
        · exact absurd h.symm hx
        · exact .inl h
      · exact .inr ⟨v, by rw [find_pub1, if_neg hx]; exact hv⟩

/-! ## the flattened program -/

inductive GFlat (num : Nat → Bytes → Nat) (fs : Bytes → Option Bytes) (enc : Encoder) (E : Layout.Env) :
    Nat → Bytes → Table → Nat → Option Nat → List Element → List Layout.Stmt → Nat → Prop
  | nil (id : Nat) (path : Bytes) (t : Table) (nxt : Nat) (c : Option Nat) : GFlat num fs enc E id path t nxt c [] [] nxt
  | stmt {id : Nat} {path : Bytes} {t : Table} {nxt : Nat} {c : Option Nat} {el : Element} {els : List Element}
      {p : List Layout.Stmt} {nxt' : Nat} : isInclude el = false → isGlobal el = false →
      GFlat num fs enc E id path t nxt (Layout.Ref.next c (absStmt (num id) fs enc path t c el)) els p nxt' →
      GFlat num fs enc E id path t nxt c (el :: els) (absStmt (num id) fs enc path t c el :: p) nxt'
  | glob {id : Nat} {path : Bytes} {t : Table} {nxt : Nat} {c : Option Nat} {el : Element} {els : List Element}
      {p : List Layout.Stmt} {nxt' : Nat} : isGlobal el = true →
      GFlat num fs enc E id path t nxt c els p nxt' → GFlat num fs enc E id path t nxt c (el :: els) p nxt'
  | inc {id : Nat} {path : Bytes} {t : Table} {nxt : Nat} {c : Option Nat} {el : Element} {els : List Element}
      {p : List Layout.Stmt} {nxt' : Nat} {path' data' : Bytes} {els' : List Element} {perr' : Option ParseErr}
      {t' : Table} {pc : List Layout.Stmt} {nxt1 : Nat} {A : List (Bytes × Int)} :
      incTarget fs path el = some (path', data') → parseFile data' = .ok (els', perr') →
      EnvRel (num nxt) t' E →
      GFlat num fs enc E nxt path' t' (nxt + 1) c els' pc nxt1 →
      A.map Prod.fst = els'.filterMap globalName → (∀ xv ∈ A, t'.val xv.1 = some xv.2) →
      GFlat num fs enc E id path t nxt1 (Layout.Ref.cursorAfter c pc) els p nxt' →
      GFlat num fs enc E id path t nxt c (el :: els) (pc ++ (aliases (num id) (num nxt) A ++ p)) nxt'

/-! ## the recursive call -/

def GIncSim (num : Nat → Bytes → Nat) (enc : Encoder) (fs : Bytes → Option Bytes) (inc : Inc) (proj : Bytes → Bytes → Prop) : Prop :=
  ∀ (env : Env) (st st' : St) (data path : Bytes) (pid id : Nat) (l : Layout.State) (tP : Table),
    proj path data → Good true st → env.paths.isEmpty = false → R st.seg l →
    st.locals = some tP → Table.NoDef tP → EnvRel (num pid) tP l.env → pid < id →
    (∀ j n, id ≤ j → l.env.get (num j n) = none) →
    inc env st data path = .ok (st', .ok) → st'.errors = [] →
    ∃ els perr t pc l1 l2 A la id', parseFile data = .ok (els, perr) ∧ id < id' ∧
      MRun (withTasks [] l) pc l1 ∧ Layout.runTasks (withTasks [] l1) l1.tasks = .ok l2 ∧
      MRun (withTasks l.tasks l2) (aliases (num pid) (num id) A) la ∧ la.tasks = l.tasks ∧
      R st'.seg la ∧ st'.locals = some (pub tP A) ∧ Table.NoDef (pub tP A) ∧ EnvRel (num pid) (pub tP A) la.env ∧
      st'.localTasks = st.localTasks ∧ st'.globals = st.globals ∧
      st'.globalTasks = st.globalTasks ∧ cursor st' = Layout.Ref.cursorAfter (cursor st) pc ∧
      (∀ s ∈ pc, s.wf = true) ∧
      (∀ j n, j ≠ pid → (j < id ∨ id' ≤ j) → la.env.get (num j n) = l.env.get (num j n)) ∧
      (∀ E : Layout.Env, (∀ j n, id ≤ j → j < id' → E.get (num j n) = la.env.get (num j n)) →
        EnvRel (num id) t E ∧ GFlat num fs enc E id path t (id + 1) (cursor st) els pc id') ∧
      A.map Prod.fst = els.filterMap globalName ∧ (∀ xv ∈ A, t.val xv.1 = some xv.2)

section
variable {num : Nat → Bytes → Nat} {enc : Encoder} {t₂ : Table} {G : List Task}

/-! ## the statement loop -/

theorem doAssemble_sim (hinj : NumInj num) (henc : EncLen enc) (fs : Bytes → Option Bytes) (inc : Inc)
    (proj : Bytes → Bytes → Prop) (hincs : GIncSim num enc fs inc proj) (hinc : IncOk inc) (hincg : IncGrew inc)
    (hincr : IncRel inc) (env : Env) (path : Bytes) (rest : List Bytes) (henv : env.paths = path :: rest)
    (perr : Option ParseErr) (id : Nat) (Gt₀ : Table) :
    ∀ (els : List Element) (st stf : St) (l : Layout.State) (nxt : Nat) (seen : List Bytes) (A : List (Bytes × Int)),
      (∀ el ∈ els, okGlob el = true ∧ ∀ p' d', incTarget fs path el = some (p', d') → proj p' d') →
      declOk fs path seen els = true →
      Multi.Sim (num id) enc t₂ G (pub Gt₀ A) st l → PubOk Gt₀ A →
      (∀ x ∈ seen, ∀ t, st.locals = some t → ∃ v, t.find x = some (some v)) →
      id < nxt → (∀ j n, nxt ≤ j → l.env.get (num j n) = none) →
      doAssemble fs enc inc env els perr st = .ok (stf, .ok) → stf.errors = [] → stf.locals = some t₂ →
      ∃ p lf nxt' A', nxt ≤ nxt' ∧ MRun l p lf ∧ Multi.Sim (num id) enc t₂ G (pub Gt₀ (A ++ A')) stf lf ∧
        PubOk Gt₀ (A ++ A') ∧ (∀ xv ∈ A', t₂.val xv.1 = some xv.2) ∧ A'.map Prod.fst = els.filterMap globalName ∧
        cursor stf = Layout.Ref.cursorAfter (cursor st) p ∧ (∀ s ∈ p, s.wf = true) ∧
        (∀ j n, j ≠ id → (j < nxt ∨ nxt' ≤ j) → lf.env.get (num j n) = l.env.get (num j n)) ∧
        (∀ E : Layout.Env, (∀ j n, nxt ≤ j → j < nxt' → E.get (num j n) = lf.env.get (num j n)) →
          GFlat num fs enc E id path t₂ nxt (cursor st) els p nxt') := by
  have henv' : env.paths.isEmpty = false := by rw [henv]; rfl
  intro els
  induction els with
  | nil =>
    intro st stf l nxt seen A _ _ sim hpo _ _ _ h herr hfin
    cases perr with
    | none =>
      simp only [doAssemble] at h; cases h
      exact ⟨[], l, nxt, [], Nat.le_refl _, .nil l, by rw [List.append_nil]; exact sim, by rw [List.append_nil]; exact hpo,
        fun _ hx => (by cases hx), rfl, rfl, fun _ hs => (by cases hs), fun _ _ _ _ => rfl, fun E _ => .nil ..⟩
    | some e => simp only [doAssemble] at h; cases h
  | cons el els ih =>
    intro st stf l nxt seen A hok hdecl sim hpo hseen hid hfresh h herr hfin
    simp only [doAssemble] at h
    split at h
    · rename_i st1 hs
      have hok' := fun x hx => hok x (List.mem_cons_of_mem _ hx)
      have hel := hok el List.mem_cons_self
      have g1 := (doAssemble_grew hincg perr els st1 stf _ h)
      have herr1 : st1.errors = [] := (grew_nil g1 herr).1
      obtain ⟨t, hl, hnd, hsub, henvr⟩ := sim.tbl
      have hT : ∀ t', st1.locals = some t' → Table.Sub t' t₂ := by
        intro t' ht'
        obtain ⟨C, C', hC, hC', le, _⟩ := (doAssemble_rel hincr perr els st1 t' ht' _ _ h).tabs
        rw [ht'] at hC; cases hC
        rw [hfin] at hC'; cases hC'
        exact le
      have good1 := ((statement_safe henc hinc sim.good henv' fs el).2 _ _ hs).1
      -- the table only grows, and the statement's own definition is in it
      obtain ⟨C0, C1, hC0, hC1, hle01, _⟩ := (statement_rel hincr hl _ _ hs).tabs
      rw [hl] at hC0; cases hC0
      simp only [declOk, Bool.and_eq_true] at hdecl
      obtain ⟨hdg, hdecl'⟩ := hdecl
      have hseen1 : (∀ x ∈ incNames fs path el, ∃ v, C1.find x = some (some v)) →
          ∀ x ∈ newNames fs path el ++ seen, ∀ t', st1.locals = some t' → ∃ v, t'.find x = some (some v) := by
        intro hincn x hx t' ht'
        rw [hC1] at ht'; cases ht'
        have hold : x ∈ seen → ∃ v, C1.find x = some (some v) := fun hxs => by
          obtain ⟨v, hv⟩ := hseen x hxs t hl
          exact ⟨v, hle01 x v hv⟩
        simp only [newNames, List.mem_append] at hx
        rcases hx with (hx | hx) | hx
        · cases hdn : definedName el with
          | none => rw [hdn] at hx; cases hx
          | some y =>
            rw [hdn] at hx
            simp only [List.mem_singleton] at hx
            subst hx
            obtain ⟨l', v, e1, e2⟩ := defined_valued hdn hs
            rw [hC1] at e1; cases e1
            exact ⟨v, e2⟩
        · exact hincn x hx
        · exact hold hx
      have hnoinc : isInclude el = false → ∀ x ∈ incNames fs path el, ∃ v, C1.find x = some (some v) := by
        intro hi' x hx
        simp only [incNames, incTarget_none hi'] at hx
        cases hx
      by_cases hi : isInclude el = true
      · -- a complete included file
        obtain ⟨p', d', htgt, hcall⟩ := include_inv henv hi hs
        obtain ⟨q, hq, hqr⟩ := sim.tasks
        have hig : isGlobal el = false := by
          unfold isInclude at hi; unfold isGlobal
          split
          · rename_i name args hv
            rw [hv] at hi
            simp only [decide_eq_true_eq] at hi
            subst hi; decide
          · rfl
        obtain ⟨els', perr', t', pc, l1, l2, Ac, la, id', hparse, hlt, hm, hrt, hal, hlat, hR, e1, hnd1, henvr1, e2, e3, e4, hcur,
            hwf, hframe, hflat, hAn, hAv⟩ :=
          hincs env st st1 d' p' id nxt l t (hel.2 _ _ htgt) sim.good henv' sim.r hl hnd henvr hid hfresh hcall herr1
        have sim1 : Multi.Sim (num id) enc t₂ G (pub Gt₀ A) st1 la :=
          ⟨good1, hR, ⟨_, e1, hnd1, hT _ e1, henvr1⟩,
            ⟨q, by rw [e2]; exact hq, by rw [hlat]; exact hqr⟩, ⟨e4.trans sim.gl.1, e3.trans sim.gl.2⟩⟩
        have hfresh1 : ∀ j n, id' ≤ j → la.env.get (num j n) = none := fun j n hj => by
          rw [hframe j n (by omega) (.inr hj)]; exact hfresh j n (by omega)
        obtain ⟨p, lf, nxt', A', hle, hm2, simf, hpo', hAv', hAn', hcurf, hwf2, hframe2, hflat2⟩ :=
          ih st1 stf la id' _ A hok' hdecl' sim1 hpo (hseen1 (fun x hx => by
              simp only [incNames, htgt, hparse] at hx
              rw [e1] at hC1; cases hC1
              exact pub_valued Ac t x (.inl (by rw [hAn]; exact hx)))) (by omega) hfresh1 h herr hfin
        refine ⟨pc ++ (aliases (num id) (num nxt) Ac ++ p), lf, nxt', A', by omega, .file hm hrt (MRun.append hal hm2), simf,
          hpo', hAv', ?_, ?_, ?_, ?_, ?_⟩
        · simp only [List.filterMap_cons, globalName_none hig]; exact hAn'
        · rw [Layout.cursorAfter_append, Layout.cursorAfter_append, cursorAfter_aliases, ← hcur]; exact hcurf
        · intro s hs'
          rcases List.mem_append.mp hs' with hs' | hs'
          · exact hwf s hs'
          · rcases List.mem_append.mp hs' with hs' | hs'
            · exact aliases_wf _ _ _ s hs'
            · exact hwf2 s hs'
        · intro j n hj hjr
          rw [hframe2 j n hj (by omega)]
          exact hframe j n hj (by omega)
        · intro E hE
          have hEc : ∀ j n, nxt ≤ j → j < id' → E.get (num j n) = la.env.get (num j n) := fun j n h1 h2 => by
            rw [hE j n h1 (by omega)]
            exact hframe2 j n (by omega) (.inl h2)
          obtain ⟨er, fl⟩ := hflat E hEc
          refine .inc htgt hparse er fl hAn hAv ?_
          rw [← hcur]
          exact hflat2 E (fun j n h1 h2 => hE j n (by omega) h2)
      · have hi' : isInclude el = false := by simpa using hi
        by_cases hg : isGlobal el = true
        · -- `.global x` with `x` valued: the includer's table receives the value
          rw [if_pos hg] at hdg
          have hfound : ∀ x, globalName el = some x → ∃ v, t.find x = some (some v) := by
            intro x hx
            rw [hx] at hdg
            simp only [List.contains_eq_mem, decide_eq_true_eq] at hdg
            exact hseen x hdg t hl
          obtain ⟨x, v, hgn, hv, hgf, hst1⟩ := global_inv hg hs hl hfound
          have hgl : st1.globals = pub Gt₀ (A ++ [(x, v)]) := by
            rw [hst1, pub_snoc, ← sim.gl.2]
          have hpo1 : PubOk Gt₀ (A ++ [(x, v)]) := pubOk_snoc _ _ _ _ hpo (by rw [← sim.gl.2]; exact hgf)
          have sim1 : Multi.Sim (num id) enc t₂ G (pub Gt₀ (A ++ [(x, v)])) st1 l :=
            ⟨good1, by rw [hst1]; exact sim.r, ⟨t, by rw [hst1]; exact hl, hnd, hsub, henvr⟩,
              by rw [hst1]; exact sim.tasks, ⟨by rw [hst1]; exact sim.gl.1, hgl⟩⟩
          have hcur1 : cursor st1 = cursor st := by rw [hst1]; rfl
          obtain ⟨p, lf, nxt', A', hle, hm2, simf, hpo', hAv', hAn', hcurf, hwf2, hframe2, hflat2⟩ :=
            ih st1 stf l nxt _ (A ++ [(x, v)]) hok' hdecl' sim1 hpo1 (hseen1 (hnoinc hi')) hid hfresh h herr hfin
          refine ⟨p, lf, nxt', (x, v) :: A', hle, hm2, ?_, ?_, ?_, ?_, by rw [← hcur1]; exact hcurf, hwf2, hframe2, ?_⟩
          · rw [show A ++ (x, v) :: A' = (A ++ [(x, v)]) ++ A' by simp]; exact simf
          · rw [show A ++ (x, v) :: A' = (A ++ [(x, v)]) ++ A' by simp]; exact hpo'
          · intro xv hxv
            rcases List.mem_cons.mp hxv with rfl | hxv
            · simp only [Table.val, hsub x v hv]
            · exact hAv' xv hxv
          · simp only [List.filterMap_cons, hgn, List.map_cons, hAn']
          · intro E hE
            refine .glob hg ?_
            rw [← hcur1]
            exact hflat2 E hE
        · -- an ordinary statement
          have hg' : isGlobal el = false := by simpa using hg
          have hokel := okEl_of (okInc_of hel.1 hg') hi'
          obtain ⟨l1, s1, s2, s3⟩ := Multi.statement_sim (hinj.inj id) henc sim fs inc env path henv el hokel hs herr1 hT
          have sim1 : Multi.Sim (num id) enc t₂ G (pub Gt₀ A) st1 l1 := ⟨good1, s2.r, s2.tbl, s2.tasks, s2.gl⟩
          have henv1 : ∀ j n, j ≠ id → l1.env.get (num j n) = l.env.get (num j n) := fun j n hj =>
            Layout.step_env_raw l l1 _ s1 _ (fun hd => by
              obtain ⟨m, hm⟩ := defines_absStmt (num id) fs path t₂ (cursor st) el _ hd
              exact hj (hinj _ _ _ _ hm).1)
          obtain ⟨p, lf, nxt', A', hle, hm2, simf, hpo', hAv', hAn', hcurf, hwf2, hframe2, hflat2⟩ :=
            ih st1 stf l1 nxt _ A hok' hdecl' sim1 hpo (hseen1 (hnoinc hi')) hid
              (fun j n hj => by rw [henv1 j n (by omega)]; exact hfresh j n hj) h herr hfin
          refine ⟨_ :: p, lf, nxt', A', hle, .step s1 hm2, simf, hpo', hAv', ?_, ?_, ?_, ?_, ?_⟩
          · simp only [List.filterMap_cons, globalName_none hg']; exact hAn'
          · simp only [Layout.Ref.cursorAfter]; rw [← s3]; exact hcurf
          · intro s hs'
            rcases List.mem_cons.mp hs' with rfl | hs'
            · exact absStmt_wf' henc ..
            · exact hwf2 s hs'
          · intro j n hj hjr
            rw [hframe2 j n hj hjr, henv1 j n hj]
          · intro E hE
            refine .stmt hi' hg' ?_
            rw [← s3]
            exact hflat2 E hE
    · cases h
    · cases h

/-! ## a whole file -/

theorem fileBody_sim (hinj : NumInj num) (henc : EncLen enc) (fs : Bytes → Option Bytes) (inc : Inc)
    (proj : Bytes → Bytes → Prop) (hincs : GIncSim num enc fs inc proj) (hinc : IncOk inc) (hincg : IncGrew inc)
    (hincr : IncRel inc) (env1 : Env) (path : Bytes) (rest : List Bytes) (henv : env1.paths = path :: rest)
    (data : Bytes) (pid id : Nat) (hpid : pid < id) (st2 st4 : St) (res : Res) (l2 : Layout.State)
    (hproj : ∀ els perr, parseFile data = .ok (els, perr) → declOk fs path [] els = true ∧ ∀ el ∈ els, okGlob el = true ∧
      ∀ p' d', incTarget fs path el = some (p', d') → proj p' d')
    (good : Good true st2) (r : R st2.seg l2) (hloc : st2.locals = some []) (hlt : st2.localTasks = some [])
    (hlk : l2.tasks = []) (hfresh : ∀ j n, id ≤ j → l2.env.get (num j n) = none)
    (hgn : Table.NoDef st2.globals) (hgr : EnvRel (num pid) st2.globals l2.env)
    (h : fileBody fs enc inc env1 data st2 = .ok (st4, res)) (herr : st4.errors = []) :
    ∃ els perr t p l3 l4 A id', parseFile data = .ok (els, perr) ∧ id < id' ∧ res = .ok ∧
      MRun l2 p l3 ∧ Layout.runTasks (withTasks [] l3) l3.tasks = .ok l4 ∧
      Good true st4 ∧ st4.globals = pub st2.globals A ∧ Table.NoDef (pub st2.globals A) ∧
      st4.globalTasks = st2.globalTasks ∧
      st4.localTasks = some [] ∧ st4.locals = some t ∧
      cursor st4 = Layout.Ref.cursorAfter (cursor st2) p ∧ (∀ s ∈ p, s.wf = true) ∧
      A.map Prod.fst = els.filterMap globalName ∧ (∀ xv ∈ A, t.val xv.1 = some xv.2) ∧
      (∀ T : List Layout.Task, ∃ la, MRun (withTasks T l4) (aliases (num pid) (num id) A) la ∧ la.tasks = T ∧
        R st4.seg la ∧ EnvRel (num pid) (pub st2.globals A) la.env ∧
        (∀ j n, j ≠ pid → (j < id ∨ id' ≤ j) → la.env.get (num j n) = l2.env.get (num j n)) ∧
        (∀ E : Layout.Env, (∀ j n, id ≤ j → j < id' → E.get (num j n) = la.env.get (num j n)) →
          EnvRel (num id) t E ∧ GFlat num fs enc E id path t (id + 1) (cursor st2) els p id')) := by
  have henv' : env1.paths.isEmpty = false := by rw [henv]; rfl
  obtain ⟨els, perr, hparse⟩ := parseFile_cases data
  have hfb' := h
  unfold fileBody at hfb'
  rw [hparse] at hfb'
  simp only at hfb'
  cases hda : doAssemble fs enc inc env1 els perr st2 with
  | stop x => rw [hda] at hfb'; cases hfb'
  | ok w =>
    obtain ⟨st3, res3⟩ := w
    rw [hda] at hfb'
    simp only at hfb'
    have gda := doAssemble_grew hincg perr els _ st3 res3 hda
    by_cases hfat : res3 = .err .fatal
    · exfalso
      rw [if_pos hfat] at hfb'
      cases hfb'
      subst hfat
      exact absurd (grew_nil gda herr).2 (by simp)
    · rw [if_neg hfat] at hfb'
      cases htk : st3.localTasks with
      | none => rw [htk] at hfb'; cases hfb'
      | some tasks =>
        rw [htk] at hfb'
        simp only at hfb'
        have gll := (localLoop_grew _ _ _ _ _ _ hfb').1
        have herr3 : st3.errors = [] := by
          rw [herr] at gll
          exact List.eq_nil_of_length_eq_zero (by simpa using gll)
        have hres3 : res3 = .ok := by
          have := (grew_nil gda herr3).2
          cases res3 with
          | ok => rfl
          | err lv => simp at this
        subst hres3
        obtain ⟨C, t₂, hC, ht₂, _, _⟩ := (doAssemble_rel hincr perr els st2 [] hloc _ _ hda).tabs
        have sim2 : Multi.Sim (num id) enc t₂ st2.globalTasks (pub st2.globals []) st2 l2 :=
          ⟨good, r, ⟨[], hloc, fun n hh => by simp [Table.find] at hh, fun n v hh => by simp [Table.find] at hh,
              fun n => by rw [hfresh id n (Nat.le_refl _)]; rfl⟩,
            ⟨[], hlt, by rw [hlk]; trivial⟩, ⟨rfl, rfl⟩⟩
        obtain ⟨hdecl, hels⟩ := hproj els perr hparse
        obtain ⟨p, lf, id', A, hle, hm, f2, hpo, hAv, hAn, hcur, hwf, hframe, hflat⟩ :=
          doAssemble_sim (t₂ := t₂) hinj henc fs inc proj hincs hinc hincg hincr env1 path rest henv perr id st2.globals els
            st2 st3 l2 (id + 1) [] [] hels hdecl sim2 trivial (fun x hx => by cases hx) (Nat.lt_succ_self _)
            (fun j n hj => hfresh j n (by omega)) hda herr3 ht₂
        rw [List.nil_append] at f2 hpo
        obtain ⟨t, e1, e2, _, e4⟩ := f2.tbl
        rw [ht₂] at e1; cases e1
        obtain ⟨qq, q1, q2⟩ := f2.tasks
        rw [htk] at q1; cases q1
        have gc := (good_clearLocal f2.good).1
        have tsim : Multi.TSim (num id) t₂ st2.globalTasks (pub st2.globals A) { st3 with localTasks := some [] } (withTasks [] lf) :=
          ⟨gc, f2.r, ht₂, e2, e4, rfl, f2.gl⟩
        have hrounds : rounds = 6 + 2 := rfl
        rw [hrounds] at hfb'
        obtain ⟨l4, g1, g2, g3⟩ := Multi.localLoop_sim henc env1 henv' 6 tasks lf.tasks _ st4 _ res tsim q2
          (fun t m => f2.good.lt tasks htk t m) hfb' herr
        have hres : res = .ok := by
          have := (localLoop_grew _ _ _ _ _ _ hfb').2
          cases res with
          | ok => rfl
          | err lv =>
            exfalso
            rcases this rfl with h1 | h1
            · simp [Res.isErr] at h1
            · rw [herr, herr3] at h1; simp at h1
        have he4 : l4.env = lf.env := Layout.runTasks_env _ (withTasks [] lf) l4 g1
        -- the publication
        have hnd : ∀ (A : List (Bytes × Int)) (g : Table), Table.NoDef g → Table.NoDef (pub g A) := by
          intro A
          induction A with
          | nil => intro g hg; exact hg
          | cons xv A ih => intro g hg; exact ih _ (nodef_pub1 hg _ _)
        refine ⟨els, perr, t₂, p, lf, l4, A, id', hparse, by omega, hres, hm, g1, g2.good, g2.gl.2, hnd A _ hgn, g2.gl.1, g2.lq,
          g2.loc, by rw [← hcur]; exact g3, hwf, hAn, hAv, fun T => ?_⟩
        have hgr4 : EnvRel (num pid) st2.globals (withTasks T l4).env := by
          intro n
          show l4.env.get (num pid n) = _
          rw [he4, hframe pid n (by omega) (.inl (by omega))]
          exact hgr n
        obtain ⟨la, a1, a2, a3, a4, a5, _, a7⟩ := alias_steps (num pid) (num id) (hinj.inj pid) A st2.globals (withTasks T l4) hpo hgn
          hgr4 (fun xv hxv => by
            show l4.env.get (num id xv.1) = _
            rw [g2.env xv.1]; exact hAv xv hxv)
          (fun a b hab => by have := (hinj _ _ _ _ hab).1; omega)
        have hother : ∀ j n, j ≠ pid → la.env.get (num j n) = l4.env.get (num j n) := fun j n hj =>
          a7 _ (fun x hx => hj (hinj _ _ _ _ hx).1)
        refine ⟨la, a1, a4, ⟨fun k => by rw [a2]; exact g2.r.1 k, by rw [a3]; exact g2.r.2⟩, a5, fun j n hj hjr => ?_, fun E hE => ?_⟩
        · rw [hother j n hj, he4]
          exact hframe j n (by omega) (by omega)
        · have hE' : ∀ j n, id ≤ j → j < id' → E.get (num j n) = l4.env.get (num j n) := fun j n h1 h2 => by
            rw [hE j n h1 h2, hother j n (by omega)]
          refine ⟨fun n => ?_, hflat E (fun j n h1 h2 => by rw [hE' j n (by omega) h2, he4])⟩
          rw [hE' id n (Nat.le_refl _) (by omega)]
          exact g2.env n

/-- every file of the include tree below (`path`, `data`), to depth `fuel`: no `.import / .export` (operand trees arbitrary),
every `.global x` below a definition of `x` in the same file or an `.include` of a file declaring `x` global -/
def GlobalProject (fs : Bytes → Option Bytes) : Nat → Bytes → Bytes → Prop
  | 0, _, _ => True
  | fuel + 1, path, data => ∀ els perr, parseFile data = .ok (els, perr) → declOk fs path [] els = true ∧ ∀ el ∈ els,
      okGlob el = true ∧ ∀ p' d', incTarget fs path el = some (p', d') → GlobalProject fs fuel p' d'

theorem assembleFile_sim (hinj : NumInj num) (henc : EncLen enc) (fs : Bytes → Option Bytes) :
    ∀ fuel, GIncSim num enc fs (assembleFile fs enc fuel) (GlobalProject fs fuel) := by
  intro fuel
  induction fuel with
  | zero => intro env st st' data path pid id l tP _ _ _ _ _ _ _ _ _ h _; simp [assembleFile] at h
  | succ fuel ih =>
    intro env st st' data path pid id l tP hproj good henv r hlP hndP hrP hpid hfresh h herr
    have hinc : IncOk (assembleFile fs enc fuel) := fun env st data path g => assembleFile_safe henc fs fuel true env st data path g
    simp only [assembleFile, List.length_cons, Nat.add_one_ne_zero, if_false, ne_eq, not_true_eq_false] at h
    obtain ⟨c, t, hc, ht, he⟩ := enterFile_true good
    rw [hlP] at hc; cases hc
    rw [he] at h
    simp only at h
    have g2 : Good true { st with locals := some [], globals := tP, localTasks := some [], globalTasks := t } :=
      ⟨good.inv, fun t' m => good.lt t ht t' m, fun l e t' m => (by cases e; simp at m), good.ltab tP hlP,
        fun l e => (by cases e; exact tableOk_nil), fun _ => ⟨rfl, rfl⟩, fun e => by cases e⟩
    split at h
    · rename_i st4 res hf
      simp only [Out.ok.injEq, Prod.mk.injEq] at h
      obtain ⟨hst, hres⟩ := h
      subst hres
      have herr4 : st4.errors = [] := by rw [← hst] at herr; exact herr
      obtain ⟨els, perr, tt, p, l3, l4, A, id', hparse, hlt, _, hm, hrt, g4, e1, hnd, e2, e3, e4, hcur, hwf, hAn, hAv, hal⟩ :=
        fileBody_sim hinj henc fs (assembleFile fs enc fuel) (GlobalProject fs fuel) ih hinc (assembleFile_grew fs enc fuel)
          (assembleFile_rel fs enc fuel) ⟨path :: env.paths, path⟩ path env.paths rfl data pid id hpid _ st4 _ (withTasks [] l)
          hproj g2 r rfl rfl rfl hfresh hndP hrP hf herr4
      obtain ⟨la, a1, a2, a3, a4, a5, a6⟩ := hal l.tasks
      refine ⟨els, perr, tt, p, l3, l4, A, la, id', hparse, hlt, hm, hrt, a1, a2, ?_, ?_, hnd, a4, ?_, ?_, ?_, ?_, hwf, a5, a6, hAn, hAv⟩
      · rw [← hst]; exact a3
      · rw [← hst]; simp only [leaveFile]; rw [e1]
      · rw [← hst]; simp only [leaveFile]; rw [e2, ht]
      · rw [← hst]; rfl
      · rw [← hst]; rfl
      · rw [← hst]; exact hcur
    · cases h

end

end Trion.Asm.Glob
