import TrionModel.Lemmas.LexExact
/-!
# A literal followed by arbitrary well-formed text
-/
namespace Trion.Lex
open Trion.Pos (adv isCont)

/-- the first call of `next()` on a spelling followed by any well-formed text -/
theorem nextToken_spell (lit rest : Bytes) (t : Tok) (hs : Spell lit t rest.head?) (hur : Utf8 rest) :
    nextToken ⟨lit ++ rest, false, 1, 1⟩ = .tok ⟨1, 1, t⟩ ⟨rest, false, (Pos.of lit).1, (Pos.of lit).2⟩ := by
  have := nextToken_layout [] lit rest t IsSep.nil hs hur 1 1
  simp only [List.nil_append, Pos.adv_nil] at this
  rw [this, Pos.of_eq_adv]

/-- … hence the whole stream begins with that token, whatever the rest yields -/
theorem tokens_spell (lit rest : Bytes) (t : Tok) (hs : Spell lit t rest.head?) (hur : Utf8 rest) :
    ∃ o more, tokens (lit ++ rest) = .ok o ∧ o.toks = ⟨1, 1, t⟩ :: more := by
  unfold tokens
  rw [new_of_utf8 _ (utf8_spell hs hur)]
  rw [show (lit ++ rest).length + 2 = ((lit ++ rest).length + 1) + 1 by omega, run, nextToken_spell lit rest t hs hur]
  simp only
  obtain ⟨o, ho, _⟩ := run_spec (lit ++ rest) ((lit ++ rest).length + 1) ⟨rest, false, (Pos.of lit).1, (Pos.of lit).2⟩ lit hur rfl rfl
    (by simp)
  rw [ho]
  exact ⟨_, o.toks, rfl, rfl⟩

/-- the number arm on `prefix ++ digits ++ rest` where `rest` does not continue an identifier or number:
the value when `from_str_radix` accepts the digits, `BadNumber` otherwise -/
theorem lexNumber_follow (r : Nat) (ds rest : Bytes) (hrx : r = 2 ∨ r = 8 ∨ r = 10 ∨ r = 16) (hne : ds ≠ [])
    (hds : ∀ b ∈ ds, isDigit r b = true) (hf : Follow rest.head?) (hur : Utf8 rest) (l k : Nat) :
    lexNumber ⟨radixPrefix r ++ ds ++ rest, false, l, k⟩ = match i64FromStrRadix ds r with
      | some v => .tok ⟨l, k, .num v⟩ ⟨rest, false, l, k + (radixPrefix r ++ ds).length⟩
      | none => fail ⟨radixPrefix r ++ ds ++ rest, false, l, k⟩ .badNumber := by
  have hrestdig : ∀ b, rest.head? = some b → isDigit r b = false := by
    intro b hb
    cases hdg : isDigit r b with
    | false => rfl
    | true => have := hf b hb; rw [isIdentByte_of_isDigit hdg] at this; cases this
  have hdet := prefix_detect r hrx ds rest hds (fun _ => hne) (by
    intro _ b hb _
    have := hf b hb
    simp [isIdentByte] at this
    omega)
  exact lexNumber_exact ⟨radixPrefix r ++ ds ++ rest, false, l, k⟩ (radixPrefix r) ds rest r rfl
    hdet.1 hdet.2 hds
    (by intro b hb
        cases ds with
        | nil => exact absurd rfl hne
        | cons a ds' => simp at hb; subst hb; exact isDigit_noncont (hds _ (by simp)))
    (by cases rest with
        | nil => exact Or.inl ⟨rfl, rfl⟩
        | cons r0 rtl => exact Or.inr ⟨r0, rtl, rfl, hrestdig r0 rfl, utf8_head? hur r0 rfl⟩)

theorem number_head (r : Nat) (ds : Bytes) (hrx : r = 2 ∨ r = 8 ∨ r = 10 ∨ r = 16) (hne : ds ≠ [])
    (hds : ∀ b ∈ ds, isDigit r b = true) :
    ∃ d0 dtl, radixPrefix r ++ ds = d0 :: dtl ∧ 48 ≤ d0.toNat ∧ d0.toNat ≤ 57 := by
  rcases hrx with rfl | rfl | rfl | rfl
  · exact ⟨48, 98 :: ds, by simp [radixPrefix], by decide⟩
  · exact ⟨48, 111 :: ds, by simp [radixPrefix], by decide⟩
  · cases ds with
    | nil => exact absurd rfl hne
    | cons a ds' => exact ⟨a, ds', by simp [radixPrefix], isDigit10_range (hds a (by simp))⟩
  · exact ⟨48, 120 :: ds, by simp [radixPrefix], by decide⟩

theorem utf8_number (r : Nat) (ds : Bytes) (hds : ∀ b ∈ ds, isDigit r b = true) {rest : Bytes} (hur : Utf8 rest) :
    Utf8 (radixPrefix r ++ ds ++ rest) :=
  utf8_ascii_append _ (by
    intro b hb; simp at hb; rcases hb with hb | hb
    · exact radixPrefix_ascii r b hb
    · exact (isDigit_ascii (hds b hb)).1) hur

end Trion.Lex
