import TrionModel.Lemmas.C06Mem
/-!
# kind-aware membership forms: the recorded diagnostic and its KIND (for `ReportedK`, Props/C06Kind.lean)
-/
namespace Trion.C04
open Trion Trion.Front

/-- the kind of the diagnostic an instruction statement records, by the outcome `b` of its first attempt: the encoder's
refusal of the completed instruction, or the front end's own diagnostic -/
def InstrKind (b : BuildOut) (k : Asm.Kind) : Prop :=
  (∃ i e', b = .completed i ∧ k = .instrAssemble (.asmEncode e')) ∨ (∃ fd st, b = .error fd st ∧ k = Asm.frontKind fd)

/-- the kind of the diagnostic `.du*` records for a complete operand that is not a value of the type -/
def duKindOf (du : Asm.DU) : Arg → Asm.Kind
  | .const v => .dirApply du.name (.dataRange 0 du.max v)
  | a => .dirArgType du.name 0 .const a.ty
theorem instr_diag_memK (env : Asm.Env) (st : Asm.St) (tbl : Asm.Table) (hnd : Asm.Table.NoDef tbl) (hT : tblI64 tbl)
    (henv : env.paths ≠ []) (hl : st.locals = some tbl) (map : Map.Segs) (seg : Seg.Active) (pending : List (Nat × Nat))
    (hs : st.seg = ⟨map, some seg, pending⟩) (l c : Nat) (name : Bytes) (args : List Arg) (t : Instr)
    (hm : mnemonic name = some t)
    (htot : (∃ i, build seg.cur name args (Asm.frontEval tbl) true = .completed i) ∨
      (∃ d st, build seg.cur name args (Asm.frontEval tbl) true = .error d st))
    (henc0 : ∀ i hws, build seg.cur name args (Asm.frontEval tbl) true = .completed i → Codec.encode i ≠ .ok hws) :
    ∀ st' r, Asm.instruction Asm.encoder env st l c name args = .ok (st', r) →
      ∃ d ∈ st'.errors, d.file = env.curName ∧ d.line = l ∧ d.col = c ∧
        InstrKind (build seg.cur name args (Asm.frontEval tbl) true) d.kind := by
  intro st' r h
  have hpaths : env.paths.isEmpty = false := by cases h : env.paths with | nil => exact absurd h henv | cons => rfl
  have hn := Asm.Table.nodef_get hnd
  have hTk := tableOk_of_tblI64 hT
  have hE := evalSimp_frontEval tbl
  unfold Asm.instruction at h
  simp only [Asm.currAddr, hs, Option.map_some, hm] at h
  cases ha : Asm.ArmInstr.assemble ⟨env.curName, l, c, ⟨seg.cur, t, 0, args⟩, false⟩ env st true with
  | stop s => rw [ha] at h; cases h
  | ok p =>
    obtain ⟨i', st1, op⟩ := p
    rw [ha] at h
    unfold Asm.ArmInstr.assemble at ha
    simp only [Asm.evalTable, hpaths, hl, Asm.evalPanics_false, Bool.false_eq_true, if_false] at ha
    cases hF : Front.assemble ⟨seg.cur, t, 0, args⟩ (Asm.frontEval tbl) true with
    | mk fs out =>
      rw [hF] at ha
      have hb : build seg.cur name args (Asm.frontEval tbl) true =
          (match out with
           | .completed => .completed fs.instr | .deferred c => .deferred c fs | .error d => .error d fs | .panic => .panic) := by
        unfold build; rw [hm]; simp only [hF]; cases out <;> rfl
      cases out with
      | completed =>
        simp only at ha
        cases ha
        simp only at hb h
        have henc : ∀ hws, Codec.encode fs.instr ≠ .ok hws := fun hws => henc0 _ hws hb
        cases hce : Codec.encode fs.instr with
        | ok hws => exact absurd hce (henc hws)
        | error e =>
          obtain ⟨e', he'⟩ := encoder_err hce
          simp only [Asm.ArmInstr.writeInstr, he'] at h
          cases h
          exact ⟨_, List.mem_cons_self, rfl, rfl, rfl, .inl ⟨_, e', hb, rfl⟩⟩
      | deferred c' =>
        rcases htot with ⟨j, hj⟩ | ⟨d, s2, hj⟩
        · rw [hb] at hj; cases hj
        · rw [hb] at hj; cases hj
      | error d =>
        simp only at ha
        cases ha
        simp only at h
        have hd0 : (⟨env.curName, l, c, Asm.frontKind d⟩ : Asm.Diag) ∈ (st.pushIn env.curName l c (Asm.frontKind d)).errors :=
          List.mem_cons_self
        cases hwi : Asm.ArmInstr.writeInstr Asm.encoder
            ⟨env.curName, l, c, fs, false⟩ (st.pushIn env.curName l c (Asm.frontKind d)) true with
        | stop s => rw [hwi] at h; cases h
        | ok q =>
          obtain ⟨i2, st2, r2⟩ := q
          have hk2 := Asm.writeInstr_keeps _ _ _ hwi _ hd0
          rw [hwi] at h
          cases r2 with
          | ok =>
            simp only at h
            cases hsch : Asm.ArmInstr.schedule i2 st2 false with
            | stop s => rw [hsch] at h; cases h
            | ok st3 =>
              rw [hsch] at h
              cases h
              have := Asm.addTask_errs hsch
              exact ⟨_, by rw [this]; exact hk2, rfl, rfl, rfl, .inr ⟨d, fs, hb, rfl⟩⟩
          | err lv => simp only at h; cases h; exact ⟨_, hk2, rfl, rfl, rfl, .inr ⟨d, fs, hb, rfl⟩⟩
      | panic => simp only at ha; cases ha



open Trion.Asm in
theorem du_diag_memK (du : Asm.DU) (env : Asm.Env) (st : Asm.St) (l c : Nat) (b a' : Arg)
    (hact : st.seg.active.isSome = true) (hev : Asm.evalArg env st b = .ok (.complete a'))
    (hbad : ∀ v, a' = .const v → ¬ (0 ≤ v ∧ v ≤ du.max)) :
    ∀ st' r, Asm.duDirective du env st l c [b] = .ok (st', r) →
      ∃ d ∈ st'.errors, d.file = env.curName ∧ d.line = l ∧ d.col = c ∧ d.kind = duKindOf du a' := by
  intro st' r h
  cases hc : st.seg.active with
  | none => simp [hc] at hact
  | some seg =>
    unfold Asm.duDirective at h
    simp only [Asm.currAddr, hc, Option.map_some, Asm.arity, List.length_cons, List.length_nil, Nat.zero_add, if_true] at h
    have happ : ∃ k, k = duKindOf du a' ∧ Asm.DataExpr.apply ⟨du, env.curName, l, c, seg.cur, b, false⟩ env st true =
        .ok (⟨du, env.curName, l, c, seg.cur, a', false⟩, st.pushIn env.curName l c k, .err .trivial) := by
      cases a' with
      | const v =>
        exact ⟨.dirApply du.name (.dataRange 0 du.max v), rfl, by
          simp [Asm.DataExpr.apply, hev, Asm.DataExpr.writer, hbad v rfl, Asm.DataExpr.kindApply]⟩
      | ident x => exact ⟨.dirArgType du.name 0 .const .ident, rfl, by simp [Asm.DataExpr.apply, hev, Asm.DataExpr.writer, Arg.ty]⟩
      | str x => exact ⟨.dirArgType du.name 0 .const .str, rfl, by simp [Asm.DataExpr.apply, hev, Asm.DataExpr.writer, Arg.ty]⟩
      | bin op x y => exact ⟨.dirArgType du.name 0 .const op.argTy, rfl, by simp [Asm.DataExpr.apply, hev, Asm.DataExpr.writer, Arg.ty]⟩
      | neg x => exact ⟨.dirArgType du.name 0 .const .neg, rfl, by simp [Asm.DataExpr.apply, hev, Asm.DataExpr.writer, Arg.ty]⟩
      | not x => exact ⟨.dirArgType du.name 0 .const .not, rfl, by simp [Asm.DataExpr.apply, hev, Asm.DataExpr.writer, Arg.ty]⟩
      | addr x => exact ⟨.dirArgType du.name 0 .const .addr, rfl, by simp [Asm.DataExpr.apply, hev, Asm.DataExpr.writer, Arg.ty]⟩
      | seq x => exact ⟨.dirArgType du.name 0 .const .seq, rfl, by simp [Asm.DataExpr.apply, hev, Asm.DataExpr.writer, Arg.ty]⟩
      | func n x => exact ⟨.dirArgType du.name 0 .const .func, rfl, by simp [Asm.DataExpr.apply, hev, Asm.DataExpr.writer, Arg.ty]⟩
    obtain ⟨k, hkd, happ⟩ := happ
    rw [happ] at h
    simp only at h
    cases hw : Asm.DataExpr.writeData ⟨du, env.curName, l, c, seg.cur, a', false⟩ (st.pushIn env.curName l c k)
        (List.replicate du.size 0xBE) with
    | stop s => rw [hw] at h; cases h
    | ok q =>
      obtain ⟨d2, st2, r2⟩ := q
      have hd0 : (⟨env.curName, l, c, k⟩ : Asm.Diag) ∈ (st.pushIn env.curName l c k).errors := List.mem_cons_self
      have hk2 := Asm.writeData_keeps hw _ hd0
      rw [hw] at h
      cases r2 with
      | ok =>
        simp only at h
        cases hs : Asm.DataExpr.schedule d2 st2 false with
        | stop s => rw [hs] at h; cases h
        | ok st3 =>
          rw [hs] at h
          cases h
          have := Asm.addTask_errs hs
          exact ⟨_, by rw [this]; exact hk2, rfl, rfl, rfl, hkd⟩
      | err lv => simp only at h; cases h; exact ⟨_, hk2, rfl, rfl, rfl, hkd⟩

end Trion.C04
