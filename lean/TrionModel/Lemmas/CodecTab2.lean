import TrionModel.Lemmas.CodecTab
namespace Trion.Codec
/-- halfwords 0x4000 … 0x5fff, evaluated by the kernel -/
theorem chkBlock2 : chkBlock 2 32 := by decide +kernel
end Trion.Codec
