import TrionModel.Model.Codec
/-! Every instruction the 16-bit decoder returns has its fields inside their Rust types (`Instr.wf`): a Boolean
checker evaluated by the kernel on every halfword below the 32-bit space (blocks `CodecWf0` … `CodecWf7`). -/
namespace Trion.Codec
open Trion

instance instDecidableInstrWf (i : Instr) : Decidable i.wf := by
  cases i <;> (simp only [Instr.wf]; infer_instance)

def wfChk16 (h : Nat) : Bool :=
  match decode16 h with
  | .ok (_, i) => decide i.wf
  | .error _ => true

def wfBlock (k cnt : Nat) : Prop := ∀ a : Fin cnt, ∀ b : Fin 256, wfChk16 ((32 * k + a.val) * 256 + b.val) = true

instance (k cnt : Nat) : Decidable (wfBlock k cnt) := by unfold wfBlock; infer_instance

end Trion.Codec
