import TrionModel.Lemmas.ParseSuffix
import TrionModel.Lemmas.LexExact
/-!
# Statements as token segments placed in the text

`Segs lo ts els left`: the parser run cuts the token list `ts` into consecutive segments `t :: seg`, one per element,
followed by the leftover `left` (empty when the run ends without error); element `i` is what `do_next` reads from
segment `i` and carries the position of the segment's first token.

`StmtsAt text lo start ts els left`: the same, with every segment located in the text: the first token of segment `i`
has the extent `[oᵢ, eᵢ)`, the remaining tokens of the segment are placed from `eᵢ` to `stopᵢ`, the next segment is
searched from `stopᵢ`, and element `i` carries `Pos.of (text.take oᵢ)`.
-/
namespace Trion.Parse
open Trion.Lex (Exact IsSep Spell)

inductive Segs (lo : LexOut) : List Token → List Element → List Token → Prop where
  | nil (ts : List Token) : Segs lo ts [] ts
  | cons (t : Token) (seg r' : List Token) (el : Element) (els : List Element) (left : List Token) :
      element lo t (seg ++ r') = .ok (el, r') → el.line = t.line → el.col = t.col →
      (t.val = .dirMark ∨ ∃ s, t.val = .ident s) →
      Segs lo r' els left → Segs lo (t :: (seg ++ r')) (el :: els) left

theorem allLoop_segs (lo : LexOut) : ∀ n ts els err, allLoop lo n ts = .done els err →
    ∃ left, Segs lo ts els left ∧ (err = none → left = []) := by
  intro n
  induction n with
  | zero => intro ts els err h; simp [allLoop] at h
  | succ n ih =>
    intro ts els err h
    cases ts with
    | nil =>
      simp only [allLoop] at h
      split at h <;> (simp only [Outcome.done.injEq] at h; obtain ⟨rfl, _⟩ := h; exact ⟨[], .nil _, fun _ => rfl⟩)
    | cons t r =>
      simp only [allLoop] at h
      split at h
      · rename_i el r' he
        split at h
        · rename_i els' e' hrec
          simp only [Outcome.done.injEq] at h
          obtain ⟨rfl, rfl⟩ := h
          obtain ⟨_, hl, hc, hk⟩ := element_ok he
          obtain ⟨seg, rfl⟩ := element_suffix he
          obtain ⟨left, hs, hleft⟩ := ih r' els' e' hrec
          exact ⟨left, .cons t seg r' el els' left he hl hc hk hs, hleft⟩
        · cases h
        · cases h
      · simp only [Outcome.done.injEq] at h
        obtain ⟨rfl, rfl⟩ := h
        exact ⟨_, .nil _, fun h => by cases h⟩
      · cases h
      · cases h

theorem segs_cons_inv {lo : LexOut} {ts : List Token} {els0 : List Element} {left : List Token}
    (h : Segs lo ts els0 left) : ∀ el els, els0 = el :: els →
      ∃ t seg r', ts = t :: (seg ++ r') ∧ element lo t (seg ++ r') = .ok (el, r') ∧ Segs lo r' els left := by
  cases h with
  | nil => intro el els heq; cases heq
  | cons t seg r' el' els' left he _ _ _ hs =>
    intro el els heq
    cases heq
    exact ⟨t, seg, r', rfl, he, hs⟩

/-- the segmentation is determined by the tokens: two runs of the same length are the same elements -/
theorem segs_det {lo : LexOut} {ts : List Token} {els els' : List Element} {left left' : List Token}
    (h : Segs lo ts els left) (h' : Segs lo ts els' left') (hlen : els.length = els'.length) : els = els' := by
  induction h generalizing els' left' with
  | nil ts =>
    cases els' with
    | nil => rfl
    | cons _ _ => simp at hlen
  | cons t seg r' el els left he _ _ _ _ ih =>
    cases els' with
    | nil => simp at hlen
    | cons el2 els2 =>
      obtain ⟨t2, seg2, r2, heq, he2, hs2⟩ := segs_cons_inv h' el2 els2 rfl
      simp only [List.cons.injEq] at heq
      obtain ⟨rfl, heq⟩ := heq
      rw [heq, he2] at he
      simp only [Res.ok.injEq, Prod.mk.injEq] at he
      obtain ⟨rfl, rfl⟩ := he
      rw [ih hs2 (by simpa using hlen)]

/-- tokens placed in the text from `start`, the last extent ending at `stop` (no condition on what follows) -/
inductive ExactTo (text : Bytes) : Nat → List Token → Nat → Prop
  | nil (start : Nat) : start ≤ text.length → ExactTo text start [] start
  | cons (start o e stop : Nat) (t : Token) (ts : List Token) :
      start ≤ o → o < e → e ≤ text.length →
      IsSep ((text.take o).drop start) →
      Spell ((text.take e).drop o) t.val text[e]? →
      (t.line, t.col) = Pos.of (text.take o) →
      ExactTo text e ts stop → ExactTo text start (t :: ts) stop

theorem exact_start_le {text : Bytes} {start : Nat} {ts : List Token} (h : Exact text start ts) : start ≤ text.length := by
  cases h with
  | nil _ h _ => exact h
  | cons _ o e _ _ h1 h2 h3 _ _ _ _ => omega

theorem exactTo_le {text : Bytes} {start stop : Nat} {ts : List Token} (h : ExactTo text start ts stop) :
    start ≤ stop ∧ stop ≤ text.length := by
  induction h with
  | nil _ h => exact ⟨Nat.le_refl _, h⟩
  | cons _ o e _ _ _ h1 h2 _ _ _ _ _ ih => omega

theorem exact_split {text : Bytes} {start : Nat} (a b : List Token) (h : Exact text start (a ++ b)) :
    ∃ stop, ExactTo text start a stop ∧ Exact text stop b := by
  induction a generalizing start with
  | nil => exact ⟨start, .nil _ (exact_start_le h), h⟩
  | cons t a ih =>
    cases h with
    | cons _ o e _ _ h1 h2 h3 h4 h5 h6 h7 =>
      obtain ⟨stop, hx, hy⟩ := ih h7
      exact ⟨stop, .cons start o e stop t a h1 h2 h3 h4 h5 h6 hx, hy⟩

inductive StmtsAt (text : Bytes) (lo : LexOut) : Nat → List Token → List Element → List Token → Prop
  | nil (start : Nat) (ts : List Token) : StmtsAt text lo start ts [] ts
  | cons (start o e stop : Nat) (t : Token) (seg r' : List Token) (el : Element) (els : List Element) (left : List Token) :
      start ≤ o → o < e → e ≤ text.length →
      IsSep ((text.take o).drop start) →                          -- separator text before the statement
      Spell ((text.take e).drop o) t.val text[e]? →              -- `[o, e)` spells its first token,
      (t.val = .dirMark ∨ ∃ s, t.val = .ident s) →               -- a `.` or the name / label identifier
      ExactTo text e seg stop →                                  -- the rest of the statement's tokens, up to `stop`
      element lo t (seg ++ r') = .ok (el, r') →                  -- `do_next` reads `el` from exactly this segment
      (el.line, el.col) = Pos.of (text.take o) →                 -- and `el` carries the specified position of `o`
      StmtsAt text lo stop r' els left →                         -- the next statement is searched from `stop`
      StmtsAt text lo start (t :: (seg ++ r')) (el :: els) left

theorem stmtsAt_of_segs {text : Bytes} {lo : LexOut} {ts : List Token} {els : List Element} {left : List Token}
    (hs : Segs lo ts els left) : ∀ {start : Nat}, Exact text start ts → StmtsAt text lo start ts els left := by
  induction hs with
  | nil ts => intro start _; exact .nil start ts
  | cons t seg r' el els left he hl hc hk _ ih =>
    intro start hx
    cases hx with
    | cons _ o e _ _ h1 h2 h3 h4 h5 h6 h7 =>
      obtain ⟨stop, hseg, hrest⟩ := exact_split seg r' h7
      exact .cons start o e stop t seg r' el els left h1 h2 h3 h4 h5 hk hseg he (by rw [hl, hc]; exact h6) (ih hrest)

theorem segs_of_stmtsAt {text : Bytes} {lo : LexOut} {start : Nat} {ts : List Token} {els : List Element}
    {left : List Token} (h : StmtsAt text lo start ts els left) : Segs lo ts els left := by
  induction h with
  | nil _ ts => exact .nil ts
  | cons _ o e stop t seg r' el els left _ _ _ _ _ hk _ he _ _ ih =>
    exact .cons t seg r' el els left he (element_ok he).2.1 (element_ok he).2.2.1 hk ih

/-- the located segmentation is determined by the text and the tokens -/
theorem stmtsAt_det {text : Bytes} {lo : LexOut} {start start' : Nat} {ts : List Token} {els els' : List Element}
    {left left' : List Token} (h : StmtsAt text lo start ts els left) (h' : StmtsAt text lo start' ts els' left')
    (hlen : els.length = els'.length) : els = els' :=
  segs_det (segs_of_stmtsAt h) (segs_of_stmtsAt h') hlen

/-- the statement offsets: strictly increasing, one per element, and each element carries the specified position of
its offset -/
theorem stmtsAt_offsets {text : Bytes} {lo : LexOut} {start : Nat} {ts : List Token} {els : List Element}
    {left : List Token} (h : StmtsAt text lo start ts els left) :
    ∃ offs : List Nat, offs.length = els.length ∧ offs.Pairwise (· < ·) ∧ (∀ o ∈ offs, start ≤ o ∧ o < text.length) ∧
      els.map (fun e => (e.line, e.col)) = offs.map (fun o => Pos.of (text.take o)) := by
  induction h with
  | nil _ _ => exact ⟨[], rfl, List.Pairwise.nil, by simp, rfl⟩
  | cons start o e stop t seg r' el els left h1 h2 h3 _ _ _ hseg _ hpos _ ih =>
    obtain ⟨offs, hl, hp, hb, hm⟩ := ih
    have hle := exactTo_le hseg
    refine ⟨o :: offs, by simp [hl], ?_, ?_, ?_⟩
    · refine List.Pairwise.cons ?_ hp
      intro x hx; have := (hb x hx).1; omega
    · intro x hx
      rcases List.mem_cons.mp hx with rfl | hx
      · omega
      · have := hb x hx; omega
    · simp only [List.map_cons, hm, hpos]

end Trion.Parse
