import TrionModel.Lemmas.SimpArithFwd
import TrionModel.Lemmas.SimpNF
/-!
# The evaluator on the tree it left behind after an ERROR

`evaluateE lk isReg t = .err e t'`: the statement records the diagnostic and is retried at the end of the file on `t'`.

* `evaluateE_error_again_closed`: arithmetic all of whose names have a value (the operand of `.du*`, an immediate, a branch
  target over defined constants, e.g. `1/0`): the re-evaluation of `t'` fails with EXACTLY the same error and leaves `t'`,
  over EVERY lookup (the names met were replaced by their numbers, the others are behind the failing node).
-/
namespace Trion.Simp
open Trion

/-- the evaluation of `a` over `lk`, if it fails, leaves a tree whose evaluation fails in exactly the same way and leaves
the same tree, over every lookup -/
def ErrAgain (lk : Bytes → Lookup) (isReg : Bytes → Bool) (a : Arg) : Prop :=
  ∀ e t', evaluateE lk isReg a = .err e t' → ∀ lk₂ : Bytes → Lookup, evaluateE lk₂ isReg t' = .err e t'

theorem evaluateE_error_again_closed (lk : Bytes → Lookup) (isReg : Bytes → Bool) : ∀ a, arith (unknown lk isReg) a = true →
    ∀ e t', evaluateE lk isReg a = .err e t' → ∀ lk₂ : Bytes → Lookup, evaluateE lk₂ isReg t' = .err e t' := by
  intro a
  induction a using Arg.ind with
  | const v => intro _ e t' h; simp [evaluateE] at h
  | ident s =>
    intro _ e t' h
    simp only [evaluateE] at h
    split at h
    · cases h
    · cases hl : lk s <;> rw [hl] at h <;> cases h
  | str s => intro _ e t' h; simp [evaluateE] at h
  | bin op l r ihl ihr =>
    intro ha e t' h lk₂
    simp only [arith, Bool.and_eq_true] at ha
    rcases evaluateE_known lk isReg l ha.1 with ⟨e1, x, h1, c1⟩ | ⟨k, t, h1⟩
    · rcases evaluateE_known lk isReg r ha.2 with ⟨e2, y, h2, c2⟩ | ⟨k, t, h2⟩
      · simp only [evaluateE, h1, h2, afterRawE, simplifyRawE, isBad, Bool.false_eq_true, if_false, cval] at h
        cases hf : foldBin op x y with
        | ok v => rw [hf] at h; cases h
        | error k =>
          rw [hf] at h
          simp only [EvE.err.injEq] at h
          obtain ⟨rfl, rfl⟩ := h
          simp only [evaluateE, afterRawE, simplifyRawE, isBad, Bool.false_eq_true, if_false, cval, hf]
      · simp only [evaluateE, h1, h2, EvE.err.injEq] at h
        obtain ⟨rfl, rfl⟩ := h
        have := ihr ha.2 _ _ h2 lk₂
        simp only [evaluateE, this]
    · simp only [evaluateE, h1, EvE.err.injEq] at h
      obtain ⟨rfl, rfl⟩ := h
      have := ihl ha.1 _ _ h1 lk₂
      simp only [evaluateE, this]
  | neg v ih =>
    intro ha e t' h lk₂
    simp only [arith] at ha
    rcases evaluateE_known lk isReg v ha with ⟨e1, x, h1, c1⟩ | ⟨k, t, h1⟩
    · simp only [evaluateE, h1, afterRawE, simplifyRawE] at h
      by_cases hx : x = i64Min
      · simp only [hx, if_true, EvE.err.injEq] at h
        obtain ⟨rfl, rfl⟩ := h
        simp only [evaluateE, afterRawE, simplifyRawE, hx, if_true]
      · simp only [hx, if_false] at h; cases h
    · simp only [evaluateE, h1, EvE.err.injEq] at h
      obtain ⟨rfl, rfl⟩ := h
      have := ih ha _ _ h1 lk₂
      simp only [evaluateE, this]
  | not v ih =>
    intro ha e t' h lk₂
    simp only [arith] at ha
    rcases evaluateE_known lk isReg v ha with ⟨e1, x, h1, c1⟩ | ⟨k, t, h1⟩
    · simp only [evaluateE, h1, afterRawE, simplifyRawE] at h; cases h
    · simp only [evaluateE, h1, EvE.err.injEq] at h
      obtain ⟨rfl, rfl⟩ := h
      have := ih ha _ _ h1 lk₂
      simp only [evaluateE, this]
  | addr v _ => intro h; simp [arith] at h
  | seq v => intro h; simp [arith] at h
  | func n v => intro h; simp [arith] at h

theorem errAgain_closed {lk : Bytes → Lookup} {isReg : Bytes → Bool} {a : Arg} (h : arith (unknown lk isReg) a = true) :
    ErrAgain lk isReg a := evaluateE_error_again_closed lk isReg a h

end Trion.Simp
