import TrionModel.Lemmas.SimpArithFwd
import TrionModel.Lemmas.SimpNF
/-!
# The evaluator on the tree it left behind after an ERROR

`evaluateE lk isReg t = .err e t'`: the statement records the diagnostic and is retried at the end of the file on `t'`.

* `evaluateE_error_again_closed`: arithmetic all of whose names have a value (the operand of `.du*`, an immediate, a branch
  target over defined constants, e.g. `1/0`): the re-evaluation of `t'` fails with EXACTLY the same error and leaves `t'`,
  over EVERY lookup (the names met were replaced by their numbers, the others are behind the failing node).
-/
namespace Trion.Simp
open Trion

/-- the evaluation of `a` over `lk`, if it fails, leaves a tree whose evaluation fails in exactly the same way and leaves
the same tree, over every lookup -/
def ErrAgain (lk : Bytes → Lookup) (isReg : Bytes → Bool) (a : Arg) : Prop :=
  ∀ e t', evaluateE lk isReg a = .err e t' → ∀ lk₂ : Bytes → Lookup, evaluateE lk₂ isReg t' = .err e t'

theorem evaluateE_error_again_closed (lk : Bytes → Lookup) (isReg : Bytes → Bool) : ∀ a, arith (unknown lk isReg) a = true →
    ∀ e t', evaluateE lk isReg a = .err e t' → ∀ lk₂ : Bytes → Lookup, evaluateE lk₂ isReg t' = .err e t' := by
  intro a
  induction a using Arg.ind with
  | const v => intro _ e t' h; simp [evaluateE] at h
  | ident s =>
    intro _ e t' h
    simp only [evaluateE] at h
    split at h
    · cases h
    · cases hl : lk s <;> rw [hl] at h <;> cases h
  | str s => intro _ e t' h; simp [evaluateE] at h
  | bin op l r ihl ihr =>
    intro ha e t' h lk₂
    simp only [arith, Bool.and_eq_true] at ha
    rcases evaluateE_known lk isReg l ha.1 with ⟨e1, x, h1, c1⟩ | ⟨k, t, h1⟩
    · rcases evaluateE_known lk isReg r ha.2 with ⟨e2, y, h2, c2⟩ | ⟨k, t, h2⟩
      · simp only [evaluateE, h1, h2, afterRawE, simplifyRawE, isBad, Bool.false_eq_true, if_false, cval] at h
        cases hf : foldBin op x y with
        | ok v => rw [hf] at h; cases h
        | error k =>
          rw [hf] at h
          simp only [EvE.err.injEq] at h
          obtain ⟨rfl, rfl⟩ := h
          simp only [evaluateE, afterRawE, simplifyRawE, isBad, Bool.false_eq_true, if_false, cval, hf]
      · simp only [evaluateE, h1, h2, EvE.err.injEq] at h
        obtain ⟨rfl, rfl⟩ := h
        have := ihr ha.2 _ _ h2 lk₂
        simp only [evaluateE, this]
    · simp only [evaluateE, h1, EvE.err.injEq] at h
      obtain ⟨rfl, rfl⟩ := h
      have := ihl ha.1 _ _ h1 lk₂
      simp only [evaluateE, this]
  | neg v ih =>
    intro ha e t' h lk₂
    simp only [arith] at ha
    rcases evaluateE_known lk isReg v ha with ⟨e1, x, h1, c1⟩ | ⟨k, t, h1⟩
    · simp only [evaluateE, h1, afterRawE, simplifyRawE] at h
      by_cases hx : x = i64Min
      · simp only [hx, if_true, EvE.err.injEq] at h
        obtain ⟨rfl, rfl⟩ := h
        simp only [evaluateE, afterRawE, simplifyRawE, hx, if_true]
      · simp only [hx, if_false] at h; cases h
    · simp only [evaluateE, h1, EvE.err.injEq] at h
      obtain ⟨rfl, rfl⟩ := h
      have := ih ha _ _ h1 lk₂
      simp only [evaluateE, this]
  | not v ih =>
    intro ha e t' h lk₂
    simp only [arith] at ha
    rcases evaluateE_known lk isReg v ha with ⟨e1, x, h1, c1⟩ | ⟨k, t, h1⟩
    · simp only [evaluateE, h1, afterRawE, simplifyRawE] at h; cases h
    · simp only [evaluateE, h1, EvE.err.injEq] at h
      obtain ⟨rfl, rfl⟩ := h
      have := ih ha _ _ h1 lk₂
      simp only [evaluateE, this]
  | addr v _ => intro h; simp [arith] at h
  | seq v => intro h; simp [arith] at h
  | func n v => intro h; simp [arith] at h

theorem errAgain_closed {lk : Bytes → Lookup} {isReg : Bytes → Bool} {a : Arg} (h : arith (unknown lk isReg) a = true) :
    ErrAgain lk isReg a := evaluateE_error_again_closed lk isReg a h

/-! ## the general case: tables without Deferred names

After an error every sub-tree evaluated so far is complete, hence `NF` and a fixed point of `evaluate` over every lookup; the
failing `simplify_raw` call is then repeated on the same operands — unless it had already written into the tree before it
failed: the swap `-(l - r) ↦ r - l` / `0 - (l - r) ↦ r - l` (handled: `swap_residual_again`), or the constant merge followed
by the deep `neutralize` (NOT handled: `MergeNeut`). -/

section
variable {isReg : Bytes → Bool}

theorem stripNeg_notBad (r : Arg) (hr : NF isReg r) (hb : isBad r = false) (b : Bool) : isBad (stripNeg b r).2.1 = false := by
  induction r using Arg.ind generalizing b with
  | neg n ih =>
    obtain ⟨hn, hbn, _, _, _⟩ := NF_neg_inv hr
    show isBad (stripNeg (!b) n).2.1 = false
    exact ih hn hbn (!b)
  | _ => exact hb

theorem opOf_dec {op : BinOp} (h : additive op) : opOf (decide (op = .sub)) = op := by
  rcases h with rfl | rfl <;> rfl

/-- the passes of `neutralize_raw` on a binary node with `NF`, well-typed operands fail only by negating `MIN` on the right,
and then they have not changed the node -/
theorem neutralizeBinE_err_NF {op : BinOp} {l r : Arg} (hr : NF isReg r) (hbl : isBad l = false) (hbr : isBad r = false)
    {e : SimpErr} {t : Arg} (h : neutralizeBinE op l r = .err e t) :
    e = .overflow .negate ∧ additive op ∧ t = .bin op l r ∧ ∃ v, r = .const v ∧ v < 0 ∧ checkedNeg v = none := by
  unfold neutralizeBinE at h
  by_cases hop : op = .add ∨ op = .sub
  · rw [if_pos hop] at h
    obtain ⟨i1, i2, i3, _, _⟩ := stripNeg_NF r hr (decide (op = .sub))
    have i6 := stripNeg_notBad r hr hbr (decide (op = .sub))
    simp only at h
    cases hc : cval (stripNeg (decide (op = .sub)) r).2.1 with
    | none =>
      simp only [hc, hbl, i6, Bool.false_eq_true, if_false] at h
      cases h
    | some v =>
      simp only [hc] at h
      by_cases hv : v < 0
      · simp only [hv, if_true] at h
        cases hn : checkedNeg v with
        | some nv =>
          have hcb : isBad (Arg.const nv) = false := rfl
          simp only [hn, hbl, hcb, Bool.false_eq_true, if_false] at h
          cases h
        | none =>
          simp only [hn, ResE.err.injEq] at h
          obtain ⟨rfl, rfl⟩ := h
          have hcr : isC r = true := by rw [← i3]; exact cval_some_isC hc
          have hr' : ∃ w, r = .const w := by cases r <;> simp [isC, cval] at hcr; exact ⟨_, rfl⟩
          obtain ⟨w, rfl⟩ := hr'
          simp only [stripNeg, cval, Option.some.injEq] at hc
          subst hc
          refine ⟨rfl, hop, ?_, w, rfl, hv, hn⟩
          simp only [stripNeg, opOf_dec hop]
      · simp only [hv, if_false, hbl, i6, Bool.false_eq_true] at h
        cases h
  · rw [if_neg hop] at h
    simp only [hbl, hbr, Bool.false_eq_true, if_false] at h
    cases h

end

theorem neutralizeRawE_zero_sub (x y : Arg) :
    neutralizeRawE (.bin .sub (.const 0) (.bin .sub x y)) = swappedE (neutralizeBinE .sub y x) := by
  simp only [neutralizeRawE, if_true]

theorem neutralizeRawE_bin_cases (op : BinOp) (l r : Arg) :
    neutralizeRawE (.bin op l r) = neutralizeBinE op l r ∨
    ∃ x y, op = .sub ∧ l = .const 0 ∧ r = .bin .sub x y ∧
      neutralizeRawE (.bin op l r) = swappedE (neutralizeBinE .sub y x) := by
  by_cases h : op = .sub ∧ l = .const 0 ∧ ∃ x y, r = .bin .sub x y
  · obtain ⟨rfl, rfl, x, y, rfl⟩ := h
    exact .inr ⟨x, y, rfl, rfl, rfl, neutralizeRawE_zero_sub x y⟩
  · left
    cases op <;> try rfl
    cases l <;> try rfl
    cases r <;> try rfl
    rename_i c op2 x y
    cases op2 <;> try rfl
    by_cases hc : c = 0
    · subst hc; exact absurd ⟨rfl, rfl, x, y, rfl⟩ h
    · simp only [neutralizeRawE, if_neg hc]

theorem swappedE_err {x : ResE (Bool × Arg) Arg} {e : SimpErr} {t : Arg} (h : swappedE x = .err e t) : x = .err e t := by
  cases x with
  | ok p => cases h
  | err e' t' => exact h
  | panic => cases h

section
variable {isReg : Bytes → Bool}

/-- the swapped difference of an `NF` difference fails only by negating `MIN`, and leaves `y - MIN` -/
theorem neutralizeBinE_swap_err {x y : Arg} (h : NF isReg (.bin .sub x y)) {e : SimpErr} {t : Arg}
    (he : neutralizeBinE .sub y x = .err e t) :
    e = .overflow .negate ∧ ∃ v, x = .const v ∧ v < 0 ∧ checkedNeg v = none ∧ t = .bin .sub y (.const v) := by
  obtain ⟨hx, hy, hf⟩ := NF_bin_inv h
  obtain ⟨b1, b2, _, _, _, _⟩ := lfix_bin hf
  obtain ⟨r1, _, r3, v, rfl, r5, r6⟩ := neutralizeBinE_err_NF hx b2 b1 he
  exact ⟨r1, v, rfl, r5, r6, r3⟩

/-- the re-evaluation of the tree `y - MIN` that the failed swap left fails in the same way -/
theorem swap_residual_again {v : Int} {y : Arg} (h : NF isReg (.bin .sub (.const v) y)) (hv : v < 0)
    (hn : checkedNeg v = none) (lk₂ : Bytes → Lookup) :
    evaluateE lk₂ isReg (.bin .sub y (.const v)) = .err (.overflow .negate) (.bin .sub y (.const v)) := by
  obtain ⟨_, hy, hf⟩ := NF_bin_inv h
  obtain ⟨_, b2, hlr, _, hb, _⟩ := lfix_bin hf
  have hcy : cval y = none := by
    cases hc : cval y with
    | none => rfl
    | some w => exact (hlr ⟨rfl, cval_some_isC hc⟩).elim
  have hbf := hb rfl
  rw [bothFound_eq _ _ _ (by intro h; cases h)] at hbf
  have hfy : fnd .sub y = false := by
    have : fnd .sub (.const v) = true := by simp [fnd, isC, cval]
    simpa [this] using hbf
  have hL : mergeL .sub y = .none := by
    have h1 := mergeL_isFound .sub y
    rw [hfy] at h1
    have h2 := mergeL_ne_panic .sub y (NF_nb hy)
    cases hm : mergeL .sub y with
    | none => rfl
    | found c i => rw [hm] at h1; simp [Find.isFound] at h1
    | panic => exact absurd hm h2
  have hraw : neutralizeRawE (.bin .sub y (.const v)) = .err (.overflow .negate) (.bin .sub y (.const v)) := by
    rcases neutralizeRawE_bin_cases .sub y (.const v) with h0 | ⟨_, _, _, _, hh, _⟩
    · rw [h0]
      simp only [neutralizeBinE, or_true, if_true, stripNeg, cval, hv, hn, opOf, decide_true]
    · cases hh
  have hs : simplifyRawE (.bin .sub y (.const v)) = .err (.overflow .negate) (.bin .sub y (.const v)) := by
    have hcb : isBad (Arg.const v) = false := rfl
    simp only [simplifyRawE, b2, hcb, Bool.false_eq_true, if_false, hcy, mergeE, hL]
    cases hR : mergeR .sub (.const v) with
    | panic => simp [mergeR, cval] at hR
    | none => simp only [hraw]
    | found c i => simp only [hraw]
  simp only [evaluateE, NF_stable hy, afterRawE, hs]

end

section
variable {isReg : Bytes → Bool}

/-- the error was raised by the deep `neutralize` that follows a constant merge (negating `MIN` at the holder of the merged
constant): the tree left is the merged, partly neutralized one — not covered by the theorems below -/
def MergeNeut (isReg : Bytes → Bool) (e : SimpErr) : Prop :=
  ∃ op l r c t₀, NF isReg l ∧ NF isReg r ∧ neutralizeE (mergeTree op l r c) = .err e t₀

theorem neutralizeRawE_bin_err_NF {op : BinOp} {l r : Arg} (hl : NF isReg l) (hr : NF isReg r) (hbl : isBad l = false)
    (hbr : isBad r = false) {e : SimpErr} {t : Arg} (h : neutralizeRawE (.bin op l r) = .err e t) :
    t = .bin op l r ∨ ∀ lk₂ : Bytes → Lookup, evaluateE lk₂ isReg t = .err e t := by
  rcases neutralizeRawE_bin_cases op l r with h0 | ⟨x, y, rfl, rfl, rfl, h1⟩
  · rw [h0] at h
    exact .inl (neutralizeBinE_err_NF hr hbl hbr h).2.2.1
  · rw [h1] at h
    obtain ⟨rfl, v, rfl, hv, hn, rfl⟩ := neutralizeBinE_swap_err hr (swappedE_err h)
    exact .inr (swap_residual_again hr hv hn)

theorem bin_node_again {op : BinOp} {l r : Arg} (hl : NF isReg l) (hr : NF isReg r) {e : SimpErr} {t : Arg}
    (hs : simplifyRawE (.bin op l r) = .err e t) :
    (∀ lk₂ : Bytes → Lookup, evaluateE lk₂ isReg t = .err e t) ∨ MergeNeut isReg e := by
  have local_ : t = .bin op l r → ∀ lk₂ : Bytes → Lookup, evaluateE lk₂ isReg t = .err e t := by
    intro ht lk₂
    subst ht
    simp only [evaluateE, NF_stable hl, NF_stable hr, afterRawE, hs]
  have viaRaw : neutralizeRawE (.bin op l r) = .err e t → isBad l = false → isBad r = false →
      (∀ lk₂ : Bytes → Lookup, evaluateE lk₂ isReg t = .err e t) ∨ MergeNeut isReg e := by
    intro h b1 b2
    rcases neutralizeRawE_bin_err_NF hl hr b1 b2 h with h | h
    · exact .inl (local_ h)
    · exact .inl h
  unfold simplifyRawE at hs
  cases b1 : isBad l with
  | true => simp only [b1, if_true, ResE.err.injEq] at hs; exact .inl (local_ hs.2.symm)
  | false =>
    cases b2 : isBad r with
    | true => simp only [b1, b2, Bool.false_eq_true, if_false, if_true, ResE.err.injEq] at hs; exact .inl (local_ hs.2.symm)
    | false =>
      simp only [b1, b2, Bool.false_eq_true, if_false] at hs
      have viaMerge : mergeE op l r = .err e t →
          (∀ lk₂ : Bytes → Lookup, evaluateE lk₂ isReg t = .err e t) ∨ MergeNeut isReg e := by
        intro hm
        unfold mergeE at hm
        cases hL : mergeL op l with
        | panic => simp [hL] at hm
        | none =>
          cases hR : mergeR op r with
          | panic => simp [hL, hR] at hm
          | none => simp only [hL, hR] at hm; exact viaRaw hm b1 b2
          | found c2 s2 => simp only [hL, hR] at hm; exact viaRaw hm b1 b2
        | found c1 s1 =>
          cases hR : mergeR op r with
          | panic => simp [hL, hR] at hm
          | none => simp only [hL, hR] at hm; exact viaRaw hm b1 b2
          | found c2 s2 =>
            simp only [hL, hR] at hm
            cases hcmb : combine op s1 s2 c1 c2 with
            | error k =>
              simp only [hcmb, ResE.err.injEq] at hm
              exact .inl (local_ hm.2.symm)
            | ok c =>
              simp only [hcmb] at hm
              cases hne : neutralizeE (mergeTree op l r c) with
              | ok p => simp [hne] at hm
              | panic => simp [hne] at hm
              | err e' t' =>
                simp only [hne, ResE.err.injEq] at hm
                obtain ⟨rfl, rfl⟩ := hm
                exact .inr ⟨op, l, r, c, _, hl, hr, hne⟩
      cases hcl : cval l with
      | none =>
        simp only [hcl] at hs
        cases op <;> simp only at hs <;>
          first
            | exact viaRaw hs b1 b2
            | exact viaMerge hs
            | (split at hs <;> first | (cases hs; done) | exact viaRaw hs b1 b2)
      | some a =>
        cases hcr : cval r with
        | none =>
          simp only [hcl, hcr] at hs
          cases op <;> simp only at hs <;>
            first
              | exact viaRaw hs b1 b2
              | exact viaMerge hs
              | (split at hs <;> first | (cases hs; done) | exact viaRaw hs b1 b2)
        | some b =>
          simp only [hcl, hcr] at hs
          cases hf : foldBin op a b with
          | ok v => simp [hf] at hs
          | error k =>
            simp only [hf, ResE.err.injEq] at hs
            exact .inl (local_ hs.2.symm)

end

section
variable {isReg : Bytes → Bool}

theorem neg_node_again {v : Arg} (hv : NF isReg v) {e : SimpErr} {t : Arg}
    (hs : simplifyRawE (.neg v) = .err e t) : ∀ lk₂ : Bytes → Lookup, evaluateE lk₂ isReg t = .err e t := by
  have local_ : t = .neg v → ∀ lk₂ : Bytes → Lookup, evaluateE lk₂ isReg t = .err e t := by
    intro ht lk₂
    subst ht
    simp only [evaluateE, NF_stable hv, afterRawE, hs]
  cases v with
  | const c =>
    simp only [simplifyRawE] at hs
    split at hs
    · simp only [ResE.err.injEq] at hs; exact local_ hs.2.symm
    · cases hs
  | ident x => simp [simplifyRawE] at hs
  | str x => simp only [simplifyRawE, ResE.err.injEq] at hs; exact local_ hs.2.symm
  | addr x => simp only [simplifyRawE, ResE.err.injEq] at hs; exact local_ hs.2.symm
  | seq x => simp only [simplifyRawE, ResE.err.injEq] at hs; exact local_ hs.2.symm
  | func f x => simp [simplifyRawE] at hs
  | not x => simp [simplifyRawE] at hs
  | neg w =>
    -- `neutralize_raw` on `-(-w)` is `neutralize_raw w`, which leaves the `NF` tree `w` alone
    exfalso
    simp only [simplifyRawE, neutralizeRawE] at hs
    obtain ⟨hw, _⟩ := NF_neg_inv hv
    have h1 := neutralizeRawE_proj w
    rw [NF_neutralizeRaw hw] at h1
    cases hn : neutralizeRawE w with
    | ok p => rw [hn] at hs; simp [swappedE] at hs
    | err e' t' => rw [hn] at h1; cases h1
    | panic => rw [hn] at h1; cases h1
  | bin op x y =>
    by_cases hop : op = .sub
    · subst hop
      simp only [simplifyRawE] at hs
      cases hn : neutralizeRawE (.bin .sub y x) with
      | ok p => rw [hn] at hs; cases hs
      | panic => rw [hn] at hs; cases hs
      | err e' t' =>
        rw [hn] at hs
        simp only [ResE.err.injEq] at hs
        obtain ⟨rfl, rfl⟩ := hs
        rcases neutralizeRawE_bin_cases .sub y x with h0 | ⟨_, _, _, hy0, _, _⟩
        · rw [h0] at hn
          obtain ⟨rfl, w, rfl, hw, hcn, rfl⟩ := neutralizeBinE_swap_err hv hn
          exact swap_residual_again hv hw hcn
        · exact absurd hy0 (NF_sub_rhs hv)
    · exfalso
      cases op <;> first | exact hop rfl | simp [simplifyRawE] at hs

theorem not_node_again {v : Arg} (hv : NF isReg v) {e : SimpErr} {t : Arg}
    (hs : simplifyRawE (.not v) = .err e t) : ∀ lk₂ : Bytes → Lookup, evaluateE lk₂ isReg t = .err e t := by
  have local_ : t = .not v → ∀ lk₂ : Bytes → Lookup, evaluateE lk₂ isReg t = .err e t := by
    intro ht lk₂
    subst ht
    simp only [evaluateE, NF_stable hv, afterRawE, hs]
  cases v <;> simp only [simplifyRawE, ResE.err.injEq] at hs <;> first | exact local_ hs.2.symm | cases hs

theorem addr_node_again {v : Arg} (hv : NF isReg v) {e : SimpErr} {t : Arg}
    (hs : simplifyRawE (.addr v) = .err e t) : ∀ lk₂ : Bytes → Lookup, evaluateE lk₂ isReg t = .err e t := by
  have local_ : t = .addr v → ∀ lk₂ : Bytes → Lookup, evaluateE lk₂ isReg t = .err e t := by
    intro ht lk₂
    subst ht
    simp only [evaluateE, NF_stable hv, afterRawE, hs]
  simp only [simplifyRawE] at hs
  split at hs
  · simp only [ResE.err.injEq] at hs; exact local_ hs.2.symm
  · cases hs

end

section
variable {isReg : Bytes → Bool}

theorem afterRawE_err {ev : Ev} {x : Arg} {e : SimpErr} {t : Arg} (h : afterRawE ev x = .err e t) :
    simplifyRawE x = .err e t := by
  unfold afterRawE at h
  cases hs : simplifyRawE x with
  | ok p => rw [hs] at h; cases h
  | err e' t' => rw [hs] at h; simp only [EvE.err.injEq] at h; rw [h.1, h.2]
  | panic => rw [hs] at h; cases h

theorem evaluateE_error_again_both (lk : Bytes → Lookup) (hn : NoDef lk) :
    (∀ a e t', evaluateE lk isReg a = .err e t' →
      (∀ lk₂ : Bytes → Lookup, evaluateE lk₂ isReg t' = .err e t') ∨ MergeNeut isReg e) ∧
    (∀ as e t', evaluateArgsE lk isReg as = .err e t' →
      (∀ lk₂ : Bytes → Lookup, evaluateArgsE lk₂ isReg t' = .err e t') ∨ MergeNeut isReg e) := by
  apply Arg.ind2
  case const => intro v e t' h; simp [evaluateE] at h
  case ident =>
    intro s e t' h
    simp only [evaluateE] at h
    split at h
    · cases h
    · cases hl : lk s <;> rw [hl] at h <;> cases h
  case str => intro v e t' h; simp [evaluateE] at h
  case bin =>
    intro op l r ihl ihr e t' h
    simp only [evaluateE] at h
    cases h1 : evaluateE lk isReg l with
    | ok e1 l' =>
      rw [h1] at h
      have hl' : NF isReg l' := evaluateE_NF h1 (evaluateE_cause_none hn h1)
      cases h2 : evaluateE lk isReg r with
      | ok e2 r' =>
        rw [h2] at h
        have hr' : NF isReg r' := evaluateE_NF h2 (evaluateE_cause_none hn h2)
        exact bin_node_again hl' hr' (afterRawE_err h)
      | nosuch n r' => rw [h2] at h; cases h
      | panic => rw [h2] at h; cases h
      | err e' r' =>
        rw [h2] at h
        simp only [EvE.err.injEq] at h
        obtain ⟨rfl, rfl⟩ := h
        rcases ihr _ _ h2 with ih | ih
        · left; intro lk₂
          simp only [evaluateE, NF_stable hl', ih lk₂]
        · exact .inr ih
    | nosuch n l' => rw [h1] at h; cases h
    | panic => rw [h1] at h; cases h
    | err e' l' =>
      rw [h1] at h
      simp only [EvE.err.injEq] at h
      obtain ⟨rfl, rfl⟩ := h
      rcases ihl _ _ h1 with ih | ih
      · left; intro lk₂
        simp only [evaluateE, ih lk₂]
      · exact .inr ih
  case neg =>
    intro v ih e t' h
    simp only [evaluateE] at h
    cases h1 : evaluateE lk isReg v with
    | ok e1 v' =>
      rw [h1] at h
      exact .inl (neg_node_again (evaluateE_NF h1 (evaluateE_cause_none hn h1)) (afterRawE_err h))
    | nosuch n v' => rw [h1] at h; cases h
    | panic => rw [h1] at h; cases h
    | err e' v' =>
      rw [h1] at h
      simp only [EvE.err.injEq] at h
      obtain ⟨rfl, rfl⟩ := h
      rcases ih _ _ h1 with ih | ih
      · left; intro lk₂
        simp only [evaluateE, ih lk₂]
      · exact .inr ih
  case not =>
    intro v ih e t' h
    simp only [evaluateE] at h
    cases h1 : evaluateE lk isReg v with
    | ok e1 v' =>
      rw [h1] at h
      exact .inl (not_node_again (evaluateE_NF h1 (evaluateE_cause_none hn h1)) (afterRawE_err h))
    | nosuch n v' => rw [h1] at h; cases h
    | panic => rw [h1] at h; cases h
    | err e' v' =>
      rw [h1] at h
      simp only [EvE.err.injEq] at h
      obtain ⟨rfl, rfl⟩ := h
      rcases ih _ _ h1 with ih | ih
      · left; intro lk₂
        simp only [evaluateE, ih lk₂]
      · exact .inr ih
  case addr =>
    intro v ih e t' h
    simp only [evaluateE] at h
    cases h1 : evaluateE lk isReg v with
    | ok e1 v' =>
      rw [h1] at h
      exact .inl (addr_node_again (evaluateE_NF h1 (evaluateE_cause_none hn h1)) (afterRawE_err h))
    | nosuch n v' => rw [h1] at h; cases h
    | panic => rw [h1] at h; cases h
    | err e' v' =>
      rw [h1] at h
      simp only [EvE.err.injEq] at h
      obtain ⟨rfl, rfl⟩ := h
      rcases ih _ _ h1 with ih | ih
      · left; intro lk₂
        simp only [evaluateE, ih lk₂]
      · exact .inr ih
  case seq =>
    intro as ih e t' h
    simp only [evaluateE] at h
    cases h1 : evaluateArgsE lk isReg as with
    | ok e1 as' => rw [h1] at h; cases h
    | nosuch n as' => rw [h1] at h; cases h
    | panic => rw [h1] at h; cases h
    | err e' as' =>
      rw [h1] at h
      simp only [EvE.err.injEq] at h
      obtain ⟨rfl, rfl⟩ := h
      rcases ih _ _ h1 with ih | ih
      · left; intro lk₂
        simp only [evaluateE, ih lk₂]
      · exact .inr ih
  case func =>
    intro f as ih e t' h
    simp only [evaluateE] at h
    cases h1 : evaluateArgsE lk isReg as with
    | ok e1 as' => rw [h1] at h; cases h
    | nosuch n as' => rw [h1] at h; cases h
    | panic => rw [h1] at h; cases h
    | err e' as' =>
      rw [h1] at h
      simp only [EvE.err.injEq] at h
      obtain ⟨rfl, rfl⟩ := h
      rcases ih _ _ h1 with ih | ih
      · left; intro lk₂
        simp only [evaluateE, ih lk₂]
      · exact .inr ih
  case nil => intro e t' h; simp [evaluateArgsE] at h
  case cons =>
    intro a as iha ihas e t' h
    simp only [evaluateArgsE] at h
    cases h1 : evaluateE lk isReg a with
    | ok e1 a' =>
      rw [h1] at h
      have ha' : NF isReg a' := evaluateE_NF h1 (evaluateE_cause_none hn h1)
      cases h2 : evaluateArgsE lk isReg as with
      | ok e2 as' => rw [h2] at h; cases h
      | nosuch n as' => rw [h2] at h; cases h
      | panic => rw [h2] at h; cases h
      | err e' as' =>
        rw [h2] at h
        simp only [EvE.err.injEq] at h
        obtain ⟨rfl, rfl⟩ := h
        rcases ihas _ _ h2 with ih | ih
        · left; intro lk₂
          simp only [evaluateArgsE, NF_stable ha', ih lk₂]
        · exact .inr ih
    | nosuch n a' => rw [h1] at h; cases h
    | panic => rw [h1] at h; cases h
    | err e' a' =>
      rw [h1] at h
      simp only [EvE.err.injEq] at h
      obtain ⟨rfl, rfl⟩ := h
      rcases iha _ _ h1 with ih | ih
      · left; intro lk₂
        simp only [evaluateArgsE, ih lk₂]
      · exact .inr ih

/-- **error-idempotence of `evaluate` over a table without Deferred names** (`_partial`: up to `MergeNeut`).  If the
evaluation fails with `e` and leaves `t'`, the evaluation of `t'` over EVERY lookup fails with exactly `e` and leaves `t'` —
unless `e` was raised by the deep `neutralize` after a constant merge. -/
theorem evaluateE_error_again_partial {lk : Bytes → Lookup} (hn : NoDef lk) {a : Arg} {e : SimpErr} {t' : Arg}
    (h : evaluateE lk isReg a = .err e t') :
    (∀ lk₂ : Bytes → Lookup, evaluateE lk₂ isReg t' = .err e t') ∨ MergeNeut isReg e :=
  (evaluateE_error_again_both lk hn).1 a e t' h

end

end Trion.Simp
