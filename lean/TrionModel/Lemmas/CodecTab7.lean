import TrionModel.Lemmas.CodecTab
namespace Trion.Codec
/-- halfwords 0xe000 … 0xe7ff, evaluated by the kernel -/
theorem chkBlock7 : chkBlock 7 8 := by decide +kernel
end Trion.Codec
