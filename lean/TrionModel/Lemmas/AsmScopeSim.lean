import TrionModel.Lemmas.AsmScopeRel
import TrionModel.Lemmas.ScopeRun
/-!
# `Trion.Asm` and `Trion.Scope`: the scope machine is the scope-relevant projection of the whole-pipeline model

`scopeOf st env : Scope.State` keeps what the scope machine tracks of a context of the whole-pipeline model: both
tables, both task queues (a closure of `.global` as itself, a retried statement as an opaque retry), the depth of the
path stack, and of the diagnostics those of the scope classes (`kindOf`).  The frame stack of `Scope` has no
counterpart in `St` — in `Asm` the saved tables live in the activations of `assembleFile` — so the simulation is stated
for what happens INSIDE one activation: the four table primitives, labels, `.const`, `.global`, `.import`, `.export`, the
closure of `.global`, and the swap on entering a file.

Each `sim_*` theorem is a commuting square: running the `Scope` function on `scopeOf st env` gives `scopeOf` of the state
the `Asm` function produces, with the same result level and the same diagnostic class; a panic of one side is a panic of
the other.  The register predicate of the two models is the same function (`isReg_eq`).
-/
namespace Trion.Asm
open Trion

/-! ## the register predicate -/

theorem upper_eq (b : UInt8) : Scope.upper b = Front.upperByte b := by
  unfold Scope.upper Front.upperByte
  split
  · rename_i h
    apply UInt8.toNat_inj.mp
    have : (32 : UInt8) ≤ b := by
      rw [UInt8.le_iff_toNat_le]; simp; omega
    rw [UInt8.toNat_sub_of_le _ _ this]
    simp
    have := b.toNat_lt
    omega
  · rfl

theorem lookup_isSome {β : Type} (l : List (Bytes × β)) (k : Bytes) :
    (l.lookup k).isSome = (l.map (·.1)).contains k := by
  induction l with
  | nil => rfl
  | cons p l ih =>
    obtain ⟨a, b⟩ := p
    simp only [List.lookup, List.map_cons, List.contains_cons]
    by_cases h : k = a
    · subst h; simp
    · have : (k == a) = false := by simpa using h
      simp [this, ih]

/-- `Arm6M::is_register` is modelled by the same function in both models -/
theorem isReg_eq (n : Bytes) : Scope.isReg n = Front.isRegister n := by
  unfold Scope.isReg Front.isRegister
  have hu : n.map Scope.upper = Front.upper n := by
    unfold Front.upper
    exact List.map_congr_left (fun b _ => upper_eq b)
  rw [hu]
  by_cases h : n.length ≤ 8
  · simp only [h, decide_true, Bool.true_and, if_true]
    rw [lookup_isSome, lookup_isSome, ← List.contains_append]
    rfl
  · simp [h]

/-! ## the projection -/

def realmOf : Realm → Scope.Realm
  | .global => .global
  | .loc => .loc

def lookupOf : Simp.Lookup → Scope.Lookup
  | .notFound => .notFound
  | .deferred => .deferred
  | .found v => .found v

def levelOf : Level → Scope.Level
  | .trivial => .trivial
  | .fatal => .fatal

def resOf : Res → Option Scope.Level
  | .ok => none
  | .err l => some (levelOf l)

def cerrOf : CErr → Scope.CErr
  | .reserved => .reserved
  | .duplicate r => .duplicate (realmOf r)

def exceptOf {α : Type} : Except CErr α → Except Scope.CErr α
  | .ok a => .ok a
  | .error e => .error (cerrOf e)

/-- the scope class of a diagnostic of the pipeline (`none`: not a scope diagnostic) -/
def kindOf : Kind → Option Scope.Kind
  | .label (.constDuplicate _ r) => some (Scope.dupKind (realmOf r))
  | .label (.constReserved _) => some .reserved
  | .dirApply _ (.constReserved _) => some .reserved
  | .dirApply _ (.constDirDuplicate _) => some .dupConst
  | .dirApply _ (.globalNotFound _ r) => some (Scope.nfKind (realmOf r))
  | .dirApply _ (.globalDeferred _ r) => some (Scope.defKind (realmOf r))
  | .dirApply _ (.globalDuplicate _ r) => some (Scope.dupKind (realmOf r))
  | .dirApply _ (.includeFailed _) => some .asmFailed
  | _ => none

def taskOf : Task → Scope.Task
  | .globalCopy n _ _ => .globalCopy n 0
  | .data _ g => .use [] none 0 g
  | .instr _ g => .use [] none 0 g

def evOf (d : Diag) : Option Scope.Ev := (kindOf d.kind).map (Scope.Ev.diag 0)

/-- what the scope machine tracks of a context (inside one activation of `Context::assemble`) -/
def scopeOf (st : St) (env : Env) : Scope.State :=
  { depth := env.paths.length, globals := st.globals, locals := st.locals,
    globalTasks := st.globalTasks.map taskOf, localTasks := st.localTasks.map (·.map taskOf),
    frames := [], mode := .running, log := st.errors.filterMap evOf }

theorem find_eq (t : Table) (n : Bytes) : Scope.Table.find t n = Table.find t n := by
  induction t with
  | nil => rfl
  | cons p t ih => obtain ⟨k, v⟩ := p; simp only [Scope.Table.find, Table.find, ih]

theorem set_eq (t : Table) (n : Bytes) (v : Option Int) : Scope.Table.set t n v = Table.set t n v := by
  induction t with
  | nil => rfl
  | cons p t ih => obtain ⟨k, w⟩ := p; simp only [Scope.Table.set, Table.set, ih]

theorem get_eq (t : Table) (n : Bytes) : Scope.Table.get t n = lookupOf (Table.get t n) := by
  unfold Scope.Table.get Table.get
  rw [find_eq]
  split <;> simp_all [lookupOf]

theorem scopeOf_push_some {st : St} {env : Env} {line col : Nat} {k : Kind} {k' : Scope.Kind} (h : kindOf k = some k') :
    scopeOf (st.push env line col k) env = (scopeOf st env).err 0 k' := by
  simp [scopeOf, St.push, St.pushIn, Scope.State.err, evOf, h]

theorem scopeOf_push (st : St) (env : Env) (line col : Nat) (k : Kind) :
    scopeOf (st.push env line col k) env =
      match kindOf k with
      | some k' => (scopeOf st env).err 0 k'
      | none => scopeOf st env := by
  cases h : kindOf k <;> simp [scopeOf, St.push, St.pushIn, Scope.State.err, evOf, h]

/-! ## the four primitives -/

/-- `get_constant` -/
theorem sim_getConstant (st : St) (env : Env) (n : Bytes) (r : Realm) :
    Scope.getConstant (scopeOf st env) n (realmOf r) =
      match getConstant st n r with
      | .ok lk => .ok (lookupOf lk)
      | .stop _ => .error .noLocalScope := by
  cases r with
  | global => simp [Scope.getConstant, getConstant, realmOf, scopeOf, get_eq]
  | loc =>
    cases hl : st.locals with
    | none => simp [Scope.getConstant, getConstant, realmOf, scopeOf, hl]
    | some l => simp [Scope.getConstant, getConstant, realmOf, scopeOf, hl, get_eq]

/-- `insert_constant` -/
theorem sim_insertConstant (st : St) (env : Env) (n : Bytes) (v : Int) (r : Realm) :
    Scope.insertConstant (scopeOf st env) n v (realmOf r) =
      match insertConstant st n v r with
      | .ok (st', x) => .ok (scopeOf st' env, exceptOf x)
      | .stop _ => .error .noLocalScope := by
  unfold Scope.insertConstant insertConstant
  rw [isReg_eq]
  cases hr : Front.isRegister n with
  | true => simp [exceptOf, cerrOf]
  | false =>
    cases r with
    | global =>
      simp only [realmOf, scopeOf, find_eq, set_eq, Bool.false_eq_true, if_false]
      cases hf : Table.find st.globals n with
      | none => simp [exceptOf]
      | some e => cases e <;> simp [exceptOf, cerrOf, realmOf]
    | loc =>
      simp only [realmOf, scopeOf, Bool.false_eq_true, if_false]
      cases hl : st.locals with
      | none => simp
      | some l =>
        simp only [find_eq, set_eq]
        cases hf : Table.find l n with
        | none => simp [exceptOf]
        | some e => cases e <;> simp [exceptOf, cerrOf, realmOf, hl]

/-- `defer_constant` -/
theorem sim_deferConstant (st : St) (env : Env) (n : Bytes) (r : Realm) :
    Scope.deferConstant (scopeOf st env) n (realmOf r) =
      match deferConstant st n r with
      | .ok (st', x) => .ok (scopeOf st' env, exceptOf x)
      | .stop _ => .error .noLocalScope := by
  unfold Scope.deferConstant deferConstant
  rw [isReg_eq]
  cases hr : Front.isRegister n with
  | true => simp [exceptOf, cerrOf]
  | false =>
    cases r with
    | global =>
      simp only [realmOf, scopeOf, find_eq, set_eq, Bool.false_eq_true, if_false]
      cases hf : Table.find st.globals n with
      | none => simp [exceptOf]
      | some e => simp [exceptOf, cerrOf, realmOf]
    | loc =>
      simp only [realmOf, scopeOf, Bool.false_eq_true, if_false]
      cases hl : st.locals with
      | none => simp
      | some l =>
        simp only [find_eq, set_eq]
        cases hf : Table.find l n with
        | none => simp [exceptOf]
        | some e => simp [exceptOf, cerrOf, realmOf, hl]

/-- `add_task` -/
theorem sim_addTask (st : St) (env : Env) (t : Task) (r : Realm) :
    Scope.addTask (scopeOf st env) (taskOf t) (realmOf r) =
      match addTask st t r with
      | .ok st' => .ok (scopeOf st' env)
      | .stop _ => .error .noLocalScope := by
  cases r with
  | global => simp [Scope.addTask, addTask, realmOf, scopeOf]
  | loc =>
    cases hl : st.localTasks with
    | none => simp [Scope.addTask, addTask, realmOf, scopeOf, hl]
    | some l => simp [Scope.addTask, addTask, realmOf, scopeOf, hl]

/-- entering a file: the `mem::replace` swaps of both models act alike on tables and queues -/
theorem sim_enterFile (st : St) (env : Env) (tag : Nat) (path : Bytes) :
    let s' := Scope.enterFile (scopeOf st env) tag
    let st2 := (enterFile st).2.2
    s'.globals = st2.globals ∧ s'.locals = st2.locals ∧ s'.globalTasks = st2.globalTasks.map taskOf ∧
    s'.localTasks = st2.localTasks.map (·.map taskOf) ∧
    s'.depth = (⟨path :: env.paths, path⟩ : Env).paths.length ∧
    (s'.frames.head?.map (·.constants)) = some (enterFile st).1 ∧
    (s'.frames.head?.map (·.tasks)) = some ((enterFile st).2.1.map (·.map taskOf)) := by
  unfold Scope.enterFile enterFile scopeOf
  cases st.locals <;> cases st.localTasks <;> simp

/-! ## results -/

/-- the observable part of an outcome of the pipeline model -/
def outOf (env : Env) : Out (St × Res) → Option (Scope.State × Option Scope.Level)
  | .ok (st, r) => some (scopeOf st env, resOf r)
  | .stop _ => none

/-- the observable part of an outcome of the scope machine -/
def exOf : Except Scope.Panic (Scope.State × Option Scope.Level) → Option (Scope.State × Option Scope.Level)
  | .ok x => some x
  | .error _ => none

theorem realm_loc : Scope.Realm.loc = realmOf .loc := rfl
theorem realm_global : Scope.Realm.global = realmOf .global := rfl

/-! ## statements -/

/-- `.export n` ≙ `Scope.doExport` -/
theorem sim_export (st : St) (env : Env) (line col : Nat) (n : Bytes) :
    exOf (Scope.doExport (scopeOf st env) n 0) = outOf env (globalDirective .export_ env st line col [.ident n]) := by
  unfold Scope.doExport globalDirective
  simp only [arity, List.length_cons, List.length_nil, Nat.zero_add, if_true]
  rw [realm_loc, sim_getConstant]
  cases hg : getConstant st n .loc with
  | stop r => simp [exOf, outOf]
  | ok lk =>
    cases lk with
    | notFound => simp [lookupOf, exOf, outOf, resOf, levelOf, scopeOf_push, kindOf, realmOf, Scope.nfKind]
    | deferred => simp [lookupOf, exOf, outOf, resOf, levelOf, scopeOf_push, kindOf, realmOf, Scope.defKind]
    | found v =>
      simp only [lookupOf]
      rw [realm_global, sim_insertConstant]
      cases hi : insertConstant st n v .global with
      | stop r => simp [exOf, outOf]
      | ok p =>
        obtain ⟨st1, x⟩ := p
        cases x with
        | ok b => simp [exceptOf, exOf, outOf, resOf]
        | error e =>
          cases e with
          | reserved => simp [exceptOf, cerrOf, exOf, outOf]
          | duplicate r => simp [exceptOf, cerrOf, exOf, outOf, resOf, levelOf, scopeOf_push, kindOf]

/-- `.import n` ≙ `Scope.doImport` -/
theorem sim_import (st : St) (env : Env) (line col : Nat) (n : Bytes) :
    exOf (Scope.doImport (scopeOf st env) n 0) = outOf env (globalDirective .import_ env st line col [.ident n]) := by
  unfold Scope.doImport globalDirective
  simp only [arity, List.length_cons, List.length_nil, Nat.zero_add, if_true, reduceCtorEq, if_false]
  rw [realm_global, sim_getConstant]
  cases hg : getConstant st n .global with
  | stop r => simp [exOf, outOf]
  | ok lk =>
    cases lk with
    | notFound => simp [lookupOf, exOf, outOf, resOf, levelOf, scopeOf_push, kindOf, realmOf, Scope.nfKind]
    | deferred =>
      simp only [lookupOf]
      rw [realm_loc, sim_deferConstant]
      cases hi : deferConstant st n .loc with
      | stop r => simp [exOf, outOf]
      | ok p =>
        obtain ⟨st1, x⟩ := p
        cases x with
        | ok b => simp [exceptOf, exOf, outOf, resOf]
        | error e =>
          cases e with
          | reserved => simp [exceptOf, cerrOf, exOf, outOf]
          | duplicate r => simp [exceptOf, cerrOf, exOf, outOf, resOf, levelOf, scopeOf_push, kindOf]
    | found v =>
      simp only [lookupOf]
      rw [realm_loc, sim_insertConstant]
      cases hi : insertConstant st n v .loc with
      | stop r => simp [exOf, outOf]
      | ok p =>
        obtain ⟨st1, x⟩ := p
        cases x with
        | ok b => simp [exceptOf, exOf, outOf, resOf]
        | error e =>
          cases e with
          | reserved => simp [exceptOf, cerrOf, exOf, outOf]
          | duplicate r => simp [exceptOf, cerrOf, exOf, outOf, resOf, levelOf, scopeOf_push, kindOf]

/-- the closure of `.global` ≙ `Scope.runGlobalCopy` -/
theorem sim_globalCopy (st : St) (env : Env) (line col : Nat) (n : Bytes) :
    exOf (Scope.runGlobalCopy (scopeOf st env) n 0) = outOf env (runGlobalCopy n line col env st) := by
  unfold Scope.runGlobalCopy runGlobalCopy
  rw [realm_loc, sim_getConstant]
  cases hg : getConstant st n .loc with
  | stop r => simp [exOf, outOf]
  | ok lk =>
    cases lk with
    | notFound => simp [lookupOf, exOf, outOf, resOf, levelOf, scopeOf_push, kindOf, realmOf, Scope.nfKind]
    | deferred => simp [lookupOf, exOf, outOf, resOf, levelOf, scopeOf_push, kindOf, realmOf, Scope.defKind]
    | found v =>
      simp only [lookupOf]
      rw [realm_global, sim_insertConstant]
      cases hi : insertConstant st n v .global with
      | stop r => simp [exOf, outOf]
      | ok p =>
        obtain ⟨st1, x⟩ := p
        cases x with
        | ok b => simp [exceptOf, exOf, outOf, resOf]
        | error e =>
          cases e with
          | reserved => simp [exceptOf, cerrOf, exOf, outOf]
          | duplicate r => simp [exceptOf, cerrOf, exOf, outOf, resOf, levelOf, scopeOf_push, kindOf]

/-- a label at the region cursor `a` ≙ `Scope.doLabel … a` -/
theorem sim_label {fs : Bytes → Option Bytes} {enc : Encoder} {inc : Inc} (st : St) (env : Env) (el : Element) (n : Bytes)
    (a : Nat) (hv : el.val = .label n) (hc : currAddr st = some a) :
    exOf (Scope.doLabel (scopeOf st env) n a 0) = outOf env (statement fs enc inc env st el) := by
  unfold Scope.doLabel statement
  simp only [hv, hc]
  rw [realm_loc, sim_insertConstant]
  cases hi : insertConstant st n a .loc with
  | stop r => simp [exOf, outOf]
  | ok p =>
    obtain ⟨st1, x⟩ := p
    cases x with
    | ok b => simp [exceptOf, exOf, outOf, resOf]
    | error e =>
      cases e with
      | reserved => simp [exceptOf, cerrOf, exOf, outOf, resOf, levelOf, scopeOf_push, kindOf, CErr.inner]
      | duplicate r => simp [exceptOf, cerrOf, exOf, outOf, resOf, levelOf, scopeOf_push, kindOf, CErr.inner]

/-- `.const n, e` whose operand evaluates to `v` ≙ `Scope.doConst … v` -/
theorem sim_const (st : St) (env : Env) (line col : Nat) (n : Bytes) (e : Arg) (v : Int)
    (he : evalStrict "const" env st line col e = .ok (.ok (.const v))) :
    exOf (Scope.doConst (scopeOf st env) n v 0) = outOf env (constDirective env st line col [.ident n, e]) := by
  unfold Scope.doConst constDirective
  simp only [arity, List.length_cons, List.length_nil, Nat.zero_add, if_true, he]
  rw [realm_loc, sim_insertConstant]
  cases hi : insertConstant st n v .loc with
  | stop r => simp [exOf, outOf]
  | ok p =>
    obtain ⟨st1, x⟩ := p
    cases x with
    | ok b => simp [exceptOf, exOf, outOf, resOf]
    | error e =>
      cases e with
      | reserved => simp [exceptOf, cerrOf, exOf, outOf, resOf, levelOf, scopeOf_push, kindOf]
      | duplicate r => simp [exceptOf, cerrOf, exOf, outOf, resOf, levelOf, scopeOf_push, kindOf]

/-- `.global n` ≙ `Scope.doGlobal` (including the `unwrap` / `assert!` pair and the queued closure) -/
theorem sim_global (st : St) (env : Env) (line col : Nat) (n : Bytes) :
    exOf (Scope.doGlobal (scopeOf st env) n 0) = outOf env (globalDirective .global env st line col [.ident n]) := by
  unfold Scope.doGlobal globalDirective
  simp only [arity, List.length_cons, List.length_nil, Nat.zero_add, if_true]
  rw [realm_global, sim_deferConstant]
  cases hd : deferConstant st n .global with
  | stop r => simp [exOf, outOf]
  | ok p =>
    obtain ⟨st1, x⟩ := p
    cases x with
    | error e =>
      cases e with
      | reserved => simp [exceptOf, cerrOf, exOf, outOf, resOf, levelOf, scopeOf_push, kindOf, GDir.name]
      | duplicate r => simp [exceptOf, cerrOf, exOf, outOf, resOf, levelOf, scopeOf_push, kindOf, GDir.name]
    | ok u =>
      simp only [exceptOf]
      rw [realm_loc, sim_getConstant]
      cases hg : getConstant st1 n .loc with
      | stop r => simp [exOf, outOf]
      | ok lk =>
        cases lk with
        | found v =>
          simp only [lookupOf]
          rw [sim_insertConstant]
          cases hi : insertConstant st1 n v .global with
          | stop r => simp [exOf, outOf]
          | ok p2 =>
            obtain ⟨st2, y⟩ := p2
            cases y with
            | error e => simp [exceptOf, exOf, outOf]
            | ok b => cases b <;> simp [exceptOf, exOf, outOf, resOf]
        | notFound =>
          simp only [lookupOf]
          rw [sim_deferConstant]
          cases hd2 : deferConstant st1 n .loc with
          | stop r => simp [exOf, outOf]
          | ok p2 =>
            obtain ⟨st2, y⟩ := p2
            cases y with
            | error e => simp [exceptOf, exOf, outOf]
            | ok u2 =>
              simp only [exceptOf]
              rw [show Scope.Task.globalCopy n 0 = taskOf (.globalCopy n line col) from rfl, sim_addTask]
              cases ha : addTask st2 (.globalCopy n line col) .loc with
              | stop r => simp [exOf, outOf]
              | ok st3 => simp [exOf, outOf, resOf]
        | deferred =>
          simp only [lookupOf]
          rw [show Scope.Task.globalCopy n 0 = taskOf (.globalCopy n line col) from rfl, sim_addTask]
          cases ha : addTask st1 (.globalCopy n line col) .loc with
          | stop r => simp [exOf, outOf]
          | ok st3 => simp [exOf, outOf, resOf]

/-- leaving a file: `PathFrame::into_inner` of the scope machine, on a frame that saved what `enterFile` of the pipeline
model returned, restores exactly what `leaveFile` restores -/
theorem sim_leaveFile (st4 : St) (path : Bytes) (paths : List Bytes) (savedC : Option Table)
    (savedT : Option (List Task)) (fs : List Scope.Saved) (tag : Nat) :
    ∃ s', Scope.intoInner { scopeOf st4 ⟨path :: paths, path⟩ with
        frames := ⟨paths.length + 1, savedC, savedT.map (·.map taskOf), tag⟩ :: fs }
        ⟨paths.length + 1, savedC, savedT.map (·.map taskOf), tag⟩ fs = .ok s' ∧
      s'.globals = (leaveFile savedC savedT st4).globals ∧ s'.locals = (leaveFile savedC savedT st4).locals ∧
      s'.globalTasks = (leaveFile savedC savedT st4).globalTasks.map taskOf ∧
      s'.localTasks = (leaveFile savedC savedT st4).localTasks.map (·.map taskOf) ∧
      s'.depth = paths.length ∧ s'.frames = fs := by
  unfold Scope.intoInner leaveFile scopeOf
  cases savedC <;> cases savedT <;> simp

end Trion.Asm
