import TrionModel.Lemmas.LexLit
/-!
# Helper lemmas for the tokenizer model, part 7: UTF-8 encoding and decoding are inverse
-/
namespace Trion.Lex
open Trion.Pos (isCont adv)

theorem toNat_toUInt8 (k : Nat) (h : k < 256) : (k.toUInt8).toNat = k := by
  simp [Nat.toUInt8, UInt8.toNat_ofNat', Nat.mod_eq_of_lt h]

theorem decode2 (b0 b1 : UInt8) (rest : Bytes) (h0 : 194 ≤ b0.toNat ∧ b0.toNat < 224) (h1 : isCont b1 = true) :
    decodeChar (b0 :: b1 :: rest) = some ((b0.toNat - 192) * 64 + (b1.toNat - 128), 2) := by
  unfold decodeChar
  simp only [List.getElem?_cons_zero, List.getElem?_cons_succ]
  rw [if_neg (by omega), if_neg (by omega), if_pos (by omega)]
  simp [h1]

theorem decode3 (b0 b1 b2 : UInt8) (rest : Bytes) (h0 : 224 ≤ b0.toNat ∧ b0.toNat < 240)
    (h1 : isCont b1 = true) (h2 : isCont b2 = true)
    (ha : b0.toNat = 224 → 160 ≤ b1.toNat) (hb : b0.toNat = 237 → b1.toNat < 160) :
    decodeChar (b0 :: b1 :: b2 :: rest) =
      some (((b0.toNat - 224) * 64 + (b1.toNat - 128)) * 64 + (b2.toNat - 128), 3) := by
  unfold decodeChar
  simp only [List.getElem?_cons_zero, List.getElem?_cons_succ]
  rw [if_neg (by omega), if_neg (by omega), if_neg (by omega), if_pos (by omega)]
  have : (isCont b1 && isCont b2 && !(b0.toNat == 224 && decide (b1.toNat < 160)) &&
      !(b0.toNat == 237 && decide (b1.toNat ≥ 160))) = true := by
    simp [h1, h2]; omega
  simp only [this, if_true]

theorem decode4 (b0 b1 b2 b3 : UInt8) (rest : Bytes) (h0 : 240 ≤ b0.toNat ∧ b0.toNat < 245)
    (h1 : isCont b1 = true) (h2 : isCont b2 = true) (h3 : isCont b3 = true)
    (ha : b0.toNat = 240 → 144 ≤ b1.toNat) (hb : b0.toNat = 244 → b1.toNat < 144) :
    decodeChar (b0 :: b1 :: b2 :: b3 :: rest) =
      some ((((b0.toNat - 240) * 64 + (b1.toNat - 128)) * 64 + (b2.toNat - 128)) * 64 + (b3.toNat - 128), 4) := by
  unfold decodeChar
  simp only [List.getElem?_cons_zero, List.getElem?_cons_succ]
  rw [if_neg (by omega), if_neg (by omega), if_neg (by omega), if_neg (by omega), if_pos (by omega)]
  have : (isCont b1 && isCont b2 && isCont b3 && !(b0.toNat == 240 && decide (b1.toNat < 144)) &&
      !(b0.toNat == 244 && decide (b1.toNat ≥ 144))) = true := by
    simp [h1, h2, h3]; omega
  simp only [this, if_true]

theorem isCont_cont (k : Nat) (h : k < 64) : isCont (128 + k).toUInt8 = true := by
  rw [isCont_iff, toNat_toUInt8 _ (by omega)]; omega

/-- `chars().next()` after `String::push(c)`: the arithmetic of the four length classes -/
theorem decodeChar_encodeChar (c : Nat) (hs : isScalar c = true) (rest : Bytes) :
    decodeChar (encodeChar c ++ rest) = some (c, (encodeChar c).length) := by
  simp only [isScalar, Bool.or_eq_true, Bool.and_eq_true, decide_eq_true_eq] at hs
  unfold encodeChar
  by_cases h1 : c < 128
  · simp only [h1, if_true, List.cons_append, List.nil_append]
    rw [decodeChar_ascii_cons _ _ (by rw [toNat_toUInt8 _ (by omega)]; exact h1), toNat_toUInt8 _ (by omega)]
    rfl
  · simp only [h1, if_false]
    by_cases h2 : c < 2048
    · simp only [h2, if_true, List.cons_append, List.nil_append]
      have e0 : ((192 + c / 64).toUInt8).toNat = 192 + c / 64 := toNat_toUInt8 _ (by omega)
      have e1 : ((128 + c % 64).toUInt8).toNat = 128 + c % 64 := toNat_toUInt8 _ (by omega)
      have := decode2 (192 + c / 64).toUInt8 (128 + c % 64).toUInt8 rest (by rw [e0]; omega)
        (isCont_cont _ (Nat.mod_lt _ (by omega)))
      rw [this, e0, e1]
      have hv : (192 + c / 64 - 192) * 64 + (128 + c % 64 - 128) = c := by omega
      rw [hv]; rfl
    · simp only [h2, if_false]
      by_cases h3 : c < 65536
      · simp only [h3, if_true, List.cons_append, List.nil_append]
        have e0 : ((224 + c / 4096).toUInt8).toNat = 224 + c / 4096 := toNat_toUInt8 _ (by omega)
        have e1 : ((128 + c / 64 % 64).toUInt8).toNat = 128 + c / 64 % 64 := toNat_toUInt8 _ (by omega)
        have e2 : ((128 + c % 64).toUInt8).toNat = 128 + c % 64 := toNat_toUInt8 _ (by omega)
        have := decode3 (224 + c / 4096).toUInt8 (128 + c / 64 % 64).toUInt8 (128 + c % 64).toUInt8 rest
          (by rw [e0]; omega) (isCont_cont _ (Nat.mod_lt _ (by omega))) (isCont_cont _ (Nat.mod_lt _ (by omega)))
          (by rw [e0, e1]; omega) (by rw [e0, e1]; omega)
        rw [this, e0, e1, e2]
        have hv : ((224 + c / 4096 - 224) * 64 + (128 + c / 64 % 64 - 128)) * 64 + (128 + c % 64 - 128) = c := by omega
        rw [hv]; rfl
      · simp only [h3, if_false, List.cons_append, List.nil_append]
        have e0 : ((240 + c / 262144).toUInt8).toNat = 240 + c / 262144 := toNat_toUInt8 _ (by omega)
        have e1 : ((128 + c / 4096 % 64).toUInt8).toNat = 128 + c / 4096 % 64 := toNat_toUInt8 _ (by omega)
        have e2 : ((128 + c / 64 % 64).toUInt8).toNat = 128 + c / 64 % 64 := toNat_toUInt8 _ (by omega)
        have e3 : ((128 + c % 64).toUInt8).toNat = 128 + c % 64 := toNat_toUInt8 _ (by omega)
        have := decode4 (240 + c / 262144).toUInt8 (128 + c / 4096 % 64).toUInt8 (128 + c / 64 % 64).toUInt8
          (128 + c % 64).toUInt8 rest
          (by rw [e0]; omega) (isCont_cont _ (Nat.mod_lt _ (by omega))) (isCont_cont _ (Nat.mod_lt _ (by omega)))
          (isCont_cont _ (Nat.mod_lt _ (by omega))) (by rw [e0, e1]; omega) (by rw [e0, e1]; omega)
        rw [this, e0, e1, e2, e3]
        have hv : (((240 + c / 262144 - 240) * 64 + (128 + c / 4096 % 64 - 128)) * 64 + (128 + c / 64 % 64 - 128)) * 64 +
            (128 + c % 64 - 128) = c := by omega
        rw [hv]; rfl

/-! ### shape of an encoding -/

theorem isCont_lead (k : Nat) (h : 192 ≤ k ∧ k < 256) : isCont k.toUInt8 = false := by
  rw [isCont_false_iff, toNat_toUInt8 _ h.2]; omega

/-- an encoding is one non-continuation byte followed by continuation bytes; one byte iff ASCII -/
theorem encodeChar_shape (c : Nat) (hs : isScalar c = true) :
    ∃ b tl, encodeChar c = b :: tl ∧ isCont b = false ∧ (∀ x ∈ tl, isCont x = true) ∧
      (c < 128 → tl = [] ∧ b.toNat = c) ∧ (128 ≤ c → 128 ≤ b.toNat) := by
  simp only [isScalar, Bool.or_eq_true, Bool.and_eq_true, decide_eq_true_eq] at hs
  unfold encodeChar
  by_cases h1 : c < 128
  · refine ⟨c.toUInt8, [], by simp [h1], ?_, by simp, fun _ => ⟨rfl, toNat_toUInt8 _ (by omega)⟩, fun h => by omega⟩
    rw [isCont_false_iff, toNat_toUInt8 _ (by omega)]; omega
  · by_cases h2 : c < 2048
    · refine ⟨(192 + c / 64).toUInt8, [(128 + c % 64).toUInt8], by simp only [h1, h2, if_false, if_true], isCont_lead _ (by omega), ?_, fun h => by omega, fun _ => ?_⟩
      · intro x hx
        rcases List.mem_cons.mp hx with rfl | hx
        · exact isCont_cont _ (by omega)
        · cases hx
      · rw [toNat_toUInt8 _ (by omega)]; omega
    · by_cases h3 : c < 65536
      · refine ⟨(224 + c / 4096).toUInt8, [(128 + c / 64 % 64).toUInt8, (128 + c % 64).toUInt8],
          by simp only [h1, h2, h3, if_false, if_true], isCont_lead _ (by omega), ?_, fun h => by omega, fun _ => ?_⟩
        · intro x hx
          rcases List.mem_cons.mp hx with rfl | hx
          · exact isCont_cont _ (by omega)
          · rcases List.mem_cons.mp hx with rfl | hx
            · exact isCont_cont _ (by omega)
            · cases hx
        · rw [toNat_toUInt8 _ (by omega)]; omega
      · refine ⟨(240 + c / 262144).toUInt8, [(128 + c / 4096 % 64).toUInt8, (128 + c / 64 % 64).toUInt8, (128 + c % 64).toUInt8],
          by simp only [h1, h2, h3, if_false], isCont_lead _ (by omega), ?_, fun h => by omega, fun _ => ?_⟩
        · intro x hx
          rcases List.mem_cons.mp hx with rfl | hx
          · exact isCont_cont _ (by omega)
          · rcases List.mem_cons.mp hx with rfl | hx
            · exact isCont_cont _ (by omega)
            · rcases List.mem_cons.mp hx with rfl | hx
              · exact isCont_cont _ (by omega)
              · cases hx
        · rw [toNat_toUInt8 _ (by omega)]; omega

theorem encodeChar_ne_nil (c : Nat) : encodeChar c ≠ [] := by
  unfold encodeChar; split
  · simp
  · split
    · simp
    · split <;> simp

theorem encodeChar_ascii (c : Nat) (h : c < 128) : encodeChar c = [c.toUInt8] := by simp [encodeChar, h]

/-- the bytes of the encoding of a non-ASCII character are all ≥ 128 -/
theorem encodeChar_high (c : Nat) (hs : isScalar c = true) (h : 128 ≤ c) : ∀ b ∈ encodeChar c, 128 ≤ b.toNat := by
  obtain ⟨b, tl, he, _, htl, _, hb⟩ := encodeChar_shape c hs
  rw [he]
  intro x hx
  rcases List.mem_cons.mp hx with rfl | hx
  · exact hb h
  · exact ((isCont_iff x).mp (htl x hx)).1

theorem encodeChar_head (c : Nat) (hs : isScalar c = true) (rest : Bytes) :
    ∀ b, (encodeChar c ++ rest).head? = some b → isCont b = false := by
  obtain ⟨b, tl, he, hb, _⟩ := encodeChar_shape c hs
  rw [he]; intro x hx; simp at hx; subst hx; exact hb

theorem scalars_append (a b : Bytes) : Pos.scalars (a ++ b) = Pos.scalars a + Pos.scalars b := by
  simp [Pos.scalars]

theorem countLF_append (a b : Bytes) : Pos.countLF (a ++ b) = Pos.countLF a + Pos.countLF b := by
  simp [Pos.countLF]

theorem scalars_encodeChar (c : Nat) (hs : isScalar c = true) : Pos.scalars (encodeChar c) = 1 := by
  obtain ⟨b, tl, he, hb, htl, _⟩ := encodeChar_shape c hs
  rw [he, Pos.scalars_cons, hb]
  have : Pos.scalars tl = 0 := by
    unfold Pos.scalars
    rw [List.length_eq_zero_iff, List.filter_eq_nil_iff]
    intro x hx; simp [htl x hx]
  simp [this]

theorem countLF_encodeChar (c : Nat) (hs : isScalar c = true) (hc : c ≠ 10) : Pos.countLF (encodeChar c) = 0 := by
  apply countLF_eq_zero
  intro x hx
  by_cases h : c < 128
  · rw [encodeChar_ascii c h] at hx; simp at hx; subst hx; rw [toNat_toUInt8 _ (by omega)]; exact hc
  · have := encodeChar_high c hs (by omega) x hx; omega

theorem adv_noLF (p : Nat × Nat) (d : Bytes) (h : Pos.countLF d = 0) : adv p d = (p.1, p.2 + Pos.scalars d) := by
  rw [Pos.adv_closed, h, Pos.lastLine_of_noLF h]; simp

/-! ### building well-formed texts -/

theorem utf8_encodeChar (c : Nat) (hs : isScalar c = true) {rest : Bytes} (h : Utf8 rest) : Utf8 (encodeChar c ++ rest) :=
  Utf8.cons _ c _ (decodeChar_encodeChar c hs rest) (by simpa using h)

theorem utf8_ascii_cons (b : UInt8) (hb : b.toNat < 128) {rest : Bytes} (h : Utf8 rest) : Utf8 (b :: rest) :=
  Utf8.cons _ b.toNat 1 (decodeChar_ascii_cons b rest hb) (by simpa using h)

theorem utf8_ascii_append (a : Bytes) (ha : ∀ b ∈ a, b.toNat < 128) {rest : Bytes} (h : Utf8 rest) : Utf8 (a ++ rest) := by
  induction a with
  | nil => exact h
  | cons b a ih => exact utf8_ascii_cons b (ha b (by simp)) (ih (fun x hx => ha x (by simp [hx])))

theorem validUpToF_utf8 {d : Bytes} (h : Utf8 d) : ∀ f, d.length ≤ f → validUpToF f d = d.length := by
  induction h with
  | nil => intro f _; cases f <;> simp [validUpToF, decodeChar]
  | cons d c n hd _ ih =>
    intro f hf
    obtain ⟨hn1, hnl, _, _⟩ := decodeChar_some hd
    cases f with
    | zero => omega
    | succ f =>
      rw [validUpToF, hd]
      simp only
      rw [ih f (by simp; omega)]
      simp; omega

/-- `Tokenizer::new` on well-formed UTF-8 keeps the whole text -/
theorem new_of_utf8 (bs : Bytes) (h : Utf8 bs) : State.new bs = ⟨bs, false, 1, 1⟩ := by
  have hv : validUpTo bs = bs.length := validUpToF_utf8 h _ (Nat.le_refl _)
  simp [State.new, hv]

/-! ### a text that is one token / one error -/

theorem nextToken_doNext (s : State) (b0 : UInt8) (tl : Bytes) (hd : s.data = b0 :: tl)
    (h1 : isSpace b0 = false) (h2 : b0.toNat ≠ 47) :
    nextToken s = match doNext s with
      | .err e s2 => .err e s2.clear
      | r => r := by
  unfold nextToken
  rw [skipLoop_none s.data.length s b0 tl hd h1 h2]
  simp only
  have : (!s.data.isEmpty) = true := by simp [hd]
  simp only [this, if_true]
  cases doNext s <;> rfl

theorem tokens_single (lit : Bytes) (hu : Utf8 lit) (t : Tok) (l c : Nat)
    (h : nextToken ⟨lit, false, 1, 1⟩ = .tok ⟨1, 1, t⟩ ⟨[], false, l, c⟩) :
    tokens lit = .ok ⟨[⟨1, 1, t⟩], none, l, c⟩ := by
  unfold tokens
  rw [new_of_utf8 lit hu, run, h]
  simp only
  rw [run, nextToken_ended]
  simp [Out.push]

theorem tokens_error (lit : Bytes) (hu : Utf8 lit) (e : LexErr) (s' : State)
    (h : nextToken ⟨lit, false, 1, 1⟩ = .err e s') :
    tokens lit = .ok ⟨[], some e, s'.line, s'.col⟩ := by
  unfold tokens
  rw [new_of_utf8 lit hu, run, h]

end Trion.Lex
