import TrionModel.Lemmas.AsmFile
import TrionModel.Lemmas.AsmStmtPos
/-!
# `Trion.Asm`: the constant tables of the whole-pipeline model (C14 lifted to `Asm`)

* `Table.le`, `Upd`: order and "update at the exported names" on constant tables;
* exact characterisations of `insert_constant` / `defer_constant`;
* `Quiet st st'`: the step touches no table, leaves every closure of `.global` where it is and queues nothing but
  retries of statements — proved for every statement and task that is not scope-relevant
  (`.addr .align .du* .dhex .dstr .dfile`, instructions, the retry tasks).
-/
namespace Trion.Asm
open Trion

/-! ## tables -/

/-- every valued entry of `t` is in `t'` with the same value -/
def Table.le (t t' : Table) : Prop := ∀ n v, t.find n = some (some v) → t'.find n = some (some v)

theorem Table.le_refl (t : Table) : t.le t := fun _ _ h => h

theorem Table.le_trans {a b c : Table} (h1 : a.le b) (h2 : b.le c) : a.le c := fun n v h => h2 n v (h1 n v h)

theorem Table.le_set (t : Table) (n : Bytes) (v : Option Int) (h : ∀ w, t.find n ≠ some (some w)) :
    t.le (t.set n v) := by
  intro m w hm
  rw [find_set]
  by_cases e : n = m
  · subst e; exact absurd hm (h w)
  · rw [if_neg e]; exact hm

/-- `G'` is `G` plus entries at `names`: each changed entry was absent or unvalued in `G` and now carries the value
the entry has in `C'` (the included file's own table) — or it was absent and is now "announced" (a `.global` whose
value has not arrived) -/
def Upd (names : List Bytes) (G G' C' : Table) : Prop :=
  ∀ m, G'.find m = G.find m ∨ (m ∈ names ∧ (∀ w, G.find m ≠ some (some w)) ∧
    ((∃ v, C'.find m = some (some v) ∧ G'.find m = some (some v)) ∨ (G.find m = none ∧ G'.find m = some none)))

theorem Upd.refl (names : List Bytes) (G C : Table) : Upd names G G C := fun _ => .inl rfl

theorem Upd.mono {n n' : List Bytes} {G G' C C' : Table} (h : Upd n G G' C) (hn : ∀ m ∈ n, m ∈ n')
    (hc : C.le C') : Upd n' G G' C' := by
  intro m
  rcases h m with h | ⟨h1, h2, h3⟩
  · exact .inl h
  · refine .inr ⟨hn m h1, h2, ?_⟩
    rcases h3 with ⟨v, h4, h5⟩ | h3
    · exact .inl ⟨v, hc m v h4, h5⟩
    · exact .inr h3

theorem Upd.trans {n : List Bytes} {G G1 G' C1 C' : Table} (h1 : Upd n G G1 C1) (h2 : Upd n G1 G' C')
    (hc : C1.le C') : Upd n G G' C' := by
  intro m
  rcases h2 m with e2 | ⟨m2, u2, c2⟩
  · rw [e2]
    exact (h1.mono (fun _ h => h) hc) m
  · rcases h1 m with e1 | ⟨m1, u1, c1⟩
    · rw [e1] at u2 c2
      exact .inr ⟨m2, u2, c2⟩
    · refine .inr ⟨m2, u1, ?_⟩
      rcases c2 with ⟨v, h4, h5⟩ | ⟨h4, h5⟩
      · exact .inl ⟨v, h4, h5⟩
      · rcases c1 with ⟨v, _, h7⟩ | ⟨h6, _⟩
        · rw [h7] at h4; cases h4
        · exact .inr ⟨h6, h5⟩

theorem Upd.le {n : List Bytes} {G G' C : Table} (h : Upd n G G' C) : G.le G' := by
  intro m v hv
  rcases h m with e | ⟨_, u, _⟩
  · rw [e]; exact hv
  · exact absurd hv (u v)

/-- with no names, nothing changes (extensionally) -/
theorem Upd.nil_find {G G' C : Table} (h : Upd [] G G' C) (m : Bytes) : G'.find m = G.find m := by
  rcases h m with e | ⟨hm, _⟩
  · exact e
  · cases hm

/-! ## `insert_constant` / `defer_constant`, exactly -/

/-- the table of a realm -/
def St.tab (st : St) : Realm → Option Table
  | .global => some st.globals
  | .loc => st.locals

def Realm.other : Realm → Realm
  | .global => .loc
  | .loc => .global

/-- everything but the two tables -/
def St.rest (st : St) : Seg.State × List Task × Option (List Task) × List Diag :=
  (st.seg, st.globalTasks, st.localTasks, st.errors)

/-- `insert_constant`: an error leaves the context as it is (`Reserved` exactly for a register name, `Duplicate`
exactly for a valued entry); success sets the entry — which was absent or unvalued — and touches nothing else -/
theorem insertConstant_char {st st' : St} {n : Bytes} {v : Int} {r : Realm} {x : Except CErr Bool}
    (h : insertConstant st n v r = .ok (st', x)) :
    (st' = st ∧ ((x = .error .reserved ∧ Front.isRegister n = true) ∨
      (x = .error (.duplicate r) ∧ Front.isRegister n = false ∧ ∃ t w, st.tab r = some t ∧ t.find n = some (some w)))) ∨
    (∃ t b, x = .ok b ∧ st.tab r = some t ∧ (∀ w, t.find n ≠ some (some w)) ∧
      st'.tab r = some (t.set n (some v)) ∧ st'.tab r.other = st.tab r.other ∧ st'.rest = st.rest ∧
      Front.isRegister n = false ∧ (b = true ↔ t.find n = none)) := by
  unfold insertConstant at h
  split at h
  · rename_i hr; cases h; exact .inl ⟨rfl, .inl ⟨rfl, hr⟩⟩
  · rename_i hr
    have hr : Front.isRegister n = false := by simpa using hr
    cases r with
    | global =>
      simp only at h
      split at h
      · rename_i hf; cases h
        exact .inr ⟨st.globals, true, rfl, rfl, by simp [hf], rfl, rfl, rfl, hr, by simp [hf]⟩
      · rename_i hf; cases h
        exact .inr ⟨st.globals, false, rfl, rfl, by simp [hf], rfl, rfl, rfl, hr, by simp [hf]⟩
      · rename_i w hf; cases h
        exact .inl ⟨rfl, .inr ⟨rfl, hr, st.globals, w, rfl, hf⟩⟩
    | loc =>
      simp only at h
      split at h
      · cases h
      · rename_i l hl
        split at h
        · rename_i hf; cases h
          exact .inr ⟨l, true, rfl, hl, by simp [hf], rfl, rfl, rfl, hr, by simp [hf]⟩
        · rename_i hf; cases h
          exact .inr ⟨l, false, rfl, hl, by simp [hf], rfl, rfl, rfl, hr, by simp [hf]⟩
        · rename_i w hf; cases h
          exact .inl ⟨rfl, .inr ⟨rfl, hr, l, w, hl, hf⟩⟩

/-- `defer_constant`: an error leaves the context as it is (`Reserved` exactly for a register name, `Duplicate`
exactly for an existing entry); success announces the name — which was absent — and touches nothing else -/
theorem deferConstant_char {st st' : St} {n : Bytes} {r : Realm} {x : Except CErr Unit}
    (h : deferConstant st n r = .ok (st', x)) :
    (st' = st ∧ ((x = .error .reserved ∧ Front.isRegister n = true) ∨
      (x = .error (.duplicate r) ∧ Front.isRegister n = false ∧ ∃ t e, st.tab r = some t ∧ t.find n = some e))) ∨
    (∃ t, x = .ok () ∧ st.tab r = some t ∧ t.find n = none ∧
      st'.tab r = some (t.set n none) ∧ st'.tab r.other = st.tab r.other ∧ st'.rest = st.rest ∧
      Front.isRegister n = false) := by
  unfold deferConstant at h
  split at h
  · rename_i hr; cases h; exact .inl ⟨rfl, .inl ⟨rfl, hr⟩⟩
  · rename_i hr
    have hr : Front.isRegister n = false := by simpa using hr
    cases r with
    | global =>
      simp only at h
      split at h
      · rename_i e hf; cases h
        exact .inl ⟨rfl, .inr ⟨rfl, hr, st.globals, e, rfl, hf⟩⟩
      · rename_i hf; cases h
        exact .inr ⟨st.globals, rfl, rfl, hf, rfl, rfl, rfl, hr⟩
    | loc =>
      simp only at h
      split at h
      · cases h
      · rename_i l hl
        split at h
        · rename_i e hf; cases h
          exact .inl ⟨rfl, .inr ⟨rfl, hr, l, e, hl, hf⟩⟩
        · rename_i hf; cases h
          exact .inr ⟨l, rfl, hl, hf, rfl, rfl, rfl, hr⟩

theorem getConstant_char {st : St} {n : Bytes} {r : Realm} {lk : Simp.Lookup} (h : getConstant st n r = .ok lk) :
    ∃ t, st.tab r = some t ∧ lk = t.get n := by
  cases r with
  | global => simp only [getConstant] at h; cases h; exact ⟨_, rfl, rfl⟩
  | loc =>
    simp only [getConstant] at h
    split at h
    · cases h
    · rename_i l hl; cases h; exact ⟨l, hl, rfl⟩

/-! ## `Quiet`: steps that are not scope-relevant -/

/-- no table changes; what is new in the queues is a retry of a statement, never a closure of `.global` -/
structure Quiet (st st' : St) : Prop where
  globals : st'.globals = st.globals
  locals : st'.locals = st.locals
  gt : ∀ t ∈ st'.globalTasks, t ∈ st.globalTasks ∨ t.notCopy = true
  lt : ∀ q', st'.localTasks = some q' → ∀ t ∈ q', (∃ q, st.localTasks = some q ∧ t ∈ q) ∨ t.notCopy = true

theorem Quiet.refl (st : St) : Quiet st st :=
  ⟨rfl, rfl, fun _ h => .inl h, fun q hq _ ht => .inl ⟨q, hq, ht⟩⟩

theorem Quiet.trans {a b c : St} (h1 : Quiet a b) (h2 : Quiet b c) : Quiet a c := by
  refine ⟨h2.globals.trans h1.globals, h2.locals.trans h1.locals, fun t ht => ?_, fun q hq t ht => ?_⟩
  · rcases h2.gt t ht with h | h
    · exact h1.gt t h
    · exact .inr h
  · rcases h2.lt q hq t ht with ⟨q1, hq1, ht1⟩ | h
    · exact h1.lt q1 hq1 t ht1
    · exact .inr h

/-- same tables and queues -/
theorem quiet_same {st st' : St} (hg : st'.globals = st.globals) (hl : st'.locals = st.locals)
    (hgt : st'.globalTasks = st.globalTasks) (hlt : st'.localTasks = st.localTasks) : Quiet st st' :=
  ⟨hg, hl, fun _ h => .inl (hgt ▸ h), fun q hq _ ht => .inl ⟨q, hlt ▸ hq, ht⟩⟩

theorem quiet_pushIn (st : St) (f : Bytes) (l c : Nat) (k : Kind) : Quiet st (st.pushIn f l c k) :=
  quiet_same rfl rfl rfl rfl

theorem quiet_push (st : St) (env : Env) (l c : Nat) (k : Kind) : Quiet st (st.push env l c k) :=
  quiet_same rfl rfl rfl rfl

theorem addTask_quiet {st st' : St} {t : Task} {r : Realm} (h : addTask st t r = .ok st') (ht : t.notCopy = true) :
    Quiet st st' := by
  unfold addTask at h
  repeat' split at h
  all_goals (first | (cases h; done) | skip)
  · cases h
    refine ⟨rfl, rfl, fun x hx => ?_, fun q hq y hy => .inl ⟨q, hq, hy⟩⟩
    simp only [List.mem_append, List.mem_singleton] at hx
    rcases hx with hx | rfl
    · exact .inl hx
    · exact .inr ht
  · rename_i q0 hq0
    cases h
    refine ⟨rfl, rfl, fun _ h => .inl h, fun q hq x hx => ?_⟩
    cases hq
    simp only [List.mem_append, List.mem_singleton] at hx
    rcases hx with hx | rfl
    · exact .inl ⟨q0, hq0, hx⟩
    · exact .inr ht

/-- the closing alternatives shared by the steps that touch regions and diagnostics only -/
macro "quiet_close" : tactic =>
  `(tactic| first
    | exact Quiet.refl _
    | exact quiet_pushIn ..
    | exact quiet_push ..
    | exact quiet_same rfl rfl rfl rfl
    | exact (quiet_same (st' := { _ with seg := _ }) rfl rfl rfl rfl).trans (quiet_pushIn ..)
    | exact (quiet_same (st' := { _ with seg := _ }) rfl rfl rfl rfl).trans (quiet_push ..))

theorem writeData_quiet {d : DataExpr} {st : St} {bytes : Bytes} :
    ∀ d' st' r, d.writeData st bytes = .ok (d', st', r) → Quiet st st' := by
  unfold DataExpr.writeData
  splits
  all_goals (intro d' st' r h)
  all_goals (first | (cases h; done) | (cases h; quiet_close))

theorem writer_quiet {d : DataExpr} {st : St} :
    ∀ d' st' r, d.writer st = .ok (d', st', r) → Quiet st st' := by
  unfold DataExpr.writer
  splits
  all_goals (first | exact writeData_quiet | skip)
  all_goals (intro d' st' r h)
  all_goals (cases h; quiet_close)

theorem apply_quiet {d : DataExpr} {env : Env} {st : St} {loc : Bool} :
    ∀ d' st' op, d.apply env st loc = .ok (d', st', op) → Quiet st st' := by
  unfold DataExpr.apply
  splits
  all_goals (intro d' st' op h)
  all_goals (first | (cases h; done) | skip)
  all_goals (try (rename_i hw; have w := writer_quiet _ _ _ hw))
  all_goals (first | (cases h; exact w) | (cases h; quiet_close))

theorem duDirective_quiet {du : DU} {env : Env} {st : St} {line col : Nat} {args : List Arg} :
    ∀ st' r, duDirective du env st line col args = .ok (st', r) → Quiet st st' := by
  unfold duDirective
  splits
  all_goals (intro st' r h)
  all_goals (first | (cases h; done) | (cases h; quiet_close) | skip)
  all_goals (try (have w1 := apply_quiet _ _ _ ‹DataExpr.apply _ _ _ _ = _›))
  all_goals (try (have w2 := writeData_quiet _ _ _ ‹DataExpr.writeData _ _ _ = _›))
  all_goals (try (have w3 := addTask_quiet (t := .data _ false) ‹DataExpr.schedule _ _ _ = _› rfl))
  all_goals (cases h; first | exact w1 | exact w1.trans w2 | exact (w1.trans w2).trans w3)

theorem runDataTask_quiet {d : DataExpr} {g : Bool} {env : Env} {st : St} :
    ∀ st' r, runDataTask d g env st = .ok (st', r) → Quiet st st' := by
  unfold runDataTask
  splits
  all_goals (intro st' r h)
  all_goals (first | (cases h; done) | skip)
  all_goals (try (have w1 := apply_quiet _ _ _ ‹DataExpr.apply _ _ _ _ = _›))
  all_goals (try (have w3 := addTask_quiet (t := .data _ true) ‹DataExpr.schedule _ _ _ = _› rfl))
  all_goals (cases h; first | exact w1 | exact w1.trans w3 | exact w1.trans (quiet_pushIn ..))

theorem assembleI_quiet {i : ArmInstr} {env : Env} {st : St} {loc : Bool} :
    ∀ i' st' op, i.assemble env st loc = .ok (i', st', op) → Quiet st st' := by
  unfold ArmInstr.assemble
  splits
  all_goals (intro i' st' op h)
  all_goals (first | (cases h; done) | (cases h; quiet_close))

theorem writeInstr_quiet {enc : Encoder} {i : ArmInstr} {st : St} {df : Bool} :
    ∀ i' st' r, i.writeInstr enc st df = .ok (i', st', r) → Quiet st st' := by
  unfold ArmInstr.writeInstr
  splits
  all_goals (intro i' st' r h)
  all_goals (first | (cases h; done) | (cases h; quiet_close))

theorem instruction_quiet {enc : Encoder} {env : Env} {st : St} {line col : Nat} {name : Bytes} {args : List Arg} :
    ∀ st' r, instruction enc env st line col name args = .ok (st', r) → Quiet st st' := by
  unfold instruction
  splits
  all_goals (intro st' r h)
  all_goals (first | (cases h; done) | (cases h; quiet_close) | skip)
  all_goals (try (have w1 := assembleI_quiet _ _ _ ‹ArmInstr.assemble _ _ _ _ = _›))
  all_goals (try (have w2 := writeInstr_quiet _ _ _ ‹ArmInstr.writeInstr _ _ _ _ = _›))
  all_goals (try (have w3 := addTask_quiet (t := .instr _ false) ‹ArmInstr.schedule _ _ _ = _› rfl))
  all_goals (cases h; first | exact w1.trans w2 | exact (w1.trans w2).trans w3)

theorem runInstrTask_quiet {enc : Encoder} {i : ArmInstr} {g : Bool} {env : Env} {st : St} :
    ∀ st' r, runInstrTask enc i g env st = .ok (st', r) → Quiet st st' := by
  unfold runInstrTask
  splits
  all_goals (intro st' r h)
  all_goals (first | (cases h; done) | skip)
  all_goals (try (have w1 := assembleI_quiet _ _ _ ‹ArmInstr.assemble _ _ _ _ = _›))
  all_goals (try (have w2 := writeInstr_quiet _ _ _ ‹ArmInstr.writeInstr _ _ _ _ = _›))
  all_goals (try (have w3 := addTask_quiet (t := .instr _ true) ‹ArmInstr.schedule _ _ _ = _› rfl))
  all_goals (cases h; first | exact w1 | exact w1.trans w2 | exact w1.trans w3 | exact w1.trans (quiet_pushIn ..))

theorem evalStrict_quiet {dir : String} {env : Env} {st st' : St} {line col : Nat} {a : Arg} {r : Res}
    (h : evalStrict dir env st line col a = .ok (.error (st', r))) : Quiet st st' := by
  unfold evalStrict at h
  repeat' split at h
  all_goals (first | (cases h; done) | (cases h; quiet_close))

theorem addrDirective_quiet {env : Env} {st : St} {line col : Nat} {args : List Arg} :
    ∀ st' r, addrDirective env st line col args = .ok (st', r) → Quiet st st' := by
  unfold addrDirective
  splits
  all_goals (intro st' r h)
  all_goals (first | (cases h; done) | (cases h; quiet_close) | (cases h; exact evalStrict_quiet ‹evalStrict _ _ _ _ _ _ = _›))

theorem alignDirective_quiet {env : Env} {st : St} {line col : Nat} {args : List Arg} :
    ∀ st' r, alignDirective env st line col args = .ok (st', r) → Quiet st st' := by
  unfold alignDirective
  splits
  all_goals (intro st' r h)
  all_goals (first | (cases h; done) | (cases h; quiet_close) | (cases h; exact evalStrict_quiet ‹evalStrict _ _ _ _ _ _ = _›))

theorem appendData_quiet {dir : String} {env : Env} {st : St} {line col : Nat} {d : Bytes} :
    ∀ st' r, appendData dir env st line col d = .ok (st', r) → Quiet st st' := by
  unfold appendData
  splits
  all_goals (intro st' r h)
  all_goals (first | (cases h; done) | (cases h; quiet_close))

theorem stringDirective_quiet {fs : Bytes → Option Bytes} {dir : String} {env : Env} {st : St} {line col : Nat}
    {args : List Arg} :
    ∀ st' r, stringDirective fs dir env st line col args = .ok (st', r) → Quiet st st' := by
  unfold stringDirective
  splits
  all_goals (first | exact appendData_quiet | skip)
  all_goals (intro st' r h)
  all_goals (first | (cases h; done) | (cases h; quiet_close))

/-! ## the dispatch of `DirectiveList::process` on the scope-relevant names -/

theorem directive_const {fs : Bytes → Option Bytes} {inc : Inc} {env : Env} {st : St} {line col : Nat} {args : List Arg} :
    directive fs inc env st line col (bytesOf "const") args = constDirective env st line col args := by
  delta directive
  simp only [show (bytesOf "const" = bytesOf "addr") = False from by decide,
    show (bytesOf "const" = bytesOf "align") = False from by decide, if_false, if_true]

theorem directive_du32 {fs : Bytes → Option Bytes} {inc : Inc} {env : Env} {st : St} {line col : Nat} {args : List Arg} :
    directive fs inc env st line col (bytesOf "du32") args = duDirective .u32 env st line col args := by
  delta directive
  simp only [show (bytesOf "du32" = bytesOf "addr") = False from by decide,
    show (bytesOf "du32" = bytesOf "align") = False from by decide,
    show (bytesOf "du32" = bytesOf "const") = False from by decide,
    show (bytesOf "du32" = bytesOf "du8") = False from by decide,
    show (bytesOf "du32" = bytesOf "du16") = False from by decide, if_false, if_true]

theorem directive_global {fs : Bytes → Option Bytes} {inc : Inc} {env : Env} {st : St} {line col : Nat} {args : List Arg} :
    directive fs inc env st line col (bytesOf "global") args = globalDirective .global env st line col args := by
  delta directive
  simp only [show (bytesOf "global" = bytesOf "addr") = False from by decide,
    show (bytesOf "global" = bytesOf "align") = False from by decide,
    show (bytesOf "global" = bytesOf "const") = False from by decide,
    show (bytesOf "global" = bytesOf "du8") = False from by decide,
    show (bytesOf "global" = bytesOf "du16") = False from by decide,
    show (bytesOf "global" = bytesOf "du32") = False from by decide,
    show (bytesOf "global" = bytesOf "dhex") = False from by decide,
    show (bytesOf "global" = bytesOf "dstr") = False from by decide,
    show (bytesOf "global" = bytesOf "dfile") = False from by decide, if_false, if_true]

theorem directive_import {fs : Bytes → Option Bytes} {inc : Inc} {env : Env} {st : St} {line col : Nat} {args : List Arg} :
    directive fs inc env st line col (bytesOf "import") args = globalDirective .import_ env st line col args := by
  delta directive
  simp only [show (bytesOf "import" = bytesOf "addr") = False from by decide,
    show (bytesOf "import" = bytesOf "align") = False from by decide,
    show (bytesOf "import" = bytesOf "const") = False from by decide,
    show (bytesOf "import" = bytesOf "du8") = False from by decide,
    show (bytesOf "import" = bytesOf "du16") = False from by decide,
    show (bytesOf "import" = bytesOf "du32") = False from by decide,
    show (bytesOf "import" = bytesOf "dhex") = False from by decide,
    show (bytesOf "import" = bytesOf "dstr") = False from by decide,
    show (bytesOf "import" = bytesOf "dfile") = False from by decide,
    show (bytesOf "import" = bytesOf "global") = False from by decide, if_false, if_true]

theorem directive_export {fs : Bytes → Option Bytes} {inc : Inc} {env : Env} {st : St} {line col : Nat} {args : List Arg} :
    directive fs inc env st line col (bytesOf "export") args = globalDirective .export_ env st line col args := by
  delta directive
  simp only [show (bytesOf "export" = bytesOf "addr") = False from by decide,
    show (bytesOf "export" = bytesOf "align") = False from by decide,
    show (bytesOf "export" = bytesOf "const") = False from by decide,
    show (bytesOf "export" = bytesOf "du8") = False from by decide,
    show (bytesOf "export" = bytesOf "du16") = False from by decide,
    show (bytesOf "export" = bytesOf "du32") = False from by decide,
    show (bytesOf "export" = bytesOf "dhex") = False from by decide,
    show (bytesOf "export" = bytesOf "dstr") = False from by decide,
    show (bytesOf "export" = bytesOf "dfile") = False from by decide,
    show (bytesOf "export" = bytesOf "global") = False from by decide,
    show (bytesOf "export" = bytesOf "import") = False from by decide, if_false, if_true]

end Trion.Asm
