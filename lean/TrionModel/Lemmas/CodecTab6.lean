import TrionModel.Lemmas.CodecTab
namespace Trion.Codec
/-- halfwords 0xc000 … 0xdfff, evaluated by the kernel -/
theorem chkBlock6 : chkBlock 6 32 := by decide +kernel
end Trion.Codec
