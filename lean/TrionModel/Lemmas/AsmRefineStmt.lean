import TrionModel.Lemmas.AsmRefine
/-!
# One statement of `Asm` is one step of the layout core on its abstraction
-/
namespace Trion.Asm
open Trion Trion.SegLayout

/-- `Sim` without the whole-state invariant (which `statement_safe` re-establishes) -/
structure SimR (num : Bytes → Nat) (enc : Encoder) (t₂ : Table) (st : St) (l : Layout.State) : Prop where
  r : SegLayout.R st.seg l
  tbl : ∃ t, st.locals = some t ∧ Table.NoDef t ∧ Table.Sub t t₂ ∧ EnvRel num t l.env
  tasks : ∃ q, st.localTasks = some q ∧ TasksRel num enc t₂ q l.tasks
  gl : st.globalTasks = []

theorem Sim.toR {num : Bytes → Nat} {enc : Encoder} {t₂ : Table} {st : St} {l : Layout.State} (s : Sim num enc t₂ st l) :
    SimR num enc t₂ st l := ⟨s.r, s.tbl, s.tasks, s.gl⟩

section
variable {num : Bytes → Nat} {enc : Encoder} {t₂ : Table}
  {st st' : St} {l : Layout.State}

/-- what a statement's outcome says about the table of the successor state, for the directives that do not touch it -/
theorem simR_seg (sim : Sim num enc t₂ st l) {s' : Seg.State} {l' : Layout.State} (r : R s' l')
    (he : l'.env = l.env) (ht : l'.tasks = l.tasks) : SimR num enc t₂ { st with seg := s' } l' := by
  refine ⟨r, ?_, ?_, sim.gl⟩
  · rw [he]; exact sim.tbl
  · rw [ht]; exact sim.tasks

/-! ## labels -/

theorem label_sim (hinj : Function.Injective num) (sim : Sim num enc t₂ st l) (fs : Bytes → Option Bytes) (inc : Inc) (env : Env) (line col : Nat)
    (name : Bytes) (h : statement fs enc inc env st ⟨line, col, .label name⟩ = .ok (st', .ok))
    (hT : ∀ t', st'.locals = some t' → Table.Sub t' t₂) :
    ∃ l', Layout.step l (.label (num name)) = .ok l' ∧ SimR num enc t₂ st' l' ∧ cursor st' = cursor st := by
  obtain ⟨t, hl, hnd, hsub, henvr⟩ := sim.tbl
  simp only [statement, currAddr] at h
  cases ha : st.seg.active with
  | none => rw [ha] at h; simp at h
  | some seg =>
    rw [ha] at h
    simp only [Option.map_some] at h
    have hla := active_of_sim sim.r ha
    obtain ⟨a1, a2, _, _⟩ := sim.good.inv.2.1 seg ha
    have hcur : (toL seg).curr = seg.cur := cur_eq seg (by omega)
    unfold insertConstant at h
    by_cases hreg : Front.isRegister name = true
    · simp [hreg] at h
    · simp only [hreg, Bool.false_eq_true, if_false, hl] at h
      cases hf : t.find name with
      | some o =>
        rw [hf] at h
        cases o with
        | none => exact absurd hf (hnd name)
        | some v => simp at h
      | none =>
        rw [hf] at h
        simp only [Out.ok.injEq, Prod.mk.injEq, and_true] at h
        subst h
        have hget : l.env.get (num name) = none := by rw [henvr name, val_none_of_find hf]
        refine ⟨{ l with env := (num name, ((toL seg).curr : Int)) :: l.env }, ?_, ⟨sim.r, ?_, sim.tasks, sim.gl⟩, rfl⟩
        · simp only [Layout.step, hla, Layout.insertConst, hget]
        · refine ⟨_, rfl, Table.nodef_set hnd _ _, hT _ rfl, ?_⟩
          rw [hcur]
          exact envRel_insert hinj henvr name _

/-! ## appends: `.dstr`, `.dhex`, `.dfile` -/

theorem appendData_sim (sim : Sim num enc t₂ st l) (dir : String) (env : Env) (line col : Nat) (d : Bytes)
    (h : appendData dir env st line col d = .ok (st', .ok)) :
    ∃ l', Layout.step l (.raw d) = .ok l' ∧ SimR num enc t₂ st' l' ∧
      cursor st' = Layout.Ref.next (cursor st) (.raw d) := by
  unfold appendData at h
  cases hs : segStep st.seg (.append d) with
  | stop r => rw [hs] at h; cases h
  | ok p =>
    obtain ⟨s', o⟩ := p
    rw [hs] at h
    cases ha : st.seg.active with
    | none =>
      simp only [segStep, Seg.step, ha] at hs
      cases hs
      simp at h
    | some seg =>
      have hnd : ∀ e, o ≠ .diag e := by
        intro e he; subst he; simp at h
      obtain ⟨w1, w2, w3, w4⟩ := write_sim sim.good.inv sim.r ha d _ (.inl rfl) hs hnd
      have hst : st' = { st with seg := s' } := by
        cases o <;> simp at h <;> first | exact h.symm | exact absurd rfl (hnd _)
      subst hst
      refine ⟨_, w3, simR_seg sim w4 rfl rfl, ?_⟩
      simp [cursor, ha, w1, Layout.Ref.next, Nat.add_assoc]

/-! ## evaluation inside the file -/

theorem evalArg_eq {env : Env} {st : St} {t : Table} (henv : env.paths.isEmpty = false) (hl : st.locals = some t)
    (a : Arg) : evalArg env st a = evalIn t a := by
  simp [evalArg, evalTable, henv, hl]

theorem evalStrict_inv {dir : String} {env : Env} {st : St} {t : Table} (henv : env.paths.isEmpty = false)
    (hl : st.locals = some t) {line col : Nat} {a a' : Arg}
    (h : evalStrict dir env st line col a = .ok (.ok a')) : evalIn t a = .ok (.complete a') := by
  unfold evalStrict at h
  rw [evalArg_eq henv hl] at h
  obtain ⟨ev, hev⟩ := evalIn_ok t a
  rw [hev] at h ⊢
  cases ev <;> simp at h
  rw [h]

theorem evalStrict_err {dir : String} {env : Env} {st : St} {line col : Nat} {a : Arg} {st1 : St} {r : Res}
    (h : evalStrict dir env st line col a = .ok (.error (st1, r))) : r = .err .fatal := by
  unfold evalStrict at h
  split at h <;> simp at h <;> exact h.2.symm

theorem constVal_of {t t₂ : Table} (hs : Table.Sub t t₂) (hn : Table.NoDef t) {a : Arg} {v : Int}
    (h : evalIn t a = .ok (.complete (.const v))) : constVal t₂ a = some v := by
  simp [constVal, evalIn_complete_mono hs hn h]

theorem stringDirective_inv {fs : Bytes → Option Bytes} {dir : String} (hdir : dir = "dhex" ∨ dir = "dstr" ∨ dir = "dfile")
    {env : Env} {path : Bytes} (henv : env.paths = [path]) {line col : Nat} {args : List Arg}
    (h : stringDirective fs dir env st line col args = .ok (st', .ok)) :
    ∃ s d, args = [.str s] ∧ (dir = "dhex" → dhexLoop s 0 none [] = .ok (d, none)) ∧ (dir = "dstr" → d = s) ∧
      (dir = "dfile" → fs (sibling path s) = some d) ∧ appendData dir env st line col d = .ok (st', .ok) := by
  unfold stringDirective at h
  split at h
  · simp at h
  · split at h
    · simp at h
    · rename_i har
      obtain ⟨a, rfl⟩ := arity_one har
      cases a with
      | str s =>
        simp only at h
        rcases hdir with rfl | rfl | rfl
        · simp only [if_true] at h
          split at h
          · simp at h
          · simp at h
          · rename_i bytes hd
            exact ⟨s, bytes, rfl, fun _ => hd, fun hh => by simp at hh, fun hh => by simp at hh, h⟩
        · simp only [String.reduceEq, if_false, if_true] at h
          exact ⟨s, s, rfl, fun hh => by simp at hh, fun _ => rfl, fun hh => by simp at hh, h⟩
        · simp only [String.reduceEq, if_false, henv] at h
          repeat' split at h
          all_goals first | (cases h; done) | (simp at h; done) | skip
          rename_i bytes hf
          exact ⟨s, bytes, rfl, fun hh => by simp at hh, fun hh => by simp at hh, fun _ => hf, h⟩
      | _ => simp at h

/-! ## `.addr` -/

theorem addr_sim (sim : Sim num enc t₂ st l) (env : Env) (henv : env.paths.isEmpty = false) (line col : Nat)
    (args : List Arg) (h : addrDirective env st line col args = .ok (st', .ok)) :
    ∃ a v l', args = [a] ∧ constVal t₂ a = some v ∧ Layout.step l (.addr v.toNat) = .ok l' ∧ SimR num enc t₂ st' l' ∧
      cursor st' = some v.toNat := by
  obtain ⟨t, hl, hnd, hsub, henvr⟩ := sim.tbl
  unfold addrDirective at h
  split at h
  · simp at h
  · rename_i har
    obtain ⟨a, rfl⟩ := arity_one har
    simp only at h
    cases hes : evalStrict "addr" env st line col a with
    | stop r => rw [hes] at h; cases h
    | ok x =>
      rw [hes] at h
      cases x with
      | error p =>
        obtain ⟨st1, r⟩ := p
        have := evalStrict_err hes
        subst this
        simp at h
      | ok a' =>
        have hev := evalStrict_inv henv hl hes
        cases a' with
        | const v =>
          simp only at h
          by_cases hv : 0 ≤ v ∧ v ≤ 4294967295
          · rw [if_pos hv] at h
            cases hs : segStep st.seg (.select v.toNat) with
            | stop r => rw [hs] at h; cases h
            | ok p =>
              obtain ⟨s', o⟩ := p
              rw [hs] at h
              have hnd' : ∀ e, o ≠ .diag e := by intro e he; subst he; simp at h
              have hst : st' = { st with seg := s' } := by
                cases o <;> simp at h <;> first | exact h.symm | exact absurd rfl (hnd' _)
              subst hst
              have hwf : Seg.Op.wf st.seg (.select v.toNat) := by
                show v.toNat ≤ Map.u32Max
                unfold Map.u32Max; omega
              have hstep : Seg.step st.seg (.select v.toNat) = (s', o) := by
                unfold segStep at hs
                split at hs
                · cases hs
                · rename_i s1 o1 _ he; cases hs; exact he
              obtain ⟨l', h1, r', e', t'⟩ := step_sim sim.good.inv sim.r (.select v.toNat) hwf hstep hnd'
              refine ⟨a, v, l', rfl, constVal_of hsub hnd hev, h1, simR_seg sim r' e' t', ?_⟩
              have hsp := Seg.select_spec sim.good.inv v.toNat hwf
              have hcs : Seg.changeSegment st.seg v.toNat = (s', o) := hstep
              rw [hcs] at hsp
              rcases hsp.2.2.2 with ⟨_, h2⟩ | ⟨_, _, seg, h3, h4, h5⟩
              · exact absurd h2 (hnd' _)
              · simp only at h3
                simp [cursor, h3, h4, h5]
          · rw [if_neg hv] at h; simp at h
        | _ => simp at h

/-! ## `.align` -/

theorem align_sim (sim : Sim num enc t₂ st l) (env : Env) (henv : env.paths.isEmpty = false) (line col : Nat)
    (args : List Arg) (h : alignDirective env st line col args = .ok (st', .ok)) :
    ∃ a v l', args = [a] ∧ constVal t₂ a = some v ∧ Layout.step l (.align v.toNat) = .ok l' ∧ SimR num enc t₂ st' l' ∧
      cursor st' = Layout.Ref.next (cursor st) (.align v.toNat) := by
  obtain ⟨t, hl, hnd, hsub, henvr⟩ := sim.tbl
  unfold alignDirective at h
  split at h
  · simp at h
  · split at h
    · simp at h
    · rename_i har
      obtain ⟨a, rfl⟩ := arity_one har
      simp only at h
      cases hes : evalStrict "align" env st line col a with
      | stop r => rw [hes] at h; cases h
      | ok x =>
        rw [hes] at h
        cases x with
        | error p =>
          obtain ⟨st1, r⟩ := p
          have := evalStrict_err hes
          subst this
          simp at h
        | ok a' =>
          have hev := evalStrict_inv henv hl hes
          simp only at h
          cases ha : st.seg.active with
          | none => rw [ha] at h; cases h
          | some seg =>
            rw [ha] at h
            simp only at h
            have hla := active_of_sim sim.r ha
            cases a' with
            | const v =>
              simp only at h
              by_cases hv : 0 < v ∧ v ≤ 4294967295
              · rw [if_pos hv] at h
                have hn0 : ¬ (v.toNat = 0 ∨ Layout.top ≤ v.toNat) := by unfold Layout.top; omega
                by_cases hoff : (seg.base + seg.buf.length) % v.toNat = 0
                · simp only [hoff, if_true] at h
                  simp only [Out.ok.injEq, Prod.mk.injEq, and_true] at h
                  subst h
                  refine ⟨a, v, l, rfl, constVal_of hsub hnd hev, ?_, sim.toR, ?_⟩
                  · simp only [Layout.step, hla, hn0, if_false, toL, hoff, if_true]
                  · have hv0 : v.toNat ≠ 0 := by omega
                    simp [cursor, ha, Layout.Ref.next, Layout.Ref.size, hoff, hv0]
                · simp only [hoff, if_false] at h
                  cases hrem : seg.remaining with
                  | none => rw [hrem] at h; cases h
                  | some rem =>
                    rw [hrem] at h
                    simp only at h
                    by_cases hfit : v.toNat - (seg.base + seg.buf.length) % v.toNat ≤ rem
                    · rw [if_pos hfit] at h
                      cases hs : segStep st.seg (.append (List.replicate (v.toNat - (seg.base + seg.buf.length) % v.toNat) 0xBE)) with
                      | stop r => rw [hs] at h; cases h
                      | ok p =>
                        obtain ⟨s', o⟩ := p
                        rw [hs] at h
                        have hnd' : ∀ e, o ≠ .diag e := by intro e he; subst he; simp at h
                        have hst : st' = { st with seg := s' } := by
                          cases o <;> simp at h <;> first | exact h.symm | exact absurd rfl (hnd' _)
                        subst hst
                        obtain ⟨w1, w2, w3, w4⟩ := write_sim sim.good.inv sim.r ha _ _ (.inl rfl) hs hnd'
                        refine ⟨a, v, _, rfl, constVal_of hsub hnd hev, ?_, simR_seg sim w4 rfl rfl, ?_⟩
                        · rw [Layout.step_align]
                          simp only [hla, hn0, if_false, toL, hoff]
                          exact w3
                        · have hv0 : v.toNat ≠ 0 := by omega
                          simp [cursor, ha, w1, Layout.Ref.next, Layout.Ref.size, hoff, hv0, Nat.add_assoc]
                    · rw [if_neg hfit] at h; simp at h
              · rw [if_neg hv] at h; simp at h
            | _ => simp at h

/-! ## `.const` -/

theorem const_sim (hinj : Function.Injective num) (sim : Sim num enc t₂ st l) (env : Env)
    (henv : env.paths.isEmpty = false) (line col : Nat) (args : List Arg)
    (h : constDirective env st line col args = .ok (st', .ok)) (hT : ∀ t', st'.locals = some t' → Table.Sub t' t₂) :
    ∃ name b v l', args = [.ident name, b] ∧ constVal t₂ b = some v ∧
      Layout.step l (.const (num name) ((idents b).map num) v) = .ok l' ∧ SimR num enc t₂ st' l' ∧
      cursor st' = cursor st := by
  obtain ⟨t, hl, hnd, hsub, henvr⟩ := sim.tbl
  unfold constDirective at h
  split at h
  · simp at h
  · rename_i har
    obtain ⟨a, b, rfl⟩ := arity_two har
    cases a with
    | ident name =>
      simp only at h
      cases hes : evalStrict "const" env st line col b with
      | stop r => rw [hes] at h; cases h
      | ok x =>
        rw [hes] at h
        cases x with
        | error p =>
          obtain ⟨st1, r⟩ := p
          have := evalStrict_err hes
          subst this
          simp at h
        | ok b' =>
          have hev := evalStrict_inv henv hl hes
          cases b' with
          | const v =>
            simp only at h
            unfold insertConstant at h
            by_cases hreg : Front.isRegister name = true
            · simp [hreg] at h
            · simp only [hreg, Bool.false_eq_true, if_false, hl] at h
              cases hf : t.find name with
              | some o =>
                rw [hf] at h
                cases o with
                | none => exact absurd hf (hnd name)
                | some w => simp at h
              | none =>
                rw [hf] at h
                simp only [Out.ok.injEq, Prod.mk.injEq, and_true] at h
                subst h
                have hget : l.env.get (num name) = none := by rw [henvr name, val_none_of_find hf]
                have hall := hasAll_of_known henvr hnd (evalIn_complete_idents hev)
                refine ⟨name, b, v, { l with env := (num name, v) :: l.env }, rfl, constVal_of hsub hnd hev, ?_,
                  ⟨sim.r, ?_, sim.tasks, sim.gl⟩, rfl⟩
                · simp only [Layout.step, hall, if_true, Layout.insertConst, hget]
                · exact ⟨_, rfl, Table.nodef_set hnd _ _, hT _ rfl, envRel_insert hinj henvr name v⟩
          | _ => simp at h
    | _ => simp at h

/-! ## first writes -/

theorem writeStmt_first {s : Seg.State} {seg : Seg.Active} (ha : s.active = some seg) {addr : Nat} {d : Bytes}
    {s' : Seg.State} {p' : Bool} {e : Option Seg.Diag} (h : writeStmt s false addr d = .ok (s', p', e)) :
    (e = none → p' = true ∧ ∃ o, segStep s (.place d) = .ok (s', o) ∧ ∀ x, o ≠ .diag x) := by
  intro he
  subst he
  unfold writeStmt at h
  simp only [Bool.not_false, ha, Option.isSome_some, Bool.and_self, if_true] at h
  cases hs : segStep s (.place d) with
  | stop r => rw [hs] at h; cases h
  | ok p =>
    obtain ⟨s1, o⟩ := p
    rw [hs] at h
    cases o with
    | diag x => simp at h
    | ok => simp at h; exact ⟨h.2, _, by rw [h.1], by simp⟩
    | placed x => simp at h; exact ⟨h.2, _, by rw [h.1], by simp⟩
    | panic => simp at h; exact ⟨h.2, _, by rw [h.1], by simp⟩

theorem writeData_first {d : DataExpr} (hp : d.placed = false) {seg : Seg.Active} (ha : st.seg.active = some seg)
    {bytes : Bytes} {d' : DataExpr} (h : d.writeData st bytes = .ok (d', st', .ok)) :
    d' = { d with placed := true } ∧ ∃ s' o, segStep st.seg (.place bytes) = .ok (s', o) ∧ (∀ x, o ≠ .diag x) ∧
      st' = { st with seg := s' } := by
  unfold DataExpr.writeData at h
  rw [hp] at h
  cases hw : writeStmt st.seg false d.addr bytes with
  | stop r => rw [hw] at h; cases h
  | ok p =>
    obtain ⟨s', p', e⟩ := p
    rw [hw] at h
    cases e with
    | some x => simp at h
    | none =>
      obtain ⟨h1, o, h2, h3⟩ := writeStmt_first ha hw rfl
      simp only [Out.ok.injEq, Prod.mk.injEq, and_true] at h
      obtain ⟨h4, h5⟩ := h
      subst h1
      exact ⟨h4.symm, s', o, h2, h3, h5.symm⟩

theorem writeInstr_first {i : ArmInstr} (hp : i.placed = false) {seg : Seg.Active} (ha : st.seg.active = some seg)
    {df : Bool} {i' : ArmInstr} (h : i.writeInstr enc st df = .ok (i', st', .ok)) :
    ∃ bytes, enc i.st.instr = .ok bytes ∧ i' = { i with placed := true } ∧
      ∃ s' o, segStep st.seg (.place (if df then List.replicate bytes.length 0xBE else bytes)) = .ok (s', o) ∧
        (∀ x, o ≠ .diag x) ∧ st' = { st with seg := s' } := by
  unfold ArmInstr.writeInstr at h
  cases he : enc i.st.instr with
  | error e => rw [he] at h; simp at h
  | ok bytes =>
    rw [he] at h
    simp only [hp] at h
    cases hw : writeStmt st.seg false i.st.addr (if df then List.replicate bytes.length 0xBE else bytes) with
    | stop r => rw [hw] at h; cases h
    | ok p =>
      obtain ⟨s', p', e⟩ := p
      rw [hw] at h
      cases e with
      | some x => simp at h
      | none =>
        obtain ⟨h1, o, h2, h3⟩ := writeStmt_first ha hw rfl
        simp only [Out.ok.injEq, Prod.mk.injEq, and_true] at h
        obtain ⟨h4, h5⟩ := h
        subst h1
        exact ⟨bytes, rfl, h4.symm, s', o, h2, h3, h5.symm⟩

theorem duFinal_length (t : Table) (du : DU) (a : Arg) : (duFinal t du a).length = du.size := by
  unfold duFinal
  split
  · split
    · exact leBytes_length _ _
    · simp
  · simp

theorem grew_nil {a b : St} {e : Bool} (h : Grew a b e) (hb : b.errors = []) : a.errors = [] ∧ e = false := by
  unfold Grew at h
  rw [hb] at h
  simp only [List.length_nil, Nat.le_zero_eq, Nat.add_eq_zero_iff] at h
  exact ⟨List.eq_nil_of_length_eq_zero h.1, by cases e <;> simp_all⟩

/-! ## `.du8 / .du16 / .du32` -/

theorem du_core' (sim : Sim num enc t₂ st l) (env : Env) (henv : env.paths.isEmpty = false) {seg : Seg.Active}
    (ha : st.seg.active = some seg) (d : DataExpr) (hp : d.placed = false) (hcur : d.addr = seg.cur)
    (h : (match d.apply env st true with
        | .ok (_, st', .completed) => (.ok (st', .ok) : Out (St × Res))
        | .ok (d', st', _) =>
          match d'.writeData st' (List.replicate d.du.size 0xBE) with
          | .ok (d'', st'', .ok) =>
            match d''.schedule st'' false with
            | .ok st3 => .ok (st3, .ok)
            | .stop r => .stop r
          | .ok (_, st'', .err l) => .ok (st'', .err l)
          | .stop r => .stop r
        | .stop r => .stop r) = .ok (st', .ok))
    (herr : st'.errors = []) :
    ∃ l', Layout.step l (valueStmt num d.du.size (idents d.arg) (duFinal t₂ d.du d.arg)) = .ok l' ∧
      SimR num enc t₂ st' l' ∧ (cursor st' = (cursor st).map fun x => x + d.du.size) ∧ DuFate t₂ st' d.du d.arg := by
  obtain ⟨t, hl, hnd, hsub, henvr⟩ := sim.tbl
  obtain ⟨q, hq, hqr⟩ := sim.tasks
  have hla := active_of_sim sim.r ha
  have aok := sim.good.inv.2.1 seg ha
  obtain ⟨a1, a2, _, _⟩ := aok
  have hcurr : (toL seg).curr = seg.cur := cur_eq seg (by omega)
  have hsz : 0 < d.du.size := by cases d.du <;> simp [DU.size]
  cases hap : d.apply env st true with
  | stop r => rw [hap] at h; cases h
  | ok p =>
    obtain ⟨d1, st1, op⟩ := p
    rw [hap] at h
    have hg1 := apply_grew hap
    unfold DataExpr.apply at hap
    rw [evalArg_eq henv hl] at hap
    -- the tail (placeholder + queue), when `apply` did not complete
    have tail : op ≠ .completed → ∃ d2 st2, d1.writeData st1 (List.replicate d.du.size 0xBE) = .ok (d2, st2, .ok) ∧
        d2.schedule st2 false = .ok st' := by
      intro hop
      cases op with
      | completed => exact absurd rfl hop
      | deferred c =>
        simp only at h
        cases hw : d1.writeData st1 (List.replicate d.du.size 0xBE) with
        | stop r => rw [hw] at h; cases h
        | ok q2 =>
          obtain ⟨d2, st2, r⟩ := q2
          rw [hw] at h
          cases r with
          | err lv => simp at h
          | ok =>
            simp only at h
            cases hsch : d2.schedule st2 false with
            | stop r => rw [hsch] at h; cases h
            | ok st3 => rw [hsch] at h; simp at h; subst h; exact ⟨d2, st2, rfl, hsch⟩
      | err lv =>
        simp only at h
        cases hw : d1.writeData st1 (List.replicate d.du.size 0xBE) with
        | stop r => rw [hw] at h; cases h
        | ok q2 =>
          obtain ⟨d2, st2, r⟩ := q2
          rw [hw] at h
          cases r with
          | err lv => simp at h
          | ok =>
            simp only at h
            cases hsch : d2.schedule st2 false with
            | stop r => rw [hsch] at h; cases h
            | ok st3 => rw [hsch] at h; simp at h; subst h; exact ⟨d2, st2, rfl, hsch⟩
    have tail_err : ∀ lv, op = .err lv → False := by
      intro lv hop
      subst hop
      obtain ⟨d2, st2, hw, hsch⟩ := tail (by simp)
      have g2 := writeData_grew hw
      have e3 : st'.errors = st2.errors := addTask_errs hsch
      rw [e3] at herr
      have := (grew_nil g2 herr).1
      have := (grew_nil hg1 this).2
      simp at this
    obtain ⟨ev, hev⟩ := evalIn_ok t d.arg
    rw [hev] at hap
    cases ev with
    | deferred c x => exact absurd hev (evalIn_not_deferred hnd _ _ _)
    | err e x =>
      simp only [Out.ok.injEq, Prod.mk.injEq] at hap
      exact (tail_err _ hap.2.2.symm).elim
    | noSuch n x =>
      simp only [if_true, Out.ok.injEq, Prod.mk.injEq] at hap
      obtain ⟨hd1, hst1, hop⟩ := hap
      subst hd1; subst hst1; subst hop
      obtain ⟨d2, st2, hw, hsch⟩ := tail (by simp)
      obtain ⟨hd2, s', o, hs, hnd', hst2⟩ := writeData_first (d := { d with arg := x }) hp ha hw
      subst hd2; subst hst2
      obtain ⟨w1, w2, w3, w4⟩ := write_sim sim.good.inv sim.r ha _ _ (.inr rfl) hs hnd'
      obtain ⟨i1, i2⟩ := evalIn_noSuch_idents hev
      have hall := not_hasAll_of_unknown henvr i1 i2
      simp only [DataExpr.schedule, Bool.false_eq_true, if_false, addTask, hq] at hsch
      cases hsch
      refine ⟨{ l with active := some (toL { seg with buf := seg.buf ++ List.replicate d.du.size 0xBE }),
                       tasks := l.tasks ++ [⟨(toL seg).curr, d.du.size, (idents d.arg).map num, duFinal t₂ d.du d.arg⟩] },
        ?_, ⟨⟨w4.1, w4.2⟩, ⟨t, hl, hnd, hsub, henvr⟩, ⟨_, rfl, ?_⟩, sim.gl⟩, ?_, ?_⟩
      · rw [step_value_defer hla num _ _ _ hall]
        show (match Layout.append l (List.replicate d.du.size 0xBE) with | .error e => _ | .ok st' => _) = _
        rw [w3]
      · refine TasksRel.snoc hqr ?_
        refine ⟨rfl, rfl, ?_, rfl, d.arg, t, n, hsub, hnd, hev, rfl, rfl⟩
        show (toL seg).curr = d.addr
        rw [hcurr, hcur]
      · simp [cursor, ha, w1, Nat.add_assoc]
      · exact .inr ⟨q, _, t, n, rfl, rfl, hsub, hnd, hev⟩
    | complete x =>
      simp only at hap
      cases hw : ({ d with arg := x } : DataExpr).writer st with
      | stop r => rw [hw] at hap; cases hap
      | ok q2 =>
        obtain ⟨d2, st2, r⟩ := q2
        rw [hw] at hap
        cases r with
        | err lv =>
          simp only [Out.ok.injEq, Prod.mk.injEq] at hap
          exact (tail_err _ hap.2.2.symm).elim
        | ok =>
          simp only [Out.ok.injEq, Prod.mk.injEq] at hap
          obtain ⟨_, hst1, hop⟩ := hap
          subst hst1; subst hop
          simp only [Out.ok.injEq, Prod.mk.injEq, and_true] at h
          subst h
          unfold DataExpr.writer at hw
          cases x with
          | const v =>
            simp only at hw
            by_cases hv : 0 ≤ v ∧ v ≤ d.du.max
            · rw [if_pos hv] at hw
              obtain ⟨_, s', o, hs, hnd', hst2⟩ := writeData_first (d := { d with arg := .const v }) hp ha hw
              subst hst2
              obtain ⟨w1, w2, w3, w4⟩ := write_sim sim.good.inv sim.r ha _ _ (.inr rfl) hs hnd'
              have hall := hasAll_of_known henvr hnd (evalIn_complete_idents hev)
              have hfin : duFinal t₂ d.du d.arg = leBytes d.du.size v.toNat := by
                simp only [duFinal, constVal_of hsub hnd hev, hv, and_self, if_true]
              refine ⟨_, ?_, simR_seg sim w4 rfl rfl, ?_, .inl ⟨v, constVal_of hsub hnd hev, hv.1, hv.2⟩⟩
              · rw [step_value_direct hla num _ _ _ hall, hfin]
                exact w3
              · simp [cursor, ha, w1, leBytes_length, Nat.add_assoc]
            · rw [if_neg hv] at hw; simp at hw
          | _ => simp at hw

theorem du_core (sim : Sim num enc t₂ st l) (env : Env) (henv : env.paths.isEmpty = false) {seg : Seg.Active}
    (ha : st.seg.active = some seg) (d : DataExpr) (hp : d.placed = false) (hcur : d.addr = seg.cur)
    (h : (match d.apply env st true with
        | .ok (_, st', .completed) => (.ok (st', .ok) : Out (St × Res))
        | .ok (d', st', _) =>
          match d'.writeData st' (List.replicate d.du.size 0xBE) with
          | .ok (d'', st'', .ok) =>
            match d''.schedule st'' false with
            | .ok st3 => .ok (st3, .ok)
            | .stop r => .stop r
          | .ok (_, st'', .err l) => .ok (st'', .err l)
          | .stop r => .stop r
        | .stop r => .stop r) = .ok (st', .ok))
    (herr : st'.errors = []) :
    ∃ l', Layout.step l (valueStmt num d.du.size (idents d.arg) (duFinal t₂ d.du d.arg)) = .ok l' ∧
      SimR num enc t₂ st' l' ∧ cursor st' = (cursor st).map fun x => x + d.du.size := by
  obtain ⟨l', h1, h2, h3, _⟩ := du_core' sim env henv ha d hp hcur h herr
  exact ⟨l', h1, h2, h3⟩

/-! ## instructions -/

theorem assemble_completed_deps {t : Table} {addr : Nat} {tpl : Instr} {args : List Arg} {l : Bool} {fs2 : Front.St}
    (h : Front.assemble ⟨addr, tpl, 0, args⟩ (frontEval t) l = (fs2, .completed)) :
    ∀ s ∈ instrDeps (Front.kinds tpl) args, t.find s ≠ none := by
  unfold Front.assemble at h
  simp only at h
  split at h
  · cases h
  · split at h
    · cases h
    · cases hc : Front.conv (frontEval t) l (Front.kinds tpl) 0 [] args 0 tpl [] with
      | stop A D I r =>
        rw [hc] at h; simp only [Prod.mk.injEq] at h
        obtain ⟨_, h2⟩ := h
        subst h2
        exact absurd hc (conv_stop_not_completed _ _ _ _ _ _ _ _ _ _ _ _)
      | ok A D I V => exact conv_ok_deps t l _ _ _ _ _ _ _ _ _ _ _ hc (Nat.le_refl _)

theorem assemble_deferred_deps {t : Table} (hn : Table.NoDef t) {addr : Nat} {tpl : Instr} {args : List Arg} {fs1 : Front.St}
    {c : Bytes} (h : Front.assemble ⟨addr, tpl, 0, args⟩ (frontEval t) true = (fs1, .deferred c)) :
    c ∈ instrDeps (Front.kinds tpl) args ∧ t.find c = none := by
  unfold Front.assemble at h
  simp only at h
  split at h
  · cases h
  · split at h
    · cases h
    · cases hc : Front.conv (frontEval t) true (Front.kinds tpl) 0 [] args 0 tpl [] with
      | stop A D I r =>
        rw [hc] at h; simp only [Prod.mk.injEq] at h
        obtain ⟨_, h2⟩ := h
        subst h2
        exact conv_deferred_deps t hn _ _ _ _ _ _ _ _ _ _ _ hc
      | ok A D I V => rw [hc] at h; simp only at h; split at h <;> cases h

theorem instr_core' (henc : EncLen enc) (sim : Sim num enc t₂ st l) (env : Env) (henv : env.paths.isEmpty = false)
    {seg : Seg.Active} (ha : st.seg.active = some seg) (tpl : Instr) (args : List Arg)
    (file : Bytes) (line col : Nat)
    (h : (match (⟨file, line, col, ⟨seg.cur, tpl, 0, args⟩, false⟩ : ArmInstr).assemble env st true with
        | .ok (i', st', .completed) =>
          match i'.writeInstr enc st' false with
          | .ok (_, st'', r) => (.ok (st'', r) : Out (St × Res))
          | .stop r => .stop r
        | .ok (i', st', _) =>
          match i'.writeInstr enc st' true with
          | .ok (i'', st'', .ok) =>
            match i''.schedule st'' false with
            | .ok st3 => .ok (st3, .ok)
            | .stop r => .stop r
          | .ok (_, st'', .err l) => .ok (st'', .err l)
          | .stop r => .stop r
        | .stop r => .stop r) = .ok (st', .ok))
    (herr : st'.errors = []) :
    ∃ l', Layout.step l (valueStmt num (ilen tpl) (instrDeps (Front.kinds tpl) args)
        (instrFinal enc t₂ (seg.base + seg.buf.length) tpl args)) = .ok l' ∧
      SimR num enc t₂ st' l' ∧ (cursor st' = (cursor st).map fun x => x + ilen tpl) ∧
      InstrFate enc t₂ st' (seg.base + seg.buf.length) tpl args := by
  obtain ⟨t, hl, hnd, hsub, henvr⟩ := sim.tbl
  obtain ⟨q, hq, hqr⟩ := sim.tasks
  have hla := active_of_sim sim.r ha
  have aok := sim.good.inv.2.1 seg ha
  obtain ⟨a1, a2, _, _⟩ := aok
  have hcurr : (toL seg).curr = seg.cur := cur_eq seg (by omega)
  have hpos : 0 < ilen tpl := by cases tpl <;> simp [ilen]
  cases has : (⟨file, line, col, ⟨seg.cur, tpl, 0, args⟩, false⟩ : ArmInstr).assemble env st true with
  | stop r => rw [has] at h; cases h
  | ok p =>
    obtain ⟨i1, st1, op⟩ := p
    rw [has] at h
    have hg1 := assembleI_grew _ _ _ has
    simp only [ArmInstr.assemble, evalTable, henv, hl, evalPanics_false, Bool.false_eq_true, if_false] at has
    have tail : op ≠ .completed → ∃ i2 st2, i1.writeInstr enc st1 true = .ok (i2, st2, .ok) ∧
        i2.schedule st2 false = .ok st' := by
      intro hop
      cases op with
      | completed => exact absurd rfl hop
      | deferred c =>
        simp only at h
        cases hw : i1.writeInstr enc st1 true with
        | stop r => rw [hw] at h; cases h
        | ok q2 =>
          obtain ⟨i2, st2, r⟩ := q2
          rw [hw] at h
          cases r with
          | err lv => simp at h
          | ok =>
            simp only at h
            cases hsch : i2.schedule st2 false with
            | stop r => rw [hsch] at h; cases h
            | ok st3 => rw [hsch] at h; simp at h; subst h; exact ⟨i2, st2, rfl, hsch⟩
      | err lv =>
        simp only at h
        cases hw : i1.writeInstr enc st1 true with
        | stop r => rw [hw] at h; cases h
        | ok q2 =>
          obtain ⟨i2, st2, r⟩ := q2
          rw [hw] at h
          cases r with
          | err lv => simp at h
          | ok =>
            simp only at h
            cases hsch : i2.schedule st2 false with
            | stop r => rw [hsch] at h; cases h
            | ok st3 => rw [hsch] at h; simp at h; subst h; exact ⟨i2, st2, rfl, hsch⟩
    have tail_err : ∀ lv, op = .err lv → False := by
      intro lv hop
      subst hop
      obtain ⟨i2, st2, hw, hsch⟩ := tail (by simp)
      have g2 := writeInstr_grew _ _ _ hw
      have e3 : st'.errors = st2.errors := addTask_errs hsch
      rw [e3] at herr
      have := (grew_nil g2 herr).1
      have := (grew_nil hg1 this).2
      simp at this
    cases hfa : Front.assemble ⟨seg.cur, tpl, 0, args⟩ (frontEval t) true with
    | mk fs r =>
      rw [hfa] at has
      have hkeep := Front.assemble_keeps ⟨seg.cur, tpl, 0, args⟩ (frontEval t) true
      rw [hfa] at hkeep
      simp only at hkeep
      obtain ⟨hka, hkl⟩ := hkeep
      cases r with
      | panic => cases has
      | error dg =>
        simp only [Out.ok.injEq, Prod.mk.injEq] at has
        exact (tail_err _ has.2.2.symm).elim
      | completed =>
        simp only [Out.ok.injEq, Prod.mk.injEq] at has
        obtain ⟨hi1, hst1, hop⟩ := has
        subst hi1; subst hst1; subst hop
        simp only at h
        cases hw : ArmInstr.writeInstr enc ⟨file, line, col, fs, false⟩ st false with
        | stop r => rw [hw] at h; cases h
        | ok q2 =>
          obtain ⟨i2, st2, r⟩ := q2
          rw [hw] at h
          simp only [Out.ok.injEq, Prod.mk.injEq] at h
          obtain ⟨h1, h2⟩ := h
          subst h1; subst h2
          obtain ⟨bytes, he, _, s', o, hs, hnd', hst2⟩ := writeInstr_first (i := ⟨file, line, col, fs, false⟩) rfl ha hw
          subst hst2
          simp only [Bool.false_eq_true, if_false] at hs he
          obtain ⟨w1, w2, w3, w4⟩ := write_sim sim.good.inv sim.r ha _ _ (.inr rfl) hs hnd'
          have hblen : bytes.length = ilen tpl := by rw [henc _ _ he, hkl]
          have hct : seg.cur = seg.base + seg.buf.length :=
            cur_true (sim.good.inv.2.1 seg ha) (n := bytes.length) (by omega) w2
          have hall := hasAll_of_known henvr hnd (assemble_completed_deps hfa)
          have hmono := assemble_mono (e₂ := frontEval t₂) (st := ⟨seg.cur, tpl, 0, args⟩)
              (fun a ha' => grows_all hsub hnd a) hfa true
          rw [hct] at hmono
          have hfin : instrFinal enc t₂ (seg.base + seg.buf.length) tpl args = bytes := by
            simp only [instrFinal, hmono, he]
          refine ⟨_, ?_, simR_seg sim w4 rfl rfl, ?_, .inl ⟨fs, bytes, hmono, he⟩⟩
          · rw [step_value_direct hla num _ _ _ hall, hfin]
            exact w3
          · simp [cursor, ha, w1, hblen, Nat.add_assoc]
      | deferred c =>
        simp only [Out.ok.injEq, Prod.mk.injEq] at has
        obtain ⟨hi1, hst1, hop⟩ := has
        subst hi1; subst hst1; subst hop
        obtain ⟨i2, st2, hw, hsch⟩ := tail (by simp)
        obtain ⟨ph, he, hi2, s', o, hs, hnd', hst2⟩ := writeInstr_first (i := ⟨file, line, col, fs, false⟩) rfl ha hw
        subst hi2; subst hst2
        simp only [if_true] at hs he
        have hphlen : ph.length = ilen tpl := by rw [henc _ _ he, hkl]
        rw [hphlen] at hs
        obtain ⟨w1, w2, w3, w4⟩ := write_sim sim.good.inv sim.r ha _ _ (.inr rfl) hs hnd'
        have hct : seg.cur = seg.base + seg.buf.length :=
          cur_true (sim.good.inv.2.1 seg ha) (n := ilen tpl) hpos (by simpa using w2)
        obtain ⟨i1', i2'⟩ := assemble_deferred_deps hnd hfa
        have hall := not_hasAll_of_unknown henvr i1' i2'
        simp only [ArmInstr.schedule, Bool.false_eq_true, if_false, addTask, hq] at hsch
        cases hsch
        refine ⟨{ l with active := some (toL { seg with buf := seg.buf ++ List.replicate (ilen tpl) 0xBE }),
                         tasks := l.tasks ++ [⟨(toL seg).curr, ilen tpl, (instrDeps (Front.kinds tpl) args).map num,
                            instrFinal enc t₂ (seg.base + seg.buf.length) tpl args⟩] },
          ?_, ⟨⟨w4.1, w4.2⟩, ⟨t, hl, hnd, hsub, henvr⟩, ⟨_, rfl, ?_⟩, sim.gl⟩, ?_, ?_⟩
        · rw [step_value_defer hla num _ _ _ hall]
          show (match Layout.append l (List.replicate (ilen tpl) 0xBE) with | .error e => _ | .ok st' => _) = _
          rw [w3]
        · refine TasksRel.snoc hqr ?_
          refine ⟨rfl, rfl, ?_, ?_, tpl, args, t, c, hsub, hnd, ?_, rfl, ?_⟩
          · show (toL seg).curr = fs.addr
            rw [hcurr, hka]
          · show ilen tpl = ilen fs.instr
            rw [hkl]
          · show Front.assemble ⟨fs.addr, tpl, 0, args⟩ (frontEval t) true = (fs, .deferred c)
            rw [hka]; exact hfa
          · show instrFinal enc t₂ (seg.base + seg.buf.length) tpl args = instrFinal enc t₂ fs.addr tpl args
            rw [hka, hct]
        · simp [cursor, ha, w1, Nat.add_assoc]
        · refine .inr ⟨q, _, t, c, rfl, ?_, hsub, hnd, ?_⟩
          · show fs.addr = seg.base + seg.buf.length
            rw [hka, hct]
          · show Front.assemble ⟨seg.base + seg.buf.length, tpl, 0, args⟩ (frontEval t) true = (fs, .deferred c)
            rw [← hct]; exact hfa

theorem instr_core (henc : EncLen enc) (sim : Sim num enc t₂ st l) (env : Env) (henv : env.paths.isEmpty = false)
    {seg : Seg.Active} (ha : st.seg.active = some seg) (tpl : Instr) (args : List Arg)
    (file : Bytes) (line col : Nat)
    (h : (match (⟨file, line, col, ⟨seg.cur, tpl, 0, args⟩, false⟩ : ArmInstr).assemble env st true with
        | .ok (i', st', .completed) =>
          match i'.writeInstr enc st' false with
          | .ok (_, st'', r) => (.ok (st'', r) : Out (St × Res))
          | .stop r => .stop r
        | .ok (i', st', _) =>
          match i'.writeInstr enc st' true with
          | .ok (i'', st'', .ok) =>
            match i''.schedule st'' false with
            | .ok st3 => .ok (st3, .ok)
            | .stop r => .stop r
          | .ok (_, st'', .err l) => .ok (st'', .err l)
          | .stop r => .stop r
        | .stop r => .stop r) = .ok (st', .ok))
    (herr : st'.errors = []) :
    ∃ l', Layout.step l (valueStmt num (ilen tpl) (instrDeps (Front.kinds tpl) args)
        (instrFinal enc t₂ (seg.base + seg.buf.length) tpl args)) = .ok l' ∧
      SimR num enc t₂ st' l' ∧ cursor st' = (cursor st).map fun x => x + ilen tpl := by
  obtain ⟨l', h1, h2, h3, _⟩ := instr_core' henc sim env henv ha tpl args file line col h herr
  exact ⟨l', h1, h2, h3⟩

/-! ## one statement -/

theorem instrFinal_length (henc : EncLen enc) (t : Table) (addr : Nat) (tpl : Instr) (args : List Arg) :
    (instrFinal enc t addr tpl args).length = ilen tpl := by
  unfold instrFinal
  cases hfa : Front.assemble ⟨addr, tpl, 0, args⟩ (frontEval t) true with
  | mk fs r =>
    have hkeep := (Front.assemble_keeps ⟨addr, tpl, 0, args⟩ (frontEval t) true).2
    rw [hfa] at hkeep
    cases r with
    | completed =>
      simp only
      cases he : enc fs.instr with
      | ok b => simp only; rw [henc _ _ he]; exact hkeep
      | error e => simp
    | _ => simp

theorem du_sim (sim : Sim num enc t₂ st l) (du : DU) (env : Env) (henv : env.paths.isEmpty = false) (line col : Nat)
    (args : List Arg)
    (h : duDirective du env st line col args = .ok (st', .ok)) (herr : st'.errors = []) :
    ∃ a l', args = [a] ∧ Layout.step l (valueStmt num du.size (idents a) (duFinal t₂ du a)) = .ok l' ∧
      SimR num enc t₂ st' l' ∧ cursor st' = (cursor st).map fun x => x + du.size := by
  unfold duDirective at h
  cases ha : st.seg.active with
  | none => simp [currAddr, ha] at h
  | some seg =>
    simp only [currAddr, ha, Option.map_some] at h
    split at h
    · simp at h
    · rename_i har
      obtain ⟨a, rfl⟩ := arity_one har
      simp only at h
      obtain ⟨l', h1, h2, h3⟩ := du_core sim env henv ha ⟨du, env.curName, line, col, seg.cur, a, false⟩ rfl rfl
        h herr
      exact ⟨a, l', rfl, h1, h2, h3⟩

theorem instr_sim (henc : EncLen enc) (sim : Sim num enc t₂ st l) (env : Env) (henv : env.paths.isEmpty = false)
    (line col : Nat) (name : Bytes) (args : List Arg)
    (h : instruction enc env st line col name args = .ok (st', .ok)) (herr : st'.errors = []) :
    ∃ tpl c l', Front.mnemonic name = some tpl ∧ cursor st = some c ∧
      Layout.step l (valueStmt num (ilen tpl) (instrDeps (Front.kinds tpl) args) (instrFinal enc t₂ c tpl args)) = .ok l' ∧
      SimR num enc t₂ st' l' ∧ cursor st' = some (c + ilen tpl) := by
  unfold instruction at h
  cases ha : st.seg.active with
  | none => simp [currAddr, ha] at h
  | some seg =>
    simp only [currAddr, ha, Option.map_some] at h
    cases hm : Front.mnemonic name with
    | none => rw [hm] at h; simp at h
    | some tpl =>
      rw [hm] at h
      simp only at h
      obtain ⟨l', h1, h2, h3⟩ := instr_core henc sim env henv ha tpl args env.curName line col h herr
      exact ⟨tpl, seg.base + seg.buf.length, l', rfl, by simp [cursor, ha], h1, h2, by rw [h3]; simp [cursor, ha]⟩

theorem du_fate (sim : Sim num enc t₂ st l) (du : DU) (env : Env) (henv : env.paths.isEmpty = false) (line col : Nat)
    (args : List Arg)
    (h : duDirective du env st line col args = .ok (st', .ok)) (herr : st'.errors = []) :
    ∃ a, args = [a] ∧ DuFate t₂ st' du a := by
  unfold duDirective at h
  cases ha : st.seg.active with
  | none => simp [currAddr, ha] at h
  | some seg =>
    simp only [currAddr, ha, Option.map_some] at h
    split at h
    · simp at h
    · rename_i har
      obtain ⟨a, rfl⟩ := arity_one har
      simp only at h
      obtain ⟨l', _, _, _, h4⟩ := du_core' sim env henv ha ⟨du, env.curName, line, col, seg.cur, a, false⟩ rfl rfl
        h herr
      exact ⟨a, rfl, h4⟩

theorem instr_fate (henc : EncLen enc) (sim : Sim num enc t₂ st l) (env : Env) (henv : env.paths.isEmpty = false)
    (line col : Nat) (name : Bytes) (args : List Arg)
    (h : instruction enc env st line col name args = .ok (st', .ok)) (herr : st'.errors = []) :
    ∃ tpl c, Front.mnemonic name = some tpl ∧ cursor st = some c ∧ InstrFate enc t₂ st' c tpl args := by
  unfold instruction at h
  cases ha : st.seg.active with
  | none => simp [currAddr, ha] at h
  | some seg =>
    simp only [currAddr, ha, Option.map_some] at h
    cases hm : Front.mnemonic name with
    | none => rw [hm] at h; simp at h
    | some tpl =>
      rw [hm] at h
      simp only at h
      obtain ⟨l', _, _, _, h4⟩ := instr_core' henc sim env henv ha tpl args env.curName line col h herr
      exact ⟨tpl, seg.base + seg.buf.length, rfl, by simp [cursor, ha], h4⟩

theorem statement_sim (hinj : Function.Injective num) (henc : EncLen enc) (sim : Sim num enc t₂ st l)
    (fs : Bytes → Option Bytes) (inc : Inc) (env : Env) (path : Bytes) (henv : env.paths = [path]) (el : Element)
    (hok : okEl el = true)
    (h : statement fs enc inc env st el = .ok (st', .ok)) (herr : st'.errors = [])
    (hT : ∀ t', st'.locals = some t' → Table.Sub t' t₂) :
    ∃ l', Layout.step l (absStmt num fs enc path t₂ (cursor st) el) = .ok l' ∧ SimR num enc t₂ st' l' ∧
      cursor st' = Layout.Ref.next (cursor st) (absStmt num fs enc path t₂ (cursor st) el) := by
  have henv' : env.paths.isEmpty = false := by rw [henv]; rfl
  obtain ⟨line, col, val⟩ := el
  cases val with
  | label name =>
    obtain ⟨l', h1, h2, h3⟩ := label_sim hinj sim fs inc env line col name h hT
    exact ⟨l', by simpa [absStmt] using h1, h2, by simp [absStmt, Layout.Ref.next, h3]⟩
  | instruction name args =>
    simp only [statement] at h
    split at h
    · simp at h
    · obtain ⟨tpl, c, l', hm, hc, h1, h2, h3⟩ := instr_sim henc sim env henv' line col name args.toList h herr
      refine ⟨l', ?_, h2, ?_⟩
      · simp only [absStmt, hm, hc, Option.getD_some]; exact h1
      · simp only [absStmt, hm, hc, Option.getD_some]
        rw [next_value _ _ _ _ _ (instrFinal_length henc _ _ _ _), h3]
        rfl
  | directive name args =>
    simp only [okEl, Bool.not_eq_true', Bool.or_eq_false_iff, decide_eq_false_iff_not] at hok
    obtain ⟨⟨⟨hn1, hn2⟩, hn3⟩, hn4⟩ := hok
    simp only [statement] at h
    unfold directive at h
    by_cases h0 : name = bytesOf "addr"
    · rw [if_pos h0] at h
      obtain ⟨a, v, l', ha, hv, h1, h2, h3⟩ := addr_sim sim env henv' line col args.toList h
      refine ⟨l', ?_, h2, ?_⟩
      · simp only [absStmt, h0, if_true, ha, hv]; exact h1
      · simp only [absStmt, h0, if_true, ha, hv, Layout.Ref.next]; exact h3
    rw [if_neg h0] at h
    by_cases h1' : name = bytesOf "align"
    · rw [if_pos h1'] at h
      obtain ⟨a, v, l', ha, hv, h1, h2, h3⟩ := align_sim sim env henv' line col args.toList h
      refine ⟨l', ?_, h2, ?_⟩
      · simp only [absStmt, h0, h1', if_true, if_false, ha, hv]; exact h1
      · simp only [absStmt, h0, h1', if_true, if_false, ha, hv]; exact h3
    rw [if_neg h1'] at h
    by_cases h2' : name = bytesOf "const"
    · rw [if_pos h2'] at h
      obtain ⟨nm, b, v, l', ha, hv, h1, h2, h3⟩ := const_sim hinj sim env henv' line col args.toList h hT
      refine ⟨l', ?_, h2, ?_⟩
      · simp only [absStmt, h0, h1', h2', if_true, if_false, ha, hv]; exact h1
      · simp only [absStmt, h0, h1', h2', if_true, if_false, ha, hv, Layout.Ref.next]; exact h3
    rw [if_neg h2'] at h
    have hdu : ∀ du, duOf name = some du → duDirective du env st line col args.toList = .ok (st', .ok) →
        name ≠ bytesOf "dhex" → name ≠ bytesOf "dstr" → name ≠ bytesOf "dfile" →
        ∃ l', Layout.step l (absStmt num fs enc path t₂ (cursor st) ⟨line, col, .directive name args⟩) = .ok l' ∧
          SimR num enc t₂ st' l' ∧
          cursor st' = Layout.Ref.next (cursor st) (absStmt num fs enc path t₂ (cursor st) ⟨line, col, .directive name args⟩) := by
      intro du hdu hd g1 g2 g3
      obtain ⟨a, l', ha, h1, h2, h3⟩ := du_sim sim du env henv' line col args.toList hd herr
      refine ⟨l', ?_, h2, ?_⟩
      · simp only [absStmt, h0, h1', h2', g1, g2, g3, if_false, ha, hdu]; exact h1
      · simp only [absStmt, h0, h1', h2', g1, g2, g3, if_false, ha, hdu]
        rw [next_value _ _ _ _ _ (duFinal_length _ _ _), h3]
    by_cases h3' : name = bytesOf "du8"
    · rw [if_pos h3'] at h
      exact hdu .u8 (by simp [duOf, h3']) h (by rw [h3']; decide) (by rw [h3']; decide) (by rw [h3']; decide)
    rw [if_neg h3'] at h
    by_cases h4' : name = bytesOf "du16"
    · rw [if_pos h4'] at h
      exact hdu .u16 (by rw [h4']; decide) h (by rw [h4']; decide) (by rw [h4']; decide) (by rw [h4']; decide)
    rw [if_neg h4'] at h
    by_cases h5' : name = bytesOf "du32"
    · rw [if_pos h5'] at h
      exact hdu .u32 (by rw [h5']; decide) h (by rw [h5']; decide) (by rw [h5']; decide) (by rw [h5']; decide)
    rw [if_neg h5'] at h
    have hstr : ∀ dir : String, (dir = "dhex" ∨ dir = "dstr" ∨ dir = "dfile") →
        stringDirective fs dir env st line col args.toList = .ok (st', .ok) →
        (∀ s d, args.toList = [.str s] → (dir = "dhex" → dhexLoop s 0 none [] = .ok (d, none)) → (dir = "dstr" → d = s) →
          (dir = "dfile" → fs (sibling path s) = some d) →
          absStmt num fs enc path t₂ (cursor st) ⟨line, col, .directive name args⟩ = .raw d) →
        ∃ l', Layout.step l (absStmt num fs enc path t₂ (cursor st) ⟨line, col, .directive name args⟩) = .ok l' ∧
          SimR num enc t₂ st' l' ∧
          cursor st' = Layout.Ref.next (cursor st) (absStmt num fs enc path t₂ (cursor st) ⟨line, col, .directive name args⟩) := by
      intro dir hdir hd habs
      obtain ⟨s, d, ha, c1, c2, c3, happ⟩ := stringDirective_inv hdir henv hd
      obtain ⟨l', h1, h2, h3⟩ := appendData_sim sim dir env line col d happ
      rw [habs s d ha c1 c2 c3]
      exact ⟨l', h1, h2, h3⟩
    by_cases h6' : name = bytesOf "dhex"
    · rw [if_pos h6'] at h
      refine hstr "dhex" (.inl rfl) h (fun s d ha c1 _ _ => ?_)
      simp only [absStmt, h0, h1', h2', if_false]
      simp only [h6', if_true, ha, c1 rfl]
    rw [if_neg h6'] at h
    by_cases h7' : name = bytesOf "dstr"
    · rw [if_pos h7'] at h
      refine hstr "dstr" (.inr (.inl rfl)) h (fun s d ha _ c2 _ => ?_)
      simp only [absStmt, h0, h1', h2', h6', if_false]
      simp only [h7', if_true, ha, c2 rfl]
    rw [if_neg h7'] at h
    by_cases h8' : name = bytesOf "dfile"
    · rw [if_pos h8'] at h
      refine hstr "dfile" (.inr (.inr rfl)) h (fun s d ha _ _ c3 => ?_)
      simp only [absStmt, h0, h1', h2', h6', h7', if_false]
      simp only [h8', if_true, ha, c3 rfl]
    rw [if_neg h8'] at h
    rw [if_neg hn2, if_neg hn3, if_neg hn4, if_neg hn1] at h
    simp at h

/-- a statement that succeeded without a diagnostic: its abstraction is no fallback, and its value-dependent bytes are
genuine over the final table already, or the statement is queued with its first attempt on record -/
theorem statement_fate (hinj : Function.Injective num) (henc : EncLen enc) (sim : Sim num enc t₂ st l)
    (fs : Bytes → Option Bytes) (inc : Inc) (env : Env) (path : Bytes) (henv : env.paths = [path]) (el : Element)
    (hok : okEl el = true)
    (h : statement fs enc inc env st el = .ok (st', .ok)) (herr : st'.errors = [])
    (hT : ∀ t', st'.locals = some t' → Table.Sub t' t₂) :
    ElFate fs enc path t₂ (cursor st) st' el := by
  have henv' : env.paths.isEmpty = false := by rw [henv]; rfl
  obtain ⟨line, col, val⟩ := el
  cases val with
  | label name => trivial
  | instruction name args =>
    simp only [statement] at h
    split at h
    · simp at h
    · obtain ⟨tpl, c, hm, hc, hf⟩ := instr_fate henc sim env henv' line col name args.toList h herr
      exact ⟨tpl, c, hm, hc, hf⟩
  | directive name args =>
    simp only [okEl, Bool.not_eq_true', Bool.or_eq_false_iff, decide_eq_false_iff_not] at hok
    obtain ⟨⟨⟨hn1, hn2⟩, hn3⟩, hn4⟩ := hok
    simp only [statement] at h
    unfold directive at h
    show ElGenW _ _ fs path t₂ (cursor st) ⟨line, col, .directive name args⟩
    simp only [ElGenW]
    by_cases h0 : name = bytesOf "addr"
    · rw [if_pos h0] at h ⊢
      obtain ⟨a, v, l', ha, hv, h1, _, _⟩ := addr_sim sim env henv' line col args.toList h
      refine ⟨a, v, ha, hv, ?_⟩
      simp only [Layout.step, Layout.changeSeg] at h1
      split at h1
      · cases h1
      · rename_i hlt; unfold Layout.top at hlt; omega
    rw [if_neg h0] at h ⊢
    by_cases h1' : name = bytesOf "align"
    · rw [if_pos h1'] at h ⊢
      obtain ⟨a, v, l', ha, hv, h1, _, _⟩ := align_sim sim env henv' line col args.toList h
      refine ⟨a, v, ha, hv, ?_⟩
      rw [Layout.step_align] at h1
      split at h1
      · cases h1
      · split at h1
        · cases h1
        · rename_i hr; unfold Layout.top at hr; omega
    rw [if_neg h1'] at h ⊢
    by_cases h2' : name = bytesOf "const"
    · rw [if_pos h2'] at h ⊢
      obtain ⟨nm, b, v, l', ha, hv, _, _, _⟩ := const_sim hinj sim env henv' line col args.toList h hT
      exact ⟨nm, b, v, ha, hv⟩
    rw [if_neg h2'] at h ⊢
    have hdu : ∀ du, duOf name = some du → duDirective du env st line col args.toList = .ok (st', .ok) →
        ∃ du a, duOf name = some du ∧ args.toList = [a] ∧ DuFate t₂ st' du a := by
      intro du hdu hd
      obtain ⟨a, ha, hf⟩ := du_fate sim du env henv' line col args.toList hd herr
      exact ⟨du, a, hdu, ha, hf⟩
    by_cases h3' : name = bytesOf "du8"
    · rw [if_pos h3'] at h
      rw [if_neg (by rw [h3']; decide), if_neg (by rw [h3']; decide), if_neg (by rw [h3']; decide)]
      exact hdu .u8 (by simp [duOf, h3']) h
    rw [if_neg h3'] at h
    by_cases h4' : name = bytesOf "du16"
    · rw [if_pos h4'] at h
      rw [if_neg (by rw [h4']; decide), if_neg (by rw [h4']; decide), if_neg (by rw [h4']; decide)]
      exact hdu .u16 (by rw [h4']; decide) h
    rw [if_neg h4'] at h
    by_cases h5' : name = bytesOf "du32"
    · rw [if_pos h5'] at h
      rw [if_neg (by rw [h5']; decide), if_neg (by rw [h5']; decide), if_neg (by rw [h5']; decide)]
      exact hdu .u32 (by rw [h5']; decide) h
    rw [if_neg h5'] at h
    by_cases h6' : name = bytesOf "dhex"
    · rw [if_pos h6'] at h ⊢
      obtain ⟨s, d, ha, c1, _, _, _⟩ := stringDirective_inv (.inl rfl) henv h
      exact ⟨s, d, ha, c1 rfl⟩
    rw [if_neg h6'] at h ⊢
    by_cases h7' : name = bytesOf "dstr"
    · rw [if_pos h7'] at h ⊢
      obtain ⟨s, d, ha, _, _, _, _⟩ := stringDirective_inv (.inr (.inl rfl)) henv h
      exact ⟨s, ha⟩
    rw [if_neg h7'] at h ⊢
    by_cases h8' : name = bytesOf "dfile"
    · rw [if_pos h8'] at h ⊢
      obtain ⟨s, d, ha, _, _, c3, _⟩ := stringDirective_inv (.inr (.inr rfl)) henv h
      exact ⟨s, d, ha, c3 rfl⟩
    rw [if_neg h8'] at h
    rw [if_neg hn2, if_neg hn3, if_neg hn4, if_neg hn1] at h
    simp at h

end

end Trion.Asm
