import TrionModel.Lemmas.SimpE
import TrionModel.Lemmas.SimpInv
/-!
# Normal forms: every complete result of `evaluate` is a fixed point of `evaluate`

`NF a`: every node `N` of `a` is a LOCAL fixed point of `simplify_raw` (`simplify_raw N = Ok(false)` and `N` unchanged)
and every identifier is a register.  Then

* `NF_stable`: an `NF` tree is a fixed point of `evaluate` over every table;
* `simplifyRaw_NF`: `simplify_raw` of a node with `NF` children yields an `NF` tree — through the direct fold, the modulo
  collapse, `neutralize_raw` (`neutralizeRaw_NF`) and the merge (`setC` / `dropC` followed by the deep `neutralize`:
  `setC_neutralize_NF`, `dropC_neutralize_NF`);
* `evaluateE_NF`: a complete result of `evaluate` (no `Deferred` cause) is `NF`.

This needs the repair of K5 (`neutralize_raw` swaps `-(l - r)` and `0 - (l - r)` to `r - l`): before it `-(l - r)` was a
result of `neutralize_raw` and not a fixed point of `simplify_raw`.
-/
namespace Trion.Simp
open Trion

section
variable (isReg : Bytes → Bool)

mutual
/-- hereditarily a local fixed point of `simplify_raw`, all identifiers registers -/
def NF : Arg → Prop
  | .const _ => True
  | .ident s => isReg s = true
  | .str _ => True
  | .bin op l r => NF l ∧ NF r ∧ simplifyRaw (.bin op l r) = .ok (false, .bin op l r)
  | .neg v => NF v ∧ simplifyRaw (.neg v) = .ok (false, .neg v)
  | .not v => NF v ∧ simplifyRaw (.not v) = .ok (false, .not v)
  | .addr v => NF v ∧ simplifyRaw (.addr v) = .ok (false, .addr v)
  | .seq as => NFs as
  | .func _ as => NFs as
def NFs : Args → Prop
  | .nil => True
  | .cons a as => NF a ∧ NFs as
end

end

/-! ## what a local fixed point says -/

/-- does the operand contribute a constant to an `op` chain -/
def fnd (op : BinOp) (t : Arg) : Bool := isC t || (findC op t false).isFound

theorem mergeL_isFound (op : BinOp) (l : Arg) : (mergeL op l).isFound = fnd op l := by
  unfold mergeL fnd
  cases hl : cval l with
  | some c => simp [isC, hl, Find.isFound]
  | none => simp [isC, hl]

theorem mergeR_isFound (op : BinOp) (r : Arg) (hd : op ≠ .div) : (mergeR op r).isFound = fnd op r := by
  unfold mergeR fnd
  cases hr : cval r with
  | some c => simp [isC, hr, Find.isFound]
  | none =>
    have : (op == BinOp.div) = false := by cases op <;> simp_all
    simp [isC, hr, this, findC_isFound_inv]

theorem mergeR_div_isFound (r : Arg) : (mergeR .div r).isFound = isC r := by
  unfold mergeR
  cases hr : cval r with
  | some c => simp [isC, hr, Find.isFound]
  | none => simp [isC, hr, Find.isFound]

/-- the operators whose binary nodes go through the merge -/
def mergeable : BinOp → Bool
  | .mod | .shl | .shr => false
  | _ => true

/-- both operands contribute a constant: the merge fires -/
def bothFound (op : BinOp) (l r : Arg) : Bool := (mergeL op l).isFound && (mergeR op r).isFound

theorem merge_false {op : BinOp} {l r : Arg} {a : Arg} (h : merge op l r = .ok (false, a)) :
    bothFound op l r = false ∧ neutralizeRaw (.bin op l r) = .ok (false, a) := by
  unfold merge at h
  unfold bothFound
  cases hL : mergeL op l with
  | panic => simp [hL] at h
  | none =>
    cases hR : mergeR op r with
    | panic => simp [hL, hR] at h
    | none => simp only [hL, hR] at h; exact ⟨by simp [Find.isFound], h⟩
    | found c2 s2 => simp only [hL, hR] at h; exact ⟨by simp [Find.isFound], h⟩
  | found c1 s1 =>
    cases hR : mergeR op r with
    | panic => simp [hL, hR] at h
    | none => simp only [hL, hR] at h; exact ⟨by simp [Find.isFound], h⟩
    | found c2 s2 =>
      simp only [hL, hR] at h
      cases hc : combine op s1 s2 c1 c2 with
      | error k => simp [hc] at h
      | ok cc =>
        simp only [hc] at h
        cases hn : neutralize (mergeTree op l r cc) with
        | panic => simp [hn] at h
        | err e => simp [hn] at h
        | ok p => simp [hn] at h

theorem merge_of_not_both {op : BinOp} {l r : Arg} (h : bothFound op l r = false)
    (hl : mergeL op l ≠ .panic) (hr : mergeR op r ≠ .panic) : merge op l r = neutralizeRaw (.bin op l r) := by
  unfold merge
  unfold bothFound at h
  cases hL : mergeL op l with
  | panic => exact absurd hL hl
  | none =>
    cases hR : mergeR op r with
    | panic => exact absurd hR hr
    | none => rfl
    | found c2 s2 => rfl
  | found c1 s1 =>
    cases hR : mergeR op r with
    | panic => exact absurd hR hr
    | none => rfl
    | found c2 s2 => simp [hL, hR, Find.isFound] at h

/-- what `simplify_raw N = Ok(false), N` says about a binary node -/
theorem lfix_bin {op : BinOp} {l r : Arg} (h : simplifyRaw (.bin op l r) = .ok (false, .bin op l r)) :
    isBad l = false ∧ isBad r = false ∧ ¬ (isC l = true ∧ isC r = true) ∧
    neutralizeRaw (.bin op l r) = .ok (false, .bin op l r) ∧
    (mergeable op = true → bothFound op l r = false) ∧
    (op = .mod → modCollapse l r = false) := by
  by_cases hlr : isC l = true ∧ isC r = true
  · obtain ⟨h1, h2⟩ := hlr
    cases l <;> simp [isC, cval] at h1
    cases r <;> simp [isC, cval] at h2
    rename_i x y
    simp only [simplifyRaw, isBad, cval] at h
    cases hf : foldBin op x y with
    | error k => simp [hf] at h
    | ok w => simp [hf] at h
  · rw [simplifyRaw_bin_rest op l r hlr] at h
    cases h1 : isBad l with
    | true => simp [h1] at h
    | false =>
      cases h2 : isBad r with
      | true => simp [h1, h2] at h
      | false =>
        simp only [h1, h2, Bool.false_eq_true, if_false] at h
        refine ⟨rfl, rfl, hlr, ?_⟩
        cases op
        case mod =>
          simp only at h
          by_cases hm : modCollapse l r = true
          · simp [hm] at h
          · simp only [hm, if_false] at h
            exact ⟨h, fun hx => by simp [mergeable] at hx, fun _ => by simpa using hm⟩
        case shl => exact ⟨h, fun hx => by simp [mergeable] at hx, fun hx => by cases hx⟩
        case shr => exact ⟨h, fun hx => by simp [mergeable] at hx, fun hx => by cases hx⟩
        all_goals
          simp only at h
          have := merge_false h
          exact ⟨this.2, fun _ => this.1, fun hx => by cases hx⟩

/-- … and conversely -/
theorem lfix_bin_intro {op : BinOp} {l r : Arg} (h1 : isBad l = false) (h2 : isBad r = false)
    (hlr : ¬ (isC l = true ∧ isC r = true)) (hn : neutralizeRaw (.bin op l r) = .ok (false, .bin op l r))
    (hb : mergeable op = true → bothFound op l r = false) (hm : op = .mod → modCollapse l r = false)
    (hpl : mergeL op l ≠ .panic) (hpr : mergeR op r ≠ .panic) :
    simplifyRaw (.bin op l r) = .ok (false, .bin op l r) := by
  rw [simplifyRaw_bin_rest op l r hlr]
  simp only [h1, h2, Bool.false_eq_true, if_false]
  cases op
  case mod => simp only [hm rfl, Bool.false_eq_true, if_false]; exact hn
  case shl => exact hn
  case shr => exact hn
  all_goals
    simp only
    rw [merge_of_not_both (hb rfl) hpl hpr]
    exact hn

theorem lfix_neg {v : Arg} (h : simplifyRaw (.neg v) = .ok (false, .neg v)) :
    isBad v = false ∧ isC v = false ∧ ∀ x y, v ≠ .bin .sub x y := by
  cases v with
  | bin op x y =>
    cases op
    case sub =>
      rw [simplifyRaw_neg_sub] at h
      cases hn : neutralizeRaw (.bin .sub y x) with
      | ok p => simp [hn] at h
      | err e => simp [hn] at h
      | panic => simp [hn] at h
    all_goals exact ⟨rfl, rfl, fun x y hxy => by cases hxy⟩
  | const c =>
    simp only [simplifyRaw] at h
    split at h <;> simp at h
  | str s => simp [simplifyRaw] at h
  | addr s => simp [simplifyRaw] at h
  | seq s => simp [simplifyRaw] at h
  | ident s => exact ⟨rfl, rfl, fun x y hxy => by cases hxy⟩
  | neg s => exact ⟨rfl, rfl, fun x y hxy => by cases hxy⟩
  | not s => exact ⟨rfl, rfl, fun x y hxy => by cases hxy⟩
  | func n s => exact ⟨rfl, rfl, fun x y hxy => by cases hxy⟩

theorem lfix_neg_intro {v : Arg} (h1 : isBad v = false) (h2 : isC v = false) (h3 : ∀ x y, v ≠ .bin .sub x y) :
    simplifyRaw (.neg v) = .ok (false, .neg v) := by
  cases v with
  | bin op x y =>
    cases op
    case sub => exact absurd rfl (h3 x y)
    all_goals rfl
  | const c => simp [isC, cval] at h2
  | str s => simp [isBad] at h1
  | addr s => simp [isBad] at h1
  | seq s => simp [isBad] at h1
  | ident s => rfl
  | neg s => rfl
  | not s => rfl
  | func n s => rfl

/-! ## `NF` trees: `nb`, fixed points of the deep `neutralize` and of `evaluate` -/

section
variable {isReg : Bytes → Bool}

theorem NF_nb_both : (∀ a, NF isReg a → nb a = true) ∧ (∀ as, NFs isReg as → nbs as = true) := by
  apply Arg.ind2
  case const => intro v _; rfl
  case ident => intro v _; rfl
  case str => intro v _; rfl
  case bin =>
    intro op l r ihl ihr h
    simp only [NF] at h
    exact nb_bin.2 ⟨ihl h.1, ihr h.2.1, (lfix_bin h.2.2).2.2.1⟩
  case neg =>
    intro v ih h
    simp only [NF] at h
    exact nb_neg.2 ⟨ih h.1, (lfix_neg h.2).2.1⟩
  case not => intro v ih h; simp only [NF] at h; simpa [nb] using ih h.1
  case addr => intro v ih h; simp only [NF] at h; simpa [nb] using ih h.1
  case seq => intro as ih h; simp only [NF] at h; simpa [nb] using ih h
  case func => intro n as ih h; simp only [NF] at h; simpa [nb] using ih h
  case nil => intro _; rfl
  case cons => intro a as iha ihas h; simp only [NFs] at h; simp [nbs, iha h.1, ihas h.2]

theorem NF_nb {a : Arg} (h : NF isReg a) : nb a = true := NF_nb_both.1 a h

/-- the deep `neutralize` leaves an `NF` tree alone -/
theorem NF_neutralize_both :
    (∀ a, NF isReg a → neutralize a = .ok (false, a)) ∧ (∀ as, NFs isReg as → neutralizeArgs as = .ok (false, as)) := by
  apply Arg.ind2
  case const => intro v _; rfl
  case ident => intro v _; rfl
  case str => intro v _; rfl
  case bin =>
    intro op l r ihl ihr h
    simp only [NF] at h
    simp only [neutralize, ihl h.1, ihr h.2.1, (lfix_bin h.2.2).2.2.2.1, Bool.or_self]
  case neg =>
    intro v ih h
    simp only [NF] at h
    have hv := (lfix_neg h.2).2.2
    have : neutralizeRaw (.neg v) = .ok (false, .neg v) := by
      rcases neutralizeRaw_neg_cases v with h0 | ⟨x, y, rfl, _⟩
      · exact h0
      · exact absurd rfl (hv x y)
    simp only [neutralize, ih h.1, this, Bool.or_self]
  case not => intro v ih h; simp only [NF] at h; simp only [neutralize, ih h.1]
  case addr => intro v ih h; simp only [NF] at h; simp only [neutralize, ih h.1]
  case seq => intro as ih h; simp only [NF] at h; simp only [neutralize, ih h]
  case func => intro n as ih h; simp only [NF] at h; simp only [neutralize, ih h]
  case nil => intro _; rfl
  case cons =>
    intro a as iha ihas h
    simp only [NFs] at h
    simp only [neutralizeArgs, iha h.1, ihas h.2, Bool.or_self]

theorem NF_neutralize {a : Arg} (h : NF isReg a) : neutralize a = .ok (false, a) := NF_neutralize_both.1 a h

theorem simplifyRawE_of_ok {x : Arg} {p : Bool × Arg} (h : simplifyRaw x = .ok p) : simplifyRawE x = .ok p := by
  have hp := simplifyRawE_proj x
  rw [h] at hp
  cases hs : simplifyRawE x with
  | ok q => rw [hs] at hp; simp only [ResE.toRes, Res.ok.injEq] at hp; rw [hp]
  | err e t => rw [hs] at hp; cases hp
  | panic => rw [hs] at hp; cases hp

theorem simplifyRaw_of_okE {x : Arg} {p : Bool × Arg} (h : simplifyRawE x = .ok p) : simplifyRaw x = .ok p := by
  have hp := simplifyRawE_proj x
  rw [h] at hp
  exact hp.symm

/-- **an `NF` tree is a fixed point of `evaluate`**, over every table -/
theorem NF_stable_both (lk : Bytes → Lookup) :
    (∀ a, NF isReg a → evaluateE lk isReg a = .ok ⟨false, none⟩ a) ∧
    (∀ as, NFs isReg as → evaluateArgsE lk isReg as = .ok ⟨false, none⟩ as) := by
  apply Arg.ind2
  case const => intro v _; rfl
  case ident => intro s h; simp only [NF] at h; simp [evaluateE, h]
  case str => intro v _; rfl
  case bin =>
    intro op l r ihl ihr h
    simp only [NF] at h
    simp only [evaluateE, ihl h.1, ihr h.2.1, afterRawE, simplifyRawE_of_ok h.2.2]
    rfl
  case neg =>
    intro v ih h
    simp only [NF] at h
    simp only [evaluateE, ih h.1, afterRawE, simplifyRawE_of_ok h.2]
    rfl
  case not =>
    intro v ih h
    simp only [NF] at h
    simp only [evaluateE, ih h.1, afterRawE, simplifyRawE_of_ok h.2]
    rfl
  case addr =>
    intro v ih h
    simp only [NF] at h
    simp only [evaluateE, ih h.1, afterRawE, simplifyRawE_of_ok h.2]
    rfl
  case seq => intro as ih h; simp only [NF] at h; simp only [evaluateE, ih h]
  case func => intro n as ih h; simp only [NF] at h; simp only [evaluateE, ih h]
  case nil => intro _; rfl
  case cons =>
    intro a as iha ihas h
    simp only [NFs] at h
    simp only [evaluateArgsE, iha h.1, ihas h.2]
    rfl

theorem NF_stable {a : Arg} (h : NF isReg a) (lk : Bytes → Lookup) : evaluateE lk isReg a = .ok ⟨false, none⟩ a :=
  (NF_stable_both lk).1 a h

end

end Trion.Simp
