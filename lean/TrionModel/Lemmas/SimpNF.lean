import TrionModel.Lemmas.SimpE
import TrionModel.Lemmas.SimpInv
/-!
# Normal forms: every complete result of `evaluate` is a fixed point of `evaluate`

`NF a`: every node `N` of `a` is a LOCAL fixed point of `simplify_raw` (`simplify_raw N = Ok(false)` and `N` unchanged)
and every identifier is a register.  Then

* `NF_stable`: an `NF` tree is a fixed point of `evaluate` over every table;
* `simplifyRaw_NF`: `simplify_raw` of a node with `NF` children yields an `NF` tree — through the direct fold, the modulo
  collapse, `neutralize_raw` (`neutralizeRaw_NF`) and the merge (`setC` / `dropC` followed by the deep `neutralize`:
  `setC_neutralize_NF`, `dropC_neutralize_NF`);
* `evaluateE_NF`: a complete result of `evaluate` (no `Deferred` cause) is `NF`.

This needs the repair of K5 (`neutralize_raw` swaps `-(l - r)` and `0 - (l - r)` to `r - l`): before it `-(l - r)` was a
result of `neutralize_raw` and not a fixed point of `simplify_raw`.
-/
namespace Trion.Simp
open Trion

section
variable (isReg : Bytes → Bool)

mutual
/-- hereditarily a local fixed point of `simplify_raw`, all identifiers registers -/
def NF : Arg → Prop
  | .const _ => True
  | .ident s => isReg s = true
  | .str _ => True
  | .bin op l r => NF l ∧ NF r ∧ simplifyRaw (.bin op l r) = .ok (false, .bin op l r)
  | .neg v => NF v ∧ simplifyRaw (.neg v) = .ok (false, .neg v)
  | .not v => NF v ∧ simplifyRaw (.not v) = .ok (false, .not v)
  | .addr v => NF v ∧ simplifyRaw (.addr v) = .ok (false, .addr v)
  | .seq as => NFs as
  | .func _ as => NFs as
def NFs : Args → Prop
  | .nil => True
  | .cons a as => NF a ∧ NFs as
end

end

/-! ## what a local fixed point says -/

/-- does the operand contribute a constant to an `op` chain -/
def fnd (op : BinOp) (t : Arg) : Bool := isC t || (findC op t false).isFound

theorem mergeL_isFound (op : BinOp) (l : Arg) : (mergeL op l).isFound = fnd op l := by
  unfold mergeL fnd
  cases hl : cval l with
  | some c => simp [isC, hl, Find.isFound]
  | none => simp [isC, hl]

theorem mergeR_isFound (op : BinOp) (r : Arg) (hd : op ≠ .div) : (mergeR op r).isFound = fnd op r := by
  unfold mergeR fnd
  cases hr : cval r with
  | some c => simp [isC, hr, Find.isFound]
  | none =>
    have : (op == BinOp.div) = false := by cases op <;> simp_all
    simp [isC, hr, this, findC_isFound_inv]

theorem mergeR_div_isFound (r : Arg) : (mergeR .div r).isFound = isC r := by
  unfold mergeR
  cases hr : cval r with
  | some c => simp [isC, hr, Find.isFound]
  | none => simp [isC, hr, Find.isFound]

/-- the operators whose binary nodes go through the merge -/
def mergeable : BinOp → Bool
  | .mod | .shl | .shr => false
  | _ => true

/-- both operands contribute a constant: the merge fires -/
def bothFound (op : BinOp) (l r : Arg) : Bool := (mergeL op l).isFound && (mergeR op r).isFound

theorem merge_false {op : BinOp} {l r : Arg} {a : Arg} (h : merge op l r = .ok (false, a)) :
    bothFound op l r = false ∧ neutralizeRaw (.bin op l r) = .ok (false, a) := by
  unfold merge at h
  unfold bothFound
  cases hL : mergeL op l with
  | panic => simp [hL] at h
  | none =>
    cases hR : mergeR op r with
    | panic => simp [hL, hR] at h
    | none => simp only [hL, hR] at h; exact ⟨by simp [Find.isFound], h⟩
    | found c2 s2 => simp only [hL, hR] at h; exact ⟨by simp [Find.isFound], h⟩
  | found c1 s1 =>
    cases hR : mergeR op r with
    | panic => simp [hL, hR] at h
    | none => simp only [hL, hR] at h; exact ⟨by simp [Find.isFound], h⟩
    | found c2 s2 =>
      simp only [hL, hR] at h
      cases hc : combine op s1 s2 c1 c2 with
      | error k => simp [hc] at h
      | ok cc =>
        simp only [hc] at h
        cases hn : neutralize (mergeTree op l r cc) with
        | panic => simp [hn] at h
        | err e => simp [hn] at h
        | ok p => simp [hn] at h

theorem merge_of_not_both {op : BinOp} {l r : Arg} (h : bothFound op l r = false)
    (hl : mergeL op l ≠ .panic) (hr : mergeR op r ≠ .panic) : merge op l r = neutralizeRaw (.bin op l r) := by
  unfold merge
  unfold bothFound at h
  cases hL : mergeL op l with
  | panic => exact absurd hL hl
  | none =>
    cases hR : mergeR op r with
    | panic => exact absurd hR hr
    | none => rfl
    | found c2 s2 => rfl
  | found c1 s1 =>
    cases hR : mergeR op r with
    | panic => exact absurd hR hr
    | none => rfl
    | found c2 s2 => simp [hL, hR, Find.isFound] at h

/-- what `simplify_raw N = Ok(false), N` says about a binary node -/
theorem lfix_bin {op : BinOp} {l r : Arg} (h : simplifyRaw (.bin op l r) = .ok (false, .bin op l r)) :
    isBad l = false ∧ isBad r = false ∧ ¬ (isC l = true ∧ isC r = true) ∧
    neutralizeRaw (.bin op l r) = .ok (false, .bin op l r) ∧
    (mergeable op = true → bothFound op l r = false) ∧
    (op = .mod → modCollapse l r = false) := by
  by_cases hlr : isC l = true ∧ isC r = true
  · obtain ⟨h1, h2⟩ := hlr
    cases l <;> simp [isC, cval] at h1
    cases r <;> simp [isC, cval] at h2
    rename_i x y
    simp only [simplifyRaw, isBad, cval] at h
    cases hf : foldBin op x y with
    | error k => simp [hf] at h
    | ok w => simp [hf] at h
  · rw [simplifyRaw_bin_rest op l r hlr] at h
    cases h1 : isBad l with
    | true => simp [h1] at h
    | false =>
      cases h2 : isBad r with
      | true => simp [h1, h2] at h
      | false =>
        simp only [h1, h2, Bool.false_eq_true, if_false] at h
        refine ⟨rfl, rfl, hlr, ?_⟩
        cases op
        case mod =>
          simp only at h
          by_cases hm : modCollapse l r = true
          · simp [hm] at h
          · simp only [hm, if_false] at h
            exact ⟨h, fun hx => by simp [mergeable] at hx, fun _ => by simpa using hm⟩
        case shl => exact ⟨h, fun hx => by simp [mergeable] at hx, fun hx => by cases hx⟩
        case shr => exact ⟨h, fun hx => by simp [mergeable] at hx, fun hx => by cases hx⟩
        all_goals
          simp only at h
          have := merge_false h
          exact ⟨this.2, fun _ => this.1, fun hx => by cases hx⟩

/-- … and conversely -/
theorem lfix_bin_intro {op : BinOp} {l r : Arg} (h1 : isBad l = false) (h2 : isBad r = false)
    (hlr : ¬ (isC l = true ∧ isC r = true)) (hn : neutralizeRaw (.bin op l r) = .ok (false, .bin op l r))
    (hb : mergeable op = true → bothFound op l r = false) (hm : op = .mod → modCollapse l r = false)
    (hpl : mergeL op l ≠ .panic) (hpr : mergeR op r ≠ .panic) :
    simplifyRaw (.bin op l r) = .ok (false, .bin op l r) := by
  rw [simplifyRaw_bin_rest op l r hlr]
  simp only [h1, h2, Bool.false_eq_true, if_false]
  cases op
  case mod => simp only [hm rfl, Bool.false_eq_true, if_false]; exact hn
  case shl => exact hn
  case shr => exact hn
  all_goals
    simp only
    rw [merge_of_not_both (hb rfl) hpl hpr]
    exact hn

theorem lfix_neg {v : Arg} (h : simplifyRaw (.neg v) = .ok (false, .neg v)) :
    isBad v = false ∧ isC v = false ∧ (∀ x y, v ≠ .bin .sub x y) ∧ (∀ w, v ≠ .neg w) := by
  cases v with
  | bin op x y =>
    cases op
    case sub =>
      rw [simplifyRaw_neg_sub] at h
      cases hn : neutralizeRaw (.bin .sub y x) with
      | ok p => simp [hn] at h
      | err e => simp [hn] at h
      | panic => simp [hn] at h
    all_goals exact ⟨rfl, rfl, fun x y hxy => (by cases hxy), fun w hw => (by cases hw)⟩
  | const c =>
    simp only [simplifyRaw] at h
    split at h <;> simp at h
  | str s => simp [simplifyRaw] at h
  | addr s => simp [simplifyRaw] at h
  | seq s => simp [simplifyRaw] at h
  | ident s => exact ⟨rfl, rfl, fun x y hxy => (by cases hxy), fun w hw => (by cases hw)⟩
  | neg s =>
    rw [simplifyRaw_neg_neg] at h
    cases hn : neutralizeRaw (.neg (.neg s)) with
    | ok p => simp [hn] at h
    | err e => simp [hn] at h
    | panic => simp [hn] at h
  | not s => exact ⟨rfl, rfl, fun x y hxy => (by cases hxy), fun w hw => (by cases hw)⟩
  | func n s => exact ⟨rfl, rfl, fun x y hxy => (by cases hxy), fun w hw => (by cases hw)⟩

theorem lfix_neg_intro {v : Arg} (h1 : isBad v = false) (h2 : isC v = false) (h3 : ∀ x y, v ≠ .bin .sub x y)
    (h4 : ∀ w, v ≠ .neg w) : simplifyRaw (.neg v) = .ok (false, .neg v) := by
  cases v with
  | bin op x y =>
    cases op
    case sub => exact absurd rfl (h3 x y)
    all_goals rfl
  | const c => simp [isC, cval] at h2
  | str s => simp [isBad] at h1
  | addr s => simp [isBad] at h1
  | seq s => simp [isBad] at h1
  | ident s => rfl
  | neg s => exact absurd rfl (h4 s)
  | not s => rfl
  | func n s => rfl

/-! ## `NF` trees: `nb`, fixed points of the deep `neutralize` and of `evaluate` -/

section
variable {isReg : Bytes → Bool}

theorem NF_nb_both : (∀ a, NF isReg a → nb a = true) ∧ (∀ as, NFs isReg as → nbs as = true) := by
  apply Arg.ind2
  case const => intro v _; rfl
  case ident => intro v _; rfl
  case str => intro v _; rfl
  case bin =>
    intro op l r ihl ihr h
    simp only [NF] at h
    exact nb_bin.2 ⟨ihl h.1, ihr h.2.1, (lfix_bin h.2.2).2.2.1⟩
  case neg =>
    intro v ih h
    simp only [NF] at h
    exact nb_neg.2 ⟨ih h.1, (lfix_neg h.2).2.1⟩
  case not => intro v ih h; simp only [NF] at h; simpa [nb] using ih h.1
  case addr => intro v ih h; simp only [NF] at h; simpa [nb] using ih h.1
  case seq => intro as ih h; simp only [NF] at h; simpa [nb] using ih h
  case func => intro n as ih h; simp only [NF] at h; simpa [nb] using ih h
  case nil => intro _; rfl
  case cons => intro a as iha ihas h; simp only [NFs] at h; simp [nbs, iha h.1, ihas h.2]

theorem NF_nb {a : Arg} (h : NF isReg a) : nb a = true := NF_nb_both.1 a h

/-- the deep `neutralize` leaves an `NF` tree alone -/
theorem NF_neutralize_both :
    (∀ a, NF isReg a → neutralize a = .ok (false, a)) ∧ (∀ as, NFs isReg as → neutralizeArgs as = .ok (false, as)) := by
  apply Arg.ind2
  case const => intro v _; rfl
  case ident => intro v _; rfl
  case str => intro v _; rfl
  case bin =>
    intro op l r ihl ihr h
    simp only [NF] at h
    simp only [neutralize, ihl h.1, ihr h.2.1, (lfix_bin h.2.2).2.2.2.1, Bool.or_self]
  case neg =>
    intro v ih h
    simp only [NF] at h
    have hv := (lfix_neg h.2).2.2
    have : neutralizeRaw (.neg v) = .ok (false, .neg v) := by
      rcases neutralizeRaw_neg_cases v with h0 | ⟨x, y, rfl, _⟩ | ⟨w, rfl, _⟩
      · exact h0
      · exact absurd rfl (hv.1 x y)
      · exact absurd rfl (hv.2 w)
    simp only [neutralize, ih h.1, this, Bool.or_self]
  case not => intro v ih h; simp only [NF] at h; simp only [neutralize, ih h.1]
  case addr => intro v ih h; simp only [NF] at h; simp only [neutralize, ih h.1]
  case seq => intro as ih h; simp only [NF] at h; simp only [neutralize, ih h]
  case func => intro n as ih h; simp only [NF] at h; simp only [neutralize, ih h]
  case nil => intro _; rfl
  case cons =>
    intro a as iha ihas h
    simp only [NFs] at h
    simp only [neutralizeArgs, iha h.1, ihas h.2, Bool.or_self]

theorem NF_neutralize {a : Arg} (h : NF isReg a) : neutralize a = .ok (false, a) := NF_neutralize_both.1 a h

theorem simplifyRawE_of_ok {x : Arg} {p : Bool × Arg} (h : simplifyRaw x = .ok p) : simplifyRawE x = .ok p := by
  have hp := simplifyRawE_proj x
  rw [h] at hp
  cases hs : simplifyRawE x with
  | ok q => rw [hs] at hp; simp only [ResE.toRes, Res.ok.injEq] at hp; rw [hp]
  | err e t => rw [hs] at hp; cases hp
  | panic => rw [hs] at hp; cases hp

theorem simplifyRaw_of_okE {x : Arg} {p : Bool × Arg} (h : simplifyRawE x = .ok p) : simplifyRaw x = .ok p := by
  have hp := simplifyRawE_proj x
  rw [h] at hp
  exact hp.symm

/-- **an `NF` tree is a fixed point of `evaluate`**, over every table -/
theorem NF_stable_both (lk : Bytes → Lookup) :
    (∀ a, NF isReg a → evaluateE lk isReg a = .ok ⟨false, none⟩ a) ∧
    (∀ as, NFs isReg as → evaluateArgsE lk isReg as = .ok ⟨false, none⟩ as) := by
  apply Arg.ind2
  case const => intro v _; rfl
  case ident => intro s h; simp only [NF] at h; simp [evaluateE, h]
  case str => intro v _; rfl
  case bin =>
    intro op l r ihl ihr h
    simp only [NF] at h
    simp only [evaluateE, ihl h.1, ihr h.2.1, afterRawE, simplifyRawE_of_ok h.2.2]
    rfl
  case neg =>
    intro v ih h
    simp only [NF] at h
    simp only [evaluateE, ih h.1, afterRawE, simplifyRawE_of_ok h.2]
    rfl
  case not =>
    intro v ih h
    simp only [NF] at h
    simp only [evaluateE, ih h.1, afterRawE, simplifyRawE_of_ok h.2]
    rfl
  case addr =>
    intro v ih h
    simp only [NF] at h
    simp only [evaluateE, ih h.1, afterRawE, simplifyRawE_of_ok h.2]
    rfl
  case seq => intro as ih h; simp only [NF] at h; simp only [evaluateE, ih h]
  case func => intro n as ih h; simp only [NF] at h; simp only [evaluateE, ih h]
  case nil => intro _; rfl
  case cons =>
    intro a as iha ihas h
    simp only [NFs] at h
    simp only [evaluateArgsE, iha h.1, ihas h.2]
    rfl

theorem NF_stable {a : Arg} (h : NF isReg a) (lk : Bytes → Lookup) : evaluateE lk isReg a = .ok ⟨false, none⟩ a :=
  (NF_stable_both lk).1 a h

end

/-! ## the strip loop and the sign normalisation on an `NF` operand -/

theorem findC_add_sub (t : Arg) (i : Bool) : findC .add t i = findC .sub t i := by
  induction t using Arg.ind generalizing i with
  | bin op l r ihl ihr =>
    simp only [findC]
    have : sameFam .add op = sameFam .sub op := by cases op <;> rfl
    rw [this]
    split
    · split
      · split
        · rfl
        · rfl
        · rfl
        · rw [ihl, ihr]
      · rfl
    · rfl
  | neg v ih => simp only [findC, isAddSub]; exact ih _
  | _ => rfl

theorem fnd_add_sub (t : Arg) : fnd .add t = fnd .sub t := by
  unfold fnd; rw [findC_add_sub]

def additive (op : BinOp) : Prop := op = .add ∨ op = .sub

theorem fnd_additive {op op' : BinOp} (h : additive op) (h' : additive op') (t : Arg) : fnd op t = fnd op' t := by
  rcases h with rfl | rfl <;> rcases h' with rfl | rfl <;> first | rfl | exact fnd_add_sub t | exact (fnd_add_sub t).symm

theorem fnd_neg {op : BinOp} (h : additive op) {n : Arg} (hn : isC n = false) : fnd op (.neg n) = fnd op n := by
  have hi : isAddSub op = true := by rcases h with rfl | rfl <;> rfl
  unfold fnd
  simp only [isC_neg, Bool.false_or, hn, findC, hi, if_true]
  rw [findC_isFound_inv]

theorem stripNeg_not_neg {r : Arg} (h : ∀ n, r ≠ .neg n) (b : Bool) : stripNeg b r = (b, r, false) := by
  cases r with
  | neg n => exact absurd rfl (h n)
  | _ => rfl

section
variable {isReg : Bytes → Bool}

theorem NF_neg_inv {n : Arg} (h : NF isReg (.neg n)) :
    NF isReg n ∧ isBad n = false ∧ isC n = false ∧ (∀ x y, n ≠ .bin .sub x y) ∧ (∀ w, n ≠ .neg w) := by
  simp only [NF] at h
  exact ⟨h.1, lfix_neg h.2⟩

/-- the strip loop on an `NF` operand -/
theorem stripNeg_NF (r : Arg) (hr : NF isReg r) (b : Bool) :
    NF isReg (stripNeg b r).2.1 ∧ (∀ n, (stripNeg b r).2.1 ≠ .neg n) ∧ isC (stripNeg b r).2.1 = isC r ∧
    (∀ x y, (stripNeg b r).2.1 = .bin .sub x y → r = .bin .sub x y ∧ (stripNeg b r).1 = b) ∧
    (∀ op, additive op → fnd op (stripNeg b r).2.1 = fnd op r) := by
  induction r using Arg.ind generalizing b with
  | neg n ih =>
    obtain ⟨hn, _, hc, hs, hs2⟩ := NF_neg_inv hr
    clear hs2
    obtain ⟨i1, i2, i3, i4, i5⟩ := ih hn (!b)
    simp only [stripNeg]
    refine ⟨i1, i2, by rw [i3, hc]; rfl, fun x y hxy => ?_, fun op hop => (by rw [i5 op hop, fnd_neg hop hc])⟩
    exact absurd (i4 x y hxy).1 (hs x y)
  | _ => exact ⟨hr, fun n h => (by cases h), rfl, fun x y h => ⟨h, rfl⟩, fun _ _ => rfl⟩

/-- the add/sub normalisation on an `NF` operand -/
theorem normAddSub_NF {s : Bool} {r : Arg} (hr : NF isReg r) {ch s' : Bool} {r' : Arg}
    (he : normAddSub s r = .ok (ch, s', r')) :
    NF isReg r' ∧ (∀ n, r' ≠ .neg n) ∧ (∀ v, cval r' = some v → ¬ v < 0) ∧ isC r' = isC r ∧
    (∀ x y, r' = .bin .sub x y → r = .bin .sub x y ∧ s' = s) ∧
    (∀ op, additive op → fnd op r' = fnd op r) := by
  unfold normAddSub at he
  obtain ⟨i1, i2, i3, i4, i5⟩ := stripNeg_NF r hr s
  cases hc : cval (stripNeg s r).2.1 with
  | none =>
    simp only [hc, Res.ok.injEq, Prod.mk.injEq] at he
    obtain ⟨_, rfl, rfl⟩ := he
    exact ⟨i1, i2, fun v hv => (by rw [hc] at hv; cases hv), i3, fun x y h => i4 x y h, i5⟩
  | some v =>
    simp only [hc] at he
    by_cases hv : v < 0
    · simp only [hv, if_true] at he
      cases hn : checkedNeg v with
      | none => simp [hn] at he
      | some nv =>
        simp only [hn, Res.ok.injEq, Prod.mk.injEq] at he
        obtain ⟨_, _, rfl⟩ := he
        have hnv : nv = -v := by
          unfold checkedNeg checked at hn
          split at hn <;> simp at hn; exact hn.symm
        have hcs : isC (stripNeg s r).2.1 = true := cval_some_isC hc
        refine ⟨trivial, fun n h => (by cases h), fun w hw => ?_, by rw [← i3, hcs]; rfl, fun x y h => (by cases h),
          fun op hop => ?_⟩
        · simp only [cval, Option.some.injEq] at hw; omega
        · rw [← i5 op hop]
          unfold fnd
          simp [hcs]
    · simp only [hv, if_false, Res.ok.injEq, Prod.mk.injEq] at he
      obtain ⟨_, rfl, rfl⟩ := he
      exact ⟨i1, i2, fun w hw => (by rw [hc] at hw; cases hw; exact hv), i3, fun x y h => i4 x y h, i5⟩

/-- the normalisation is idempotent -/
theorem normAddSub_fix {s : Bool} {r : Arg} (h1 : ∀ n, r ≠ .neg n) (h2 : ∀ v, cval r = some v → ¬ v < 0) :
    normAddSub s r = .ok (false, s, r) := by
  unfold normAddSub
  rw [stripNeg_not_neg h1]
  cases hc : cval r with
  | none => simp only [hc]
  | some v => simp only [hc, if_neg (h2 v hc)]

end

/-! ## `neutralize_raw` on a node with `NF` operands where no merge is possible -/

section
variable {isReg : Bytes → Bool}

theorem neutralTail_ok {ch : Bool} {op : BinOp} {l r : Arg} {c : Bool} {a' : Arg}
    (he : neutralTail ch op l r = .ok (c, a')) :
    isBad l = false ∧ isBad r = false ∧ c = ch ∧ a' = neutralMain op l r := by
  unfold neutralTail at he
  cases h1 : isBad l with
  | true => simp [h1] at he
  | false =>
    cases h2 : isBad r with
    | true => simp [h1, h2] at he
    | false =>
      simp only [h1, h2, Bool.false_eq_true, if_false, Res.ok.injEq, Prod.mk.injEq] at he
      exact ⟨rfl, rfl, he.1.symm, he.2.symm⟩

theorem neutralTail_intro {ch : Bool} {op : BinOp} {l r : Arg} (h1 : isBad l = false) (h2 : isBad r = false) :
    neutralTail ch op l r = .ok (ch, neutralMain op l r) := by
  unfold neutralTail
  simp [h1, h2]

theorem opOf_additive {op : BinOp} (h : additive op) : (if decide (op = .sub) = true then BinOp.sub else BinOp.add) = op := by
  rcases h with rfl | rfl <;> rfl

/-- a binary node on which every pass of `simplify_raw` is the identity is `NF` -/
theorem NF_bin_intro {op : BinOp} {l r : Arg} (hl : NF isReg l) (hr : NF isReg r) (h1 : isBad l = false)
    (h2 : isBad r = false) (hlr : ¬ (isC l = true ∧ isC r = true))
    (hstr : additive op → (∀ n, r ≠ .neg n) ∧ (∀ v, cval r = some v → ¬ v < 0))
    (hmain : neutralMain op l r = .bin op l r)
    (hb : mergeable op = true → bothFound op l r = false) (hm : op = .mod → modCollapse l r = false) :
    NF isReg (.bin op l r) := by
  simp only [NF]
  refine ⟨hl, hr, lfix_bin_intro h1 h2 hlr ?_ hb hm (mergeL_ne_panic op l (NF_nb hl)) (mergeR_ne_panic op r (NF_nb hr))⟩
  have hbin : neutralizeRaw (.bin op l r) = neutralizeBin op l r := by
    rcases neutralizeRaw_bin_cases op l r with h0 | ⟨x, y, rfl, rfl, rfl, _⟩
    · exact h0
    · simp [neutralMain, cval, neutralL] at hmain
  rw [hbin]
  by_cases hop : op = .add ∨ op = .sub
  · obtain ⟨s1, s2⟩ := hstr hop
    simp only [neutralizeBin, hop, if_true, normAddSub_fix s1 s2, opOf_additive hop]
    rw [neutralTail_intro h1 h2, hmain]
  · simp only [neutralizeBin, hop, if_false]
    rw [neutralTail_intro h1 h2, hmain]

theorem bothFound_eq (op : BinOp) (l r : Arg) (hd : op ≠ .div) : bothFound op l r = (fnd op l && fnd op r) := by
  unfold bothFound
  rw [mergeL_isFound, mergeR_isFound op r hd]

theorem additive_mergeable {op : BinOp} (h : additive op) : mergeable op = true := by
  rcases h with rfl | rfl <;> rfl

theorem additive_ne_div {op : BinOp} (h : additive op) : op ≠ .div := by
  rcases h with rfl | rfl <;> intro h <;> cases h

/-- **the passes of `neutralize_raw` on `NF` operands that cannot be merged yield an `NF` tree** -/
theorem neutralizeBin_NF {op : BinOp} {l r : Arg} (hl : NF isReg l) (hr : NF isReg r)
    (hlr : ¬ (isC l = true ∧ isC r = true))
    (hb : mergeable op = true → bothFound op l r = false) (hm : op = .mod → modCollapse l r = false)
    (h0 : l = .const 0 → op = .sub → ∀ x y, r ≠ .bin .sub x y)
    {c : Bool} {a' : Arg} (he : neutralizeBin op l r = .ok (c, a')) : NF isReg a' ∧ isBad a' = false := by
  have key : ∃ op' r', NF isReg r' ∧ isBad l = false ∧ isBad r' = false ∧ a' = neutralMain op' l r' ∧ isC r' = isC r ∧
      (additive op' → (∀ n, r' ≠ .neg n) ∧ (∀ v, cval r' = some v → ¬ v < 0)) ∧
      (mergeable op' = true → bothFound op' l r' = false) ∧ (op' = .mod → modCollapse l r' = false) ∧
      (l = .const 0 → op' = .sub → ∀ x y, r' ≠ .bin .sub x y) := by
    by_cases hop : op = .add ∨ op = .sub
    · simp only [neutralizeBin, hop, if_true] at he
      cases hn : normAddSub (decide (op = .sub)) r with
      | err e => simp [hn] at he
      | panic => simp [hn] at he
      | ok p =>
        obtain ⟨ch, s', r'⟩ := p
        simp only [hn] at he
        obtain ⟨t1, t2, _, t4⟩ := neutralTail_ok he
        obtain ⟨n1, n2, n3, n4, n5, n6⟩ := normAddSub_NF hr hn
        have hop' : additive (if s' = true then BinOp.sub else BinOp.add) := by
          cases s' <;> simp [additive]
        refine ⟨_, r', n1, t1, t2, t4, n4, fun _ => ⟨n2, n3⟩, fun _ => ?_, fun hx => ?_, fun hl0 hs x y hxy => ?_⟩
        · have h1 := hb (additive_mergeable hop)
          rw [bothFound_eq _ _ _ (additive_ne_div hop)] at h1
          rw [bothFound_eq _ _ _ (additive_ne_div hop'), fnd_additive hop' hop l, n6 _ hop', fnd_additive hop' hop r]
          exact h1
        · cases s' <;> simp at hx
        · obtain ⟨g1, g2⟩ := n5 x y hxy
          have hs' : s' = true := by
            cases s'
            · simp at hs
            · rfl
          rw [hs'] at g2
          have : op = .sub := by simpa using g2.symm
          exact h0 hl0 this x y g1
    · simp only [neutralizeBin, hop, if_false] at he
      obtain ⟨t1, t2, _, t4⟩ := neutralTail_ok he
      exact ⟨op, r, hr, t1, t2, t4, rfl, fun h => absurd h hop, hb, hm, h0⟩
  obtain ⟨op', r', hr', b1, b2, ha, hcr, hstr, hb', hm', h0'⟩ := key
  have hlr' : ¬ (isC l = true ∧ isC r' = true) := by rw [hcr]; exact hlr
  subst ha
  cases hcl : cval l with
  | some v =>
    have hlc := cval_some_eq hcl
    have hcr' : isC r' = false := by
      cases hx : isC r'
      · rfl
      · exact (hlr' ⟨cval_some_isC hcl, hx⟩).elim
    by_cases hn1 : some v = neutralL op'
    · have : neutralMain op' l r' = r' := by unfold neutralMain; simp only [hcl]; rw [if_pos hn1]
      rw [this]; exact ⟨hr', b2⟩
    · by_cases hn2 : op' = .sub ∧ v = 0
      · have : neutralMain op' l r' = .neg r' := by unfold neutralMain; simp only [hcl]; rw [if_neg hn1, if_pos hn2]
        rw [this]
        refine ⟨?_, rfl⟩
        simp only [NF]
        exact ⟨hr', lfix_neg_intro b2 hcr' (h0' (by rw [hlc, hn2.2]) hn2.1) (hstr (.inr hn2.1)).1⟩
      · have hmain : neutralMain op' l r' = .bin op' l r' := by
          unfold neutralMain; simp only [hcl, hn1, if_false, hn2]
        rw [hmain]
        exact ⟨NF_bin_intro hl hr' b1 b2 hlr' hstr hmain hb' hm', rfl⟩
  | none =>
    cases hcr2 : cval r' with
    | some v =>
      by_cases hn1 : some v = neutralR op'
      · have : neutralMain op' l r' = l := by unfold neutralMain; simp only [hcl, hcr2]; rw [if_pos hn1]
        rw [this]; exact ⟨hl, b1⟩
      · have hmain : neutralMain op' l r' = .bin op' l r' := by
          unfold neutralMain; simp only [hcl, hcr2, hn1, if_false]
        rw [hmain]
        exact ⟨NF_bin_intro hl hr' b1 b2 hlr' hstr hmain hb' hm', rfl⟩
    | none =>
      have hmain : neutralMain op' l r' = .bin op' l r' := by
        unfold neutralMain; simp only [hcl, hcr2]
      rw [hmain]
      exact ⟨NF_bin_intro hl hr' b1 b2 hlr' hstr hmain hb' hm', rfl⟩

end

/-! ## `neutralize_raw` itself (with the swap) -/

theorem fnd_bin_false {ty op : BinOp} {x y : Arg} (hch : chainOp op = true) (hsf : sameFam ty op = true)
    (hxy : ¬ (isC x = true ∧ isC y = true)) (hnx : nb x = true) (h : fnd ty (.bin op x y) = false) :
    fnd ty x = false ∧ fnd ty y = false := by
  unfold fnd at h ⊢
  simp only [isC_bin, Bool.false_or, findC, hch, hsf, if_true] at h
  cases hx : cval x with
  | some a =>
    cases hy : cval y with
    | some b => exact (hxy ⟨cval_some_isC hx, cval_some_isC hy⟩).elim
    | none => simp [hx, hy, Find.isFound] at h
  | none =>
    cases hy : cval y with
    | some b => simp [hx, hy, Find.isFound] at h
    | none =>
      simp only [hx, hy] at h
      have hx' : isC x = false := cval_none_iff.1 hx
      have hy' : isC y = false := cval_none_iff.1 hy
      simp only [hx', hy', Bool.false_or]
      cases hf : findC ty x false with
      | found c s => simp [hf, Find.isFound] at h
      | panic => exact absurd hf (findC_ne_panic ty x hnx false)
      | none =>
        simp only [hf] at h
        rw [findC_isFound_inv] at h
        exact ⟨by simp [Find.isFound], h⟩

theorem fnd_bin_intro {ty op : BinOp} {x y : Arg} (hx : fnd ty x = false) (hy : fnd ty y = false) :
    fnd ty (.bin op x y) = false := by
  unfold fnd at hx hy ⊢
  simp only [Bool.or_eq_false_iff] at hx hy
  have cx : cval x = none := cval_none_iff.2 hx.1
  have cy : cval y = none := cval_none_iff.2 hy.1
  have hx2 : findC ty x false = .none ∨ findC ty x false = .panic := by
    cases hf : findC ty x false with
    | found c s => rw [hf] at hx; simp [Find.isFound] at hx
    | none => exact .inl rfl
    | panic => exact .inr rfl
  simp only [isC_bin, Bool.false_or, findC, cx, cy]
  split
  · split
    · rcases hx2 with h | h
      · rw [h]; simp only; rw [findC_isFound_inv]; exact hy.2
      · rw [h]; rfl
    · rfl
  · split
    · split
      · exact hx.2
      · rfl
    · rfl

section
variable {isReg : Bytes → Bool}

theorem NF_bin_inv {op : BinOp} {l r : Arg} (h : NF isReg (.bin op l r)) :
    NF isReg l ∧ NF isReg r ∧ simplifyRaw (.bin op l r) = .ok (false, .bin op l r) := by
  simpa only [NF] using h

theorem ne_bin_self (op : BinOp) (x y : Arg) : x ≠ .bin op x y := by
  intro h
  have := congrArg sizeOf h
  simp at this
  omega

/-- an `NF` difference does not subtract `0` -/
theorem NF_sub_rhs {x y : Arg} (h : NF isReg (.bin .sub x y)) : y ≠ .const 0 := by
  rintro rfl
  obtain ⟨hx, _, hf⟩ := NF_bin_inv h
  obtain ⟨b1, _, hlr, hn, _, _⟩ := lfix_bin hf
  have hcx : cval x = none := by
    cases hc : cval x with
    | none => rfl
    | some v => exact (hlr ⟨cval_some_isC hc, rfl⟩).elim
  have hbin : neutralizeRaw (.bin .sub x (.const 0)) = neutralizeBin .sub x (.const 0) := by
    rcases neutralizeRaw_bin_cases .sub x (.const 0) with h0 | ⟨_, _, _, _, hh, _⟩
    · exact h0
    · cases hh
  rw [hbin] at hn
  have e : neutralizeBin .sub x (.const 0) = .ok (false, x) := by
    have hnorm : normAddSub (decide True) (.const 0) = .ok (false, true, .const 0) := by
      show normAddSub true (.const 0) = _
      exact normAddSub_fix (fun n h => by cases h) (fun v hv => by simp only [cval, Option.some.injEq] at hv; omega)
    simp only [neutralizeBin, or_true, if_true, hnorm]
    rw [neutralTail_intro b1 (show isBad (Arg.const 0) = false from rfl)]
    unfold neutralMain
    simp only [hcx]
    simp [cval, neutralR]
  rw [e] at hn
  simp only [Res.ok.injEq, Prod.mk.injEq, true_and] at hn
  exact ne_bin_self _ _ _ hn

theorem bothFound_sub_comm {x y : Arg} : bothFound .sub y x = bothFound .sub x y := by
  rw [bothFound_eq _ _ _ (by intro h; cases h), bothFound_eq _ _ _ (by intro h; cases h), Bool.and_comm]

/-- the swapped difference of an `NF` difference -/
theorem neutralizeBin_swap_NF {x y : Arg} (h : NF isReg (.bin .sub x y)) {c : Bool} {a' : Arg}
    (he : neutralizeBin .sub y x = .ok (c, a')) : NF isReg a' ∧ isBad a' = false := by
  obtain ⟨hx, hy, hf⟩ := NF_bin_inv h
  obtain ⟨_, _, hlr, _, hb, _⟩ := lfix_bin hf
  refine neutralizeBin_NF hy hx (fun ⟨p, q⟩ => hlr ⟨q, p⟩) (fun _ => ?_) (fun hx => by cases hx) (fun hy0 _ => ?_) he
  · rw [bothFound_sub_comm]; exact hb rfl
  · exact absurd hy0 (NF_sub_rhs h)

/-- **`neutralize_raw` on a binary node with `NF` operands that cannot be merged yields an `NF` tree** -/
theorem neutralizeRaw_bin_NF {op : BinOp} {l r : Arg} (hl : NF isReg l) (hr : NF isReg r)
    (hlr : ¬ (isC l = true ∧ isC r = true))
    (hb : mergeable op = true → bothFound op l r = false) (hm : op = .mod → modCollapse l r = false)
    {c : Bool} {a' : Arg} (he : neutralizeRaw (.bin op l r) = .ok (c, a')) : NF isReg a' ∧ isBad a' = false := by
  by_cases h2 : op = .sub ∧ l = .const 0 ∧ ∃ x y, r = .bin .sub x y
  · obtain ⟨rfl, rfl, x, y, rfl⟩ := h2
    rw [neutralizeRaw_zero_sub] at he
    obtain ⟨_, c', he'⟩ := swapped_ok he
    exact neutralizeBin_swap_NF hr he'
  · rcases neutralizeRaw_bin_cases op l r with h0 | ⟨x, y, h3, h4, h5, _⟩
    · rw [h0] at he
      exact neutralizeBin_NF hl hr hlr hb hm (fun e1 e2 x y e3 => h2 ⟨e2, e1, x, y, e3⟩) he
    · exact absurd ⟨h3, h4, x, y, h5⟩ h2

/-- `neutralize_raw` leaves an `NF` tree alone -/
theorem NF_neutralizeRaw {a : Arg} (h : NF isReg a) : neutralizeRaw a = .ok (false, a) := by
  cases a with
  | bin op l r => exact (lfix_bin (NF_bin_inv h).2.2).2.2.2.1
  | neg v =>
    obtain ⟨_, _, _, h3, h4⟩ := NF_neg_inv h
    rcases neutralizeRaw_neg_cases v with h0 | ⟨x, y, rfl, _⟩ | ⟨w, rfl, _⟩
    · exact h0
    · exact absurd rfl (h3 x y)
    · exact absurd rfl (h4 w)
  | _ => rfl

/-- `neutralize_raw` on a `Negate` node with an `NF` operand -/
theorem neutralizeRaw_neg_NF {v : Arg} (hv : NF isReg v) (hc : isC v = false) (hbad : isBad v = false)
    {c : Bool} {a' : Arg} (he : neutralizeRaw (.neg v) = .ok (c, a')) : NF isReg a' ∧ isBad a' = false := by
  by_cases h2 : ∃ x y, v = .bin .sub x y
  · obtain ⟨x, y, rfl⟩ := h2
    rw [neutralizeRaw_neg_sub] at he
    obtain ⟨_, c', he'⟩ := swapped_ok he
    exact neutralizeBin_swap_NF hv he'
  · by_cases h4 : ∃ w, v = .neg w
    · obtain ⟨w, rfl⟩ := h4
      obtain ⟨hw, hbw, _, _, _⟩ := NF_neg_inv hv
      rw [neutralizeRaw_neg_neg, NF_neutralizeRaw hw] at he
      simp only [swapped, Res.ok.injEq, Prod.mk.injEq] at he
      obtain ⟨_, rfl⟩ := he
      exact ⟨hw, hbw⟩
    · rcases neutralizeRaw_neg_cases v with h0 | ⟨x, y, h3, _⟩ | ⟨w, h3, _⟩
      · rw [h0] at he
        simp only [Res.ok.injEq, Prod.mk.injEq] at he
        obtain ⟨_, rfl⟩ := he
        refine ⟨?_, rfl⟩
        simp only [NF]
        exact ⟨hv, lfix_neg_intro hbad hc (fun x y e => h2 ⟨x, y, e⟩) (fun w e => h4 ⟨w, e⟩)⟩
      · exact absurd ⟨x, y, h3⟩ h2
      · exact absurd ⟨w, h3⟩ h4

end

/-! ## results of `neutralize_raw` that contribute no constant to the chain -/

theorem fnd_isC {ty : BinOp} {t : Arg} (h : fnd ty t = false) : isC t = false := by
  unfold fnd at h
  simp only [Bool.or_eq_false_iff] at h
  exact h.1

theorem sameFam_cases {ty op : BinOp} (h : sameFam ty op = true) : ty = op ∨ (additive ty ∧ additive op) := by
  cases ty <;> cases op <;> simp [sameFam, isAddSub, additive] at h ⊢

theorem findC_sameFam {ty op : BinOp} (h : sameFam ty op = true) (t : Arg) (i : Bool) : findC ty t i = findC op t i := by
  rcases sameFam_cases h with rfl | ⟨h1, h2⟩
  · rfl
  · rcases h1 with rfl | rfl <;> rcases h2 with rfl | rfl <;>
      first | rfl | exact findC_add_sub t i | exact (findC_add_sub t i).symm

theorem fnd_sameFam {ty op : BinOp} (h : sameFam ty op = true) (t : Arg) : fnd ty t = fnd op t := by
  unfold fnd; rw [findC_sameFam h]

section
variable {isReg : Bytes → Bool}

theorem neutralizeBin_fnd {ty op : BinOp} {l r : Arg} (hr : NF isReg r) (hty : additive op → additive ty)
    (hfl : fnd ty l = false) (hfr : fnd ty r = false) {c : Bool} {a' : Arg}
    (he : neutralizeBin op l r = .ok (c, a')) : fnd ty a' = false := by
  have hcl : cval l = none := cval_none_iff.2 (fnd_isC hfl)
  have key : ∃ op' r', a' = neutralMain op' l r' ∧ isC r' = false ∧ fnd ty r' = false := by
    by_cases hop : op = .add ∨ op = .sub
    · simp only [neutralizeBin, hop, if_true] at he
      cases hn : normAddSub (decide (op = .sub)) r with
      | err e => simp [hn] at he
      | panic => simp [hn] at he
      | ok p =>
        obtain ⟨ch, s', r'⟩ := p
        simp only [hn] at he
        obtain ⟨_, _, _, t4⟩ := neutralTail_ok he
        obtain ⟨_, _, _, n4, _, n6⟩ := normAddSub_NF hr hn
        exact ⟨_, r', t4, by rw [n4]; exact fnd_isC hfr, by rw [n6 ty (hty hop)]; exact hfr⟩
    · simp only [neutralizeBin, hop, if_false] at he
      obtain ⟨_, _, _, t4⟩ := neutralTail_ok he
      exact ⟨op, r, t4, fnd_isC hfr, hfr⟩
  obtain ⟨op', r', rfl, hcr, hfr'⟩ := key
  have : neutralMain op' l r' = .bin op' l r' := by
    unfold neutralMain; simp only [hcl, cval_none_iff.2 hcr]
  rw [this]
  exact fnd_bin_intro hfl hfr'

theorem neutralizeRaw_bin_fnd {ty op : BinOp} {l r : Arg} (hr : NF isReg r) (hty : additive op → additive ty)
    (hfl : fnd ty l = false) (hfr : fnd ty r = false) {c : Bool} {a' : Arg}
    (he : neutralizeRaw (.bin op l r) = .ok (c, a')) : fnd ty a' = false := by
  rcases neutralizeRaw_bin_cases op l r with h0 | ⟨x, y, _, hl0, _, _⟩
  · rw [h0] at he; exact neutralizeBin_fnd hr hty hfl hfr he
  · rw [hl0] at hfl; simp [fnd] at hfl

theorem neutralizeRaw_neg_fnd {ty : BinOp} {v : Arg} (hv : NF isReg v) (hty : additive ty)
    (hfv : fnd ty v = false) {c : Bool} {a' : Arg} (he : neutralizeRaw (.neg v) = .ok (c, a')) :
    fnd ty a' = false := by
  rcases neutralizeRaw_neg_cases v with h0 | ⟨x, y, rfl, h0⟩ | ⟨w, rfl, h0⟩
  · rw [h0] at he
    simp only [Res.ok.injEq, Prod.mk.injEq] at he
    obtain ⟨_, rfl⟩ := he
    rw [fnd_neg hty (fnd_isC hfv)]; exact hfv
  · rw [h0] at he
    obtain ⟨_, c', he'⟩ := swapped_ok he
    obtain ⟨hx, hy, hf⟩ := NF_bin_inv hv
    have hsf : sameFam ty .sub = true := by rcases hty with rfl | rfl <;> rfl
    obtain ⟨fx, fy⟩ := fnd_bin_false (by rfl) hsf (lfix_bin hf).2.2.1 (NF_nb hx) hfv
    exact neutralizeBin_fnd hx (fun _ => hty) fy fx he'
  · obtain ⟨hw, _, hcw, _, _⟩ := NF_neg_inv hv
    rw [h0, NF_neutralizeRaw hw] at he
    simp only [swapped, Res.ok.injEq, Prod.mk.injEq] at he
    obtain ⟨_, rfl⟩ := he
    rw [← fnd_neg hty hcw]; exact hfv

end

/-! ## `setC` / `dropC` as one traversal -/

/-- follow `search` to the node that holds the constant and transform that node -/
def mapC (ty : BinOp) (f : Arg → Arg) : Arg → Arg
  | .bin op l r =>
    if chainOp op then
      if sameFam ty op then
        match cval l, cval r with
        | some _, _ => f (.bin op l r)
        | none, some _ => f (.bin op l r)
        | none, none =>
          if (findC ty l false).isFound then .bin op (mapC ty f l) r else .bin op l (mapC ty f r)
      else .bin op l r
    else if op == .div then
      if ty == .div then
        match cval l, cval r with
        | some _, _ => f (.bin op l r)
        | none, some _ => f (.bin op l r)
        | none, none => .bin op (mapC ty f l) r
      else .bin op l r
    else .bin op l r
  | .neg v => if isAddSub ty then .neg (mapC ty f v) else .neg v
  | a => a

/-- `*lhs_val = n` at the holder -/
def setH (n : Int) : Arg → Arg
  | .bin op l r => match cval l with
    | some _ => .bin op (.const n) r
    | none => .bin op l (.const n)
  | a => a

/-- the splice at the holder -/
def dropH : Arg → Arg
  | .bin op l r => match cval l with
    | some _ => if op == .sub then .neg r else r
    | none => l
  | a => a

theorem setC_eq_mapC (ty : BinOp) (n : Int) (a : Arg) : setC ty n a = mapC ty (setH n) a := by
  induction a using Arg.ind with
  | bin op l r ihl ihr =>
    simp only [setC, mapC, ihl, ihr, setH]
    split
    · split
      · split <;> simp_all
      · rfl
    · split
      · split
        · split <;> simp_all
        · rfl
      · rfl
  | neg v ih => simp only [setC, mapC, ih]
  | _ => rfl

theorem dropC_eq_mapC (ty : BinOp) (hty : ty ≠ .div) (a : Arg) : dropC ty a = mapC ty dropH a := by
  induction a using Arg.ind with
  | bin op l r ihl ihr =>
    simp only [dropC, mapC, ihl, ihr, dropH]
    have hd : (ty == BinOp.div) = false := by cases ty <;> simp_all
    split
    · split
      · split <;> simp_all
      · rfl
    · simp [hd]
  | neg v ih => simp only [dropC, mapC, ih]
  | _ => rfl

/-! ## the deep `neutralize` after a change at the holder of the chain constant -/

theorem neutralize_bin_ok {op : BinOp} {x y : Arg} {c : Bool} {t : Arg} (h : neutralize (.bin op x y) = .ok (c, t)) :
    ∃ c1 x' c2 y' c3, neutralize x = .ok (c1, x') ∧ neutralize y = .ok (c2, y') ∧
      neutralizeRaw (.bin op x' y') = .ok (c3, t) := by
  simp only [neutralize] at h
  cases h1 : neutralize x with
  | panic => simp [h1] at h
  | err e => simp [h1] at h
  | ok p =>
    obtain ⟨c1, x'⟩ := p
    cases h2 : neutralize y with
    | panic => simp [h1, h2] at h
    | err e => simp [h1, h2] at h
    | ok q =>
      obtain ⟨c2, y'⟩ := q
      simp only [h1, h2] at h
      cases h3 : neutralizeRaw (.bin op x' y') with
      | panic => simp [h3] at h
      | err e => simp [h3] at h
      | ok w =>
        obtain ⟨c3, a3⟩ := w
        simp only [h3, Res.ok.injEq, Prod.mk.injEq] at h
        obtain ⟨_, rfl⟩ := h
        exact ⟨c1, x', c2, y', c3, rfl, rfl, h3⟩

theorem neutralize_neg_ok {v : Arg} {c : Bool} {t : Arg} (h : neutralize (.neg v) = .ok (c, t)) :
    ∃ c1 v' c3, neutralize v = .ok (c1, v') ∧ neutralizeRaw (.neg v') = .ok (c3, t) := by
  simp only [neutralize] at h
  cases h1 : neutralize v with
  | panic => simp [h1] at h
  | err e => simp [h1] at h
  | ok p =>
    obtain ⟨c1, v'⟩ := p
    simp only [h1] at h
    cases h3 : neutralizeRaw (.neg v') with
    | panic => simp [h3] at h
    | err e => simp [h3] at h
    | ok w =>
      obtain ⟨c3, a3⟩ := w
      simp only [h3, Res.ok.injEq, Prod.mk.injEq] at h
      obtain ⟨_, rfl⟩ := h
      exact ⟨c1, v', c3, rfl, h3⟩

section
variable {isReg : Bytes → Bool}

/-- what the transformation of the holder node has to deliver after the deep `neutralize` -/
def HolderOK (isReg : Bytes → Bool) (ty : BinOp) (drop : Bool) (f : Arg → Arg) : Prop :=
  ∀ op l r, NF isReg (.bin op l r) → (isC l = true ∨ isC r = true) →
    ((chainOp op = true ∧ sameFam ty op = true) ∨ (op = .div ∧ ty = .div)) →
    ∀ c h₂, neutralize (f (.bin op l r)) = .ok (c, h₂) →
      NF isReg h₂ ∧ isBad h₂ = false ∧ isC h₂ = false ∧ (drop = true → fnd ty h₂ = false)

theorem chainOp_mergeable {op : BinOp} (h : chainOp op = true) : mergeable op = true := by
  cases op <;> simp [chainOp] at h <;> rfl

theorem chainOp_ne_div {op : BinOp} (h : chainOp op = true) : op ≠ .div := by
  intro e; subst e; simp [chainOp] at h

theorem chainOp_ne_mod {op : BinOp} (h : chainOp op = true) : op ≠ .mod := by
  intro e; subst e; simp [chainOp] at h

theorem sameFam_additive {ty op : BinOp} (h : sameFam ty op = true) : additive op → additive ty := by
  intro ha
  rcases sameFam_cases h with rfl | ⟨h1, _⟩
  · exact ha
  · exact h1

/-- **the deep `neutralize` of a tree changed at the holder of its chain constant is `NF`** -/
theorem mapC_neutralize_NF (ty : BinOp) (drop : Bool) (f : Arg → Arg) (hf : HolderOK isReg ty drop f)
    (hdrop : drop = true → ty ≠ .div) :
    ∀ t, NF isReg t → (findC ty t false).isFound = true → ∀ c t₂, neutralize (mapC ty f t) = .ok (c, t₂) →
      NF isReg t₂ ∧ isBad t₂ = false ∧ isC t₂ = false ∧ (drop = true → fnd ty t₂ = false) := by
  intro t
  induction t using Arg.ind with
  | bin op l r ihl ihr =>
    intro ht hfound c t₂ he
    obtain ⟨hl, hr, hfix⟩ := NF_bin_inv ht
    obtain ⟨_, _, hlr, _, hb, _⟩ := lfix_bin hfix
    by_cases hch : chainOp op = true
    · by_cases hsf : sameFam ty op = true
      · simp only [findC, hch, hsf, if_true] at hfound
        simp only [mapC, hch, hsf, if_true] at he
        have hmb := hb (chainOp_mergeable hch)
        rw [bothFound_eq _ _ _ (chainOp_ne_div hch)] at hmb
        cases hcl : cval l with
        | some a =>
          simp only [hcl] at he
          exact hf op l r ht (.inl (cval_some_isC hcl)) (.inl ⟨hch, hsf⟩) c t₂ he
        | none =>
          cases hcr : cval r with
          | some b =>
            simp only [hcl, hcr] at he
            exact hf op l r ht (.inr (cval_some_isC hcr)) (.inl ⟨hch, hsf⟩) c t₂ he
          | none =>
            simp only [hcl, hcr] at he hfound
            have hil : isC l = false := cval_none_iff.1 hcl
            have hir : isC r = false := cval_none_iff.1 hcr
            by_cases hfl : (findC ty l false).isFound = true
            · simp only [hfl, if_true] at he
              obtain ⟨c1, l₂, c2, r₂, c3, e1, e2, e3⟩ := neutralize_bin_ok he
              rw [NF_neutralize hr] at e2
              simp only [Res.ok.injEq, Prod.mk.injEq] at e2
              obtain ⟨_, rfl⟩ := e2
              obtain ⟨i1, i2, i3, i4⟩ := ihl hl hfl c1 l₂ e1
              -- the rhs contributes no constant
              have hfr : fnd op r = false := by
                have : fnd op l = true := by
                  unfold fnd; rw [← findC_sameFam hsf, hfl]; simp
                rw [this] at hmb; simpa using hmb
              have hnr := neutralizeRaw_bin_NF i1 hr (fun ⟨p, _⟩ => by rw [i3] at p; cases p)
                (fun _ => by rw [bothFound_eq _ _ _ (chainOp_ne_div hch), hfr]; simp)
                (fun e => absurd e (chainOp_ne_mod hch)) e3
              have hnb : nb (.bin op l₂ r) = true :=
                nb_bin.2 ⟨NF_nb i1, NF_nb hr, fun ⟨p, _⟩ => by rw [i3] at p; cases p⟩
              refine ⟨hnr.1, hnr.2, (neutralizeRaw_nb hnb e3).2, fun hd => ?_⟩
              exact neutralizeRaw_bin_fnd hr (sameFam_additive hsf) (i4 hd) (by rw [fnd_sameFam hsf]; exact hfr) e3
            · simp only [hfl, if_false] at he
              -- the constant is on the right
              have hfr' : (findC ty r false).isFound = true := by
                have hp := findC_ne_panic ty l (NF_nb hl) false
                cases hq : findC ty l false with
                | found a b => rw [hq] at hfl; simp [Find.isFound] at hfl
                | panic => exact absurd hq hp
                | none =>
                  simp only [hq] at hfound
                  rw [findC_isFound_inv] at hfound
                  exact hfound
              obtain ⟨c1, l₂, c2, r₂, c3, e1, e2, e3⟩ := neutralize_bin_ok he
              rw [NF_neutralize hl] at e1
              simp only [Res.ok.injEq, Prod.mk.injEq] at e1
              obtain ⟨_, rfl⟩ := e1
              obtain ⟨i1, i2, i3, i4⟩ := ihr hr hfr' c2 r₂ e2
              have hfl2 : fnd op l = false := by
                unfold fnd; rw [← findC_sameFam hsf]; simp [hil, hfl]
              have hnr := neutralizeRaw_bin_NF hl i1 (fun ⟨_, q⟩ => by rw [i3] at q; cases q)
                (fun _ => by rw [bothFound_eq _ _ _ (chainOp_ne_div hch), hfl2]; simp)
                (fun e => absurd e (chainOp_ne_mod hch)) e3
              have hnb : nb (.bin op l r₂) = true :=
                nb_bin.2 ⟨NF_nb hl, NF_nb i1, fun ⟨_, q⟩ => by rw [i3] at q; cases q⟩
              refine ⟨hnr.1, hnr.2, (neutralizeRaw_nb hnb e3).2, fun hd => ?_⟩
              exact neutralizeRaw_bin_fnd i1 (sameFam_additive hsf) (by rw [fnd_sameFam hsf]; exact hfl2) (i4 hd) e3
      · simp [findC, hch, hsf, Find.isFound] at hfound
    · by_cases hdv : (op == .div) = true
      · have hop : op = .div := by simpa using hdv
        subst hop
        by_cases hty : (ty == .div) = true
        · have hty' : ty = .div := by simpa using hty
          subst hty'
          simp only [findC, hch, Bool.false_eq_true, if_false, hdv, hty, if_true] at hfound
          simp only [mapC, hch, Bool.false_eq_true, if_false, hdv, hty, if_true] at he
          cases hcl : cval l with
          | some a =>
            simp only [hcl] at he
            exact hf .div l r ht (.inl (cval_some_isC hcl)) (.inr ⟨rfl, rfl⟩) c t₂ he
          | none =>
            cases hcr : cval r with
            | some b =>
              simp only [hcl, hcr] at he
              exact hf .div l r ht (.inr (cval_some_isC hcr)) (.inr ⟨rfl, rfl⟩) c t₂ he
            | none =>
              simp only [hcl, hcr] at he hfound
              obtain ⟨c1, l₂, c2, r₂, c3, e1, e2, e3⟩ := neutralize_bin_ok he
              rw [NF_neutralize hr] at e2
              simp only [Res.ok.injEq, Prod.mk.injEq] at e2
              obtain ⟨_, rfl⟩ := e2
              obtain ⟨i1, i2, i3, i4⟩ := ihl hl hfound c1 l₂ e1
              have hir : isC r = false := cval_none_iff.1 hcr
              have hnr := neutralizeRaw_bin_NF i1 hr (fun ⟨p, _⟩ => by rw [i3] at p; cases p)
                (fun _ => by unfold bothFound; rw [mergeR_div_isFound, hir]; simp)
                (fun e => by cases e) e3
              have hnb : nb (.bin .div l₂ r) = true :=
                nb_bin.2 ⟨NF_nb i1, NF_nb hr, fun ⟨p, _⟩ => by rw [i3] at p; cases p⟩
              exact ⟨hnr.1, hnr.2, (neutralizeRaw_nb hnb e3).2, fun hd => absurd rfl (hdrop hd)⟩
        · simp [findC, hch, hdv, hty, Find.isFound] at hfound
      · simp [findC, hch, hdv, Find.isFound] at hfound
  | neg v ih =>
    intro ht hfound c t₂ he
    obtain ⟨hv, hbad, hcv, _⟩ := NF_neg_inv ht
    by_cases hty : isAddSub ty = true
    · simp only [findC, hty, if_true] at hfound
      rw [findC_isFound_inv] at hfound
      simp only [mapC, hty, if_true] at he
      obtain ⟨c1, v₂, c3, e1, e3⟩ := neutralize_neg_ok he
      obtain ⟨i1, i2, i3, i4⟩ := ih hv hfound c1 v₂ e1
      have hnr := neutralizeRaw_neg_NF i1 i3 i2 e3
      have hadd : additive ty := by cases ty <;> simp [isAddSub, additive] at hty ⊢
      exact ⟨hnr.1, hnr.2, (neutralizeRaw_neg_nb (NF_nb i1) i3 e3).2, fun hd => neutralizeRaw_neg_fnd i1 hadd (i4 hd) e3⟩
    · simp [findC, hty, Find.isFound] at hfound
  | const v => intro _ hfound; simp [findC, Find.isFound] at hfound
  | ident v => intro _ hfound; simp [findC, Find.isFound] at hfound
  | str v => intro _ hfound; simp [findC, Find.isFound] at hfound
  | not v _ => intro _ hfound; simp [findC, Find.isFound] at hfound
  | addr v _ => intro _ hfound; simp [findC, Find.isFound] at hfound
  | seq v => intro _ hfound; simp [findC, Find.isFound] at hfound
  | func n v => intro _ hfound; simp [findC, Find.isFound] at hfound

end

/-! ## the two transformations of the holder: `*lhs_val = n` and the splice -/

section
variable {isReg : Bytes → Bool}

theorem family_not_mod {ty op : BinOp}
    (h : (chainOp op = true ∧ sameFam ty op = true) ∨ (op = .div ∧ ty = .div)) : op ≠ .mod ∧ mergeable op = true := by
  rcases h with ⟨h1, _⟩ | ⟨rfl, _⟩
  · exact ⟨chainOp_ne_mod h1, chainOp_mergeable h1⟩
  · exact ⟨(by intro e; cases e), rfl⟩

theorem setH_holderOK (ty : BinOp) (n : Int) : HolderOK isReg ty false (setH n) := by
  intro op l r ht hc hfam c h₂ he
  obtain ⟨hl, hr, hfix⟩ := NF_bin_inv ht
  obtain ⟨_, _, hlr, _, hb, _⟩ := lfix_bin hfix
  obtain ⟨hnm, hmg⟩ := family_not_mod hfam
  have hbf := hb hmg
  cases hcl : cval l with
  | some a =>
    have hir : isC r = false := by
      cases hx : isC r
      · rfl
      · exact (hlr ⟨cval_some_isC hcl, hx⟩).elim
    simp only [setH, hcl] at he
    obtain ⟨c1, x', c2, y', c3, e1, e2, e3⟩ := neutralize_bin_ok he
    simp only [neutralize, Res.ok.injEq, Prod.mk.injEq] at e1
    obtain ⟨_, rfl⟩ := e1
    rw [NF_neutralize hr] at e2
    simp only [Res.ok.injEq, Prod.mk.injEq] at e2
    obtain ⟨_, rfl⟩ := e2
    have hmr : (mergeR op r).isFound = false := by
      unfold bothFound at hbf
      rw [mergeL_isFound] at hbf
      simpa [fnd, cval_some_isC hcl] using hbf
    have hnr := neutralizeRaw_bin_NF (isReg := isReg) (l := .const n) trivial hr (fun ⟨_, q⟩ => by rw [hir] at q; cases q)
      (fun _ => by unfold bothFound; rw [hmr]; simp) (fun e => absurd e hnm) e3
    have hnb : nb (.bin op (.const n) r) = true :=
      nb_bin.2 ⟨rfl, NF_nb hr, fun ⟨_, q⟩ => by rw [hir] at q; cases q⟩
    exact ⟨hnr.1, hnr.2, (neutralizeRaw_nb hnb e3).2, fun hd => by cases hd⟩
  | none =>
    have hil : isC l = false := cval_none_iff.1 hcl
    have hcr : isC r = true := by
      rcases hc with h | h
      · rw [hil] at h; cases h
      · exact h
    simp only [setH, hcl] at he
    obtain ⟨c1, x', c2, y', c3, e1, e2, e3⟩ := neutralize_bin_ok he
    rw [NF_neutralize hl] at e1
    simp only [Res.ok.injEq, Prod.mk.injEq] at e1
    obtain ⟨_, rfl⟩ := e1
    simp only [neutralize, Res.ok.injEq, Prod.mk.injEq] at e2
    obtain ⟨_, rfl⟩ := e2
    have hml : (mergeL op l).isFound = false := by
      unfold bothFound at hbf
      have : (mergeR op r).isFound = true := by
        cases r <;> simp [isC, cval] at hcr
        simp [mergeR, cval, Find.isFound]
      rw [this] at hbf
      simpa using hbf
    have hnr := neutralizeRaw_bin_NF (isReg := isReg) (r := .const n) hl trivial (fun ⟨p, _⟩ => by rw [hil] at p; cases p)
      (fun _ => by unfold bothFound; rw [hml]; simp) (fun e => absurd e hnm) e3
    have hnb : nb (.bin op l (.const n)) = true :=
      nb_bin.2 ⟨NF_nb hl, rfl, fun ⟨p, _⟩ => by rw [hil] at p; cases p⟩
    exact ⟨hnr.1, hnr.2, (neutralizeRaw_nb hnb e3).2, fun hd => by cases hd⟩

theorem dropH_holderOK (ty : BinOp) (hty : ty ≠ .div) : HolderOK isReg ty true dropH := by
  intro op l r ht hc hfam c h₂ he
  obtain ⟨hl, hr, hfix⟩ := NF_bin_inv ht
  obtain ⟨b1, b2, hlr, _, hb, _⟩ := lfix_bin hfix
  obtain ⟨hch, hsf⟩ : chainOp op = true ∧ sameFam ty op = true := by
    rcases hfam with h | ⟨_, h⟩
    · exact h
    · exact absurd h hty
  have hbf := hb (chainOp_mergeable hch)
  rw [bothFound_eq _ _ _ (chainOp_ne_div hch)] at hbf
  cases hcl : cval l with
  | some a =>
    have hir : isC r = false := by
      cases hx : isC r
      · rfl
      · exact (hlr ⟨cval_some_isC hcl, hx⟩).elim
    have hfr : fnd ty r = false := by
      rw [fnd_sameFam hsf]
      have : fnd op l = true := by simp [fnd, cval_some_isC hcl]
      rw [this] at hbf; simpa using hbf
    simp only [dropH, hcl] at he
    by_cases hs : (op == .sub) = true
    · simp only [hs, if_true] at he
      have hop : op = .sub := by simpa using hs
      subst hop
      obtain ⟨c1, v₂, c3, e1, e3⟩ := neutralize_neg_ok he
      rw [NF_neutralize hr] at e1
      simp only [Res.ok.injEq, Prod.mk.injEq] at e1
      obtain ⟨_, rfl⟩ := e1
      have hnr := neutralizeRaw_neg_NF hr hir b2 e3
      have hadd : additive ty := sameFam_additive hsf (.inr rfl)
      exact ⟨hnr.1, hnr.2, (neutralizeRaw_neg_nb (NF_nb hr) hir e3).2, fun _ => neutralizeRaw_neg_fnd hr hadd hfr e3⟩
    · simp only [hs, Bool.false_eq_true, if_false] at he
      rw [NF_neutralize hr] at he
      simp only [Res.ok.injEq, Prod.mk.injEq] at he
      obtain ⟨_, rfl⟩ := he
      exact ⟨hr, b2, hir, fun _ => hfr⟩
  | none =>
    have hil : isC l = false := cval_none_iff.1 hcl
    have hcr : isC r = true := by
      rcases hc with h | h
      · rw [hil] at h; cases h
      · exact h
    have hfl : fnd ty l = false := by
      rw [fnd_sameFam hsf]
      have : fnd op r = true := by simp [fnd, hcr]
      rw [this] at hbf; simpa using hbf
    simp only [dropH, hcl] at he
    rw [NF_neutralize hl] at he
    simp only [Res.ok.injEq, Prod.mk.injEq] at he
    obtain ⟨_, rfl⟩ := he
    exact ⟨hl, b1, hil, fun _ => hfl⟩

/-- the deep `neutralize` of `setC` on an `NF` tree that holds a chain constant -/
theorem setC_neutralize_NF (ty : BinOp) (n : Int) {t : Arg} (ht : NF isReg t)
    (hf : (findC ty t false).isFound = true) {c : Bool} {t₂ : Arg} (he : neutralize (setC ty n t) = .ok (c, t₂)) :
    NF isReg t₂ ∧ isBad t₂ = false ∧ isC t₂ = false := by
  rw [setC_eq_mapC] at he
  obtain ⟨h1, h2, h3, _⟩ := mapC_neutralize_NF ty false (setH n) (setH_holderOK ty n) (fun h => by cases h) t ht hf c t₂ he
  exact ⟨h1, h2, h3⟩

/-- the deep `neutralize` of `dropC` on an `NF` tree that holds a chain constant: no constant is left in the chain -/
theorem dropC_neutralize_NF (ty : BinOp) (hty : ty ≠ .div) {t : Arg} (ht : NF isReg t)
    (hf : (findC ty t false).isFound = true) {c : Bool} {t₂ : Arg} (he : neutralize (dropC ty t) = .ok (c, t₂)) :
    NF isReg t₂ ∧ isBad t₂ = false ∧ isC t₂ = false ∧ fnd ty t₂ = false := by
  rw [dropC_eq_mapC ty hty] at he
  obtain ⟨h1, h2, h3, h4⟩ := mapC_neutralize_NF ty true dropH (dropH_holderOK ty hty) (fun _ => hty) t ht hf c t₂ he
  exact ⟨h1, h2, h3, h4 rfl⟩

end

/-! ## the merge, `simplify_raw`, `evaluate` -/

section
variable {isReg : Bytes → Bool}

theorem mergeable_ne_mod {op : BinOp} (h : mergeable op = true) : op ≠ .mod := by
  intro e; subst e; simp [mergeable] at h

/-- the last `else` branch of `simplify_raw`: merge of two `NF` operands -/
theorem merge_NF {op : BinOp} {l r : Arg} (hl : NF isReg l) (hr : NF isReg r) (hlr : ¬ (isC l = true ∧ isC r = true))
    (hop : mergeable op = true) {c : Bool} {a' : Arg} (he : merge op l r = .ok (c, a')) : NF isReg a' := by
  by_cases hbf : bothFound op l r = false
  · rw [merge_of_not_both hbf (mergeL_ne_panic op l (NF_nb hl)) (mergeR_ne_panic op r (NF_nb hr))] at he
    exact (neutralizeRaw_bin_NF hl hr hlr (fun _ => hbf) (fun e => absurd e (mergeable_ne_mod hop)) he).1
  · unfold merge at he
    unfold bothFound at hbf
    cases hL : mergeL op l with
    | panic => simp [hL] at he
    | none => simp [hL, Find.isFound] at hbf
    | found c1 s1 =>
      cases hR : mergeR op r with
      | panic => simp [hL, hR] at he
      | none => simp [hR, Find.isFound] at hbf
      | found c2 s2 =>
        simp only [hL, hR] at he
        cases hc : combine op s1 s2 c1 c2 with
        | error k => simp [hc] at he
        | ok cc =>
          simp only [hc] at he
          cases hn : neutralize (mergeTree op l r cc) with
          | panic => simp [hn] at he
          | err e => simp [hn] at he
          | ok p =>
            obtain ⟨c3, a3⟩ := p
            simp only [hn, Res.ok.injEq, Prod.mk.injEq] at he
            obtain ⟨_, rfl⟩ := he
            unfold mergeTree at hn
            cases hcr : cval r with
            | some b =>
              have hcl : cval l = none := by
                cases hx : cval l with
                | none => rfl
                | some a => exact (hlr ⟨cval_some_isC hx, cval_some_isC hcr⟩).elim
              simp only [hcl, hcr] at hn
              have hfl : (findC op l false).isFound = true := by
                unfold mergeL at hL; simp only [hcl] at hL; rw [hL]; rfl
              exact (setC_neutralize_NF op cc hl hfl hn).1
            | none =>
              simp only [hcr] at hn
              -- the rhs is searched: not a division
              have hdiv : op ≠ .div := by
                intro e; subst e
                unfold mergeR at hR; simp [hcr] at hR
              have hfr : (findC op r false).isFound = true := by
                unfold mergeR at hR
                have : (op == BinOp.div) = false := by cases op <;> simp_all
                simp only [hcr, this, Bool.false_eq_true, if_false] at hR
                rw [← findC_isFound_inv op r (preInv op), hR]; rfl
              obtain ⟨c1', l₂, c2', r₂, c3', e1, e2, e3⟩ := neutralize_bin_ok hn
              obtain ⟨r1, _, r3, r4⟩ := dropC_neutralize_NF op hdiv hr hfr e2
              have hl₂ : NF isReg l₂ := by
                cases hcl : cval l with
                | some a =>
                  simp only [hcl, neutralize, Res.ok.injEq, Prod.mk.injEq] at e1
                  obtain ⟨_, rfl⟩ := e1; trivial
                | none =>
                  simp only [hcl] at e1
                  have hfl : (findC op l false).isFound = true := by
                    unfold mergeL at hL; simp only [hcl] at hL; rw [hL]; rfl
                  exact (setC_neutralize_NF op cc hl hfl e1).1
              exact (neutralizeRaw_bin_NF hl₂ r1 (fun ⟨_, q⟩ => by rw [r3] at q; cases q)
                (fun _ => by rw [bothFound_eq _ _ _ hdiv, r4]; simp)
                (fun e => absurd e (mergeable_ne_mod hop)) e3).1

/-- **`simplify_raw` of a binary node with `NF` operands is `NF`** -/
theorem simplifyRaw_bin_NF {op : BinOp} {l r : Arg} (hl : NF isReg l) (hr : NF isReg r) {c : Bool} {a' : Arg}
    (he : simplifyRaw (.bin op l r) = .ok (c, a')) : NF isReg a' := by
  by_cases hlr : isC l = true ∧ isC r = true
  · obtain ⟨h1, h2⟩ := hlr
    cases l <;> simp [isC, cval] at h1
    cases r <;> simp [isC, cval] at h2
    rename_i x y
    simp only [simplifyRaw, isBad, cval] at he
    cases hf : foldBin op x y with
    | error k => simp [hf] at he
    | ok w =>
      simp only [hf, Bool.false_eq_true, if_false, Res.ok.injEq, Prod.mk.injEq] at he
      obtain ⟨_, rfl⟩ := he; trivial
  · rw [simplifyRaw_bin_rest op l r hlr] at he
    cases h1 : isBad l with
    | true => simp [h1] at he
    | false =>
      cases h2 : isBad r with
      | true => simp [h1, h2] at he
      | false =>
        simp only [h1, h2, Bool.false_eq_true, if_false] at he
        cases op
        case mod =>
          simp only at he
          by_cases hm : modCollapse l r = true
          · simp only [hm, if_true, Res.ok.injEq, Prod.mk.injEq] at he
            obtain ⟨_, rfl⟩ := he; exact hl
          · simp only [hm, Bool.false_eq_true, if_false] at he
            exact (neutralizeRaw_bin_NF hl hr hlr (fun h => by simp [mergeable] at h) (fun _ => by simpa using hm) he).1
        case shl =>
          exact (neutralizeRaw_bin_NF hl hr hlr (fun h => by simp [mergeable] at h) (fun e => by cases e) he).1
        case shr =>
          exact (neutralizeRaw_bin_NF hl hr hlr (fun h => by simp [mergeable] at h) (fun e => by cases e) he).1
        all_goals exact merge_NF hl hr hlr rfl he

theorem simplifyRaw_neg_NF {v : Arg} (hv : NF isReg v) {c : Bool} {a' : Arg}
    (he : simplifyRaw (.neg v) = .ok (c, a')) : NF isReg a' := by
  by_cases h2 : ∃ x y, v = .bin .sub x y
  · obtain ⟨x, y, rfl⟩ := h2
    rw [simplifyRaw_neg_sub] at he
    cases hn : neutralizeRaw (.bin .sub y x) with
    | panic => simp [hn] at he
    | err e => simp [hn] at he
    | ok p =>
      obtain ⟨c1, z⟩ := p
      simp only [hn, Res.ok.injEq, Prod.mk.injEq] at he
      obtain ⟨_, rfl⟩ := he
      obtain ⟨hx, hy, hf⟩ := NF_bin_inv hv
      obtain ⟨_, _, hlr, _, hb, _⟩ := lfix_bin hf
      exact (neutralizeRaw_bin_NF hy hx (fun ⟨p, q⟩ => hlr ⟨q, p⟩)
        (fun _ => by rw [bothFound_sub_comm]; exact hb rfl) (fun e => by cases e) hn).1
  · cases v with
    | bin op x y =>
      cases op
      case sub => exact absurd ⟨x, y, rfl⟩ h2
      all_goals
        simp only [simplifyRaw, Res.ok.injEq, Prod.mk.injEq] at he
        obtain ⟨rfl, rfl⟩ := he
        simp only [NF]; exact ⟨hv, rfl⟩
    | const k =>
      simp only [simplifyRaw] at he
      split at he
      · simp at he
      · simp only [Res.ok.injEq, Prod.mk.injEq] at he
        obtain ⟨_, rfl⟩ := he; trivial
    | str s => simp [simplifyRaw] at he
    | addr s => simp [simplifyRaw] at he
    | seq s => simp [simplifyRaw] at he
    | ident s =>
      simp only [simplifyRaw, Res.ok.injEq, Prod.mk.injEq] at he
      obtain ⟨rfl, rfl⟩ := he
      simp only [NF]; exact ⟨hv, rfl⟩
    | neg s =>
      obtain ⟨hw, _, _, _, _⟩ := NF_neg_inv hv
      rw [simplifyRaw_neg_neg, neutralizeRaw_neg_neg, NF_neutralizeRaw hw] at he
      simp only [swapped, Res.ok.injEq, Prod.mk.injEq] at he
      obtain ⟨_, rfl⟩ := he
      exact hw
    | not s =>
      simp only [simplifyRaw, Res.ok.injEq, Prod.mk.injEq] at he
      obtain ⟨rfl, rfl⟩ := he
      simp only [NF]; exact ⟨hv, rfl⟩
    | func n s =>
      simp only [simplifyRaw, Res.ok.injEq, Prod.mk.injEq] at he
      obtain ⟨rfl, rfl⟩ := he
      simp only [NF]; exact ⟨hv, rfl⟩

theorem simplifyRaw_not_NF {v : Arg} (hv : NF isReg v) {c : Bool} {a' : Arg}
    (he : simplifyRaw (.not v) = .ok (c, a')) : NF isReg a' := by
  cases v with
  | const k =>
    simp only [simplifyRaw, Res.ok.injEq, Prod.mk.injEq] at he
    obtain ⟨_, rfl⟩ := he; trivial
  | str s => simp [simplifyRaw] at he
  | addr s => simp [simplifyRaw] at he
  | seq s => simp [simplifyRaw] at he
  | _ =>
    simp only [simplifyRaw, Res.ok.injEq, Prod.mk.injEq] at he
    obtain ⟨rfl, rfl⟩ := he
    simp only [NF]; exact ⟨hv, rfl⟩

theorem simplifyRaw_addr_NF {v : Arg} (hv : NF isReg v) {c : Bool} {a' : Arg}
    (he : simplifyRaw (.addr v) = .ok (c, a')) : NF isReg a' := by
  simp only [simplifyRaw] at he
  split at he
  · cases he
  · rename_i hb
    simp only [Res.ok.injEq, Prod.mk.injEq] at he
    obtain ⟨rfl, rfl⟩ := he
    simp only [NF]
    refine ⟨hv, ?_⟩
    simp only [simplifyRaw, hb, Bool.false_eq_true, if_false]

theorem afterRawE_ok {ev ev' : Ev} {x a' : Arg} (h : afterRawE ev x = .ok ev' a') :
    ∃ c, simplifyRaw x = .ok (c, a') ∧ ev' = ev.or ⟨c, none⟩ := by
  unfold afterRawE at h
  cases hs : simplifyRawE x with
  | ok p =>
    obtain ⟨c, y⟩ := p
    rw [hs] at h
    simp only [EvE.ok.injEq] at h
    obtain ⟨rfl, rfl⟩ := h
    exact ⟨c, simplifyRaw_of_okE hs, rfl⟩
  | err e t => rw [hs] at h; cases h
  | panic => rw [hs] at h; cases h

theorem Ev.or_cause_none {a b : Ev} (h : (a.or b).cause = none) : a.cause = none ∧ b.cause = none := by
  unfold Ev.or at h
  simp only at h
  cases ha : a.cause with
  | none => rw [ha] at h; exact ⟨rfl, by simpa using h⟩
  | some x => rw [ha] at h; simp at h

/-- **a complete result of `evaluate` is `NF`** -/
theorem evaluateE_NF_both (lk : Bytes → Lookup) :
    (∀ a ev a', evaluateE lk isReg a = .ok ev a' → ev.cause = none → NF isReg a') ∧
    (∀ as ev as', evaluateArgsE lk isReg as = .ok ev as' → ev.cause = none → NFs isReg as') := by
  apply Arg.ind2
  case const => intro v ev a' h _; simp only [evaluateE, EvE.ok.injEq] at h; obtain ⟨_, rfl⟩ := h; trivial
  case ident =>
    intro s ev a' h hc
    simp only [evaluateE] at h
    split at h
    · rename_i hr
      simp only [EvE.ok.injEq] at h
      obtain ⟨_, rfl⟩ := h
      exact hr
    · cases hl : lk s with
      | notFound => rw [hl] at h; cases h
      | deferred => rw [hl] at h; simp only [EvE.ok.injEq] at h; obtain ⟨rfl, _⟩ := h; cases hc
      | found v => rw [hl] at h; simp only [EvE.ok.injEq] at h; obtain ⟨_, rfl⟩ := h; trivial
  case str => intro v ev a' h _; simp only [evaluateE, EvE.ok.injEq] at h; obtain ⟨_, rfl⟩ := h; trivial
  case bin =>
    intro op l r ihl ihr ev a' h hc
    simp only [evaluateE] at h
    cases h1 : evaluateE lk isReg l with
    | ok e1 l' =>
      rw [h1] at h
      cases h2 : evaluateE lk isReg r with
      | ok e2 r' =>
        rw [h2] at h
        obtain ⟨c, hs, rfl⟩ := afterRawE_ok h
        obtain ⟨hc12, _⟩ := Ev.or_cause_none hc
        obtain ⟨hc1, hc2⟩ := Ev.or_cause_none hc12
        exact simplifyRaw_bin_NF (ihl _ _ h1 hc1) (ihr _ _ h2 hc2) hs
      | nosuch n r' => rw [h2] at h; cases h
      | err e t => rw [h2] at h; cases h
      | panic => rw [h2] at h; cases h
    | nosuch n l' => rw [h1] at h; cases h
    | err e t => rw [h1] at h; cases h
    | panic => rw [h1] at h; cases h
  case neg =>
    intro v ih ev a' h hc
    simp only [evaluateE] at h
    cases h1 : evaluateE lk isReg v with
    | ok e1 v' =>
      rw [h1] at h
      obtain ⟨c, hs, rfl⟩ := afterRawE_ok h
      exact simplifyRaw_neg_NF (ih _ _ h1 (Ev.or_cause_none hc).1) hs
    | nosuch n l' => rw [h1] at h; cases h
    | err e t => rw [h1] at h; cases h
    | panic => rw [h1] at h; cases h
  case not =>
    intro v ih ev a' h hc
    simp only [evaluateE] at h
    cases h1 : evaluateE lk isReg v with
    | ok e1 v' =>
      rw [h1] at h
      obtain ⟨c, hs, rfl⟩ := afterRawE_ok h
      exact simplifyRaw_not_NF (ih _ _ h1 (Ev.or_cause_none hc).1) hs
    | nosuch n l' => rw [h1] at h; cases h
    | err e t => rw [h1] at h; cases h
    | panic => rw [h1] at h; cases h
  case addr =>
    intro v ih ev a' h hc
    simp only [evaluateE] at h
    cases h1 : evaluateE lk isReg v with
    | ok e1 v' =>
      rw [h1] at h
      obtain ⟨c, hs, rfl⟩ := afterRawE_ok h
      exact simplifyRaw_addr_NF (ih _ _ h1 (Ev.or_cause_none hc).1) hs
    | nosuch n l' => rw [h1] at h; cases h
    | err e t => rw [h1] at h; cases h
    | panic => rw [h1] at h; cases h
  case seq =>
    intro as ih ev a' h hc
    simp only [evaluateE] at h
    cases h1 : evaluateArgsE lk isReg as with
    | ok e1 as' => rw [h1] at h; simp only [EvE.ok.injEq] at h; obtain ⟨rfl, rfl⟩ := h; simp only [NF]; exact ih _ _ h1 hc
    | nosuch n l' => rw [h1] at h; cases h
    | err e t => rw [h1] at h; cases h
    | panic => rw [h1] at h; cases h
  case func =>
    intro f as ih ev a' h hc
    simp only [evaluateE] at h
    cases h1 : evaluateArgsE lk isReg as with
    | ok e1 as' => rw [h1] at h; simp only [EvE.ok.injEq] at h; obtain ⟨rfl, rfl⟩ := h; simp only [NF]; exact ih _ _ h1 hc
    | nosuch n l' => rw [h1] at h; cases h
    | err e t => rw [h1] at h; cases h
    | panic => rw [h1] at h; cases h
  case nil => intro ev as' h _; simp only [evaluateArgsE, EvE.ok.injEq] at h; obtain ⟨_, rfl⟩ := h; trivial
  case cons =>
    intro a as iha ihas ev as' h hc
    simp only [evaluateArgsE] at h
    cases h1 : evaluateE lk isReg a with
    | ok e1 a' =>
      rw [h1] at h
      cases h2 : evaluateArgsE lk isReg as with
      | ok e2 as2 =>
        rw [h2] at h
        simp only [EvE.ok.injEq] at h
        obtain ⟨rfl, rfl⟩ := h
        obtain ⟨hc1, hc2⟩ := Ev.or_cause_none hc
        simp only [NFs]
        exact ⟨iha _ _ h1 hc1, ihas _ _ h2 hc2⟩
      | nosuch n r' => rw [h2] at h; cases h
      | err e t => rw [h2] at h; cases h
      | panic => rw [h2] at h; cases h
    | nosuch n l' => rw [h1] at h; cases h
    | err e t => rw [h1] at h; cases h
    | panic => rw [h1] at h; cases h

theorem evaluateE_NF {lk : Bytes → Lookup} {a : Arg} {ev : Ev} {a' : Arg} (h : evaluateE lk isReg a = .ok ev a')
    (hc : ev.cause = none) : NF isReg a' := (evaluateE_NF_both lk).1 a ev a' h hc

/-- **`evaluate` is idempotent**: a complete result is a fixed point of `evaluate` over every table -/
theorem evaluateE_idempotent {lk : Bytes → Lookup} {a : Arg} {ev : Ev} {a' : Arg}
    (h : evaluateE lk isReg a = .ok ev a') (hc : ev.cause = none) (lk' : Bytes → Lookup) :
    evaluateE lk' isReg a' = .ok ⟨false, none⟩ a' := NF_stable (evaluateE_NF h hc) lk'

end

end Trion.Simp
