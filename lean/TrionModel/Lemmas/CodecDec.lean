import TrionModel.Lemmas.CodecTab0
import TrionModel.Lemmas.CodecTab1
import TrionModel.Lemmas.CodecTab2
import TrionModel.Lemmas.CodecTab3
import TrionModel.Lemmas.CodecTab4
import TrionModel.Lemmas.CodecTab5
import TrionModel.Lemmas.CodecTab6
import TrionModel.Lemmas.CodecTab7
import TrionModel.Lemmas.CodecRt
/-! Facts about the decoder over all bit patterns: the 16-bit half from the kernel-evaluated table,
the 32-bit half structurally. -/
namespace Trion.Codec
open Trion

theorem chk16_all (h : Nat) (ht : h / 2048 < 29) : chk16 h = true := by
  have key : ∀ k a b, (32 * k + a) * 256 + b = h → chk16 ((32 * k + a) * 256 + b) = true → chk16 h = true := by
    intro k a b e c; rw [e] at c; exact c
  rcases (by omega : h / 8192 = 0 ∨ h / 8192 = 1 ∨ h / 8192 = 2 ∨ h / 8192 = 3 ∨ h / 8192 = 4 ∨ h / 8192 = 5 ∨
      h / 8192 = 6 ∨ h / 8192 = 7) with e | e | e | e | e | e | e | e
  · exact key 0 (h / 256 % 32) (h % 256) (by omega) (chkBlock0 ⟨h / 256 % 32, by omega⟩ ⟨h % 256, by omega⟩)
  · exact key 1 (h / 256 % 32) (h % 256) (by omega) (chkBlock1 ⟨h / 256 % 32, by omega⟩ ⟨h % 256, by omega⟩)
  · exact key 2 (h / 256 % 32) (h % 256) (by omega) (chkBlock2 ⟨h / 256 % 32, by omega⟩ ⟨h % 256, by omega⟩)
  · exact key 3 (h / 256 % 32) (h % 256) (by omega) (chkBlock3 ⟨h / 256 % 32, by omega⟩ ⟨h % 256, by omega⟩)
  · exact key 4 (h / 256 % 32) (h % 256) (by omega) (chkBlock4 ⟨h / 256 % 32, by omega⟩ ⟨h % 256, by omega⟩)
  · exact key 5 (h / 256 % 32) (h % 256) (by omega) (chkBlock5 ⟨h / 256 % 32, by omega⟩ ⟨h % 256, by omega⟩)
  · exact key 6 (h / 256 % 32) (h % 256) (by omega) (chkBlock6 ⟨h / 256 % 32, by omega⟩ ⟨h % 256, by omega⟩)
  · exact key 7 (h / 256 % 32) (h % 256) (by omega) (chkBlock7 ⟨h / 256 % 32, by omega⟩ ⟨h % 256, by omega⟩)

/-- outcome shapes of `decode16` below the 32-bit space -/
inductive Out16 (h : Nat) : DecRes → Prop where
  | ok (i : Instr) (h' : Nat) (e : encode i = .ok [h']) (t : h' / 2048 < 29) (b : h' < 65536)
      (d : decode16 h' = .ok (2, i)) : Out16 h (.ok (2, i))
  | undefined : Out16 h (.error (.undefined h none))
  | unpredictable : Out16 h (.error (.unpredictable h none))
  | reserved : Out16 h (.error (.reserved h none))

theorem decode16_out (h : Nat) (ht : h / 2048 < 29) : Out16 h (decode16 h) := by
  have c := chk16_all h ht
  unfold chk16 at c
  split at c
  · rename_i n i hd
    simp only [Bool.and_eq_true, beq_iff_eq] at c
    obtain ⟨rfl, c⟩ := c
    split at c
    · rename_i h' he
      simp only [Bool.or_eq_true, beq_iff_eq, Bool.and_eq_true, decide_eq_true_eq] at c
      rcases c with rfl | ⟨⟨t, tb⟩, c⟩
      · rw [hd]; exact .ok i _ he ht (by omega) hd
      · split at c
        · rename_i n' i' hd'
          simp only [Bool.and_eq_true, beq_iff_eq, decide_eq_true_eq] at c
          obtain ⟨rfl, rfl⟩ := c
          rw [hd]; exact .ok _ _ he t tb hd'
        · cases c
    · cases c
  · rename_i a hd; simp only [beq_iff_eq] at c; subst c; rw [hd]; exact .undefined
  · rename_i a hd; simp only [beq_iff_eq] at c; subst c; rw [hd]; exact .unpredictable
  · rename_i a hd; simp only [beq_iff_eq] at c; subst c; rw [hd]; exact .reserved
  · cases c

end Trion.Codec

namespace Trion.Codec
open Trion

theorem enc_msr_ok (s : SysReg) (r : Reg) (h : ¬ (r.val = 13 ∨ r.val = 15)) :
    ∃ w0 w1, encode (.msr s r) = .ok [w0, w1] := ⟨_, _, by simp only [encode]; rw [if_neg h]⟩
theorem enc_mrs_ok (r : Reg) (s : SysReg) (h : ¬ (r.val = 13 ∨ r.val = 15)) :
    ∃ w0 w1, encode (.mrs r s) = .ok [w0, w1] := ⟨_, _, by simp only [encode]; rw [if_neg h]⟩
theorem enc_bl_ok (off : Int) (h : ¬ (off < -16777216 ∨ off ≥ 16777216 ∨ off % 2 ≠ 0)) :
    ∃ w0 w1, encode (.bl off) = .ok [w0, w1] := ⟨_, _, by simp only [encode]; rw [if_neg h]⟩

theorem bl_range (i1 i2 a b s : Nat) (hi1 : i1 ≤ 1) (hi2 : i2 ≤ 1) (ha : a < 1024) (hb : b < 2048) (hs : s ≤ 1) :
    ¬ ((((i1 * 8388608 + i2 * 4194304 + a * 4096 + b * 2 : Nat) : Int) - ((s * 16777216 : Nat) : Int)) < -16777216 ∨
       (((i1 * 8388608 + i2 * 4194304 + a * 4096 + b * 2 : Nat) : Int) - ((s * 16777216 : Nat) : Int)) ≥ 16777216 ∨
       (((i1 * 8388608 + i2 * 4194304 + a * 4096 + b * 2 : Nat) : Int) - ((s * 16777216 : Nat) : Int)) % 2 ≠ 0) := by
  omega

theorem bl_wf (i1 i2 a b s : Nat) (hi1 : i1 ≤ 1) (hi2 : i2 ≤ 1) (ha : a < 1024) (hb : b < 2048) (hs : s ≤ 1) :
    (Instr.bl (((i1 * 8388608 + i2 * 4194304 + a * 4096 + b * 2 : Nat) : Int) - ((s * 16777216 : Nat) : Int))).wf := by
  simp only [Instr.wf, inI32]; omega

/-- outcome shapes of `decode32` -/
inductive Out32 (h0 h1 : Nat) : DecRes → Prop where
  | ok (i : Instr) (e : ∃ w0 w1, encode i = .ok [w0, w1]) (wf : i.wf) : Out32 h0 h1 (.ok (4, i))
  | undefined : Out32 h0 h1 (.error (.undefined h0 (some h1)))
  | unpredictable : Out32 h0 h1 (.error (.unpredictable h0 (some h1)))
  | reserved : Out32 h0 h1 (.error (.reserved h0 (some h1)))

theorem decode32_out (h0 h1 : Nat) : Out32 h0 h1 (decode32 h0 h1) := by
  unfold decode32 decBarrier
  simp only [withReg]
  repeat' split
  all_goals try simp only [Fin.val_ofNat] at *
  all_goals first
    | exact .undefined
    | exact .unpredictable
    | exact .reserved
    | (exfalso; omega)
    | (refine .ok _ ⟨_, _, rfl⟩ ?_; simp only [Instr.wf]; done)
    | (refine .ok _ (enc_msr_ok _ _ ?_) ?_ <;> (try simp only [Instr.wf, Fin.val_ofNat]) <;> omega)
    | (refine .ok _ (enc_mrs_ok _ _ ?_) ?_ <;> (try simp only [Instr.wf, Fin.val_ofNat]) <;> omega)
    | (refine .ok _ ⟨_, _, rfl⟩ ?_; simp only [Instr.wf]; omega)
    | (refine .ok _ (enc_bl_ok _ (bl_range _ _ _ _ _ ?_ ?_ ?_ ?_ ?_)) (bl_wf _ _ _ _ _ ?_ ?_ ?_ ?_ ?_) <;> omega)

end Trion.Codec
