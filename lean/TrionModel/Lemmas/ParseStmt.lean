import TrionModel.Lemmas.ParseRender
import TrionModel.Lemmas.ParseAll
/-!
# Statements: a rendered label / directive / instruction is read back by `element`
-/
namespace Trion.Parse

theorem pargs_head : (as : PArgs) → as ≠ .nil → ∃ v vs, Render.pargs as = v :: vs ∧ Tok.startsExpr v = true
  | .nil, h => absurd rfl h
  | .cons a .nil, _ => by
    obtain ⟨v, vs, h, hv⟩ := parg_head 0 a
    exact ⟨v, vs, by simp only [Render.pargs, h], hv⟩
  | .cons a (.cons b bs), _ => by
    obtain ⟨v, vs, h, hv⟩ := parg_head 0 a
    exact ⟨v, vs ++ .sep :: Render.pargs (.cons b bs), by simp only [Render.pargs, h, List.cons_append], hv⟩

theorem startsExpr_not_labelMark {v : Tok} (h : Tok.startsExpr v = true) : v ≠ .labelMark := by
  intro e; subst e; cases h

theorem label_ok (lo : LexOut) (name : Bytes) (first lm : Token) (more : List Token)
    (hf : first.val = .ident name) (hl : lm.val = .labelMark) :
    element lo first (lm :: more) = .ok (⟨first.line, first.col, .label name⟩, more) := by
  unfold element
  rw [hf]
  simp only [hl, if_true]

theorem directive_ok (lo : LexOut) (name : Bytes) (as : PArgs) (hwf : as.wf) (first tn tt : Token) (ta more : List Token)
    (hf : first.val = .dirMark) (hn : tn.val = .ident name) (hta : ta.map (·.val) = Render.pargs as)
    (htt : tt.val = .term) :
    element lo first (tn :: (ta ++ tt :: more)) = .ok (⟨first.line, first.col, .directive name as.erase⟩, more) := by
  unfold element
  rw [hf]
  simp only [hn]
  rw [(fits_pargs lo as hwf ta hta).args tt more (by rw [htt]; rfl)]
  rfl

theorem instruction_ok (lo : LexOut) (name : Bytes) (as : PArgs) (hwf : as.wf) (first tt : Token) (ta more : List Token)
    (hf : first.val = .ident name) (hta : ta.map (·.val) = Render.pargs as) (htt : tt.val = .term) :
    element lo first (ta ++ tt :: more) = .ok (⟨first.line, first.col, .instruction name as.erase⟩, more) := by
  have hargs := (fits_pargs lo as hwf ta hta).args tt more (by rw [htt]; rfl)
  -- the token after the name is not `:`
  have hne : ∃ t1 r1, ta ++ tt :: more = t1 :: r1 ∧ t1.val ≠ .labelMark := by
    by_cases hnil : as = .nil
    · subst hnil
      simp only [Render.pargs] at hta
      rw [map_eq_nil' hta]
      exact ⟨tt, more, rfl, by rw [htt]; intro e; cases e⟩
    · obtain ⟨v, vs, hv, hs⟩ := pargs_head as hnil
      obtain ⟨t1, ta', rfl, ht1, _⟩ := exists_of_map_eq_cons (hta.trans hv)
      exact ⟨t1, ta' ++ tt :: more, rfl, by rw [ht1]; exact startsExpr_not_labelMark hs⟩
  obtain ⟨t1, r1, he, hlm⟩ := hne
  unfold element
  rw [hf]
  simp only []
  rw [he] at hargs ⊢
  simp only [if_neg hlm]
  rw [hargs]
  rfl

/-- a rendered statement is read back by `do_next` -/
theorem element_render (lo : LexOut) (ev : ElemVal) (hwf : ev.wf) (first : Token) (body more : List Token)
    (hts : (first :: body).map (·.val) = Render.elemVal ev) :
    element lo first (body ++ more) = .ok (⟨first.line, first.col, ev⟩, more) := by
  cases ev with
  | label name =>
    simp only [Render.elemVal, List.map_cons] at hts
    obtain ⟨hf, hb⟩ := List.cons.inj hts
    obtain ⟨lm, b', rfl, hlm, hn⟩ := exists_of_map_eq_cons hb
    rw [map_eq_nil' hn]
    exact label_ok lo name first lm more hf hlm
  | directive name as =>
    simp only [Render.elemVal, List.map_cons] at hts
    obtain ⟨hf, hb⟩ := List.cons.inj hts
    obtain ⟨tn, b1, rfl, hn, hb1⟩ := exists_of_map_eq_cons hb
    obtain ⟨ta, b2, rfl, hta, hb2⟩ := exists_of_map_eq_append hb1
    obtain ⟨tt, b3, rfl, htt, hnil⟩ := exists_of_map_eq_cons hb2
    rw [map_eq_nil' hnil]
    have := directive_ok lo name (PArgs.ofArgs as) (wf_ofArgs as hwf.2) first tn tt ta more hf hn
      (by rw [pargs_ofArgs]; exact hta) htt
    rw [erase_ofArgs] at this
    simpa using this
  | instruction name as =>
    simp only [Render.elemVal, List.map_cons] at hts
    obtain ⟨hf, hb⟩ := List.cons.inj hts
    obtain ⟨ta, b2, rfl, hta, hb2⟩ := exists_of_map_eq_append hb
    obtain ⟨tt, b3, rfl, htt, hnil⟩ := exists_of_map_eq_cons hb2
    rw [map_eq_nil' hnil]
    have := instruction_ok lo name (PArgs.ofArgs as) (wf_ofArgs as hwf.2) first tt ta more hf
      (by rw [pargs_ofArgs]; exact hta) htt
    rw [erase_ofArgs] at this
    simpa using this

/-- tokens of a program given as (statement, first token, remaining tokens) triples -/
def progToks (prog : List (ElemVal × Token × List Token)) : List Token :=
  prog.flatMap fun x => x.2.1 :: x.2.2

/-- the elements such a program denotes: each statement at the position of its first token -/
def progElems (prog : List (ElemVal × Token × List Token)) : List Element :=
  prog.map fun x => ⟨x.2.1.line, x.2.1.col, x.1⟩

theorem allLoop_render (lo : LexOut) (hlo : lo.err = none) :
    ∀ (prog : List (ElemVal × Token × List Token)),
      (∀ x ∈ prog, x.1.wf ∧ (x.2.1 :: x.2.2).map (·.val) = Render.elemVal x.1) →
      ∀ n, (progToks prog).length < n → allLoop lo n (progToks prog) = .done (progElems prog) none := by
  intro prog
  induction prog with
  | nil =>
    intro _ n hn
    cases n with
    | zero => omega
    | succ n => simp [progToks, progElems, allLoop, hlo]
  | cons x prog ih =>
    intro h n hn
    obtain ⟨ev, first, body⟩ := x
    have hx := h (ev, first, body) (List.mem_cons_self ..)
    have e : progToks ((ev, first, body) :: prog) = first :: (body ++ progToks prog) := by
      simp [progToks]
    rw [e] at hn ⊢
    cases n with
    | zero => omega
    | succ n =>
      simp only [allLoop]
      rw [element_render lo ev hx.1 first body (progToks prog) hx.2]
      simp only []
      rw [ih (fun y hy => h y (List.mem_cons_of_mem _ hy)) n (by simp only [List.length_cons, List.length_append] at hn; omega)]
      rfl

end Trion.Parse
