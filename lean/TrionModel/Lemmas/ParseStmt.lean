import TrionModel.Lemmas.ParseRender
import TrionModel.Lemmas.ParseAll
/-!
# Statements: a rendered label / directive / instruction is read back by `element`
-/
namespace Trion.Parse

theorem pargs_head : (as : PArgs) → as ≠ .nil → ∃ v vs, Render.pargs as = v :: vs ∧ Tok.startsExpr v = true
  | .nil, h => absurd rfl h
  | .cons a .nil, _ => by
    obtain ⟨v, vs, h, hv⟩ := parg_head 0 a
    exact ⟨v, vs, by simp only [Render.pargs, h], hv⟩
  | .cons a (.cons b bs), _ => by
    obtain ⟨v, vs, h, hv⟩ := parg_head 0 a
    exact ⟨v, vs ++ .sep :: Render.pargs (.cons b bs), by simp only [Render.pargs, h, List.cons_append], hv⟩

theorem startsExpr_not_labelMark {v : Tok} (h : Tok.startsExpr v = true) : v ≠ .labelMark := by
  intro e; subst e; cases h

theorem label_ok (lo : LexOut) (name : Bytes) (first lm : Token) (more : List Token)
    (hf : first.val = .ident name) (hl : lm.val = .labelMark) :
    element lo first (lm :: more) = .ok (⟨first.line, first.col, .label name⟩, more) := by
  unfold element
  rw [hf]
  simp only [hl, if_true]

theorem directive_ok (lo : LexOut) (name : Bytes) (as : PArgs) (hwf : as.wf) (first tn tt : Token) (ta more : List Token)
    (hf : first.val = .dirMark) (hn : tn.val = .ident name) (hta : ta.map (·.val) = Render.pargs as)
    (htt : tt.val = .term) :
    element lo first (tn :: (ta ++ tt :: more)) = .ok (⟨first.line, first.col, .directive name as.erase⟩, more) := by
  unfold element
  rw [hf]
  simp only [hn]
  rw [(fits_pargs lo as hwf ta hta).args tt more (by rw [htt]; rfl)]
  rfl

theorem instruction_ok (lo : LexOut) (name : Bytes) (as : PArgs) (hwf : as.wf) (first tt : Token) (ta more : List Token)
    (hf : first.val = .ident name) (hta : ta.map (·.val) = Render.pargs as) (htt : tt.val = .term) :
    element lo first (ta ++ tt :: more) = .ok (⟨first.line, first.col, .instruction name as.erase⟩, more) := by
  have hargs := (fits_pargs lo as hwf ta hta).args tt more (by rw [htt]; rfl)
  -- the token after the name is not `:`
  have hne : ∃ t1 r1, ta ++ tt :: more = t1 :: r1 ∧ t1.val ≠ .labelMark := by
    by_cases hnil : as = .nil
    · subst hnil
      simp only [Render.pargs] at hta
      rw [map_eq_nil' hta]
      exact ⟨tt, more, rfl, by rw [htt]; intro e; cases e⟩
    · obtain ⟨v, vs, hv, hs⟩ := pargs_head as hnil
      obtain ⟨t1, ta', rfl, ht1, _⟩ := exists_of_map_eq_cons (hta.trans hv)
      exact ⟨t1, ta' ++ tt :: more, rfl, by rw [ht1]; exact startsExpr_not_labelMark hs⟩
  obtain ⟨t1, r1, he, hlm⟩ := hne
  unfold element
  rw [hf]
  simp only []
  rw [he] at hargs ⊢
  simp only [if_neg hlm]
  rw [hargs]
  rfl

end Trion.Parse
