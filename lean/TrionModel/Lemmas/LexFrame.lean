import TrionModel.Lemmas.LexExact
/-!
# Layouts compose (framing), and the older piece lists are layouts
-/
namespace Trion.Lex
open Trion.Pos (adv isCont)

/-- a layout in front of the text `next` (no condition on `next`) -/
def LOkTo : List LTok → Bytes → Prop
  | [], _ => True
  | x :: r, next => IsSep x.sep ∧ Spell x.spell x.tok (ltext r next).head? ∧ LOkTo r next

theorem lok_iff (L : List LTok) (trail : Bytes) : LOk L trail ↔ LOkTo L trail ∧ IsSepEnd trail := by
  induction L with
  | nil => simp [LOk, LOkTo]
  | cons x r ih => simp only [LOk, LOkTo, ih]; constructor <;> (intro h; simp_all)

theorem ltext_append (L1 L2 : List LTok) (trail : Bytes) : ltext (L1 ++ L2) trail = ltext L1 (ltext L2 trail) := by
  induction L1 with
  | nil => rfl
  | cons x r ih => simp [ltext, ih]

theorem ltext_split (L : List LTok) (next : Bytes) : ltext L next = ltext L [] ++ next := by
  induction L with
  | nil => rfl
  | cons x r ih => simp only [ltext]; rw [ih]; simp

theorem ltoks_append (pre : Bytes) (L1 L2 : List LTok) :
    ltoks pre (L1 ++ L2) = ltoks pre L1 ++ ltoks (pre ++ ltext L1 []) L2 := by
  induction L1 generalizing pre with
  | nil => simp [ltoks, ltext]
  | cons x r ih => simp [ltoks, ltext, ih, List.append_assoc]

/-- **framing**: a layout placed in front of another layout is a layout -/
theorem lok_append {L1 L2 : List LTok} {trail : Bytes} (h1 : LOkTo L1 (ltext L2 trail)) (h2 : LOk L2 trail) :
    LOk (L1 ++ L2) trail := by
  induction L1 with
  | nil => exact h2
  | cons x r ih =>
    obtain ⟨a, b, c⟩ := h1
    refine ⟨a, ?_, ih c⟩
    show Spell x.spell x.tok (ltext (r ++ L2) trail).head?
    rw [ltext_append]; exact b

/-- the tokens of a framed text: those of the front part, then those of the back part positioned after it -/
theorem tokens_frame (L1 L2 : List LTok) (trail : Bytes) (h1 : LOkTo L1 (ltext L2 trail)) (h2 : LOk L2 trail) :
    tokens (ltext L1 [] ++ ltext L2 trail) =
      .ok ⟨ltoks [] L1 ++ ltoks (ltext L1 []) L2, none,
        (Pos.of (ltext L1 [] ++ ltext L2 trail)).1, (Pos.of (ltext L1 [] ++ ltext L2 trail)).2⟩ := by
  have := tokens_layout (L1 ++ L2) trail (lok_append h1 h2)
  rw [ltext_append, ltext_split L1, ltoks_append] at this
  simpa using this

/-! ### the piece lists of `LexPieces` are layouts -/

theorem spell_of_tokOk {bs : Bytes} {t : Tok} {nx : Option UInt8} (h : TokOk bs t nx) : Spell bs t nx := by
  cases h with
  | punct c t nx hp h47 => exact Spell.punct c t nx hp h47
  | ident s nx hs hf => exact Spell.ident _ nx hs hf
  | num r ds v nx a b c d e => exact Spell.num r ds v nx a b c d e

/-- pieces → layout; `acc` is the white space collected in front of the next token -/
def toLayout : List Piece → Bytes → List LTok × Bytes
  | [], acc => ([], acc)
  | .ws w :: r, acc => toLayout r (acc ++ w)
  | .tok bs t :: r, acc => (⟨acc, bs, t⟩ :: (toLayout r []).1, (toLayout r []).2)

theorem toLayout_text (ps : List Piece) (acc : Bytes) :
    ltext (toLayout ps acc).1 (toLayout ps acc).2 = acc ++ pbytes ps := by
  induction ps generalizing acc with
  | nil => simp [toLayout, ltext, pbytes]
  | cons p r ih =>
    cases p with
    | ws w => simp [toLayout, pbytes, Piece.bytes, ih]
    | tok bs t => simp [toLayout, ltext, pbytes, Piece.bytes, ih]

theorem firstOr_none' (d : Bytes) : firstOr d none = d.head? := by cases d <;> rfl

theorem toLayout_ok (ps : List Piece) (hv : Valid ps none) (acc : Bytes) (hacc : ∀ x ∈ acc, isSpace x = true) :
    LOk (toLayout ps acc).1 (toLayout ps acc).2 := by
  induction ps generalizing acc with
  | nil => exact Or.inl (isSep_ws acc hacc)
  | cons p r ih =>
    cases p with
    | ws w =>
      exact ih hv.2 (acc ++ w) (by intro x hx; simp at hx; rcases hx with hx | hx; exact hacc x hx; exact hv.1 x hx)
    | tok bs t =>
      refine ⟨isSep_ws acc hacc, ?_, ih hv.2 [] (by simp)⟩
      show Spell bs t (ltext (toLayout r []).1 (toLayout r []).2).head?
      rw [toLayout_text, List.nil_append, ← firstOr_none']
      exact spell_of_tokOk hv.1

theorem toLayout_toks (ps : List Piece) (pre acc : Bytes) :
    ltoks pre (toLayout ps acc).1 = lexed (Pos.of (pre ++ acc)) ps := by
  induction ps generalizing pre acc with
  | nil => rfl
  | cons p r ih =>
    cases p with
    | ws w =>
      simp only [toLayout, lexed]
      rw [ih, ← List.append_assoc, Pos.of_append (pre ++ acc) w]
    | tok bs t =>
      simp only [toLayout, ltoks, lexed]
      rw [ih, List.append_nil, ← Pos.of_append]

end Trion.Lex
