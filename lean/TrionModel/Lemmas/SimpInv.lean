import TrionModel.Lemmas.SimpBasic
/-!
# The "no missed simplification" invariant (kills the `assert!`s of `search`)

`nb a`: no binary node of `a` has two constant children and no `Negate` node has a constant child.
Every tree produced by `simplify_raw` from `nb` children is `nb`, and on an `nb` tree `search` never
meets a node with two constant children — which is all its `assert!` tests.
-/
namespace Trion.Simp
open Trion

/-- is the node `Argument::Constant` -/
def isC (a : Arg) : Bool := (cval a).isSome

@[simp] theorem isC_const (v : Int) : isC (.const v) = true := rfl
@[simp] theorem isC_bin (op : BinOp) (l r : Arg) : isC (.bin op l r) = false := rfl
@[simp] theorem isC_neg (a : Arg) : isC (.neg a) = false := rfl
@[simp] theorem isC_not (a : Arg) : isC (.not a) = false := rfl
@[simp] theorem isC_ident (a : Bytes) : isC (.ident a) = false := rfl

theorem cval_none_iff {a : Arg} : cval a = none ↔ isC a = false := by
  cases a <;> simp [cval, isC]
theorem cval_some_isC {a : Arg} {c : Int} (h : cval a = some c) : isC a = true := by
  simp [isC, h]
theorem cval_some_eq {a : Arg} {c : Int} (h : cval a = some c) : a = .const c := by
  cases a <;> simp_all [cval]

mutual
def nb : Arg → Bool
  | .bin _ l r => nb l && nb r && !(isC l && isC r)
  | .neg a => nb a && !isC a
  | .not a => nb a
  | .addr a => nb a
  | .seq as => nbs as
  | .func _ as => nbs as
  | _ => true
def nbs : Args → Bool
  | .nil => true
  | .cons a as => nb a && nbs as
end

theorem nb_bin {op : BinOp} {l r : Arg} :
    nb (.bin op l r) = true ↔ (nb l = true ∧ nb r = true ∧ ¬ (isC l = true ∧ isC r = true)) := by
  simp only [nb, Bool.and_eq_true, Bool.not_eq_true', Bool.and_eq_false_iff, and_assoc]
  cases isC l <;> cases isC r <;> simp
theorem nb_neg {a : Arg} : nb (.neg a) = true ↔ (nb a = true ∧ isC a = false) := by
  simp [nb]

/-! ### the inversion flag only flips the sign that `search` reports -/

def Find.flip (i : Bool) : Find → Find
  | .found c s => .found c (s ^^ i)
  | f => f

@[simp] theorem Find.flip_false (f : Find) : f.flip false = f := by cases f <;> simp [Find.flip]

theorem findC_inv (ty : BinOp) (a : Arg) (i : Bool) : findC ty a i = (findC ty a false).flip i := by
  induction a using Arg.ind generalizing i with
  | bin op l r ihl ihr =>
    simp only [findC]
    by_cases h1 : chainOp op = true
    · by_cases h2 : sameFam ty op = true
      · simp only [h1, h2, if_true]
        cases hl : cval l with
        | some cl => cases hr : cval r <;> simp [Find.flip]
        | none =>
          cases hr : cval r with
          | some cr => simp [Find.flip, Bool.xor_comm]
          | none =>
            simp only
            rw [ihl i]
            cases hfl : findC ty l false with
            | found c s => simp [Find.flip]
            | panic => simp [Find.flip]
            | none =>
              simp only [Find.flip]
              rw [ihr (i ^^ (op == .sub)), ihr (false ^^ (op == .sub))]
              cases hfr : findC ty r false with
              | found c s =>
                simp only [Find.flip, Bool.false_xor]
                generalize (op == BinOp.sub) = b
                cases b <;> cases i <;> cases s <;> rfl
              | panic => simp [Find.flip]
              | none => simp [Find.flip]
      · simp [h1, h2, Find.flip]
    · by_cases h3 : (op == .div) = true
      · by_cases h4 : (ty == .div) = true
        · simp only [h1, h3, h4, if_true]
          cases hl : cval l with
          | some cl => cases hr : cval r <;> simp [Find.flip]
          | none =>
            cases hr : cval r with
            | some cr => simp [Find.flip]
            | none => exact ihl i
        · simp [h1, h3, h4, Find.flip]
      · simp [h1, h3, Find.flip]
  | neg v ih =>
    simp only [findC]
    by_cases h : isAddSub ty = true
    · simp only [h, if_true]
      rw [ih (!i), ih (!false)]
      cases findC ty v false <;> simp [Find.flip]
    · simp [h, Find.flip]
  | _ => simp [findC, Find.flip]

theorem findC_isFound_inv (ty : BinOp) (a : Arg) (i : Bool) :
    (findC ty a i).isFound = (findC ty a false).isFound := by
  rw [findC_inv]; cases findC ty a false <;> simp [Find.flip, Find.isFound]

theorem findC_panic_inv (ty : BinOp) (a : Arg) (i : Bool) :
    findC ty a i = .panic ↔ findC ty a false = .panic := by
  rw [findC_inv]; cases findC ty a false <;> simp [Find.flip]

/-- on an `nb` tree the `assert!` of `search` cannot fire -/
theorem findC_ne_panic (ty : BinOp) (a : Arg) (h : nb a = true) (i : Bool) : findC ty a i ≠ .panic := by
  induction a using Arg.ind generalizing i with
  | bin op l r ihl ihr =>
    obtain ⟨hl, hr, hlr⟩ := nb_bin.1 h
    simp only [findC]
    have hnot : ∀ cl cr, cval l = some cl → cval r = some cr → False :=
      fun cl cr h1 h2 => hlr ⟨cval_some_isC h1, cval_some_isC h2⟩
    split
    · split
      · cases hcl : cval l with
        | some cl =>
          cases hcr : cval r with
          | some cr => exact (hnot cl cr hcl hcr).elim
          | none => simp
        | none =>
          cases hcr : cval r with
          | some cr => simp
          | none =>
            simp only
            have h1 := ihl hl i
            cases hfl : findC ty l i with
            | found c s => simp
            | panic => exact (h1 hfl).elim
            | none => exact ihr hr _
      · simp
    · split
      · split
        · cases hcl : cval l with
          | some cl =>
            cases hcr : cval r with
            | some cr => exact (hnot cl cr hcl hcr).elim
            | none => simp
          | none =>
            cases hcr : cval r with
            | some cr => simp
            | none => exact ihl hl i
        · simp
      · simp
  | neg v ih =>
    simp only [findC]
    split
    · exact ih (nb_neg.1 h).1 _
    · simp
  | _ => simp [findC]

/-! ### `neutralize_raw` / `neutralize` keep the invariant and never panic -/

theorem stripNeg_nb (r : Arg) (h : nb r = true) (s : Bool) :
    nb (stripNeg s r).2.1 = true ∧ (isC (stripNeg s r).2.1 = true → isC r = true) := by
  induction r using Arg.ind generalizing s with
  | neg n ih =>
    obtain ⟨hn, hc⟩ := nb_neg.1 h
    have := ih hn (!s)
    simp only [stripNeg]
    refine ⟨this.1, fun h1 => ?_⟩
    have := this.2 h1
    simp [hc] at this
  | _ => simp_all [stripNeg]

theorem normAddSub_nb {s : Bool} {r : Arg} {ch s' : Bool} {r' : Arg} (h : nb r = true)
    (he : normAddSub s r = .ok (ch, s', r')) : nb r' = true ∧ (isC r' = true → isC r = true) := by
  unfold normAddSub at he
  have hs := stripNeg_nb r h s
  cases hc : cval (stripNeg s r).2.1 with
  | none =>
    simp only [hc, Res.ok.injEq, Prod.mk.injEq] at he
    obtain ⟨_, _, rfl⟩ := he
    exact hs
  | some v =>
    simp only [hc] at he
    by_cases hv : v < 0
    · simp only [hv, if_true] at he
      cases hn : checkedNeg v with
      | none => simp [hn] at he
      | some nv =>
        simp only [hn, Res.ok.injEq, Prod.mk.injEq] at he
        obtain ⟨_, _, rfl⟩ := he
        exact ⟨rfl, fun _ => hs.2 (cval_some_isC hc)⟩
    · simp only [hv, if_false, Res.ok.injEq, Prod.mk.injEq] at he
      obtain ⟨_, _, rfl⟩ := he
      exact hs

theorem neutralMain_nb {op : BinOp} {l r : Arg} (hl : nb l = true) (hr : nb r = true)
    (hlr : ¬ (isC l = true ∧ isC r = true)) :
    nb (neutralMain op l r) = true ∧ isC (neutralMain op l r) = false := by
  have hb : nb (.bin op l r) = true := nb_bin.2 ⟨hl, hr, hlr⟩
  unfold neutralMain
  cases hcl : cval l with
  | some v =>
    have hrc : isC r = false := by
      cases h : isC r
      · rfl
      · exact (hlr ⟨cval_some_isC hcl, h⟩).elim
    simp only
    split
    · exact ⟨hr, hrc⟩
    · split
      · exact ⟨nb_neg.2 ⟨hr, hrc⟩, rfl⟩
      · exact ⟨hb, rfl⟩
  | none =>
    simp only
    cases hcr : cval r with
    | some v =>
      simp only
      split
      · exact ⟨hl, cval_none_iff.1 hcl⟩
      · exact ⟨hb, rfl⟩
    | none => exact ⟨hb, rfl⟩

theorem neutralTail_nb {ch : Bool} {op : BinOp} {l r : Arg} {c : Bool} {a' : Arg} (hl : nb l = true)
    (hr : nb r = true) (hlr : ¬ (isC l = true ∧ isC r = true))
    (he : neutralTail ch op l r = .ok (c, a')) : nb a' = true ∧ isC a' = false := by
  unfold neutralTail at he
  split at he
  · simp at he
  · split at he
    · simp at he
    · simp only [Res.ok.injEq, Prod.mk.injEq] at he
      obtain ⟨_, rfl⟩ := he
      exact neutralMain_nb hl hr hlr

theorem neutralizeBin_nb {op : BinOp} {l r : Arg} {c : Bool} {a' : Arg} (h : nb (.bin op l r) = true)
    (he : neutralizeBin op l r = .ok (c, a')) : nb a' = true ∧ isC a' = false := by
  obtain ⟨hl, hr, hlr⟩ := nb_bin.1 h
  simp only [neutralizeBin] at he
  split at he
  · cases hn : normAddSub (decide (op = .sub)) r with
    | ok p =>
      obtain ⟨ch, s', r'⟩ := p
      simp only [hn] at he
      have := normAddSub_nb hr hn
      exact neutralTail_nb hl this.1 (fun ⟨h1, h2⟩ => hlr ⟨h1, this.2 h2⟩) he
    | err e => simp [hn] at he
    | panic => simp [hn] at he
  · exact neutralTail_nb hl hr hlr he

/-! ### the swap at the top of `neutralize_raw` (repair of K5) -/

theorem swapped_ok {x : Res (Bool × Arg)} {c : Bool} {a : Arg} (h : swapped x = .ok (c, a)) :
    c = true ∧ ∃ c', x = .ok (c', a) := by
  cases x with
  | ok p => obtain ⟨c', y⟩ := p; simp only [swapped, Res.ok.injEq, Prod.mk.injEq] at h; exact ⟨h.1.symm, c', by rw [h.2]⟩
  | err e => cases h
  | panic => cases h

theorem swapped_err {x : Res (Bool × Arg)} {e : SimpErr} (h : swapped x = .err e) : x = .err e := by
  cases x with
  | ok p => cases h
  | err e' => simpa [swapped] using h
  | panic => cases h

theorem swapped_panic {x : Res (Bool × Arg)} (h : swapped x = .panic) : x = .panic := by
  cases x with
  | ok p => cases h
  | err e' => cases h
  | panic => rfl

theorem neutralizeRaw_neg_sub (l r : Arg) : neutralizeRaw (.neg (.bin .sub l r)) = swapped (neutralizeBin .sub r l) := by
  simp only [neutralizeRaw]

theorem neutralizeRaw_zero_sub (x y : Arg) :
    neutralizeRaw (.bin .sub (.const 0) (.bin .sub x y)) = swapped (neutralizeBin .sub y x) := by
  simp only [neutralizeRaw, if_true]

/-- a binary node: either the swap `0 - (x - y) ↦ y - x` applies, or `neutralize_raw` is the passes on the node -/
theorem neutralizeRaw_bin_cases (op : BinOp) (l r : Arg) :
    neutralizeRaw (.bin op l r) = neutralizeBin op l r ∨
    ∃ x y, op = .sub ∧ l = .const 0 ∧ r = .bin .sub x y ∧
      neutralizeRaw (.bin op l r) = swapped (neutralizeBin .sub y x) := by
  by_cases h : op = .sub ∧ l = .const 0 ∧ ∃ x y, r = .bin .sub x y
  · obtain ⟨rfl, rfl, x, y, rfl⟩ := h
    exact .inr ⟨x, y, rfl, rfl, rfl, neutralizeRaw_zero_sub x y⟩
  · left
    cases op <;> try rfl
    cases l <;> try rfl
    cases r <;> try rfl
    rename_i c op2 x y
    cases op2 <;> try rfl
    simp only [neutralizeRaw]
    split
    · rename_i hc
      exact absurd ⟨rfl, by rw [hc], x, y, rfl⟩ h
    · rfl

theorem neutralizeRaw_neg_neg (v : Arg) : neutralizeRaw (.neg (.neg v)) = swapped (neutralizeRaw v) := by
  simp only [neutralizeRaw]

/-- induction over the double-negation loop of `neutralize_raw` -/
theorem Arg.negNegInd {P : Arg → Prop} (base : ∀ a, (∀ v, a ≠ .neg (.neg v)) → P a) (step : ∀ v, P v → P (.neg (.neg v))) :
    ∀ a, P a := by
  have key : ∀ a, P a ∧ P (.neg a) := by
    intro a
    induction a using Arg.ind with
    | neg v ih => exact ⟨ih.2, step v ih.1⟩
    | const v => exact ⟨base _ (fun _ h => by cases h), base _ (fun _ h => by cases h)⟩
    | ident v => exact ⟨base _ (fun _ h => by cases h), base _ (fun _ h => by cases h)⟩
    | str v => exact ⟨base _ (fun _ h => by cases h), base _ (fun _ h => by cases h)⟩
    | bin op l r _ _ => exact ⟨base _ (fun _ h => by cases h), base _ (fun _ h => by cases h)⟩
    | not v _ => exact ⟨base _ (fun _ h => by cases h), base _ (fun _ h => by cases h)⟩
    | addr v _ => exact ⟨base _ (fun _ h => by cases h), base _ (fun _ h => by cases h)⟩
    | seq v => exact ⟨base _ (fun _ h => by cases h), base _ (fun _ h => by cases h)⟩
    | func n v => exact ⟨base _ (fun _ h => by cases h), base _ (fun _ h => by cases h)⟩
  exact fun a => (key a).1

/-- a `Negate` node: nothing, the swap, or the double-negation loop -/
theorem neutralizeRaw_neg_cases (v : Arg) :
    neutralizeRaw (.neg v) = .ok (false, .neg v) ∨
    (∃ x y, v = .bin .sub x y ∧ neutralizeRaw (.neg v) = swapped (neutralizeBin .sub y x)) ∨
    (∃ w, v = .neg w ∧ neutralizeRaw (.neg v) = swapped (neutralizeRaw w)) := by
  by_cases h : ∃ x y, v = .bin .sub x y
  · obtain ⟨x, y, rfl⟩ := h
    exact .inr (.inl ⟨x, y, rfl, neutralizeRaw_neg_sub x y⟩)
  · by_cases h' : ∃ w, v = .neg w
    · obtain ⟨w, rfl⟩ := h'
      exact .inr (.inr ⟨w, rfl, neutralizeRaw_neg_neg w⟩)
    · left
      cases v with
      | bin op x y =>
        cases op <;> try rfl
        exact absurd ⟨_, _, rfl⟩ h
      | neg w => exact absurd ⟨w, rfl⟩ h'
      | _ => rfl

theorem neutralizeRaw_other {a : Arg} (h1 : ∀ op l r, a ≠ .bin op l r) (h2 : ∀ v, a ≠ .neg v) :
    neutralizeRaw a = .ok (false, a) := by
  cases a with
  | bin op l r => exact absurd rfl (h1 op l r)
  | neg v => exact absurd rfl (h2 v)
  | _ => rfl

theorem neutralizeRaw_nb {op : BinOp} {l r : Arg} {c : Bool} {a' : Arg} (h : nb (.bin op l r) = true)
    (he : neutralizeRaw (.bin op l r) = .ok (c, a')) : nb a' = true ∧ isC a' = false := by
  rcases neutralizeRaw_bin_cases op l r with h0 | ⟨x, y, rfl, rfl, rfl, h0⟩
  · rw [h0] at he; exact neutralizeBin_nb h he
  · rw [h0] at he
    obtain ⟨_, c', he'⟩ := swapped_ok he
    obtain ⟨_, h2, _⟩ := nb_bin.1 h
    obtain ⟨n1, n2, n3⟩ := nb_bin.1 h2
    exact neutralizeBin_nb (nb_bin.2 ⟨n2, n1, fun ⟨p, q⟩ => n3 ⟨q, p⟩⟩) he'

/-- `neutralize_raw` on any non-constant `nb` tree -/
theorem neutralizeRaw_nb_all : ∀ a, nb a = true → isC a = false → ∀ (c : Bool) (a' : Arg),
    neutralizeRaw a = .ok (c, a') → nb a' = true ∧ isC a' = false := by
  apply Arg.negNegInd
  · intro a hnn hnb hc c a' he
    cases a with
    | bin op l r => exact neutralizeRaw_nb hnb he
    | neg v =>
      obtain ⟨hv, hcv⟩ := nb_neg.1 hnb
      rcases neutralizeRaw_neg_cases v with h0 | ⟨x, y, rfl, h0⟩ | ⟨w, rfl, _⟩
      · rw [h0] at he
        simp only [Res.ok.injEq, Prod.mk.injEq] at he
        obtain ⟨_, rfl⟩ := he
        exact ⟨hnb, rfl⟩
      · rw [h0] at he
        obtain ⟨_, c', he'⟩ := swapped_ok he
        obtain ⟨n1, n2, n3⟩ := nb_bin.1 hv
        exact neutralizeBin_nb (nb_bin.2 ⟨n2, n1, fun ⟨p, q⟩ => n3 ⟨q, p⟩⟩) he'
      · exact absurd rfl (hnn w)
    | const v => simp [isC, cval] at hc
    | ident v => simp only [neutralizeRaw, Res.ok.injEq, Prod.mk.injEq] at he; obtain ⟨_, rfl⟩ := he; exact ⟨hnb, hc⟩
    | str v => simp only [neutralizeRaw, Res.ok.injEq, Prod.mk.injEq] at he; obtain ⟨_, rfl⟩ := he; exact ⟨hnb, hc⟩
    | not v => simp only [neutralizeRaw, Res.ok.injEq, Prod.mk.injEq] at he; obtain ⟨_, rfl⟩ := he; exact ⟨hnb, hc⟩
    | addr v => simp only [neutralizeRaw, Res.ok.injEq, Prod.mk.injEq] at he; obtain ⟨_, rfl⟩ := he; exact ⟨hnb, hc⟩
    | seq v => simp only [neutralizeRaw, Res.ok.injEq, Prod.mk.injEq] at he; obtain ⟨_, rfl⟩ := he; exact ⟨hnb, hc⟩
    | func n v => simp only [neutralizeRaw, Res.ok.injEq, Prod.mk.injEq] at he; obtain ⟨_, rfl⟩ := he; exact ⟨hnb, hc⟩
  · intro v ih hnb _ c a' he
    rw [neutralizeRaw_neg_neg] at he
    obtain ⟨_, c', he'⟩ := swapped_ok he
    obtain ⟨h1, _⟩ := nb_neg.1 hnb
    obtain ⟨h2, h3⟩ := nb_neg.1 h1
    exact ih h2 h3 c' a' he'

/-- `neutralize_raw` on a `Negate` node with an `nb` operand -/
theorem neutralizeRaw_neg_nb {v : Arg} {c : Bool} {a' : Arg} (hv : nb v = true) (hc : isC v = false)
    (he : neutralizeRaw (.neg v) = .ok (c, a')) : nb a' = true ∧ isC a' = false :=
  neutralizeRaw_nb_all (.neg v) (nb_neg.2 ⟨hv, hc⟩) rfl c a' he

theorem normAddSub_ne_panic (s : Bool) (r : Arg) : normAddSub s r ≠ .panic := by
  unfold normAddSub
  cases hc : cval (stripNeg s r).2.1 with
  | none => simp [hc]
  | some v =>
    simp only [hc]
    by_cases hv : v < 0
    · simp only [hv, if_true]
      cases checkedNeg v <;> simp
    · simp [hv]

theorem neutralTail_ne_panic (ch : Bool) (op : BinOp) (l r : Arg) : neutralTail ch op l r ≠ .panic := by
  unfold neutralTail; split
  · simp
  · split <;> simp

theorem neutralizeBin_ne_panic (op : BinOp) (l r : Arg) : neutralizeBin op l r ≠ .panic := by
  simp only [neutralizeBin]
  split
  · cases hn : normAddSub (decide (op = .sub)) r with
    | ok p => exact neutralTail_ne_panic _ _ _ _
    | err e => simp
    | panic => exact (normAddSub_ne_panic _ _ hn).elim
  · exact neutralTail_ne_panic _ _ _ _

theorem neutralizeRaw_ne_panic : ∀ a : Arg, neutralizeRaw a ≠ .panic := by
  apply Arg.negNegInd
  · intro a hnn
    cases a with
    | bin op l r =>
      rcases neutralizeRaw_bin_cases op l r with h0 | ⟨x, y, _, _, _, h0⟩
      · rw [h0]; exact neutralizeBin_ne_panic _ _ _
      · rw [h0]; exact fun h => neutralizeBin_ne_panic _ _ _ (swapped_panic h)
    | neg v =>
      rcases neutralizeRaw_neg_cases v with h0 | ⟨x, y, _, h0⟩ | ⟨w, rfl, _⟩
      · rw [h0]; simp
      · rw [h0]; exact fun h => neutralizeBin_ne_panic _ _ _ (swapped_panic h)
      · exact absurd rfl (hnn w)
    | _ => simp [neutralizeRaw]
  · intro v ih
    rw [neutralizeRaw_neg_neg]
    exact fun h => ih (swapped_panic h)

theorem neutralize_ne_panic_both :
    (∀ a, neutralize a ≠ .panic) ∧ (∀ as, neutralizeArgs as ≠ .panic) := by
  apply Arg.ind2
  case const => intro v; simp [neutralize]
  case ident => intro v; simp [neutralize]
  case str => intro v; simp [neutralize]
  case bin =>
    intro op l r ihl ihr
    simp only [neutralize]
    cases h1 : neutralize l with
    | panic => exact (ihl h1).elim
    | err e => simp
    | ok p =>
      cases h2 : neutralize r with
      | panic => exact (ihr h2).elim
      | err e => simp
      | ok q =>
        simp only
        cases h3 : neutralizeRaw (.bin op p.2 q.2) with
        | panic => exact (neutralizeRaw_ne_panic _ h3).elim
        | err e => simp
        | ok _ => simp
  case neg =>
    intro a ih
    simp only [neutralize]
    cases h1 : neutralize a with
    | panic => exact (ih h1).elim
    | err e => simp
    | ok p =>
      simp only
      cases h3 : neutralizeRaw (.neg p.2) with
      | panic => exact (neutralizeRaw_ne_panic _ h3).elim
      | err e => simp
      | ok _ => simp
  case not =>
    intro a ih
    simp only [neutralize]
    cases h1 : neutralize a with
    | panic => exact (ih h1).elim
    | err e => simp
    | ok p => simp
  case addr =>
    intro a ih
    simp only [neutralize]
    cases h1 : neutralize a with
    | panic => exact (ih h1).elim
    | err e => simp
    | ok p => simp
  case seq =>
    intro as ih
    simp only [neutralize]
    cases h1 : neutralizeArgs as with
    | panic => exact (ih h1).elim
    | err e => simp
    | ok p => simp
  case func =>
    intro n as ih
    simp only [neutralize]
    cases h1 : neutralizeArgs as with
    | panic => exact (ih h1).elim
    | err e => simp
    | ok p => simp
  case nil => simp [neutralizeArgs]
  case cons =>
    intro a as iha ihas
    simp only [neutralizeArgs]
    cases h1 : neutralize a with
    | panic => exact (iha h1).elim
    | err e => simp
    | ok p =>
      cases h2 : neutralizeArgs as with
      | panic => exact (ihas h2).elim
      | err e => simp
      | ok q => simp

theorem neutralize_ne_panic (a : Arg) : neutralize a ≠ .panic := neutralize_ne_panic_both.1 a

theorem neutralize_nb_both :
    (∀ a, nb a = true → ∀ c a', neutralize a = .ok (c, a') → nb a' = true ∧ (isC a' = true → isC a = true)) ∧
    (∀ as, nbs as = true → ∀ c as', neutralizeArgs as = .ok (c, as') → nbs as' = true) := by
  apply Arg.ind2
  case const => intro v _ c a' he; simp only [neutralize, Res.ok.injEq, Prod.mk.injEq] at he; obtain ⟨_, rfl⟩ := he; simp [nb]
  case ident => intro v _ c a' he; simp only [neutralize, Res.ok.injEq, Prod.mk.injEq] at he; obtain ⟨_, rfl⟩ := he; simp [nb]
  case str => intro v _ c a' he; simp only [neutralize, Res.ok.injEq, Prod.mk.injEq] at he; obtain ⟨_, rfl⟩ := he; simp [nb]
  case bin =>
    intro op l r ihl ihr h c a' he
    obtain ⟨hl, hr, hlr⟩ := nb_bin.1 h
    simp only [neutralize] at he
    cases h1 : neutralize l with
    | panic => simp [h1] at he
    | err e => simp [h1] at he
    | ok p =>
      obtain ⟨c1, l'⟩ := p
      cases h2 : neutralize r with
      | panic => simp [h1, h2] at he
      | err e => simp [h1, h2] at he
      | ok q =>
        obtain ⟨c2, r'⟩ := q
        simp only [h1, h2] at he
        have i1 := ihl hl c1 l' h1
        have i2 := ihr hr c2 r' h2
        have hb : nb (.bin op l' r') = true := nb_bin.2 ⟨i1.1, i2.1, fun ⟨x, y⟩ => hlr ⟨i1.2 x, i2.2 y⟩⟩
        cases h3 : neutralizeRaw (.bin op l' r') with
        | panic => simp [h3] at he
        | err e => simp [h3] at he
        | ok w =>
          obtain ⟨c3, a3⟩ := w
          simp only [h3, Res.ok.injEq, Prod.mk.injEq] at he
          obtain ⟨_, rfl⟩ := he
          have := neutralizeRaw_nb hb h3
          exact ⟨this.1, fun h => by simp [this.2] at h⟩
  case neg =>
    intro a ih h c a' he
    obtain ⟨ha, hc⟩ := nb_neg.1 h
    simp only [neutralize] at he
    cases h1 : neutralize a with
    | panic => simp [h1] at he
    | err e => simp [h1] at he
    | ok p =>
      obtain ⟨c1, v'⟩ := p
      simp only [h1] at he
      have i1 := ih ha c1 v' h1
      have hcv : isC v' = false := by
        cases hx : isC v'
        · rfl
        · have := i1.2 hx; simp [hc] at this
      cases h3 : neutralizeRaw (.neg v') with
      | panic => simp [h3] at he
      | err e => simp [h3] at he
      | ok w =>
        obtain ⟨c3, a3⟩ := w
        simp only [h3, Res.ok.injEq, Prod.mk.injEq] at he
        obtain ⟨_, rfl⟩ := he
        have := neutralizeRaw_neg_nb i1.1 hcv h3
        exact ⟨this.1, fun h => by simp [this.2] at h⟩
  case not =>
    intro a ih h c a' he
    simp only [nb] at h
    simp only [neutralize] at he
    cases h1 : neutralize a with
    | panic => simp [h1] at he
    | err e => simp [h1] at he
    | ok p =>
      obtain ⟨c1, v'⟩ := p
      simp only [h1, Res.ok.injEq, Prod.mk.injEq] at he
      obtain ⟨_, rfl⟩ := he
      exact ⟨by simpa [nb] using (ih h c1 v' h1).1, fun h => by simp at h⟩
  case addr =>
    intro a ih h c a' he
    simp only [nb] at h
    simp only [neutralize] at he
    cases h1 : neutralize a with
    | panic => simp [h1] at he
    | err e => simp [h1] at he
    | ok p =>
      obtain ⟨c1, v'⟩ := p
      simp only [h1, Res.ok.injEq, Prod.mk.injEq] at he
      obtain ⟨_, rfl⟩ := he
      exact ⟨by simpa [nb] using (ih h c1 v' h1).1, fun h => by simp [isC, cval] at h⟩
  case seq =>
    intro as ih h c a' he
    simp only [nb] at h
    simp only [neutralize] at he
    cases h1 : neutralizeArgs as with
    | panic => simp [h1] at he
    | err e => simp [h1] at he
    | ok p =>
      obtain ⟨c1, v'⟩ := p
      simp only [h1, Res.ok.injEq, Prod.mk.injEq] at he
      obtain ⟨_, rfl⟩ := he
      exact ⟨by simpa [nb] using ih h c1 v' h1, fun h => by simp [isC, cval] at h⟩
  case func =>
    intro n as ih h c a' he
    simp only [nb] at h
    simp only [neutralize] at he
    cases h1 : neutralizeArgs as with
    | panic => simp [h1] at he
    | err e => simp [h1] at he
    | ok p =>
      obtain ⟨c1, v'⟩ := p
      simp only [h1, Res.ok.injEq, Prod.mk.injEq] at he
      obtain ⟨_, rfl⟩ := he
      exact ⟨by simpa [nb] using ih h c1 v' h1, fun h => by simp [isC, cval] at h⟩
  case nil => intro _ c as' he; simp only [neutralizeArgs, Res.ok.injEq, Prod.mk.injEq] at he; obtain ⟨_, rfl⟩ := he; rfl
  case cons =>
    intro a as iha ihas h c as' he
    simp only [nbs, Bool.and_eq_true] at h
    simp only [neutralizeArgs] at he
    cases h1 : neutralize a with
    | panic => simp [h1] at he
    | err e => simp [h1] at he
    | ok p =>
      obtain ⟨c1, a1⟩ := p
      cases h2 : neutralizeArgs as with
      | panic => simp [h1, h2] at he
      | err e => simp [h1, h2] at he
      | ok q =>
        obtain ⟨c2, as2⟩ := q
        simp only [h1, h2, Res.ok.injEq, Prod.mk.injEq] at he
        obtain ⟨_, rfl⟩ := he
        simp [nbs, (iha h.1 c1 a1 h1).1, ihas h.2 c2 as2 h2]

/-! ### `setC`, `dropC` and the merge keep the invariant -/

theorem setC_nb (ty : BinOp) (n : Int) (a : Arg) (h : nb a = true) :
    nb (setC ty n a) = true ∧ isC (setC ty n a) = isC a := by
  induction a using Arg.ind with
  | bin op l r ihl ihr =>
    obtain ⟨hl, hr, hlr⟩ := nb_bin.1 h
    have hrn : isC l = true → isC r = false := fun h1 => by
      cases h2 : isC r
      · rfl
      · exact (hlr ⟨h1, h2⟩).elim
    simp only [setC]
    split
    · split
      · cases hcl : cval l with
        | some cl =>
          simp only
          exact ⟨nb_bin.2 ⟨rfl, hr, fun ⟨_, h2⟩ => by simp [hrn (cval_some_isC hcl)] at h2⟩, rfl⟩
        | none =>
          cases hcr : cval r with
          | some cr =>
            simp only
            exact ⟨nb_bin.2 ⟨hl, rfl, fun ⟨h1, _⟩ => by simp [cval_none_iff.1 hcl] at h1⟩, rfl⟩
          | none =>
            simp only
            split
            · exact ⟨nb_bin.2 ⟨(ihl hl).1, hr, fun ⟨_, h2⟩ => by simp [cval_none_iff.1 hcr] at h2⟩, rfl⟩
            · exact ⟨nb_bin.2 ⟨hl, (ihr hr).1, fun ⟨h1, _⟩ => by simp [cval_none_iff.1 hcl] at h1⟩, rfl⟩
      · exact ⟨h, rfl⟩
    · split
      · split
        · cases hcl : cval l with
          | some cl =>
            simp only
            exact ⟨nb_bin.2 ⟨rfl, hr, fun ⟨_, h2⟩ => by simp [hrn (cval_some_isC hcl)] at h2⟩, rfl⟩
          | none =>
            cases hcr : cval r with
            | some cr =>
              simp only
              exact ⟨nb_bin.2 ⟨hl, rfl, fun ⟨h1, _⟩ => by simp [cval_none_iff.1 hcl] at h1⟩, rfl⟩
            | none =>
              simp only
              exact ⟨nb_bin.2 ⟨(ihl hl).1, hr, fun ⟨_, h2⟩ => by simp [cval_none_iff.1 hcr] at h2⟩, rfl⟩
        · exact ⟨h, rfl⟩
      · exact ⟨h, rfl⟩
  | neg v ih =>
    obtain ⟨hv, hc⟩ := nb_neg.1 h
    simp only [setC]
    split
    · exact ⟨nb_neg.2 ⟨(ih hv).1, by rw [(ih hv).2]; exact hc⟩, rfl⟩
    · exact ⟨h, rfl⟩
  | _ => exact ⟨h, rfl⟩

theorem dropC_nb (ty : BinOp) (a : Arg) (h : nb a = true) (hf : (findC ty a false).isFound = true) :
    nb (dropC ty a) = true ∧ isC (dropC ty a) = false := by
  induction a using Arg.ind with
  | bin op l r ihl ihr =>
    obtain ⟨hl, hr, hlr⟩ := nb_bin.1 h
    have hrn : isC l = true → isC r = false := fun h1 => by
      cases h2 : isC r
      · rfl
      · exact (hlr ⟨h1, h2⟩).elim
    simp only [dropC]
    simp only [findC] at hf
    split
    · rename_i hch
      simp only [hch, if_true] at hf
      split
      · rename_i hsf
        simp only [hsf, if_true] at hf
        cases hcl : cval l with
        | some cl =>
          simp only
          have hrc := hrn (cval_some_isC hcl)
          split
          · exact ⟨nb_neg.2 ⟨hr, hrc⟩, rfl⟩
          · exact ⟨hr, hrc⟩
        | none =>
          cases hcr : cval r with
          | some cr => exact ⟨hl, cval_none_iff.1 hcl⟩
          | none =>
            simp only [hcl, hcr] at hf
            simp only
            split
            · rename_i hfl
              have := ihl hl hfl
              exact ⟨nb_bin.2 ⟨this.1, hr, fun ⟨h1, _⟩ => by simp [this.2] at h1⟩, rfl⟩
            · rename_i hfl
              have hfr : (findC ty r false).isFound = true := by
                cases hx : findC ty l false with
                | found c s => simp [hx, Find.isFound] at hfl
                | panic => simp [hx, Find.isFound] at hf
                | none =>
                  simp only [hx] at hf
                  rwa [findC_isFound_inv] at hf
              have := ihr hr hfr
              exact ⟨nb_bin.2 ⟨hl, this.1, fun ⟨_, h2⟩ => by simp [this.2] at h2⟩, rfl⟩
      · exact ⟨h, rfl⟩
    · exact ⟨h, rfl⟩
  | neg v ih =>
    obtain ⟨hv, hc⟩ := nb_neg.1 h
    simp only [dropC]
    simp only [findC] at hf
    split
    · rename_i has
      simp only [has, if_true] at hf
      rw [findC_isFound_inv] at hf
      have := ih hv hf
      exact ⟨nb_neg.2 ⟨this.1, this.2⟩, rfl⟩
    · exact ⟨h, rfl⟩
  | _ => simp [findC, Find.isFound] at hf

theorem mergeL_ne_panic (op : BinOp) (l : Arg) (h : nb l = true) : mergeL op l ≠ .panic := by
  unfold mergeL
  cases cval l with
  | some c => simp
  | none => exact findC_ne_panic op l h false

theorem mergeR_ne_panic (op : BinOp) (r : Arg) (h : nb r = true) : mergeR op r ≠ .panic := by
  unfold mergeR
  cases cval r with
  | some c => simp
  | none =>
    simp only
    split
    · simp
    · exact findC_ne_panic op r h _

theorem mergeTree_nb (op : BinOp) (l r : Arg) (c : Int) (hl : nb l = true) (hr : nb r = true)
    (_hlr : ¬ (isC l = true ∧ isC r = true)) (c2 : Int) (s2 : Bool) (hf : mergeR op r = .found c2 s2) :
    nb (mergeTree op l r c) = true := by
  unfold mergeTree
  have hl' : nb (match cval l with | some _ => Arg.const c | none => setC op c l) = true ∧
      isC (match cval l with | some _ => Arg.const c | none => setC op c l) = isC l := by
    cases hcl : cval l with
    | some cl => exact ⟨rfl, (cval_some_isC hcl).symm⟩
    | none => exact setC_nb op c l hl
  cases hcr : cval r with
  | some cr => exact hl'.1
  | none =>
    simp only
    unfold mergeR at hf
    simp only [hcr] at hf
    split at hf
    · simp at hf
    · have hfound : (findC op r false).isFound = true := by
        rw [← findC_isFound_inv op r (preInv op), hf]; rfl
      have := dropC_nb op r hr hfound
      exact nb_bin.2 ⟨hl'.1, this.1, fun ⟨_, h2⟩ => by simp [this.2] at h2⟩

theorem merge_ne_panic (op : BinOp) (l r : Arg) (hl : nb l = true) (hr : nb r = true) :
    merge op l r ≠ .panic := by
  unfold merge
  have h1 := mergeL_ne_panic op l hl
  have h2 := mergeR_ne_panic op r hr
  cases hL : mergeL op l with
  | panic => exact (h1 hL).elim
  | none => cases hR : mergeR op r with
    | panic => exact (h2 hR).elim
    | none => exact neutralizeRaw_ne_panic _
    | found c s => exact neutralizeRaw_ne_panic _
  | found c1 s1 => cases hR : mergeR op r with
    | panic => exact (h2 hR).elim
    | none => exact neutralizeRaw_ne_panic _
    | found c2 s2 =>
      simp only
      cases combine op s1 s2 c1 c2 with
      | error k => simp
      | ok c =>
        simp only
        cases hn : neutralize (mergeTree op l r c) with
        | panic => exact (neutralize_ne_panic _ hn).elim
        | err e => simp
        | ok p => simp

theorem merge_nb (op : BinOp) (l r : Arg) (hl : nb l = true) (hr : nb r = true)
    (hlr : ¬ (isC l = true ∧ isC r = true)) (c : Bool) (a' : Arg) (he : merge op l r = .ok (c, a')) :
    nb a' = true := by
  have hb : nb (.bin op l r) = true := nb_bin.2 ⟨hl, hr, hlr⟩
  unfold merge at he
  cases hL : mergeL op l with
  | panic => simp [hL] at he
  | none =>
    cases hR : mergeR op r with
    | panic => simp [hL, hR] at he
    | none => simp only [hL, hR] at he; exact (neutralizeRaw_nb hb he).1
    | found c s => simp only [hL, hR] at he; exact (neutralizeRaw_nb hb he).1
  | found c1 s1 =>
    cases hR : mergeR op r with
    | panic => simp [hL, hR] at he
    | none => simp only [hL, hR] at he; exact (neutralizeRaw_nb hb he).1
    | found c2 s2 =>
      simp only [hL, hR] at he
      cases hc : combine op s1 s2 c1 c2 with
      | error k => simp [hc] at he
      | ok cc =>
        simp only [hc] at he
        cases hn : neutralize (mergeTree op l r cc) with
        | panic => simp [hn] at he
        | err e => simp [hn] at he
        | ok p =>
          obtain ⟨c3, a3⟩ := p
          simp only [hn, Res.ok.injEq, Prod.mk.injEq] at he
          obtain ⟨_, rfl⟩ := he
          exact (neutralize_nb_both.1 _ (mergeTree_nb op l r cc hl hr hlr c2 s2 hR) c3 a3 hn).1

/-! ### `simplify_raw`, `simplify`, `evaluate` -/

/-- the binary arm of `simplify_raw` after the operand type checks and the direct folding -/
theorem simplifyRaw_bin_rest (op : BinOp) (l r : Arg) (hlr : ¬ (isC l = true ∧ isC r = true)) :
    simplifyRaw (.bin op l r) =
      if isBad l then .err (.badType l.ty op.argTy)
      else if isBad r then .err (.badType r.ty op.argTy)
      else match op with
        | .mod => if modCollapse l r then .ok (true, l) else neutralizeRaw (.bin op l r)
        | .shl | .shr => neutralizeRaw (.bin op l r)
        | _ => merge op l r := by
  simp only [simplifyRaw]
  split
  · rfl
  · split
    · rfl
    · split
      · rename_i a b h1 h2
        exact (hlr ⟨cval_some_isC h1, cval_some_isC h2⟩).elim
      · rfl

theorem simplifyRaw_bin_ne_panic (op : BinOp) (l r : Arg) (hl : nb l = true) (hr : nb r = true) :
    simplifyRaw (.bin op l r) ≠ .panic := by
  by_cases hlr : isC l = true ∧ isC r = true
  · obtain ⟨h1, h2⟩ := hlr
    cases l <;> simp [isC, cval] at h1
    cases r <;> simp [isC, cval] at h2
    simp only [simplifyRaw, isBad, cval]
    cases foldBin op _ _ <;> simp
  · rw [simplifyRaw_bin_rest op l r hlr]
    split
    · simp
    · split
      · simp
      · split
        · split
          · simp
          · exact neutralizeRaw_ne_panic _
        · exact neutralizeRaw_ne_panic _
        · exact neutralizeRaw_ne_panic _
        · exact merge_ne_panic op l r hl hr

theorem simplifyRaw_bin_nb (op : BinOp) (l r : Arg) (hl : nb l = true) (hr : nb r = true)
    (c : Bool) (a' : Arg) (he : simplifyRaw (.bin op l r) = .ok (c, a')) : nb a' = true := by
  by_cases hlr : isC l = true ∧ isC r = true
  · obtain ⟨h1, h2⟩ := hlr
    cases l <;> simp [isC, cval] at h1
    cases r <;> simp [isC, cval] at h2
    simp only [simplifyRaw, isBad, cval] at he
    rename_i a b
    cases hf : foldBin op a b with
    | ok v =>
      simp only [hf, Bool.false_eq_true, if_false, Res.ok.injEq, Prod.mk.injEq] at he
      obtain ⟨_, rfl⟩ := he; rfl
    | error k => simp [hf] at he
  · have hb : nb (.bin op l r) = true := nb_bin.2 ⟨hl, hr, hlr⟩
    rw [simplifyRaw_bin_rest op l r hlr] at he
    split at he
    · simp at he
    · split at he
      · simp at he
      · split at he
        · split at he
          · simp only [Res.ok.injEq, Prod.mk.injEq] at he
            obtain ⟨_, rfl⟩ := he; exact hl
          · exact (neutralizeRaw_nb hb he).1
        · exact (neutralizeRaw_nb hb he).1
        · exact (neutralizeRaw_nb hb he).1
        · exact merge_nb op l r hl hr hlr c a' he

/-- the `Negate`-of-`Subtract` arm: swap, then `neutralize_raw` (repair of K4) -/
theorem simplifyRaw_neg_sub (l r : Arg) :
    simplifyRaw (.neg (.bin .sub l r)) =
      match neutralizeRaw (.bin .sub r l) with
      | .ok (_, a) => .ok (true, a)
      | .err e => .err e
      | .panic => .panic := by
  simp only [simplifyRaw]
  cases neutralizeRaw (.bin .sub r l) <;> rfl

/-- the `Negate`-of-`Negate` arm: `neutralize_raw` removes the double negation (repair of K6) -/
theorem simplifyRaw_neg_neg (w : Arg) :
    simplifyRaw (.neg (.neg w)) =
      match neutralizeRaw (.neg (.neg w)) with
      | .ok (_, a) => .ok (true, a)
      | .err e => .err e
      | .panic => .panic := by
  simp only [simplifyRaw]
  cases neutralizeRaw (.neg (.neg w)) <;> rfl

theorem simplifyRaw_neg_ne_panic (v : Arg) : simplifyRaw (.neg v) ≠ .panic := by
  cases v with
  | bin op l r =>
    cases op
    case sub =>
      rw [simplifyRaw_neg_sub]
      cases h : neutralizeRaw (.bin .sub r l) with
      | ok p => simp
      | err e => simp
      | panic => exact absurd h (neutralizeRaw_ne_panic _)
    all_goals simp [simplifyRaw]
  | neg w =>
    rw [simplifyRaw_neg_neg]
    cases h : neutralizeRaw (.neg (.neg w)) with
    | ok p => simp
    | err e => simp
    | panic => exact absurd h (neutralizeRaw_ne_panic _)
  | const c => simp only [simplifyRaw]; split <;> simp
  | _ => simp [simplifyRaw]

theorem simplifyRaw_neg_nb (v : Arg) (hv : nb v = true) (c : Bool) (a' : Arg)
    (he : simplifyRaw (.neg v) = .ok (c, a')) : nb a' = true := by
  cases v with
  | bin op l r =>
    cases op
    case sub =>
      rw [simplifyRaw_neg_sub] at he
      obtain ⟨h1, h2, h3⟩ := nb_bin.1 hv
      have hb : nb (.bin .sub r l) = true := nb_bin.2 ⟨h2, h1, fun ⟨x, y⟩ => h3 ⟨y, x⟩⟩
      cases hn : neutralizeRaw (.bin .sub r l) with
      | ok p =>
        obtain ⟨c1, x⟩ := p
        simp only [hn, Res.ok.injEq, Prod.mk.injEq] at he
        obtain ⟨_, rfl⟩ := he
        exact (neutralizeRaw_nb hb hn).1
      | err e => simp [hn] at he
      | panic => simp [hn] at he
    all_goals
      simp only [simplifyRaw, Res.ok.injEq, Prod.mk.injEq] at he
      obtain ⟨_, rfl⟩ := he
      exact nb_neg.2 ⟨hv, rfl⟩
  | neg w =>
    rw [simplifyRaw_neg_neg] at he
    obtain ⟨hw, hcw⟩ := nb_neg.1 hv
    cases hn : neutralizeRaw (.neg (.neg w)) with
    | ok p =>
      obtain ⟨c1, x⟩ := p
      simp only [hn, Res.ok.injEq, Prod.mk.injEq] at he
      obtain ⟨_, rfl⟩ := he
      exact (neutralizeRaw_nb_all _ (nb_neg.2 ⟨hv, rfl⟩) rfl _ _ hn).1
    | err e => simp [hn] at he
    | panic => simp [hn] at he
  | const k =>
    simp only [simplifyRaw] at he
    split at he
    · simp at he
    · simp only [Res.ok.injEq, Prod.mk.injEq] at he
      obtain ⟨_, rfl⟩ := he; rfl
  | str s => simp [simplifyRaw] at he
  | addr s => simp [simplifyRaw] at he
  | seq s => simp [simplifyRaw] at he
  | ident s =>
    simp only [simplifyRaw, Res.ok.injEq, Prod.mk.injEq] at he
    obtain ⟨_, rfl⟩ := he; exact nb_neg.2 ⟨hv, rfl⟩
  | not s =>
    simp only [simplifyRaw, Res.ok.injEq, Prod.mk.injEq] at he
    obtain ⟨_, rfl⟩ := he; exact nb_neg.2 ⟨hv, rfl⟩
  | func n s =>
    simp only [simplifyRaw, Res.ok.injEq, Prod.mk.injEq] at he
    obtain ⟨_, rfl⟩ := he; exact nb_neg.2 ⟨hv, rfl⟩

theorem simplifyRaw_not_ne_panic (v : Arg) : simplifyRaw (.not v) ≠ .panic := by
  simp only [simplifyRaw]
  split <;> simp

theorem simplifyRaw_not_nb (v : Arg) (hv : nb v = true) (c : Bool) (a' : Arg)
    (he : simplifyRaw (.not v) = .ok (c, a')) : nb a' = true := by
  simp only [simplifyRaw] at he
  split at he
  · simp only [Res.ok.injEq, Prod.mk.injEq] at he
    obtain ⟨_, rfl⟩ := he; rfl
  · simp at he
  · simp at he
  · simp at he
  · simp only [Res.ok.injEq, Prod.mk.injEq] at he
    obtain ⟨_, rfl⟩ := he
    simpa [nb] using hv

theorem simplifyRaw_addr_ne_panic (v : Arg) : simplifyRaw (.addr v) ≠ .panic := by
  simp only [simplifyRaw]
  split <;> simp

theorem simplifyRaw_addr_nb (v : Arg) (hv : nb v = true) (c : Bool) (a' : Arg)
    (he : simplifyRaw (.addr v) = .ok (c, a')) : nb a' = true := by
  simp only [simplifyRaw] at he
  split at he
  · simp at he
  · simp only [Res.ok.injEq, Prod.mk.injEq] at he
    obtain ⟨_, rfl⟩ := he
    simpa [nb] using hv

theorem simplify_inv_both :
    (∀ a, simplify a ≠ .panic ∧ ∀ c a', simplify a = .ok (c, a') → nb a' = true) ∧
    (∀ as, simplifyArgs as ≠ .panic ∧ ∀ c as', simplifyArgs as = .ok (c, as') → nbs as' = true) := by
  apply Arg.ind2
  case const => intro v; simp [simplify]; rfl
  case ident => intro v; simp [simplify]; rfl
  case str => intro v; simp [simplify]; rfl
  case bin =>
    intro op l r ihl ihr
    simp only [simplify]
    cases h1 : simplify l with
    | panic => exact (ihl.1 h1).elim
    | err e => simp
    | ok p =>
      obtain ⟨c1, l'⟩ := p
      have hl := ihl.2 c1 l' h1
      cases h2 : simplify r with
      | panic => exact (ihr.1 h2).elim
      | err e => simp
      | ok q =>
        obtain ⟨c2, r'⟩ := q
        have hr := ihr.2 c2 r' h2
        simp only
        cases h3 : simplifyRaw (.bin op l' r') with
        | panic => exact (simplifyRaw_bin_ne_panic op l' r' hl hr h3).elim
        | err e => simp
        | ok w =>
          obtain ⟨c3, a3⟩ := w
          refine ⟨by simp, ?_⟩
          intro c a' he
          simp only [Res.ok.injEq, Prod.mk.injEq] at he
          obtain ⟨_, rfl⟩ := he
          exact simplifyRaw_bin_nb op l' r' hl hr c3 a3 h3
  case neg =>
    intro v ih
    simp only [simplify]
    cases h1 : simplify v with
    | panic => exact (ih.1 h1).elim
    | err e => simp
    | ok p =>
      obtain ⟨c1, v'⟩ := p
      have hv := ih.2 c1 v' h1
      simp only
      cases h3 : simplifyRaw (.neg v') with
      | panic => exact (simplifyRaw_neg_ne_panic v' h3).elim
      | err e => simp
      | ok w =>
        obtain ⟨c3, a3⟩ := w
        refine ⟨by simp, ?_⟩
        intro c a' he
        simp only [Res.ok.injEq, Prod.mk.injEq] at he
        obtain ⟨_, rfl⟩ := he
        exact simplifyRaw_neg_nb v' hv c3 a3 h3
  case not =>
    intro v ih
    simp only [simplify]
    cases h1 : simplify v with
    | panic => exact (ih.1 h1).elim
    | err e => simp
    | ok p =>
      obtain ⟨c1, v'⟩ := p
      have hv := ih.2 c1 v' h1
      simp only
      cases h3 : simplifyRaw (.not v') with
      | panic => exact (simplifyRaw_not_ne_panic v' h3).elim
      | err e => simp
      | ok w =>
        obtain ⟨c3, a3⟩ := w
        refine ⟨by simp, ?_⟩
        intro c a' he
        simp only [Res.ok.injEq, Prod.mk.injEq] at he
        obtain ⟨_, rfl⟩ := he
        exact simplifyRaw_not_nb v' hv c3 a3 h3
  case addr =>
    intro v ih
    simp only [simplify]
    cases h1 : simplify v with
    | panic => exact (ih.1 h1).elim
    | err e => simp
    | ok p =>
      obtain ⟨c1, v'⟩ := p
      have hv := ih.2 c1 v' h1
      simp only
      cases h3 : simplifyRaw (.addr v') with
      | panic => exact (simplifyRaw_addr_ne_panic v' h3).elim
      | err e => simp
      | ok w =>
        obtain ⟨c3, a3⟩ := w
        refine ⟨by simp, ?_⟩
        intro c a' he
        simp only [Res.ok.injEq, Prod.mk.injEq] at he
        obtain ⟨_, rfl⟩ := he
        exact simplifyRaw_addr_nb v' hv c3 a3 h3
  case seq =>
    intro as ih
    simp only [simplify]
    cases h1 : simplifyArgs as with
    | panic => exact (ih.1 h1).elim
    | err e => simp
    | ok p =>
      obtain ⟨c1, as'⟩ := p
      refine ⟨by simp, ?_⟩
      intro c a' he
      simp only [Res.ok.injEq, Prod.mk.injEq] at he
      obtain ⟨_, rfl⟩ := he
      simpa [nb] using ih.2 c1 as' h1
  case func =>
    intro n as ih
    simp only [simplify]
    cases h1 : simplifyArgs as with
    | panic => exact (ih.1 h1).elim
    | err e => simp
    | ok p =>
      obtain ⟨c1, as'⟩ := p
      refine ⟨by simp, ?_⟩
      intro c a' he
      simp only [Res.ok.injEq, Prod.mk.injEq] at he
      obtain ⟨_, rfl⟩ := he
      simpa [nb] using ih.2 c1 as' h1
  case nil => simp [simplifyArgs]; rfl
  case cons =>
    intro a as iha ihas
    simp only [simplifyArgs]
    cases h1 : simplify a with
    | panic => exact (iha.1 h1).elim
    | err e => simp
    | ok p =>
      obtain ⟨c1, a1⟩ := p
      cases h2 : simplifyArgs as with
      | panic => exact (ihas.1 h2).elim
      | err e => simp
      | ok q =>
        obtain ⟨c2, as2⟩ := q
        refine ⟨by simp, ?_⟩
        intro c as' he
        simp only [Res.ok.injEq, Prod.mk.injEq] at he
        obtain ⟨_, rfl⟩ := he
        simp [nbs, iha.2 c1 a1 h1, ihas.2 c2 as2 h2]

theorem afterRaw_inv (ev : Ev) (a : Arg) (h1 : simplifyRaw a ≠ .panic)
    (h2 : ∀ c a', simplifyRaw a = .ok (c, a') → nb a' = true) :
    afterRaw ev a ≠ .panic ∧ ∀ ev' a', afterRaw ev a = .ok (ev', a') → nb a' = true := by
  unfold afterRaw
  cases h3 : simplifyRaw a with
  | panic => exact (h1 h3).elim
  | err e => simp
  | ok w =>
    obtain ⟨c3, a3⟩ := w
    refine ⟨by simp, ?_⟩
    intro ev' a' he
    simp only [ERes.ok.injEq, Prod.mk.injEq] at he
    obtain ⟨_, rfl⟩ := he
    exact h2 c3 a3 h3

theorem evaluate_inv_both (lk : Bytes → Lookup) (isReg : Bytes → Bool) :
    (∀ a, evaluate lk isReg a ≠ .panic ∧ ∀ ev a', evaluate lk isReg a = .ok (ev, a') → nb a' = true) ∧
    (∀ as, evaluateArgs lk isReg as ≠ .panic ∧
      ∀ ev as', evaluateArgs lk isReg as = .ok (ev, as') → nbs as' = true) := by
  apply Arg.ind2
  case const => intro v; simp [evaluate]; rfl
  case ident =>
    intro s
    simp only [evaluate]
    split
    · simp; rfl
    · cases lk s <;> simp
      · rfl
      · rfl
  case str => intro v; simp [evaluate]; rfl
  case bin =>
    intro op l r ihl ihr
    simp only [evaluate]
    cases h1 : evaluate lk isReg l with
    | panic => exact (ihl.1 h1).elim
    | err e => simp
    | ok p =>
      obtain ⟨e1, l'⟩ := p
      have hl := ihl.2 e1 l' h1
      cases h2 : evaluate lk isReg r with
      | panic => exact (ihr.1 h2).elim
      | err e => simp
      | ok q =>
        obtain ⟨e2, r'⟩ := q
        have hr := ihr.2 e2 r' h2
        exact afterRaw_inv _ _ (simplifyRaw_bin_ne_panic op l' r' hl hr) (simplifyRaw_bin_nb op l' r' hl hr)
  case neg =>
    intro v ih
    simp only [evaluate]
    cases h1 : evaluate lk isReg v with
    | panic => exact (ih.1 h1).elim
    | err e => simp
    | ok p =>
      obtain ⟨e1, v'⟩ := p
      exact afterRaw_inv _ _ (simplifyRaw_neg_ne_panic v') (simplifyRaw_neg_nb v' (ih.2 e1 v' h1))
  case not =>
    intro v ih
    simp only [evaluate]
    cases h1 : evaluate lk isReg v with
    | panic => exact (ih.1 h1).elim
    | err e => simp
    | ok p =>
      obtain ⟨e1, v'⟩ := p
      exact afterRaw_inv _ _ (simplifyRaw_not_ne_panic v') (simplifyRaw_not_nb v' (ih.2 e1 v' h1))
  case addr =>
    intro v ih
    simp only [evaluate]
    cases h1 : evaluate lk isReg v with
    | panic => exact (ih.1 h1).elim
    | err e => simp
    | ok p =>
      obtain ⟨e1, v'⟩ := p
      exact afterRaw_inv _ _ (simplifyRaw_addr_ne_panic v') (simplifyRaw_addr_nb v' (ih.2 e1 v' h1))
  case seq =>
    intro as ih
    simp only [evaluate]
    cases h1 : evaluateArgs lk isReg as with
    | panic => exact (ih.1 h1).elim
    | err e => simp
    | ok p =>
      obtain ⟨c1, as'⟩ := p
      refine ⟨by simp, ?_⟩
      intro c a' he
      simp only [ERes.ok.injEq, Prod.mk.injEq] at he
      obtain ⟨_, rfl⟩ := he
      simpa [nb] using ih.2 c1 as' h1
  case func =>
    intro n as ih
    simp only [evaluate]
    cases h1 : evaluateArgs lk isReg as with
    | panic => exact (ih.1 h1).elim
    | err e => simp
    | ok p =>
      obtain ⟨c1, as'⟩ := p
      refine ⟨by simp, ?_⟩
      intro c a' he
      simp only [ERes.ok.injEq, Prod.mk.injEq] at he
      obtain ⟨_, rfl⟩ := he
      simpa [nb] using ih.2 c1 as' h1
  case nil => simp [evaluateArgs]; rfl
  case cons =>
    intro a as iha ihas
    simp only [evaluateArgs]
    cases h1 : evaluate lk isReg a with
    | panic => exact (iha.1 h1).elim
    | err e => simp
    | ok p =>
      obtain ⟨c1, a1⟩ := p
      cases h2 : evaluateArgs lk isReg as with
      | panic => exact (ihas.1 h2).elim
      | err e => simp
      | ok q =>
        obtain ⟨c2, as2⟩ := q
        refine ⟨by simp, ?_⟩
        intro c as' he
        simp only [ERes.ok.injEq, Prod.mk.injEq] at he
        obtain ⟨_, rfl⟩ := he
        simp [nbs, iha.2 c1 a1 h1, ihas.2 c2 as2 h2]

end Trion.Simp
