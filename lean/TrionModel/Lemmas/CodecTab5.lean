import TrionModel.Lemmas.CodecTab
namespace Trion.Codec
/-- halfwords 0xa000 … 0xbfff, evaluated by the kernel -/
theorem chkBlock5 : chkBlock 5 32 := by decide +kernel
end Trion.Codec
