import TrionModel.Lemmas.SimpSound6
/-!
# Soundness of the simplifier, part 7: the tree that `evaluate` leaves behind on `NoSuchVariable`
-/
namespace Trion.Simp
open Trion

def EvT.toERes {α : Type} : EvT α → ERes (Ev × α)
  | .ok ev a => .ok (ev, a)
  | .nosuch n _ => .err (.noSuchVar n)
  | .err e => .err (.simp e)
  | .panic => .panic

theorem afterRawT_proj (ev : Ev) (a : Arg) : (afterRawT ev a).toERes = afterRaw ev a := by
  unfold afterRawT afterRaw
  cases simplifyRaw a with
  | ok p => rfl
  | err e => rfl
  | panic => rfl

/-- `evaluateT` is `evaluate` plus the left-behind tree -/
theorem evaluateT_proj_both (lk : Bytes → Lookup) (isReg : Bytes → Bool) :
    (∀ a, (evaluateT lk isReg a).toERes = evaluate lk isReg a) ∧
    (∀ as, (evaluateArgsT lk isReg as).toERes = evaluateArgs lk isReg as) := by
  apply Arg.ind2
  case const => intro v; rfl
  case ident =>
    intro s
    simp only [evaluateT, evaluate]
    split
    · rfl
    · cases lk s <;> rfl
  case str => intro v; rfl
  case bin =>
    intro op l r ihl ihr
    simp only [evaluateT, evaluate]
    rw [← ihl, ← ihr]
    cases h1 : evaluateT lk isReg l with
    | ok e1 l' =>
      cases h2 : evaluateT lk isReg r with
      | ok e2 r' => simp only [EvT.toERes]; exact afterRawT_proj _ _
      | nosuch n r' => rfl
      | err e => rfl
      | panic => rfl
    | nosuch n l' => rfl
    | err e => rfl
    | panic => rfl
  case neg =>
    intro v ih
    simp only [evaluateT, evaluate]
    rw [← ih]
    cases h1 : evaluateT lk isReg v with
    | ok e1 l' => simp only [EvT.toERes]; exact afterRawT_proj _ _
    | nosuch n l' => rfl
    | err e => rfl
    | panic => rfl
  case not =>
    intro v ih
    simp only [evaluateT, evaluate]
    rw [← ih]
    cases h1 : evaluateT lk isReg v with
    | ok e1 l' => simp only [EvT.toERes]; exact afterRawT_proj _ _
    | nosuch n l' => rfl
    | err e => rfl
    | panic => rfl
  case addr =>
    intro v ih
    simp only [evaluateT, evaluate]
    rw [← ih]
    cases h1 : evaluateT lk isReg v with
    | ok e1 l' => simp only [EvT.toERes]; exact afterRawT_proj _ _
    | nosuch n l' => rfl
    | err e => rfl
    | panic => rfl
  case seq =>
    intro as ih
    simp only [evaluateT, evaluate]
    rw [← ih]
    cases h1 : evaluateArgsT lk isReg as <;> rfl
  case func =>
    intro n as ih
    simp only [evaluateT, evaluate]
    rw [← ih]
    cases h1 : evaluateArgsT lk isReg as <;> rfl
  case nil => rfl
  case cons =>
    intro a as iha ihas
    simp only [evaluateArgsT, evaluateArgs]
    rw [← iha, ← ihas]
    cases h1 : evaluateT lk isReg a with
    | ok e1 a' => cases h2 : evaluateArgsT lk isReg as <;> rfl
    | nosuch n l' => rfl
    | err e => rfl
    | panic => rfl

theorem evaluateT_ok {lk : Bytes → Lookup} {isReg : Bytes → Bool} {a : Arg} {ev : Ev} {a' : Arg}
    (h : evaluateT lk isReg a = .ok ev a') : evaluate lk isReg a = .ok (ev, a') := by
  rw [← (evaluateT_proj_both lk isReg).1 a, h]; rfl

/-- the tree left behind by `NoSuchVariable` still has the value of the original expression -/
theorem evaluateT_nosuch_val (lk : Bytes → Lookup) (isReg : Bytes → Bool) (ρ : Env)
    (hρ : consistent lk isReg ρ) (a : Arg) : ∀ (n : Bytes) (a' : Arg) (v : Int),
    evaluateT lk isReg a = .nosuch n a' → valZ ρ a = some v → valZ ρ a' = some v := by
  induction a using Arg.ind with
  | const w => intro n a' v he; simp [evaluateT] at he
  | ident s =>
    intro n a' v he h
    simp only [evaluateT] at he
    split at he
    · simp at he
    · cases hl : lk s with
      | notFound => simp only [hl, EvT.nosuch.injEq] at he; rw [← he.2]; exact h
      | deferred => simp [hl] at he
      | found w => simp [hl] at he
  | str s => intro n a' v he; simp [evaluateT] at he
  | bin op l r ihl ihr =>
    intro n a' v he h
    obtain ⟨x, y, hl, hr, ho⟩ := valZ_bin h
    simp only [evaluateT] at he
    cases h1 : evaluateT lk isReg l with
    | ok e1 l' =>
      have hl' := evaluate_val lk isReg ρ hρ l e1 l' x (evaluateT_ok h1) hl
      cases h2 : evaluateT lk isReg r with
      | ok e2 r' =>
        simp only [h1, h2, afterRawT] at he
        cases hs : simplifyRaw (.bin op l' r') <;> simp [hs] at he
      | nosuch m r' =>
        simp only [h1, h2, EvT.nosuch.injEq] at he
        rw [← he.2, valZ_bin_mk hl' (ihr m r' y h2 hr)]; exact ho
      | err e => simp [h1, h2] at he
      | panic => simp [h1, h2] at he
    | nosuch m l' =>
      simp only [h1, EvT.nosuch.injEq] at he
      rw [← he.2, valZ_bin_mk (ihl m l' x h1 hl) hr]; exact ho
    | err e => simp [h1] at he
    | panic => simp [h1] at he
  | neg w ih =>
    intro n a' v he h
    obtain ⟨x, hx, rfl⟩ := valZ_neg h
    simp only [evaluateT] at he
    cases h1 : evaluateT lk isReg w with
    | ok e1 l' =>
      simp only [h1, afterRawT] at he
      cases hs : simplifyRaw (.neg l') <;> simp [hs] at he
    | nosuch m l' =>
      simp only [h1, EvT.nosuch.injEq] at he
      rw [← he.2]; exact valZ_neg_mk (ih m l' x h1 hx)
    | err e => simp [h1] at he
    | panic => simp [h1] at he
  | not w ih =>
    intro n a' v he h
    simp only [valZ] at h
    cases hw : valZ ρ w with
    | none => simp [hw] at h
    | some x =>
      simp only [evaluateT] at he
      cases h1 : evaluateT lk isReg w with
      | ok e1 l' =>
        simp only [h1, afterRawT] at he
        cases hs : simplifyRaw (.not l') <;> simp [hs] at he
      | nosuch m l' =>
        simp only [h1, EvT.nosuch.injEq] at he
        rw [← he.2]
        simpa [valZ, ih m l' x h1 hw, hw] using h
      | err e => simp [h1] at he
      | panic => simp [h1] at he
  | addr w _ => intro n a' v he h; simp [valZ] at h
  | seq as => intro n a' v he h; simp [valZ] at h
  | func f as => intro n a' v he h; simp [valZ] at h

end Trion.Simp
