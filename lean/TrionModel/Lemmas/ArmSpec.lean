import TrionModel.Spec.Arm
/-! Generic facts about the first-match search of `Arm.decodeIn`, and the reduction of the 16-bit table to
the group of rows with the right five leading bits. -/
namespace Trion.Arm
open Trion

theorem decodeIn_cons_skip (rw : Row) (rest : List Row) (w n : Nat) (h : ¬ (rw.n = n ∧ fits w rw.fixed)) :
    decodeIn (rw :: rest) w n = decodeIn rest w n := by
  simp only [decodeIn, rowDecode, if_neg h]

theorem decodeIn_cons_hit (rw : Row) (rest : List Row) (w n : Nat) (h : rw.n = n ∧ fits w rw.fixed) :
    decodeIn (rw :: rest) w n =
      if rw.unpred (fieldOf w rw.fields) then none else some (rw.ins (fieldOf w rw.fields)) := by
  simp only [decodeIn, rowDecode, if_pos h]

/-- no row of the list matches -/
def NoFit (w n : Nat) : List Row → Prop
  | [] => True
  | rw :: rest => ¬ (rw.n = n ∧ fits w rw.fixed) ∧ NoFit w n rest

theorem NoFit_append {w n : Nat} {a b : List Row} (ha : NoFit w n a) (hb : NoFit w n b) : NoFit w n (a ++ b) := by
  induction a with
  | nil => exact hb
  | cons x xs ih => exact ⟨ha.1, ih ha.2⟩

theorem decodeIn_nofit {w n : Nat} {a : List Row} (ha : NoFit w n a) : decodeIn a w n = none := by
  induction a with
  | nil => rfl
  | cons x xs ih => rw [decodeIn_cons_skip _ _ _ _ ha.1]; exact ih ha.2

theorem decodeIn_append_left {w n : Nat} {a b : List Row} (ha : NoFit w n a) :
    decodeIn (a ++ b) w n = decodeIn b w n := by
  induction a with
  | nil => rfl
  | cons x xs ih => rw [List.cons_append, decodeIn_cons_skip _ _ _ _ ha.1]; exact ih ha.2

theorem decodeIn_append_right {w n : Nat} {a b : List Row} (hb : NoFit w n b) :
    decodeIn (a ++ b) w n = decodeIn a w n := by
  induction a with
  | nil => exact decodeIn_nofit hb
  | cons x xs ih =>
    simp only [List.cons_append, decodeIn]
    split
    · rfl
    · exact ih

/-- rows of another width never match -/
theorem NoFit_of_width {w n : Nat} {a : List Row} (h : ∀ rw ∈ a, rw.n ≠ n) : NoFit w n a := by
  induction a with
  | nil => trivial
  | cons x xs ih =>
    exact ⟨fun c => h x (by simp) c.1, ih fun rw m => h rw (by simp [m])⟩

/-- discharge `¬ (rw.n = n ∧ fits w rw.fixed)` / the positive form for a concrete row -/
macro "fit_side" : tactic => `(tactic| (
  simp only [fits, Nat.reducePow, and_true, true_and, not_true_eq_false, not_false_eq_true, Nat.reduceEqDiff, reduceCtorEq]; omega))

macro "nofit_rows" : tactic => `(tactic| (simp only [NoFit]; repeat (first | exact trivial | refine ⟨by fit_side, ?_⟩)))

theorem nofit_g00 (h : Nat) (hlt : h < 65536) (hk : h / 2048 ≠ 0) : NoFit h 16 g00 := by
  unfold g00; nofit_rows
theorem nofit_g01 (h : Nat) (hlt : h < 65536) (hk : h / 2048 ≠ 1) : NoFit h 16 g01 := by
  unfold g01; nofit_rows
theorem nofit_g02 (h : Nat) (hlt : h < 65536) (hk : h / 2048 ≠ 2) : NoFit h 16 g02 := by
  unfold g02; nofit_rows
theorem nofit_g03 (h : Nat) (hlt : h < 65536) (hk : h / 2048 ≠ 3) : NoFit h 16 g03 := by
  unfold g03; nofit_rows
theorem nofit_g04 (h : Nat) (hlt : h < 65536) (hk : h / 2048 ≠ 4) : NoFit h 16 g04 := by
  unfold g04; nofit_rows
theorem nofit_g05 (h : Nat) (hlt : h < 65536) (hk : h / 2048 ≠ 5) : NoFit h 16 g05 := by
  unfold g05; nofit_rows
theorem nofit_g06 (h : Nat) (hlt : h < 65536) (hk : h / 2048 ≠ 6) : NoFit h 16 g06 := by
  unfold g06; nofit_rows
theorem nofit_g07 (h : Nat) (hlt : h < 65536) (hk : h / 2048 ≠ 7) : NoFit h 16 g07 := by
  unfold g07; nofit_rows
theorem nofit_g08 (h : Nat) (hlt : h < 65536) (hk : h / 2048 ≠ 8) : NoFit h 16 g08 := by
  unfold g08; nofit_rows
theorem nofit_g09 (h : Nat) (hlt : h < 65536) (hk : h / 2048 ≠ 9) : NoFit h 16 g09 := by
  unfold g09; nofit_rows
theorem nofit_g10 (h : Nat) (hlt : h < 65536) (hk : h / 2048 ≠ 10) : NoFit h 16 g10 := by
  unfold g10; nofit_rows
theorem nofit_g11 (h : Nat) (hlt : h < 65536) (hk : h / 2048 ≠ 11) : NoFit h 16 g11 := by
  unfold g11; nofit_rows
theorem nofit_g12 (h : Nat) (hlt : h < 65536) (hk : h / 2048 ≠ 12) : NoFit h 16 g12 := by
  unfold g12; nofit_rows
theorem nofit_g13 (h : Nat) (hlt : h < 65536) (hk : h / 2048 ≠ 13) : NoFit h 16 g13 := by
  unfold g13; nofit_rows
theorem nofit_g14 (h : Nat) (hlt : h < 65536) (hk : h / 2048 ≠ 14) : NoFit h 16 g14 := by
  unfold g14; nofit_rows
theorem nofit_g15 (h : Nat) (hlt : h < 65536) (hk : h / 2048 ≠ 15) : NoFit h 16 g15 := by
  unfold g15; nofit_rows
theorem nofit_g16 (h : Nat) (hlt : h < 65536) (hk : h / 2048 ≠ 16) : NoFit h 16 g16 := by
  unfold g16; nofit_rows
theorem nofit_g17 (h : Nat) (hlt : h < 65536) (hk : h / 2048 ≠ 17) : NoFit h 16 g17 := by
  unfold g17; nofit_rows
theorem nofit_g18 (h : Nat) (hlt : h < 65536) (hk : h / 2048 ≠ 18) : NoFit h 16 g18 := by
  unfold g18; nofit_rows
theorem nofit_g19 (h : Nat) (hlt : h < 65536) (hk : h / 2048 ≠ 19) : NoFit h 16 g19 := by
  unfold g19; nofit_rows
theorem nofit_g20 (h : Nat) (hlt : h < 65536) (hk : h / 2048 ≠ 20) : NoFit h 16 g20 := by
  unfold g20; nofit_rows
theorem nofit_g21 (h : Nat) (hlt : h < 65536) (hk : h / 2048 ≠ 21) : NoFit h 16 g21 := by
  unfold g21; nofit_rows
theorem nofit_g22 (h : Nat) (hlt : h < 65536) (hk : h / 2048 ≠ 22) : NoFit h 16 g22 := by
  unfold g22; nofit_rows
theorem nofit_g23 (h : Nat) (hlt : h < 65536) (hk : h / 2048 ≠ 23) : NoFit h 16 g23 := by
  unfold g23; nofit_rows
theorem nofit_g24 (h : Nat) (hlt : h < 65536) (hk : h / 2048 ≠ 24) : NoFit h 16 g24 := by
  unfold g24; nofit_rows
theorem nofit_g25 (h : Nat) (hlt : h < 65536) (hk : h / 2048 ≠ 25) : NoFit h 16 g25 := by
  unfold g25; nofit_rows
theorem nofit_g26 (h : Nat) (hlt : h < 65536) (hk : h / 2048 ≠ 26 ∧ h / 2048 ≠ 27) : NoFit h 16 g26 := by
  unfold g26; nofit_rows
theorem nofit_g28 (h : Nat) (hlt : h < 65536) (hk : h / 2048 ≠ 28) : NoFit h 16 g28 := by
  unfold g28; nofit_rows

/-- pick the group lemma that applies -/
macro "nofit_any" : tactic => `(tactic| first
  | exact nofit_g00 _ (by omega) (by omega)
  | exact nofit_g01 _ (by omega) (by omega)
  | exact nofit_g02 _ (by omega) (by omega)
  | exact nofit_g03 _ (by omega) (by omega)
  | exact nofit_g04 _ (by omega) (by omega)
  | exact nofit_g05 _ (by omega) (by omega)
  | exact nofit_g06 _ (by omega) (by omega)
  | exact nofit_g07 _ (by omega) (by omega)
  | exact nofit_g08 _ (by omega) (by omega)
  | exact nofit_g09 _ (by omega) (by omega)
  | exact nofit_g10 _ (by omega) (by omega)
  | exact nofit_g11 _ (by omega) (by omega)
  | exact nofit_g12 _ (by omega) (by omega)
  | exact nofit_g13 _ (by omega) (by omega)
  | exact nofit_g14 _ (by omega) (by omega)
  | exact nofit_g15 _ (by omega) (by omega)
  | exact nofit_g16 _ (by omega) (by omega)
  | exact nofit_g17 _ (by omega) (by omega)
  | exact nofit_g18 _ (by omega) (by omega)
  | exact nofit_g19 _ (by omega) (by omega)
  | exact nofit_g20 _ (by omega) (by omega)
  | exact nofit_g21 _ (by omega) (by omega)
  | exact nofit_g22 _ (by omega) (by omega)
  | exact nofit_g23 _ (by omega) (by omega)
  | exact nofit_g24 _ (by omega) (by omega)
  | exact nofit_g25 _ (by omega) (by omega)
  | exact nofit_g26 _ (by omega) (by omega)
  | exact nofit_g28 _ (by omega) (by omega)
)

theorem table16_at_0 (h : Nat) (hlt : h < 65536) (hk : h / 2048 = 0) : decodeIn table16 h 16 = decodeIn g00 h 16 := by
  simp only [table16, List.flatten_cons, List.flatten_nil]
  apply decodeIn_append_right
  repeat (first | exact trivial | (apply NoFit_append; nofit_any))
theorem table16_at_1 (h : Nat) (hlt : h < 65536) (hk : h / 2048 = 1) : decodeIn table16 h 16 = decodeIn g01 h 16 := by
  simp only [table16, List.flatten_cons, List.flatten_nil]
  rw [decodeIn_append_left (by nofit_any)]
  apply decodeIn_append_right
  repeat (first | exact trivial | (apply NoFit_append; nofit_any))
theorem table16_at_2 (h : Nat) (hlt : h < 65536) (hk : h / 2048 = 2) : decodeIn table16 h 16 = decodeIn g02 h 16 := by
  simp only [table16, List.flatten_cons, List.flatten_nil]
  rw [decodeIn_append_left (by nofit_any)]
  rw [decodeIn_append_left (by nofit_any)]
  apply decodeIn_append_right
  repeat (first | exact trivial | (apply NoFit_append; nofit_any))
theorem table16_at_3 (h : Nat) (hlt : h < 65536) (hk : h / 2048 = 3) : decodeIn table16 h 16 = decodeIn g03 h 16 := by
  simp only [table16, List.flatten_cons, List.flatten_nil]
  rw [decodeIn_append_left (by nofit_any)]
  rw [decodeIn_append_left (by nofit_any)]
  rw [decodeIn_append_left (by nofit_any)]
  apply decodeIn_append_right
  repeat (first | exact trivial | (apply NoFit_append; nofit_any))
theorem table16_at_4 (h : Nat) (hlt : h < 65536) (hk : h / 2048 = 4) : decodeIn table16 h 16 = decodeIn g04 h 16 := by
  simp only [table16, List.flatten_cons, List.flatten_nil]
  rw [decodeIn_append_left (by nofit_any)]
  rw [decodeIn_append_left (by nofit_any)]
  rw [decodeIn_append_left (by nofit_any)]
  rw [decodeIn_append_left (by nofit_any)]
  apply decodeIn_append_right
  repeat (first | exact trivial | (apply NoFit_append; nofit_any))
theorem table16_at_5 (h : Nat) (hlt : h < 65536) (hk : h / 2048 = 5) : decodeIn table16 h 16 = decodeIn g05 h 16 := by
  simp only [table16, List.flatten_cons, List.flatten_nil]
  rw [decodeIn_append_left (by nofit_any)]
  rw [decodeIn_append_left (by nofit_any)]
  rw [decodeIn_append_left (by nofit_any)]
  rw [decodeIn_append_left (by nofit_any)]
  rw [decodeIn_append_left (by nofit_any)]
  apply decodeIn_append_right
  repeat (first | exact trivial | (apply NoFit_append; nofit_any))
theorem table16_at_6 (h : Nat) (hlt : h < 65536) (hk : h / 2048 = 6) : decodeIn table16 h 16 = decodeIn g06 h 16 := by
  simp only [table16, List.flatten_cons, List.flatten_nil]
  rw [decodeIn_append_left (by nofit_any)]
  rw [decodeIn_append_left (by nofit_any)]
  rw [decodeIn_append_left (by nofit_any)]
  rw [decodeIn_append_left (by nofit_any)]
  rw [decodeIn_append_left (by nofit_any)]
  rw [decodeIn_append_left (by nofit_any)]
  apply decodeIn_append_right
  repeat (first | exact trivial | (apply NoFit_append; nofit_any))
theorem table16_at_7 (h : Nat) (hlt : h < 65536) (hk : h / 2048 = 7) : decodeIn table16 h 16 = decodeIn g07 h 16 := by
  simp only [table16, List.flatten_cons, List.flatten_nil]
  rw [decodeIn_append_left (by nofit_any)]
  rw [decodeIn_append_left (by nofit_any)]
  rw [decodeIn_append_left (by nofit_any)]
  rw [decodeIn_append_left (by nofit_any)]
  rw [decodeIn_append_left (by nofit_any)]
  rw [decodeIn_append_left (by nofit_any)]
  rw [decodeIn_append_left (by nofit_any)]
  apply decodeIn_append_right
  repeat (first | exact trivial | (apply NoFit_append; nofit_any))
theorem table16_at_8 (h : Nat) (hlt : h < 65536) (hk : h / 2048 = 8) : decodeIn table16 h 16 = decodeIn g08 h 16 := by
  simp only [table16, List.flatten_cons, List.flatten_nil]
  rw [decodeIn_append_left (by nofit_any)]
  rw [decodeIn_append_left (by nofit_any)]
  rw [decodeIn_append_left (by nofit_any)]
  rw [decodeIn_append_left (by nofit_any)]
  rw [decodeIn_append_left (by nofit_any)]
  rw [decodeIn_append_left (by nofit_any)]
  rw [decodeIn_append_left (by nofit_any)]
  rw [decodeIn_append_left (by nofit_any)]
  apply decodeIn_append_right
  repeat (first | exact trivial | (apply NoFit_append; nofit_any))
theorem table16_at_9 (h : Nat) (hlt : h < 65536) (hk : h / 2048 = 9) : decodeIn table16 h 16 = decodeIn g09 h 16 := by
  simp only [table16, List.flatten_cons, List.flatten_nil]
  rw [decodeIn_append_left (by nofit_any)]
  rw [decodeIn_append_left (by nofit_any)]
  rw [decodeIn_append_left (by nofit_any)]
  rw [decodeIn_append_left (by nofit_any)]
  rw [decodeIn_append_left (by nofit_any)]
  rw [decodeIn_append_left (by nofit_any)]
  rw [decodeIn_append_left (by nofit_any)]
  rw [decodeIn_append_left (by nofit_any)]
  rw [decodeIn_append_left (by nofit_any)]
  apply decodeIn_append_right
  repeat (first | exact trivial | (apply NoFit_append; nofit_any))
theorem table16_at_10 (h : Nat) (hlt : h < 65536) (hk : h / 2048 = 10) : decodeIn table16 h 16 = decodeIn g10 h 16 := by
  simp only [table16, List.flatten_cons, List.flatten_nil]
  rw [decodeIn_append_left (by nofit_any)]
  rw [decodeIn_append_left (by nofit_any)]
  rw [decodeIn_append_left (by nofit_any)]
  rw [decodeIn_append_left (by nofit_any)]
  rw [decodeIn_append_left (by nofit_any)]
  rw [decodeIn_append_left (by nofit_any)]
  rw [decodeIn_append_left (by nofit_any)]
  rw [decodeIn_append_left (by nofit_any)]
  rw [decodeIn_append_left (by nofit_any)]
  rw [decodeIn_append_left (by nofit_any)]
  apply decodeIn_append_right
  repeat (first | exact trivial | (apply NoFit_append; nofit_any))
theorem table16_at_11 (h : Nat) (hlt : h < 65536) (hk : h / 2048 = 11) : decodeIn table16 h 16 = decodeIn g11 h 16 := by
  simp only [table16, List.flatten_cons, List.flatten_nil]
  rw [decodeIn_append_left (by nofit_any)]
  rw [decodeIn_append_left (by nofit_any)]
  rw [decodeIn_append_left (by nofit_any)]
  rw [decodeIn_append_left (by nofit_any)]
  rw [decodeIn_append_left (by nofit_any)]
  rw [decodeIn_append_left (by nofit_any)]
  rw [decodeIn_append_left (by nofit_any)]
  rw [decodeIn_append_left (by nofit_any)]
  rw [decodeIn_append_left (by nofit_any)]
  rw [decodeIn_append_left (by nofit_any)]
  rw [decodeIn_append_left (by nofit_any)]
  apply decodeIn_append_right
  repeat (first | exact trivial | (apply NoFit_append; nofit_any))
theorem table16_at_12 (h : Nat) (hlt : h < 65536) (hk : h / 2048 = 12) : decodeIn table16 h 16 = decodeIn g12 h 16 := by
  simp only [table16, List.flatten_cons, List.flatten_nil]
  rw [decodeIn_append_left (by nofit_any)]
  rw [decodeIn_append_left (by nofit_any)]
  rw [decodeIn_append_left (by nofit_any)]
  rw [decodeIn_append_left (by nofit_any)]
  rw [decodeIn_append_left (by nofit_any)]
  rw [decodeIn_append_left (by nofit_any)]
  rw [decodeIn_append_left (by nofit_any)]
  rw [decodeIn_append_left (by nofit_any)]
  rw [decodeIn_append_left (by nofit_any)]
  rw [decodeIn_append_left (by nofit_any)]
  rw [decodeIn_append_left (by nofit_any)]
  rw [decodeIn_append_left (by nofit_any)]
  apply decodeIn_append_right
  repeat (first | exact trivial | (apply NoFit_append; nofit_any))
theorem table16_at_13 (h : Nat) (hlt : h < 65536) (hk : h / 2048 = 13) : decodeIn table16 h 16 = decodeIn g13 h 16 := by
  simp only [table16, List.flatten_cons, List.flatten_nil]
  rw [decodeIn_append_left (by nofit_any)]
  rw [decodeIn_append_left (by nofit_any)]
  rw [decodeIn_append_left (by nofit_any)]
  rw [decodeIn_append_left (by nofit_any)]
  rw [decodeIn_append_left (by nofit_any)]
  rw [decodeIn_append_left (by nofit_any)]
  rw [decodeIn_append_left (by nofit_any)]
  rw [decodeIn_append_left (by nofit_any)]
  rw [decodeIn_append_left (by nofit_any)]
  rw [decodeIn_append_left (by nofit_any)]
  rw [decodeIn_append_left (by nofit_any)]
  rw [decodeIn_append_left (by nofit_any)]
  rw [decodeIn_append_left (by nofit_any)]
  apply decodeIn_append_right
  repeat (first | exact trivial | (apply NoFit_append; nofit_any))
theorem table16_at_14 (h : Nat) (hlt : h < 65536) (hk : h / 2048 = 14) : decodeIn table16 h 16 = decodeIn g14 h 16 := by
  simp only [table16, List.flatten_cons, List.flatten_nil]
  rw [decodeIn_append_left (by nofit_any)]
  rw [decodeIn_append_left (by nofit_any)]
  rw [decodeIn_append_left (by nofit_any)]
  rw [decodeIn_append_left (by nofit_any)]
  rw [decodeIn_append_left (by nofit_any)]
  rw [decodeIn_append_left (by nofit_any)]
  rw [decodeIn_append_left (by nofit_any)]
  rw [decodeIn_append_left (by nofit_any)]
  rw [decodeIn_append_left (by nofit_any)]
  rw [decodeIn_append_left (by nofit_any)]
  rw [decodeIn_append_left (by nofit_any)]
  rw [decodeIn_append_left (by nofit_any)]
  rw [decodeIn_append_left (by nofit_any)]
  rw [decodeIn_append_left (by nofit_any)]
  apply decodeIn_append_right
  repeat (first | exact trivial | (apply NoFit_append; nofit_any))
theorem table16_at_15 (h : Nat) (hlt : h < 65536) (hk : h / 2048 = 15) : decodeIn table16 h 16 = decodeIn g15 h 16 := by
  simp only [table16, List.flatten_cons, List.flatten_nil]
  rw [decodeIn_append_left (by nofit_any)]
  rw [decodeIn_append_left (by nofit_any)]
  rw [decodeIn_append_left (by nofit_any)]
  rw [decodeIn_append_left (by nofit_any)]
  rw [decodeIn_append_left (by nofit_any)]
  rw [decodeIn_append_left (by nofit_any)]
  rw [decodeIn_append_left (by nofit_any)]
  rw [decodeIn_append_left (by nofit_any)]
  rw [decodeIn_append_left (by nofit_any)]
  rw [decodeIn_append_left (by nofit_any)]
  rw [decodeIn_append_left (by nofit_any)]
  rw [decodeIn_append_left (by nofit_any)]
  rw [decodeIn_append_left (by nofit_any)]
  rw [decodeIn_append_left (by nofit_any)]
  rw [decodeIn_append_left (by nofit_any)]
  apply decodeIn_append_right
  repeat (first | exact trivial | (apply NoFit_append; nofit_any))
theorem table16_at_16 (h : Nat) (hlt : h < 65536) (hk : h / 2048 = 16) : decodeIn table16 h 16 = decodeIn g16 h 16 := by
  simp only [table16, List.flatten_cons, List.flatten_nil]
  rw [decodeIn_append_left (by nofit_any)]
  rw [decodeIn_append_left (by nofit_any)]
  rw [decodeIn_append_left (by nofit_any)]
  rw [decodeIn_append_left (by nofit_any)]
  rw [decodeIn_append_left (by nofit_any)]
  rw [decodeIn_append_left (by nofit_any)]
  rw [decodeIn_append_left (by nofit_any)]
  rw [decodeIn_append_left (by nofit_any)]
  rw [decodeIn_append_left (by nofit_any)]
  rw [decodeIn_append_left (by nofit_any)]
  rw [decodeIn_append_left (by nofit_any)]
  rw [decodeIn_append_left (by nofit_any)]
  rw [decodeIn_append_left (by nofit_any)]
  rw [decodeIn_append_left (by nofit_any)]
  rw [decodeIn_append_left (by nofit_any)]
  rw [decodeIn_append_left (by nofit_any)]
  apply decodeIn_append_right
  repeat (first | exact trivial | (apply NoFit_append; nofit_any))
theorem table16_at_17 (h : Nat) (hlt : h < 65536) (hk : h / 2048 = 17) : decodeIn table16 h 16 = decodeIn g17 h 16 := by
  simp only [table16, List.flatten_cons, List.flatten_nil]
  rw [decodeIn_append_left (by nofit_any)]
  rw [decodeIn_append_left (by nofit_any)]
  rw [decodeIn_append_left (by nofit_any)]
  rw [decodeIn_append_left (by nofit_any)]
  rw [decodeIn_append_left (by nofit_any)]
  rw [decodeIn_append_left (by nofit_any)]
  rw [decodeIn_append_left (by nofit_any)]
  rw [decodeIn_append_left (by nofit_any)]
  rw [decodeIn_append_left (by nofit_any)]
  rw [decodeIn_append_left (by nofit_any)]
  rw [decodeIn_append_left (by nofit_any)]
  rw [decodeIn_append_left (by nofit_any)]
  rw [decodeIn_append_left (by nofit_any)]
  rw [decodeIn_append_left (by nofit_any)]
  rw [decodeIn_append_left (by nofit_any)]
  rw [decodeIn_append_left (by nofit_any)]
  rw [decodeIn_append_left (by nofit_any)]
  apply decodeIn_append_right
  repeat (first | exact trivial | (apply NoFit_append; nofit_any))
theorem table16_at_18 (h : Nat) (hlt : h < 65536) (hk : h / 2048 = 18) : decodeIn table16 h 16 = decodeIn g18 h 16 := by
  simp only [table16, List.flatten_cons, List.flatten_nil]
  rw [decodeIn_append_left (by nofit_any)]
  rw [decodeIn_append_left (by nofit_any)]
  rw [decodeIn_append_left (by nofit_any)]
  rw [decodeIn_append_left (by nofit_any)]
  rw [decodeIn_append_left (by nofit_any)]
  rw [decodeIn_append_left (by nofit_any)]
  rw [decodeIn_append_left (by nofit_any)]
  rw [decodeIn_append_left (by nofit_any)]
  rw [decodeIn_append_left (by nofit_any)]
  rw [decodeIn_append_left (by nofit_any)]
  rw [decodeIn_append_left (by nofit_any)]
  rw [decodeIn_append_left (by nofit_any)]
  rw [decodeIn_append_left (by nofit_any)]
  rw [decodeIn_append_left (by nofit_any)]
  rw [decodeIn_append_left (by nofit_any)]
  rw [decodeIn_append_left (by nofit_any)]
  rw [decodeIn_append_left (by nofit_any)]
  rw [decodeIn_append_left (by nofit_any)]
  apply decodeIn_append_right
  repeat (first | exact trivial | (apply NoFit_append; nofit_any))
theorem table16_at_19 (h : Nat) (hlt : h < 65536) (hk : h / 2048 = 19) : decodeIn table16 h 16 = decodeIn g19 h 16 := by
  simp only [table16, List.flatten_cons, List.flatten_nil]
  rw [decodeIn_append_left (by nofit_any)]
  rw [decodeIn_append_left (by nofit_any)]
  rw [decodeIn_append_left (by nofit_any)]
  rw [decodeIn_append_left (by nofit_any)]
  rw [decodeIn_append_left (by nofit_any)]
  rw [decodeIn_append_left (by nofit_any)]
  rw [decodeIn_append_left (by nofit_any)]
  rw [decodeIn_append_left (by nofit_any)]
  rw [decodeIn_append_left (by nofit_any)]
  rw [decodeIn_append_left (by nofit_any)]
  rw [decodeIn_append_left (by nofit_any)]
  rw [decodeIn_append_left (by nofit_any)]
  rw [decodeIn_append_left (by nofit_any)]
  rw [decodeIn_append_left (by nofit_any)]
  rw [decodeIn_append_left (by nofit_any)]
  rw [decodeIn_append_left (by nofit_any)]
  rw [decodeIn_append_left (by nofit_any)]
  rw [decodeIn_append_left (by nofit_any)]
  rw [decodeIn_append_left (by nofit_any)]
  apply decodeIn_append_right
  repeat (first | exact trivial | (apply NoFit_append; nofit_any))
theorem table16_at_20 (h : Nat) (hlt : h < 65536) (hk : h / 2048 = 20) : decodeIn table16 h 16 = decodeIn g20 h 16 := by
  simp only [table16, List.flatten_cons, List.flatten_nil]
  rw [decodeIn_append_left (by nofit_any)]
  rw [decodeIn_append_left (by nofit_any)]
  rw [decodeIn_append_left (by nofit_any)]
  rw [decodeIn_append_left (by nofit_any)]
  rw [decodeIn_append_left (by nofit_any)]
  rw [decodeIn_append_left (by nofit_any)]
  rw [decodeIn_append_left (by nofit_any)]
  rw [decodeIn_append_left (by nofit_any)]
  rw [decodeIn_append_left (by nofit_any)]
  rw [decodeIn_append_left (by nofit_any)]
  rw [decodeIn_append_left (by nofit_any)]
  rw [decodeIn_append_left (by nofit_any)]
  rw [decodeIn_append_left (by nofit_any)]
  rw [decodeIn_append_left (by nofit_any)]
  rw [decodeIn_append_left (by nofit_any)]
  rw [decodeIn_append_left (by nofit_any)]
  rw [decodeIn_append_left (by nofit_any)]
  rw [decodeIn_append_left (by nofit_any)]
  rw [decodeIn_append_left (by nofit_any)]
  rw [decodeIn_append_left (by nofit_any)]
  apply decodeIn_append_right
  repeat (first | exact trivial | (apply NoFit_append; nofit_any))
theorem table16_at_21 (h : Nat) (hlt : h < 65536) (hk : h / 2048 = 21) : decodeIn table16 h 16 = decodeIn g21 h 16 := by
  simp only [table16, List.flatten_cons, List.flatten_nil]
  rw [decodeIn_append_left (by nofit_any)]
  rw [decodeIn_append_left (by nofit_any)]
  rw [decodeIn_append_left (by nofit_any)]
  rw [decodeIn_append_left (by nofit_any)]
  rw [decodeIn_append_left (by nofit_any)]
  rw [decodeIn_append_left (by nofit_any)]
  rw [decodeIn_append_left (by nofit_any)]
  rw [decodeIn_append_left (by nofit_any)]
  rw [decodeIn_append_left (by nofit_any)]
  rw [decodeIn_append_left (by nofit_any)]
  rw [decodeIn_append_left (by nofit_any)]
  rw [decodeIn_append_left (by nofit_any)]
  rw [decodeIn_append_left (by nofit_any)]
  rw [decodeIn_append_left (by nofit_any)]
  rw [decodeIn_append_left (by nofit_any)]
  rw [decodeIn_append_left (by nofit_any)]
  rw [decodeIn_append_left (by nofit_any)]
  rw [decodeIn_append_left (by nofit_any)]
  rw [decodeIn_append_left (by nofit_any)]
  rw [decodeIn_append_left (by nofit_any)]
  rw [decodeIn_append_left (by nofit_any)]
  apply decodeIn_append_right
  repeat (first | exact trivial | (apply NoFit_append; nofit_any))
theorem table16_at_22 (h : Nat) (hlt : h < 65536) (hk : h / 2048 = 22) : decodeIn table16 h 16 = decodeIn g22 h 16 := by
  simp only [table16, List.flatten_cons, List.flatten_nil]
  rw [decodeIn_append_left (by nofit_any)]
  rw [decodeIn_append_left (by nofit_any)]
  rw [decodeIn_append_left (by nofit_any)]
  rw [decodeIn_append_left (by nofit_any)]
  rw [decodeIn_append_left (by nofit_any)]
  rw [decodeIn_append_left (by nofit_any)]
  rw [decodeIn_append_left (by nofit_any)]
  rw [decodeIn_append_left (by nofit_any)]
  rw [decodeIn_append_left (by nofit_any)]
  rw [decodeIn_append_left (by nofit_any)]
  rw [decodeIn_append_left (by nofit_any)]
  rw [decodeIn_append_left (by nofit_any)]
  rw [decodeIn_append_left (by nofit_any)]
  rw [decodeIn_append_left (by nofit_any)]
  rw [decodeIn_append_left (by nofit_any)]
  rw [decodeIn_append_left (by nofit_any)]
  rw [decodeIn_append_left (by nofit_any)]
  rw [decodeIn_append_left (by nofit_any)]
  rw [decodeIn_append_left (by nofit_any)]
  rw [decodeIn_append_left (by nofit_any)]
  rw [decodeIn_append_left (by nofit_any)]
  rw [decodeIn_append_left (by nofit_any)]
  apply decodeIn_append_right
  repeat (first | exact trivial | (apply NoFit_append; nofit_any))
theorem table16_at_23 (h : Nat) (hlt : h < 65536) (hk : h / 2048 = 23) : decodeIn table16 h 16 = decodeIn g23 h 16 := by
  simp only [table16, List.flatten_cons, List.flatten_nil]
  rw [decodeIn_append_left (by nofit_any)]
  rw [decodeIn_append_left (by nofit_any)]
  rw [decodeIn_append_left (by nofit_any)]
  rw [decodeIn_append_left (by nofit_any)]
  rw [decodeIn_append_left (by nofit_any)]
  rw [decodeIn_append_left (by nofit_any)]
  rw [decodeIn_append_left (by nofit_any)]
  rw [decodeIn_append_left (by nofit_any)]
  rw [decodeIn_append_left (by nofit_any)]
  rw [decodeIn_append_left (by nofit_any)]
  rw [decodeIn_append_left (by nofit_any)]
  rw [decodeIn_append_left (by nofit_any)]
  rw [decodeIn_append_left (by nofit_any)]
  rw [decodeIn_append_left (by nofit_any)]
  rw [decodeIn_append_left (by nofit_any)]
  rw [decodeIn_append_left (by nofit_any)]
  rw [decodeIn_append_left (by nofit_any)]
  rw [decodeIn_append_left (by nofit_any)]
  rw [decodeIn_append_left (by nofit_any)]
  rw [decodeIn_append_left (by nofit_any)]
  rw [decodeIn_append_left (by nofit_any)]
  rw [decodeIn_append_left (by nofit_any)]
  rw [decodeIn_append_left (by nofit_any)]
  apply decodeIn_append_right
  repeat (first | exact trivial | (apply NoFit_append; nofit_any))
theorem table16_at_24 (h : Nat) (hlt : h < 65536) (hk : h / 2048 = 24) : decodeIn table16 h 16 = decodeIn g24 h 16 := by
  simp only [table16, List.flatten_cons, List.flatten_nil]
  rw [decodeIn_append_left (by nofit_any)]
  rw [decodeIn_append_left (by nofit_any)]
  rw [decodeIn_append_left (by nofit_any)]
  rw [decodeIn_append_left (by nofit_any)]
  rw [decodeIn_append_left (by nofit_any)]
  rw [decodeIn_append_left (by nofit_any)]
  rw [decodeIn_append_left (by nofit_any)]
  rw [decodeIn_append_left (by nofit_any)]
  rw [decodeIn_append_left (by nofit_any)]
  rw [decodeIn_append_left (by nofit_any)]
  rw [decodeIn_append_left (by nofit_any)]
  rw [decodeIn_append_left (by nofit_any)]
  rw [decodeIn_append_left (by nofit_any)]
  rw [decodeIn_append_left (by nofit_any)]
  rw [decodeIn_append_left (by nofit_any)]
  rw [decodeIn_append_left (by nofit_any)]
  rw [decodeIn_append_left (by nofit_any)]
  rw [decodeIn_append_left (by nofit_any)]
  rw [decodeIn_append_left (by nofit_any)]
  rw [decodeIn_append_left (by nofit_any)]
  rw [decodeIn_append_left (by nofit_any)]
  rw [decodeIn_append_left (by nofit_any)]
  rw [decodeIn_append_left (by nofit_any)]
  rw [decodeIn_append_left (by nofit_any)]
  apply decodeIn_append_right
  repeat (first | exact trivial | (apply NoFit_append; nofit_any))
theorem table16_at_25 (h : Nat) (hlt : h < 65536) (hk : h / 2048 = 25) : decodeIn table16 h 16 = decodeIn g25 h 16 := by
  simp only [table16, List.flatten_cons, List.flatten_nil]
  rw [decodeIn_append_left (by nofit_any)]
  rw [decodeIn_append_left (by nofit_any)]
  rw [decodeIn_append_left (by nofit_any)]
  rw [decodeIn_append_left (by nofit_any)]
  rw [decodeIn_append_left (by nofit_any)]
  rw [decodeIn_append_left (by nofit_any)]
  rw [decodeIn_append_left (by nofit_any)]
  rw [decodeIn_append_left (by nofit_any)]
  rw [decodeIn_append_left (by nofit_any)]
  rw [decodeIn_append_left (by nofit_any)]
  rw [decodeIn_append_left (by nofit_any)]
  rw [decodeIn_append_left (by nofit_any)]
  rw [decodeIn_append_left (by nofit_any)]
  rw [decodeIn_append_left (by nofit_any)]
  rw [decodeIn_append_left (by nofit_any)]
  rw [decodeIn_append_left (by nofit_any)]
  rw [decodeIn_append_left (by nofit_any)]
  rw [decodeIn_append_left (by nofit_any)]
  rw [decodeIn_append_left (by nofit_any)]
  rw [decodeIn_append_left (by nofit_any)]
  rw [decodeIn_append_left (by nofit_any)]
  rw [decodeIn_append_left (by nofit_any)]
  rw [decodeIn_append_left (by nofit_any)]
  rw [decodeIn_append_left (by nofit_any)]
  rw [decodeIn_append_left (by nofit_any)]
  apply decodeIn_append_right
  repeat (first | exact trivial | (apply NoFit_append; nofit_any))
theorem table16_at_26 (h : Nat) (hlt : h < 65536) (hk : h / 2048 = 26) : decodeIn table16 h 16 = decodeIn g26 h 16 := by
  simp only [table16, List.flatten_cons, List.flatten_nil]
  rw [decodeIn_append_left (by nofit_any)]
  rw [decodeIn_append_left (by nofit_any)]
  rw [decodeIn_append_left (by nofit_any)]
  rw [decodeIn_append_left (by nofit_any)]
  rw [decodeIn_append_left (by nofit_any)]
  rw [decodeIn_append_left (by nofit_any)]
  rw [decodeIn_append_left (by nofit_any)]
  rw [decodeIn_append_left (by nofit_any)]
  rw [decodeIn_append_left (by nofit_any)]
  rw [decodeIn_append_left (by nofit_any)]
  rw [decodeIn_append_left (by nofit_any)]
  rw [decodeIn_append_left (by nofit_any)]
  rw [decodeIn_append_left (by nofit_any)]
  rw [decodeIn_append_left (by nofit_any)]
  rw [decodeIn_append_left (by nofit_any)]
  rw [decodeIn_append_left (by nofit_any)]
  rw [decodeIn_append_left (by nofit_any)]
  rw [decodeIn_append_left (by nofit_any)]
  rw [decodeIn_append_left (by nofit_any)]
  rw [decodeIn_append_left (by nofit_any)]
  rw [decodeIn_append_left (by nofit_any)]
  rw [decodeIn_append_left (by nofit_any)]
  rw [decodeIn_append_left (by nofit_any)]
  rw [decodeIn_append_left (by nofit_any)]
  rw [decodeIn_append_left (by nofit_any)]
  rw [decodeIn_append_left (by nofit_any)]
  apply decodeIn_append_right
  repeat (first | exact trivial | (apply NoFit_append; nofit_any))
theorem table16_at_27 (h : Nat) (hlt : h < 65536) (hk : h / 2048 = 27) : decodeIn table16 h 16 = decodeIn g26 h 16 := by
  simp only [table16, List.flatten_cons, List.flatten_nil]
  rw [decodeIn_append_left (by nofit_any)]
  rw [decodeIn_append_left (by nofit_any)]
  rw [decodeIn_append_left (by nofit_any)]
  rw [decodeIn_append_left (by nofit_any)]
  rw [decodeIn_append_left (by nofit_any)]
  rw [decodeIn_append_left (by nofit_any)]
  rw [decodeIn_append_left (by nofit_any)]
  rw [decodeIn_append_left (by nofit_any)]
  rw [decodeIn_append_left (by nofit_any)]
  rw [decodeIn_append_left (by nofit_any)]
  rw [decodeIn_append_left (by nofit_any)]
  rw [decodeIn_append_left (by nofit_any)]
  rw [decodeIn_append_left (by nofit_any)]
  rw [decodeIn_append_left (by nofit_any)]
  rw [decodeIn_append_left (by nofit_any)]
  rw [decodeIn_append_left (by nofit_any)]
  rw [decodeIn_append_left (by nofit_any)]
  rw [decodeIn_append_left (by nofit_any)]
  rw [decodeIn_append_left (by nofit_any)]
  rw [decodeIn_append_left (by nofit_any)]
  rw [decodeIn_append_left (by nofit_any)]
  rw [decodeIn_append_left (by nofit_any)]
  rw [decodeIn_append_left (by nofit_any)]
  rw [decodeIn_append_left (by nofit_any)]
  rw [decodeIn_append_left (by nofit_any)]
  rw [decodeIn_append_left (by nofit_any)]
  apply decodeIn_append_right
  repeat (first | exact trivial | (apply NoFit_append; nofit_any))
theorem table16_at_28 (h : Nat) (hlt : h < 65536) (hk : h / 2048 = 28) : decodeIn table16 h 16 = decodeIn g28 h 16 := by
  simp only [table16, List.flatten_cons, List.flatten_nil]
  rw [decodeIn_append_left (by nofit_any)]
  rw [decodeIn_append_left (by nofit_any)]
  rw [decodeIn_append_left (by nofit_any)]
  rw [decodeIn_append_left (by nofit_any)]
  rw [decodeIn_append_left (by nofit_any)]
  rw [decodeIn_append_left (by nofit_any)]
  rw [decodeIn_append_left (by nofit_any)]
  rw [decodeIn_append_left (by nofit_any)]
  rw [decodeIn_append_left (by nofit_any)]
  rw [decodeIn_append_left (by nofit_any)]
  rw [decodeIn_append_left (by nofit_any)]
  rw [decodeIn_append_left (by nofit_any)]
  rw [decodeIn_append_left (by nofit_any)]
  rw [decodeIn_append_left (by nofit_any)]
  rw [decodeIn_append_left (by nofit_any)]
  rw [decodeIn_append_left (by nofit_any)]
  rw [decodeIn_append_left (by nofit_any)]
  rw [decodeIn_append_left (by nofit_any)]
  rw [decodeIn_append_left (by nofit_any)]
  rw [decodeIn_append_left (by nofit_any)]
  rw [decodeIn_append_left (by nofit_any)]
  rw [decodeIn_append_left (by nofit_any)]
  rw [decodeIn_append_left (by nofit_any)]
  rw [decodeIn_append_left (by nofit_any)]
  rw [decodeIn_append_left (by nofit_any)]
  rw [decodeIn_append_left (by nofit_any)]
  rw [decodeIn_append_left (by nofit_any)]
  apply decodeIn_append_right
  repeat (first | exact trivial | (apply NoFit_append; nofit_any))

end Trion.Arm
