import TrionModel.Lemmas.AsmScopeProv
import TrionModel.Lemmas.C06Inv
/-!
# invariants of a file's own table along statements that are not `.include`

`Pres P st st'`: if the file's own table satisfies `P` before, it does after.  The only statements that write the file's
own table are labels, `.const`, `.global`, `.import` (and `.include`, excluded here; `.export` writes the global table);
each writes exactly the entry of its operand name: a VALUE (`label`, `.const`, `.import` of a valued global) or a PENDING
entry (`.global`, `.import` of a pending global).  Two instances:

* `P C := C.find n = none` — a name that no statement defines or declares has no entry (`doAssemble_absent`);
* `P := Table.NoDef` — without `.global` / `.import` statements no entry is pending (`doAssemble_nodef`).
-/
namespace Trion.Asm
open Trion

def Pres (P : Table → Prop) (a b : St) : Prop := (∀ C, a.locals = some C → P C) → ∀ C, b.locals = some C → P C

theorem Pres.of_eq {P : Table → Prop} {a b : St} (h : b.locals = a.locals) : Pres P a b := fun hp C hC => hp C (h ▸ hC)
theorem Pres.trans {P : Table → Prop} {a b c : St} (h1 : Pres P a b) (h2 : Pres P b c) : Pres P a c := fun hp => h2 (h1 hp)

/-- writing a value for `m` keeps `P` -/
def SetV (P : Table → Prop) (m : Bytes) : Prop := ∀ C v, P C → P (C.set m (some v))
/-- writing a pending entry for `m` keeps `P` -/
def SetD (P : Table → Prop) (m : Bytes) : Prop := ∀ C, P C → P (C.set m none)

theorem insertConstant_loc_pres {P : Table → Prop} {st st' : St} {m : Bytes} {v : Int} {x : Except CErr Bool}
    (h : insertConstant st m v .loc = .ok (st', x)) (hV : SetV P m) : Pres P st st' := by
  rcases insertConstant_char h with ⟨rfl, _⟩ | ⟨t, b, _, ht, _, ht', _, _, _, _⟩
  · exact fun hp => hp
  · simp only [St.tab] at ht ht'
    intro hp C hC
    rw [ht'] at hC; cases hC
    exact hV t v (hp t ht)

theorem deferConstant_loc_pres {P : Table → Prop} {st st' : St} {m : Bytes} {x : Except CErr Unit}
    (h : deferConstant st m .loc = .ok (st', x)) (hD : SetD P m) : Pres P st st' := by
  rcases deferConstant_char h with ⟨rfl, _⟩ | ⟨t, _, ht, _, ht', _, _, _⟩
  · exact fun hp => hp
  · simp only [St.tab] at ht ht'
    intro hp C hC
    rw [ht'] at hC; cases hC
    exact hD t (hp t ht)

theorem constDirective_pres {P : Table → Prop} {env : Env} {st : St} {line col : Nat} {args : List Arg}
    (hV : ∀ m rest, args = .ident m :: rest → SetV P m) :
    ∀ st' r, constDirective env st line col args = .ok (st', r) → Pres P st st' := by
  unfold constDirective
  splits
  all_goals (intro st' r h)
  all_goals (first | (cases h; done) | (cases h; exact .of_eq rfl) |
    (cases h; exact .of_eq (evalStrict_quiet ‹evalStrict _ _ _ _ _ _ = _›).locals) | skip)
  all_goals (have w : Pres P st _ := insertConstant_loc_pres ‹insertConstant st _ _ .loc = _› (hV _ _ rfl))
  all_goals (cases h; exact w)

theorem exportDirective_locals {env : Env} {st : St} {line col : Nat} {args : List Arg} :
    ∀ st' r, globalDirective .export_ env st line col args = .ok (st', r) → st'.locals = st.locals := by
  unfold globalDirective
  splits
  all_goals (intro st' r h)
  all_goals (first | (cases h; done) | (cases h; rfl) | skip)
  all_goals (first | exact absurd trivial ‹¬True› | exact absurd ‹GDir.export_ = GDir.global› (by decide) | exact absurd ‹GDir.export_ = GDir.import_› (by decide) | exact absurd rfl ‹¬GDir.export_ = GDir.export_› | skip)
  all_goals (have w := insertConstant_global_locals ‹insertConstant st _ _ .global = _›)
  all_goals (cases h; exact w)

theorem importDirective_pres {P : Table → Prop} {env : Env} {st : St} {line col : Nat} {args : List Arg}
    (hV : ∀ m rest, args = .ident m :: rest → SetV P m) (hD : ∀ m rest, args = .ident m :: rest → SetD P m) :
    ∀ st' r, globalDirective .import_ env st line col args = .ok (st', r) → Pres P st st' := by
  unfold globalDirective
  splits
  all_goals (intro st' r h)
  all_goals (first | (cases h; done) | (cases h; exact .of_eq rfl) | skip)
  all_goals (first | exact absurd trivial ‹¬True› | exact absurd ‹GDir.export_ = GDir.global› (by decide) | exact absurd ‹GDir.import_ = GDir.global› (by decide) | exact absurd ‹GDir.export_ = GDir.import_› (by decide) | exact absurd ‹GDir.import_ = GDir.export_› (by decide) | exact absurd rfl ‹¬GDir.export_ = GDir.export_› | exact absurd rfl ‹¬GDir.import_ = GDir.import_› | skip)
  all_goals (try (have w : Pres P st _ := insertConstant_loc_pres ‹insertConstant st _ _ .loc = _› (hV _ _ rfl)))
  all_goals (try (have w : Pres P st _ := deferConstant_loc_pres ‹deferConstant st _ .loc = _› (hD _ _ rfl)))
  all_goals (cases h; exact w)

theorem globalDirective_pres {P : Table → Prop} {env : Env} {st : St} {line col : Nat} {args : List Arg}
    (hD : ∀ m rest, args = .ident m :: rest → SetD P m) :
    ∀ st' r, globalDirective .global env st line col args = .ok (st', r) → Pres P st st' := by
  unfold globalDirective
  splits
  all_goals (intro st' r h)
  all_goals (first | (cases h; done) | (cases h; exact .of_eq rfl) | skip)
  all_goals (first | exact absurd rfl ‹GDir.global = GDir.global → False› | skip)
  all_goals (have w2 : Pres P st _ := .of_eq (deferConstant_global_locals ‹deferConstant st _ Realm.global = _›))
  all_goals (first | (cases h; exact w2) | skip)
  all_goals (try (have w1 : Pres P _ _ := .of_eq (insertConstant_global_locals ‹insertConstant _ _ _ Realm.global = _›)))
  all_goals (first | (cases h; exact w2.trans w1) | skip)
  all_goals (try (have w3 : Pres P _ _ := deferConstant_loc_pres ‹deferConstant _ _ Realm.loc = _› (hD _ _ rfl)))
  all_goals (have w4 : Pres P _ _ := .of_eq (addTask_locals ‹addTask _ _ _ = _›))
  all_goals (cases h; first | exact (w2.trans w3).trans w4 | exact w2.trans w4)

/-- what a statement may write into the file's own table: a value for `m` / a pending entry for `m` -/
def writesV (m : Bytes) (el : Element) : Prop :=
  el.val = .label m ∨ ∃ name args rest, el.val = .directive name args ∧ (name = bytesOf "const" ∨ name = bytesOf "import") ∧
    args.toList = .ident m :: rest
def writesD (m : Bytes) (el : Element) : Prop :=
  ∃ name args rest, el.val = .directive name args ∧ (name = bytesOf "global" ∨ name = bytesOf "import") ∧
    args.toList = .ident m :: rest

theorem directive_pres {P : Table → Prop} {fs : Bytes → Option Bytes} {inc : Inc} {env : Env} {st : St}
    {line col : Nat} {name : Bytes} {args : List Arg} (hni : name ≠ bytesOf "include")
    (hV : (name = bytesOf "const" ∨ name = bytesOf "import") → ∀ m rest, args = .ident m :: rest → SetV P m)
    (hD : (name = bytesOf "global" ∨ name = bytesOf "import") → ∀ m rest, args = .ident m :: rest → SetD P m) :
    ∀ st' r, directive fs inc env st line col name args = .ok (st', r) → Pres P st st' := by
  have q : ∀ {st' : St}, Quiet st st' → Pres P st st' := fun h => .of_eq h.locals
  by_cases h9 : name = bytesOf "global"
  · subst h9
    rw [directive_global]
    exact globalDirective_pres (hD (.inl rfl))
  by_cases h11 : name = bytesOf "export"
  · subst h11
    rw [directive_export]
    exact fun st' r h => .of_eq (exportDirective_locals st' r h)
  by_cases h10 : name = bytesOf "import"
  · subst h10
    rw [directive_import]
    exact importDirective_pres (hV (.inr rfl)) (hD (.inr rfl))
  by_cases h2 : name = bytesOf "const"
  · subst h2
    rw [directive_const]
    exact constDirective_pres (hV (.inl rfl))
  delta directive
  by_cases h0 : name = bytesOf "addr"
  · rw [if_pos h0]; exact fun st' r h => q (addrDirective_quiet st' r h)
  rw [if_neg h0]
  by_cases h1 : name = bytesOf "align"
  · rw [if_pos h1]; exact fun st' r h => q (alignDirective_quiet st' r h)
  rw [if_neg h1, if_neg h2]
  by_cases h3 : name = bytesOf "du8"
  · rw [if_pos h3]; exact fun st' r h => q (duDirective_quiet st' r h)
  rw [if_neg h3]
  by_cases h4 : name = bytesOf "du16"
  · rw [if_pos h4]; exact fun st' r h => q (duDirective_quiet st' r h)
  rw [if_neg h4]
  by_cases h5 : name = bytesOf "du32"
  · rw [if_pos h5]; exact fun st' r h => q (duDirective_quiet st' r h)
  rw [if_neg h5]
  by_cases h6 : name = bytesOf "dhex"
  · rw [if_pos h6]; exact fun st' r h => q (stringDirective_quiet st' r h)
  rw [if_neg h6]
  by_cases h7 : name = bytesOf "dstr"
  · rw [if_pos h7]; exact fun st' r h => q (stringDirective_quiet st' r h)
  rw [if_neg h7]
  by_cases h8 : name = bytesOf "dfile"
  · rw [if_pos h8]; exact fun st' r h => q (stringDirective_quiet st' r h)
  rw [if_neg h8, if_neg h9, if_neg h10, if_neg h11, if_neg hni]
  intro st' r h; cases h; exact q (quiet_push ..)

theorem statement_pres {P : Table → Prop} {fs : Bytes → Option Bytes} {enc : Encoder} {inc : Inc} {env : Env} {st : St}
    {el : Element} (hni : ¬ isInclude el) (hV : ∀ m, writesV m el → SetV P m) (hD : ∀ m, writesD m el → SetD P m) :
    ∀ st' r, statement fs enc inc env st el = .ok (st', r) → Pres P st st' := by
  intro st' r h
  unfold statement at h
  cases hv : el.val with
  | directive name args =>
    rw [hv] at h
    refine directive_pres (fun e => hni ⟨args, by rw [hv, e]⟩)
      (fun hn m rest ha => hV m (.inr ⟨name, args, rest, hv, hn, ha⟩))
      (fun hn m rest ha => hD m ⟨name, args, rest, hv, hn, ha⟩) _ _ h
  | label name =>
    rw [hv] at h
    simp only at h
    repeat' split at h
    all_goals (first | (cases h; done) | (cases h; exact .of_eq rfl) | skip)
    all_goals (have w : Pres P st _ := insertConstant_loc_pres ‹insertConstant st _ _ .loc = _› (hV _ (.inl hv)))
    all_goals (cases h; exact w)
  | instruction name args =>
    rw [hv] at h
    simp only at h
    split at h
    · cases h; exact .of_eq rfl
    · exact .of_eq (instruction_quiet _ _ h).locals

theorem doAssemble_pres {P : Table → Prop} {fs : Bytes → Option Bytes} {enc : Encoder} {inc : Inc} {env : Env}
    (err : Option ParseErr) : ∀ (els : List Element) (st : St),
    (∀ el ∈ els, ¬ isInclude el ∧ (∀ m, writesV m el → SetV P m) ∧ (∀ m, writesD m el → SetD P m)) →
    ∀ st' r, doAssemble fs enc inc env els err st = .ok (st', r) → Pres P st st' := by
  intro els
  induction els with
  | nil =>
    intro st _ st' r h
    cases err with
    | none => simp only [doAssemble] at h; cases h; exact fun hp => hp
    | some e => simp only [doAssemble] at h; cases h; exact .of_eq rfl
  | cons el els ih =>
    intro st hels st' r h
    simp only [doAssemble] at h
    obtain ⟨h1, h2, h3⟩ := hels el List.mem_cons_self
    split at h
    · rename_i st1 hs
      exact (statement_pres h1 h2 h3 _ _ hs).trans (ih st1 (fun x hx => hels x (List.mem_cons_of_mem _ hx)) _ _ h)
    · rename_i st1 l hs
      cases h
      exact statement_pres h1 h2 h3 _ _ hs
    · cases h

/-- the statement defines or declares `n`: `n:`, `.const n, …`, `.global n`, `.import n` (`.export n` writes the global
table only) -/
def touches (n : Bytes) (el : Element) : Prop := writesV n el ∨ writesD n el

theorem setV_absent {n m : Bytes} (h : m ≠ n) : SetV (fun C => C.find n = none) m := by
  intro C v hC
  show (C.set m (some v)).find n = none
  rw [find_set, if_neg h]; exact hC

theorem setD_absent {n m : Bytes} (h : m ≠ n) : SetD (fun C => C.find n = none) m := by
  intro C hC
  show (C.set m none).find n = none
  rw [find_set, if_neg h]; exact hC

theorem setV_nodef (m : Bytes) : SetV Table.NoDef m := by
  intro C v hC k
  rw [find_set]
  split
  · simp
  · exact hC k

/-- **absence**: along statements none of which is `.include` or defines / declares `n`, the file's own table keeps having
no entry for `n` -/
theorem doAssemble_absent {fs : Bytes → Option Bytes} {enc : Encoder} {inc : Inc} {env : Env} (err : Option ParseErr)
    (n : Bytes) (els : List Element) (st : St) (hels : ∀ el ∈ els, ¬ isInclude el ∧ ¬ touches n el)
    (h0 : ∀ C, st.locals = some C → C.find n = none) :
    ∀ st' r, doAssemble fs enc inc env els err st = .ok (st', r) → ∀ C, st'.locals = some C → C.find n = none := by
  intro st' r h
  refine doAssemble_pres (P := fun C => C.find n = none) err els st (fun el hel => ?_) st' r h h0
  obtain ⟨h1, h2⟩ := hels el hel
  exact ⟨h1, fun m hm => setV_absent (fun e => h2 (.inl (e ▸ hm))), fun m hm => setD_absent (fun e => h2 (.inr (e ▸ hm)))⟩

/-- **no pending entries**: along statements none of which is `.include`, `.global` or `.import` -/
theorem doAssemble_nodef {fs : Bytes → Option Bytes} {enc : Encoder} {inc : Inc} {env : Env} (err : Option ParseErr)
    (els : List Element) (st : St) (hels : ∀ el ∈ els, ¬ isInclude el ∧ ∀ m, ¬ writesD m el)
    (h0 : ∀ C, st.locals = some C → Table.NoDef C) :
    ∀ st' r, doAssemble fs enc inc env els err st = .ok (st', r) → ∀ C, st'.locals = some C → Table.NoDef C := by
  intro st' r h
  refine doAssemble_pres (P := Table.NoDef) err els st (fun el hel => ?_) st' r h h0
  obtain ⟨h1, h2⟩ := hels el hel
  exact ⟨h1, fun m _ => setV_nodef m, fun m hm => absurd hm (h2 m)⟩

end Trion.Asm
