import TrionModel.Lemmas.ArmTac
/-! Agreement of the ARMv6-M table with the decoder model on 16-bit patterns, group by group:
`decodeIn table16 h 16 = toOpt (decode16 h)`.  The decoder side is split into its branches (`dec_split`),
in every branch the few rows of the group are walked (`spec_leaf`). -/
set_option linter.unusedSimpArgs false
namespace Trion.Codec
open Trion Trion.Arm

set_option maxHeartbeats 4000000 in
theorem spec16_8 (h : Nat) (hlt : h < 65536) (hk : h / 2048 = 8) : decodeIn table16 h 16 = toOpt (decode16 h) := by
  rw [table16_at_8 h hlt hk]
  generalize hres : decode16 h = res
  unfold g08
  by_cases hb : h / 1024 % 2 = 0
  · -- data processing: the opcode field first (a 16-way `split` is too big for `split`)
    have hop : h / 64 % 16 = 0 ∨ h / 64 % 16 = 1 ∨ h / 64 % 16 = 2 ∨ h / 64 % 16 = 3 ∨ h / 64 % 16 = 4 ∨
        h / 64 % 16 = 5 ∨ h / 64 % 16 = 6 ∨ h / 64 % 16 = 7 ∨ h / 64 % 16 = 8 ∨ h / 64 % 16 = 9 ∨
        h / 64 % 16 = 10 ∨ h / 64 % 16 = 11 ∨ h / 64 % 16 = 12 ∨ h / 64 % 16 = 13 ∨ h / 64 % 16 = 14 ∨
        h / 64 % 16 = 15 := by omega
    rcases hop with e | e | e | e | e | e | e | e | e | e | e | e | e | e | e | e <;>
      (dec_split at hres; all_goals (subst hres; spec_leaf))
  · -- special data / branch-exchange: BX and BLX differ in bit 7, which the decoder looks at last
    by_cases h7 : h / 128 % 2 = 0 <;>
      (dec_split at hres; all_goals (subst hres; spec_leaf))

end Trion.Codec
