import TrionModel.Lemmas.LexUtf8
/-!
# The tokenizer on a text given as a list of pieces (white space / one token each)

`Piece.ws w` is a run of white space, `Piece.tok bs t` the bytes of one token with the token it must yield.
`Valid ps nx` says that every piece is what it claims to be, given the byte that follows it (`nx` follows the whole
list). `run_pieces` / `tokens_pieces`: the tokenizer reads the concatenated text back as exactly the tokens of the
pieces, each at the position the specification `Pos.adv` assigns to its first byte, and ends without error.
-/
namespace Trion.Lex
open Trion.Pos (adv isCont)

inductive Piece where
  | ws (w : Bytes)
  | tok (bs : Bytes) (t : Tok)
deriving Repr

def Piece.bytes : Piece → Bytes
  | .ws w => w
  | .tok bs _ => bs

/-- the text of a list of pieces -/
def pbytes : List Piece → Bytes
  | [] => []
  | p :: r => p.bytes ++ pbytes r

/-- the token values of a list of pieces -/
def tokVals : List Piece → List Tok
  | [] => []
  | .ws _ :: r => tokVals r
  | .tok _ t :: r => t :: tokVals r

/-- the tokens of a list of pieces that starts at position `p` -/
def lexed : Nat × Nat → List Piece → List Token
  | _, [] => []
  | p, .ws w :: r => lexed (adv p w) r
  | p, .tok bs t :: r => ⟨p.1, p.2, t⟩ :: lexed (adv p bs) r

theorem pbytes_append (a b : List Piece) : pbytes (a ++ b) = pbytes a ++ pbytes b := by
  induction a with
  | nil => rfl
  | cons p r ih => simp [pbytes, ih]

theorem tokVals_append (a b : List Piece) : tokVals (a ++ b) = tokVals a ++ tokVals b := by
  induction a with
  | nil => rfl
  | cons p r ih => cases p <;> simp [tokVals, ih]

theorem lexed_vals (p : Nat × Nat) (ps : List Piece) : (lexed p ps).map (·.val) = tokVals ps := by
  induction ps generalizing p with
  | nil => rfl
  | cons q r ih => cases q <;> simp [lexed, tokVals, ih]

/-- first byte of an identifier: a letter or the underscore -/
def identStart (b : UInt8) : Bool :=
  let c := b.toNat
  (decide (65 ≤ c) && decide (c ≤ 90)) || c == 95 || (decide (97 ≤ c) && decide (c ≤ 122))

/-- a non-empty identifier: a letter or `_`, then letters, digits, `_`, `.`, `$`, `@` -/
def identOk : Bytes → Bool
  | [] => false
  | b0 :: tl => identStart b0 && tl.all isIdentByte

/-- what may follow an identifier or a number: nothing, or a byte that is not part of identifiers/numbers -/
def Follow (nx : Option UInt8) : Prop := ∀ b, nx = some b → isIdentByte b = false

/-- `bs` is the text of exactly the token `t` when followed by `nx` -/
inductive TokOk : Bytes → Tok → Option UInt8 → Prop
  | punct (c : UInt8) (t : Tok) (nx : Option UInt8) : punct c.toNat = some t → c.toNat ≠ 47 → TokOk [c] t nx
  | ident (s : Bytes) (nx : Option UInt8) : identOk s = true → Follow nx → TokOk s (.ident s) nx
  | num (r : Nat) (ds : Bytes) (v : Int) (nx : Option UInt8) : (r = 2 ∨ r = 8 ∨ r = 10 ∨ r = 16) → ds ≠ [] →
      (∀ b ∈ ds, isDigit r b = true) → i64FromStrRadix ds r = some v → Follow nx →
      TokOk (radixPrefix r ++ ds) (.num v) nx

/-- first byte of `d`, else `nx` -/
def firstOr (d : Bytes) (nx : Option UInt8) : Option UInt8 :=
  match d with
  | [] => nx
  | b :: _ => some b

theorem firstOr_append (a b : Bytes) (nx : Option UInt8) : firstOr (a ++ b) nx = firstOr a (firstOr b nx) := by
  cases a <;> rfl

def Valid : List Piece → Option UInt8 → Prop
  | [], _ => True
  | .ws w :: r, nx => (∀ x ∈ w, isSpace x = true) ∧ Valid r nx
  | .tok bs t :: r, nx => TokOk bs t (firstOr (pbytes r) nx) ∧ Valid r nx

theorem valid_append {a b : List Piece} {nx : Option UInt8} (ha : Valid a (firstOr (pbytes b) nx)) (hb : Valid b nx) :
    Valid (a ++ b) nx := by
  induction a with
  | nil => exact hb
  | cons p r ih =>
    cases p with
    | ws w => exact ⟨ha.1, ih ha.2⟩
    | tok bs t =>
      refine ⟨?_, ih ha.2⟩
      show TokOk bs t (firstOr (pbytes (r ++ b)) nx)
      rw [pbytes_append, firstOr_append]
      exact ha.1

/-! ### ASCII -/

theorem radixPrefix_ascii (r : Nat) : ∀ b ∈ radixPrefix r, b.toNat < 128 := by
  intro b hb
  unfold radixPrefix at hb
  split at hb
  · simp at hb; rcases hb with rfl | rfl <;> decide
  · split at hb
    · simp at hb; rcases hb with rfl | rfl <;> decide
    · split at hb
      · simp at hb; rcases hb with rfl | rfl <;> decide
      · simp at hb

theorem identOk_bytes {s : Bytes} (h : identOk s = true) : ∀ b ∈ s, isIdentByte b = true := by
  cases s with
  | nil => simp [identOk] at h
  | cons b0 tl =>
    simp only [identOk, Bool.and_eq_true, List.all_eq_true] at h
    intro b hb
    simp at hb
    rcases hb with rfl | hb
    · have := h.1
      simp [identStart] at this
      simp [isIdentByte]
      omega
    · exact h.2 b hb

theorem tokOk_ascii {bs : Bytes} {t : Tok} {nx : Option UInt8} (h : TokOk bs t nx) : ∀ b ∈ bs, b.toNat < 128 := by
  cases h with
  | punct c t nx hp _ => intro b hb; simp at hb; subst hb; exact (punct_some hp).1
  | ident s nx hs _ => intro b hb; exact (isIdentByte_ascii (identOk_bytes hs b hb)).1
  | num r ds v nx _ _ hds _ _ =>
    intro b hb
    simp at hb
    rcases hb with hb | hb
    · exact radixPrefix_ascii r b hb
    · exact (isDigit_ascii (hds b hb)).1

theorem tokOk_ne_nil {bs : Bytes} {t : Tok} {nx : Option UInt8} (h : TokOk bs t nx) : bs ≠ [] := by
  cases h with
  | punct => simp
  | ident s nx hs _ => intro e; subst e; simp [identOk] at hs
  | num r ds v nx _ hne _ _ _ => intro e; simp at e; exact hne e.2

theorem valid_ascii {ps : List Piece} {nx : Option UInt8} (h : Valid ps nx) : ∀ b ∈ pbytes ps, b.toNat < 128 := by
  induction ps with
  | nil => intro b hb; simp [pbytes] at hb
  | cons p r ih =>
    intro b hb
    cases p with
    | ws w =>
      simp [pbytes, Piece.bytes] at hb
      rcases hb with hb | hb
      · exact isSpace_ascii (h.1 b hb)
      · exact ih h.2 b hb
    | tok bs t =>
      simp [pbytes, Piece.bytes] at hb
      rcases hb with hb | hb
      · exact tokOk_ascii h.1 b hb
      · exact ih h.2 b hb

/-! ### white space in front of a token -/

theorem utf8_of_ascii (d : Bytes) (h : ∀ b ∈ d, b.toNat < 128) : Utf8 d := by
  have := utf8_ascii_append d h Utf8.nil
  simpa using this

theorem skipLoop_ws (f : Nat) (s : State) (w0 : Bytes) (b : UInt8) (tl : Bytes) (hd : s.data = w0 ++ b :: tl)
    (hw : ∀ x ∈ w0, isSpace x = true) (h1 : isSpace b = false) (h2 : b.toNat ≠ 47) (hb : isCont b = false) :
    skipLoop (f + 1) s = .go ⟨b :: tl, s.utfErr, (adv s.pos w0).1, (adv s.pos w0).2⟩ := by
  cases w0 with
  | nil =>
    have := skipLoop_none f s b tl (by simpa using hd) h1 h2
    rw [this]
    cases s
    simp at hd
    simp [Pos.adv_nil, State.pos, hd]
  | cons x w =>
    have hpos : position (fun b => !isSpace b) s.data = some (x :: w).length := by
      rw [hd]
      exact position_append_of_all (x :: w) b tl (by intro y hy; simp [hw y hy]) (by simp [h1])
    have hhead : ∀ c, (b :: tl).head? = some c → isCont c = false := by
      intro c hc; simp at hc; subst hc; exact hb
    have hsp : skipSpaces s = some ⟨b :: tl, s.utfErr, (adv s.pos (x :: w)).1, (adv s.pos (x :: w)).2⟩ := by
      unfold skipSpaces
      rw [hpos]
      simp only [List.length_cons, Nat.zero_lt_succ, if_true, gt_iff_lt]
      have e1 := sliceTo_split (x :: w) (b :: tl) hhead
      have e2 := sliceFrom_split (x :: w) (b :: tl) hhead
      simp only [List.length_cons] at e1 e2
      rw [hd, e1, e2]
      simp only
      rw [updatePos_eq (good_ascii (x :: w) (fun y hy => isSpace_ascii (hw y hy)))]
      rfl
    have hs1 : ∀ y, startsWith2 (b :: tl) 47 y = false := by
      intro y
      cases tl <;> simp [startsWith2, h2]
    have hlen : (s.data.length == 0) = false := by simp [hd]
    simp [skipLoop, hlen, hsp, hs1]

/-- `next()` in front of white space followed by a token byte: the skip loop stops at that byte -/
theorem nextToken_ws (s : State) (w0 : Bytes) (b : UInt8) (tl : Bytes) (hd : s.data = w0 ++ b :: tl)
    (hw : ∀ x ∈ w0, isSpace x = true) (h1 : isSpace b = false) (h2 : b.toNat ≠ 47) (hb : isCont b = false) :
    nextToken s = match doNext ⟨b :: tl, s.utfErr, (adv s.pos w0).1, (adv s.pos w0).2⟩ with
      | .err e s2 => .err e s2.clear
      | r => r := by
  unfold nextToken
  rw [skipLoop_ws s.data.length s w0 b tl hd hw h1 h2 hb]
  simp only
  have : (!(b :: tl).isEmpty) = true := by simp
  simp only [this, if_true]
  cases doNext _ <;> rfl

/-- `next()` on nothing but white space: the end, at the position after it -/
theorem nextToken_allws (w0 : Bytes) (hw : ∀ x ∈ w0, isSpace x = true) (l c : Nat) :
    nextToken ⟨w0, false, l, c⟩ = .done ⟨[], false, (adv (l, c) w0).1, (adv (l, c) w0).2⟩ := by
  cases w0 with
  | nil => simpa [Pos.adv_nil] using nextToken_ended l c
  | cons x w =>
    have hpos : position (fun b => !isSpace b) (x :: w) = none :=
      position_none_of_all _ (by intro y hy; simp [hw y hy])
    have hsp : skipSpaces ⟨x :: w, false, l, c⟩ = some ⟨[], false, (adv (l, c) (x :: w)).1, (adv (l, c) (x :: w)).2⟩ := by
      unfold skipSpaces
      simp only [hpos, List.length_cons, Nat.zero_lt_succ, if_true, gt_iff_lt]
      have e1 : sliceTo (x :: w) (w.length + 1) = some (x :: w) := by
        have := isBoundary_length (x :: w)
        simp only [List.length_cons] at this
        simp [sliceTo, this]
      have e2 : sliceFrom (x :: w) (w.length + 1) = some [] := by
        have := isBoundary_length (x :: w)
        simp only [List.length_cons] at this
        simp [sliceFrom, this]
      rw [e1, e2]
      simp only
      rw [updatePos_eq (good_ascii (x :: w) (fun y hy => isSpace_ascii (hw y hy)))]
    unfold nextToken
    have hsk : skipLoop ((x :: w).length + 1) ⟨x :: w, false, l, c⟩ =
        .go ⟨[], false, (adv (l, c) (x :: w)).1, (adv (l, c) (x :: w)).2⟩ := by
      simp [skipLoop, hsp, startsWith2]
    simp only [hsk]
    simp

/-! ### the token arms -/

theorem punct_identStart : ∀ c, c < 256 → ((65 ≤ c ∧ c ≤ 90) ∨ c = 95 ∨ (97 ≤ c ∧ c ≤ 122)) → punct c = none := by
  decide +kernel

theorem doNext_ident (s : State) (b0 : UInt8) (tl : Bytes) (hd : s.data = b0 :: tl)
    (h0 : identStart b0 = true) : doNext s = lexIdent s := by
  unfold doNext
  have e0 : s.data[0]? = some b0 := by rw [hd]; rfl
  rw [e0]
  simp only
  have hc : (65 ≤ b0.toNat ∧ b0.toNat ≤ 90) ∨ b0.toNat = 95 ∨ (97 ≤ b0.toNat ∧ b0.toNat ≤ 122) := by
    simp [identStart] at h0; omega
  rw [punct_identStart b0.toNat (UInt8.toNat_lt b0) hc]
  simp only
  have c1 : (b0.toNat == 60) = false := by simp; omega
  have c2 : (b0.toNat == 62) = false := by simp; omega
  have c3 : (decide (48 ≤ b0.toNat) && decide (b0.toNat ≤ 57)) = false := by simp; omega
  have c4 : (b0.toNat == 39) = false := by simp; omega
  have c5 : ((decide (65 ≤ b0.toNat) && decide (b0.toNat ≤ 90)) || b0.toNat == 95 ||
      (decide (97 ≤ b0.toNat) && decide (b0.toNat ≤ 122))) = true := by simpa [identStart] using h0
  simp [c1, c2, c3, c4, c5]

theorem isIdentByte_of_isDigit {r : Nat} {b : UInt8} (h : isDigit r b = true) : isIdentByte b = true := by
  unfold isDigit digitVal at h
  simp only at h
  simp [isIdentByte]
  split at h
  · rename_i v hv
    split at hv
    · omega
    · split at hv
      · omega
      · split at hv
        · omega
        · simp at hv
  · simp at h

/-- one token piece: `next()` on `w0 ++ bs ++ rest` yields the token of `bs` at the position after `w0` and
leaves `rest` at the position after `w0 ++ bs` -/
theorem nextToken_piece (w0 bs rest : Bytes) (t : Tok) (hw : ∀ x ∈ w0, isSpace x = true)
    (ht : TokOk bs t rest.head?) (hr : ∀ b ∈ rest, b.toNat < 128) (l c : Nat) :
    nextToken ⟨w0 ++ bs ++ rest, false, l, c⟩ =
      .tok ⟨(adv (l, c) w0).1, (adv (l, c) w0).2, t⟩ ⟨rest, false, (adv (l, c) (w0 ++ bs)).1, (adv (l, c) (w0 ++ bs)).2⟩ := by
  have hbsA := tokOk_ascii ht
  have hur : Utf8 rest := utf8_of_ascii rest hr
  have hubr : Utf8 (bs ++ rest) := utf8_ascii_append bs hbsA hur
  have hadv : adv (l, c) (w0 ++ bs) = adv (adv (l, c) w0) bs := Pos.adv_append _ _ _
  rw [hadv]
  generalize hp : adv (l, c) w0 = p
  cases ht with
  | punct cb t nx hpu h47 =>
    have hc := punct_some hpu
    have hsp : isSpace cb = false := by
      cases hs : isSpace cb with
      | false => rfl
      | true =>
        exfalso
        simp [isSpace] at hs
        rcases hs with ((h | h) | h) | h <;> rw [h] at hpu <;> simp [punct] at hpu
    rw [nextToken_ws ⟨w0 ++ [cb] ++ rest, false, l, c⟩ w0 cb rest (by simp) hw hsp h47
      (by rw [isCont_false_iff]; omega)]
    simp only [State.pos, hp]
    have hdo : doNext ⟨cb :: rest, false, p.1, p.2⟩ = emit ⟨cb :: rest, false, p.1, p.2⟩ 1 true t := by
      unfold doNext
      simp [hpu]
    rw [hdo]
    have := emit_eq ⟨cb :: rest, false, p.1, p.2⟩ [cb] rest t true (by simp) (by simpa using hubr) hur
      (by intro _ b hb; simp at hb; subst hb; exact ⟨hc.1, hc.2.1⟩)
    simp only [List.length_cons, List.length_nil, Nat.zero_add, State.pos] at this
    rw [this]
  | ident _ _ hs hf =>
    cases bs with
    | nil => simp [identOk] at hs
    | cons b0 tl =>
      have hs' := hs
      simp only [identOk, Bool.and_eq_true, List.all_eq_true] at hs'
      have hb0 := hs'.1
      have hb0r : (65 ≤ b0.toNat ∧ b0.toNat ≤ 90) ∨ b0.toNat = 95 ∨ (97 ≤ b0.toNat ∧ b0.toNat ≤ 122) := by
        simp [identStart] at hb0; omega
      have hsp : isSpace b0 = false := by simp [isSpace]; omega
      rw [nextToken_ws ⟨w0 ++ (b0 :: tl) ++ rest, false, l, c⟩ w0 b0 (tl ++ rest) (by simp) hw hsp (by omega)
        (by rw [isCont_false_iff]; omega)]
      simp only [State.pos, hp]
      rw [doNext_ident ⟨b0 :: (tl ++ rest), false, p.1, p.2⟩ b0 (tl ++ rest) rfl hb0]
      have hall : ∀ x ∈ b0 :: tl, isIdentByte x = true := identOk_bytes hs
      have hall' : ∀ x ∈ b0 :: tl, x.toNat < 128 ∧ x.toNat ≠ 10 := fun x hx => isIdentByte_ascii (hall x hx)
      unfold lexIdent
      cases rest with
      | nil =>
        simp only [List.append_nil] at hubr ⊢
        have hpos : position (fun b => !isIdentByte b) (b0 :: tl) = none :=
          position_none_of_all _ (by intro x hx; simp [hall x hx])
        simp only [hpos, Bool.false_eq_true, if_false]
        have : sliceTo (b0 :: tl) (b0 :: tl).length = some (b0 :: tl) := by
          have hb := isBoundary_length (b0 :: tl)
          simp only [sliceTo, hb, if_true, List.take_length]
        rw [this]
        simp only
        have e := emit_eq ⟨b0 :: tl, false, p.1, p.2⟩ (b0 :: tl) [] (.ident (b0 :: tl)) true
          (by simp) hubr Utf8.nil (fun _ => hall')
        rw [e]
        rfl
      | cons r0 rtl =>
        have hr0 : isIdentByte r0 = false := hf r0 rfl
        have hpos : position (fun b => !isIdentByte b) (b0 :: (tl ++ r0 :: rtl)) = some (b0 :: tl).length := by
          have := position_append_of_all (p := fun b => !isIdentByte b) (b0 :: tl) r0 rtl
            (by intro x hx; simp [hall x hx]) (by simp [hr0])
          simpa using this
        simp only [hpos]
        have hhead : ∀ x, (r0 :: rtl).head? = some x → isCont x = false := utf8_head? hur
        have hst := sliceTo_split (b0 :: tl) (r0 :: rtl) hhead
        simp only [List.cons_append] at hst
        rw [hst]
        simp only
        have e := emit_eq ⟨b0 :: (tl ++ r0 :: rtl), false, p.1, p.2⟩ (b0 :: tl) (r0 :: rtl) (.ident (b0 :: tl)) true
          (by simp) (by simpa using hubr) hur (fun _ => hall')
        rw [e]
        rfl
  | num r ds v nx hrx hne hds hv hf =>
    -- first byte: a decimal digit
    obtain ⟨d0, dtl, hdd, h0⟩ : ∃ d0 dtl, radixPrefix r ++ ds = d0 :: dtl ∧ 48 ≤ d0.toNat ∧ d0.toNat ≤ 57 := by
      rcases hrx with rfl | rfl | rfl | rfl
      · exact ⟨48, 98 :: ds, by simp [radixPrefix], by decide⟩
      · exact ⟨48, 111 :: ds, by simp [radixPrefix], by decide⟩
      · cases ds with
        | nil => exact absurd rfl hne
        | cons a ds' => exact ⟨a, ds', by simp [radixPrefix], isDigit10_range (hds a (by simp))⟩
      · exact ⟨48, 120 :: ds, by simp [radixPrefix], by decide⟩
    have hsp : isSpace d0 = false := by simp [isSpace]; omega
    have hdata : w0 ++ (radixPrefix r ++ ds) ++ rest = w0 ++ d0 :: (dtl ++ rest) := by rw [hdd]; simp
    rw [nextToken_ws ⟨w0 ++ (radixPrefix r ++ ds) ++ rest, false, l, c⟩ w0 d0 (dtl ++ rest) hdata hw hsp (by omega)
      (by rw [isCont_false_iff]; omega)]
    simp only [State.pos, hp]
    rw [doNext_number ⟨d0 :: (dtl ++ rest), false, p.1, p.2⟩ d0 (dtl ++ rest) rfl h0]
    have hrestdig : ∀ b, rest.head? = some b → isDigit r b = false := by
      intro b hb
      cases hdg : isDigit r b with
      | false => rfl
      | true => have := hf b hb; rw [isIdentByte_of_isDigit hdg] at this; cases this
    have hdet := prefix_detect r hrx ds rest hds (fun _ => hne) (by
      intro _ b hb _
      have := hf b hb
      simp [isIdentByte] at this
      omega)
    have hd2 : d0 :: (dtl ++ rest) = radixPrefix r ++ ds ++ rest := by rw [hdd]; simp
    have hlex := lexNumber_exact ⟨d0 :: (dtl ++ rest), false, p.1, p.2⟩ (radixPrefix r) ds rest r hd2
      (by simp only [hd2]; exact hdet.1) (by simp only [hd2]; exact hdet.2) hds
      (by intro b hb
          cases ds with
          | nil => exact absurd rfl hne
          | cons a ds' => simp at hb; subst hb; exact isDigit_noncont (hds _ (by simp)))
      (by cases rest with
          | nil => exact Or.inl ⟨rfl, rfl⟩
          | cons r0 rtl =>
            refine Or.inr ⟨r0, rtl, rfl, hrestdig r0 rfl, ?_⟩
            rw [isCont_false_iff]; left; exact hr r0 (by simp))
    rw [hlex, hv]
    simp only
    have hasc : ∀ b ∈ radixPrefix r ++ ds, b.toNat < 128 ∧ b.toNat ≠ 10 := by
      intro b hb
      simp at hb
      rcases hb with hb | hb
      · have := radixPrefix_ascii r b hb
        refine ⟨this, ?_⟩
        unfold radixPrefix at hb
        split at hb
        · simp at hb; rcases hb with rfl | rfl <;> decide
        · split at hb
          · simp at hb; rcases hb with rfl | rfl <;> decide
          · split at hb
            · simp at hb; rcases hb with rfl | rfl <;> decide
            · simp at hb
      · exact isDigit_ascii (hds b hb)
    rw [Pos.adv_ascii p _ hasc]

/-! ### the whole text -/

def ntoks : List Piece → Nat
  | [] => 0
  | .ws _ :: r => ntoks r
  | .tok _ _ :: r => ntoks r + 1

theorem firstOr_none (d : Bytes) : firstOr d none = d.head? := by cases d <;> rfl

theorem tokOk_weaken {bs : Bytes} {t : Tok} {d : Bytes} {nx : Option UInt8} (h : TokOk bs t (firstOr d nx))
    (hd : d ≠ [] ∨ nx = none) : TokOk bs t d.head? := by
  cases d with
  | nil =>
    rcases hd with hd | hd
    · exact absurd rfl hd
    · subst hd; exact h
  | cons b r => exact h

/-- **The tokenizer reads a valid list of pieces back** (end of input after it): the tokens of the pieces, in
order, each positioned at its first byte, no error, final position after the text. `w0` is white space already
in front. -/
theorem run_pieces (ps : List Piece) (hv : Valid ps none) (w0 : Bytes) (hw : ∀ x ∈ w0, isSpace x = true)
    (p : Nat × Nat) (f : Nat) (hf : ntoks ps + 1 ≤ f) :
    run f ⟨w0 ++ pbytes ps, false, p.1, p.2⟩ =
      .ok ⟨lexed (adv p w0) ps, none, (adv p (w0 ++ pbytes ps)).1, (adv p (w0 ++ pbytes ps)).2⟩ := by
  induction ps generalizing w0 p f with
  | nil =>
    cases f with
    | zero => simp [ntoks] at hf
    | succ f =>
      simp only [pbytes, List.append_nil, run]
      rw [nextToken_allws w0 hw]
      simp [lexed]
  | cons q r ih =>
    cases q with
    | ws w =>
      have := ih hv.2 (w0 ++ w) (by intro x hx; simp at hx; rcases hx with hx | hx; exact hw x hx; exact hv.1 x hx) p f hf
      simp only [pbytes, Piece.bytes, lexed]
      rw [← List.append_assoc, this, Pos.adv_append]
    | tok bs t =>
      cases f with
      | zero => simp [ntoks] at hf
      | succ f =>
        simp only [pbytes, Piece.bytes, lexed, run]
        rw [← List.append_assoc]
        rw [nextToken_piece w0 bs (pbytes r) t hw (by rw [← firstOr_none]; exact hv.1) (valid_ascii hv.2)]
        simp only
        have := ih hv.2 [] (by simp) (adv p (w0 ++ bs)) f (by simp [ntoks] at hf; omega)
        simp only [List.nil_append, Pos.adv_nil] at this
        rw [this]
        simp only [Out.push]
        rw [← Pos.adv_append, ← Pos.adv_append, Pos.adv_append p w0 bs, List.append_assoc]

theorem ntoks_le (ps : List Piece) {nx : Option UInt8} (hv : Valid ps nx) : ntoks ps ≤ (pbytes ps).length := by
  induction ps with
  | nil => simp [ntoks]
  | cons q r ih =>
    cases q with
    | ws w => have := ih hv.2; simp [ntoks, pbytes, Piece.bytes]; omega
    | tok bs t =>
      have := ih hv.2
      have hne := tokOk_ne_nil hv.1
      have : 0 < bs.length := List.length_pos_iff.mpr hne
      simp [ntoks, pbytes, Piece.bytes]; omega

/-- `Tokenizer::new(text)` iterated to exhaustion on the text of a valid list of pieces -/
theorem tokens_pieces (ps : List Piece) (hv : Valid ps none) :
    tokens (pbytes ps) = .ok ⟨lexed (1, 1) ps, none, (adv (1, 1) (pbytes ps)).1, (adv (1, 1) (pbytes ps)).2⟩ := by
  unfold tokens
  rw [new_ascii _ (valid_ascii hv)]
  have := run_pieces ps hv [] (by simp) (1, 1) ((pbytes ps).length + 2) (by have := ntoks_le ps hv; omega)
  simpa [Pos.adv_nil] using this

end Trion.Lex
