import TrionModel.Lemmas.ShowLex
import TrionModel.Lemmas.ShowDec
/-!
# The statement `Show.parts i a` has a printable mnemonic and operands of the shapes `Opnd`

`LitOk i`: the integer literals the text of `i` contains are non-negative (a negative one would be printed with a
minus sign, which the parser reads as a unary minus applied to a literal, not as a literal) and below 2^63. True of
every instruction the encoder accepts, hence of every decoded one (`litOk_of_encode`).
-/
namespace Trion.Show
open Trion.Lex Trion.Front Trion.Codec

/-- the integer literal the text of `i` contains, if any -/
def litOf : Instr → Option Int
  | .add _ _ _ (.imm v) | .sub _ _ _ (.imm v) | .cmp _ (.imm v) | .mov _ _ (.imm v) => some v
  | .asr _ _ (.imm v) | .lsl _ _ (.imm v) | .lsr _ _ (.imm v) => some v
  | .ldr _ _ (.imm v) | .ldrb _ _ (.imm v) | .ldrh _ _ (.imm v) => some v
  | .str _ _ (.imm v) | .strb _ _ (.imm v) | .strh _ _ (.imm v) => some v
  | .bkpt v | .svc v | .udf v | .udfw v => some v
  | _ => none

def LitOk (i : Instr) : Prop := ∀ v, litOf i = some v → 0 ≤ v ∧ v ≤ i64Max

theorem litOk_of_encode (i : Instr) (hws : List Nat) (he : encode i = .ok hws) (wf : i.wf) : LitOk i := by
  intro v hv
  cases i
  case add f d l r => cases r <;> simp only [litOf] at hv <;> cases hv <;> (encsplit he <;> (simp only [i64Max]; omega))
  case sub f d l r => cases r <;> simp only [litOf] at hv <;> cases hv <;> (encsplit he <;> (simp only [i64Max]; omega))
  case cmp l r => cases r <;> simp only [litOf] at hv <;> cases hv <;> (encsplit he <;> (simp only [i64Max]; omega))
  case mov f d r => cases r <;> simp only [litOf] at hv <;> cases hv <;> (encsplit he <;> (simp only [i64Max]; omega))
  case asr d x s => cases s <;> simp only [litOf] at hv <;> cases hv <;> (encsplit he <;> (simp only [i64Max]; omega))
  case lsl d x s => cases s <;> simp only [litOf] at hv <;> cases hv <;> (encsplit he <;> (simp only [i64Max]; omega))
  case lsr d x s => cases s <;> simp only [litOf] at hv <;> cases hv <;> (encsplit he <;> (simp only [i64Max]; omega))
  case ldr d ad o => cases o <;> simp only [litOf] at hv <;> cases hv <;> (encsplit he <;> (simp only [i64Max]; omega))
  case ldrb d ad o => cases o <;> simp only [litOf] at hv <;> cases hv <;> (encsplit he <;> (simp only [i64Max]; omega))
  case ldrh d ad o => cases o <;> simp only [litOf] at hv <;> cases hv <;> (encsplit he <;> (simp only [i64Max]; omega))
  case str d ad o => cases o <;> simp only [litOf] at hv <;> cases hv <;> (encsplit he <;> (simp only [i64Max]; omega))
  case strb d ad o => cases o <;> simp only [litOf] at hv <;> cases hv <;> (encsplit he <;> (simp only [i64Max]; omega))
  case strh d ad o => cases o <;> simp only [litOf] at hv <;> cases hv <;> (encsplit he <;> (simp only [i64Max]; omega))
  case bkpt x => simp only [litOf] at hv; cases hv; simp only [Instr.wf] at wf; simp only [i64Max]; omega
  case svc x => simp only [litOf] at hv; cases hv; simp only [Instr.wf] at wf; simp only [i64Max]; omega
  case udf x => simp only [litOf] at hv; cases hv; simp only [Instr.wf] at wf; simp only [i64Max]; omega
  case udfw x => simp only [litOf] at hv; cases hv; simp only [Instr.wf] at wf; simp only [i64Max]; omega
  all_goals (simp only [litOf] at hv; cases hv)

/-! ### names -/

theorem identOk_regName : ∀ r : Reg, identOk (regName r) = true := by decide
theorem identOk_sysName : ∀ s : SysReg, identOk (sysName s) = true := by intro s; cases s <;> decide
theorem identOk_bcond : ∀ c : Cond, identOk (bytesOf "B" ++ condName c) = true := by decide

theorem hexDigit_ident (n : Nat) (h : n < 16) : isIdentByte (hexDigit n) = true := by
  have : ∀ n, n < 16 → isIdentByte (hexDigit n) = true := by decide
  exact this n h

theorem identOk_label (t : Nat) : identOk (label t) = true := by
  have hm : ∀ k, k % 16 < 16 := fun k => Nat.mod_lt _ (by decide)
  simp [label, hex8, identOk, bytesOf, identStart, hexDigit_ident _ (hm _)]
  decide

theorem opnd_rA (r : Reg) : Opnd (rA r) := .atom (.ident _ (identOk_regName r))
theorem atom_rA (r : Reg) : Atom (rA r) := .ident _ (identOk_regName r)
theorem opnd_lblA (t : Nat) : Opnd (lblA t) := .atom (.ident _ (identOk_label t))
theorem opnd_const (v : Int) (h : 0 ≤ v ∧ v ≤ i64Max) : Opnd (.const v) := .atom (.const v h.1 h.2)

theorem atom_irA (o : ImmReg) (h : ∀ v, o = .imm v → 0 ≤ v ∧ v ≤ i64Max) : Atom (irA o) := by
  cases o with
  | imm v => exact .const v (h v rfl).1 (h v rfl).2
  | reg r => exact atom_rA r

theorem opnd_irA (o : ImmReg) (h : ∀ v, o = .imm v → 0 ≤ v ∧ v ≤ i64Max) : Opnd (irA o) := .atom (atom_irA o h)

theorem opnd_memA (ad : Reg) (o : ImmReg) (h : ∀ v, o = .imm v → 0 ≤ v ∧ v ≤ i64Max) : Opnd (memA ad (irA o)) :=
  .mem (atom_rA ad) (atom_irA o h)

theorem opnd_memR (ad r : Reg) : Opnd (memA ad (rA r)) := .mem (atom_rA ad) (atom_rA r)

theorem opnd_rsA (rs : RegSet) : Opnd (rsA rs) := by
  unfold rsA
  exact .set _ (by intro x hx; simp at hx; obtain ⟨r, _, rfl⟩ := hx; exact atom_rA r)

theorem opnd_ident (s : Bytes) (h : identOk s = true) : Opnd (.ident s) := .atom (.ident s h)

/-- the mnemonic printed is an identifier -/
theorem name_ok (i : Instr) (a : Nat) : identOk (parts i a).1 = true := by
  cases i
  case add f d l r => cases f <;> (dsimp only [parts]; decide)
  case sub f d l r => cases f <;> (dsimp only [parts]; decide)
  case mov f d r => cases f <;> (dsimp only [parts]; decide)
  case cps e => cases e <;> (dsimp only [parts]; decide)
  case b c off => exact identOk_bcond c
  case ldr d ad o =>
    cases o with
    | reg r => dsimp only [parts]; decide
    | imm v => dsimp only [parts]; split <;> (dsimp only; decide)
  all_goals (dsimp only [parts]; decide)

macro "opnds" : tactic => `(tactic| (
  simp only [List.forall_mem_cons, List.not_mem_nil, false_imp_iff, implies_true, and_true]
  repeat' apply And.intro))

/-- the operands printed have the shapes the pieces cover -/
theorem args_ok (i : Instr) (a : Nat) (h : LitOk i) : ∀ x ∈ (parts i a).2, Opnd x := by
  cases i
  case add f d l r =>
    simp only [parts]; opnds
    · exact opnd_rA _
    · exact opnd_rA _
    · exact opnd_irA _ (fun v e => h v (by subst e; rfl))
  case sub f d l r =>
    simp only [parts]; opnds
    · exact opnd_rA _
    · exact opnd_rA _
    · exact opnd_irA _ (fun v e => h v (by subst e; rfl))
  case asr d x s =>
    simp only [parts]; opnds
    · exact opnd_rA _
    · exact opnd_rA _
    · exact opnd_irA _ (fun v e => h v (by subst e; rfl))
  case lsl d x s =>
    simp only [parts]; opnds
    · exact opnd_rA _
    · exact opnd_rA _
    · exact opnd_irA _ (fun v e => h v (by subst e; rfl))
  case lsr d x s =>
    simp only [parts]; opnds
    · exact opnd_rA _
    · exact opnd_rA _
    · exact opnd_irA _ (fun v e => h v (by subst e; rfl))
  case cmp l r =>
    simp only [parts]; opnds
    · exact opnd_rA _
    · exact opnd_irA _ (fun v e => h v (by subst e; rfl))
  case mov f d r =>
    simp only [parts]; opnds
    · exact opnd_rA _
    · exact opnd_irA _ (fun v e => h v (by subst e; rfl))
  case ldrb d ad o =>
    simp only [parts]; opnds
    · exact opnd_rA _
    · exact opnd_memA _ _ (fun v e => h v (by subst e; rfl))
  case ldrh d ad o =>
    simp only [parts]; opnds
    · exact opnd_rA _
    · exact opnd_memA _ _ (fun v e => h v (by subst e; rfl))
  case str d ad o =>
    simp only [parts]; opnds
    · exact opnd_rA _
    · exact opnd_memA _ _ (fun v e => h v (by subst e; rfl))
  case strb d ad o =>
    simp only [parts]; opnds
    · exact opnd_rA _
    · exact opnd_memA _ _ (fun v e => h v (by subst e; rfl))
  case strh d ad o =>
    simp only [parts]; opnds
    · exact opnd_rA _
    · exact opnd_memA _ _ (fun v e => h v (by subst e; rfl))
  case ldr d ad o =>
    cases o with
    | reg r =>
      simp only [parts]; opnds
      · exact opnd_rA _
      · exact opnd_memA _ _ (fun v e => by cases e)
    | imm v =>
      simp only [parts]
      split
      · opnds
        · exact opnd_rA _
        · exact opnd_lblA _
      · opnds
        · exact opnd_rA _
        · exact opnd_memA _ _ (fun v e => h v (by cases e; rfl))
  case ldrsb d ad o =>
    simp only [parts]; opnds
    · exact opnd_rA _
    · exact opnd_memR _ _
  case ldrsh d ad o =>
    simp only [parts]; opnds
    · exact opnd_rA _
    · exact opnd_memR _ _
  case bkpt v => simp only [parts]; opnds; exact opnd_const v (h v rfl)
  case svc v => simp only [parts]; opnds; exact opnd_const v (h v rfl)
  case udf v => simp only [parts]; opnds; exact opnd_const v (h v rfl)
  case udfw v => simp only [parts]; opnds; exact opnd_const v (h v rfl)
  case rsb d l =>
    simp only [parts]; opnds
    · exact opnd_rA _
    · exact opnd_rA _
    · exact opnd_const 0 (by decide)
  case cps e => simp only [parts]; opnds; exact opnd_ident _ (by decide)
  case dmb => simp only [parts]; opnds; exact opnd_ident _ (by decide)
  case dsb => simp only [parts]; opnds; exact opnd_ident _ (by decide)
  case isb => simp only [parts]; opnds; exact opnd_ident _ (by decide)
  case mrs d s =>
    simp only [parts]; opnds
    · exact opnd_rA _
    · exact opnd_ident _ (identOk_sysName s)
  case msr d s =>
    simp only [parts]; opnds
    · exact opnd_ident _ (identOk_sysName d)
    · exact opnd_rA _
  case adr d off =>
    simp only [parts]; opnds
    · exact opnd_rA _
    · exact opnd_lblA _
  case b c off => simp only [parts]; opnds; exact opnd_lblA _
  case bl off => simp only [parts]; opnds; exact opnd_lblA _
  case ldm r rs =>
    simp only [parts]; opnds
    · exact opnd_rA _
    · exact opnd_rsA _
  case stm r rs =>
    simp only [parts]; opnds
    · exact opnd_rA _
    · exact opnd_rsA _
  case pop rs => simp only [parts]; opnds; exact opnd_rsA _
  case push rs => simp only [parts]; opnds; exact opnd_rsA _
  all_goals (simp only [parts]; opnds <;> exact opnd_rA _)

end Trion.Show
