import TrionModel.Lemmas.ParseFuel
/-!
# Extra fuel does not change a result; fuel-free unfolding equations of the parser model
-/
namespace Trion.Parse

variable {α β : Type}

theorem bind_congr_fuel {x x' : Res α} {f f' : α → Res β}
    (h : x.bind f ≠ .fuel) (hx : x ≠ .fuel → x' = x) (hf : ∀ a, x = .ok a → f a ≠ .fuel → f' a = f a) :
    x'.bind f' = x.bind f := by
  cases x with
  | ok a => rw [hx (by simp)]; simp only [bind_ok] at h ⊢; exact hf a rfl h
  | err e => rw [hx (by simp)]; rfl
  | panic => rw [hx (by simp)]; rfl
  | fuel => simp at h

theorem bind_congr_ok {x : Res α} {f f' : α → Res β} (hf : ∀ a, x = .ok a → f' a = f a) :
    x.bind f' = x.bind f := by
  cases x with
  | ok a => exact hf a rfl
  | _ => rfl

/-- one more unit of fuel gives the same result, once the result is not `.fuel` -/
structure MonoAt (lo : LexOut) (n : Nat) : Prop where
  unary : ∀ ts, unaryF lo n ts ≠ .fuel → unaryF lo (n+1) ts = unaryF lo n ts
  binary : ∀ g st ts, binaryF lo n g st ts ≠ .fuel → binaryF lo (n+1) g st ts = binaryF lo n g st ts
  loop : ∀ g st lhs ts, binLoopF lo n g st lhs ts ≠ .fuel → binLoopF lo (n+1) g st lhs ts = binLoopF lo n g st lhs ts
  args : ∀ ts, argsF lo n ts ≠ .fuel → argsF lo (n+1) ts = argsF lo n ts
  argsLoop : ∀ ts, argsLoopF lo n ts ≠ .fuel → argsLoopF lo (n+1) ts = argsLoopF lo n ts

theorem operand_mono {lo : LexOut} {n : Nat} (ih : MonoAt lo n) (g : BinOpGroup) (st : Nat × Nat) (ts : List Token)
    (h : operandF lo n g st ts ≠ .fuel) : operandF lo (n+1) g st ts = operandF lo n g st ts := by
  unfold operandF at h ⊢
  cases hh : g.higher with
  | none => simp only [hh] at h ⊢; exact ih.unary _ h
  | some h' => simp only [hh] at h ⊢; exact ih.binary _ _ _ h

theorem monoAt (lo : LexOut) : ∀ n, MonoAt lo n := by
  intro n
  induction n with
  | zero => constructor <;> intros <;> simp_all [unaryF, binaryF, binLoopF, argsF, argsLoopF]
  | succ n ih =>
    constructor
    · -- unary
      intro ts h
      cases ts with
      | nil => simp [unaryF]
      | cons t r =>
        obtain ⟨l, c, v⟩ := t
        cases v <;> simp only [unaryF] at h ⊢
        · exact bind_congr_fuel h (ih.unary r) (fun _ _ _ => rfl)
        · exact bind_congr_fuel h (ih.unary r) (fun _ _ _ => rfl)
        · -- identifier: function call or plain
          cases r with
          | nil => rfl
          | cons t1 r1 =>
            obtain ⟨l1, c1, v1⟩ := t1
            cases v1 <;> simp only [] at h ⊢
            exact bind_congr_fuel h (ih.args r1) (fun _ _ _ => rfl)
        · exact bind_congr_fuel h (ih.binary _ _ r) (fun _ _ _ => rfl)
        · exact bind_congr_fuel h (ih.binary _ _ r) (fun _ _ _ => rfl)
        · exact bind_congr_fuel h (ih.args r) (fun _ _ _ => rfl)
    · -- binary
      intro g st ts h
      rw [binaryF_succ] at h ⊢
      exact bind_congr_fuel h (operand_mono ih g st ts) (fun p _ hp => ih.loop _ _ _ _ hp)
    · -- loop
      intro g st lhs ts h
      cases ts with
      | nil => simp only [binLoopF]
      | cons t r =>
        rw [binLoopF_cons] at h
        rw [binLoopF_cons, binLoopF_cons]
        by_cases hs : t.val.isStop = true
        · simp only [if_pos hs]
        · simp only [if_neg hs] at h ⊢
          cases hop : t.val.binOp with
          | none => simp only []
          | some op =>
            simp only [hop] at h ⊢
            by_cases h1 : op.group.toNat < g.toNat
            · simp only [if_pos h1]
            · simp only [if_neg h1] at h ⊢
              by_cases h2 : g.toNat < op.group.toNat
              · simp only [if_pos h2]
              · simp only [if_neg h2] at h ⊢
                exact bind_congr_fuel h (operand_mono ih g st r) (fun p _ hp => ih.loop _ _ _ _ hp)
    · -- args
      intro ts h
      cases ts with
      | nil => simp only [argsF]
      | cons t r =>
        simp only [argsF] at h ⊢
        by_cases he : t.val.isArgsEnd = true
        · simp only [if_pos he]
        · simp only [if_neg he] at h ⊢
          exact ih.argsLoop _ h
    · -- argsLoop
      intro ts h
      rw [argsLoopF] at h ⊢
      refine bind_congr_fuel h (ih.binary _ _ ts) ?_
      intro p _ hp
      obtain ⟨a, r⟩ := p
      cases r with
      | nil => rfl
      | cons t r1 =>
        simp only [] at hp ⊢
        by_cases hsep : t.val = .sep
        · simp only [if_pos hsep] at hp ⊢
          exact bind_congr_fuel hp (ih.argsLoop r1) (fun _ _ _ => rfl)
        · simp only [if_neg hsep]

/-! ## fuel-free functions -/

/-- the operator loop of `parse_binary` (fuel-free) -/
def binLoop (lo : LexOut) (g : BinOpGroup) (st : Nat × Nat) (lhs : Arg) (ts : List Token) : Res (Arg × List Token) :=
  binLoopF lo (fuelFor ts) g st lhs ts

/-- the loop of `parse_args` (fuel-free) -/
def argsLoop (lo : LexOut) (ts : List Token) : Res (Args × List Token) := argsLoopF lo (fuelFor ts) ts

/-- the operand of `parse_binary(g)`: `parse_unary` for the highest group, else `parse_binary(higher)` -/
def operand (lo : LexOut) (g : BinOpGroup) (st : Nat × Nat) (ts : List Token) : Res (Arg × List Token) :=
  match g.higher with
  | none => unary lo ts
  | some h => binary lo h st ts

theorem stable_of_mono {γ : Type} (f : Nat → Res γ) (b : Nat)
    (hne : ∀ n, b ≤ n → f n ≠ .fuel) (hm : ∀ n, f n ≠ .fuel → f (n+1) = f n) :
    ∀ n m, b ≤ n → b ≤ m → f n = f m := by
  have key : ∀ k, f (b + k) = f b := by
    intro k
    induction k with
    | zero => rfl
    | succ k ih => rw [← Nat.add_assoc, hm _ (hne _ (by omega)), ih]
  intro n m hn hm'
  have h1 := key (n - b)
  have h2 := key (m - b)
  rw [show b + (n - b) = n by omega] at h1
  rw [show b + (m - b) = m by omega] at h2
  rw [h1, h2]

theorem unaryF_stable (lo : LexOut) (ts : List Token) (n : Nat) (h : 16 * ts.length + 1 ≤ n) :
    unaryF lo n ts = unary lo ts :=
  stable_of_mono (fun n => unaryF lo n ts) _ (fun n hn => (fuelAt lo n).unary ts hn)
    (fun n hn => (monoAt lo n).unary ts hn) n (fuelFor ts) h (by unfold fuelFor; omega)

theorem binaryF_stable (lo : LexOut) (g : BinOpGroup) (st : Nat × Nat) (ts : List Token) (n : Nat)
    (h : 16 * ts.length + 2 + lvl g ≤ n) : binaryF lo n g st ts = binary lo g st ts :=
  stable_of_mono (fun n => binaryF lo n g st ts) _ (fun n hn => (fuelAt lo n).binary g st ts hn)
    (fun n hn => (monoAt lo n).binary g st ts hn) n (fuelFor ts) h (by have := lvl_le g; unfold fuelFor; omega)

theorem binLoopF_stable (lo : LexOut) (g : BinOpGroup) (st : Nat × Nat) (lhs : Arg) (ts : List Token) (n : Nat)
    (h : 16 * ts.length + 2 + lvl g ≤ n) : binLoopF lo n g st lhs ts = binLoop lo g st lhs ts :=
  stable_of_mono (fun n => binLoopF lo n g st lhs ts) _ (fun n hn => (fuelAt lo n).loop g st lhs ts hn)
    (fun n hn => (monoAt lo n).loop g st lhs ts hn) n (fuelFor ts) h (by have := lvl_le g; unfold fuelFor; omega)

theorem argsF_stable (lo : LexOut) (ts : List Token) (n : Nat) (h : 16 * ts.length + 9 ≤ n) :
    argsF lo n ts = args lo ts :=
  stable_of_mono (fun n => argsF lo n ts) _ (fun n hn => (fuelAt lo n).args ts hn)
    (fun n hn => (monoAt lo n).args ts hn) n (fuelFor ts) h (by unfold fuelFor; omega)

theorem argsLoopF_stable (lo : LexOut) (ts : List Token) (n : Nat) (h : 16 * ts.length + 8 ≤ n) :
    argsLoopF lo n ts = argsLoop lo ts :=
  stable_of_mono (fun n => argsLoopF lo n ts) _ (fun n hn => (fuelAt lo n).argsLoop ts hn)
    (fun n hn => (monoAt lo n).argsLoop ts hn) n (fuelFor ts) h (by unfold fuelFor; omega)

theorem operandF_stable (lo : LexOut) (g : BinOpGroup) (st : Nat × Nat) (ts : List Token) (n : Nat)
    (h : 16 * ts.length + 1 + lvl g ≤ n) : operandF lo n g st ts = operand lo g st ts := by
  unfold operandF operand
  cases hh : g.higher with
  | none => simp only []; exact unaryF_stable lo ts n (by omega)
  | some h' => simp only []; exact binaryF_stable lo _ st ts n (by have := lvl_higher hh; omega)

/-! ## results of the fuel-free functions: lengths, no `.fuel`, no `.panic` -/

theorem unary_len {lo : LexOut} {ts : List Token} {a : Arg} {r : List Token} (h : unary lo ts = .ok (a, r)) :
    r.length < ts.length := (fuelAt lo _).unaryLen _ _ _ h
theorem binary_len {lo : LexOut} {g : BinOpGroup} {st : Nat × Nat} {ts : List Token} {a : Arg} {r : List Token}
    (h : binary lo g st ts = .ok (a, r)) : r.length < ts.length := (fuelAt lo _).binaryLen _ _ _ _ _ h
theorem binLoop_len {lo : LexOut} {g : BinOpGroup} {st : Nat × Nat} {lhs : Arg} {ts : List Token} {a : Arg} {r : List Token}
    (h : binLoop lo g st lhs ts = .ok (a, r)) : r.length ≤ ts.length := (fuelAt lo _).loopLen _ _ _ _ _ _ h
theorem args_len {lo : LexOut} {ts : List Token} {a : Args} {r : List Token} (h : args lo ts = .ok (a, r)) :
    r.length ≤ ts.length := (fuelAt lo _).argsLen _ _ _ h
theorem argsLoop_len {lo : LexOut} {ts : List Token} {a : Args} {r : List Token} (h : argsLoop lo ts = .ok (a, r)) :
    r.length ≤ ts.length := (fuelAt lo _).argsLoopLen _ _ _ h
theorem operand_len' {lo : LexOut} {g : BinOpGroup} {st : Nat × Nat} {ts : List Token} {a : Arg} {r : List Token}
    (h : operand lo g st ts = .ok (a, r)) : r.length < ts.length := by
  unfold operand at h
  split at h
  · exact unary_len h
  · exact binary_len h

theorem unary_ne_fuel (lo : LexOut) (ts : List Token) : unary lo ts ≠ .fuel :=
  (fuelAt lo _).unary ts (by unfold fuelFor; omega)
theorem binary_ne_fuel (lo : LexOut) (g : BinOpGroup) (st : Nat × Nat) (ts : List Token) : binary lo g st ts ≠ .fuel :=
  (fuelAt lo _).binary g st ts (by have := lvl_le g; unfold fuelFor; omega)
theorem args_ne_fuel (lo : LexOut) (ts : List Token) : args lo ts ≠ .fuel :=
  (fuelAt lo _).args ts (by unfold fuelFor; omega)

theorem unary_ne_panic (lo : LexOut) (ts : List Token) : unary lo ts ≠ .panic := (noPanicAt lo _).unary ts
theorem binary_ne_panic (lo : LexOut) (g : BinOpGroup) (st : Nat × Nat) (ts : List Token) : binary lo g st ts ≠ .panic :=
  ((noPanicAt lo _).binary g st ts).1
theorem args_ne_panic (lo : LexOut) (ts : List Token) : args lo ts ≠ .panic := (noPanicAt lo _).args ts

/-! ## fuel-free unfolding equations -/

theorem fuelFor_cons (t : Token) (r : List Token) : fuelFor (t :: r) = (16 * r.length + 31) + 1 := by
  simp only [fuelFor, List.length_cons]; omega

theorem unary_nil (lo : LexOut) : unary lo [] = .err (endErr lo "<unary>") := rfl

theorem unary_cons (lo : LexOut) (t : Token) (r : List Token) :
    unary lo (t :: r) =
      match t.val with
      | .minus => (unary lo r).bind fun p => .ok (.neg p.1, p.2)
      | .not => (unary lo r).bind fun p => .ok (.not p.1, p.2)
      | .num v => .ok (.const v, r)
      | .ident s =>
        match r with
        | ⟨_, _, .lparen⟩ :: r1 =>
          (args lo r1).bind fun p => (close lo "')'" .rparen p.2).bind fun r3 => .ok (.func s p.1, r3)
        | _ => .ok (.ident s, r)
      | .str s => .ok (.str s, r)
      | .lparen =>
        (binary lo .bitOr (exprStart lo r) r).bind fun p =>
          (close lo "')'" .rparen p.2).bind fun r3 => .ok (p.1, r3)
      | .lbrack =>
        (binary lo .bitOr (exprStart lo r) r).bind fun p =>
          (close lo "']'" .rbrack p.2).bind fun r3 => .ok (.addr p.1, r3)
      | .lbrace =>
        (args lo r).bind fun p => (close lo "'}'" .rbrace p.2).bind fun r3 => .ok (.seq p.1, r3)
      | _ => .err (expectErr "<unary>" t) := by
  show unaryF lo (fuelFor (t :: r)) (t :: r) = _
  rw [fuelFor_cons, unaryF, unaryF_stable lo r (16 * r.length + 31) (by omega),
    binaryF_stable lo .bitOr (exprStart lo r) r (16 * r.length + 31) (by have := lvl_le .bitOr; omega),
    argsF_stable lo r (16 * r.length + 31) (by omega)]
  generalize unary lo r = U
  generalize binary lo .bitOr (exprStart lo r) r = B
  generalize args lo r = A
  obtain ⟨l, c, v⟩ := t
  cases v <;> simp only []
  -- identifier
  cases r with
  | nil => simp only []
  | cons t1 r1 =>
    obtain ⟨l1, c1, v1⟩ := t1
    cases v1 <;> simp only []
    rw [argsF_stable lo r1 _ (by simp only [List.length_cons]; omega)]

theorem binary_eq (lo : LexOut) (g : BinOpGroup) (st : Nat × Nat) (ts : List Token) :
    binary lo g st ts = (operand lo g st ts).bind fun p => binLoop lo g st p.1 p.2 := by
  unfold binary
  rw [show fuelFor ts = (16 * ts.length + 15) + 1 from rfl, binaryF_succ,
    operandF_stable lo g st ts _ (by have := lvl_le g; omega)]
  apply bind_congr_ok
  intro p hp
  have := operand_len' (a := p.1) (r := p.2) hp
  exact binLoopF_stable lo g st p.1 p.2 _ (by have := lvl_le g; omega)

theorem binLoop_nil (lo : LexOut) (g : BinOpGroup) (st : Nat × Nat) (lhs : Arg) :
    binLoop lo g st lhs [] =
      match lo.err with
      | none => .ok (lhs, [])
      | some e => .err ⟨st.1, st.2, .token e⟩ := rfl

theorem binLoop_cons (lo : LexOut) (g : BinOpGroup) (st : Nat × Nat) (lhs : Arg) (t : Token) (r : List Token) :
    binLoop lo g st lhs (t :: r) =
      if t.val.isStop then .ok (lhs, t :: r)
      else match t.val.binOp with
        | none => .err (expectErr "<operator>" t)
        | some op =>
          if op.group.toNat < g.toNat then .ok (lhs, t :: r)
          else if g.toNat < op.group.toNat then .panic
          else (operand lo g st r).bind fun p => binLoop lo g st (.bin op lhs p.1) p.2 := by
  show binLoopF lo (fuelFor (t :: r)) g st lhs (t :: r) = _
  rw [fuelFor_cons, binLoopF_cons, operandF_stable lo g st r _ (by have := lvl_le g; omega)]
  by_cases hs : t.val.isStop = true
  · simp only [if_pos hs]
  · simp only [if_neg hs]
    cases hop : t.val.binOp with
    | none => simp only []
    | some op =>
      simp only []
      by_cases h1 : op.group.toNat < g.toNat
      · simp only [if_pos h1]
      · simp only [if_neg h1]
        by_cases h2 : g.toNat < op.group.toNat
        · simp only [if_pos h2]
        · simp only [if_neg h2]
          apply bind_congr_ok
          intro p hp
          have := operand_len' (a := p.1) (r := p.2) hp
          exact binLoopF_stable lo g st _ p.2 _ (by have := lvl_le g; omega)

theorem args_nil (lo : LexOut) :
    args lo [] = match lo.err with
      | none => .ok (.nil, [])
      | some e => .err (tokErr e) := rfl

theorem args_cons (lo : LexOut) (t : Token) (r : List Token) :
    args lo (t :: r) = if t.val.isArgsEnd then .ok (.nil, t :: r) else argsLoop lo (t :: r) := by
  unfold args
  rw [fuelFor_cons, argsF, argsLoopF_stable lo (t :: r) _ (by simp only [List.length_cons]; omega)]

theorem argsLoop_eq (lo : LexOut) (ts : List Token) :
    argsLoop lo ts =
      (binary lo .bitOr (exprStart lo ts) ts).bind fun p =>
        match p.2 with
        | [] =>
          match lo.err with
          | none => .err (eofErr lo "<separator>")
          | some e => .err (tokErr e)
        | t :: r1 =>
          if t.val = .sep then (argsLoop lo r1).bind fun q => .ok (.cons p.1 q.1, q.2)
          else if t.val.isArgsEnd then .ok (.cons p.1 .nil, p.2)
          else .err (expectErr "<separator>" t) := by
  show argsLoopF lo (fuelFor ts) ts = _
  rw [show fuelFor ts = (16 * ts.length + 15) + 1 from rfl, argsLoopF,
    binaryF_stable lo .bitOr _ ts _ (by have := lvl_le .bitOr; omega)]
  apply bind_congr_ok
  intro p hp
  have hl := binary_len (a := p.1) (r := p.2) hp
  obtain ⟨a, r⟩ := p
  cases r with
  | nil => rfl
  | cons t r1 =>
    simp only [List.length_cons] at hl
    simp only []
    rw [argsLoopF_stable lo r1 _ (by omega)]

end Trion.Parse
