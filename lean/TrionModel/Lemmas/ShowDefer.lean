import TrionModel.Lemmas.ShowAsm
/-!
# The printed PC-relative instructions when their label is not yet defined: first pass and retry

`Front.assemble` on the printed text of `ADR / B<cond> / BL / LDR Rd, <label>` over a table that does not know the
label stops with `Deferred{cause: label}` leaving the front-end state `deferSt i a` (the destination register, if
any, already stored); the retry from that state over a table that does know the label completes with exactly `i`.
-/
namespace Trion.Show
open Trion.Front
set_option maxRecDepth 8000

/-- the instruction as far as the first pass fills it in -/
def preInstr : Instr → Instr
  | .adr d _ => .adr d 0
  | .ldr d _ _ => .ldr d 0 (.imm 0)
  | i => template i

/-- the front-end state a deferred printed statement is queued with -/
def deferSt (i : Instr) (a : Nat) : Front.St := ⟨a, preInstr i, 0, (parts i a).2⟩

/-- the first pass: the label is unknown inside the file -/
theorem show_defers (i : Instr) (a t : Nat) (ht : targetOf i a = some t) (eval : Arg → EvalOut)
    (hn : eval (.ident (label t)) = .noSuchVariable (label t) (.ident (label t))) :
    assemble ⟨a, template i, 0, (parts i a).2⟩ eval true = (deferSt i a, .deferred (label t)) := by
  cases i <;> simp only [targetOf] at ht <;> try cases ht
  case adr d off =>
    simp [parts, template, assemble, kinds, conv, Front.get, evalArg, rA, regl_regName, setOp, lblA, hn, deferSt, preInstr]
  case b c off =>
    simp [parts, template, assemble, kinds, conv, Front.get, evalArg, lblA, hn, deferSt, preInstr]
  case bl off =>
    simp [parts, template, assemble, kinds, conv, Front.get, evalArg, lblA, hn, deferSt, preInstr]
  case ldr d ad o =>
    cases o with
    | reg r => simp at ht
    | imm off =>
      by_cases h15 : ad.val = 15
      · simp only [h15, if_true, Option.some.injEq] at ht
        subst ht
        simp [parts, h15, template, assemble, kinds, conv, Front.get, evalArg, rA, regl_regName, setOp, lblA, hn,
          deferSt, preInstr]
      · simp [h15] at ht

/-- the retry: over a table that knows the label, from the queued state, `assemble` completes with `i` -/
theorem show_retry (i : Instr) (a t : Nat) (ht : targetOf i a = some t) (eval : Arg → EvalOut) (loc : Bool)
    (hp : Printable i a) (he : EvalOK eval i a) :
    ∃ fs2, assemble (deferSt i a) eval loc = (fs2, .completed) ∧ fs2.instr = i := by
  cases i <;> simp only [targetOf] at ht <;> try cases ht
  case adr d off =>
    obtain ⟨h0, h1, h4, htt⟩ := hp
    have hl := he.label _ rfl
    have hn := narrowU32_wrapAdd (alPc a) off
    have hlit := literal_target a off h0 h1 h4 htt
    simp [deferSt, preInstr, parts, assemble, kinds, conv, Front.get, evalArg, rA, regl_regName, setOp, finish,
      lblA, hl, hn, hlit]
  case b c off =>
    obtain ⟨hlo, hhi, h2, h0, htt⟩ := hp
    have hl := he.label _ rfl
    have hn := narrowU32_wrapAdd (pcOf a) off
    by_cases hc : c.val = 14
    · have hb := branch_target a off (-2048) 2046 (by simpa [bLo, hc] using hlo) (by simpa [bHi, hc] using hhi) h2 h0 htt
      simp [deferSt, preInstr, template, parts, assemble, kinds, conv, Front.get, evalArg, setOp, finish, lblA, hl, hn, hb, hc]
    · have hb := branch_target a off (-256) 254 (by simpa [bLo, hc] using hlo) (by simpa [bHi, hc] using hhi) h2 h0 htt
      simp [deferSt, preInstr, template, parts, assemble, kinds, conv, Front.get, evalArg, setOp, finish, lblA, hl, hn, hb, hc]
  case bl off =>
    obtain ⟨hlo, hhi, h2, h0, htt⟩ := hp
    have hl := he.label _ rfl
    have hn := narrowU32_wrapAdd (pcOf a) off
    have hb := branch_target a off (-16777216) 16777215 hlo hhi h2 h0 htt
    simp [deferSt, preInstr, template, parts, assemble, kinds, conv, Front.get, evalArg, setOp, finish, lblA, hl, hn, hb]
  case ldr d ad o =>
    cases o with
    | reg r => simp at ht
    | imm v =>
      by_cases h15 : ad.val = 15
      · simp only [Printable, h15, if_true] at hp
        obtain ⟨h0, h1, h4, htt⟩ := hp
        have hl := he.label (wrapAdd (alPc a) v) (by simp [targetOf, h15])
        have hn := narrowU32_wrapAdd (alPc a) v
        have hlit := literal_target a v h0 h1 h4 htt
        have hpc : ad = Reg.pc := Fin.ext h15
        simp only [deferSt, parts, h15, if_true]
        simp [preInstr, assemble, kinds, conv, Front.get, evalArg, rA, regl_regName, setOp, finish,
          lblA, hl, hn, hlit, hpc]
      · simp [h15] at ht

end Trion.Show
