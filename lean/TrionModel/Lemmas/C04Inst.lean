import TrionModel.Lemmas.C04Asm
import TrionModel.Lemmas.AsmShow
import TrionModel.Lemmas.ShowEval
/-!
# C04 closed: the two concrete evaluators are `Simp.evaluate` (`EvalSimp`), and the pipeline statement
-/
namespace Trion.C04
open Trion Trion.Front Trion.Simp

/-- the evaluator the pipeline model `Asm` hands to `Front.assemble` -/
theorem evalSimp_frontEval (t : Asm.Table) : EvalSimp (Asm.frontEval t) (fun n => t.get n) := by
  have key : ∀ x, (evaluateE (fun n => t.get n) isRegister x).toT.toERes = evaluate (fun n => t.get n) isRegister x := by
    intro x; rw [evaluateE_is_evaluateT]; exact (evaluateT_proj_both _ _).1 x
  refine ⟨fun x ev a' h => ?_, fun x n h => ?_, fun x e h => ?_⟩
  · have hE := (evaluate_iff_E _ x ev a').1 h
    constructor
    · intro hc; simp [Asm.frontEval, Asm.evalIn, hE, hc]
    · intro c hc; simp [Asm.frontEval, Asm.evalIn, hE, hc]
  · have := key x
    cases hE : evaluateE (fun n => t.get n) isRegister x with
    | ok ev a' => rw [hE, h] at this; simp [EvE.toT, EvT.toERes] at this
    | nosuch m a' =>
      rw [hE, h] at this; simp only [EvE.toT, EvT.toERes, ERes.err.injEq, EvalErr.noSuchVar.injEq] at this
      subst this
      exact ⟨a', by simp [Asm.frontEval, Asm.evalIn, hE]⟩
    | err e a' => rw [hE, h] at this; simp [EvE.toT, EvT.toERes] at this
    | panic => rw [hE, h] at this; simp [EvE.toT, EvT.toERes] at this
  · have := key x
    cases hE : evaluateE (fun n => t.get n) isRegister x with
    | ok ev a' => rw [hE, h] at this; simp [EvE.toT, EvT.toERes] at this
    | nosuch m a' => rw [hE, h] at this; simp [EvE.toT, EvT.toERes] at this
    | err e2 a' =>
      cases e2 with
      | badType k o => exact ⟨.badType k o, a', by simp [Asm.frontEval, Asm.evalIn, hE, Asm.evalE]⟩
      | overflow k => exact ⟨.overflow (Asm.ovName k), a', by simp [Asm.frontEval, Asm.evalIn, hE, Asm.evalE]⟩
    | panic => rw [hE, h] at this; simp [EvE.toT, EvT.toERes] at this

/-- the plain evaluator of `Spec/Front.lean` -/
theorem evalSimp_simpEval (lk : Bytes → Lookup) : EvalSimp (Show.simpEval lk) lk := by
  have key : ∀ x, (evaluateT lk isRegister x).toERes = evaluate lk isRegister x := (evaluateT_proj_both _ _).1
  refine ⟨fun x ev a' h => ?_, fun x n h => ?_, fun x e h => ?_⟩
  · have := key x
    cases hT : evaluateT lk isRegister x with
    | ok ev2 a2 =>
      rw [hT, h] at this; simp only [EvT.toERes, ERes.ok.injEq, Prod.mk.injEq] at this
      obtain ⟨rfl, rfl⟩ := this
      constructor
      · intro hc; simp [Show.simpEval, hT, hc]
      · intro c hc; simp [Show.simpEval, hT, hc]
    | nosuch m a2 => rw [hT, h] at this; simp [EvT.toERes] at this
    | err e => rw [hT, h] at this; simp [EvT.toERes] at this
    | panic => rw [hT, h] at this; simp [EvT.toERes] at this
  · have := key x
    cases hT : evaluateT lk isRegister x with
    | ok ev2 a2 => rw [hT, h] at this; simp [EvT.toERes] at this
    | nosuch m a2 =>
      rw [hT, h] at this; simp only [EvT.toERes, ERes.err.injEq, EvalErr.noSuchVar.injEq] at this
      subst this
      exact ⟨a2, by simp [Show.simpEval, hT]⟩
    | err e => rw [hT, h] at this; simp [EvT.toERes] at this
    | panic => rw [hT, h] at this; simp [EvT.toERes] at this
  · have := key x
    cases hT : evaluateT lk isRegister x with
    | ok ev2 a2 => rw [hT, h] at this; simp [EvT.toERes] at this
    | nosuch m a2 => rw [hT, h] at this; simp [EvT.toERes] at this
    | err e2 =>
      cases e2 with
      | badType k o => exact ⟨.badType k o, x, by simp [Show.simpEval, hT]⟩
      | overflow k => exact ⟨.overflow "overflow", x, by simp [Show.simpEval, hT]⟩
    | panic => rw [hT, h] at this; simp [EvT.toERes] at this

/-- the symbol table of a constant table of the pipeline -/
def tabOf (t : Asm.Table) : SymTable := tab (fun n => t.get n)

end Trion.C04
