import TrionModel.Lemmas.AsmLoud
/-!
# `Trion.Asm`: what a statement (and a task) adds — diagnostics and queued tasks — carries its position
-/
namespace Trion.Asm
open Trion

/-- the diagnostic is at file `f`, line `l`, column `c` -/
def Diag.at (d : Diag) (f : Bytes) (l c : Nat) : Prop := d.file = f ∧ d.line = l ∧ d.col = c

/-- the task will report at `(f, l, c)`: `DataExpr`/`ArmInstr` store all three; the `.global` closure stores line
and column and reports in the file whose task loop runs it (`f` = that file) -/
def Task.at (t : Task) (f : Bytes) (l c : Nat) : Prop :=
  match t with
  | .data d _ => d.file = f ∧ d.line = l ∧ d.col = c
  | .instr i _ => i.file = f ∧ i.line = l ∧ i.col = c
  | .globalCopy _ l' c' => l' = l ∧ c' = c

/-- everything that is new in `st'` (diagnostics, queued tasks) is at `(f, l, c)` -/
def Eff (f : Bytes) (l c : Nat) (st st' : St) : Prop :=
  (∀ d ∈ st'.errors, d ∈ st.errors ∨ d.at f l c) ∧
  (∀ t ∈ st'.globalTasks, t ∈ st.globalTasks ∨ t.at f l c) ∧
  (∀ q', st'.localTasks = some q' → ∀ t ∈ q', (∃ q, st.localTasks = some q ∧ t ∈ q) ∨ t.at f l c)

theorem Eff.refl (f : Bytes) (l c : Nat) (st : St) : Eff f l c st st :=
  ⟨fun _ h => .inl h, fun _ h => .inl h, fun q hq t ht => .inl ⟨q, hq, ht⟩⟩

theorem Eff.trans {f : Bytes} {l c : Nat} {a b d : St} (h1 : Eff f l c a b) (h2 : Eff f l c b d) : Eff f l c a d := by
  refine ⟨fun x hx => ?_, fun t ht => ?_, fun q hq t ht => ?_⟩
  · rcases h2.1 x hx with h | h
    · exact h1.1 x h
    · exact .inr h
  · rcases h2.2.1 t ht with h | h
    · exact h1.2.1 t h
    · exact .inr h
  · rcases h2.2.2 q hq t ht with ⟨q1, hq1, ht1⟩ | h
    · exact h1.2.2 q1 hq1 t ht1
    · exact .inr h

/-- a state that differs from `st` at most by one more diagnostic at the position -/
theorem eff_pushIn (f : Bytes) (l c : Nat) (st : St) (k : Kind) : Eff f l c st (st.pushIn f l c k) := by
  refine ⟨fun x hx => ?_, fun _ h => .inl h, fun q hq t ht => .inl ⟨q, hq, ht⟩⟩
  simp only [St.pushIn, List.mem_cons] at hx
  rcases hx with rfl | hx
  · exact .inr ⟨rfl, rfl, rfl⟩
  · exact .inl hx

/-- a state with the same diagnostics and queues -/
theorem eff_same {f : Bytes} {l c : Nat} {st st' : St} (he : st'.errors = st.errors) (hg : st'.globalTasks = st.globalTasks)
    (hl : st'.localTasks = st.localTasks) : Eff f l c st st' :=
  ⟨fun _ h => .inl (he ▸ h), fun _ h => .inl (hg ▸ h), fun q hq t ht => .inl ⟨q, hl ▸ hq, ht⟩⟩

theorem insertConstant_same {st st' : St} {n : Bytes} {v : Int} {r : Realm} {x : Except CErr Bool}
    (h : insertConstant st n v r = .ok (st', x)) :
    st'.errors = st.errors ∧ st'.globalTasks = st.globalTasks ∧ st'.localTasks = st.localTasks := by
  unfold insertConstant at h
  repeat' split at h
  all_goals (first | (cases h; done) | (cases h; exact ⟨rfl, rfl, rfl⟩))

theorem deferConstant_same {st st' : St} {n : Bytes} {r : Realm} {x : Except CErr Unit}
    (h : deferConstant st n r = .ok (st', x)) :
    st'.errors = st.errors ∧ st'.globalTasks = st.globalTasks ∧ st'.localTasks = st.localTasks := by
  unfold deferConstant at h
  repeat' split at h
  all_goals (first | (cases h; done) | (cases h; exact ⟨rfl, rfl, rfl⟩))

theorem eff_of_same {f : Bytes} {l c : Nat} {st st' : St}
    (h : st'.errors = st.errors ∧ st'.globalTasks = st.globalTasks ∧ st'.localTasks = st.localTasks) : Eff f l c st st' :=
  eff_same h.1 h.2.1 h.2.2

theorem addTask_eff {f : Bytes} {l c : Nat} {st st' : St} {t : Task} {r : Realm} (h : addTask st t r = .ok st')
    (ht : t.at f l c) : Eff f l c st st' := by
  unfold addTask at h
  repeat' split at h
  all_goals (first | (cases h; done) | skip)
  · cases h
    refine ⟨fun _ h => .inl h, fun x hx => ?_, fun q hq t ht => .inl ⟨q, hq, ht⟩⟩
    simp only [List.mem_append, List.mem_singleton] at hx
    rcases hx with hx | rfl
    · exact .inl hx
    · exact .inr ht
  · rename_i q0 hq0
    cases h
    refine ⟨fun _ h => .inl h, fun _ h => .inl h, fun q hq x hx => ?_⟩
    cases hq
    simp only [List.mem_append, List.mem_singleton] at hx
    rcases hx with hx | rfl
    · exact .inl ⟨q0, hq0, hx⟩
    · exact .inr ht

def DataExpr.at (d : DataExpr) (f : Bytes) (l c : Nat) : Prop := d.file = f ∧ d.line = l ∧ d.col = c
def ArmInstr.at (i : ArmInstr) (f : Bytes) (l c : Nat) : Prop := i.file = f ∧ i.line = l ∧ i.col = c

theorem writeData_eff {f : Bytes} {l c : Nat} {d : DataExpr} {st : St} {bytes : Bytes} (hd : d.at f l c) :
    ∀ d' st' r, d.writeData st bytes = .ok (d', st', r) → Eff f l c st st' ∧ d'.at f l c := by
  obtain ⟨rfl, rfl, rfl⟩ := hd
  unfold DataExpr.writeData
  splits
  all_goals (intro d' st' r h)
  all_goals (first | (cases h; done) | (cases h; exact ⟨eff_same rfl rfl rfl, rfl, rfl, rfl⟩) | (cases h; exact ⟨(eff_same (st' := { st with seg := _ }) rfl rfl rfl).trans (eff_pushIn ..), rfl, rfl, rfl⟩))

theorem writer_eff {f : Bytes} {l c : Nat} {d : DataExpr} {st : St} (hd : d.at f l c) :
    ∀ d' st' r, d.writer st = .ok (d', st', r) → Eff f l c st st' ∧ d'.at f l c := by
  unfold DataExpr.writer
  splits
  all_goals (first | exact writeData_eff hd | skip)
  all_goals (obtain ⟨rfl, rfl, rfl⟩ := hd)
  all_goals (intro d' st' r h)
  all_goals (cases h; exact ⟨eff_pushIn .., rfl, rfl, rfl⟩)

theorem apply_eff {f : Bytes} {l c : Nat} {d : DataExpr} {env : Env} {st : St} {loc : Bool} (hd : d.at f l c) :
    ∀ d' st' op, d.apply env st loc = .ok (d', st', op) → Eff f l c st st' ∧ d'.at f l c := by
  unfold DataExpr.apply
  splits
  all_goals (intro d' st' op h)
  all_goals (first | (cases h; done) | skip)
  all_goals (try (rename_i hw; have w := (fun hd' => writer_eff hd' _ _ _ hw) hd))
  all_goals (first | (cases h; exact w) | skip)
  all_goals (obtain ⟨rfl, rfl, rfl⟩ := hd)
  all_goals (cases h; first | exact ⟨Eff.refl .., rfl, rfl, rfl⟩ | exact ⟨eff_pushIn .., rfl, rfl, rfl⟩)

theorem duDirective_eff {du : DU} {env : Env} {st : St} {line col : Nat} {args : List Arg} :
    ∀ st' r, duDirective du env st line col args = .ok (st', r) → Eff env.curName line col st st' := by
  unfold duDirective
  splits
  all_goals (intro st' r h)
  all_goals (first | (cases h; done) | (cases h; exact eff_pushIn ..) | skip)
  all_goals (try (have w1 := apply_eff (d := ⟨du, env.curName, line, col, _, _, false⟩) ⟨rfl, rfl, rfl⟩ _ _ _ ‹DataExpr.apply _ _ _ _ = _›))
  all_goals (try (have w2 := writeData_eff w1.2 _ _ _ ‹DataExpr.writeData _ _ _ = _›))
  all_goals (try (have w3 := addTask_eff (t := .data _ false) ‹DataExpr.schedule _ _ _ = _› w2.2))
  all_goals (cases h; first | exact w1.1 | exact w1.1.trans w2.1 | exact (w1.1.trans w2.1).trans w3)

theorem runDataTask_eff {d : DataExpr} {g : Bool} {env : Env} {st : St} :
    ∀ st' r, runDataTask d g env st = .ok (st', r) → Eff d.file d.line d.col st st' := by
  unfold runDataTask
  splits
  all_goals (intro st' r h)
  all_goals (first | (cases h; done) | skip)
  all_goals (try (have w1 := apply_eff (d := d) ⟨rfl, rfl, rfl⟩ _ _ _ ‹DataExpr.apply _ _ _ _ = _›))
  all_goals (try (have w3 := addTask_eff (t := .data _ true) ‹DataExpr.schedule _ _ _ = _› w1.2))
  all_goals (cases h; first | exact w1.1 | exact w1.1.trans w3 | (obtain ⟨w11, e1, e2, e3⟩ := w1; rw [e1, e2, e3]; exact w11.trans (eff_pushIn ..)))

theorem assembleI_eff {f : Bytes} {l c : Nat} {i : ArmInstr} {env : Env} {st : St} {loc : Bool} (hi : i.at f l c) :
    ∀ i' st' op, i.assemble env st loc = .ok (i', st', op) → Eff f l c st st' ∧ i'.at f l c := by
  obtain ⟨rfl, rfl, rfl⟩ := hi
  unfold ArmInstr.assemble
  splits
  all_goals (intro i' st' op h)
  all_goals (first | (cases h; done) | (cases h; exact ⟨Eff.refl .., rfl, rfl, rfl⟩) | (cases h; exact ⟨eff_pushIn .., rfl, rfl, rfl⟩))

theorem writeInstr_eff {f : Bytes} {l c : Nat} {enc : Encoder} {i : ArmInstr} {st : St} {df : Bool} (hi : i.at f l c) :
    ∀ i' st' r, i.writeInstr enc st df = .ok (i', st', r) → Eff f l c st st' ∧ i'.at f l c := by
  obtain ⟨rfl, rfl, rfl⟩ := hi
  unfold ArmInstr.writeInstr
  splits
  all_goals (intro i' st' r h)
  all_goals (first | (cases h; done) | (cases h; exact ⟨eff_pushIn .., rfl, rfl, rfl⟩) | (cases h; exact ⟨eff_same rfl rfl rfl, rfl, rfl, rfl⟩) | (cases h; exact ⟨(eff_same (st' := { st with seg := _ }) rfl rfl rfl).trans (eff_pushIn ..), rfl, rfl, rfl⟩))

theorem instruction_eff {enc : Encoder} {env : Env} {st : St} {line col : Nat} {name : Bytes} {args : List Arg} :
    ∀ st' r, instruction enc env st line col name args = .ok (st', r) → Eff env.curName line col st st' := by
  unfold instruction
  splits
  all_goals (intro st' r h)
  all_goals (first | (cases h; done) | (cases h; exact eff_pushIn ..) | skip)
  all_goals (try (have w1 := assembleI_eff (i := ⟨env.curName, line, col, _, false⟩) ⟨rfl, rfl, rfl⟩ _ _ _ ‹ArmInstr.assemble _ _ _ _ = _›))
  all_goals (try (have w2 := writeInstr_eff w1.2 _ _ _ ‹ArmInstr.writeInstr _ _ _ _ = _›))
  all_goals (try (have w3 := addTask_eff (t := .instr _ false) ‹ArmInstr.schedule _ _ _ = _› w2.2))
  all_goals (cases h; first | exact w1.1.trans w2.1 | exact (w1.1.trans w2.1).trans w3)

theorem runInstrTask_eff {enc : Encoder} {i : ArmInstr} {g : Bool} {env : Env} {st : St} :
    ∀ st' r, runInstrTask enc i g env st = .ok (st', r) → Eff i.file i.line i.col st st' := by
  unfold runInstrTask
  splits
  all_goals (intro st' r h)
  all_goals (first | (cases h; done) | skip)
  all_goals (try (have w1 := assembleI_eff (i := i) ⟨rfl, rfl, rfl⟩ _ _ _ ‹ArmInstr.assemble _ _ _ _ = _›))
  all_goals (try (have w2 := writeInstr_eff w1.2 _ _ _ ‹ArmInstr.writeInstr _ _ _ _ = _›))
  all_goals (try (have w3 := addTask_eff (t := .instr _ true) ‹ArmInstr.schedule _ _ _ = _› w1.2))
  all_goals (cases h; first | exact w1.1 | exact w1.1.trans w2.1 | exact w1.1.trans w3 | (obtain ⟨w11, e1, e2, e3⟩ := w1; rw [e1, e2, e3]; exact w11.trans (eff_pushIn ..)))

theorem runGlobalCopy_eff {name : Bytes} {line col : Nat} {env : Env} {st : St} :
    ∀ st' r, runGlobalCopy name line col env st = .ok (st', r) → Eff env.curName line col st st' := by
  unfold runGlobalCopy
  splits
  all_goals (intro st' r h)
  all_goals (first | (cases h; done) | (cases h; exact eff_pushIn ..) | skip)
  all_goals (try (have w1 : Eff env.curName line col st _ := eff_of_same (insertConstant_same ‹insertConstant _ _ _ _ = _›)))
  all_goals (cases h; first | exact w1 | exact w1.trans (eff_pushIn ..))

theorem evalStrict_eff {dir : String} {env : Env} {st st' : St} {line col : Nat} {a : Arg} {r : Res}
    (h : evalStrict dir env st line col a = .ok (.error (st', r))) : Eff env.curName line col st st' := by
  unfold evalStrict at h
  repeat' split at h
  all_goals (first | (cases h; done) | (cases h; exact eff_pushIn ..))

/-- the closing alternatives shared by the directives that touch regions or tables only -/
macro "eff_close" : tactic =>
  `(tactic| first
    | exact eff_pushIn ..
    | exact Eff.refl ..
    | exact eff_same rfl rfl rfl
    | exact (eff_same (st' := { _ with seg := _ }) rfl rfl rfl).trans (eff_pushIn ..)
    | exact evalStrict_eff ‹evalStrict _ _ _ _ _ _ = _›
    | exact eff_of_same (insertConstant_same ‹insertConstant _ _ _ _ = _›)
    | exact (eff_of_same (insertConstant_same ‹insertConstant _ _ _ _ = _›)).trans (eff_pushIn ..)
    | exact eff_of_same (deferConstant_same ‹deferConstant _ _ _ = _›)
    | exact (eff_of_same (deferConstant_same ‹deferConstant _ _ _ = _›)).trans (eff_pushIn ..))

theorem addrDirective_eff {env : Env} {st : St} {line col : Nat} {args : List Arg} :
    ∀ st' r, addrDirective env st line col args = .ok (st', r) → Eff env.curName line col st st' := by
  unfold addrDirective
  splits
  all_goals (intro st' r h)
  all_goals (first | (cases h; done) | (cases h; eff_close))

theorem alignDirective_eff {env : Env} {st : St} {line col : Nat} {args : List Arg} :
    ∀ st' r, alignDirective env st line col args = .ok (st', r) → Eff env.curName line col st st' := by
  unfold alignDirective
  splits
  all_goals (intro st' r h)
  all_goals (first | (cases h; done) | (cases h; eff_close))

theorem constDirective_eff {env : Env} {st : St} {line col : Nat} {args : List Arg} :
    ∀ st' r, constDirective env st line col args = .ok (st', r) → Eff env.curName line col st st' := by
  unfold constDirective
  splits
  all_goals (intro st' r h)
  all_goals (first | (cases h; done) | (cases h; eff_close))

theorem appendData_eff {dir : String} {env : Env} {st : St} {line col : Nat} {d : Bytes} :
    ∀ st' r, appendData dir env st line col d = .ok (st', r) → Eff env.curName line col st st' := by
  unfold appendData
  splits
  all_goals (intro st' r h)
  all_goals (first | (cases h; done) | (cases h; eff_close))

theorem stringDirective_eff {fs : Bytes → Option Bytes} {dir : String} {env : Env} {st : St} {line col : Nat}
    {args : List Arg} :
    ∀ st' r, stringDirective fs dir env st line col args = .ok (st', r) → Eff env.curName line col st st' := by
  unfold stringDirective
  splits
  all_goals (first | exact appendData_eff | skip)
  all_goals (intro st' r h)
  all_goals (first | (cases h; done) | (cases h; eff_close))

theorem globalDirective_eff {g : GDir} {env : Env} {st : St} {line col : Nat} {args : List Arg} :
    ∀ st' r, globalDirective g env st line col args = .ok (st', r) → Eff env.curName line col st st' := by
  unfold globalDirective
  splits
  all_goals (intro st' r h)
  all_goals (first | (cases h; done) | (cases h; eff_close) | skip)
  -- `.global`: `defer_constant(Global)`, then fill / defer locally, then the closure
  all_goals (have w2 : Eff env.curName line col st _ := eff_of_same (deferConstant_same ‹deferConstant st _ Realm.global = _›))
  all_goals (try (have w1 : Eff env.curName line col _ _ := eff_of_same (insertConstant_same ‹insertConstant _ _ _ Realm.global = _›)))
  all_goals (try (have w3 : Eff env.curName line col _ _ := eff_of_same (deferConstant_same ‹deferConstant _ _ Realm.loc = _›)))
  all_goals (try (have w4 := addTask_eff (f := env.curName) (t := .globalCopy _ line col) ‹addTask _ _ _ = _› ⟨rfl, rfl⟩))
  all_goals (cases h; first | exact w2.trans w1 | exact (w2.trans w3).trans w4 | exact w2.trans w4)

/-- what the recursive call contributes is not at the statement's position; `.include` itself adds at most the
final `AssemblyFailed` diagnostic -/
theorem includeDirective_eff {fs : Bytes → Option Bytes} {inc : Inc} {env : Env} {st : St} {line col : Nat}
    {args : List Arg} :
    ∀ st' r, includeDirective fs inc env st line col args = .ok (st', r) →
      Eff env.curName line col st st' ∨
      ∃ data path st1 r1, fs path = some data ∧ inc env st data path = .ok (st1, r1) ∧ Eff env.curName line col st1 st' := by
  unfold includeDirective
  splits
  all_goals (intro st' r h)
  all_goals (first | (cases h; done) | (cases h; exact .inl (eff_pushIn ..)) | skip)
  all_goals (cases h; first
    | exact .inr ⟨_, _, _, _, ‹fs _ = some _›, ‹inc _ _ _ _ = _›, Eff.refl ..⟩
    | exact .inr ⟨_, _, _, _, ‹fs _ = some _›, ‹inc _ _ _ _ = _›, eff_pushIn ..⟩)

theorem directive_eff {fs : Bytes → Option Bytes} {inc : Inc} {env : Env} {st : St} {line col : Nat} {name : Bytes}
    {args : List Arg} (hni : name ≠ bytesOf "include") :
    ∀ st' r, directive fs inc env st line col name args = .ok (st', r) → Eff env.curName line col st st' := by
  delta directive
  by_cases h0 : name = bytesOf "addr"
  · rw [if_pos h0]; exact addrDirective_eff
  rw [if_neg h0]
  by_cases h1 : name = bytesOf "align"
  · rw [if_pos h1]; exact alignDirective_eff
  rw [if_neg h1]
  by_cases h2 : name = bytesOf "const"
  · rw [if_pos h2]; exact constDirective_eff
  rw [if_neg h2]
  by_cases h3 : name = bytesOf "du8"
  · rw [if_pos h3]; exact duDirective_eff
  rw [if_neg h3]
  by_cases h4 : name = bytesOf "du16"
  · rw [if_pos h4]; exact duDirective_eff
  rw [if_neg h4]
  by_cases h5 : name = bytesOf "du32"
  · rw [if_pos h5]; exact duDirective_eff
  rw [if_neg h5]
  by_cases h6 : name = bytesOf "dhex"
  · rw [if_pos h6]; exact stringDirective_eff
  rw [if_neg h6]
  by_cases h7 : name = bytesOf "dstr"
  · rw [if_pos h7]; exact stringDirective_eff
  rw [if_neg h7]
  by_cases h8 : name = bytesOf "dfile"
  · rw [if_pos h8]; exact stringDirective_eff
  rw [if_neg h8]
  by_cases h9 : name = bytesOf "global"
  · rw [if_pos h9]; exact globalDirective_eff
  rw [if_neg h9]
  by_cases h10 : name = bytesOf "import"
  · rw [if_pos h10]; exact globalDirective_eff
  rw [if_neg h10]
  by_cases h11 : name = bytesOf "export"
  · rw [if_pos h11]; exact globalDirective_eff
  rw [if_neg h11, if_neg hni]
  intro st' r h; cases h; exact eff_pushIn ..

theorem directive_include {fs : Bytes → Option Bytes} {inc : Inc} {env : Env} {st : St} {line col : Nat} {args : List Arg} :
    directive fs inc env st line col (bytesOf "include") args = includeDirective fs inc env st line col args := by
  delta directive
  simp only [show (bytesOf "include" = bytesOf "addr") = False from by decide,
    show (bytesOf "include" = bytesOf "align") = False from by decide,
    show (bytesOf "include" = bytesOf "const") = False from by decide,
    show (bytesOf "include" = bytesOf "du8") = False from by decide,
    show (bytesOf "include" = bytesOf "du16") = False from by decide,
    show (bytesOf "include" = bytesOf "du32") = False from by decide,
    show (bytesOf "include" = bytesOf "dhex") = False from by decide,
    show (bytesOf "include" = bytesOf "dstr") = False from by decide,
    show (bytesOf "include" = bytesOf "dfile") = False from by decide,
    show (bytesOf "include" = bytesOf "global") = False from by decide,
    show (bytesOf "include" = bytesOf "import") = False from by decide,
    show (bytesOf "include" = bytesOf "export") = False from by decide, if_false, if_true]

theorem statement_eff {fs : Bytes → Option Bytes} {enc : Encoder} {inc : Inc} {env : Env} {st : St} {el : Element}
    (hni : ∀ as, el.val ≠ .directive (bytesOf "include") as) :
    ∀ st' r, statement fs enc inc env st el = .ok (st', r) → Eff env.curName el.line el.col st st' := by
  unfold statement
  splits
  all_goals (first | exact instruction_eff | skip)
  · rename_i name args hv
    exact directive_eff (fun e => hni args (by rw [hv, e]))
  all_goals (intro st' r h)
  all_goals (first | (cases h; done) | (cases h; eff_close))

theorem runTask_eff {enc : Encoder} {env : Env} {st : St} {t : Task} {f : Bytes} {l c : Nat} (ht : t.at f l c)
    (hf : ∀ n l' c', t = .globalCopy n l' c' → f = env.curName) :
    ∀ st' r, runTask enc env st t = .ok (st', r) → Eff f l c st st' := by
  cases t with
  | data d g => obtain ⟨rfl, rfl, rfl⟩ := ht; exact runDataTask_eff
  | instr i g => obtain ⟨rfl, rfl, rfl⟩ := ht; exact runInstrTask_eff
  | globalCopy n l' c' =>
    obtain ⟨rfl, rfl⟩ := ht
    rw [hf n _ _ rfl]
    exact runGlobalCopy_eff

end Trion.Asm
