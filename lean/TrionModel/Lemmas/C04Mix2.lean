import TrionModel.Lemmas.C04Mix
import TrionModel.Lemmas.C04Asm
/-!
# C04 closed, extension: the getters / `conv` / `build` against the extended meaning `means2` (soundness)
-/
namespace Trion.C04
open Trion Trion.Front Trion.Simp

theorem denote2_of_denote {T : SymTable} {k : Kind} {a : Arg} {v : Val} (h : denote T k a = some v) : denote2 T k a = some v := by
  simp [denote2, h]

theorem mem_some_docMem {T : SymTable} {x : Arg} {p : Reg × ImmReg} (h : mem T x = some p) : docMem x = true := by
  obtain ⟨r, o⟩ := p
  rcases mem_inv h with ⟨b, rfl, _, _⟩ | ⟨b, b', rfl, hb, hb', _⟩ | ⟨b, e, v, rfl, hb, _, _, hv, _⟩ | ⟨b, e, v, rfl, hb, _, _, hv, _⟩
  · rfl
  · simp [docMem, regIdent, hb, hb']
  · simp [docMem, regIdent, hb, value_expr T e v hv]
  · simp [docMem, regIdent, hb, value_expr T e v hv]

theorem value_none_of_not_expr {T : SymTable} {a : Arg} (h : expr a = false) : value T a = none := by
  cases hv : value T a with
  | none => rfl
  | some v => rw [value_expr T a v hv] at h; cases h

section
variable {lk : Bytes → Lookup} (hn : NoDef lk) (hT : Simp.tableOk lk)
include hn hT

/-- the one-register sum behind a `doc2` operand that is not `doc` -/
theorem oneReg_form {x x' : Arg} {ev : Ev} (ho : oneReg x = true) (hl : lits x = true)
    (he : evaluate lk isRegister x = .ok (ev, x')) : ∃ b c, sumForm (tab lk) x = some ([b], c) := by
  simp only [oneReg, Bool.and_eq_true, beq_iff_eq] at ho
  obtain ⟨rs, c, hs⟩ := sumForm_defined hn hT x ho.1 hl ev x' he
  have hlen := sumForm_len (tab lk) x rs c hs
  rw [ho.2] at hlen
  match rs, hlen with
  | [b], _ => exact ⟨b, c, hs⟩

theorem post_sound2 {k : Kind} (hk : k.evals = true) {a a1 : Arg} {ev : Ev}
    (hd : doc2 a = true) (hl : lits a = true) (hv : valued (tab lk) a = true)
    (he : evaluate lk isRegister a = .ok (ev, a1)) {pos d : Nat} {v : Val} {a2 : Arg} {d2 : Nat}
    (hp : post k pos a1 d = .ok v a2 d2) : denote2 (tab lk) k a = some v ∧ okVal v := by
  by_cases hdoc : doc a = true
  · obtain ⟨h1, h2⟩ := post_sound hn hT hk hdoc hl hv he hp
    exact ⟨denote2_of_denote h1, h2⟩
  · cases a with
    | bin op tl tr =>
      have hne : expr (.bin op tl tr) = false := by simpa [doc] using hdoc
      have ho : oneReg (.bin op tl tr) = true := by simpa [doc2, hne] using hd
      obtain ⟨b, c, hs⟩ := oneReg_form hn hT ho hl he
      obtain ⟨hc, ha, hi⟩ := accept_reg he hs
      cases k <;> simp [Kind.evals] at hk
      all_goals simp only [post] at hp
      all_goals (repeat' split at hp)
      all_goals first
        | (cases hp; done)
        | (exact absurd rfl (hc _))
        | (exact absurd rfl (ha _))
        | skip
      -- immReg, register
      rename_i s _ r hr
      cases hp
      obtain ⟨hb, rfl⟩ := hi s r rfl hr
      refine ⟨?_, by simp [okVal, immOk]⟩
      have hdn : denote (tab lk) .immReg (.bin op tl tr) = none := by
        simp [denote, value_none_of_not_expr hne]
      simp [denote2, hdn, hs, hb]
    | addr x =>
      have hnd : docMem x = false := by simpa [doc] using hdoc
      have ho : oneReg x = true := by simpa [doc2, hnd] using hd
      rw [evaluate_addr] at he
      cases h1 : evaluate lk isRegister x with
      | ok p =>
        obtain ⟨e1, x1⟩ := p
        rw [h1] at he
        simp only at he
        split at he
        · cases he
        · cases he
          simp only [lits] at hl
          obtain ⟨b, c, hs⟩ := oneReg_form hn hT ho hl h1
          have hmn : mem (tab lk) x = none := by
            cases hm : mem (tab lk) x with
            | none => rfl
            | some p => rw [mem_some_docMem hm] at hnd; cases hnd
          cases k <;> simp [Kind.evals] at hk
          all_goals simp only [post] at hp
          all_goals (repeat' split at hp)
          all_goals first
            | (cases hp; done)
            | skip
          all_goals
            rename_i r o hao
            cases hp
            obtain ⟨hb, rfl, hin⟩ := accept_mem h1 hs hao
            refine ⟨?_, by simpa [okVal, immOk] using hin⟩
            simp [denote2, denote, hmn, mem2, hs, hb]
      | err e => rw [h1] at he; cases he
      | panic => rw [h1] at he; cases he
    | const c => simp [doc] at hdoc
    | ident s => simp [doc] at hdoc
    | str s => simp [doc] at hdoc
    | neg x => exact absurd (by simpa [doc2, doc] using hd) hdoc
    | not x => exact absurd (by simpa [doc2, doc] using hd) hdoc
    | seq as => simp [doc] at hdoc
    | func n as => simp [doc] at hdoc

end

section
variable {lk : Bytes → Lookup} (hn : NoDef lk) (hT : Simp.tableOk lk) {eval : Arg → EvalOut} (hE : EvalSimp eval lk)
include hn hT hE

def slotOk2 (T : SymTable) (k : Kind) (a : Arg) : Prop :=
  evaluated k = true → valued T a = true ∧ lits a = true ∧ doc2 a = true

theorem get_sound2 {k : Kind} {loc : Bool} {pos done : Nat} (hdn : done ≤ pos) {a : Arg} (hs : slotOk2 (tab lk) k a)
    {v : Val} {a' : Arg} {d' : Nat} (hg : Front.get k eval loc pos done a = .ok v a' d') :
    denote2 (tab lk) k a = some v ∧ okVal v ∧ d' ≤ pos + 1 := by
  by_cases hk : k.evals = true
  · obtain ⟨hv, hl, hd⟩ := hs (by rw [evaluated_eq]; exact hk)
    rw [get_eq_post k hk] at hg
    rcases evalArg_cases hn hE (loc := loc) hdn hv with ⟨ev, a1, he, hea⟩ | ⟨e, a1, hea⟩
    · rw [hea] at hg
      simp only at hg
      obtain ⟨_, hd2, _⟩ := post_ok hg
      obtain ⟨h1, h2⟩ := post_sound2 hn hT hk hd hl hv he hg
      exact ⟨h1, h2, by omega⟩
    · rw [hea] at hg; cases hg
  · obtain ⟨h1, h2, h3⟩ := get_sound hn hT hE hdn
      (fun h => by rw [evaluated_eq] at h; exact absurd h hk) hg
    exact ⟨denote2_of_denote h1, h2, h3⟩

theorem conv_sound2 (loc : Bool) : ∀ (ks : List Kind) (pos : Nat) (pre rest : List Arg) (done : Nat) (instr : Instr)
    (vals0 : List Val) (A : List Arg) (D : Nat) (I : Instr) (vs : List Val), done ≤ pos → ks.length = rest.length →
    wellFormed2 (tab lk) ks rest → conv eval loc ks pos pre rest done instr vals0 = .ok A D I vs →
    ∃ new, denoteAll2 (tab lk) ks rest = some new ∧ (∀ v ∈ new, okVal v) ∧ vs = vals0.reverse ++ new ∧
      I = replayFrom pos new instr := by
  intro ks
  induction ks with
  | nil =>
    intro pos pre rest done instr vals0 A D I vs _ hlen _ h
    cases rest with
    | nil => simp only [conv] at h; cases h; exact ⟨[], rfl, by simp, by simp, rfl⟩
    | cons a r => simp at hlen
  | cons k ks ih =>
    intro pos pre rest done instr vals0 A D I vs hd hlen hw h
    cases rest with
    | nil => simp at hlen
    | cons a rest =>
      simp only [conv] at h
      obtain ⟨hslot, hw'⟩ := hw
      cases hg : Front.get k eval loc pos done a with
      | stop a' d' r => rw [hg] at h; cases h
      | ok v a' d' =>
        rw [hg] at h
        simp only at h
        obtain ⟨hden, hok, hd'⟩ := get_sound2 hn hT hE hd hslot hg
        obtain ⟨new, h1, h2, h3, h4⟩ := ih (pos + 1) _ rest d' _ _ A D I vs hd' (by simpa using hlen) hw' h
        refine ⟨v :: new, by simp [denoteAll2, hden, h1], ?_, by simp [h3], by simp [replayFrom, h4]⟩
        intro w hw
        simp only [List.mem_cons] at hw
        rcases hw with rfl | hw
        · exact hok
        · exact h2 w hw

omit hn hT hE in
theorem denote2_shape {T : SymTable} {k : Kind} {a : Arg} {v : Val} (h : denote2 T k a = some v) : shape k v := by
  unfold denote2 at h
  split at h
  · rename_i w hw; cases h; exact denote_shape hw
  · split at h
    · split at h
      · split at h
        · simp at h; obtain ⟨_, _, rfl⟩ := h; trivial
        · cases h
      · cases h
    · simp at h; obtain ⟨_, _, _, rfl⟩ := h; trivial
    · simp at h; obtain ⟨_, _, _, rfl⟩ := h; trivial
    · cases h

omit hn hT hE in
theorem denoteAll2_shapes {T : SymTable} : ∀ {ks : List Kind} {as : List Arg} {vs : List Val},
    denoteAll2 T ks as = some vs → shapes ks vs := by
  intro ks
  induction ks with
  | nil => intro as vs h; cases as <;> simp [denoteAll2] at h; subst h; trivial
  | cons k ks ih =>
    intro as vs h
    cases as with
    | nil => simp [denoteAll2] at h
    | cons a as =>
      simp only [denoteAll2] at h
      cases h1 : denote2 T k a with
      | none => simp [h1] at h
      | some v =>
        cases h2 : denoteAll2 T ks as with
        | none => simp [h1, h2] at h
        | some vs' =>
          simp only [h1, h2, Option.some.injEq] at h
          subst h
          exact ⟨denote2_shape h1, ih h2⟩

/-- **extended soundness**: what `build` completes is the statement's extended meaning -/
theorem build_sound2 (loc : Bool) (A : Nat) (name : Bytes) (args : List Arg) (t : Instr) (hm : mnemonic name = some t)
    (hw : wellFormed2 (tab lk) (sig t) args) (i : Instr) (hb : build A name args eval loc = .completed i)
    (hq : ∀ vs, denoteAll2 (tab lk) (sig t) args = some vs → ¬ svQuirk t vs) :
    means2 (tab lk) A name args = some i ∧ i.wf := by
  refine ⟨?_, build_wf_proof A name args eval loc i hb⟩
  unfold build at hb
  rw [hm] at hb
  simp only at hb
  unfold assemble at hb
  simp only [kinds_sig] at hb
  by_cases h1 : args.length > (sig t).length
  · simp [h1] at hb
  · by_cases h2 : args.length < (sig t).length
    · simp [h1, h2] at hb
    · have hlen : (sig t).length = args.length := by omega
      simp only [h1, h2, if_false] at hb
      cases hc : conv eval loc (sig t) 0 [] args 0 t [] with
      | stop a d ins r =>
        have hr := conv_ne_completed eval loc _ _ _ _ _ _ _ _ _ _ _ hc
        rw [hc] at hb
        cases r <;> simp at hb
        exact absurd rfl hr
      | ok a d ins vs =>
        rw [hc] at hb
        simp only at hb
        obtain ⟨new, hden, hok, hvs, hI⟩ := conv_sound2 hn hT hE loc _ 0 [] args 0 t [] a d ins vs (Nat.le_refl _) hlen hw hc
        simp only [List.reverse_nil, List.nil_append] at hvs
        subst hvs hI
        cases hf : finish A (replayFrom 0 vs t) vs (sig t).length with
        | error e => rw [hf] at hb; simp at hb
        | ok j =>
          rw [hf] at hb
          simp only at hb
          have hj : j = i := by injection hb
          subst hj
          simp only [means2, hm, hden]
          exact finish_sound A t vs _ (denoteAll2_shapes hden) hok (hq vs hden) j hf

omit hT in
theorem get_total2 {k : Kind} {loc : Bool} {pos done : Nat} (hdn : done ≤ pos) {a : Arg} (hs : slotOk2 (tab lk) k a) :
    (∃ v a' d', get k eval loc pos done a = .ok v a' d') ∨ (∃ a' d' e, get k eval loc pos done a = .stop a' d' (.error e)) := by
  by_cases hk : k.evals = true
  · obtain ⟨hv, _, _⟩ := hs (by rw [evaluated_eq]; exact hk)
    rw [get_eq_post k hk]
    rcases evalArg_cases hn hE (loc := loc) hdn hv with ⟨ev, a1, he, hea⟩ | ⟨e, a1, hea⟩
    · rw [hea]
      simp only
      cases k <;> simp [Kind.evals] at hk <;> simp only [post] <;> (repeat' split) <;> simp
    · rw [hea]; exact .inr ⟨_, _, _, rfl⟩
  · have hk' : k.evals = false := by simpa using hk
    cases k <;> simp [Kind.evals] at hk' <;> simp only [Front.get] <;> (repeat' split) <;> simp


theorem conv_total2 (loc : Bool) : ∀ (ks : List Kind) (pos : Nat) (pre rest : List Arg) (done : Nat) (instr : Instr)
    (vals0 : List Val), done ≤ pos → ks.length = rest.length → wellFormed2 (tab lk) ks rest →
    (∃ A D I vs, conv eval loc ks pos pre rest done instr vals0 = .ok A D I vs) ∨
    (∃ A D I e, conv eval loc ks pos pre rest done instr vals0 = .stop A D I (.error e)) := by
  intro ks
  induction ks with
  | nil => intro pos pre rest done instr vals0 _ _ _; exact .inl ⟨pre.reverse ++ rest, done, instr, vals0.reverse, by simp [conv]⟩
  | cons k ks ih =>
    intro pos pre rest done instr vals0 hd hlen hw
    cases rest with
    | nil => simp at hlen
    | cons a rest =>
      obtain ⟨hslot, hw'⟩ := hw
      simp only [conv]
      rcases get_total2 hn hE (loc := loc) hd hslot with ⟨v, a', d', hg⟩ | ⟨a', d', e, hg⟩
      · rw [hg]
        simp only
        have hd' : d' ≤ pos + 1 := (get_sound2 hn hT hE hd hslot hg).2.2
        exact ih (pos + 1) _ rest d' _ _ hd' (by simpa using hlen) hw'
      · rw [hg]; exact .inr ⟨_, _, _, _, rfl⟩

/-- **T1, totality**: with every name defined the first `assemble` either completes or reports a diagnostic -/
theorem build_total2 (loc : Bool) (A : Nat) (name : Bytes) (args : List Arg) (t : Instr) (hm : mnemonic name = some t)
    (hw : wellFormed2 (tab lk) (sig t) args) :
    (∃ i, build A name args eval loc = .completed i) ∨ (∃ d st, build A name args eval loc = .error d st) := by
  unfold build
  rw [hm]
  simp only
  unfold assemble
  simp only [kinds_sig]
  by_cases h1 : args.length > (sig t).length
  · simp [h1]
  · by_cases h2 : args.length < (sig t).length
    · simp [h1, h2]
    · have hlen : (sig t).length = args.length := by omega
      simp only [h1, h2, if_false]
      rcases conv_total2 hn hT hE loc (sig t) 0 [] args 0 t [] (Nat.le_refl _) hlen hw with ⟨a, d, ins, vs, hc⟩ | ⟨a, d, ins, e, hc⟩
      · rw [hc]
        simp only
        cases hf : finish A ins vs (sig t).length with
        | ok j => exact .inl ⟨_, rfl⟩
        | error e => exact .inr ⟨_, _, rfl⟩
      · rw [hc]; exact .inr ⟨_, _, rfl⟩

end

end Trion.C04
