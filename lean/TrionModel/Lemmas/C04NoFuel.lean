import TrionModel.Lemmas.AsmLoud
/-!
# `Trion.Asm`: statements other than `.include`, tasks, the task loops and `finalize` never stop with `.fuel`
(the include-depth bound of the model is consumed by `.include` only)
-/
namespace Trion.Asm
open Trion

/-- the outcome is not the include-depth stop -/
def NF {α : Type} (r : Out α) : Prop := r ≠ .stop .fuel

macro "splitsAt" h:ident : tactic => `(tactic| repeat' (first | split at $h:ident | (simp only [] at $h:ident)))

theorem nf_ok {α : Type} (a : α) : NF (Out.ok a) := by simp [NF]
theorem nf_panic {α : Type} : NF (Out.stop .panic : Out α) := by simp [NF]
theorem nf_loop {α : Type} : NF (Out.stop .loop : Out α) := by simp [NF]

theorem segStep_nf (s : Seg.State) (op : Seg.Op) : NF (segStep s op) := by
  unfold segStep; split <;> simp [NF]

theorem writeStmt_nf (s : Seg.State) (p : Bool) (a : Nat) (d : Bytes) : NF (writeStmt s p a d) := by
  unfold writeStmt
  split
  · have := segStep_nf s (.place d)
    split <;> simp_all [NF]
  · have := segStep_nf s (.rewrite a d)
    split <;> simp_all [NF]

theorem addTask_nf (st : St) (t : Task) (r : Realm) : NF (addTask st t r) := by
  unfold addTask; repeat' split
  all_goals simp [NF]

theorem writeInstr_nf (enc : Encoder) (i : ArmInstr) (st : St) (df : Bool) : NF (i.writeInstr enc st df) := by
  intro h
  unfold ArmInstr.writeInstr at h
  splitsAt h
  all_goals first
    | (cases h; done)
    | (cases h; exact absurd ‹_› (writeStmt_nf _ _ _ _))

theorem evalTable_nf (env : Env) (st : St) : NF (evalTable env st) := by
  unfold evalTable; repeat' split
  all_goals simp [NF]

theorem assembleI_nf (i : ArmInstr) (env : Env) (st : St) (loc : Bool) : NF (i.assemble env st loc) := by
  intro h
  unfold ArmInstr.assemble at h
  splitsAt h
  all_goals first
    | (cases h; done)
    | (cases h; exact absurd ‹_› (evalTable_nf _ _))

theorem scheduleI_nf (i : ArmInstr) (st : St) (g : Bool) : NF (i.schedule st g) := addTask_nf _ _ _

theorem instruction_nf (enc : Encoder) (env : Env) (st : St) (l c : Nat) (name : Bytes) (args : List Arg) :
    NF (instruction enc env st l c name args) := by
  intro h
  unfold instruction at h
  splitsAt h
  all_goals first
    | (cases h; done)
    | (cases h; exact absurd ‹_› (assembleI_nf _ _ _ _))
    | (cases h; exact absurd ‹_› (writeInstr_nf _ _ _ _))
    | (cases h; exact absurd ‹_› (scheduleI_nf _ _ _))

theorem runInstrTask_nf (enc : Encoder) (i : ArmInstr) (g : Bool) (env : Env) (st : St) : NF (runInstrTask enc i g env st) := by
  intro h
  unfold runInstrTask at h
  splitsAt h
  all_goals first
    | (cases h; done)
    | (cases h; exact absurd ‹_› (assembleI_nf _ _ _ _))
    | (cases h; exact absurd ‹_› (writeInstr_nf _ _ _ _))
    | (cases h; exact absurd ‹_› (scheduleI_nf _ _ _))

theorem evalArg_nf (env : Env) (st : St) (a : Arg) : NF (evalArg env st a) := by
  intro h
  unfold evalArg at h
  splitsAt h
  · unfold evalIn at h
    splitsAt h
    all_goals cases h
  · cases h; exact absurd ‹_› (evalTable_nf _ _)

theorem writeData_nf (d : DataExpr) (st : St) (b : Bytes) : NF (d.writeData st b) := by
  intro h
  unfold DataExpr.writeData at h
  splitsAt h
  all_goals first
    | (cases h; done)
    | (cases h; exact absurd ‹_› (writeStmt_nf _ _ _ _))

theorem writer_nf (d : DataExpr) (st : St) : NF (d.writer st) := by
  intro h
  unfold DataExpr.writer at h
  splitsAt h
  all_goals first
    | (cases h; done)
    | (exact absurd h (writeData_nf _ _ _))

theorem apply_nf (d : DataExpr) (env : Env) (st : St) (loc : Bool) : NF (d.apply env st loc) := by
  intro h
  unfold DataExpr.apply at h
  splitsAt h
  all_goals first
    | (cases h; done)
    | (cases h; exact absurd ‹_› (writer_nf _ _))
    | (cases h; exact absurd ‹_› (evalArg_nf _ _ _))

theorem scheduleD_nf (d : DataExpr) (st : St) (g : Bool) : NF (d.schedule st g) := addTask_nf _ _ _

theorem runDataTask_nf (d : DataExpr) (g : Bool) (env : Env) (st : St) : NF (runDataTask d g env st) := by
  intro h
  unfold runDataTask at h
  splitsAt h
  all_goals first
    | (cases h; done)
    | (cases h; exact absurd ‹_› (apply_nf _ _ _ _))
    | (cases h; exact absurd ‹_› (scheduleD_nf _ _ _))

theorem insertConstant_nf (st : St) (n : Bytes) (v : Int) (r : Realm) : NF (insertConstant st n v r) := by
  unfold insertConstant; repeat' split
  all_goals simp [NF]

theorem getConstant_nf (st : St) (n : Bytes) (r : Realm) : NF (getConstant st n r) := by
  unfold getConstant; repeat' split
  all_goals simp [NF]

theorem runGlobalCopy_nf (n : Bytes) (l c : Nat) (env : Env) (st : St) : NF (runGlobalCopy n l c env st) := by
  intro h
  unfold runGlobalCopy at h
  splitsAt h
  all_goals first
    | (cases h; done)
    | (cases h; exact absurd ‹_› (insertConstant_nf _ _ _ _))
    | (cases h; exact absurd ‹_› (getConstant_nf _ _ _))

theorem runTask_nf (enc : Encoder) (env : Env) (st : St) (t : Task) : NF (runTask enc env st t) := by
  cases t with
  | data d g => exact runDataTask_nf _ _ _ _
  | instr i g => exact runInstrTask_nf _ _ _ _ _
  | globalCopy n l c => exact runGlobalCopy_nf _ _ _ _ _

theorem localRound_nf (enc : Encoder) (env : Env) : ∀ (ts : List Task) (st : St) (res : Res), NF (localRound enc env ts st res) := by
  intro ts
  induction ts with
  | nil => intro st res; simp [localRound, NF]
  | cons t ts ih =>
    intro st res h
    simp only [localRound] at h
    splitsAt h
    all_goals first
      | (cases h; done)
      | (exact absurd h (ih _ _))
      | (cases h; exact absurd ‹_› (runTask_nf _ _ _ _))

theorem localLoop_nf (enc : Encoder) (env : Env) : ∀ (n : Nat) (ts : List Task) (st : St) (res : Res), NF (localLoop enc env n ts st res) := by
  intro n
  induction n with
  | zero => intro ts st res; simp [localLoop, NF]
  | succ n ih =>
    intro ts st res h
    simp only [localLoop] at h
    splitsAt h
    all_goals first
      | (cases h; done)
      | (exact absurd h (ih _ _ _))
      | (cases h; exact absurd ‹_› (localRound_nf _ _ _ _ _))

theorem globalRound_nf (enc : Encoder) (env : Env) : ∀ (ts : List Task) (st : St), NF (globalRound enc env ts st) := by
  intro ts
  induction ts with
  | nil => intro st; simp [globalRound, NF]
  | cons t ts ih =>
    intro st h
    simp only [globalRound] at h
    splitsAt h
    all_goals first
      | (cases h; done)
      | (exact absurd h (ih _))
      | (cases h; exact absurd ‹_› (runTask_nf _ _ _ _))

theorem globalLoop_nf (enc : Encoder) (env : Env) : ∀ (n : Nat) (ts : List Task) (st : St), NF (globalLoop enc env n ts st) := by
  intro n
  induction n with
  | zero => intro ts st; simp [globalLoop, NF]
  | succ n ih =>
    intro ts st h
    simp only [globalLoop] at h
    splitsAt h
    all_goals first
      | (cases h; done)
      | (exact absurd h (ih _ _))
      | (cases h; exact absurd ‹_› (globalRound_nf _ _ _ _))

theorem finalize_nf (enc : Encoder) (env : Env) (st : St) : NF (finalize enc env st) := by
  intro h
  unfold finalize at h
  splitsAt h
  all_goals first
    | (cases h; done)
    | (cases h; exact absurd ‹_› (globalLoop_nf _ _ _ _ _))

end Trion.Asm
