import TrionModel.Lemmas.AsmStmtPos
/-!
# `Trion.Asm`: what a statement (and a task) adds carries its position AND a kind of its statement class

Port of `AsmStmtPos.lean` with `EffK C f l c`: the diagnostics that are new are at `(f, l, c)` and of a kind that a
statement of class `C` (label / directive / instruction) pushes; the tasks that are new are at `(f, l, c)` and of the sort
that class queues.
-/
namespace Trion.Asm
open Trion

inductive Cls where
  | lbl | dir (name : Bytes) | ins
deriving DecidableEq, Repr

def Cls.of : ElemVal → Cls
  | .label _ => .lbl
  | .directive name _ => .dir name
  | .instruction .. => .ins

/-- the diagnostic kinds a statement of class `C` (or its queued retry) pushes -/
def pushesC : Cls → Kind → Bool
  | .lbl, .inactive => true
  | .lbl, .label _ => true
  | .dir n, .dirNotFound m => decide (m = n)
  | .dir n, .dirTooMany s .. => decide (bytesOf s = n)
  | .dir n, .dirNotEnough s .. => decide (bytesOf s = n)
  | .dir n, .dirArgType s .. => decide (bytesOf s = n)
  | .dir n, .dirApply s _ => decide (bytesOf s = n)
  | .ins, .inactive => true
  | .ins, .instrNotFound _ => true
  | .ins, .instrTooMany .. => true
  | .ins, .instrNotEnough .. => true
  | .ins, .instrArgType .. => true
  | .ins, .instrAssemble _ => true
  | _, _ => false

/-- the tasks a statement of class `C` queues -/
def taskC : Cls → Task → Bool
  | .dir n, .data d _ => decide (bytesOf d.du.name = n)
  | .dir n, .globalCopy .. => decide (bytesOf "global" = n)
  | .ins, .instr .. => true
  | _, _ => false

def EffK (C : Cls) (f : Bytes) (l c : Nat) (st st' : St) : Prop :=
  (∀ d ∈ st'.errors, d ∈ st.errors ∨ (d.at f l c ∧ pushesC C d.kind = true)) ∧
  (∀ t ∈ st'.globalTasks, t ∈ st.globalTasks ∨ (t.at f l c ∧ taskC C t = true)) ∧
  (∀ q', st'.localTasks = some q' → ∀ t ∈ q', (∃ q, st.localTasks = some q ∧ t ∈ q) ∨ (t.at f l c ∧ taskC C t = true))

theorem EffK.refl (C : Cls) (f : Bytes) (l c : Nat) (st : St) : EffK C f l c st st :=
  ⟨fun _ h => .inl h, fun _ h => .inl h, fun q hq _ ht => .inl ⟨q, hq, ht⟩⟩

theorem EffK.trans {C : Cls} {f : Bytes} {l c : Nat} {a b d : St} (h1 : EffK C f l c a b) (h2 : EffK C f l c b d) : EffK C f l c a d := by
  refine ⟨fun x hx => ?_, fun t ht => ?_, fun q hq t ht => ?_⟩
  · rcases h2.1 x hx with h | h
    · exact h1.1 x h
    · exact .inr h
  · rcases h2.2.1 t ht with h | h
    · exact h1.2.1 t h
    · exact .inr h
  · rcases h2.2.2 q hq t ht with ⟨q1, hq1, ht1⟩ | h
    · exact h1.2.2 q1 hq1 t ht1
    · exact .inr h

theorem effK_pushIn (C : Cls) (f : Bytes) (l c : Nat) (st : St) (k : Kind) (hk : pushesC C k = true) :
    EffK C f l c st (st.pushIn f l c k) := by
  refine ⟨fun x hx => ?_, fun _ h => .inl h, fun q hq t ht => .inl ⟨q, hq, ht⟩⟩
  simp only [St.pushIn, List.mem_cons] at hx
  rcases hx with rfl | hx
  · exact .inr ⟨⟨rfl, rfl, rfl⟩, hk⟩
  · exact .inl hx

theorem pushes_frontKind (d : Front.Diag) : pushesC .ins (frontKind d) = true := by
  cases d <;> first | rfl | (rename_i e; cases e <;> rfl)

theorem pushes_arity {dir : String} {need n : Nat} {k : Kind} (h : arity dir need n = some k) :
    pushesC (.dir (bytesOf dir)) k = true := by
  unfold arity at h
  repeat' split at h
  all_goals (first | (cases h; done) | (cases h; simp [pushesC]))

macro "pushes_tac" : tactic =>
  `(tactic| first | rfl | exact pushes_frontKind _ | exact pushes_arity ‹_› | (simp [pushesC, DataExpr.kindApply, GDir.name]; done))

theorem effK_same {C : Cls} {f : Bytes} {l c : Nat} {st st' : St} (he : st'.errors = st.errors) (hg : st'.globalTasks = st.globalTasks)
    (hl : st'.localTasks = st.localTasks) : EffK C f l c st st' :=
  ⟨fun _ h => .inl (he ▸ h), fun _ h => .inl (hg ▸ h), fun q hq t ht => .inl ⟨q, hl ▸ hq, ht⟩⟩

theorem effK_of_same {C : Cls} {f : Bytes} {l c : Nat} {st st' : St}
    (h : st'.errors = st.errors ∧ st'.globalTasks = st.globalTasks ∧ st'.localTasks = st.localTasks) : EffK C f l c st st' :=
  effK_same h.1 h.2.1 h.2.2

theorem addTask_effK {C : Cls} {f : Bytes} {l c : Nat} {st st' : St} {t : Task} {r : Realm} (h : addTask st t r = .ok st')
    (ht : t.at f l c) (hc : taskC C t = true) : EffK C f l c st st' := by
  unfold addTask at h
  repeat' split at h
  all_goals (first | (cases h; done) | skip)
  · cases h
    refine ⟨fun _ h => .inl h, fun x hx => ?_, fun q hq t ht => .inl ⟨q, hq, ht⟩⟩
    simp only [List.mem_append, List.mem_singleton] at hx
    rcases hx with hx | rfl
    · exact .inl hx
    · exact .inr ⟨ht, hc⟩
  · rename_i q0 hq0
    cases h
    refine ⟨fun _ h => .inl h, fun _ h => .inl h, fun q hq x hx => ?_⟩
    cases hq
    simp only [List.mem_append, List.mem_singleton] at hx
    rcases hx with hx | rfl
    · exact .inl ⟨q0, hq0, hx⟩
    · exact .inr ⟨ht, hc⟩

theorem writeData_effK {f : Bytes} {l c : Nat} {d : DataExpr} {st : St} {bytes : Bytes} (hd : d.at f l c) :
    ∀ d' st' r, d.writeData st bytes = .ok (d', st', r) →
      EffK (.dir (bytesOf d.du.name)) f l c st st' ∧ d'.at f l c ∧ d'.du = d.du := by
  obtain ⟨rfl, rfl, rfl⟩ := hd
  unfold DataExpr.writeData
  splits
  all_goals (intro d' st' r h)
  all_goals (first | (cases h; done) | (cases h; exact ⟨effK_same rfl rfl rfl, ⟨rfl, rfl, rfl⟩, rfl⟩) | (cases h; exact ⟨(effK_same (st' := { st with seg := _ }) rfl rfl rfl).trans (effK_pushIn _ _ _ _ _ _ (by pushes_tac)), ⟨rfl, rfl, rfl⟩, rfl⟩))

theorem writer_effK {f : Bytes} {l c : Nat} {d : DataExpr} {st : St} (hd : d.at f l c) :
    ∀ d' st' r, d.writer st = .ok (d', st', r) →
      EffK (.dir (bytesOf d.du.name)) f l c st st' ∧ d'.at f l c ∧ d'.du = d.du := by
  unfold DataExpr.writer
  splits
  all_goals (first | exact writeData_effK hd | skip)
  all_goals (obtain ⟨rfl, rfl, rfl⟩ := hd)
  all_goals (intro d' st' r h)
  all_goals (cases h; exact ⟨effK_pushIn _ _ _ _ _ _ (by pushes_tac), ⟨rfl, rfl, rfl⟩, rfl⟩)

theorem apply_effK {f : Bytes} {l c : Nat} {d : DataExpr} {env : Env} {st : St} {loc : Bool} (hd : d.at f l c) :
    ∀ d' st' op, d.apply env st loc = .ok (d', st', op) →
      EffK (.dir (bytesOf d.du.name)) f l c st st' ∧ d'.at f l c ∧ d'.du = d.du := by
  unfold DataExpr.apply
  splits
  all_goals (intro d' st' op h)
  all_goals (first | (cases h; done) | skip)
  all_goals (try (rename_i hw; have w := (fun hd' => writer_effK hd' _ _ _ hw) hd))
  all_goals (first | (cases h; exact w) | skip)
  all_goals (obtain ⟨rfl, rfl, rfl⟩ := hd)
  all_goals (cases h; first | exact ⟨EffK.refl _ _ _ _ _, ⟨rfl, rfl, rfl⟩, rfl⟩ | exact ⟨effK_pushIn _ _ _ _ _ _ (by pushes_tac), ⟨rfl, rfl, rfl⟩, rfl⟩)

theorem duDirective_effK {du : DU} {env : Env} {st : St} {line col : Nat} {args : List Arg} :
    ∀ st' r, duDirective du env st line col args = .ok (st', r) →
      EffK (.dir (bytesOf du.name)) env.curName line col st st' := by
  unfold duDirective
  splits
  all_goals (intro st' r h)
  all_goals (first | (cases h; done) | (cases h; exact effK_pushIn _ _ _ _ _ _ (by pushes_tac)) | skip)
  all_goals (try (have w1 := apply_effK (d := ⟨du, env.curName, line, col, _, _, false⟩) ⟨rfl, rfl, rfl⟩ _ _ _ ‹DataExpr.apply _ _ _ _ = _›))
  all_goals (try (have w2 := writeData_effK w1.2.1 _ _ _ ‹DataExpr.writeData _ _ _ = _›; rw [w1.2.2] at w2))
  all_goals (try (have w3 := addTask_effK (C := .dir (bytesOf du.name)) (t := .data _ false) ‹DataExpr.schedule _ _ _ = _› w2.2.1 (by simp [taskC, w2.2.2])))
  all_goals (cases h; first | exact w1.1 | exact w1.1.trans w2.1 | exact (w1.1.trans w2.1).trans w3)

theorem runDataTask_effK {d : DataExpr} {g : Bool} {env : Env} {st : St} :
    ∀ st' r, runDataTask d g env st = .ok (st', r) →
      EffK (.dir (bytesOf d.du.name)) d.file d.line d.col st st' := by
  unfold runDataTask
  splits
  all_goals (intro st' r h)
  all_goals (first | (cases h; done) | skip)
  all_goals (try (have w1 := apply_effK (d := d) ⟨rfl, rfl, rfl⟩ _ _ _ ‹DataExpr.apply _ _ _ _ = _›))
  all_goals (try (have w3 := addTask_effK (C := .dir (bytesOf d.du.name)) (t := .data _ true) ‹DataExpr.schedule _ _ _ = _› w1.2.1 (by simp [taskC, w1.2.2])))
  all_goals (cases h; first | exact w1.1 | exact w1.1.trans w3 | (obtain ⟨w11, ⟨e1, e2, e3⟩, e4⟩ := w1; rw [e1, e2, e3]; exact w11.trans (effK_pushIn _ _ _ _ _ _ (by simp [pushesC, DataExpr.kindApply, e4]))))

theorem assembleI_effK {f : Bytes} {l c : Nat} {i : ArmInstr} {env : Env} {st : St} {loc : Bool} (hi : i.at f l c) :
    ∀ i' st' op, i.assemble env st loc = .ok (i', st', op) → EffK .ins f l c st st' ∧ i'.at f l c := by
  obtain ⟨rfl, rfl, rfl⟩ := hi
  unfold ArmInstr.assemble
  splits
  all_goals (intro i' st' op h)
  all_goals (first | (cases h; done) | (cases h; exact ⟨EffK.refl _ _ _ _ _, rfl, rfl, rfl⟩) | (cases h; exact ⟨effK_pushIn _ _ _ _ _ _ (by pushes_tac), rfl, rfl, rfl⟩))

theorem writeInstr_effK {f : Bytes} {l c : Nat} {enc : Encoder} {i : ArmInstr} {st : St} {df : Bool} (hi : i.at f l c) :
    ∀ i' st' r, i.writeInstr enc st df = .ok (i', st', r) → EffK .ins f l c st st' ∧ i'.at f l c := by
  obtain ⟨rfl, rfl, rfl⟩ := hi
  unfold ArmInstr.writeInstr
  splits
  all_goals (intro i' st' r h)
  all_goals (first | (cases h; done) | (cases h; exact ⟨effK_pushIn _ _ _ _ _ _ (by pushes_tac), rfl, rfl, rfl⟩) | (cases h; exact ⟨effK_same rfl rfl rfl, rfl, rfl, rfl⟩) | (cases h; exact ⟨(effK_same (st' := { st with seg := _ }) rfl rfl rfl).trans (effK_pushIn _ _ _ _ _ _ (by pushes_tac)), rfl, rfl, rfl⟩))

theorem instruction_effK {enc : Encoder} {env : Env} {st : St} {line col : Nat} {name : Bytes} {args : List Arg} :
    ∀ st' r, instruction enc env st line col name args = .ok (st', r) → EffK .ins env.curName line col st st' := by
  unfold instruction
  splits
  all_goals (intro st' r h)
  all_goals (first | (cases h; done) | (cases h; exact effK_pushIn _ _ _ _ _ _ (by pushes_tac)) | skip)
  all_goals (try (have w1 := assembleI_effK (i := ⟨env.curName, line, col, _, false⟩) ⟨rfl, rfl, rfl⟩ _ _ _ ‹ArmInstr.assemble _ _ _ _ = _›))
  all_goals (try (have w2 := writeInstr_effK w1.2 _ _ _ ‹ArmInstr.writeInstr _ _ _ _ = _›))
  all_goals (try (have w3 := addTask_effK (C := .ins) (t := .instr _ false) ‹ArmInstr.schedule _ _ _ = _› w2.2 rfl))
  all_goals (cases h; first | exact w1.1.trans w2.1 | exact (w1.1.trans w2.1).trans w3)

theorem runInstrTask_effK {enc : Encoder} {i : ArmInstr} {g : Bool} {env : Env} {st : St} :
    ∀ st' r, runInstrTask enc i g env st = .ok (st', r) → EffK .ins i.file i.line i.col st st' := by
  unfold runInstrTask
  splits
  all_goals (intro st' r h)
  all_goals (first | (cases h; done) | skip)
  all_goals (try (have w1 := assembleI_effK (i := i) ⟨rfl, rfl, rfl⟩ _ _ _ ‹ArmInstr.assemble _ _ _ _ = _›))
  all_goals (try (have w2 := writeInstr_effK w1.2 _ _ _ ‹ArmInstr.writeInstr _ _ _ _ = _›))
  all_goals (try (have w3 := addTask_effK (C := .ins) (t := .instr _ true) ‹ArmInstr.schedule _ _ _ = _› w1.2 rfl))
  all_goals (cases h; first | exact w1.1 | exact w1.1.trans w2.1 | exact w1.1.trans w3 | (obtain ⟨w11, e1, e2, e3⟩ := w1; rw [e1, e2, e3]; exact w11.trans (effK_pushIn _ _ _ _ _ _ (by pushes_tac))))

theorem runGlobalCopy_effK {name : Bytes} {line col : Nat} {env : Env} {st : St} :
    ∀ st' r, runGlobalCopy name line col env st = .ok (st', r) →
      EffK (.dir (bytesOf "global")) env.curName line col st st' := by
  unfold runGlobalCopy
  splits
  all_goals (intro st' r h)
  all_goals (first | (cases h; done) | (cases h; exact effK_pushIn _ _ _ _ _ _ (by pushes_tac)) | skip)
  all_goals (try (have w1 : EffK (.dir (bytesOf "global")) env.curName line col st _ := effK_of_same (insertConstant_same ‹insertConstant _ _ _ _ = _›)))
  all_goals (cases h; first | exact w1 | exact w1.trans (effK_pushIn _ _ _ _ _ _ (by pushes_tac)))

theorem evalStrict_effK {dir : String} {env : Env} {st st' : St} {line col : Nat} {a : Arg} {r : Res}
    (h : evalStrict dir env st line col a = .ok (.error (st', r))) :
    EffK (.dir (bytesOf dir)) env.curName line col st st' := by
  unfold evalStrict at h
  repeat' split at h
  all_goals (first | (cases h; done) | (cases h; exact effK_pushIn _ _ _ _ _ _ (by pushes_tac)))

/-- the closing alternatives shared by the directives that touch regions or tables only -/
macro "effK_close" : tactic =>
  `(tactic| first
    | exact effK_pushIn _ _ _ _ _ _ (by pushes_tac)
    | exact EffK.refl _ _ _ _ _
    | exact effK_same rfl rfl rfl
    | exact (effK_same (st' := { _ with seg := _ }) rfl rfl rfl).trans (effK_pushIn _ _ _ _ _ _ (by pushes_tac))
    | exact evalStrict_effK ‹evalStrict _ _ _ _ _ _ = _›
    | exact effK_of_same (insertConstant_same ‹insertConstant _ _ _ _ = _›)
    | exact (effK_of_same (insertConstant_same ‹insertConstant _ _ _ _ = _›)).trans (effK_pushIn _ _ _ _ _ _ (by pushes_tac))
    | exact effK_of_same (deferConstant_same ‹deferConstant _ _ _ = _›)
    | exact (effK_of_same (deferConstant_same ‹deferConstant _ _ _ = _›)).trans (effK_pushIn _ _ _ _ _ _ (by pushes_tac)))

theorem addrDirective_effK {env : Env} {st : St} {line col : Nat} {args : List Arg} :
    ∀ st' r, addrDirective env st line col args = .ok (st', r) → EffK (.dir (bytesOf "addr")) env.curName line col st st' := by
  unfold addrDirective
  splits
  all_goals (intro st' r h)
  all_goals (first | (cases h; done) | (cases h; effK_close))

theorem alignDirective_effK {env : Env} {st : St} {line col : Nat} {args : List Arg} :
    ∀ st' r, alignDirective env st line col args = .ok (st', r) → EffK (.dir (bytesOf "align")) env.curName line col st st' := by
  unfold alignDirective
  splits
  all_goals (intro st' r h)
  all_goals (first | (cases h; done) | (cases h; effK_close))

theorem constDirective_effK {env : Env} {st : St} {line col : Nat} {args : List Arg} :
    ∀ st' r, constDirective env st line col args = .ok (st', r) → EffK (.dir (bytesOf "const")) env.curName line col st st' := by
  unfold constDirective
  splits
  all_goals (intro st' r h)
  all_goals (first | (cases h; done) | (cases h; effK_close))

theorem appendData_effK {dir : String} {env : Env} {st : St} {line col : Nat} {d : Bytes} :
    ∀ st' r, appendData dir env st line col d = .ok (st', r) → EffK (.dir (bytesOf dir)) env.curName line col st st' := by
  unfold appendData
  splits
  all_goals (intro st' r h)
  all_goals (first | (cases h; done) | (cases h; effK_close))

theorem stringDirective_effK {fs : Bytes → Option Bytes} {dir : String} {env : Env} {st : St} {line col : Nat}
    {args : List Arg} :
    ∀ st' r, stringDirective fs dir env st line col args = .ok (st', r) → EffK (.dir (bytesOf dir)) env.curName line col st st' := by
  unfold stringDirective
  splits
  all_goals (first | exact appendData_effK | skip)
  all_goals (intro st' r h)
  all_goals (first | (cases h; done) | (cases h; effK_close))

theorem globalDirective_effK {g : GDir} {env : Env} {st : St} {line col : Nat} {args : List Arg} :
    ∀ st' r, globalDirective g env st line col args = .ok (st', r) → EffK (.dir (bytesOf g.name)) env.curName line col st st' := by
  unfold globalDirective
  splits
  all_goals (intro st' r h)
  all_goals (first | (cases h; done) | (cases h; effK_close) | skip)
  -- `.global`: `defer_constant(Global)`, then fill / defer locally, then the closure
  all_goals (have w2 : EffK (.dir (bytesOf GDir.global.name)) env.curName line col st _ := effK_of_same (deferConstant_same ‹deferConstant st _ Realm.global = _›))
  all_goals (try (have w1 : EffK (.dir (bytesOf GDir.global.name)) env.curName line col _ _ := effK_of_same (insertConstant_same ‹insertConstant _ _ _ Realm.global = _›)))
  all_goals (try (have w3 : EffK (.dir (bytesOf GDir.global.name)) env.curName line col _ _ := effK_of_same (deferConstant_same ‹deferConstant _ _ Realm.loc = _›)))
  all_goals (try (have w4 := addTask_effK (C := .dir (bytesOf GDir.global.name)) (f := env.curName) (t := .globalCopy _ line col) ‹addTask _ _ _ = _› ⟨rfl, rfl⟩ rfl))
  all_goals (cases h; first | exact w2.trans w1 | exact (w2.trans w3).trans w4 | exact w2.trans w4)

/-- what the recursive call contributes is not at the statement's position; `.include` itself adds at most the
final `AssemblyFailed` diagnostic -/
theorem includeDirective_effK {fs : Bytes → Option Bytes} {inc : Inc} {env : Env} {st : St} {line col : Nat}
    {args : List Arg} :
    ∀ st' r, includeDirective fs inc env st line col args = .ok (st', r) →
      EffK (.dir (bytesOf "include")) env.curName line col st st' ∨
      ∃ data path st1 r1, fs path = some data ∧ inc env st data path = .ok (st1, r1) ∧
        EffK (.dir (bytesOf "include")) env.curName line col st1 st' := by
  unfold includeDirective
  splits
  all_goals (intro st' r h)
  all_goals (first | (cases h; done) | (cases h; exact .inl (effK_pushIn _ _ _ _ _ _ (by pushes_tac))) | skip)
  all_goals (cases h; first
    | exact .inr ⟨_, _, _, _, ‹fs _ = some _›, ‹inc _ _ _ _ = _›, EffK.refl _ _ _ _ _⟩
    | exact .inr ⟨_, _, _, _, ‹fs _ = some _›, ‹inc _ _ _ _ = _›, effK_pushIn _ _ _ _ _ _ (by pushes_tac)⟩)

theorem directive_effK {fs : Bytes → Option Bytes} {inc : Inc} {env : Env} {st : St} {line col : Nat} {name : Bytes}
    {args : List Arg} (hni : name ≠ bytesOf "include") :
    ∀ st' r, directive fs inc env st line col name args = .ok (st', r) → EffK (.dir name) env.curName line col st st' := by
  delta directive
  by_cases h0 : name = bytesOf "addr"
  · rw [if_pos h0, h0]; exact addrDirective_effK
  rw [if_neg h0]
  by_cases h1 : name = bytesOf "align"
  · rw [if_pos h1, h1]; exact alignDirective_effK
  rw [if_neg h1]
  by_cases h2 : name = bytesOf "const"
  · rw [if_pos h2, h2]; exact constDirective_effK
  rw [if_neg h2]
  by_cases h3 : name = bytesOf "du8"
  · rw [if_pos h3, h3]; exact duDirective_effK
  rw [if_neg h3]
  by_cases h4 : name = bytesOf "du16"
  · rw [if_pos h4, h4]; exact duDirective_effK
  rw [if_neg h4]
  by_cases h5 : name = bytesOf "du32"
  · rw [if_pos h5, h5]; exact duDirective_effK
  rw [if_neg h5]
  by_cases h6 : name = bytesOf "dhex"
  · rw [if_pos h6, h6]; exact stringDirective_effK
  rw [if_neg h6]
  by_cases h7 : name = bytesOf "dstr"
  · rw [if_pos h7, h7]; exact stringDirective_effK
  rw [if_neg h7]
  by_cases h8 : name = bytesOf "dfile"
  · rw [if_pos h8, h8]; exact stringDirective_effK
  rw [if_neg h8]
  by_cases h9 : name = bytesOf "global"
  · rw [if_pos h9, h9]; exact globalDirective_effK
  rw [if_neg h9]
  by_cases h10 : name = bytesOf "import"
  · rw [if_pos h10, h10]; exact globalDirective_effK
  rw [if_neg h10]
  by_cases h11 : name = bytesOf "export"
  · rw [if_pos h11, h11]; exact globalDirective_effK
  rw [if_neg h11, if_neg hni]
  intro st' r h; cases h; exact effK_pushIn _ _ _ _ _ _ (by pushes_tac)


theorem statement_effK {fs : Bytes → Option Bytes} {enc : Encoder} {inc : Inc} {env : Env} {st : St} {el : Element}
    (hni : ∀ as, el.val ≠ .directive (bytesOf "include") as) :
    ∀ st' r, statement fs enc inc env st el = .ok (st', r) → EffK (Cls.of el.val) env.curName el.line el.col st st' := by
  obtain ⟨l, c, v⟩ := el
  cases v with
  | label name =>
    simp only [statement, Cls.of]
    splits
    all_goals (intro st' r h)
    all_goals (first | (cases h; done) | (cases h; effK_close))
  | directive name args =>
    simp only [statement, Cls.of]
    exact directive_effK (fun e => hni args (by rw [e]))
  | instruction name args =>
    simp only [statement, Cls.of]
    split
    · intro st' r h; cases h; exact effK_pushIn _ _ _ _ _ _ rfl
    · exact instruction_effK

/-- the class of the statement that queued a task -/
def Task.cls : Task → Cls
  | .data d _ => .dir (bytesOf d.du.name)
  | .instr .. => .ins
  | .globalCopy .. => .dir (bytesOf "global")

theorem runTask_effK {enc : Encoder} {env : Env} {st : St} {t : Task} {f : Bytes} {l c : Nat} (ht : t.at f l c)
    (hf : ∀ n l' c', t = .globalCopy n l' c' → f = env.curName) :
    ∀ st' r, runTask enc env st t = .ok (st', r) → EffK t.cls f l c st st' := by
  cases t with
  | data d g => obtain ⟨rfl, rfl, rfl⟩ := ht; exact runDataTask_effK
  | instr i g => obtain ⟨rfl, rfl, rfl⟩ := ht; exact runInstrTask_effK
  | globalCopy n l' c' =>
    obtain ⟨rfl, rfl⟩ := ht
    rw [hf n _ _ rfl]
    exact runGlobalCopy_effK

theorem EffK.toEff {C : Cls} {f : Bytes} {l c : Nat} {st st' : St} (h : EffK C f l c st st') : Eff f l c st st' :=
  ⟨fun d hd => (h.1 d hd).imp id And.left, fun t ht => (h.2.1 t ht).imp id And.left,
   fun q hq t ht => (h.2.2 q hq t ht).imp id And.left⟩

end Trion.Asm
