import TrionModel.Lemmas.TridasText
import TrionModel.Lemmas.TridasAsm
/-!
# The whole pipeline model `Asm.run` on the text of a tridas listing (C20) — labels defined before use

`listing_run`: for a gap-free, canonically encoded segmentation `es` of the file `b` whose printed labels are all
defined at or before the line that mentions them (backward branches and branches to the own address), `Asm.run` on
the listing text succeeds without a diagnostic and its image is exactly `b` at `BASE`.
-/
namespace Trion.Tridas
open Trion.Show Trion.Lex

/-! ### labels are injective -/

theorem hexDigit_inj' : ∀ m, m < 16 → ∀ n, n < 16 → hexDigit m = hexDigit n → m = n := by decide
theorem hexDigit_inj (m n : Nat) (hm : m < 16) (hn : n < 16) (h : hexDigit m = hexDigit n) : m = n :=
  hexDigit_inj' m hm n hn h

theorem label_inj (s t : Nat) (hs : s < 4294967296) (ht : t < 4294967296) (h : label s = label t) : s = t := by
  simp only [label, hex8, List.append_cancel_left_eq, List.cons.injEq, and_true] at h
  obtain ⟨h1, h2, h3, h4, h5, h6, h7, h8⟩ := h
  have hm : ∀ k, k % 16 < 16 := fun k => Nat.mod_lt _ (by decide)
  have e1 := hexDigit_inj _ _ (hm _) (hm _) h1
  have e2 := hexDigit_inj _ _ (hm _) (hm _) h2
  have e3 := hexDigit_inj _ _ (hm _) (hm _) h3
  have e4 := hexDigit_inj _ _ (hm _) (hm _) h4
  have e5 := hexDigit_inj _ _ (hm _) (hm _) h5
  have e6 := hexDigit_inj _ _ (hm _) (hm _) h6
  have e7 := hexDigit_inj _ _ (hm _) (hm _) h7
  have e8 := hexDigit_inj _ _ (hm _) (hm _) h8
  omega

/-! ### constant tables -/

theorem find_set (t : Asm.Table) (n m : Bytes) (v : Option Int) :
    (t.set n v).find m = if n = m then some v else t.find m := by
  induction t with
  | nil => simp [Asm.Table.set, Asm.Table.find]
  | cons kv t ih =>
    obtain ⟨k, w⟩ := kv
    simp only [Asm.Table.set]
    by_cases hk : k = n
    · subst hk
      simp only [if_true, Asm.Table.find]
      by_cases hm : k = m <;> simp [hm]
    · simp only [if_neg hk, Asm.Table.find]
      by_cases hkm : k = m
      · subst hkm
        simp [Ne.symm hk]
      · simp only [if_neg hkm, ih]

/-! ### the statements of the printed lines -/

/-- the statements of the entries: an optional label definition and the instruction -/
def entryVals (br : List Nat) (es : List Entry) : List ElemVal :=
  es.flatMap fun e =>
    (if br.contains e.addr = true then [ElemVal.label (label e.addr)] else []) ++
      [.instruction (parts e.instr e.addr).1 (Args.ofList (parts e.instr e.addr).2)]

theorem entryVals_cons (br : List Nat) (e : Entry) (r : List Entry) :
    entryVals br (e :: r) = (if br.contains e.addr = true then [ElemVal.label (label e.addr)] else []) ++
      [.instruction (parts e.instr e.addr).1 (Args.ofList (parts e.instr e.addr).2)] ++ entryVals br r := by
  simp only [entryVals, List.flatMap_cons]

theorem lead_vals (br : List Nat) (e : Entry) (space : Bool) (last : Nat) :
    (lead br e space last).flatMap lineVals = if br.contains e.addr = true then [ElemVal.label (label e.addr)] else [] := by
  unfold lead
  cases br.contains e.addr <;> cases decide (e.addr ≠ last) <;> cases space <;> simp [lineVals]

theorem lineVals_render (br : List Nat) : ∀ (es : List Entry) (space : Bool) (last : Nat),
    (render br es space last).flatMap lineVals = entryVals br es := by
  intro es
  induction es with
  | nil => intro _ _; rfl
  | cons e r ih =>
    intro space last
    rw [render_cons]
    simp only [List.flatMap_append, List.flatMap_cons, ih, entryVals, lead_vals, lineVals]
    simp

theorem linesOk_render (br : List Nat) : ∀ (es : List Entry) (space : Bool) (last : Nat),
    (∀ e ∈ es, LitOk e.instr) → LinesOk (render br es space last) := by
  intro es
  induction es with
  | nil => intro _ _ _ a i h; simp [render] at h
  | cons e r ih =>
    intro space last h a i hm
    rw [render_cons] at hm
    simp only [List.mem_append, List.mem_cons] at hm
    rcases hm with hm | hm | hm
    · unfold lead at hm
      cases br.contains e.addr <;> cases decide (e.addr ≠ last) <;> cases space <;> simp at hm
    · cases hm; exact h e (by simp)
    · exact ih _ _ (fun f hf => h f (by simp [hf])) a i hm

/-! ### the statement loop on the entries -/

/-- what is assumed of every entry: the instruction is encodable and well-formed (true of decoded instructions),
its PC-relative target lies in the address space, and its bytes in the file are its CANONICAL encoding -/
def EntryOk (b : List UInt8) (e : Entry) : Prop :=
  ∃ hws, Codec.encode e.instr = .ok hws ∧ e.instr.wf ∧ targetInRange e.instr e.addr ∧
    (Codec.toBytes hws).map (·.toUInt8) = slice b e

/-- the state inside the main file while the listing is assembled -/
def stAt (buf : List UInt8) (tbl : Asm.Table) (pending : List (Nat × Nat)) : Asm.St :=
  ⟨⟨[], some ⟨BASE, buf, Map.u32Max - BASE + 1⟩, pending⟩, [], some tbl, [], some [], []⟩

theorem chain_ge' : ∀ (es : List Entry) (x y : Nat), Chain es x y → ∀ f ∈ es, x ≤ f.addr := by
  intro es
  induction es with
  | nil => intro x y _ f hf; cases hf
  | cons g q ih =>
    intro x y h f hf
    rcases List.mem_cons.mp hf with hf | hf
    · subst hf; have := h.1; omega
    · have := ih _ _ h.2.2 f hf; have := h.1; have := h.2.1; omega

theorem entries_run (fs : Bytes → Option Bytes) (inc : Asm.Inc) (main : Bytes) (b : List UInt8) (br : List Nat)
    (hsmall : BASE + b.length ≤ 4294967296) :
    ∀ (es : List Entry) (els : List Element) (a z : Nat) (tbl : Asm.Table) (pending : List (Nat × Nat)),
      els.map (·.val) = entryVals br es → Chain es a z → BASE ≤ a → z ≤ BASE + b.length →
      (∀ e ∈ es, EntryOk b e) →
      -- everything in the table is the label of an address below the cursor
      (∀ name v, tbl.find name = some v → ∃ x, x < a ∧ name = label x) →
      -- every label an entry mentions is already defined, or is defined by an entry at or before it
      (∀ e ∈ es, ∀ t, targetOf e.instr e.addr = some t →
        (t < a → tbl.get (label t) = .found (t : Int)) ∧
        (a ≤ t → t ≤ e.addr ∧ br.contains t = true ∧ ∃ e' ∈ es, e'.addr = t)) →
      ∃ tbl' pending',
        Asm.doAssemble fs Asm.encoder inc ⟨[main], main⟩ els none (stAt (b.take (a - BASE)) tbl pending) =
          .ok (stAt (b.take (z - BASE)) tbl' pending', .ok) := by
  intro es
  induction es with
  | nil =>
    intro els a z tbl pending hels hc _ _ _ _ _
    simp only [Chain] at hc
    subst hc
    have : els = [] := by simpa [entryVals] using hels
    subst this
    exact ⟨tbl, pending, rfl⟩
  | cons e r ih =>
    intro els a z tbl pending hels hc ha hz hok h1 h2
    obtain ⟨c1, c2, c3⟩ := hc
    have hzz : e.after ≤ z := chain_le r _ _ c3
    have hrest : ∀ f ∈ r, e.after ≤ f.addr := chain_ge' r _ _ c3
    obtain ⟨hws, he, wf, htr, hbytes⟩ := hok e (by simp)
    have ha32 : a < 4294967296 := by omega
    -- the table after the optional label definition
    let tbl1 : Asm.Table := if br.contains e.addr = true then tbl.set (label e.addr) (some (e.addr : Int)) else tbl
    have hfresh : tbl.find (label e.addr) = none := by
      cases hf : tbl.find (label e.addr) with
      | none => rfl
      | some v =>
        obtain ⟨x, hx, hl⟩ := h1 _ _ hf
        have := label_inj e.addr x (by omega) (by omega) hl
        omega
    have hfind1 : ∀ name, tbl1.find name =
        if br.contains e.addr = true ∧ label e.addr = name then some (some (e.addr : Int)) else tbl.find name := by
      intro name
      show (if br.contains e.addr = true then tbl.set (label e.addr) (some (e.addr : Int)) else tbl).find name = _
      by_cases hb : br.contains e.addr = true
      · rw [if_pos hb, find_set]
        by_cases hn : label e.addr = name
        · rw [if_pos hn, if_pos ⟨hb, hn⟩]
        · rw [if_neg hn, if_neg (fun h => hn h.2)]
      · rw [if_neg hb, if_neg (fun h => hb h.1)]
    have hlen : (b.take (a - BASE)).length = a - BASE := by rw [List.length_take]; omega
    have hcur : Seg.Active.cur ⟨BASE, b.take (a - BASE), Map.u32Max - BASE + 1⟩ = a := by
      simp only [Seg.Active.cur, hlen, Map.u32Max]
      omega
    -- the label the instruction mentions is defined in `tbl1`
    have hlk : ∀ t, targetOf e.instr e.addr = some t → tbl1.get (label t) = .found (t : Int) := by
      intro t ht
      obtain ⟨g1, g2⟩ := h2 e (by simp) t ht
      by_cases hlt : t < a
      · have hg := g1 hlt
        simp only [Asm.Table.get] at hg ⊢
        rw [hfind1]
        by_cases hc : br.contains e.addr = true ∧ label e.addr = label t
        · exfalso
          rw [← hc.2, hfresh] at hg
          simp at hg
        · rw [if_neg hc]; exact hg
      · obtain ⟨g3, g4, _⟩ := g2 (by omega)
        have hte : t = e.addr := by omega
        subst hte
        simp only [Asm.Table.get]
        rw [hfind1, if_pos ⟨g4, rfl⟩]
    have hbuild : Front.build a (parts e.instr e.addr).1 (parts e.instr e.addr).2 (Asm.frontEval tbl1) true = .completed e.instr := by
      have hE : EvalIsSimp (Asm.frontEval tbl1) (fun n => tbl1.get n) := by
        intro x ch a' h; exact Asm.frontEval_complete _ x ch a' h
      have := show_assembles_proof e.instr e.addr (Asm.frontEval tbl1) true
        (printable_of_encode e.instr e.addr hws he wf htr)
        (evalOK_simp (Asm.frontEval tbl1) (fun n => tbl1.get n) hE e.instr e.addr hlk (memNonneg_of_encode e.instr hws he))
      rw [← c1]; exact this
    have hlenw := (Codec.enc_len e.instr hws he wf).1
    have henc := Asm.encoder_ok e.instr hws he (by omega)
    rw [hbytes] at henc
    have hslen : (slice b e).length = e.after - e.addr := slice_length b e (by omega) (by omega)
    have htake : b.take (a - BASE) ++ slice b e = b.take (e.after - BASE) := by
      unfold slice
      rw [c1, show e.after - BASE = (a - BASE) + (e.after - a) by omega, List.take_add]
    -- the instruction statement from the state with `tbl1`
    have hinstr : ∀ (l c : Nat) (pend : List (Nat × Nat)),
        Asm.statement fs Asm.encoder inc ⟨[main], main⟩ (stAt (b.take (a - BASE)) tbl1 pend)
          ⟨l, c, .instruction (parts e.instr e.addr).1 (Args.ofList (parts e.instr e.addr).2)⟩ =
        .ok (stAt (b.take (e.after - BASE)) tbl1 ((a, (slice b e).length) :: pend), .ok) := by
      intro l c pend
      have := Asm.instr_ok fs Asm.encoder inc ⟨[main], main⟩ (stAt (b.take (a - BASE)) tbl1 pend) tbl1 (by simp) rfl l c
        (parts e.instr e.addr).1 (Args.ofList (parts e.instr e.addr).2) [] ⟨BASE, b.take (a - BASE), Map.u32Max - BASE + 1⟩ pend rfl
        e.instr (by rw [hcur, toList_ofList]; exact hbuild) (slice b e) henc
        (by simp only [hlen, hslen, Map.u32Max]; omega)
      rw [this, hcur, htake]
      rfl
    -- the invariants for the rest
    have h1' : ∀ name v, tbl1.find name = some v → ∃ x, x < e.after ∧ name = label x := by
      intro name v hf
      rw [hfind1] at hf
      split at hf
      · rename_i hc; exact ⟨e.addr, by omega, hc.2.symm⟩
      · obtain ⟨x, hx, hl⟩ := h1 _ _ hf; exact ⟨x, by omega, hl⟩
    have h2' : ∀ f ∈ r, ∀ t, targetOf f.instr f.addr = some t →
        (t < e.after → tbl1.get (label t) = .found (t : Int)) ∧
        (e.after ≤ t → t ≤ f.addr ∧ br.contains t = true ∧ ∃ e' ∈ r, e'.addr = t) := by
      intro f hf t ht
      obtain ⟨g1, g2⟩ := h2 f (by simp [hf]) t ht
      have keep : t < a → tbl1.get (label t) = .found (t : Int) := by
        intro hlt
        have hg := g1 hlt
        simp only [Asm.Table.get] at hg ⊢
        rw [hfind1]
        by_cases hc : br.contains e.addr = true ∧ label e.addr = label t
        · exfalso
          rw [← hc.2, hfresh] at hg
          simp at hg
        · rw [if_neg hc]; exact hg
      constructor
      · intro hlt
        by_cases hlt2 : t < a
        · exact keep hlt2
        · obtain ⟨g3, g4, e', he', hea⟩ := g2 (by omega)
          rcases List.mem_cons.mp he' with rfl | he'
          · simp only [Asm.Table.get]
            rw [hfind1, ← hea, if_pos ⟨by rw [hea]; exact g4, rfl⟩]
          · have := hrest e' he'; omega
      · intro hge
        obtain ⟨g3, g4, e', he', hea⟩ := g2 (by omega)
        refine ⟨g3, g4, ?_⟩
        rcases List.mem_cons.mp he' with rfl | he'
        · omega
        · exact ⟨e', he', hea⟩
    -- split the elements
    by_cases hb : br.contains e.addr = true
    · have hv : entryVals br (e :: r) = ElemVal.label (label e.addr) ::
          .instruction (parts e.instr e.addr).1 (Args.ofList (parts e.instr e.addr).2) :: entryVals br r := by
        rw [entryVals_cons, if_pos hb]; rfl
      rw [hv] at hels
      obtain ⟨el1, r1, rfl, hl1, hr1⟩ := List.map_eq_cons_iff.mp hels
      obtain ⟨el2, r2, rfl, hl2, hr2⟩ := List.map_eq_cons_iff.mp hr1
      obtain ⟨l1, k1, v1⟩ := el1
      obtain ⟨l2, k2, v2⟩ := el2
      simp only at hl1 hl2
      subst hl1 hl2
      have hlab := Asm.label_ok fs Asm.encoder inc ⟨[main], main⟩ (stAt (b.take (a - BASE)) tbl pending) tbl rfl l1 k1
        (label e.addr) ⟨BASE, b.take (a - BASE), Map.u32Max - BASE + 1⟩ rfl (isRegister_label e.addr) hfresh
      rw [hcur] at hlab
      have ht1 : tbl1 = tbl.set (label e.addr) (some (e.addr : Int)) := if_pos hb
      obtain ⟨tbl', pending', hrec⟩ := ih r2 e.after z tbl1 ((a, (slice b e).length) :: pending) hr2 c3 (by omega) hz
        (fun f hf => hok f (by simp [hf])) h1' h2'
      refine ⟨tbl', pending', ?_⟩
      simp only [Asm.doAssemble]
      rw [hlab]
      simp only
      have : ({ stAt (b.take (a - BASE)) tbl pending with locals := some (tbl.set (label e.addr) (some (a : Int))) } : Asm.St) =
          stAt (b.take (a - BASE)) tbl1 pending := by rw [ht1, c1]; rfl
      rw [this, hinstr l2 k2 pending]
      simp only
      exact hrec
    · have hv : entryVals br (e :: r) =
          .instruction (parts e.instr e.addr).1 (Args.ofList (parts e.instr e.addr).2) :: entryVals br r := by
        rw [entryVals_cons, if_neg hb]; rfl
      rw [hv] at hels
      obtain ⟨el2, r2, rfl, hl2, hr2⟩ := List.map_eq_cons_iff.mp hels
      obtain ⟨l2, k2, v2⟩ := el2
      simp only at hl2
      subst hl2
      have ht1 : tbl1 = tbl := if_neg hb
      obtain ⟨tbl', pending', hrec⟩ := ih r2 e.after z tbl1 ((a, (slice b e).length) :: pending) hr2 c3 (by omega) hz
        (fun f hf => hok f (by simp [hf])) h1' h2'
      refine ⟨tbl', pending', ?_⟩
      simp only [Asm.doAssemble]
      rw [← ht1, hinstr l2 k2 pending]
      simp only
      exact hrec

/-- **`Asm.run` on the text of a listing whose labels are defined before use.** `es` is a gap-free segmentation of the
non-empty file `b` into canonically encoded instructions (`EntryOk`), `br` the set of addresses that get a label
line; every label an instruction line mentions names an entry at or before that line, and that entry has a label
line. Then the whole pipeline — tokenizer, parser, `.addr`, the label definitions, every instruction statement
with the real evaluator over the real constant table, front end, encoder, output region, task loops,
`close_segment`, `finalize` — on the listing text succeeds, records no diagnostic, and its image is exactly `b` at
`BASE`. -/
theorem listing_run (fs : Bytes → Option Bytes) (main : Bytes) (b : List UInt8) (br : List Nat) (es : List Entry)
    (hne : b ≠ []) (hsmall : BASE + b.length ≤ 4294967296) (hc : Chain es BASE (BASE + b.length))
    (hok : ∀ e ∈ es, EntryOk b e)
    (hback : ∀ e ∈ es, ∀ t, targetOf e.instr e.addr = some t →
      t ≤ e.addr ∧ br.contains t = true ∧ ∃ e' ∈ es, e'.addr = t)
    (hfs : fs main = some (listingText (Line.header :: render br es false BASE))) :
    Asm.run fs main = .done ⟨true, none, true, [], [(BASE, b)]⟩ := by
  have hlit : ∀ e ∈ es, LitOk e.instr := by
    intro e he
    obtain ⟨hws, h1, wf, _, _⟩ := hok e he
    exact litOk_of_encode e.instr hws h1 wf
  have hlines : LinesOk (Line.header :: render br es false BASE) := by
    intro a i hm
    rcases List.mem_cons.mp hm with h | h
    · cases h
    · exact linesOk_render br es false BASE hlit a i h
  obtain ⟨els, hparse, hels⟩ := parseFile_listing _ hlines
  have hv : (Line.header :: render br es false BASE).flatMap lineVals =
      ElemVal.directive (bytesOf "addr") (Args.ofList [.const 0x20000000]) :: entryVals br es := by
    rw [List.flatMap_cons, lineVals_render]; rfl
  rw [hv] at hels
  obtain ⟨e0, els', rfl, h0, hels'⟩ := List.map_eq_cons_iff.mp hels
  obtain ⟨l0, c0, v0⟩ := e0
  simp only at h0
  subst h0
  obtain ⟨tbl', pending', hrun⟩ := entries_run fs (Asm.assembleFile fs Asm.encoder (Asm.maxDepth - 1)) main b br hsmall es els'
    BASE (BASE + b.length) [] [] hels' hc (Nat.le_refl _) (Nat.le_refl _) hok
    (by intro name v h; simp [Asm.Table.find] at h)
    (by
      intro e he t ht
      obtain ⟨g1, g2, e', he', hea⟩ := hback e he t ht
      have := chain_ge' es _ _ hc e' he'
      exact ⟨fun hlt => by omega, fun _ => ⟨g1, g2, e', he', hea⟩⟩)
  have haddr := Asm.addr_ok fs (Asm.assembleFile fs Asm.encoder (Asm.maxDepth - 1)) ⟨[main], main⟩
    ⟨Seg.init, [], some [], [], some [], []⟩ [] (by simp) rfl rfl l0 c0 (0x20000000 : Int) (by decide) (by decide)
  have key : Asm.doAssemble fs Asm.encoder (Asm.assembleFile fs Asm.encoder (Asm.maxDepth - 1)) ⟨[main], main⟩
      (⟨l0, c0, .directive (bytesOf "addr") (Args.ofList [.const 0x20000000])⟩ :: els') none
      ⟨Seg.init, [], some [], [], some [], []⟩ =
      .ok (⟨⟨[], some ⟨BASE, b, Map.u32Max - BASE + 1⟩, pending'⟩, [], some tbl', [], some [], []⟩, .ok) := by
    simp only [Asm.doAssemble, Asm.statement, toList_ofList, haddr]
    have e1 : b.take (BASE - BASE) = [] := by simp
    have e2 : b.take (BASE + b.length - BASE) = b := by simp
    rw [e1, e2] at hrun
    exact hrun
  exact Asm.run_of_statements fs main _ hfs _ hparse tbl' ⟨BASE, b, Map.u32Max - BASE + 1⟩ pending' key hne hsmall

/-! ### the canonical re-encoding of a file -/

/-- the canonical encoding of the instruction of an entry -/
def canon (e : Entry) : List UInt8 :=
  match Codec.encode e.instr with
  | .ok hws => (Codec.toBytes hws).map (·.toUInt8)
  | .error _ => []

theorem canon_slices : ∀ (es : List Entry) (a z : Nat) (pre : List UInt8), Chain es a z → BASE ≤ a →
    pre.length = a - BASE → (∀ e ∈ es, (canon e).length = e.after - e.addr) →
    (pre ++ (es.map canon).flatten).length = z - BASE ∧
      ∀ e ∈ es, slice (pre ++ (es.map canon).flatten) e = canon e := by
  intro es
  induction es with
  | nil =>
    intro a z pre hc _ hp _
    simp only [Chain] at hc
    subst hc
    exact ⟨by simpa using hp, by intro e he; cases he⟩
  | cons e r ih =>
    intro a z pre hc ha hp hl
    obtain ⟨c1, c2, c3⟩ := hc
    have hle := hl e (by simp)
    have hrec := ih e.after z (pre ++ canon e) c3 (by omega) (by simp [hp, hle]; omega)
      (fun f hf => hl f (by simp [hf]))
    have hassoc : pre ++ ((e :: r).map canon).flatten = (pre ++ canon e) ++ (r.map canon).flatten := by simp
    rw [hassoc]
    refine ⟨hrec.1, ?_⟩
    intro f hf
    rcases List.mem_cons.mp hf with rfl | hf
    · unfold slice
      rw [List.append_assoc, List.drop_left' (by omega), List.take_left' hle]
    · exact hrec.2 f hf

end Trion.Tridas
