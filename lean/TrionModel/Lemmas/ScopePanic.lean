import TrionModel.Lemmas.Scope
/-! Helper lemmas for C14: the reachable-state invariant behind panic freedom (core Lean only). -/
namespace Trion.Scope

/-! ## the parts of the invariant -/

/-- no key of the table is a register name (`insert_constant`/`defer_constant` refuse those) -/
def Table.keysOk (t : Table) : Prop := ∀ n, isReg n = true → t.find n = none

theorem Table.keysOk_nil : Table.keysOk [] := fun _ _ => rfl

theorem Table.keysOk_set {t : Table} {n : Bytes} (v : Option Int) (h : t.keysOk) (hn : isReg n = false) :
    (t.set n v).keysOk := by
  intro m hm
  rw [Table.find_set]
  have hne : n ≠ m := by intro e; subst e; rw [hn] at hm; cases hm
  simp [hne, h m hm]

theorem Table.keysOk_found {t : Table} {n : Bytes} {e : Option Int} (h : t.keysOk) (hf : t.find n = some e) :
    isReg n = false := by
  cases hr : isReg n with
  | false => rfl
  | true => rw [h n hr] at hf; cases hf

/-- the name captured by a `.global` closure passed `defer_constant`, so it is not a register name -/
def Task.ok : Task → Prop
  | .globalCopy n _ => isReg n = false
  | .use _ _ _ _ => True

/-- a `.du32` rescheduled for the includer / `finalize` (the only closure ever added with `Realm::Global`) -/
def Task.isGU : Task → Prop
  | .use _ _ _ true => True
  | _ => False

theorem Task.ok_of_isGU {t : Task} (h : t.isGU) : t.ok := by
  cases t <;> simp_all [Task.isGU, Task.ok]

/-- the invariant on the two visible tables and the two visible task lists -/
structure Vis (s : State) : Prop where
  kg : s.globals.keysOk
  kl : ∀ l, s.locals = some l → l.keysOk
  tg : ∀ t ∈ s.globalTasks, t.ok
  tl : ∀ l, s.localTasks = some l → ∀ t ∈ l, t.ok
  /-- in the root file and outside any file `global_tasks` is the real global list: only rescheduled `.du32`s -/
  bot : s.frames.length ≤ 1 → ∀ t ∈ s.globalTasks, t.isGU

theorem vis_err {s : State} (h : Vis s) (tag : Nat) (k : Kind) : Vis (s.err tag k) :=
  ⟨h.kg, h.kl, h.tg, h.tl, h.bot⟩

theorem vis_log {s : State} (h : Vis s) (l : List Ev) : Vis { s with log := l } :=
  ⟨h.kg, h.kl, h.tg, h.tl, h.bot⟩

theorem vis_mode {s : State} (h : Vis s) (m : Mode) : Vis { s with mode := m } :=
  ⟨h.kg, h.kl, h.tg, h.tl, h.bot⟩

theorem vis_insertConstant {s s' : State} {n : Bytes} {v : Int} {r : Realm} {res : Except CErr Bool}
    (hv : Vis s) (h : insertConstant s n v r = .ok (s', res)) : Vis s' := by
  unfold insertConstant at h
  split at h
  · cases h; exact hv
  · rename_i hr
    have hr' : isReg n = false := by simpa using hr
    cases r with
    | global =>
      simp only at h
      split at h <;> cases h
      · exact ⟨Table.keysOk_set _ hv.kg hr', hv.kl, hv.tg, hv.tl, hv.bot⟩
      · exact ⟨Table.keysOk_set _ hv.kg hr', hv.kl, hv.tg, hv.tl, hv.bot⟩
      · exact hv
    | loc =>
      simp only at h
      split at h
      · cases h
      · rename_i l hl
        split at h <;> cases h
        · exact ⟨hv.kg, fun l' e => by cases e; exact Table.keysOk_set _ (hv.kl l hl) hr', hv.tg, hv.tl, hv.bot⟩
        · exact ⟨hv.kg, fun l' e => by cases e; exact Table.keysOk_set _ (hv.kl l hl) hr', hv.tg, hv.tl, hv.bot⟩
        · exact hv

theorem vis_deferConstant {s s' : State} {n : Bytes} {r : Realm} {res : Except CErr Unit}
    (hv : Vis s) (h : deferConstant s n r = .ok (s', res)) : Vis s' := by
  unfold deferConstant at h
  split at h
  · cases h; exact hv
  · rename_i hr
    have hr' : isReg n = false := by simpa using hr
    cases r with
    | global =>
      simp only at h
      split at h <;> cases h
      · exact hv
      · exact ⟨Table.keysOk_set _ hv.kg hr', hv.kl, hv.tg, hv.tl, hv.bot⟩
    | loc =>
      simp only at h
      split at h
      · cases h
      · rename_i l hl
        split at h <;> cases h
        · exact hv
        · exact ⟨hv.kg, fun l' e => by cases e; exact Table.keysOk_set _ (hv.kl l hl) hr', hv.tg, hv.tl, hv.bot⟩

theorem vis_addTask {s s' : State} {t : Task} {r : Realm} (hv : Vis s)
    (ht : match r with | .global => t.isGU | .loc => t.ok) (h : addTask s t r = .ok s') : Vis s' := by
  unfold addTask at h
  cases r with
  | global =>
    cases h
    simp only at ht
    refine ⟨hv.kg, hv.kl, ?_, hv.tl, ?_⟩
    · intro x hx
      rcases List.mem_append.1 hx with hx | hx
      · exact hv.tg x hx
      · simp at hx; subst hx; exact Task.ok_of_isGU ht
    · intro hf x hx
      rcases List.mem_append.1 hx with hx | hx
      · exact hv.bot hf x hx
      · simp at hx; subst hx; exact ht
  | loc =>
    simp only at h ht
    split at h
    · cases h
    · rename_i l hl
      cases h
      refine ⟨hv.kg, hv.kl, hv.tg, ?_, hv.bot⟩
      intro l' e x hx
      cases e
      rcases List.mem_append.1 hx with hx | hx
      · exact hv.tl l hl x hx
      · simp at hx; subst hx; exact ht

/-! ## the table primitives do not panic while a file is open -/

theorem insertConstant_ok {s : State} (n : Bytes) (v : Int) {r : Realm} (hr : r = .loc → s.locals.isSome) :
    ∃ s' res, insertConstant s n v r = .ok (s', res) := by
  unfold insertConstant
  split
  · exact ⟨_, _, rfl⟩
  · cases r with
    | global => simp only; split <;> exact ⟨_, _, rfl⟩
    | loc =>
      obtain ⟨l, hl⟩ := Option.isSome_iff_exists.1 (hr rfl)
      simp only [hl]; split <;> exact ⟨_, _, rfl⟩

theorem insertConstant_reserved {s s' : State} {n : Bytes} {v : Int} {r : Realm}
    (h : insertConstant s n v r = .ok (s', .error .reserved)) : isReg n = true := by
  unfold insertConstant at h
  split at h
  · assumption
  · cases r with
    | global => simp only at h; split at h <;> cases h
    | loc =>
      simp only at h
      split at h
      · cases h
      · split at h <;> cases h

theorem deferConstant_ok {s : State} (n : Bytes) {r : Realm} (hr : r = .loc → s.locals.isSome) :
    ∃ s' res, deferConstant s n r = .ok (s', res) := by
  unfold deferConstant
  split
  · exact ⟨_, _, rfl⟩
  · cases r with
    | global => simp only; split <;> exact ⟨_, _, rfl⟩
    | loc =>
      obtain ⟨l, hl⟩ := Option.isSome_iff_exists.1 (hr rfl)
      simp only [hl]; split <;> exact ⟨_, _, rfl⟩

theorem deferConstant_reserved {s s' : State} {n : Bytes} {r : Realm}
    (h : deferConstant s n r = .ok (s', .error .reserved)) : isReg n = true := by
  unfold deferConstant at h
  split at h
  · assumption
  · cases r with
    | global => simp only at h; split at h <;> cases h
    | loc =>
      simp only at h
      split at h
      · cases h
      · split at h <;> cases h

theorem addTask_ok {s : State} (t : Task) {r : Realm} (hr : r = .loc → s.localTasks.isSome) :
    ∃ s', addTask s t r = .ok s' := by
  unfold addTask
  cases r with
  | global => exact ⟨_, rfl⟩
  | loc =>
    obtain ⟨l, hl⟩ := Option.isSome_iff_exists.1 (hr rfl)
    simp only [hl]; exact ⟨_, rfl⟩

/-- what a statement needs of the state: a file is open -/
structure InFile (s : State) : Prop where
  locals : s.locals.isSome
  ltasks : s.localTasks.isSome

theorem inFile_of_eff {s s' : State} (h : InFile s) (e : Eff s s') : InFile s' :=
  ⟨by rw [optLe_isSome e.locals]; exact h.locals, by rw [e.ltasks]; exact h.ltasks⟩

theorem doLabel_ok {s : State} (n : Bytes) (v : Int) (tag : Nat) (hv : Vis s) (hf : InFile s) :
    ∃ s' r, doLabel s n v tag = .ok (s', r) ∧ Vis s' := by
  obtain ⟨s1, res, h1⟩ := insertConstant_ok n v (r := .loc) (fun _ => hf.locals)
  have v1 := vis_insertConstant hv h1
  unfold doLabel
  rw [h1]
  rcases res with e | b
  · cases e <;> exact ⟨_, _, rfl, vis_err v1 _ _⟩
  · exact ⟨_, _, rfl, v1⟩

theorem doConst_ok {s : State} (n : Bytes) (v : Int) (tag : Nat) (hv : Vis s) (hf : InFile s) :
    ∃ s' r, doConst s n v tag = .ok (s', r) ∧ Vis s' := by
  obtain ⟨s1, res, h1⟩ := insertConstant_ok n v (r := .loc) (fun _ => hf.locals)
  have v1 := vis_insertConstant hv h1
  unfold doConst
  rw [h1]
  rcases res with e | b
  · cases e <;> exact ⟨_, _, rfl, vis_err v1 _ _⟩
  · exact ⟨_, _, rfl, v1⟩

theorem insertConstant_tasks {s s' : State} {n : Bytes} {v : Int} {r : Realm} {res : Except CErr Bool}
    (h : insertConstant s n v r = .ok (s', res)) :
    s'.localTasks = s.localTasks ∧ s'.globalTasks = s.globalTasks := by
  unfold insertConstant at h
  split at h
  · cases h; exact ⟨rfl, rfl⟩
  · cases r with
    | global => simp only at h; split at h <;> cases h <;> exact ⟨rfl, rfl⟩
    | loc =>
      simp only at h
      split at h
      · cases h
      · split at h <;> cases h <;> exact ⟨rfl, rfl⟩

theorem runGlobalCopy_ok {s : State} (n : Bytes) (tag : Nat) (hv : Vis s) (hf : s.locals.isSome)
    (hn : isReg n = false) :
    ∃ s' r, runGlobalCopy s n tag = .ok (s', r) ∧ Vis s' ∧ s'.localTasks = s.localTasks ∧
      s'.globalTasks = s.globalTasks := by
  obtain ⟨l, hl⟩ := Option.isSome_iff_exists.1 hf
  unfold runGlobalCopy
  rw [getConstant_loc hl]
  cases hg : l.get n with
  | notFound => exact ⟨_, _, rfl, vis_err hv _ _, rfl, rfl⟩
  | deferred => exact ⟨_, _, rfl, vis_err hv _ _, rfl, rfl⟩
  | found v =>
    obtain ⟨s1, res, h1⟩ := insertConstant_ok (s := s) n v (r := .global) (by simp)
    have v1 := vis_insertConstant hv h1
    have t1 := insertConstant_tasks h1
    simp only
    rw [h1]
    rcases res with e | b
    · cases e with
      | reserved => have := insertConstant_reserved h1; rw [hn] at this; cases this
      | duplicate r => exact ⟨_, _, rfl, vis_err v1 _ _, t1⟩
    · exact ⟨_, _, rfl, v1, t1⟩

theorem doExport_ok {s : State} (n : Bytes) (tag : Nat) (hv : Vis s) (hf : InFile s) :
    ∃ s' r, doExport s n tag = .ok (s', r) ∧ Vis s' := by
  obtain ⟨l, hl⟩ := Option.isSome_iff_exists.1 hf.locals
  unfold doExport
  rw [getConstant_loc hl]
  cases hg : l.get n with
  | notFound => exact ⟨_, _, rfl, vis_err hv _ _⟩
  | deferred => exact ⟨_, _, rfl, vis_err hv _ _⟩
  | found v =>
    have hn : isReg n = false := Table.keysOk_found (hv.kl l hl) (get_found hg)
    obtain ⟨s1, res, h1⟩ := insertConstant_ok (s := s) n v (r := .global) (by simp)
    have v1 := vis_insertConstant hv h1
    simp only
    rw [h1]
    rcases res with e | b
    · cases e with
      | reserved => have := insertConstant_reserved h1; rw [hn] at this; cases this
      | duplicate r => exact ⟨_, _, rfl, vis_err v1 _ _⟩
    · exact ⟨_, _, rfl, v1⟩

theorem doImport_ok {s : State} (n : Bytes) (tag : Nat) (hv : Vis s) (hf : InFile s) :
    ∃ s' r, doImport s n tag = .ok (s', r) ∧ Vis s' := by
  unfold doImport
  simp only [getConstant]
  cases hg : s.globals.get n with
  | notFound => exact ⟨_, _, rfl, vis_err hv _ _⟩
  | deferred =>
    have hn : isReg n = false := Table.keysOk_found hv.kg (get_deferred hg)
    obtain ⟨s1, res, h1⟩ := deferConstant_ok (s := s) n (r := .loc) (fun _ => hf.locals)
    have v1 := vis_deferConstant hv h1
    simp only
    rw [h1]
    rcases res with e | b
    · cases e with
      | reserved => have := deferConstant_reserved h1; rw [hn] at this; cases this
      | duplicate r => exact ⟨_, _, rfl, vis_err v1 _ _⟩
    · exact ⟨_, _, rfl, v1⟩
  | found v =>
    have hn : isReg n = false := Table.keysOk_found hv.kg (get_found hg)
    obtain ⟨s1, res, h1⟩ := insertConstant_ok (s := s) n v (r := .loc) (fun _ => hf.locals)
    have v1 := vis_insertConstant hv h1
    simp only
    rw [h1]
    rcases res with e | b
    · cases e with
      | reserved => have := insertConstant_reserved h1; rw [hn] at this; cases this
      | duplicate r => exact ⟨_, _, rfl, vis_err v1 _ _⟩
    · exact ⟨_, _, rfl, v1⟩

theorem doGlobal_ok {s : State} (n : Bytes) (tag : Nat) (hv : Vis s) (hf : InFile s) :
    ∃ s' r, doGlobal s n tag = .ok (s', r) ∧ Vis s' := by
  obtain ⟨l, hl⟩ := Option.isSome_iff_exists.1 hf.locals
  obtain ⟨s1, res, h1⟩ := deferConstant_ok (s := s) n (r := .global) (by simp)
  have v1 := vis_deferConstant hv h1
  have e1 := eff_deferConstant h1
  have f1 := inFile_of_eff hf e1
  unfold doGlobal
  rw [h1]
  rcases res with e | u
  · cases e <;> exact ⟨_, _, rfl, vis_err v1 _ _⟩
  · -- the announcement succeeded: `n` is not a register name and the includer's entry is now "announced"
    have hs1 : isReg n = false ∧ s1.globals.find n = some none ∧ s1.locals = some l := by
      unfold deferConstant at h1
      split at h1
      · cases h1
      · rename_i hr
        simp only at h1
        split at h1 <;> cases h1
        exact ⟨by simpa using hr, Table.find_set_same _ _ _, hl⟩
    obtain ⟨hn, hg1, hl1⟩ := hs1
    simp only
    rw [getConstant_loc hl1]
    cases hg : l.get n with
    | found v =>
      have h2 : insertConstant s1 n v .global =
          .ok ({ s1 with globals := s1.globals.set n (some v) }, .ok false) := by
        simp [insertConstant, hn, hg1]
      have v2 := vis_insertConstant v1 h2
      simp only
      rw [h2]
      exact ⟨_, _, rfl, v2⟩
    | notFound =>
      have h2 : deferConstant s1 n .loc = .ok ({ s1 with locals := some (l.set n none) }, .ok ()) := by
        simp [deferConstant, hn, hl1, get_notFound hg]
      have v2 := vis_deferConstant v1 h2
      have f2 := inFile_of_eff f1 (eff_deferConstant h2)
      obtain ⟨s3, h3⟩ := addTask_ok (.globalCopy n tag) (r := .loc) (fun _ => f2.ltasks)
      have v3 := vis_addTask (t := .globalCopy n tag) (r := .loc) v2 hn h3
      simp only
      rw [h2]
      simp only
      rw [h3]
      exact ⟨_, _, rfl, v3⟩
    | deferred =>
      obtain ⟨s3, h3⟩ := addTask_ok (.globalCopy n tag) (r := .loc) (fun _ => f1.ltasks)
      have v3 := vis_addTask (t := .globalCopy n tag) (r := .loc) v1 hn h3
      simp only
      rw [h3]
      exact ⟨_, _, rfl, v3⟩

/-! ## `.du32` and the tasks -/

theorem writeVal_facts (s : State) (tag : Nat) (v : Int) (stage : Nat) (hv : Vis s) :
    Vis (writeVal s tag v stage).1 ∧ (writeVal s tag v stage).1.localTasks = s.localTasks ∧
    (writeVal s tag v stage).1.globalTasks = s.globalTasks := by
  unfold writeVal
  split
  · exact ⟨vis_log hv _, rfl, rfl⟩
  · exact ⟨vis_err hv _ _, rfl, rfl⟩

/-- `DataExpr::apply` does not panic when `locals` is there whenever a file is current; it adds no task -/
theorem applyUse_ok {s : State} (n : Bytes) (c : Option Int) (tag stage : Nat) (b : Bool) (hv : Vis s)
    (hd : s.depth ≠ 0 → s.locals.isSome) :
    ∃ s' r c', applyUse s n c tag stage b = .ok (s', r, c') ∧ Vis s' ∧ s'.localTasks = s.localTasks ∧
      s'.globalTasks = s.globalTasks := by
  have wv : ∀ v, ∃ s' r c', (match writeVal s tag v stage with
        | (s, none) => (Except.ok (s, Except.ok DataOp.completed, c) : Except Panic (State × Except Level DataOp × Option Int))
        | (s, some l) => .ok (s, .error l, c)) = .ok (s', r, c') ∧ Vis s' ∧ s'.localTasks = s.localTasks ∧
      s'.globalTasks = s.globalTasks := by
    intro v
    have hw := writeVal_facts s tag v stage hv
    rcases hx : writeVal s tag v stage with ⟨s1, o⟩
    rw [hx] at hw
    cases o <;> exact ⟨_, _, _, rfl, hw⟩
  unfold applyUse
  cases c with
  | some v => exact wv v
  | none =>
    simp only
    split
    · exact ⟨_, _, _, rfl, vis_err hv _ _, rfl, rfl⟩
    · have hg : ∃ lk, getConstant s n (if s.hasCurrFile then .loc else .global) = .ok lk := by
        by_cases h0 : s.depth = 0
        · simp [State.hasCurrFile, h0, getConstant]
        · obtain ⟨l, hl⟩ := Option.isSome_iff_exists.1 (hd h0)
          simp [State.hasCurrFile, h0, getConstant, hl]
      obtain ⟨lk, hg⟩ := hg
      rw [hg]
      cases lk with
      | notFound =>
        simp only
        split
        · exact ⟨_, _, _, rfl, hv, rfl, rfl⟩
        · exact ⟨_, _, _, rfl, vis_err hv _ _, rfl, rfl⟩
      | deferred => exact ⟨_, _, _, rfl, hv, rfl, rfl⟩
      | found v =>
        simp only
        have hw := writeVal_facts s tag v stage hv
        rcases hx : writeVal s tag v stage with ⟨s1, o⟩
        rw [hx] at hw
        cases o <;> exact ⟨_, _, _, rfl, hw⟩

theorem doUse_ok {s : State} (n : Bytes) (tag : Nat) (hv : Vis s) (hf : InFile s) :
    ∃ s' r, doUse s n tag = .ok (s', r) ∧ Vis s' := by
  obtain ⟨s1, r1, c1, h1, v1, lt1, _⟩ := applyUse_ok n none tag 0 true hv (fun _ => hf.locals)
  unfold doUse
  rw [h1]
  obtain ⟨s3, h3⟩ := addTask_ok (s := s1) (.use n c1 tag false) (r := .loc) (fun _ => by rw [lt1]; exact hf.ltasks)
  have v3 := vis_addTask (t := .use n c1 tag false) (r := .loc) v1 trivial h3
  rcases r1 with l | o
  · simp only; rw [h3]; exact ⟨_, _, rfl, v3⟩
  · cases o
    · exact ⟨_, _, rfl, v1⟩
    · simp only; rw [h3]; exact ⟨_, _, rfl, v3⟩

/-- a rescheduled `.du32`: no panic; it never adds a local task, and one that is already global adds none at all;
whatever it adds to the global list is a `.du32` rescheduled for the includer / `finalize` -/
theorem runUse_ok {s : State} (n : Bytes) (c : Option Int) (tag : Nat) (g : Bool) (hv : Vis s)
    (hd : s.depth ≠ 0 → s.locals.isSome) :
    ∃ s' r, runUse s n c tag g = .ok (s', r) ∧ Vis s' ∧ s'.localTasks = s.localTasks ∧
      (g = true → s'.globalTasks = s.globalTasks) ∧
      (∃ add, s'.globalTasks = s.globalTasks ++ add ∧ ∀ x ∈ add, x.isGU) := by
  obtain ⟨s1, r1, c1, h1, v1, lt1, gt1⟩ := applyUse_ok n c tag (if g then 2 else 1) false hv hd
  unfold runUse
  rw [h1]
  rcases r1 with l | o
  · exact ⟨_, _, rfl, v1, lt1, fun _ => gt1, [], by simp [gt1], by simp⟩
  · cases o
    · exact ⟨_, _, rfl, v1, lt1, fun _ => gt1, [], by simp [gt1], by simp⟩
    · simp only
      cases g with
      | true => exact ⟨_, _, rfl, vis_err v1 _ _, lt1, fun _ => gt1, [], by simp [State.err, gt1], by simp⟩
      | false =>
        refine ⟨_, _, rfl, ?_, lt1, by simp, [.use n c1 tag true], by simp [gt1], by simp [Task.isGU]⟩
        exact vis_addTask (t := .use n c1 tag true) (r := .global) v1 trivial rfl

theorem runTask_ok {s : State} (t : Task) (hv : Vis s) (hd : s.depth ≠ 0 → s.locals.isSome)
    (hl : s.locals = none → t.isGU) (ht : t.ok) :
    ∃ s' r, runTask s t = .ok (s', r) ∧ Vis s' ∧ Eff s s' ∧ s'.localTasks = s.localTasks ∧
      (t.isGU → s'.globalTasks = s.globalTasks) ∧
      (∃ add, s'.globalTasks = s.globalTasks ++ add ∧ ∀ x ∈ add, x.isGU) := by
  cases t with
  | globalCopy n tag =>
    have hls : s.locals.isSome := by
      cases h : s.locals with
      | none => exact (hl h).elim
      | some l => rfl
    obtain ⟨s', r, h, v1, lt, gt⟩ := runGlobalCopy_ok n tag hv hls ht
    exact ⟨s', r, h, v1, eff_runGlobalCopy h, lt, fun _ => gt, [], by simp [gt], by simp⟩
  | use n c tag g =>
    obtain ⟨s', r, h, v1, lt, gt, ga⟩ := runUse_ok n c tag g hv hd
    refine ⟨s', r, h, v1, eff_runUse h, lt, ?_, ga⟩
    intro hg
    cases g with
    | true => exact gt rfl
    | false => exact hg.elim

/-! ## the task loops -/

theorem vis_clearLocal {s : State} (h : Vis s) : Vis { s with localTasks := some [] } :=
  ⟨h.kg, h.kl, h.tg, fun l e x hx => (by cases e; cases hx), h.bot⟩

theorem vis_clearGlobal {s : State} (h : Vis s) : Vis { s with globalTasks := [] } :=
  ⟨h.kg, h.kl, fun x hx => (by cases hx), h.tl, fun _ x hx => (by cases hx)⟩

/-- the `for task in tasks.drain(..)` of `assemble`, inside a file: no panic, no new local task -/
theorem drain_ok : ∀ (ts : List Task) {s : State} (r : Option Level), Vis s → s.locals.isSome →
    (∀ t ∈ ts, t.ok) →
    ∃ s' r', drain s r ts = .ok (s', r') ∧ Vis s' ∧ Eff s s' ∧ s'.localTasks = s.localTasks
  | [], s, r, hv, _, _ => ⟨s, r, rfl, hv, Eff.refl _, rfl⟩
  | t :: ts, s, r, hv, hl, ht => by
    obtain ⟨s1, r1, h1, v1, e1, lt1, _, _⟩ := runTask_ok t hv (fun _ => hl)
      (fun hn => by rw [hn] at hl; cases hl) (ht t (by simp))
    have hl1 : s1.locals.isSome := by rw [optLe_isSome e1.locals]; exact hl
    simp only [drain]
    rw [h1]
    cases r1 with
    | none =>
      obtain ⟨s2, r2, h2, v2, e2, lt2⟩ := drain_ok ts r v1 hl1 (fun x hx => ht x (by simp [hx]))
      exact ⟨s2, r2, h2, v2, e1.trans e2, lt2.trans lt1⟩
    | some lvl =>
      simp only
      split
      · exact ⟨_, _, rfl, v1, e1, lt1⟩
      · obtain ⟨s2, r2, h2, v2, e2, lt2⟩ := drain_ok ts (combine r lvl) v1 hl1 (fun x hx => ht x (by simp [hx]))
        exact ⟨s2, r2, h2, v2, e1.trans e2, lt2.trans lt1⟩

/-- the `while !tasks.is_empty()` of `assemble`: the tasks of a file add no local task, so the second round is
empty and the model's loop bound (any bound ≥ 1) is not reached -/
theorem localLoop_ok (fuel : Nat) {s : State} (r : Option Level) (ts : List Task) (hv : Vis s)
    (hl : s.locals.isSome) (hlt : s.localTasks = some []) (ht : ∀ t ∈ ts, t.ok) :
    ∃ s' r', localLoop (fuel + 1) s r ts = .ok (s', r') ∧ Vis s' ∧ Eff s s' := by
  cases ts with
  | nil => exact ⟨s, r, by simp [localLoop], hv, Eff.refl _⟩
  | cons t ts =>
    obtain ⟨s1, r1, h1, v1, e1, lt1⟩ := drain_ok (t :: ts) r hv hl ht
    have hn : s1.localTasks = some [] := lt1.trans hlt
    have e2 : Eff s1 { s1 with localTasks := some [] } :=
      ⟨rfl, rfl, rfl, optLe_refl _, Table.le_refl _, by simp [hn]⟩
    simp only [localLoop]
    rw [h1]
    simp only [hn]
    split
    · exact ⟨_, _, rfl, vis_clearLocal v1, e1.trans e2⟩
    · cases fuel <;> exact ⟨{ s1 with localTasks := some [] }, r1, by simp [localLoop], vis_clearLocal v1, e1.trans e2⟩

/-- the `for task in tasks.drain(..)` of `finalize` -/
theorem drainFinal_ok : ∀ (ts : List Task) {s : State}, Vis s → (s.depth ≠ 0 → s.locals.isSome) →
    (s.locals = none → ∀ t ∈ ts, t.isGU) → (∀ t ∈ ts, t.ok) →
    ∃ s' b, drainFinal s ts = .ok (s', b) ∧ Vis s' ∧ Eff s s' ∧
      (∃ add, s'.globalTasks = s.globalTasks ++ add ∧ ∀ x ∈ add, x.isGU) ∧
      ((∀ t ∈ ts, t.isGU) → s'.globalTasks = s.globalTasks)
  | [], s, hv, _, _, _ => ⟨s, false, rfl, hv, Eff.refl _, ⟨[], by simp, by simp⟩, fun _ => rfl⟩
  | t :: ts, s, hv, hd, hl, ht => by
    obtain ⟨s1, r1, h1, v1, e1, _, gu1, add1, ha1, hg1⟩ := runTask_ok t hv hd
      (fun hn => hl hn t (by simp)) (ht t (by simp))
    have hd1 : s1.depth ≠ 0 → s1.locals.isSome := by
      rw [e1.depth, optLe_isSome e1.locals]; exact hd
    have hl1 : s1.locals = none → ∀ x ∈ ts, x.isGU := by
      intro hn x hx
      have : s.locals = none := by
        have := optLe_isSome e1.locals
        rw [hn] at this
        cases h : s.locals with
        | none => rfl
        | some l => rw [h] at this; cases this
      exact hl this x (by simp [hx])
    simp only [drainFinal]
    rw [h1]
    have rest : ∃ s' b, drainFinal s1 ts = .ok (s', b) ∧ Vis s' ∧ Eff s s' ∧
        (∃ add, s'.globalTasks = s.globalTasks ++ add ∧ ∀ x ∈ add, x.isGU) ∧
        ((∀ t' ∈ t :: ts, t'.isGU) → s'.globalTasks = s.globalTasks) := by
      obtain ⟨s2, b2, h2, v2, e2, ⟨add2, ha2, hg2⟩, gu2⟩ := drainFinal_ok ts v1 hd1 hl1 (fun x hx => ht x (by simp [hx]))
      refine ⟨s2, b2, h2, v2, e1.trans e2, ⟨add1 ++ add2, by rw [ha2, ha1, List.append_assoc], ?_⟩, ?_⟩
      · intro x hx
        rcases List.mem_append.1 hx with hx | hx
        · exact hg1 x hx
        · exact hg2 x hx
      · intro hall
        rw [gu2 (fun x hx => hall x (by simp [hx])), gu1 (hall t (by simp))]
    cases r1 with
    | none => exact rest
    | some lvl =>
      cases lvl with
      | trivial => exact rest
      | fatal => exact ⟨_, _, rfl, v1, e1, ⟨add1, ha1, hg1⟩, fun hall => gu1 (hall t (by simp))⟩

/-- a round of `finalize` that runs only rescheduled `.du32`s adds nothing: the loop ends -/
theorem finalLoop_gu (fuel : Nat) {s : State} (ts : List Task) (hv : Vis s) (hd : s.depth ≠ 0 → s.locals.isSome)
    (hg : s.globalTasks = []) (ht : ∀ t ∈ ts, t.isGU) :
    ∃ s' b, finalLoop (fuel + 1) s ts = .ok (s', b) ∧ Vis s' ∧ Eff s s' := by
  cases ts with
  | nil => exact ⟨s, false, by simp [finalLoop], hv, Eff.refl _⟩
  | cons t ts =>
    obtain ⟨s1, b1, h1, v1, e1, _, gu1⟩ := drainFinal_ok (t :: ts) hv hd (fun _ => ht)
      (fun x hx => Task.ok_of_isGU (ht x hx))
    have hn : s1.globalTasks = [] := (gu1 ht).trans hg
    have e2 : Eff s1 { s1 with globalTasks := [] } := ⟨rfl, rfl, rfl, optLe_refl _, Table.le_refl _, rfl⟩
    simp only [finalLoop]
    rw [h1]
    simp only [hn]
    split
    · exact ⟨_, _, rfl, vis_clearGlobal v1, e1.trans e2⟩
    · cases fuel <;> exact ⟨{ s1 with globalTasks := [] }, false, by simp [finalLoop], vis_clearGlobal v1, e1.trans e2⟩

/-- the `while !tasks.is_empty()` of `finalize`: the first round can only add rescheduled `.du32`s, the second round
adds nothing, so a bound of 3 (any bound ≥ 2) is not reached -/
theorem finalLoop_ok (fuel : Nat) {s : State} (ts : List Task) (hv : Vis s) (hd : s.depth ≠ 0 → s.locals.isSome)
    (hg : s.globalTasks = []) (hl : s.locals = none → ∀ t ∈ ts, t.isGU) (ht : ∀ t ∈ ts, t.ok) :
    ∃ s' b, finalLoop (fuel + 2) s ts = .ok (s', b) ∧ Vis s' ∧ Eff s s' := by
  cases ts with
  | nil => exact ⟨s, false, by simp [finalLoop], hv, Eff.refl _⟩
  | cons t ts =>
    obtain ⟨s1, b1, h1, v1, e1, ⟨add, ha, hga⟩, _⟩ := drainFinal_ok (t :: ts) hv hd hl ht
    have e2 : Eff s1 { s1 with globalTasks := [] } := ⟨rfl, rfl, rfl, optLe_refl _, Table.le_refl _, rfl⟩
    have hd2 : ({ s1 with globalTasks := [] } : State).depth ≠ 0 →
        ({ s1 with globalTasks := [] } : State).locals.isSome := by
      show s1.depth ≠ 0 → s1.locals.isSome
      rw [e1.depth, optLe_isSome e1.locals]; exact hd
    simp only [finalLoop]
    rw [h1]
    simp only
    split
    · exact ⟨_, _, rfl, vis_clearGlobal v1, e1.trans e2⟩
    · have hnext : s1.globalTasks = add := by rw [ha, hg]; rfl
      rw [hnext]
      obtain ⟨s3, b3, h3, v3, e3⟩ := finalLoop_gu fuel add (vis_clearGlobal v1) hd2 rfl hga
      exact ⟨s3, b3, h3, v3, e1.trans (e2.trans e3)⟩

/-! ## the invariant of reachable states -/

/-- the live `PathFrame`s, innermost first: frame number `k` (counted from the root file = 1) carries `count = k`, saved a
task list exactly when it has an outer frame, its saved table has no register key, its saved closures are well formed,
and the list saved by frame 2 — the real global list — holds only rescheduled `.du32`s -/
def framesInv : List Saved → Prop
  | [] => True
  | f :: fs => f.count = fs.length + 1 ∧ (f.tasks.isSome ↔ fs ≠ []) ∧ (∀ l, f.constants = some l → l.keysOk) ∧
      (∀ l, f.tasks = some l → ∀ t ∈ l, t.ok) ∧ (fs.length = 1 → ∀ l, f.tasks = some l → ∀ t ∈ l, t.isGU) ∧
      framesInv fs

/-- every guard of a panic site is implied by this -/
structure Inv (s : State) : Prop where
  opn : Open s
  lt : s.localTasks.isSome ↔ s.frames ≠ []
  depth : s.depth = s.frames.length
  fr : framesInv s.frames
  vis : Vis s

theorem inv_init : Inv init :=
  ⟨open_init, by simp [init], rfl, trivial,
   ⟨fun _ _ => rfl, fun l e => (by cases e), fun t ht => (by cases ht), fun l e => (by cases e),
    fun _ t ht => (by cases ht)⟩⟩

theorem inv_of_eff {s s' : State} (h : Inv s) (e : Eff s s') (v : Vis s') : Inv s' :=
  ⟨open_of_eff h.opn e, by rw [e.ltasks, e.frames]; exact h.lt, by rw [e.depth, e.frames]; exact h.depth,
   by rw [e.frames]; exact h.fr, v⟩

theorem inv_mode {s : State} (h : Inv s) (m : Mode) : Inv { s with mode := m } :=
  ⟨⟨h.opn.locals, h.opn.frames⟩, h.lt, h.depth, h.fr, vis_mode h.vis m⟩

theorem Inv.inFile {s : State} (h : Inv s) (hf : s.frames ≠ []) : InFile s :=
  ⟨h.opn.locals.2 hf, h.lt.2 hf⟩

theorem inv_enterFile {s : State} (h : Inv s) (tag : Nat) : Inv (enterFile s tag) := by
  refine ⟨open_enterFile h.opn tag, by simp [enterFile], by simp [enterFile, h.depth], ?_, ?_⟩
  · -- the new frame
    show framesInv (_ :: s.frames)
    refine ⟨by simp [h.depth], ?_, ?_, ?_, ?_, h.fr⟩
    · have := h.lt
      cases hl : s.localTasks <;> simp [hl] at this ⊢ <;> exact this
    · intro l hl
      cases hc : s.locals with
      | none => simp [hc] at hl
      | some c => simp [hc] at hl; subst hl; exact h.vis.kg
    · intro l hl
      cases hc : s.localTasks with
      | none => simp [hc] at hl
      | some c => simp [hc] at hl; subst hl; exact h.vis.tg
    · intro h1 l hl
      cases hc : s.localTasks with
      | none => simp [hc] at hl
      | some c => simp [hc] at hl; subst hl; exact h.vis.bot (by omega)
  · constructor
    · show Table.keysOk (match s.locals with | none => (s.globals, none) | some c => (c, some s.globals)).1
      cases hc : s.locals with
      | none => exact h.vis.kg
      | some c => exact h.vis.kl c hc
    · intro l e
      have : l = [] := by simpa [enterFile] using e.symm
      subst this; exact Table.keysOk_nil
    · show ∀ t ∈ (match s.localTasks with | none => (s.globalTasks, none) | some t => (t, some s.globalTasks)).1, t.ok
      cases hc : s.localTasks with
      | none => exact h.vis.tg
      | some c => exact h.vis.tl c hc
    · intro l e x hx
      have : l = [] := by simpa [enterFile] using e.symm
      subst this; cases hx
    · intro hlen
      have hfe : s.frames = [] := by
        have : (enterFile s tag).frames.length = s.frames.length + 1 := by simp [enterFile]
        rw [this] at hlen
        exact List.eq_nil_of_length_eq_zero (by omega)
      have hlt : s.localTasks = none := by
        have := h.lt
        cases hc : s.localTasks with
        | none => rfl
        | some c => rw [hc, hfe] at this; simp at this
      show ∀ t ∈ (match s.localTasks with | none => (s.globalTasks, none) | some t => (t, some s.globalTasks)).1, t.isGU
      rw [hlt]
      exact h.vis.bot (by simp [hfe])

/-- `PathFrame::into_inner` in a reachable state: the `assert_eq!` holds, the `pop().unwrap()` finds a path -/
theorem intoInner_ok {s : State} {f : Saved} {fs : List Saved} (h : Inv s) (hf : s.frames = f :: fs) :
    ∃ s', intoInner s f fs = .ok s' ∧ Inv s' := by
  have hfr := h.fr
  rw [hf] at hfr
  obtain ⟨hcount, htasks, hkeys, htok, hgu, hrest⟩ := hfr
  have hd : s.depth = fs.length + 1 := by rw [h.depth, hf]; rfl
  have hop := h.opn.frames
  rw [hf] at hop
  obtain ⟨hconst, hoprest⟩ := hop
  unfold intoInner
  rw [if_neg (by rw [hd, hcount]; simp)]
  rw [hd]
  simp only
  refine ⟨_, rfl, ?_⟩
  cases fs with
  | nil =>
    have hc : f.constants = none := by
      cases hc : f.constants with
      | none => rfl
      | some c => rw [hc] at hconst; simp at hconst
    have ht : f.tasks = none := by
      cases ht : f.tasks with
      | none => rfl
      | some c => rw [ht] at htasks; simp at htasks
    rw [hc, ht]
    exact ⟨⟨by simp, trivial⟩, by simp, rfl, trivial,
      ⟨h.vis.kg, fun l e => (by cases e), h.vis.tg, fun l e => (by cases e),
       fun _ => h.vis.bot (by rw [hf]; simp)⟩⟩
  | cons g gs =>
    obtain ⟨c, hc⟩ := Option.isSome_iff_exists.1 (hconst.2 (by simp))
    obtain ⟨t, ht⟩ := Option.isSome_iff_exists.1 (htasks.2 (by simp))
    rw [hc, ht]
    refine ⟨⟨by simp, hoprest⟩, by simp, rfl, hrest, ?_⟩
    refine ⟨hkeys c hc, fun l e => (by cases e; exact h.vis.kg), htok t ht,
      fun l e => (by cases e; exact h.vis.tg), ?_⟩
    intro hlen
    have : gs.length = 0 := by simpa using hlen
    exact hgu (by simp [this]) t ht

/-- leaving a file from a reachable state does not panic -/
theorem exitFile_ok {s : State} (r : Option Level) (h : Inv s) : ∃ s', exitFile s r = .ok s' ∧ Inv s' := by
  unfold exitFile
  cases hf : s.frames with
  | nil => exact ⟨s, rfl, h⟩
  | cons f fs =>
    simp only
    have hin : InFile s := h.inFile (by simp [hf])
    obtain ⟨tasks, htasks⟩ := Option.isSome_iff_exists.1 hin.ltasks
    have tail : ∀ {mid : State} (r' : Option Level), Inv mid → mid.frames = f :: fs →
        ∀ {s2 : State}, intoInner mid f fs = .ok s2 → Inv s2 →
        ∃ s', (match r', fs with
          | some _, _ :: _ => Except.ok { (s2.err f.tag .asmFailed) with mode := .stopped .fatal 0 }
          | _, _ => (.ok { s2 with mode := .running } : Except Panic State)) = .ok s' ∧ Inv s' := by
      intro mid r' _ _ s2 _ i2
      split
      · exact ⟨_, rfl, inv_mode (inv_of_eff i2 (eff_err _ _ _) (vis_err i2.vis _ _)) _⟩
      · exact ⟨_, rfl, inv_mode i2 _⟩
    by_cases hr : r = some .fatal
    · simp only [hr, if_true]
      obtain ⟨s2, h2, i2⟩ := intoInner_ok h hf
      rw [h2]
      exact tail _ h hf h2 i2
    · simp only [hr, if_false, htasks]
      have e0 : Eff s { s with localTasks := some [], frames := f :: fs } :=
        ⟨rfl, hf.symm, rfl, optLe_refl _, Table.le_refl _, by simp [htasks]⟩
      have v0 : Vis ({ s with localTasks := some [], frames := f :: fs } : State) := by
        have := vis_clearLocal h.vis
        rw [← hf]; exact this
      obtain ⟨mid, r', hl, vm, em⟩ := localLoop_ok 1 (s := { s with localTasks := some [], frames := f :: fs })
        r tasks v0 hin.locals rfl (h.vis.tl tasks htasks)
      have im : Inv mid := inv_of_eff h (e0.trans em) vm
      have hfm : mid.frames = f :: fs := by rw [(e0.trans em).frames, hf]
      rw [hl]
      simp only
      obtain ⟨s2, h2, i2⟩ := intoInner_ok im hfm
      rw [h2]
      exact tail _ im hfm h2 i2

/-- `finalize` from a reachable state does not panic -/
theorem finalize_ok {s : State} (h : Inv s) : ∃ s', finalize s = .ok s' ∧ Inv s' := by
  have hd : s.depth ≠ 0 → s.locals.isSome := by
    intro hd
    apply h.opn.locals.2
    intro hf
    rw [h.depth, hf] at hd
    exact hd rfl
  have hl : s.locals = none → ∀ t ∈ s.globalTasks, t.isGU := by
    intro hn
    have hf : s.frames = [] := by
      cases hf : s.frames with
      | nil => rfl
      | cons f fs =>
        have := h.opn.locals.2 (by simp [hf])
        rw [hn] at this; cases this
    exact h.vis.bot (by simp [hf])
  have e0 : Eff s { s with globalTasks := [] } := ⟨rfl, rfl, rfl, optLe_refl _, Table.le_refl _, rfl⟩
  obtain ⟨s1, b, h1, v1, e1⟩ := finalLoop_ok 1 (s := { s with globalTasks := [] }) s.globalTasks
    (vis_clearGlobal h.vis) hd rfl hl h.vis.tg
  unfold finalize
  rw [h1]
  exact ⟨_, rfl, inv_of_eff h (e0.trans (e1.trans (eff_log _ _))) (vis_log v1 _)⟩

theorem stmt_ok {s : State} (op : Op) (h : Inv s) (hf : s.frames ≠ []) :
    ∃ s' r, stmt s op = .ok (s', r) ∧ Inv s' := by
  have hin := h.inFile hf
  have key : ∀ {s' r}, stmt s op = .ok (s', r) → Vis s' → Inv s' :=
    fun hs v => inv_of_eff h (eff_stmt hs) v
  cases op with
  | label n v tag => obtain ⟨s', r, hs, v'⟩ := doLabel_ok n v tag h.vis hin; exact ⟨s', r, hs, key hs v'⟩
  | const n v tag => obtain ⟨s', r, hs, v'⟩ := doConst_ok n v tag h.vis hin; exact ⟨s', r, hs, key hs v'⟩
  | global n tag => obtain ⟨s', r, hs, v'⟩ := doGlobal_ok n tag h.vis hin; exact ⟨s', r, hs, key hs v'⟩
  | «import» n tag => obtain ⟨s', r, hs, v'⟩ := doImport_ok n tag h.vis hin; exact ⟨s', r, hs, key hs v'⟩
  | «export» n tag => obtain ⟨s', r, hs, v'⟩ := doExport_ok n tag h.vis hin; exact ⟨s', r, hs, key hs v'⟩
  | use n tag => obtain ⟨s', r, hs, v'⟩ := doUse_ok n tag h.vis hin; exact ⟨s', r, hs, key hs v'⟩
  | enter tag => exact ⟨s, none, rfl, h⟩
  | exit => exact ⟨s, none, rfl, h⟩
  | finalize => exact ⟨s, none, rfl, h⟩

/-- one op from a state satisfying the invariant: no panic, and the invariant holds again -/
theorem step_ok {s : State} (op : Op) (h : Inv s) : ∃ s', step s op = .ok s' ∧ Inv s' := by
  cases hm : s.mode with
  | stopped l k =>
    cases op <;> cases k <;> simp only [step, hm]
    all_goals first
      | exact exitFile_ok _ h
      | exact ⟨_, rfl, h⟩
      | exact ⟨_, rfl, inv_mode h _⟩
  | running =>
    have stmtCase : ∃ s', (match s.frames with
        | [] => Except.ok s
        | _ :: _ =>
          match stmt s op with
          | .error p => .error p
          | .ok (s, none) => .ok s
          | .ok (s, some l) => .ok { s with mode := .stopped l 0 }) = Except.ok s' ∧ Inv s' := by
      cases hf : s.frames with
      | nil => exact ⟨s, rfl, h⟩
      | cons f fs =>
        obtain ⟨s', r, hs, i'⟩ := stmt_ok op h (by simp [hf])
        simp only
        rw [hs]
        cases r with
        | none => exact ⟨_, rfl, i'⟩
        | some l => exact ⟨_, rfl, inv_mode i' _⟩
    cases op with
    | enter tag => simp only [step, hm]; exact ⟨_, rfl, inv_enterFile h tag⟩
    | exit => simp only [step, hm]; exact exitFile_ok _ h
    | finalize => simp only [step, hm]; exact finalize_ok h
    | label n v tag => simp only [step, hm]; exact stmtCase
    | const n v tag => simp only [step, hm]; exact stmtCase
    | global n tag => simp only [step, hm]; exact stmtCase
    | «import» n tag => simp only [step, hm]; exact stmtCase
    | «export» n tag => simp only [step, hm]; exact stmtCase
    | use n tag => simp only [step, hm]; exact stmtCase

theorem run_ok : ∀ (ops : List Op) {s : State}, Inv s → ∃ s', run s ops = .ok s' ∧ Inv s'
  | [], s, h => ⟨s, rfl, h⟩
  | op :: ops, s, h => by
    obtain ⟨s1, h1, i1⟩ := step_ok op h
    obtain ⟨s2, h2, i2⟩ := run_ok ops i1
    exact ⟨s2, by simp only [run]; rw [h1]; exact h2, i2⟩

end Trion.Scope
