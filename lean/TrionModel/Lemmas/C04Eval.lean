import TrionModel.Spec.C04
import TrionModel.Lemmas.SimpSound7
import TrionModel.Lemmas.SimpE
import TrionModel.Lemmas.SimpRetry
import TrionModel.Lemmas.SimpClosed
/-!
# C04 closed: the concrete evaluator (`Simp.evaluate`) on the operand forms of the documented syntax

`EvalSimp eval lk`: `eval` IS `Simp.evaluate` over the table `lk` (with `Arm6M::is_register`), presented as the
`EvalOut` function `Front.assemble` takes.  Facts:

* `evaluate_valued`: all names defined ⇒ never `NoSuchVariable`;
* `value_evaluate` / `evaluate_value`: a constant comes out exactly when the specification's `value` is that number;
* `expr_const`: a register-free expression evaluates to a constant (or an error);
* `addr_sound` / `addr_complete`: `[…]` operands.
-/
namespace Trion.C04
open Trion Trion.Front Trion.Simp

/-- `eval` is the concrete evaluator over `lk` -/
structure EvalSimp (eval : Arg → EvalOut) (lk : Bytes → Lookup) : Prop where
  ok : ∀ x ev a', evaluate lk isRegister x = .ok (ev, a') →
        (ev.cause = none → eval x = .complete a') ∧ (∀ c, ev.cause = some c → eval x = .deferred c a')
  nosuch : ∀ x n, evaluate lk isRegister x = .err (.noSuchVar n) → ∃ a'', eval x = .noSuchVariable n a''
  err : ∀ x e, evaluate lk isRegister x = .err (.simp e) → ∃ e' a'', eval x = .error e' a''

/-- the symbol table a lookup function represents -/
abbrev tab (lk : Bytes → Lookup) : SymTable := envOf lk

theorem evaluate_iff_E (lk : Bytes → Lookup) (a : Arg) (ev : Ev) (a' : Arg) :
    evaluate lk isRegister a = .ok (ev, a') ↔ evaluateE lk isRegister a = .ok ev a' := by
  have h1 := evaluateE_is_evaluateT lk isRegister a
  have h2 := (evaluateT_proj_both lk isRegister).1 a
  cases hE : evaluateE lk isRegister a with
  | ok ev2 a2 =>
    rw [hE] at h1; simp only [EvE.toT] at h1
    rw [← h1] at h2; simp only [EvT.toERes] at h2
    rw [← h2]; simp
  | nosuch n a2 =>
    rw [hE] at h1; simp only [EvE.toT] at h1
    rw [← h1] at h2; simp only [EvT.toERes] at h2
    rw [← h2]; simp
  | err e a2 =>
    rw [hE] at h1; simp only [EvE.toT] at h1
    rw [← h1] at h2; simp only [EvT.toERes] at h2
    rw [← h2]; simp
  | panic =>
    rw [hE] at h1; simp only [EvE.toT] at h1
    rw [← h1] at h2; simp only [EvT.toERes] at h2
    rw [← h2]; simp

theorem cause_none {lk : Bytes → Lookup} (hn : NoDef lk) {a : Arg} {ev : Ev} {a' : Arg}
    (h : evaluate lk isRegister a = .ok (ev, a')) : ev.cause = none :=
  evaluateE_cause_none hn ((evaluate_iff_E lk a ev a').1 h)

/-! ## unfolding `evaluate` one level -/

theorem afterRaw_noSuch (ev : Ev) (a : Arg) (n : Bytes) : afterRaw ev a ≠ .err (.noSuchVar n) := by
  unfold afterRaw; cases simplifyRaw a <;> simp

theorem evaluate_bin (lk : Bytes → Lookup) (isReg : Bytes → Bool) (op : BinOp) (l r : Arg) :
    evaluate lk isReg (.bin op l r) =
      match evaluate lk isReg l with
      | .ok (e1, l') =>
        match evaluate lk isReg r with
        | .ok (e2, r') => afterRaw (e1.or e2) (.bin op l' r')
        | .err e => .err e
        | .panic => .panic
      | .err e => .err e
      | .panic => .panic := by
  simp only [evaluate] <;> rfl

theorem evaluate_addr (lk : Bytes → Lookup) (isReg : Bytes → Bool) (x : Arg) :
    evaluate lk isReg (.addr x) =
      match evaluate lk isReg x with
      | .ok (e1, x') => if isBad x' then .err (.simp (.badType x'.ty .addr)) else .ok (e1.or ⟨false, none⟩, .addr x')
      | .err e => .err e
      | .panic => .panic := by
  simp only [evaluate]
  cases evaluate lk isReg x with
  | ok p =>
    obtain ⟨e1, x'⟩ := p
    by_cases hb : isBad x' = true <;> simp [afterRaw, simplifyRaw, hb]
  | err e => rfl
  | panic => rfl

/-! ## no `NoSuchVariable` when every name is defined -/

theorem valued_lookup {lk : Bytes → Lookup} {s : Bytes} (h : valued (tab lk) (.ident s) = true) (hr : isRegister s = false) :
    ∃ v, lk s = .found v := by
  simp only [valued, hr, Bool.false_or, tab, envOf] at h
  cases hl : lk s with
  | found v => exact ⟨v, rfl⟩
  | notFound => simp [hl] at h
  | deferred => simp [hl] at h

theorem evaluate_valued (lk : Bytes → Lookup) :
    (∀ a, valued (tab lk) a = true → ∀ n, evaluate lk isRegister a ≠ .err (.noSuchVar n)) ∧
    (∀ as, valuedArgs (tab lk) as = true → ∀ n, evaluateArgs lk isRegister as ≠ .err (.noSuchVar n)) := by
  apply Arg.ind2
  case const => intro v _ n; simp [evaluate]
  case ident =>
    intro s hv n
    simp only [evaluate]
    split
    · simp
    · rename_i hr
      obtain ⟨v, hl⟩ := valued_lookup hv (by simpa using hr)
      simp [hl]
  case str => intro s _ n; simp [evaluate]
  case bin =>
    intro op l r ihl ihr hv n
    simp only [valued, Bool.and_eq_true] at hv
    rw [evaluate_bin]
    have h1 := ihl hv.1 n
    have h2 := ihr hv.2 n
    cases hl : evaluate lk isRegister l with
    | ok p =>
      simp only
      cases hr : evaluate lk isRegister r with
      | ok q => exact afterRaw_noSuch _ _ n
      | err e => exact fun hq => h2 (by rw [hr]; injection hq with hq; rw [hq])
      | panic => simp
    | err e => exact fun hq => h1 (by rw [hl]; injection hq with hq; rw [hq])
    | panic => simp
  case neg =>
    intro a ih hv n
    simp only [valued] at hv
    simp only [evaluate]
    have h1 := ih hv n
    cases hl : evaluate lk isRegister a with
    | ok p => exact afterRaw_noSuch _ _ n
    | err e => exact fun hq => h1 (by rw [hl]; injection hq with hq; rw [hq])
    | panic => simp
  case not =>
    intro a ih hv n
    simp only [valued] at hv
    simp only [evaluate]
    have h1 := ih hv n
    cases hl : evaluate lk isRegister a with
    | ok p => exact afterRaw_noSuch _ _ n
    | err e => exact fun hq => h1 (by rw [hl]; injection hq with hq; rw [hq])
    | panic => simp
  case addr =>
    intro a ih hv n
    simp only [valued] at hv
    simp only [evaluate]
    have h1 := ih hv n
    cases hl : evaluate lk isRegister a with
    | ok p => exact afterRaw_noSuch _ _ n
    | err e => exact fun hq => h1 (by rw [hl]; injection hq with hq; rw [hq])
    | panic => simp
  case seq =>
    intro as ih hv n
    simp only [valued] at hv
    simp only [evaluate]
    have h1 := ih hv n
    cases hl : evaluateArgs lk isRegister as with
    | ok p => simp
    | err e => exact fun hq => h1 (by rw [hl]; injection hq with hq; rw [hq])
    | panic => simp
  case func =>
    intro f as ih hv n
    simp only [valued] at hv
    simp only [evaluate]
    have h1 := ih hv n
    cases hl : evaluateArgs lk isRegister as with
    | ok p => simp
    | err e => exact fun hq => h1 (by rw [hl]; injection hq with hq; rw [hq])
    | panic => simp
  case nil => intro _ n; simp [evaluateArgs]
  case cons =>
    intro a as iha ihas hv n
    simp only [valuedArgs, Bool.and_eq_true] at hv
    simp only [evaluateArgs]
    have h1 := iha hv.1 n
    have h2 := ihas hv.2 n
    cases hl : evaluate lk isRegister a with
    | ok p =>
      simp only
      cases hr : evaluateArgs lk isRegister as with
      | ok q => simp
      | err e => exact fun hq => h2 (by rw [hr]; injection hq with hq; rw [hq])
      | panic => simp
    | err e => exact fun hq => h1 (by rw [hl]; injection hq with hq; rw [hq])
    | panic => simp

/-- with every name defined and no deferred entries, the evaluator either completes or reports an error -/
theorem eval_cases {eval : Arg → EvalOut} {lk : Bytes → Lookup} (hE : EvalSimp eval lk) (hn : NoDef lk)
    (a : Arg) (hv : valued (tab lk) a = true) :
    (∃ ev a', evaluate lk isRegister a = .ok (ev, a') ∧ eval a = .complete a') ∨ (∃ e a'', eval a = .error e a'') := by
  cases h : evaluate lk isRegister a with
  | ok p =>
    obtain ⟨ev, a'⟩ := p
    exact .inl ⟨ev, a', rfl, (hE.ok a ev a' h).1 (cause_none hn h)⟩
  | err e =>
    cases e with
    | noSuchVar n => exact absurd h ((evaluate_valued lk).1 a hv n)
    | simp e => exact .inr (hE.err a e h)
  | panic => exact absurd h ((evaluate_inv_both lk isRegister).1 a).1

/-! ## constants -/

theorem consistent_env (lk : Bytes → Lookup) : consistent lk isRegister (env (tab lk)) := by
  intro s v hr hl
  simp [env, hr, tab, envOf, hl]

theorem litsOk_of_lits : ∀ a, lits a = true → litsOk a = true := by
  apply Arg.ind
  case const => intro v h; simpa [lits, litsOk] using h
  case ident => intro s _; rfl
  case str => intro s _; rfl
  case bin => intro op l r ihl ihr h; simp only [lits, Bool.and_eq_true] at h; simp [litsOk, ihl h.1, ihr h.2]
  case neg => intro a ih h; simp only [lits] at h; simp [litsOk, ih h]
  case not => intro a ih h; simp only [lits] at h; simp [litsOk, ih h]
  case addr => intro a _ _; rfl
  case seq => intro as _; rfl
  case func => intro n as _; rfl

/-- a constant delivered by the evaluator is the specification's value -/
theorem evaluate_value {lk : Bytes → Lookup} (hT : Simp.tableOk lk) {a : Arg} (hl : lits a = true) {ev : Ev} {w : Int}
    (h : evaluate lk isRegister a = .ok (ev, .const w)) : value (tab lk) a = some w :=
  evaluate_const_valC lk isRegister _ (consistent_env lk) hT a ev w (litsOk_of_lits a hl) h

/-- the specification's value is delivered by the evaluator -/
theorem value_evaluate (lk : Bytes → Lookup) : ∀ (a : Arg) (v : Int), value (tab lk) a = some v →
    ∃ ev, evaluate lk isRegister a = .ok (ev, .const v) := by
  apply Arg.ind
  case const =>
    intro w v h
    simp only [value, valC] at h
    obtain ⟨_, rfl⟩ := checked_eq_some.1 h
    exact ⟨⟨false, none⟩, by simp [evaluate]⟩
  case ident =>
    intro s v h
    simp only [value, valC, env] at h
    by_cases hr : isRegister s = true
    · simp [hr] at h
    · simp only [hr, Bool.false_eq_true, if_false, tab, envOf] at h
      cases hl : lk s with
      | found w =>
        simp only [hl, Option.bind_some] at h
        obtain ⟨_, rfl⟩ := checked_eq_some.1 h
        exact ⟨⟨true, none⟩, by simp [evaluate, hr, hl]⟩
      | notFound => simp [hl] at h
      | deferred => simp [hl] at h
  case str => intro s v h; simp [value, valC] at h
  case bin =>
    intro op l r ihl ihr v h
    simp only [value, valC] at h
    cases hvl : valC (env (tab lk)) l with
    | none => simp [hvl, liftBin] at h
    | some x =>
      cases hvr : valC (env (tab lk)) r with
      | none => simp [hvl, hvr, liftBin] at h
      | some y =>
        simp only [hvl, hvr, liftBin, opC] at h
        obtain ⟨e1, h1⟩ := ihl x hvl
        obtain ⟨e2, h2⟩ := ihr y hvr
        rw [evaluate_bin, h1, h2]
        simp only [afterRaw, simplifyRaw_fold_consts]
        cases hf : foldBin op x y with
        | ok w => simp only [hf] at h; cases h; exact ⟨_, rfl⟩
        | error k => simp [hf] at h
  case neg =>
    intro a ih v h
    simp only [value, valC] at h
    cases hva : valC (env (tab lk)) a with
    | none => simp [hva] at h
    | some x =>
      simp only [hva, Option.bind_some, checkedNeg] at h
      obtain ⟨hin, rfl⟩ := checked_eq_some.1 h
      obtain ⟨e1, h1⟩ := ih x hva
      have hx : x ≠ i64Min := by
        intro hx; subst hx; revert hin; decide
      simp only [evaluate, h1, afterRaw, simplifyRaw, hx, if_false]
      exact ⟨_, rfl⟩
  case not =>
    intro a ih v h
    simp only [value, valC] at h
    cases hva : valC (env (tab lk)) a with
    | none => simp [hva] at h
    | some x =>
      simp only [hva, Option.map_some, Option.some.injEq] at h
      subst h
      obtain ⟨e1, h1⟩ := ih x hva
      simp only [evaluate, h1, afterRaw, simplifyRaw]
      exact ⟨_, rfl⟩
  case addr => intro a _ v h; simp [value, valC] at h
  case seq => intro as v h; simp [value, valC] at h
  case func => intro n as v h; simp [value, valC] at h

theorem expr_arith : ∀ a, expr a = arith isRegister a := by
  apply Arg.ind
  case const => intro v; rfl
  case ident => intro s; rfl
  case str => intro s; rfl
  case bin => intro op l r ihl ihr; simp [expr, arith, ihl, ihr]
  case neg => intro a ih; simp [expr, arith, ih]
  case not => intro a ih; simp [expr, arith, ih]
  case addr => intro a _; rfl
  case seq => intro as; rfl
  case func => intro n as; rfl

/-- a register-free expression evaluates to a constant (if it evaluates) -/
theorem expr_const {lk : Bytes → Lookup} (hn : NoDef lk) {a : Arg} (he : expr a = true) {ev : Ev} {a' : Arg}
    (h : evaluate lk isRegister a = .ok (ev, a')) : ∃ v, a' = .const v :=
  arith_const lk isRegister hn a (by rw [← expr_arith]; exact he) ev a' ((evaluate_iff_E lk a ev a').1 h)

/-- a value exists only for register-free expressions … -/
theorem value_expr (T : SymTable) : ∀ (a : Arg) (v : Int), value T a = some v → expr a = true := by
  apply Arg.ind
  case const => intro w v _; rfl
  case ident =>
    intro s v h
    simp only [value, valC, env] at h
    by_cases hr : isRegister s = true
    · simp [hr] at h
    · simp [expr, hr]
  case str => intro s v h; simp [value, valC] at h
  case bin =>
    intro op l r ihl ihr v h
    simp only [value, valC] at h
    cases hvl : valC (env T) l with
    | none => simp [hvl, liftBin] at h
    | some x =>
      cases hvr : valC (env T) r with
      | none => simp [hvl, hvr, liftBin] at h
      | some y => simp [expr, ihl x hvl, ihr y hvr]
  case neg =>
    intro a ih v h
    simp only [value, valC] at h
    cases hva : valC (env T) a with
    | none => simp [hva] at h
    | some x => simp [expr, ih x hva]
  case not =>
    intro a ih v h
    simp only [value, valC] at h
    cases hva : valC (env T) a with
    | none => simp [hva] at h
    | some x => simp [expr, ih x hva]
  case addr => intro a _ v h; simp [value, valC] at h
  case seq => intro as v h; simp [value, valC] at h
  case func => intro n as v h; simp [value, valC] at h

end Trion.C04
