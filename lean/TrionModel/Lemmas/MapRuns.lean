import TrionModel.Lemmas.MapCount
import TrionModel.Spec.DictRuns
/-!
# Memory map: the representation is canonical, and the segment counts of `count` / `count_range` are the
numbers of maximal runs of the dictionary (`Dict.runs`, `Dict.runsIn`)
-/
namespace Trion.Map
open Trion.Dict

/-! ## canonicity -/

/-- what the head segment says about the dictionary -/
theorem abs_head {lo f : Nat} {x : List UInt8} {r : Segs} (ok : Ok lo ((f, x) :: r)) :
    (∀ k, k < f → abs ((f, x) :: r) k = none) ∧
    (∀ i, i < x.length → abs ((f, x) :: r) (f + i) = x[i]?) ∧
    abs ((f, x) :: r) (f + x.length) = none ∧ 0 < x.length := by
  obtain ⟨o1, o2, o3, o4⟩ := ok
  refine ⟨fun k hk => ?_, fun i hi => ?_, ?_, List.length_pos_iff.mpr o2⟩
  · rw [abs_cons, if_neg (by omega)]; exact abs_none_of_lt o4 (by omega)
  · rw [abs_cons, if_pos (by omega), Nat.add_sub_cancel_left]
  · rw [abs_cons, if_neg (by omega)]; exact abs_none_of_lt o4 (by omega)

/-- the first address of the head segment is occupied -/
theorem abs_head_some {lo f : Nat} {x : List UInt8} {r : Segs} (ok : Ok lo ((f, x) :: r)) :
    abs ((f, x) :: r) f ≠ none := by
  obtain ⟨_, p2, _, p4⟩ := abs_head ok
  have e := p2 0 p4
  rw [Nat.add_zero, List.getElem?_eq_getElem p4] at e
  rw [e]; simp

/-- the representation is canonical: two well-formed segment lists denoting the same dictionary are equal -/
theorem ok_canonical {lo : Nat} {ps qs : Segs} (hp : Ok lo ps) (hq : Ok lo qs)
    (h : ∀ k, abs ps k = abs qs k) : ps = qs := by
  induction ps generalizing lo qs with
  | nil =>
    cases qs with
    | nil => rfl
    | cons t qt =>
      obtain ⟨g, y⟩ := t
      exact absurd (h g).symm (abs_head_some hq)
  | cons s r ih =>
    obtain ⟨f, x⟩ := s
    cases qs with
    | nil => exact absurd (h f) (abs_head_some hp)
    | cons t qt =>
      obtain ⟨g, y⟩ := t
      obtain ⟨p1, p2, p3, p4⟩ := abs_head hp
      obtain ⟨q1, q2, q3, q4⟩ := abs_head hq
      have hfg : f = g := by
        rcases Nat.lt_trichotomy f g with c | c | c
        · exact absurd ((h f).trans (q1 f c)) (abs_head_some hp)
        · exact c
        · exact absurd ((h g).symm.trans (p1 g c)) (abs_head_some hq)
      subst hfg
      have hlen : x.length = y.length := by
        rcases Nat.lt_trichotomy x.length y.length with c | c | c
        · exfalso
          have a1 := p3
          rw [h, q2 x.length c, List.getElem?_eq_getElem c] at a1
          simp at a1
        · exact c
        · exfalso
          have a1 := q3
          rw [← h, p2 y.length c, List.getElem?_eq_getElem c] at a1
          simp at a1
      have hxy : x = y := by
        apply List.ext_getElem?
        intro i
        by_cases c : i < x.length
        · rw [← p2 i c, ← q2 i (by omega), h]
        · rw [List.getElem?_eq_none (by omega), List.getElem?_eq_none (by omega)]
      subst hxy
      congr 1
      apply ih hp.2.2.2 hq.2.2.2
      intro k
      by_cases c : k < f + x.length + 1
      · rw [abs_none_of_lt hp.2.2.2 c, abs_none_of_lt hq.2.2.2 c]
      · have hk := h k
        rw [abs_cons, abs_cons, if_neg (by omega), if_neg (by omega)] at hk
        exact hk

theorem minv_canonical_aux {ps qs : Segs} (hp : MInv ps) (hq : MInv qs) (h : abs ps = abs qs) : ps = qs :=
  ok_canonical (lo := 0) hp hq (fun k => congrFun h k)

example : MInv [(1, [1, 2, 3]), (7, [4])] := by
  refine ⟨by omega, by simp, by simp, by simp, by simp, by simp, trivial⟩

/-! ## segments meeting a window = maximal runs meeting it -/

/-- number of segments meeting the half-open window `[lo, e)` -/
def meetSegs : Segs → Nat → Nat → Nat
  | [], _, _ => 0
  | (f, x) :: r, lo, e => (if f < e ∧ lo < f + x.length ∧ lo < e then 1 else 0) + meetSegs r lo e

theorem meetSegs_self (ps : Segs) (lo : Nat) : meetSegs ps lo lo = 0 := by
  induction ps with
  | nil => rfl
  | cons s r ih =>
    obtain ⟨f, x⟩ := s
    simp only [meetSegs]
    rw [ih, if_neg (by omega)]

theorem startsAt_of_none {D : Dict} {lo k : Nat} (h : D k = none) : startsAt D lo k = false := by
  simp [startsAt, h]

theorem startsAt_congr {D E : Dict} {lo k : Nat} (h1 : D k = E k) (h2 : k ≠ lo → D (k - 1) = E (k - 1)) :
    startsAt D lo k = startsAt E lo k := by
  unfold startsAt
  rw [h1]
  by_cases c : k = lo
  · simp [c]
  · rw [h2 c]

/-- extending the window by one address adds a segment exactly when a run starts there -/
theorem meetSegs_succ {l : Nat} {ps : Segs} (ok : Ok l ps) (lo e : Nat) (h : lo ≤ e) :
    meetSegs ps lo (e + 1) = meetSegs ps lo e + (if startsAt (abs ps) lo e = true then 1 else 0) := by
  induction ps generalizing l with
  | nil => simp [meetSegs, startsAt, abs]
  | cons s r ih =>
    obtain ⟨f, x⟩ := s
    obtain ⟨o1, o2, o3, o4⟩ := ok
    have hx : 0 < x.length := List.length_pos_iff.mpr o2
    simp only [meetSegs]
    rw [ih o4]
    -- the two indicator terms of the head segment
    have Ap : (f < e + 1 ∧ lo < f + x.length ∧ lo < e + 1) →
        (if f < e + 1 ∧ lo < f + x.length ∧ lo < e + 1 then 1 else 0 : Nat) = 1 := fun h => if_pos h
    have An : ¬ (f < e + 1 ∧ lo < f + x.length ∧ lo < e + 1) →
        (if f < e + 1 ∧ lo < f + x.length ∧ lo < e + 1 then 1 else 0 : Nat) = 0 := fun h => if_neg h
    have Bp : (f < e ∧ lo < f + x.length ∧ lo < e) →
        (if f < e ∧ lo < f + x.length ∧ lo < e then 1 else 0 : Nat) = 1 := fun h => if_pos h
    have Bn : ¬ (f < e ∧ lo < f + x.length ∧ lo < e) →
        (if f < e ∧ lo < f + x.length ∧ lo < e then 1 else 0 : Nat) = 0 := fun h => if_neg h
    have T : (if (true : Bool) = true then 1 else 0 : Nat) = 1 := rfl
    have F : (if (false : Bool) = true then 1 else 0 : Nat) = 0 := rfl
    by_cases c1 : e < f
    · -- below the head segment: nothing changes
      have a1 : abs ((f, x) :: r) e = none := by
        rw [abs_cons, if_neg (by omega)]; exact abs_none_of_lt o4 (by omega)
      have a2 : abs r e = none := abs_none_of_lt o4 (by omega)
      rw [startsAt_of_none a1, startsAt_of_none a2, An (by omega), Bn (by omega)]; omega
    · by_cases c2 : e < f + x.length
      · -- inside the head segment
        have a2 : abs r e = none := abs_none_of_lt o4 (by omega)
        have a1 : (abs ((f, x) :: r) e).isSome = true := by
          rw [abs_cons, if_pos (by omega), List.getElem?_eq_getElem (by omega)]; rfl
        rw [startsAt_of_none a2, Ap (by omega), F]
        by_cases c3 : e = lo
        · have s1 : startsAt (abs ((f, x) :: r)) lo e = true := by
            unfold startsAt; rw [a1, c3]; simp
          rw [s1, Bn (by omega), T]; omega
        · by_cases c4 : f < e
          · have a3 : (abs ((f, x) :: r) (e - 1)).isNone = false := by
              rw [abs_cons, if_pos (by omega), List.getElem?_eq_getElem (by omega)]; rfl
            have s1 : startsAt (abs ((f, x) :: r)) lo e = false := by
              unfold startsAt; rw [a1, a3]; simp [c3]
            rw [s1, Bp (by omega), F]; omega
          · have a3 : (abs ((f, x) :: r) (e - 1)).isNone = true := by
              rw [abs_cons, if_neg (by omega), abs_none_of_lt o4 (by omega)]; rfl
            have s1 : startsAt (abs ((f, x) :: r)) lo e = true := by
              unfold startsAt; rw [a1, a3]; simp
            rw [s1, Bn (by omega), T]; omega
      · -- above the head segment: the head contributes the same, the tail decides
        have a1 : abs ((f, x) :: r) e = abs r e := by rw [abs_cons, if_neg (by omega)]
        have hs : startsAt (abs ((f, x) :: r)) lo e = startsAt (abs r) lo e := by
          by_cases c3 : e = f + x.length
          · have a2 : abs r e = none := abs_none_of_lt o4 (by omega)
            rw [startsAt_of_none (a1.trans a2), startsAt_of_none a2]
          · exact startsAt_congr a1 (fun _ => by rw [abs_cons, if_neg (by omega)])
        rw [hs]
        by_cases c3 : lo < f + x.length
        · rw [Ap (by omega), Bp (by omega)]; omega
        · rw [An (by omega), Bn (by omega)]; omega

theorem runsIn_succ (D : Dict) (lo n : Nat) :
    runsIn D lo (n + 1) = runsIn D lo n + (if startsAt D lo (lo + n) = true then 1 else 0) := by
  unfold runsIn
  rw [List.range_succ, List.filter_append, List.length_append]
  by_cases h : startsAt D lo (lo + n) = true <;> simp [h]

theorem meetSegs_eq_runsIn {l : Nat} {ps : Segs} (ok : Ok l ps) (lo n : Nat) :
    meetSegs ps lo (lo + n) = runsIn (abs ps) lo n := by
  induction n with
  | zero => rw [Nat.add_zero, meetSegs_self]; rfl
  | succ n ih => rw [← Nat.add_assoc, meetSegs_succ ok lo (lo + n) (by omega), ih, runsIn_succ]

theorem meetSegs_eq_filter {l : Nat} {ps : Segs} (ok : Ok l ps) (lo hi : Nat) (h : lo ≤ hi) :
    meetSegs ps lo (hi + 1) = (ps.filter (meets lo hi)).length := by
  induction ps generalizing l with
  | nil => rfl
  | cons s r ih =>
    obtain ⟨f, x⟩ := s
    obtain ⟨o1, o2, o3, o4⟩ := ok
    have hx : 0 < x.length := List.length_pos_iff.mpr o2
    have hsl : segLast (f, x) = f + x.length - 1 := rfl
    simp only [meetSegs]
    rw [ih o4]
    by_cases c : f ≤ hi ∧ lo < f + x.length
    · have hm : meets lo hi (f, x) = true := by
        simp only [meets, decide_eq_true_eq]; omega
      rw [List.filter_cons_of_pos hm, if_pos (by omega), List.length_cons]; omega
    · have hm : ¬ meets lo hi (f, x) = true := by
        simp only [meets, decide_eq_true_eq]; omega
      rw [List.filter_cons_of_neg hm, if_neg (by omega)]; omega

/-- every segment of a well-formed map meets the window of all u32 addresses -/
theorem meetSegs_all {l : Nat} {ps : Segs} (ok : Ok l ps) : meetSegs ps 0 4294967296 = ps.length := by
  induction ps generalizing l with
  | nil => rfl
  | cons s r ih =>
    obtain ⟨f, x⟩ := s
    obtain ⟨o1, o2, o3, o4⟩ := ok
    have hx : 0 < x.length := List.length_pos_iff.mpr o2
    simp only [meetSegs, List.length_cons]
    rw [ih o4, if_pos (by omega)]; omega

/-- the number of segments meeting `lo..=hi` is the number of maximal runs of the dictionary meeting it -/
theorem meets_eq_runsIn {ps : Segs} (inv : MInv ps) (lo hi : Nat) (h : lo ≤ hi) :
    (ps.filter (meets lo hi)).length = runsIn (abs ps) lo (hi + 1 - lo) := by
  have ok : Ok 0 ps := inv
  rw [← meetSegs_eq_filter ok lo hi h, ← meetSegs_eq_runsIn ok lo (hi + 1 - lo),
    show lo + (hi + 1 - lo) = hi + 1 by omega]

/-- the number of segments is the number of maximal runs of the dictionary -/
theorem length_eq_runs {ps : Segs} (inv : MInv ps) : ps.length = runs (abs ps) := by
  have ok : Ok 0 ps := inv
  have h := meetSegs_eq_runsIn ok 0 4294967296
  rw [Nat.zero_add, meetSegs_all ok] at h
  exact h

/-! ## `count` / `count_range` at dictionary level -/

theorem count_runs_aux (ps : Segs) (inv : MInv ps) :
    count ps = .ok (min (occupied (abs ps) 0 4294967296) u32Max, runs (abs ps)) := by
  rw [count_spec inv, length_eq_runs inv]

theorem countRange_runs_aux (ps : Segs) (lo hi : Nat) (inv : MInv ps) (h : lo ≤ hi) (hh : hi ≤ u32Max) :
    countRange ps lo hi =
      .ok (min (occupied (abs ps) lo (hi + 1 - lo)) u32Max, runsIn (abs ps) lo (hi + 1 - lo)) := by
  rw [countRange_spec inv lo hi h hh, meets_eq_runsIn inv lo hi h]

/-! ## justification of `startsAt` -/

/-- justification of the definition: the run starts counted by `runs` are exactly the first addresses of
the maximal runs -/
theorem startsAt_iff_isRun {ps : Segs} (inv : MInv ps) (k : Nat) :
    startsAt (abs ps) 0 k = true ↔ ∃ l, IsRun (abs ps) k l := by
  have ok : Ok 0 ps := inv
  constructor
  · intro hs
    simp only [startsAt, Bool.and_eq_true, Bool.or_eq_true, beq_iff_eq] at hs
    obtain ⟨h1, h2⟩ := hs
    rcases locLin_exact_spec ok k 0 with ⟨_, hn⟩ | ⟨j, s, _, hj, hlo, hhi⟩
    · rw [hn] at h1; exact absurd h1 (by simp)
    · obtain ⟨i1, i2, i3, i4, i5⟩ := abs_of_idx ok hj
      have hx : 0 < s.2.length := List.length_pos_iff.mpr i4
      have hk : k = s.1 := by
        by_cases c : k = s.1
        · exact c
        · exfalso
          have a := i1 (k - 1) (by omega) (by omega)
          rcases h2 with h2 | h2
          · omega
          · rw [a, List.getElem?_eq_getElem (by omega)] at h2
            exact absurd h2 (by simp)
      refine ⟨s.1 + s.2.length - 1, by omega, fun k' h1' h2' => ?_, fun k' hk' => ?_, ?_⟩
      · rw [i1 k' (by omega) (by omega), List.getElem?_eq_getElem (by omega)]; rfl
      · exact i3 k' (by omega)
      · rw [show s.1 + s.2.length - 1 + 1 = s.1 + s.2.length by omega]; exact i2
  · rintro ⟨l, r1, r2, r3, _⟩
    simp only [startsAt, Bool.and_eq_true, Bool.or_eq_true, beq_iff_eq]
    refine ⟨r2 k (Nat.le_refl k) r1, ?_⟩
    by_cases c : k = 0
    · exact Or.inl c
    · right; rw [r3 (k - 1) (by omega)]; rfl

/-! ## non-vacuity -/

example : runsIn (abs [(1, [1, 2, 3]), (7, [4])]) 2 6 = 2 := by decide
example : runsIn (abs [(1, [1, 2, 3]), (7, [4])]) 0 16 = 2 := by decide
example : runsIn (abs [(1, [1, 2, 3]), (7, [4])]) 4 3 = 0 := by decide
example : ([(1, [1, 2, 3]), (7, [4])] : Segs).filter (meets 2 7) = [(1, [1, 2, 3]), (7, [4])] := by decide
example : count [(1, [1, 2, 3]), (7, [4])] = .ok (4, 2) := by decide
example : countRange [(1, [1, 2, 3]), (7, [4])] 2 7 = .ok (3, 2) := by decide
example : startsAt (abs [(1, [1, 2, 3]), (7, [4])]) 0 7 = true ∧ IsRun (abs [(1, [1, 2, 3]), (7, [4])]) 7 7 := by
  refine ⟨by decide, by omega, fun k h1 h2 => ?_, fun k hk => ?_, by decide⟩
  · have : k = 7 := by omega
    subst this; decide
  · have : k = 6 := by omega
    subst this; decide

end Trion.Map
