import TrionModel.Lemmas.AsmBase
import TrionModel.Lemmas.SimpE
/-!
# `Trion.Asm`: the primitives keep the invariant and do not panic
(`get/insert/defer_constant`, `add_task`, `evaluate`, the region writes)
-/
namespace Trion.Asm
open Trion

/-! ## constants -/

theorem insertConstant_safe {b : Bool} {st : St} (h : Good b st) (n : Bytes) (v : Int) (r : Realm)
    (hr : r = .loc → b = true) : Safe b st (insertConstant st n v r) := by
  unfold insertConstant
  split
  · exact safe_ok h _
  · rename_i hreg
    have hreg : Front.isRegister n = false := by simpa using hreg
    cases r with
    | global =>
      simp only
      split
      · exact ⟨by simp, fun st' x e => by
          cases e
          exact ⟨⟨h.inv, h.gt, h.lt, tableOk_set h.gtab hreg _, h.ltab, h.inFile, h.top⟩, Ext.refl _⟩⟩
      · exact ⟨by simp, fun st' x e => by
          cases e
          exact ⟨⟨h.inv, h.gt, h.lt, tableOk_set h.gtab hreg _, h.ltab, h.inFile, h.top⟩, Ext.refl _⟩⟩
      · exact safe_ok h _
    | loc =>
      have hb := hr rfl
      subst hb
      obtain ⟨l, hl⟩ := Option.isSome_iff_exists.mp (h.inFile rfl).1
      simp only [hl]
      have good' : ∀ w, Good true { st with locals := some (l.set n w) } := fun w =>
        ⟨h.inv, h.gt, h.lt, h.gtab, fun l' e => by
          cases e; exact tableOk_set (h.ltab l hl) hreg _, fun _ => ⟨rfl, (h.inFile rfl).2⟩, fun e => by cases e⟩
      split
      · exact ⟨by simp, fun st' x e => by cases e; exact ⟨good' _, Ext.refl _⟩⟩
      · exact ⟨by simp, fun st' x e => by cases e; exact ⟨good' _, Ext.refl _⟩⟩
      · exact safe_ok h _

theorem deferConstant_safe {b : Bool} {st : St} (h : Good b st) (n : Bytes) (r : Realm)
    (hr : r = .loc → b = true) : Safe b st (deferConstant st n r) := by
  unfold deferConstant
  split
  · exact safe_ok h _
  · rename_i hreg
    have hreg : Front.isRegister n = false := by simpa using hreg
    cases r with
    | global =>
      simp only
      split
      · exact safe_ok h _
      · exact ⟨by simp, fun st' x e => by
          cases e
          exact ⟨⟨h.inv, h.gt, h.lt, tableOk_set h.gtab hreg _, h.ltab, h.inFile, h.top⟩, Ext.refl _⟩⟩
    | loc =>
      have hb := hr rfl
      subst hb
      obtain ⟨l, hl⟩ := Option.isSome_iff_exists.mp (h.inFile rfl).1
      simp only [hl]
      split
      · exact safe_ok h _
      · exact ⟨by simp, fun st' x e => by
          cases e
          exact ⟨⟨h.inv, h.gt, h.lt, h.gtab, fun l' e => by
            cases e; exact tableOk_set (h.ltab l hl) hreg _, fun _ => ⟨rfl, (h.inFile rfl).2⟩, fun e => by cases e⟩, Ext.refl _⟩⟩

/-- a successful `defer_constant(name, Global)`: the name is not a register and is now a valueless global -/
theorem deferConstant_global_ok {st st1 : St} {n : Bytes} (h : deferConstant st n .global = .ok (st1, .ok ())) :
    Front.isRegister n = false ∧ st1 = { st with globals := st.globals.set n none } := by
  unfold deferConstant at h
  split at h
  · cases h
  · rename_i hreg
    simp only at h
    split at h
    · cases h
    · cases h
      exact ⟨by simpa using hreg, rfl⟩

theorem getConstant_loc_ok {st : St} (h : st.locals.isSome = true) (n : Bytes) :
    ∃ l, st.locals = some l ∧ getConstant st n .loc = .ok (l.get n) := by
  obtain ⟨l, hl⟩ := Option.isSome_iff_exists.mp h
  exact ⟨l, hl, by simp [getConstant, hl]⟩

/-! ## tasks -/

theorem addTask_safe {b : Bool} {st : St} (h : Good b st) (t : Task) (r : Realm)
    (ht : TaskOk st.seg.pending t) (hl : r = .loc → b = true) (hg : r = .global → t.notCopy = true) :
    addTask st t r ≠ .stop .panic ∧ ∀ st', addTask st t r = .ok st' → Good b st' ∧ Ext st st' := by
  cases r with
  | global =>
    refine ⟨by simp [addTask], fun st' e => ?_⟩
    simp only [addTask, Out.ok.injEq] at e
    subst e
    refine ⟨⟨h.inv, ?_, h.lt, h.gtab, h.ltab, h.inFile, fun hb => ⟨(h.top hb).1, (h.top hb).2.1, ?_⟩⟩, fun _ x => x, ?_, Traced.refl st⟩
    · intro t' ht'
      rcases List.mem_append.mp ht' with m | m
      · exact h.gt t' m
      · simp only [List.mem_singleton] at m; subst m; exact ht
    · intro t' ht'
      rcases List.mem_append.mp ht' with m | m
      · exact (h.top hb).2.2 t' m
      · simp only [List.mem_singleton] at m; subst m; exact hg rfl
    · intro t' ht'
      rcases List.mem_append.mp ht' with m | m
      · exact .inl m
      · simp only [List.mem_singleton] at m; subst m; exact .inr (hg rfl)
  | loc =>
    have hb := hl rfl
    subst hb
    obtain ⟨l, hl'⟩ := Option.isSome_iff_exists.mp (h.inFile rfl).2
    refine ⟨by simp [addTask, hl'], fun st' e => ?_⟩
    simp only [addTask, hl', Out.ok.injEq] at e
    subst e
    refine ⟨⟨h.inv, h.gt, ?_, h.gtab, h.ltab, fun _ => ⟨(h.inFile rfl).1, rfl⟩, fun e => by cases e⟩, Ext.refl _⟩
    intro l2 e t' ht'
    cases e
    rcases List.mem_append.mp ht' with m | m
    · exact h.lt l hl' t' m
    · simp only [List.mem_singleton] at m; subst m; exact ht

/-! ## evaluation -/

theorem evaluateT_ne_panic (lk : Bytes → Simp.Lookup) (isReg : Bytes → Bool) (a : Arg) :
    Simp.evaluateT lk isReg a ≠ .panic := by
  intro h
  have e := Simp.evaluateT_is_evaluate lk isReg a
  rw [h] at e
  exact Simp.eval_no_panic lk isReg a e.symm

theorem evaluateE_ne_panic (lk : Bytes → Simp.Lookup) (isReg : Bytes → Bool) (a : Arg) :
    Simp.evaluateE lk isReg a ≠ .panic := by
  intro h
  have e := Simp.evaluateE_is_evaluateT lk isReg a
  rw [h] at e
  exact evaluateT_ne_panic lk isReg a e.symm

theorem evalIn_ok (t : Table) (a : Arg) : ∃ ev, evalIn t a = .ok ev := by
  unfold evalIn
  have := evaluateE_ne_panic (fun n => t.get n) Front.isRegister a
  split
  · split <;> exact ⟨_, rfl⟩
  · exact ⟨_, rfl⟩
  · exact ⟨_, rfl⟩
  · rename_i hp; exact absurd hp this

theorem evalTable_ok {b : Bool} {env : Env} {st : St} (h : Good b st) (hb : env.paths.isEmpty = !b) :
    ∃ t, evalTable env st = .ok t := by
  unfold evalTable
  cases b with
  | false => simp at hb; simp [hb]
  | true =>
    simp at hb
    obtain ⟨l, hl⟩ := Option.isSome_iff_exists.mp (h.inFile rfl).1
    simp [hb, hl]

theorem evalArg_ok {b : Bool} {env : Env} {st : St} (h : Good b st) (hb : env.paths.isEmpty = !b) (a : Arg) :
    ∃ ev, evalArg env st a = .ok ev := by
  obtain ⟨t, ht⟩ := evalTable_ok h hb
  obtain ⟨ev, hev⟩ := evalIn_ok t a
  exact ⟨ev, by simp [evalArg, ht, hev]⟩

theorem evalPanics_false (t : Table) (as : List Arg) : evalPanics t as = false := by
  unfold evalPanics
  rw [List.any_eq_false]
  intro a _
  obtain ⟨ev, hev⟩ := evalIn_ok t a
  simp [hev]

/-! ## regions -/

/-- what `segStep` needs and gives, operations other than `rewrite` -/
theorem segStep_nonrewrite {s : Seg.State} (inv : Seg.Inv s) (op : Seg.Op) (wf : Seg.Op.wf s op)
    (hop : ∀ a d, op ≠ .rewrite a d) :
    segStep s op ≠ .stop .panic ∧ ∀ s' o, segStep s op = .ok (s', o) →
      (s', o) = Seg.step s op ∧ Seg.Inv s' := by
  have h := Seg.step_nonrewrite inv op wf hop
  unfold segStep
  split
  · rename_i hs; rw [hs] at h; exact absurd rfl h.1
  · rename_i s1 o1 _ hs
    rw [hs] at h
    exact ⟨by simp, fun s' o e => by cases e; exact ⟨hs.symm, h.2.1⟩⟩

theorem segStep_rewrite {s : Seg.State} (inv : Seg.Inv s) (addr : Nat) (d : Bytes)
    (hp : (addr, d.length) ∈ s.pending) :
    segStep s (.rewrite addr d) ≠ .stop .panic ∧ ∀ s' o, segStep s (.rewrite addr d) = .ok (s', o) →
      o = .ok ∧ Seg.Inv s' ∧ s'.pending = s.pending ∧ Seg.step s (.rewrite addr d) = (s', o) := by
  have h := Seg.rewrite_spec inv addr d hp
  unfold segStep
  have e : Seg.step s (.rewrite addr d) = Seg.rewrite s addr d := rfl
  rw [e]
  split
  · rename_i hs; rw [hs] at h; exact absurd h.1 (by simp)
  · rename_i s1 o1 _ hs
    rw [hs] at h
    exact ⟨by simp, fun s' o e => by cases e; exact ⟨h.1, h.2.1, h.2.2.2.2, hs⟩⟩

/-- where a statement stands with respect to the regions: placed (and recorded with its length), or not yet
placed and standing at the cursor of the active region -/
def At (s : Seg.State) (placed : Bool) (addr len : Nat) : Prop :=
  if placed then (addr, len) ∈ s.pending else ∃ seg, s.active = some seg ∧ seg.cur = addr

theorem place_cases {s : Seg.State} {seg : Seg.Active} (inv : Seg.Inv s) (ha : s.active = some seg) (d : Bytes) :
    (Seg.step s (.place d) = (s, .diag (.overflow d.length (seg.maxLen - seg.buf.length)))) ∨
    (∃ s', Seg.step s (.place d) = (s', .placed seg.cur) ∧ s'.pending = (seg.cur, d.length) :: s.pending) := by
  have ok := inv.2.1 seg ha
  rcases Seg.write_spec ok d with ⟨_, f2⟩ | ⟨_, f2⟩
  · right
    simp only [Seg.step, ha, f2]
    exact ⟨_, rfl, rfl⟩
  · left
    simp only [Seg.step, ha, f2, Seg.eta_active ha]

theorem writeStmt_safe {s : Seg.State} (inv : Seg.Inv s) (placed : Bool) (addr : Nat) (d : Bytes)
    (hat : At s placed addr d.length) :
    writeStmt s placed addr d ≠ .stop .panic ∧ ∀ s' p' e, writeStmt s placed addr d = .ok (s', p', e) →
      Seg.Inv s' ∧ s.pending ⊆ s'.pending ∧ At s' p' addr d.length ∧ (e = none → p' = true) ∧
      (placed = true → p' = true) ∧
      ∃ tr, Path s tr s' ∧ diags tr = (if e.isSome then 1 else 0) := by
  unfold writeStmt
  cases placed with
  | false =>
    obtain ⟨seg, ha, hcur⟩ : ∃ seg, s.active = some seg ∧ seg.cur = addr := by simpa [At] using hat
    have hc : (!false && s.active.isSome) = true := by simp [ha]
    rw [if_pos hc]
    have hs := segStep_nonrewrite inv (.place d) trivial (fun _ _ h => by cases h)
    split
    · rename_i s1 e1 hs1
      obtain ⟨he, hi⟩ := hs.2 _ _ hs1
      refine ⟨by simp, fun s' p' e hr => ?_⟩
      cases hr
      rcases place_cases inv ha d with h1 | ⟨s2, h1, _⟩
      · rw [h1] at he
        cases he
        exact ⟨hi, fun _ x => x, by simpa [At] using ⟨seg, ha, hcur⟩, fun e => (by cases e), fun e => (by cases e),
          [(.place d, .diag _)], .cons inv trivial h1 (by simp) (.nil _), by simp [diags, isDiag]⟩
      · rw [h1] at he; cases he
    · rename_i s1 o1 hne hs1
      obtain ⟨he, hi⟩ := hs.2 _ _ hs1
      refine ⟨by simp, fun s' p' e hr => ?_⟩
      cases hr
      rcases place_cases inv ha d with h1 | ⟨s2, h1, hp⟩
      · rw [h1] at he
        cases he
        exact absurd rfl (hne _)
      · rw [h1] at he
        cases he
        refine ⟨hi, ?_, ?_, fun _ => rfl, fun _ => rfl,
          [(.place d, .placed seg.cur)], .cons inv trivial h1 (by simp) (.nil _), by simp [diags, isDiag]⟩
        · rw [hp]; exact fun _ x => List.mem_cons_of_mem _ x
        · simp only [At, if_true, hp, hcur]; exact List.mem_cons_self
    · rename_i r hs1
      refine ⟨fun e => ?_, fun s' p' e hr => by cases hr⟩
      cases e
      exact hs.1 hs1
  | true =>
    have hp : (addr, d.length) ∈ s.pending := by simpa [At] using hat
    have hc : (!true && s.active.isSome) = false := by simp
    rw [if_neg (by simp)]
    have hs := segStep_rewrite inv addr d hp
    split
    · rename_i s1 e1 hs1
      obtain ⟨ho, _⟩ := hs.2 _ _ hs1
      cases ho
    · rename_i s1 o1 _ hs1
      obtain ⟨ho, hi, hpe, hst⟩ := hs.2 _ _ hs1
      refine ⟨by simp, fun s' p' e hr => ?_⟩
      cases hr
      subst ho
      exact ⟨hi, by rw [hpe]; exact fun _ x => x, by simpa [At, hpe] using hp, fun _ => rfl, fun _ => rfl,
        [(.rewrite addr d, .ok)], .cons inv hp hst (by simp) (.nil _), by simp [diags, isDiag]⟩
    · rename_i r hs1
      refine ⟨fun e => ?_, fun s' p' e hr => by cases hr⟩
      cases e
      exact hs.1 hs1

/-- replacing the regions of a good state by regions that extend them -/
theorem good_setSeg {b : Bool} {st : St} (h : Good b st) {s' : Seg.State} (inv : Seg.Inv s')
    (hp : st.seg.pending ⊆ s'.pending) : Good b { st with seg := s' } :=
  ⟨inv, fun t m => (h.gt t m).mono hp, fun l e t m => (h.lt l e t m).mono hp, h.gtab, h.ltab, h.inFile, h.top⟩

end Trion.Asm
