import TrionModel.Lemmas.LexUtf8
/-!
# Helper lemmas for the tokenizer model, part 8: character and string literals over all scalar values
-/
namespace Trion.Lex
open Trion.Pos (isCont adv)

/-! ### character literals -/

theorem punct_apos : punct 39 = none := by decide

theorem doNext_char (s : State) (b0 : UInt8) (tl : Bytes) (hd : s.data = b0 :: tl)
    (h0 : b0.toNat = 39) : doNext s = lexChar s := by
  unfold doNext
  have e0 : s.data[0]? = some b0 := by rw [hd]; rfl
  rw [e0]
  simp only
  rw [h0, punct_apos]
  simp

/-- a scalar value that may be written raw between apostrophes -/
def RawChar (c : Nat) : Prop := isScalar c = true ∧ (c = 9 ∨ (32 ≤ c ∧ c ≤ 126 ∧ c ≠ 92) ∨ 128 ≤ c)

theorem lexChar_raw (c : Nat) (hc : RawChar c) (l k : Nat) :
    lexChar ⟨39 :: encodeChar c ++ [39], false, l, k⟩ = .tok ⟨l, k, .num (Int.ofNat c)⟩ ⟨[], false, l, k + 3⟩ := by
  obtain ⟨hs, hadm⟩ := hc
  have hq : Utf8 [(39 : UInt8)] := utf8_ascii_cons 39 (by decide) Utf8.nil
  have hrest : Utf8 (encodeChar c ++ [39]) := utf8_encodeChar c hs hq
  have hall : Utf8 ((39 : UInt8) :: encodeChar c ++ [39]) := utf8_ascii_cons 39 (by decide) hrest
  unfold lexChar
  have hsl : sliceFrom ((39 : UInt8) :: encodeChar c ++ [39]) 1 = some (encodeChar c ++ [39]) := by
    have := sliceFrom_split [(39 : UInt8)] (encodeChar c ++ [39]) (utf8_head? hrest)
    simpa using this
  simp only [hsl]
  have hbody : lexCharBody false (encodeChar c ++ [39]) = .ok (encodeChar c).length c := by
    unfold lexCharBody lexCharFirst
    rw [decodeChar_encodeChar c hs]
    simp only
    have h92 : (c == 92) = false := by simp; omega
    have hok : (c == 9 || (decide (32 ≤ c) && decide (c ≤ 126)) || decide (128 ≤ c)) = true := by
      simp; omega
    simp only [h92, Bool.false_eq_true, if_false, hok, if_true]
    have : (encodeChar c ++ [39]).drop (encodeChar c).length = [39] := by simp
    rw [this]
    rfl
  rw [hbody]
  simp only
  have hl : 1 + (encodeChar c).length + 1 = ((39 : UInt8) :: encodeChar c ++ [39]).length := by simp; omega
  rw [hl, emit_eq _ ((39 : UInt8) :: encodeChar c ++ [39]) [] _ _ (by simp) hall Utf8.nil]
  · have hlf : Pos.countLF ((39 : UInt8) :: encodeChar c ++ [39]) = 0 := by
      have := countLF_encodeChar c hs (by omega)
      rw [show ((39 : UInt8) :: encodeChar c ++ [39]) = [39] ++ encodeChar c ++ [39] by simp, countLF_append, countLF_append, this]
      rfl
    have hsc : Pos.scalars ((39 : UInt8) :: encodeChar c ++ [39]) = 3 := by
      rw [show ((39 : UInt8) :: encodeChar c ++ [39]) = [39] ++ encodeChar c ++ [39] by simp, scalars_append, scalars_append,
        scalars_encodeChar c hs]
      rfl
    rw [adv_noLF _ _ hlf, hsc]
    rfl
  · intro hlt b hb
    simp only [decide_eq_true_eq] at hlt
    rw [encodeChar_ascii c hlt] at hb
    simp at hb
    rcases hb with rfl | rfl | rfl
    · decide
    · rw [toNat_toUInt8 _ (by omega)]; omega
    · decide

/-! ### one iteration of the string scanner -/

/-- no stop byte up to the end of the text: the closing quote is missing -/
theorem strLoop_eof (pre raw : Bytes) (esc : Bytes) (f : Nat)
    (hraw : ∀ b ∈ raw, isStrStop b = false) (hh : ∀ b, raw.head? = some b → isCont b = false) :
    strLoop (pre ++ raw) (f + 1) pre.length esc = .eof := by
  rw [strLoop, sliceFrom_split pre raw hh]
  simp only
  rw [position_none_of_all raw hraw]

/-- the scanner runs over `raw` and stands at the stop byte `cb` -/
theorem strLoop_step (pre raw : Bytes) (cb : UInt8) (post : Bytes) (esc : Bytes) (f : Nat)
    (hraw : ∀ b ∈ raw, isStrStop b = false) (hcb : isStrStop cb = true)
    (hh : ∀ b, (raw ++ cb :: post).head? = some b → isCont b = false) :
    strLoop (pre ++ raw ++ cb :: post) (f + 1) pre.length esc =
      if cb.toNat < 32 ∨ cb.toNat ≥ 127 then .bad
      else if cb.toNat = 92 then
        (if post.length < 2 then .bad
         else match strEscape (pre ++ raw ++ cb :: post) (pre.length + raw.length) (esc ++ raw) with
          | .next p e => strLoop (pre ++ raw ++ cb :: post) f p e
          | .bad => .bad
          | .eof => .eof
          | .panic => .panic)
      else .ok (pre.length + raw.length + 1) (if esc = [] then [] else esc ++ raw) := by
  have hcba := isStrStop_ascii hcb
  have hcbnc : isCont cb = false := by rw [isCont_false_iff]; omega
  rw [strLoop]
  have hsl : sliceFrom (pre ++ raw ++ cb :: post) pre.length = some (raw ++ cb :: post) := by
    rw [List.append_assoc]; exact sliceFrom_split pre _ hh
  rw [hsl]
  simp only
  rw [position_append_of_all raw cb post hraw hcb]
  simp only
  have hidx : (pre ++ raw ++ cb :: post)[pre.length + raw.length]? = some cb := by
    rw [← List.length_append]; exact getElem?_append_length _ _ _
  rw [hidx]
  simp only
  have hpush : ∀ e : Bytes, pushSlice (pre ++ raw ++ cb :: post) e pre.length (pre.length + raw.length) = some (e ++ raw) := by
    intro e
    unfold pushSlice
    rw [slice_split pre raw (cb :: post) hh (by intro b hb; simp at hb; subst hb; exact hcbnc)]
  by_cases hbad : cb.toNat < 32 ∨ cb.toNat ≥ 127
  · have : (decide (cb.toNat < 32) || decide (cb.toNat ≥ 127)) = true := by simpa using hbad
    rw [if_pos this, if_pos hbad]
  · have : ¬ (decide (cb.toNat < 32) || decide (cb.toNat ≥ 127)) = true := by simpa using hbad
    rw [if_neg this, if_neg hbad]
    by_cases h92 : cb.toNat = 92
    · have : (cb.toNat == 92) = true := by simpa using h92
      rw [if_pos this, if_pos h92]
      have hesc : (if raw.length > 0 then pushSlice (pre ++ raw ++ cb :: post) esc pre.length (pre.length + raw.length)
          else some esc) = some (esc ++ raw) := by
        split
        · exact hpush esc
        · have : raw = [] := List.eq_nil_of_length_eq_zero (by omega)
          simp [this]
      rw [hesc]
      simp only
      have hlen : (pre ++ raw ++ cb :: post).length = pre.length + raw.length + 1 + post.length := by simp; omega
      rw [if_neg (by omega)]
      by_cases hp : post.length < 2
      · rw [if_pos (by omega), if_pos hp]
      · rw [if_neg (by omega), if_neg hp]
        cases strEscape (pre ++ raw ++ cb :: post) (pre.length + raw.length) (esc ++ raw) <;> rfl
    · have : ¬ (cb.toNat == 92) = true := by simpa using h92
      rw [if_neg this, if_neg h92]
      have hc34 : cb.toNat = 34 := by
        simp [isStrStop] at hcb
        omega
      have : (cb.toNat != 34) = false := by simp [hc34]
      simp only [this, Bool.false_eq_true, if_false]
      have hesc : (if (!esc.isEmpty && decide (raw.length > 0)) = true
          then pushSlice (pre ++ raw ++ cb :: post) esc pre.length (pre.length + raw.length) else some esc) =
          some (if esc = [] then [] else esc ++ raw) := by
        by_cases he : esc = []
        · subst he; simp
        · by_cases hr : raw.length > 0
          · have : (!esc.isEmpty && decide (raw.length > 0)) = true := by simp [he, hr]
            rw [if_pos this, hpush, if_neg he]
          · have hr0 : raw = [] := List.eq_nil_of_length_eq_zero (by omega)
            subst hr0
            simp [he]
      rw [hesc]

/-! ### escape sequences -/

/-- the character a one-letter escape denotes: `\0 \t \n \r \" \' \\` -/
def escValue (e : Nat) : Option Nat :=
  if e = 48 then some 0 else if e = 116 then some 9 else if e = 110 then some 10 else if e = 114 then some 13
  else if e = 34 ∨ e = 39 ∨ e = 92 then some e else none

theorem toUInt8_toNat (b : UInt8) : b.toNat.toUInt8 = b := by
  simp [Nat.toUInt8]

theorem strEscape_simple (a : Bytes) (cb eb : UInt8) (more esc1 : Bytes) (v : Nat) (hv : escValue eb.toNat = some v) :
    strEscape (a ++ cb :: eb :: more) a.length esc1 = .next (a.length + 2) (esc1 ++ encodeChar v) := by
  have e1 : (a ++ cb :: eb :: more)[a.length + 1]? = some eb := by
    rw [getElem?_append_length_add]; rfl
  unfold strEscape
  rw [e1]
  simp only
  unfold escValue at hv
  split at hv
  · rename_i h; cases hv; simp [h]; rfl
  · split at hv
    · rename_i h0 h; cases hv; simp [h]; rfl
    · split at hv
      · rename_i h0 h1 h; cases hv; simp [h]; rfl
      · split at hv
        · rename_i h0 h1 h2 h; cases hv; simp [h]; rfl
        · split at hv
          · rename_i h0 h1 h2 h3 h
            cases hv
            have hlt : eb.toNat < 128 := by omega
            have : (eb.toNat == 34 || eb.toNat == 39 || eb.toNat == 92) = true := by simp; omega
            simp only [beq_iff_eq, h0, h1, h2, h3, if_false, this, if_true]
            rw [encodeChar_ascii _ hlt, toUInt8_toNat]
          · cases hv

theorem strEscape_unknown (a : Bytes) (cb eb : UInt8) (more esc1 : Bytes) (hv : escValue eb.toNat = none)
    (hu : eb.toNat ≠ 117) : strEscape (a ++ cb :: eb :: more) a.length esc1 = .bad := by
  have e1 : (a ++ cb :: eb :: more)[a.length + 1]? = some eb := by
    rw [getElem?_append_length_add]; rfl
  unfold strEscape
  rw [e1]
  simp only
  unfold escValue at hv
  split at hv
  · cases hv
  · split at hv
    · cases hv
    · split at hv
      · cases hv
      · split at hv
        · cases hv
        · split at hv
          · cases hv
          · rename_i h0 h1 h2 h3 h4
            have : (eb.toNat == 34 || eb.toNat == 39 || eb.toNat == 92) = false := by simp; omega
            simp only [beq_iff_eq, h0, h1, h2, h3, hu, if_false, this, Bool.false_eq_true]

theorem strEscape_nobrace (a : Bytes) (cb eb gb : UInt8) (more esc1 : Bytes) (hu : eb.toNat = 117)
    (hg : gb.toNat ≠ 123) : strEscape (a ++ cb :: eb :: gb :: more) a.length esc1 = .bad := by
  have e1 : (a ++ cb :: eb :: gb :: more)[a.length + 1]? = some eb := by
    rw [getElem?_append_length_add]; rfl
  have e2 : (a ++ cb :: eb :: gb :: more)[a.length + 2]? = some gb := by
    rw [getElem?_append_length_add]; rfl
  unfold strEscape
  rw [e1]
  simp only [hu]
  rw [e2]
  simp [hg]

theorem position_take {p : UInt8 → Bool} : ∀ (l : Bytes) (i k : Nat), position p l = some i → i < k →
    position p (l.take k) = some i := by
  intro l
  induction l with
  | nil => intro i k h; simp [position] at h
  | cons b l ih =>
    intro i k h hk
    cases k with
    | zero => omega
    | succ k =>
      simp only [List.take_succ_cons, position] at h ⊢
      by_cases hb : p b = true
      · simpa [hb] using h
      · simp only [hb, Bool.false_eq_true, if_false] at h ⊢
        cases hp : position p l with
        | none => simp [hp] at h
        | some j =>
          simp only [hp, Option.some.injEq] at h
          subst h
          rw [ih j k hp (by omega)]

theorem position_take_none {p : UInt8 → Bool} (l : Bytes) (k : Nat) (h : ∀ b ∈ l.take k, p b = false) :
    position p (l.take k) = none := position_none_of_all _ h

/-- the text of a `\u{…}` escape that the tokenizer accepts: 1 to 6 hexadecimal digits (either case) that
denote a Unicode scalar value -/
def HexOk (text : Bytes) : Prop :=
  text ≠ [] ∧ text.length ≤ 6 ∧ (∀ b ∈ text, isDigit 16 b = true) ∧ isScalar (valueFrom 16 text 0) = true

theorem parseDigits_nondigit (radix max : Nat) (ds : Bytes) (acc : Nat) (h : ∃ b ∈ ds, isDigit radix b = false) :
    parseDigits radix max ds acc = none := by
  induction ds generalizing acc with
  | nil => obtain ⟨b, hb, _⟩ := h; cases hb
  | cons b ds ih =>
    simp only [parseDigits]
    cases hv : digitVal radix b with
    | none => rfl
    | some v =>
      simp only
      split
      · rfl
      · apply ih
        obtain ⟨x, hx, hxd⟩ := h
        rcases List.mem_cons.mp hx with rfl | hx
        · simp [isDigit, hv] at hxd
        · exact ⟨x, hx, hxd⟩

theorem isDigit16_ne {b : UInt8} (h : isDigit 16 b = true) : b.toNat ≠ 43 ∧ b.toNat ≠ 125 ∧ b.toNat < 128 := by
  unfold isDigit digitVal at h
  simp only at h
  split at h
  · rename_i w hw
    split at hw
    · omega
    · split at hw
      · omega
      · split at hw
        · omega
        · cases hw
  · simp at h

section uni
variable (a : Bytes) (cb eb gb : UInt8) (r3 esc1 : Bytes)

theorem strEscape_uni_eof (hu : eb.toNat = 117) (hg : gb.toNat = 123) (hr : Utf8 r3)
    (hno : ∀ b ∈ r3.take 7, b.toNat ≠ 125) :
    strEscape (a ++ cb :: eb :: gb :: r3) a.length esc1 = .eof := by
  have e1 : (a ++ cb :: eb :: gb :: r3)[a.length + 1]? = some eb := by
    rw [getElem?_append_length_add]; rfl
  have e2 : (a ++ cb :: eb :: gb :: r3)[a.length + 2]? = some gb := by
    rw [getElem?_append_length_add]; rfl
  have hsl : sliceFrom (a ++ cb :: eb :: gb :: r3) (a.length + 3) = some r3 := by
    have := sliceFrom_split (a ++ [cb, eb, gb]) r3 (utf8_head? hr)
    simpa using this
  unfold strEscape
  rw [e1]
  simp only [hu]
  rw [e2]
  simp only [hg]
  rw [hsl]
  simp only
  rw [position_take_none r3 7 (by intro b hb; simpa using hno b hb)]
  simp

/-- `\u{text}` with the closing brace among the first seven bytes: what the escape yields is decided by
`u32::from_str_radix(text, 16)`, the `+` filter and `char::from_u32` -/
theorem strEscape_uni (text : Bytes) (cl : UInt8) (more : Bytes)
    (hu : eb.toNat = 117) (hg : gb.toNat = 123) (hr3 : r3 = text ++ cl :: more) (hr : Utf8 r3)
    (hcl : cl.toNat = 125) (hno : ∀ b ∈ text, b.toNat ≠ 125) (hlen : text.length ≤ 6) :
    strEscape (a ++ cb :: eb :: gb :: r3) a.length esc1 =
      match u32FromHex text with
      | none => .bad
      | some v => if text.head? = some 43 then .bad
                  else if isScalar v then .next (a.length + 4 + text.length) (esc1 ++ encodeChar v) else .bad := by
  have e1 : (a ++ cb :: eb :: gb :: r3)[a.length + 1]? = some eb := by
    rw [getElem?_append_length_add]; rfl
  have e2 : (a ++ cb :: eb :: gb :: r3)[a.length + 2]? = some gb := by
    rw [getElem?_append_length_add]; rfl
  have hsl : sliceFrom (a ++ cb :: eb :: gb :: r3) (a.length + 3) = some r3 := by
    have := sliceFrom_split (a ++ [cb, eb, gb]) r3 (utf8_head? hr)
    simpa using this
  have hclnc : isCont cl = false := by rw [isCont_false_iff]; omega
  have hpos : position (fun b => b.toNat == 125) (r3.take 7) = some text.length := by
    apply position_take _ _ _ _ (by omega)
    rw [hr3]
    exact position_append_of_all text cl more (by intro x hx; simpa using hno x hx) (by simpa using hcl)
  have hsl2 : slice (a ++ cb :: eb :: gb :: r3) (a.length + 3) (a.length + 3 + text.length) = some text := by
    have := slice_split (a ++ [cb, eb, gb]) text (cl :: more) (by rw [← hr3]; exact utf8_head? hr)
      (by intro b hb; simp at hb; subst hb; exact hclnc)
    rw [hr3]
    simpa using this
  have e3 : (a ++ cb :: eb :: gb :: r3)[a.length + 3]? = r3.head? := by
    have := getElem?_append_length_add (a ++ [cb, eb, gb]) r3 0
    simp at this
    rw [List.head?_eq_getElem?]
    simpa using this
  unfold strEscape
  rw [e1]
  simp only [hu]
  rw [e2]
  simp only [hg]
  rw [hsl]
  simp only
  rw [hpos]
  simp only
  rw [hsl2]
  simp only
  cases hx : u32FromHex text with
  | none => rfl
  | some v =>
    simp only
    rw [e3, hr3]
    cases text with
    | nil => simp [u32FromHex] at hx
    | cons t0 tt =>
      simp only [List.cons_append, List.head?_cons, Option.some.injEq]
      by_cases h43 : t0 = 43
      · subst h43; simp
      · have : ¬ t0.toNat = 43 := by
          intro h; apply h43; exact UInt8.toNat_inj.mp (by simpa using h)
        have harith : a.length + (t0 :: tt).length + 2 + 2 = a.length + 4 + (t0 :: tt).length := by omega
        rw [harith]
        by_cases hs : isScalar v = true <;> simp [this, h43, hs]

end uni

/-! ### string bodies as lists of items -/

/-- a scalar value that may be written raw inside a string: TAB, printable ASCII other than `"` and `\`,
and everything from U+0080 on -/
def RawStrChar (c : Nat) : Prop := isScalar c = true ∧ (c = 9 ∨ (32 ≤ c ∧ c ≤ 126 ∧ c ≠ 34 ∧ c ≠ 92) ∨ 128 ≤ c)

/-- one element of a string body as the programmer writes it -/
inductive StrItem where
  | raw (c : Nat)        -- the character itself, UTF-8 encoded
  | esc (e : UInt8)      -- backslash and one letter
  | uni (hex : Bytes)    -- `\u{hex}`

def StrItem.Ok : StrItem → Prop
  | .raw c => RawStrChar c
  | .esc e => (escValue e.toNat).isSome = true
  | .uni hex => HexOk hex

def StrItem.render : StrItem → Bytes
  | .raw c => encodeChar c
  | .esc e => [92, e]
  | .uni hex => 92 :: 117 :: 123 :: (hex ++ [125])

/-- the scalar value an item denotes -/
def StrItem.value : StrItem → Nat
  | .raw c => c
  | .esc e => (escValue e.toNat).getD 0
  | .uni hex => valueFrom 16 hex 0

def StrItem.isRaw : StrItem → Bool
  | .raw _ => true
  | _ => false

def StrItem.isEsc : StrItem → Bool
  | .esc _ => true
  | _ => false

/-- the text of the body -/
def renderAll : List StrItem → Bytes
  | [] => []
  | it :: r => it.render ++ renderAll r

/-- the UTF-8 encoding of the characters the body denotes -/
def denoteAll : List StrItem → Bytes
  | [] => []
  | it :: r => encodeChar it.value ++ denoteAll r

def endsWithEsc : List StrItem → Bool
  | [] => false
  | it :: r => if r.isEmpty then it.isEsc else endsWithEsc r

theorem escValue_ascii {e v : Nat} (h : escValue e = some v) : e < 128 ∧ e ≠ 10 ∧ v < 128 := by
  unfold escValue at h
  split at h
  · cases h; omega
  · split at h
    · cases h; omega
    · split at h
      · cases h; omega
      · split at h
        · cases h; omega
        · split at h
          · cases h; omega
          · cases h

theorem render_ne_nil (it : StrItem) : it.render ≠ [] := by
  cases it with
  | raw c => exact encodeChar_ne_nil c
  | esc e => simp [StrItem.render]
  | uni h => simp [StrItem.render]

theorem head_noncont_append {x y : Bytes} (hx : ∀ b, x.head? = some b → isCont b = false)
    (hy : ∀ b, y.head? = some b → isCont b = false) : ∀ b, (x ++ y).head? = some b → isCont b = false := by
  cases x with
  | nil => simpa using hy
  | cons a t => intro b hb; exact hx b (by simpa using hb)

theorem utf8_render (it : StrItem) (hok : it.Ok) {rest : Bytes} (h : Utf8 rest) : Utf8 (it.render ++ rest) := by
  cases it with
  | raw c => exact utf8_encodeChar c hok.1 h
  | esc e =>
    simp only [StrItem.Ok] at hok
    cases hv : escValue e.toNat with
    | none => simp [hv] at hok
    | some v =>
      have := escValue_ascii hv
      exact utf8_ascii_append [92, e] (by intro b hb; simp at hb; rcases hb with rfl | rfl; decide; omega) h
  | uni hex =>
    obtain ⟨_, _, hd, _⟩ := hok
    apply utf8_ascii_append (92 :: 117 :: 123 :: (hex ++ [125])) _ h
    intro b hb
    simp at hb
    rcases hb with rfl | rfl | rfl | hb | rfl
    · decide
    · decide
    · decide
    · exact (isDigit16_ne (hd b hb)).2.2
    · decide

theorem utf8_renderAll (items : List StrItem) (hok : ∀ it ∈ items, it.Ok) {rest : Bytes} (h : Utf8 rest) :
    Utf8 (renderAll items ++ rest) := by
  induction items with
  | nil => exact h
  | cons it r ih =>
    simp only [renderAll, List.append_assoc]
    exact utf8_render it (hok it (by simp)) (ih (fun x hx => hok x (by simp [hx])))

theorem rawStrChar_nonstop {c : Nat} (hc : RawStrChar c) : ∀ b ∈ encodeChar c, isStrStop b = false := by
  obtain ⟨hs, hadm⟩ := hc
  intro b hb
  by_cases h : c < 128
  · rw [encodeChar_ascii c h] at hb
    simp at hb; subst hb
    simp only [isStrStop]
    rw [toNat_toUInt8 _ (by omega)]
    simp; omega
  · have := encodeChar_high c hs (by omega) b hb
    simp [isStrStop]; omega

theorem renderAll_raw (items : List StrItem) (h : items.all StrItem.isRaw = true) : renderAll items = denoteAll items := by
  induction items with
  | nil => rfl
  | cons it r ih =>
    simp only [List.all_cons, Bool.and_eq_true] at h
    cases it with
    | raw c => simp [renderAll, denoteAll, StrItem.render, StrItem.value, ih h.2]
    | esc e => simp [StrItem.isRaw] at h
    | uni x => simp [StrItem.isRaw] at h

/-- **The scanner on a well-formed body.** Started at the beginning of `rawacc ++ body ++ tail` with `esc`
already collected, the scanner reaches the last iteration — the one that inspects the first byte of `tail` —
with everything the body denotes collected in `esc' ++ raw'`, where `raw'` is the raw text since the last
escape (not yet pushed). `esc'` is empty exactly when nothing was pushed (the payload is then borrowed). -/
theorem strLoop_items (d tail : Bytes) (hut : Utf8 tail) :
    ∀ (todo : List StrItem) (pre rawacc esc : Bytes) (f : Nat),
      d = pre ++ rawacc ++ renderAll todo ++ tail → (∀ it ∈ todo, it.Ok) → todo.length < f →
      (endsWithEsc todo = true → tail ≠ []) →
      (∀ b ∈ rawacc, isStrStop b = false) → (∀ b, rawacc.head? = some b → isCont b = false) →
      ∃ pre' raw' esc' f', d = pre' ++ raw' ++ tail ∧ (∀ b ∈ raw', isStrStop b = false) ∧
        (∀ b, raw'.head? = some b → isCont b = false) ∧
        esc' ++ raw' = esc ++ rawacc ++ denoteAll todo ∧ (esc' = [] ↔ (esc = [] ∧ todo.all StrItem.isRaw = true)) ∧
        strLoop d f pre.length esc = strLoop d (f' + 1) pre'.length esc' := by
  intro todo
  induction todo with
  | nil =>
    intro pre rawacc esc f hd _ hf _ hraw hrh
    obtain ⟨f', rfl⟩ : ∃ f', f = f' + 1 := ⟨f - 1, by omega⟩
    exact ⟨pre, rawacc, esc, f', by simpa [renderAll] using hd, hraw, hrh, by simp [denoteAll], by simp, rfl⟩
  | cons it todo ih =>
    intro pre rawacc esc f hd hok hf hroom hraw hrh
    have hokr : ∀ x ∈ todo, x.Ok := fun x hx => hok x (by simp [hx])
    have hurest : Utf8 (renderAll todo ++ tail) := utf8_renderAll todo hokr hut
    have hroomr : endsWithEsc todo = true → tail ≠ [] := by
      intro h
      apply hroom
      cases todo with
      | nil => simp [endsWithEsc] at h
      | cons a b => simpa [endsWithEsc] using h
    have hrestne : it.isEsc = true → renderAll todo ++ tail ≠ [] := by
      intro hie
      cases todo with
      | nil => simpa [renderAll] using hroom (by simp [endsWithEsc, hie])
      | cons a b =>
        have := render_ne_nil a
        simp [renderAll, this]
    cases it with
    | raw c =>
      have hc : RawStrChar c := hok (.raw c) (by simp)
      obtain ⟨pre', raw', esc', f', h1, h2, h3, h4, h5, h6⟩ := ih pre (rawacc ++ encodeChar c) esc f
        (by rw [hd]; simp [renderAll, StrItem.render]) hokr (by simp at hf; omega) hroomr
        (by intro b hb
            rcases List.mem_append.mp hb with hb | hb
            · exact hraw b hb
            · exact rawStrChar_nonstop hc b hb)
        (head_noncont_append hrh (encodeChar_head c hc.1 []) |> fun h => by simpa using h)
      refine ⟨pre', raw', esc', f', h1, h2, h3, ?_, ?_, h6⟩
      · rw [h4]; simp [denoteAll, StrItem.value]
      · rw [h5]; simp [StrItem.isRaw]
    | esc e =>
      have he : (escValue e.toNat).isSome = true := hok (.esc e) (by simp)
      obtain ⟨v, hv⟩ := Option.isSome_iff_exists.mp he
      obtain ⟨g, rfl⟩ : ∃ g, f = g + 1 := ⟨f - 1, by simp at hf; omega⟩
      have hd2 : d = pre ++ rawacc ++ 92 :: (e :: (renderAll todo ++ tail)) := by
        rw [hd]; simp [renderAll, StrItem.render]
      have hne := hrestne rfl
      have hplen : ¬ (e :: (renderAll todo ++ tail)).length < 2 := by
        have : 0 < (renderAll todo ++ tail).length := List.length_pos_iff.mpr hne
        simp only [List.length_cons]; omega
      have hstep := strLoop_step pre rawacc 92 (e :: (renderAll todo ++ tail)) esc g hraw (by decide)
        (head_noncont_append hrh (by intro b hb; simp at hb; subst hb; decide))
      rw [← hd2] at hstep
      simp only [show (92 : UInt8).toNat = 92 by decide, show ¬ ((92 : Nat) < 32 ∨ (92 : Nat) ≥ 127) by omega, if_false,
        if_true, hplen] at hstep
      have hesc := strEscape_simple (pre ++ rawacc) 92 e (renderAll todo ++ tail) (esc ++ rawacc) v hv
      rw [List.length_append] at hesc
      rw [← hd2] at hesc
      rw [hesc] at hstep
      simp only at hstep
      obtain ⟨pre', raw', esc', f', h1, h2, h3, h4, h5, h6⟩ := ih (pre ++ rawacc ++ [92, e]) [] (esc ++ rawacc ++ encodeChar v) g
        (by rw [hd2]; simp) hokr (by simp at hf; omega) hroomr (by simp) (by simp)
      refine ⟨pre', raw', esc', f', h1, h2, h3, ?_, ?_, ?_⟩
      · rw [h4]; simp [denoteAll, StrItem.value, hv]
      · rw [h5]
        have := encodeChar_ne_nil v
        simp [StrItem.isRaw, this]
      · rw [hstep, ← h6]; simp [Nat.add_assoc]
    | uni hex =>
      have hh : HexOk hex := hok (.uni hex) (by simp)
      obtain ⟨hne, hlen, hdig, hsc⟩ := hh
      obtain ⟨g, rfl⟩ : ∃ g, f = g + 1 := ⟨f - 1, by simp at hf; omega⟩
      have hd2 : d = pre ++ rawacc ++ 92 :: (117 :: 123 :: (hex ++ 125 :: (renderAll todo ++ tail))) := by
        rw [hd]; simp [renderAll, StrItem.render]
      have hstep := strLoop_step pre rawacc 92 (117 :: 123 :: (hex ++ 125 :: (renderAll todo ++ tail))) esc g hraw
        (by decide) (head_noncont_append hrh (by intro b hb; simp at hb; subst hb; decide))
      rw [← hd2] at hstep
      have hplen : ¬ ((117 : UInt8) :: 123 :: (hex ++ 125 :: (renderAll todo ++ tail))).length < 2 := by
        simp
      simp only [show (92 : UInt8).toNat = 92 by decide, show ¬ ((92 : Nat) < 32 ∨ (92 : Nat) ≥ 127) by omega, if_false,
        if_true, hplen] at hstep
      have hr3 : Utf8 (hex ++ 125 :: (renderAll todo ++ tail)) :=
        utf8_ascii_append hex (fun b hb => (isDigit16_ne (hdig b hb)).2.2) (utf8_ascii_cons 125 (by decide) hurest)
      have hesc := strEscape_uni (pre ++ rawacc) 92 117 123 (hex ++ 125 :: (renderAll todo ++ tail)) (esc ++ rawacc)
        hex 125 (renderAll todo ++ tail) (by decide) (by decide) rfl hr3 (by decide)
        (fun b hb => (isDigit16_ne (hdig b hb)).2.1) hlen
      rw [List.length_append] at hesc
      rw [← hd2] at hesc
      have hparse : u32FromHex hex = some (valueFrom 16 hex 0) := by
        cases hex with
        | nil => exact absurd rfl hne
        | cons t0 tt =>
          have h43 := (isDigit16_ne (hdig t0 (by simp))).1
          have : (t0.toNat == 43) = false := by simpa using h43
          simp only [u32FromHex, this, Bool.false_eq_true, if_false]
          rw [parseDigits_eq 16 _ (by omega) _ 0 hdig (by omega)]
          have : valueFrom 16 (t0 :: tt) 0 ≤ 4294967295 := by
            simp only [isScalar, Bool.or_eq_true, Bool.and_eq_true, decide_eq_true_eq] at hsc; omega
          simp [this]
      have hhead : ¬ hex.head? = some 43 := by
        cases hex with
        | nil => simp
        | cons t0 tt =>
          have h43 := (isDigit16_ne (hdig t0 (by simp))).1
          intro h; simp at h; subst h; exact h43 rfl
      rw [hparse] at hesc
      simp only [hhead, if_false, hsc, if_true] at hesc
      rw [hesc] at hstep
      simp only at hstep
      obtain ⟨pre', raw', esc', f', h1, h2, h3, h4, h5, h6⟩ := ih (pre ++ rawacc ++ 92 :: 117 :: 123 :: (hex ++ [125])) []
        (esc ++ rawacc ++ encodeChar (valueFrom 16 hex 0)) g
        (by rw [hd2]; simp) hokr (by simp at hf; omega) hroomr (by simp) (by simp)
      refine ⟨pre', raw', esc', f', h1, h2, h3, ?_, ?_, ?_⟩
      · rw [h4]; simp [denoteAll, StrItem.value]
      · rw [h5]
        have := encodeChar_ne_nil (valueFrom 16 hex 0)
        simp [StrItem.isRaw, this]
      · have hl : (pre ++ rawacc ++ 92 :: 117 :: 123 :: (hex ++ [125])).length = pre.length + rawacc.length + 4 + hex.length := by
          simp; omega
        rw [hstep, ← h6, hl]

theorem length_le_renderAll (items : List StrItem) : items.length ≤ (renderAll items).length := by
  induction items with
  | nil => simp [renderAll]
  | cons it r ih =>
    have : 0 < it.render.length := List.length_pos_iff.mpr (render_ne_nil it)
    simp only [renderAll, List.length_cons, List.length_append]; omega

theorem utf8_quote : Utf8 [(34 : UInt8)] := utf8_ascii_cons 34 (by decide) Utf8.nil

/-- the string arm on a well-formed literal: the payload is the UTF-8 text of the characters denoted -/
theorem lexString_items (items : List StrItem) (hok : ∀ it ∈ items, it.Ok) (rest : Bytes) (hrest : Utf8 rest) (l k : Nat) :
    lexString ⟨34 :: renderAll items ++ 34 :: rest, false, l, k⟩ =
      .tok ⟨l, k, .str (denoteAll items)⟩
        ⟨rest, false, (adv (l, k) (34 :: renderAll items ++ [34])).1, (adv (l, k) (34 :: renderAll items ++ [34])).2⟩ := by
  have htail : Utf8 ((34 : UInt8) :: rest) := utf8_ascii_cons 34 (by decide) hrest
  have hbody : Utf8 (renderAll items ++ 34 :: rest) := utf8_renderAll items hok htail
  have hall : Utf8 ((34 : UInt8) :: renderAll items ++ 34 :: rest) := utf8_ascii_cons 34 (by decide) hbody
  have hlen := length_le_renderAll items
  obtain ⟨pre', raw', esc', f', h1, h2, h3, h4, h5, h6⟩ :=
    strLoop_items ((34 : UInt8) :: renderAll items ++ 34 :: rest) (34 :: rest) htail items [34] [] []
      ((34 : UInt8) :: renderAll items ++ 34 :: rest).length (by simp) hok
      (by simp only [List.length_cons, List.length_append]; omega) (by simp) (by simp) (by simp)
  have hstep := strLoop_step pre' raw' 34 rest esc' f' h2 (by decide)
    (head_noncont_append h3 (by intro b hb; simp at hb; subst hb; decide))
  rw [← h1] at hstep
  simp only [show (34 : UInt8).toNat = 34 by decide, show ¬ ((34 : Nat) < 32 ∨ (34 : Nat) ≥ 127) by omega,
    show ¬ ((34 : Nat) = 92) by omega, if_false] at hstep
  simp only [List.nil_append, List.append_nil] at h4 h5 h6
  have hpos : pre'.length + raw'.length + 1 = ((34 : UInt8) :: renderAll items ++ [34]).length := by
    have := congrArg List.length h1
    simp at this ⊢; omega
  have hpr : pre' ++ raw' = 34 :: renderAll items := by
    have : pre' ++ raw' ++ 34 :: rest = (34 :: renderAll items) ++ 34 :: rest := by rw [← h1]
    exact List.append_cancel_right this
  have hmid : ((34 : UInt8) :: renderAll items ++ 34 :: rest) = ((34 : UInt8) :: renderAll items ++ [34]) ++ rest := by simp
  unfold lexString
  simp only
  simp only [List.length_singleton] at h6
  rw [h6, hstep, hpos]
  simp only
  by_cases he : esc' = []
  · have hraws := (h5.mp he).2
    simp only [he, if_true, List.isEmpty_nil, Bool.not_true, Bool.false_eq_true, if_false]
    rw [if_neg (by simp)]
    have hsl : slice ((34 : UInt8) :: renderAll items ++ 34 :: rest) 1
        (1 + (renderAll items).length) = some (renderAll items) := by
      have := slice_split [(34 : UInt8)] (renderAll items) (34 :: rest) (utf8_head? hbody) (utf8_head? htail)
      simpa using this
    have hidx : ((34 : UInt8) :: renderAll items ++ [34]).length - 1 = 1 + (renderAll items).length := by
      simp only [List.length_cons, List.length_append, List.length_nil]; omega
    rw [hidx, hsl]
    simp only
    rw [show Tok.str (renderAll items) = Tok.str (denoteAll items) by rw [renderAll_raw items hraws]]
    exact emit_eq _ _ rest _ _ hmid hall hrest (by simp)
  · have hne : (esc' ++ raw').isEmpty = false := by simp [he]
    simp only [he, if_false, hne, Bool.not_false, if_true]
    rw [h4]
    exact emit_eq _ _ rest _ _ hmid hall hrest (by simp)

/-- a tail at which the scanner gives up: whatever raw text precedes it, the iteration that reaches it
returns the `BadString` exit (directly, or through the end-of-text exit) -/
def BadTail (tail : Bytes) : Prop :=
  ∀ (pre raw esc : Bytes) (f : Nat), (∀ b ∈ raw, isStrStop b = false) → (∀ b, raw.head? = some b → isCont b = false) →
    strLoop (pre ++ raw ++ tail) (f + 1) pre.length esc = .bad ∨ strLoop (pre ++ raw ++ tail) (f + 1) pre.length esc = .eof

theorem lexString_reject (items : List StrItem) (hok : ∀ it ∈ items, it.Ok) (tail : Bytes) (hut : Utf8 tail)
    (hroom : endsWithEsc items = true → tail ≠ []) (hbad : BadTail tail) (l k : Nat) :
    lexString ⟨34 :: renderAll items ++ tail, false, l, k⟩ = .err ⟨l, k, .badString⟩ ⟨[], false, l, k⟩ := by
  have hlen := length_le_renderAll items
  obtain ⟨pre', raw', esc', f', h1, h2, h3, h4, h5, h6⟩ :=
    strLoop_items ((34 : UInt8) :: renderAll items ++ tail) tail hut items [34] [] []
      ((34 : UInt8) :: renderAll items ++ tail).length (by simp) hok
      (by simp only [List.length_cons, List.length_append]; omega) hroom (by simp) (by simp)
  have hb := hbad pre' raw' esc' f' h2 h3
  rw [← h1] at hb
  unfold lexString
  simp only
  simp only [List.length_singleton] at h6
  rw [h6]
  rcases hb with hb | hb <;> rw [hb] <;> simp [fail, failEof, State.clear]

theorem badTail_nil : BadTail [] := by
  intro pre raw esc f hraw hh
  right
  simpa using strLoop_eof pre raw esc f hraw hh

/-- a raw control character (other than TAB) or DEL -/
theorem badTail_control (b : UInt8) (rest : Bytes) (hb : (b.toNat < 32 ∧ b.toNat ≠ 9) ∨ b.toNat = 127) :
    BadTail (b :: rest) := by
  intro pre raw esc f hraw hh
  left
  have hstop : isStrStop b = true := by simp [isStrStop]; omega
  rw [strLoop_step pre raw b rest esc f hraw hstop
    (head_noncont_append hh (by intro x hx; simp at hx; subst hx; rw [isCont_false_iff]; omega))]
  rw [if_pos (by omega)]

/-- a backslash with fewer than two bytes after it -/
theorem badTail_short (rest : Bytes) (h : rest.length < 2) : BadTail (92 :: rest) := by
  intro pre raw esc f hraw hh
  left
  rw [strLoop_step pre raw 92 rest esc f hraw (by decide)
    (head_noncont_append hh (by intro x hx; simp at hx; subst hx; decide))]
  simp only [show (92 : UInt8).toNat = 92 by decide, show ¬ ((92 : Nat) < 32 ∨ (92 : Nat) ≥ 127) by omega, if_false,
    if_true, h]

/-- the general shape of the remaining classes: a backslash whose escape sequence is refused -/
theorem badTail_escape (rest : Bytes)
    (h : ∀ (a esc1 : Bytes), strEscape (a ++ 92 :: rest) a.length esc1 = .bad ∨ strEscape (a ++ 92 :: rest) a.length esc1 = .eof) :
    BadTail (92 :: rest) := by
  intro pre raw esc f hraw hh
  rw [strLoop_step pre raw 92 rest esc f hraw (by decide)
    (head_noncont_append hh (by intro x hx; simp at hx; subst hx; decide))]
  simp only [show (92 : UInt8).toNat = 92 by decide, show ¬ ((92 : Nat) < 32 ∨ (92 : Nat) ≥ 127) by omega, if_false,
    if_true]
  split
  · exact .inl rfl
  · have := h (pre ++ raw) (esc ++ raw)
    rw [List.length_append] at this
    rcases this with h | h <;> rw [h] <;> simp

theorem badTail_unknown (e : UInt8) (rest : Bytes) (hv : escValue e.toNat = none) (hu : e.toNat ≠ 117) :
    BadTail (92 :: e :: rest) :=
  badTail_escape _ (fun a esc1 => .inl (strEscape_unknown a 92 e rest esc1 hv hu))

theorem badTail_nobrace (g : UInt8) (rest : Bytes) (hg : g.toNat ≠ 123) : BadTail (92 :: 117 :: g :: rest) :=
  badTail_escape _ (fun a esc1 => .inl (strEscape_nobrace a 92 117 g rest esc1 (by decide) hg))

/-- no closing brace among the seven bytes after `\u{` (in particular: more than six digits) -/
theorem badTail_uni_open (r3 : Bytes) (hr : Utf8 r3) (hno : ∀ b ∈ r3.take 7, b.toNat ≠ 125) :
    BadTail (92 :: 117 :: 123 :: r3) :=
  badTail_escape _ (fun a esc1 => .inr (strEscape_uni_eof a 92 117 123 r3 esc1 (by decide) (by decide) hr hno))

/-- `\u{text}` whose text is not 1–6 hexadecimal digits of a scalar value: empty, signed, non-hex,
surrogate, above U+10FFFF -/
theorem badTail_uni_bad (text : Bytes) (more : Bytes) (hr : Utf8 (text ++ 125 :: more))
    (hno : ∀ b ∈ text, b.toNat ≠ 125) (hlen : text.length ≤ 6) (hbad : ¬ HexOk text) :
    BadTail (92 :: 117 :: 123 :: (text ++ 125 :: more)) := by
  apply badTail_escape
  intro a esc1
  left
  rw [strEscape_uni a 92 117 123 (text ++ 125 :: more) esc1 text 125 more (by decide) (by decide) rfl hr (by decide) hno hlen]
  cases hx : u32FromHex text with
  | none => rfl
  | some v =>
    simp only
    cases text with
    | nil => simp [u32FromHex] at hx
    | cons t0 tt =>
      by_cases h43 : t0 = 43
      · subst h43; simp
      · have hn43 : ¬ t0.toNat = 43 := by
          intro h; apply h43; exact UInt8.toNat_inj.mp (by simpa using h)
        have : (t0.toNat == 43) = false := by simpa using hn43
        simp only [u32FromHex, this, Bool.false_eq_true, if_false] at hx
        simp only [List.head?_cons, Option.some.injEq, h43, if_false]
        by_cases hdig : ∀ b ∈ t0 :: tt, isDigit 16 b = true
        · rw [parseDigits_eq 16 _ (by omega) _ 0 hdig (by omega)] at hx
          split at hx
          · cases hx
            have : isScalar (valueFrom 16 (t0 :: tt) 0) = false := by
              cases hs : isScalar (valueFrom 16 (t0 :: tt) 0) with
              | false => rfl
              | true => exact absurd ⟨by simp, hlen, hdig, hs⟩ hbad
            simp [this]
          · cases hx
        · have : ∃ b ∈ t0 :: tt, isDigit 16 b = false := by
            apply Classical.byContradiction
            intro hcon
            apply hdig
            intro b hb
            cases hd : isDigit 16 b with
            | true => rfl
            | false => exact absurd ⟨b, hb, hd⟩ hcon
          rw [parseDigits_nondigit 16 _ _ 0 this] at hx
          cases hx

end Trion.Lex
