import TrionModel.Lemmas.LexPieces
import TrionModel.Lemmas.ShowText
import TrionModel.Lemmas.ParseStmt
import TrionModel.Spec.Front
/-!
# The tokenizer and the parser read the disassembly text back (C19, text → tokens → trees)

`stmtPieces p` cuts `Show.render p` into pieces (mnemonic, blanks, operands, `, `, `;`) for statements whose
operands have the shapes `Show.parts` produces (`Opnd`): a non-negative integer, an identifier, `[a + b]`,
`{a, b, …}`. The pieces are valid for `Lex.run_pieces`, their text is `render p`, and their token values are
`Render.elemVal (.instruction …)`, which `Parse.element` reads back (C09 `stmt_roundtrip`).
-/
namespace Trion.Show
open Trion.Lex

/-! ### decimal numbers -/

theorem digitChar_byte : ∀ d, d < 10 → (Nat.digitChar d).toNat.toUInt8 = (48 + d).toUInt8 := by decide

theorem decimal_eq (n : Nat) :
    decimal n = if n < 10 then [(48 + n).toUInt8] else decimal (n / 10) ++ [(48 + n % 10).toUInt8] := by
  unfold decimal
  rw [Nat.toDigits_eq_if (by decide)]
  split
  · rename_i h; simp [digitChar_byte n h]
  · simp [digitChar_byte (n % 10) (Nat.mod_lt _ (by decide))]

theorem digitVal_dec : ∀ d, d < 10 → digitVal 10 (48 + d).toUInt8 = some d := by decide

theorem valueFrom_snoc (r : Nat) (a : Bytes) (x : UInt8) (acc : Nat) :
    valueFrom r (a ++ [x]) acc = valueFrom r a acc * r + (digitVal r x).getD 0 := by
  simp [valueFrom, List.foldl_append]

theorem decimal_spec (n : Nat) :
    decimal n ≠ [] ∧ (∀ b ∈ decimal n, isDigit 10 b = true) ∧ valueFrom 10 (decimal n) 0 = n := by
  induction n using Nat.strongRecOn with
  | _ n ih =>
    rw [decimal_eq]
    split
    · rename_i h
      refine ⟨by simp, ?_, ?_⟩
      · intro b hb; rw [List.mem_singleton.mp hb]; unfold isDigit; rw [digitVal_dec n h]; rfl
      · show (0 * 10 + (digitVal 10 (48 + n).toUInt8).getD 0) = n
        rw [digitVal_dec n h]; simp
    · rename_i h
      obtain ⟨_, h2, h3⟩ := ih (n / 10) (by omega)
      have hm : n % 10 < 10 := Nat.mod_lt _ (by decide)
      refine ⟨by simp, ?_, ?_⟩
      · intro b hb
        rcases List.mem_append.mp hb with hb | hb
        · exact h2 b hb
        · rw [List.mem_singleton.mp hb]; unfold isDigit; rw [digitVal_dec _ hm]; rfl
      · rw [valueFrom_snoc, h3, digitVal_dec _ hm]
        simp only [Option.getD_some]; omega

theorem i64_decimal (n : Nat) (h : (n : Int) ≤ i64Max) : i64FromStrRadix (decimal n) 10 = some (n : Int) := by
  obtain ⟨h1, h2, h3⟩ := decimal_spec n
  cases hd : decimal n with
  | nil => exact absurd hd h1
  | cons a ds =>
    simp only [i64FromStrRadix]
    rw [← hd, parseDigits_eq 10 _ (by decide) _ 0 h2 (by decide), h3]
    have : n ≤ 9223372036854775807 := by simp [i64Max] at h; omega
    simp [this]

/-! ### operand shapes and their pieces -/

inductive Atom : Arg → Prop
  | const (v : Int) : 0 ≤ v → v ≤ i64Max → Atom (.const v)
  | ident (s : Bytes) : identOk s = true → Atom (.ident s)

inductive Opnd : Arg → Prop
  | atom {x : Arg} : Atom x → Opnd x
  | mem {l r : Arg} : Atom l → Atom r → Opnd (.addr (.bin .add l r))
  | set (l : List Arg) : (∀ x ∈ l, Atom x) → Opnd (.seq (Args.ofList l))

def sp : Piece := .ws [32]

def atomPieces : Arg → List Piece
  | .const v => [.tok (decimal v.toNat) (.num v)]
  | .ident s => [.tok s (.ident s)]
  | _ => []

def listPieces (f : Arg → List Piece) : List Arg → Bool → List Piece
  | [], _ => []
  | x :: xs, first => (if first then [] else [.tok [44] .sep, sp]) ++ f x ++ listPieces f xs false

def opndPieces : Arg → List Piece
  | .addr (.bin .add l r) =>
    .tok [91] .lbrack :: atomPieces l ++ [sp, .tok [43] .plus, sp] ++ atomPieces r ++ [.tok [93] .rbrack]
  | .seq xs => .tok [123] .lbrace :: listPieces atomPieces xs.toList true ++ [.tok [125] .rbrace]
  | x => atomPieces x

/-- the pieces of `NAME a, b, c;` -/
def stmtPieces (p : Bytes × List Arg) : List Piece :=
  .tok p.1 (.ident p.1) :: (if p.2.isEmpty then [] else sp :: listPieces opndPieces p.2 true) ++ [.tok [59] .term]

theorem toList_ofList (l : List Arg) : (Args.ofList l).toList = l := by
  induction l with
  | nil => rfl
  | cons a l ih => simp [Args.ofList, Args.toList, ih]

theorem opndPieces_atom {x : Arg} (h : Atom x) : opndPieces x = atomPieces x := by
  cases h <;> rfl

/-! ### the text of the pieces -/

theorem pbytes_atom {x : Arg} (h : Atom x) : pbytes (atomPieces x) = renderArg x := by
  cases h with
  | const v h0 _ =>
    have : ¬ v < 0 := by omega
    simp [atomPieces, pbytes, Piece.bytes, renderArg, intDec, this]
  | ident s _ => simp [atomPieces, pbytes, Piece.bytes, renderArg]

theorem pbytes_list (f : Arg → List Piece) (l : List Arg) (first : Bool)
    (h : ∀ x ∈ l, pbytes (f x) = renderArg x) :
    pbytes (listPieces f l first) = renderArgs (Args.ofList l) first := by
  induction l generalizing first with
  | nil => simp [listPieces, pbytes, Args.ofList, renderArgs]
  | cons x xs ih =>
    simp only [listPieces, Args.ofList, renderArgs, pbytes_append]
    rw [h x (by simp), ih false (fun y hy => h y (by simp [hy]))]
    cases first <;> simp [pbytes, Piece.bytes, sp, bytesOf]

theorem pbytes_opnd {x : Arg} (h : Opnd x) : pbytes (opndPieces x) = renderArg x := by
  cases h with
  | atom ha => rw [opndPieces_atom ha]; exact pbytes_atom ha
  | mem hl hr =>
    simp only [opndPieces, pbytes, Piece.bytes, pbytes_append, pbytes_atom hl, pbytes_atom hr, renderArg, opText, sp]
    simp [bytesOf]
  | set l hl =>
    simp only [opndPieces, pbytes, Piece.bytes, pbytes_append, toList_ofList, renderArg]
    rw [pbytes_list atomPieces l true (fun x hx => pbytes_atom (hl x hx))]
    simp [bytesOf]

theorem pbytes_stmt (p : Bytes × List Arg) (h : ∀ x ∈ p.2, Opnd x) : pbytes (stmtPieces p) = render p := by
  simp only [stmtPieces, render, pbytes, Piece.bytes, pbytes_append]
  cases hp : p.2 with
  | nil => simp [pbytes, bytesOf]
  | cons a as =>
    have := pbytes_list opndPieces p.2 true (fun x hx => pbytes_opnd (h x hx))
    rw [hp] at this
    simp [pbytes, Piece.bytes, sp, this, bytesOf]

/-! ### validity of the pieces -/

theorem follow_of_not_ident {b : UInt8} (h : isIdentByte b = false) : Follow (some b) := by
  intro c hc; cases hc; exact h

theorem valid_atom {x : Arg} (h : Atom x) {nx : Option UInt8} (hf : Follow nx) : Valid (atomPieces x) nx := by
  cases h with
  | const v h0 h1 =>
    refine ⟨?_, trivial⟩
    obtain ⟨d1, d2, _⟩ := decimal_spec v.toNat
    have hv : ((v.toNat : Nat) : Int) = v := Int.toNat_of_nonneg h0
    have := TokOk.num 10 (decimal v.toNat) v (firstOr (pbytes []) nx) (by omega) d1 d2
      (by rw [i64_decimal v.toNat (by rw [hv]; exact h1), hv]) hf
    simpa [radixPrefix] using this
  | ident s hs => exact ⟨TokOk.ident s _ hs hf, trivial⟩

theorem firstOr_follow (d : Bytes) (nx : Option UInt8) (hd : ∀ b, d.head? = some b → isIdentByte b = false)
    (hf : Follow nx) : Follow (firstOr d nx) := by
  cases d with
  | nil => exact hf
  | cons b r => exact follow_of_not_ident (hd b rfl)

theorem valid_list (f : Arg → List Piece) (l : List Arg) (first : Bool)
    (h : ∀ x ∈ l, ∀ nx, Follow nx → Valid (f x) nx) {nx : Option UInt8} (hf : Follow nx) :
    Valid (listPieces f l first) nx ∧
      (first = false → ∀ b, (pbytes (listPieces f l first)).head? = some b → isIdentByte b = false) := by
  induction l generalizing first with
  | nil => exact ⟨trivial, by intro _ b hb; simp [listPieces, pbytes] at hb⟩
  | cons x xs ih =>
    obtain ⟨ihv, ihh⟩ := ih false (fun y hy => h y (by simp [hy]))
    have hx : Valid (f x) (firstOr (pbytes (listPieces f xs false)) nx) :=
      h x (by simp) _ (firstOr_follow _ _ (ihh rfl) hf)
    have hfx : Valid (f x ++ listPieces f xs false) nx := valid_append hx ihv
    constructor
    · cases first with
      | true => simpa [listPieces] using hfx
      | false =>
        simp only [listPieces, Bool.false_eq_true, if_false, List.append_assoc]
        exact ⟨TokOk.punct 44 .sep _ (by decide) (by decide), ⟨by decide, hfx⟩⟩
    · intro hfirst b hb
      subst hfirst
      simp [listPieces, pbytes, Piece.bytes] at hb
      subst hb; decide

theorem valid_opnd {x : Arg} (h : Opnd x) {nx : Option UInt8} (hf : Follow nx) : Valid (opndPieces x) nx := by
  cases h with
  | atom ha => rw [opndPieces_atom ha]; exact valid_atom ha hf
  | mem hl hr =>
    have h2 : Valid (atomPieces _ ++ [Piece.tok [93] Tok.rbrack]) nx :=
      valid_append (valid_atom hr (by simp [pbytes, Piece.bytes, firstOr]; exact follow_of_not_ident (by decide)))
        ⟨TokOk.punct 93 .rbrack _ (by decide) (by decide), trivial⟩
    have h3 : Valid ([sp, Piece.tok [43] Tok.plus, sp] ++ (atomPieces _ ++ [Piece.tok [93] Tok.rbrack])) nx :=
      ⟨by decide, TokOk.punct 43 .plus _ (by decide) (by decide), by decide, h2⟩
    have h4 := valid_append (a := atomPieces _) (valid_atom hl
      (by simp [pbytes, Piece.bytes, firstOr, sp]; exact follow_of_not_ident (by decide))) h3
    simp only [opndPieces, List.append_assoc]
    exact ⟨TokOk.punct 91 .lbrack _ (by decide) (by decide), h4⟩
  | set l hl =>
    have hcl : Valid [Piece.tok [125] Tok.rbrace] nx := ⟨TokOk.punct 125 .rbrace _ (by decide) (by decide), trivial⟩
    have := (valid_list atomPieces l true (fun x hx nx' hf' => valid_atom (hl x hx) hf')
      (nx := firstOr (pbytes [Piece.tok [125] Tok.rbrace]) nx)
      (by simp [pbytes, Piece.bytes, firstOr]; exact follow_of_not_ident (by decide))).1
    simp only [opndPieces, toList_ofList]
    exact ⟨TokOk.punct 123 .lbrace _ (by decide) (by decide), valid_append this hcl⟩

theorem valid_stmt (p : Bytes × List Arg) (hn : identOk p.1 = true) (h : ∀ x ∈ p.2, Opnd x) (nx : Option UInt8) :
    Valid (stmtPieces p) nx := by
  have hterm : Valid [Piece.tok [59] Tok.term] nx := ⟨TokOk.punct 59 .term _ (by decide) (by decide), trivial⟩
  unfold stmtPieces
  cases hp : p.2 with
  | nil =>
    simp only [List.isEmpty_nil, if_true, List.nil_append]
    exact ⟨TokOk.ident p.1 _ hn (by simp [pbytes, Piece.bytes, firstOr]; exact follow_of_not_ident (by decide)), hterm⟩
  | cons a as =>
    simp only [List.isEmpty_cons, Bool.false_eq_true, if_false]
    have hl := (valid_list opndPieces (a :: as) true (fun x hx nx' hf' => valid_opnd (h x (by rw [hp]; exact hx)) hf')
      (nx := firstOr (pbytes [Piece.tok [59] Tok.term]) nx)
      (by simp [pbytes, Piece.bytes, firstOr]; exact follow_of_not_ident (by decide))).1
    refine ⟨TokOk.ident p.1 _ hn ?_, ?_⟩
    · simp [pbytes, Piece.bytes, firstOr, sp]; exact follow_of_not_ident (by decide)
    · exact ⟨by decide, valid_append hl hterm⟩

/-! ### the token values of the pieces are the rendered statement -/

theorem tokVals_atom {x : Arg} (h : Atom x) (m : Nat) : tokVals (atomPieces x) = Render.arg m x := by
  cases h <;> simp [atomPieces, tokVals, Render.arg]

theorem tokVals_list (f : Arg → List Piece) (l : List Arg) (h : ∀ x ∈ l, tokVals (f x) = Render.arg 0 x) :
    tokVals (listPieces f l true) = Render.args (Args.ofList l) ∧
      (l ≠ [] → tokVals (listPieces f l false) = .sep :: Render.args (Args.ofList l)) := by
  induction l with
  | nil => exact ⟨rfl, fun h => absurd rfl h⟩
  | cons x xs ih =>
    obtain ⟨_, ih2⟩ := ih (fun y hy => h y (by simp [hy]))
    have hx := h x (by simp)
    cases xs with
    | nil =>
      simp [listPieces, tokVals_append, tokVals, hx, Args.ofList, Render.args, sp]
    | cons y ys =>
      have := ih2 (by simp)
      have e1 : listPieces f (x :: y :: ys) true = f x ++ listPieces f (y :: ys) false := rfl
      have e2 : listPieces f (x :: y :: ys) false = [.tok [44] .sep, sp] ++ (f x ++ listPieces f (y :: ys) false) := rfl
      have e3 : Render.args (Args.ofList (x :: y :: ys)) = Render.arg 0 x ++ .sep :: Render.args (Args.ofList (y :: ys)) := rfl
      refine ⟨?_, fun _ => ?_⟩
      · rw [e1, tokVals_append, hx, this, e3]
      · rw [e2, tokVals_append, tokVals_append, hx, this, e3]; rfl

theorem tokVals_opnd {x : Arg} (h : Opnd x) : tokVals (opndPieces x) = Render.arg 0 x := by
  cases h with
  | atom ha => rw [opndPieces_atom ha]; exact tokVals_atom ha 0
  | mem hl hr =>
    simp [opndPieces, tokVals, tokVals_append, tokVals_atom hl 4, tokVals_atom hr 5, Render.arg, Render.paren,
      BinOp.group, BinOpGroup.toNat, BinOp.tok, sp]
  | set l hl =>
    simp [opndPieces, tokVals, tokVals_append, toList_ofList, Render.arg,
      (tokVals_list atomPieces l (fun x hx => tokVals_atom (hl x hx) 0)).1]

theorem tokVals_stmt (p : Bytes × List Arg) (h : ∀ x ∈ p.2, Opnd x) :
    tokVals (stmtPieces p) = Render.elemVal (.instruction p.1 (Args.ofList p.2)) := by
  simp only [stmtPieces, Render.elemVal, tokVals, tokVals_append]
  cases hp : p.2 with
  | nil => simp [tokVals, Args.ofList, Render.args]
  | cons a as =>
    have := (tokVals_list opndPieces p.2 (fun x hx => tokVals_opnd (h x hx))).1
    rw [hp] at this
    simp [tokVals, sp, this]

/-! ### well-formed trees -/

theorem atom_wf {x : Arg} (h : Atom x) : x.wf := by
  cases h with
  | const v h0 h1 => exact ⟨h0, h1⟩
  | ident s hs => simp only [Arg.wf]; intro e; subst e; simp [identOk] at hs

theorem args_wf (l : List Arg) (h : ∀ x ∈ l, x.wf) : (Args.ofList l).wf := by
  induction l with
  | nil => simp [Args.ofList, Args.wf]
  | cons a l ih => exact ⟨h a (by simp), ih (fun x hx => h x (by simp [hx]))⟩

theorem opnd_wf {x : Arg} (h : Opnd x) : x.wf := by
  cases h with
  | atom ha => exact atom_wf ha
  | mem hl hr => exact ⟨atom_wf hl, atom_wf hr⟩
  | set l hl => simp only [Arg.wf]; exact args_wf l (fun x hx => atom_wf (hl x hx))

theorem stmt_wf (p : Bytes × List Arg) (hn : identOk p.1 = true) (h : ∀ x ∈ p.2, Opnd x) :
    (ElemVal.instruction p.1 (Args.ofList p.2)).wf := by
  refine ⟨?_, args_wf _ (fun x hx => opnd_wf (h x hx))⟩
  intro e; rw [e] at hn; simp [identOk] at hn

end Trion.Show
