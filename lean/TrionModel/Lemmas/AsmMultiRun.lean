import TrionModel.Lemmas.AsmMultiTasks
import TrionModel.Lemmas.AsmMultiLayout
import TrionModel.Lemmas.AsmScopeRel
/-!
# A project with `.include` (file-local names) against the two-pass reference: the simulation

`FlatEls … id path t nxt c els p nxt'`: `p` is the program of the layout core obtained from the statements `els` of the
file instance `id` (path `path`, abstracted over the table `t`, reference cursor `c` in front) by splicing, in place of
every `.include` statement, the program of the included file (a new instance, numbered in preorder from `nxt`;
abstracted over a table `t'` of its own; the cursor carries across the boundary in both directions).  Names are numbered
per instance (`num id name`), so the flattened program lives in one flat symbol space although every file has its own
scope.  `E` is the final symbol table of the whole flattened program: every instance's table is `E` at that instance.

`doAssemble_sim` / `fileBody_sim` / `assembleFile_sim`: a successful, diagnostic-free run of a file (at any depth) whose
include tree uses no `.global/.import/.export` is an execution `MRun` (Lemmas/AsmMultiLayout.lean) of the layout core
on such a flattening.
-/
namespace Trion.Asm.Multi
open Trion Trion.SegLayout Trion.Asm
open Trion.Layout (MRun withTasks)

/-- an `.include` statement -/
def isInclude (el : Element) : Bool :=
  match el.val with
  | .directive name _ => name = bytesOf "include"
  | _ => false

/-- a statement of a project whose names are file-local: none of `.global / .import / .export` -/
def okInc (el : Element) : Bool :=
  match el.val with
  | .directive name _ => !(name = bytesOf "global" || name = bytesOf "import" || name = bytesOf "export")
  | _ => true

theorem okEl_of {el : Element} (h1 : okInc el = true) (h2 : isInclude el = false) : okEl el = true := by
  unfold okEl
  unfold okInc at h1
  unfold isInclude at h2
  split
  · rename_i name args hv
    rw [hv] at h1 h2
    simp only at h1 h2
    simp only [Bool.not_eq_true', Bool.or_eq_false_iff, decide_eq_false_iff_not] at h1 h2 ⊢
    exact ⟨⟨⟨h2, h1.1.1⟩, h1.1.2⟩, h1.2⟩
  · rfl

/-- the file a statement of the file `path` includes: its path and its text -/
def incTarget (fs : Bytes → Option Bytes) (path : Bytes) (el : Element) : Option (Bytes × Bytes) :=
  match el.val with
  | .directive name args =>
    if name = bytesOf "include" then
      match args.toList with
      | [.str p] =>
        match fs (sibling path p) with
        | some data => some (sibling path p, data)
        | none => none
      | _ => none
    else none
  | _ => none

theorem directive_include {fs : Bytes → Option Bytes} {inc : Inc} {env : Env} {st : St} {line col : Nat} {args : List Arg} :
    directive fs inc env st line col (bytesOf "include") args = includeDirective fs inc env st line col args := by
  delta directive
  simp only [show (bytesOf "include" = bytesOf "addr") = False from by decide,
    show (bytesOf "include" = bytesOf "align") = False from by decide,
    show (bytesOf "include" = bytesOf "const") = False from by decide,
    show (bytesOf "include" = bytesOf "du8") = False from by decide,
    show (bytesOf "include" = bytesOf "du16") = False from by decide,
    show (bytesOf "include" = bytesOf "du32") = False from by decide,
    show (bytesOf "include" = bytesOf "dhex") = False from by decide,
    show (bytesOf "include" = bytesOf "dstr") = False from by decide,
    show (bytesOf "include" = bytesOf "dfile") = False from by decide,
    show (bytesOf "include" = bytesOf "global") = False from by decide,
    show (bytesOf "include" = bytesOf "import") = False from by decide,
    show (bytesOf "include" = bytesOf "export") = False from by decide, if_false, if_true]

/-- a successful `.include` statement that left no diagnostic IS the recursive call on the file it names -/
theorem include_inv {fs : Bytes → Option Bytes} {enc : Encoder} {inc : Inc} {env : Env} {path : Bytes}
    {rest : List Bytes} (henv : env.paths = path :: rest) {st st' : St} {el : Element} (hi : isInclude el = true)
    (h : statement fs enc inc env st el = .ok (st', .ok)) :
    ∃ p' d', incTarget fs path el = some (p', d') ∧ inc env st d' p' = .ok (st', .ok) := by
  obtain ⟨line, col, val⟩ := el
  cases val with
  | label n => simp [isInclude] at hi
  | instruction n a => simp [isInclude] at hi
  | directive name args =>
    simp only [isInclude, decide_eq_true_eq] at hi
    subst hi
    simp only [statement, directive_include] at h
    unfold includeDirective at h
    simp only [incTarget, if_true]
    split at h
    · cases h
    · split at h
      · rename_i p hargs
        rw [hargs]
        simp only [henv] at h ⊢
        split at h
        · cases h
        · rename_i data hfs
          rw [hfs]
          simp only
          split at h
          · rename_i st1 hinc
            simp only [Out.ok.injEq, Prod.mk.injEq, and_true] at h
            subst h
            exact ⟨_, _, rfl, hinc⟩
          · rename_i st1 lv hinc
            simp only [Out.ok.injEq, Prod.mk.injEq] at h
            cases h.2
          · cases h
      · cases h
      · cases h

/-! ## the flattened program -/

inductive FlatEls (num : Nat → Bytes → Nat) (fs : Bytes → Option Bytes) (enc : Encoder) (E : Layout.Env) :
    Nat → Bytes → Table → Nat → Option Nat → List Element → List Layout.Stmt → Nat → Prop
  | nil (id : Nat) (path : Bytes) (t : Table) (nxt : Nat) (c : Option Nat) : FlatEls num fs enc E id path t nxt c [] [] nxt
  | stmt {id : Nat} {path : Bytes} {t : Table} {nxt : Nat} {c : Option Nat} {el : Element} {els : List Element}
      {p : List Layout.Stmt} {nxt' : Nat} : isInclude el = false →
      FlatEls num fs enc E id path t nxt (Layout.Ref.next c (absStmt (num id) fs enc path t c el)) els p nxt' →
      FlatEls num fs enc E id path t nxt c (el :: els) (absStmt (num id) fs enc path t c el :: p) nxt'
  | inc {id : Nat} {path : Bytes} {t : Table} {nxt : Nat} {c : Option Nat} {el : Element} {els : List Element}
      {p : List Layout.Stmt} {nxt' : Nat} {path' data' : Bytes} {els' : List Element} {perr' : Option ParseErr}
      {t' : Table} {pc : List Layout.Stmt} {nxt1 : Nat} :
      incTarget fs path el = some (path', data') → parseFile data' = .ok (els', perr') →
      EnvRel (num nxt) t' E →
      FlatEls num fs enc E nxt path' t' (nxt + 1) c els' pc nxt1 →
      FlatEls num fs enc E id path t nxt1 (Layout.Ref.cursorAfter c pc) els p nxt' →
      FlatEls num fs enc E id path t nxt c (el :: els) (pc ++ p) nxt'

/-- every statement of a flattened program is the abstraction of a source statement (not an `.include`) of some file
instance over that instance's table, and that table is `E` at the instance -/
theorem FlatEls.source {num : Nat → Bytes → Nat} {fs : Bytes → Option Bytes} {enc : Encoder} {E : Layout.Env} {id : Nat}
    {path : Bytes} {t : Table} {nxt : Nat} {c : Option Nat} {els : List Element} {p : List Layout.Stmt} {nxt' : Nat}
    (h : FlatEls num fs enc E id path t nxt c els p nxt') (ht : EnvRel (num id) t E) :
    ∀ s ∈ p, ∃ id' path' t' c' el, EnvRel (num id') t' E ∧ isInclude el = false ∧
      s = absStmt (num id') fs enc path' t' c' el := by
  induction h with
  | nil => intro s hs; cases hs
  | stmt hi _ ih =>
    intro s hs
    rcases List.mem_cons.mp hs with rfl | hs
    · exact ⟨_, _, _, _, _, ht, hi, rfl⟩
    · exact ih ht s hs
  | inc _ _ er _ _ ih1 ih2 =>
    intro s hs
    rcases List.mem_append.mp hs with hs | hs
    · exact ih1 er s hs
    · exact ih2 ht s hs

/-- names of different file instances, and different names of one instance, get different numbers -/
def NumInj (num : Nat → Bytes → Nat) : Prop := ∀ i j a b, num i a = num j b → i = j ∧ a = b

theorem NumInj.inj {num : Nat → Bytes → Nat} (h : NumInj num) (i : Nat) : Function.Injective (num i) :=
  fun a b e => (h i i a b e).2

theorem valueStmt_wf' (num : Bytes → Nat) {len : Nat} (deps : List Bytes) {final : Bytes} (h : final.length = len) :
    (valueStmt num len deps final).wf = true := by
  unfold valueStmt
  split <;> simp [Layout.Stmt.wf, h]

theorem absStmt_wf' {enc : Encoder} (henc : EncLen enc) (num : Bytes → Nat) (fs : Bytes → Option Bytes) (path : Bytes) (t : Table)
    (c : Option Nat) (el : Element) : (absStmt num fs enc path t c el).wf = true := by
  unfold absStmt
  repeat' split
  all_goals first
    | rfl
    | exact valueStmt_wf' num _ (instrFinal_length henc _ _ _ _)
    | exact valueStmt_wf' num _ (duFinal_length _ _ _)

/-- a statement defines a symbol of its own file instance only -/
theorem defines_absStmt (num : Bytes → Nat) {enc : Encoder} (fs : Bytes → Option Bytes) (path : Bytes) (t : Table)
    (c : Option Nat) (el : Element) (k : Nat) (h : Layout.defines (absStmt num fs enc path t c el) = some k) :
    ∃ n, k = num n := by
  unfold absStmt at h
  repeat' split at h
  all_goals first
    | (simp only [Layout.defines, Option.some.injEq] at h; exact ⟨_, h.symm⟩)
    | (simp only [junk, Layout.defines] at h; cases h)
    | (unfold valueStmt at h; split at h <;> simp [Layout.defines] at h)

/-! ## the recursive call -/

/-- what the recursive call of `.include` does, seen from the includer (`proj path data`: the included tree is free of
`.global/.import/.export`): the regions go through an execution of the layout core on a flattening
`pc` of the included file followed by its own task queue; the includer's tables and queues are as before; the symbols
defined are those of the instances `id ≤ j < id'` -/
def IncSim (num : Nat → Bytes → Nat) (enc : Encoder) (fs : Bytes → Option Bytes) (inc : Inc) (proj : Bytes → Bytes → Prop) : Prop :=
  ∀ (env : Env) (st st' : St) (data path : Bytes) (id : Nat) (l : Layout.State),
    proj path data → Good true st → env.paths.isEmpty = false → R st.seg l →
    (∀ j n, id ≤ j → l.env.get (num j n) = none) →
    inc env st data path = .ok (st', .ok) → st'.errors = [] →
    ∃ els perr t pc l1 l2 id', parseFile data = .ok (els, perr) ∧ id < id' ∧
      MRun (withTasks [] l) pc l1 ∧ Layout.runTasks (withTasks [] l1) l1.tasks = .ok l2 ∧
      R st'.seg l2 ∧ st'.locals = st.locals ∧ st'.localTasks = st.localTasks ∧ st'.globals = st.globals ∧
      st'.globalTasks = st.globalTasks ∧ cursor st' = Layout.Ref.cursorAfter (cursor st) pc ∧
      (∀ s ∈ pc, s.wf = true) ∧
      (∀ j n, (j < id ∨ id' ≤ j) → l2.env.get (num j n) = l.env.get (num j n)) ∧
      (∀ E : Layout.Env, (∀ j n, id ≤ j → j < id' → E.get (num j n) = l2.env.get (num j n)) →
        EnvRel (num id) t E ∧ FlatEls num fs enc E id path t (id + 1) (cursor st) els pc id')

section
variable {num : Nat → Bytes → Nat} {enc : Encoder} {t₂ : Table} {G : List Task} {Gt : Table}

/-! ## the statement loop -/

theorem doAssemble_sim (hinj : NumInj num) (henc : EncLen enc) (fs : Bytes → Option Bytes) (inc : Inc)
    (proj : Bytes → Bytes → Prop) (hincs : IncSim num enc fs inc proj) (hinc : IncOk inc) (hincg : IncGrew inc)
    (hincr : IncRel inc) (env : Env) (path : Bytes) (rest : List Bytes) (henv : env.paths = path :: rest)
    (perr : Option ParseErr) (id : Nat) :
    ∀ (els : List Element) (st stf : St) (l : Layout.State) (nxt : Nat),
      (∀ el ∈ els, okInc el = true ∧ ∀ p' d', incTarget fs path el = some (p', d') → proj p' d') →
      Sim (num id) enc t₂ G Gt st l → id < nxt → (∀ j n, nxt ≤ j → l.env.get (num j n) = none) →
      doAssemble fs enc inc env els perr st = .ok (stf, .ok) → stf.errors = [] → stf.locals = some t₂ →
      ∃ p lf nxt', nxt ≤ nxt' ∧ MRun l p lf ∧ Sim (num id) enc t₂ G Gt stf lf ∧
        cursor stf = Layout.Ref.cursorAfter (cursor st) p ∧ (∀ s ∈ p, s.wf = true) ∧
        (∀ j n, j ≠ id → (j < nxt ∨ nxt' ≤ j) → lf.env.get (num j n) = l.env.get (num j n)) ∧
        (∀ E : Layout.Env, (∀ j n, nxt ≤ j → j < nxt' → E.get (num j n) = lf.env.get (num j n)) →
          FlatEls num fs enc E id path t₂ nxt (cursor st) els p nxt') := by
  have henv' : env.paths.isEmpty = false := by rw [henv]; rfl
  intro els
  induction els with
  | nil =>
    intro st stf l nxt _ sim _ _ h herr hfin
    cases perr with
    | none =>
      simp only [doAssemble] at h; cases h
      exact ⟨[], l, nxt, Nat.le_refl _, .nil l, sim, rfl, fun _ hs => (by cases hs), fun _ _ _ _ => rfl, fun E _ => .nil ..⟩
    | some e => simp only [doAssemble] at h; cases h
  | cons el els ih =>
    intro st stf l nxt hok sim hid hfresh h herr hfin
    simp only [doAssemble] at h
    split at h
    · rename_i st1 hs
      have hok' := fun x hx => hok x (List.mem_cons_of_mem _ hx)
      have hel := hok el List.mem_cons_self
      have g1 := (doAssemble_grew hincg perr els st1 stf _ h)
      have herr1 : st1.errors = [] := (grew_nil g1 herr).1
      have hT : ∀ t', st1.locals = some t' → Table.Sub t' t₂ := by
        intro t' ht'
        obtain ⟨C, C', hC, hC', le, _⟩ := (doAssemble_rel hincr perr els st1 t' ht' _ _ h).tabs
        rw [ht'] at hC; cases hC
        rw [hfin] at hC'; cases hC'
        exact le
      have good1 := ((statement_safe henc hinc sim.good henv' fs el).2 _ _ hs).1
      by_cases hi : isInclude el = true
      · -- a complete included file
        obtain ⟨p', d', htgt, hcall⟩ := include_inv henv hi hs
        obtain ⟨t, hl, hnd, hsub, henvr⟩ := sim.tbl
        obtain ⟨q, hq, hqr⟩ := sim.tasks
        obtain ⟨els', perr', t', pc, l1, l2, id', hparse, hlt, hm, hrt, hR, e1, e2, e3, e4, hcur, hwf, hframe, hflat⟩ :=
          hincs env st st1 d' p' nxt l (hel.2 _ _ htgt) sim.good henv' sim.r hfresh hcall herr1
        have sim1 : Sim (num id) enc t₂ G Gt st1 (withTasks l.tasks l2) :=
          ⟨good1, hR, ⟨t, by rw [e1]; exact hl, hnd, hsub, fun n => by
              show l2.env.get (num id n) = _
              rw [hframe id n (.inl hid)]; exact henvr n⟩,
            ⟨q, by rw [e2]; exact hq, hqr⟩, ⟨e4.trans sim.gl.1, e3.trans sim.gl.2⟩⟩
        have hfresh1 : ∀ j n, id' ≤ j → (withTasks l.tasks l2).env.get (num j n) = none := fun j n hj => by
          show l2.env.get (num j n) = none
          rw [hframe j n (.inr hj)]; exact hfresh j n (by omega)
        obtain ⟨p, lf, nxt', hle, hm2, simf, hcurf, hwf2, hframe2, hflat2⟩ :=
          ih st1 stf _ id' hok' sim1 (by omega) hfresh1 h herr hfin
        refine ⟨pc ++ p, lf, nxt', by omega, .file hm hrt hm2, simf, ?_, ?_, ?_, ?_⟩
        · rw [Layout.cursorAfter_append, ← hcur]; exact hcurf
        · intro s hs'
          rcases List.mem_append.mp hs' with hs' | hs'
          · exact hwf s hs'
          · exact hwf2 s hs'
        · intro j n hj hjr
          rw [hframe2 j n hj (by omega)]
          show l2.env.get (num j n) = _
          exact hframe j n (by omega)
        · intro E hE
          have hEc : ∀ j n, nxt ≤ j → j < id' → E.get (num j n) = l2.env.get (num j n) := fun j n h1 h2 => by
            rw [hE j n h1 (by omega)]
            exact hframe2 j n (by omega) (.inl h2)
          obtain ⟨er, fl⟩ := hflat E hEc
          refine .inc htgt hparse er fl ?_
          rw [← hcur]
          exact hflat2 E (fun j n h1 h2 => hE j n (by omega) h2)
      · -- an ordinary statement
        have hi' : isInclude el = false := by simpa using hi
        have hokel := okEl_of hel.1 hi'
        obtain ⟨l1, s1, s2, s3⟩ := statement_sim (hinj.inj id) henc sim fs inc env path henv el hokel hs herr1 hT
        have sim1 : Sim (num id) enc t₂ G Gt st1 l1 := ⟨good1, s2.r, s2.tbl, s2.tasks, s2.gl⟩
        have henv1 : ∀ j n, j ≠ id → l1.env.get (num j n) = l.env.get (num j n) := fun j n hj =>
          Layout.step_env_raw l l1 _ s1 _ (fun hd => by
            obtain ⟨m, hm⟩ := defines_absStmt (num id) fs path t₂ (cursor st) el _ hd
            exact hj (hinj _ _ _ _ hm).1)
        obtain ⟨p, lf, nxt', hle, hm2, simf, hcurf, hwf2, hframe2, hflat2⟩ :=
          ih st1 stf l1 nxt hok' sim1 hid (fun j n hj => by rw [henv1 j n (by omega)]; exact hfresh j n hj) h herr hfin
        refine ⟨_ :: p, lf, nxt', hle, .step s1 hm2, simf, ?_, ?_, ?_, ?_⟩
        · simp only [Layout.Ref.cursorAfter]; rw [← s3]; exact hcurf
        · intro s hs'
          rcases List.mem_cons.mp hs' with rfl | hs'
          · exact absStmt_wf' henc ..
          · exact hwf2 s hs'
        · intro j n hj hjr
          rw [hframe2 j n hj hjr, henv1 j n hj]
        · intro E hE
          refine .stmt hi' ?_
          rw [← s3]
          exact hflat2 E hE
    · cases h
    · cases h

/-! ## a whole file -/

theorem fileBody_sim (hinj : NumInj num) (henc : EncLen enc) (fs : Bytes → Option Bytes) (inc : Inc)
    (proj : Bytes → Bytes → Prop) (hincs : IncSim num enc fs inc proj) (hinc : IncOk inc) (hincg : IncGrew inc)
    (hincr : IncRel inc) (env1 : Env) (path : Bytes) (rest : List Bytes) (henv : env1.paths = path :: rest)
    (data : Bytes) (id : Nat) (st2 st4 : St) (res : Res) (l2 : Layout.State)
    (hproj : ∀ els perr, parseFile data = .ok (els, perr) → ∀ el ∈ els, okInc el = true ∧
      ∀ p' d', incTarget fs path el = some (p', d') → proj p' d')
    (good : Good true st2) (r : R st2.seg l2) (hloc : st2.locals = some []) (hlt : st2.localTasks = some [])
    (hlk : l2.tasks = []) (hfresh : ∀ j n, id ≤ j → l2.env.get (num j n) = none)
    (h : fileBody fs enc inc env1 data st2 = .ok (st4, res)) (herr : st4.errors = []) :
    ∃ els perr t p l3 l4 id', parseFile data = .ok (els, perr) ∧ id < id' ∧ res = .ok ∧
      MRun l2 p l3 ∧ Layout.runTasks (withTasks [] l3) l3.tasks = .ok l4 ∧
      Good true st4 ∧ R st4.seg l4 ∧ st4.globals = st2.globals ∧ st4.globalTasks = st2.globalTasks ∧
      st4.localTasks = some [] ∧ st4.locals = some t ∧
      cursor st4 = Layout.Ref.cursorAfter (cursor st2) p ∧ (∀ s ∈ p, s.wf = true) ∧
      (∀ j n, (j < id ∨ id' ≤ j) → l4.env.get (num j n) = l2.env.get (num j n)) ∧
      (∀ E : Layout.Env, (∀ j n, id ≤ j → j < id' → E.get (num j n) = l4.env.get (num j n)) →
        EnvRel (num id) t E ∧ FlatEls num fs enc E id path t (id + 1) (cursor st2) els p id') := by
  have henv' : env1.paths.isEmpty = false := by rw [henv]; rfl
  obtain ⟨els, perr, hparse⟩ := parseFile_cases data
  have hfb' := h
  unfold fileBody at hfb'
  rw [hparse] at hfb'
  simp only at hfb'
  cases hda : doAssemble fs enc inc env1 els perr st2 with
  | stop x => rw [hda] at hfb'; cases hfb'
  | ok w =>
    obtain ⟨st3, res3⟩ := w
    rw [hda] at hfb'
    simp only at hfb'
    have gda := doAssemble_grew hincg perr els _ st3 res3 hda
    by_cases hfat : res3 = .err .fatal
    · exfalso
      rw [if_pos hfat] at hfb'
      cases hfb'
      subst hfat
      exact absurd (grew_nil gda herr).2 (by simp)
    · rw [if_neg hfat] at hfb'
      cases htk : st3.localTasks with
      | none => rw [htk] at hfb'; cases hfb'
      | some tasks =>
        rw [htk] at hfb'
        simp only at hfb'
        have gll := (localLoop_grew _ _ _ _ _ _ hfb').1
        have herr3 : st3.errors = [] := by
          rw [herr] at gll
          exact List.eq_nil_of_length_eq_zero (by simpa using gll)
        have hres3 : res3 = .ok := by
          have := (grew_nil gda herr3).2
          cases res3 with
          | ok => rfl
          | err lv => simp at this
        subst hres3
        -- the final table
        obtain ⟨C, t₂, hC, ht₂, _, _⟩ := (doAssemble_rel hincr perr els st2 [] hloc _ _ hda).tabs
        have sim2 : Sim (num id) enc t₂ st2.globalTasks st2.globals st2 l2 :=
          ⟨good, r, ⟨[], hloc, fun n hh => by simp [Table.find] at hh, fun n v hh => by simp [Table.find] at hh,
              fun n => by rw [hfresh id n (Nat.le_refl _)]; rfl⟩,
            ⟨[], hlt, by rw [hlk]; trivial⟩, ⟨rfl, rfl⟩⟩
        obtain ⟨p, lf, id', hle, hm, f2, hcur, hwf, hframe, hflat⟩ :=
          doAssemble_sim (t₂ := t₂) hinj henc fs inc proj hincs hinc hincg hincr env1 path rest henv perr id els st2 st3 l2
            (id + 1) (hproj els perr hparse) sim2 (Nat.lt_succ_self _) (fun j n hj => hfresh j n (by omega)) hda herr3 ht₂
        obtain ⟨t, e1, e2, _, e4⟩ := f2.tbl
        rw [ht₂] at e1; cases e1
        obtain ⟨qq, q1, q2⟩ := f2.tasks
        rw [htk] at q1; cases q1
        have gc := (good_clearLocal f2.good).1
        have tsim : TSim (num id) t₂ st2.globalTasks st2.globals { st3 with localTasks := some [] } (withTasks [] lf) :=
          ⟨gc, f2.r, ht₂, e2, e4, rfl, f2.gl⟩
        have hrounds : rounds = 6 + 2 := rfl
        rw [hrounds] at hfb'
        obtain ⟨l4, g1, g2, g3⟩ := localLoop_sim henc env1 henv' 6 tasks lf.tasks _ st4 _ res tsim q2
          (fun t m => f2.good.lt tasks htk t m) hfb' herr
        have hres : res = .ok := by
          have := (localLoop_grew _ _ _ _ _ _ hfb').2
          cases res with
          | ok => rfl
          | err lv =>
            exfalso
            rcases this rfl with h1 | h1
            · simp [Res.isErr] at h1
            · rw [herr, herr3] at h1; simp at h1
        have he4 : l4.env = lf.env := Layout.runTasks_env _ (withTasks [] lf) l4 g1
        refine ⟨els, perr, t₂, p, lf, l4, id', hparse, by omega, hres, hm, g1, g2.good, g2.r, g2.gl.2, g2.gl.1, g2.lq,
          g2.loc, ?_, hwf, ?_, ?_⟩
        · rw [← hcur]; exact g3
        · intro j n hj
          rw [he4]
          exact hframe j n (by omega) (by omega)
        · intro E hE
          refine ⟨fun n => ?_, hflat E (fun j n h1 h2 => by rw [hE j n (by omega) h2, he4])⟩
          rw [hE id n (Nat.le_refl _) (by omega)]
          exact g2.env n

/-- every file of the include tree below (`path`, `data`), to depth `fuel`, is free of `.global / .import / .export`
(no condition on the operand trees any more: `evaluate` is idempotent, Lemmas/SimpNF.lean) -/
def LocalProject (fs : Bytes → Option Bytes) : Nat → Bytes → Bytes → Prop
  | 0, _, _ => True
  | fuel + 1, path, data => ∀ els perr, parseFile data = .ok (els, perr) → ∀ el ∈ els,
      okInc el = true ∧ ∀ p' d', incTarget fs path el = some (p', d') → LocalProject fs fuel p' d'

theorem assembleFile_sim (hinj : NumInj num) (henc : EncLen enc) (fs : Bytes → Option Bytes) :
    ∀ fuel, IncSim num enc fs (assembleFile fs enc fuel) (LocalProject fs fuel) := by
  intro fuel
  induction fuel with
  | zero => intro env st st' data path id l _ _ _ _ _ h _; simp [assembleFile] at h
  | succ fuel ih =>
    intro env st st' data path id l hproj good henv r hfresh h herr
    have hinc : IncOk (assembleFile fs enc fuel) := fun env st data path g => assembleFile_safe henc fs fuel true env st data path g
    simp only [assembleFile, List.length_cons, Nat.add_one_ne_zero, if_false, ne_eq, not_true_eq_false] at h
    obtain ⟨c, t, hc, ht, he⟩ := enterFile_true good
    rw [he] at h
    simp only at h
    have g2 : Good true { st with locals := some [], globals := c, localTasks := some [], globalTasks := t } :=
      ⟨good.inv, fun t' m => good.lt t ht t' m, fun l e t' m => (by cases e; simp at m), good.ltab c hc,
        fun l e => (by cases e; exact tableOk_nil), fun _ => ⟨rfl, rfl⟩, fun e => by cases e⟩
    split at h
    · rename_i st4 res hf
      simp only [Out.ok.injEq, Prod.mk.injEq] at h
      obtain ⟨hst, hres⟩ := h
      subst hres
      have herr4 : st4.errors = [] := by rw [← hst] at herr; exact herr
      obtain ⟨els, perr, tt, p, l3, l4, id', hparse, hlt, _, hm, hrt, g4, r4, e1, e2, e3, e4, hcur, hwf, hframe, hflat⟩ :=
        fileBody_sim hinj henc fs (assembleFile fs enc fuel) (LocalProject fs fuel) ih hinc (assembleFile_grew fs enc fuel)
          (assembleFile_rel fs enc fuel) ⟨path :: env.paths, path⟩ path env.paths rfl data id _ st4 _ (withTasks [] l)
          hproj g2 r rfl rfl rfl hfresh hf herr4
      refine ⟨els, perr, tt, p, l3, l4, id', hparse, hlt, hm, hrt, ?_, ?_, ?_, ?_, ?_, ?_, hwf, hframe, hflat⟩
      · rw [← hst]; exact r4
      · rw [← hst]; simp only [leaveFile]; rw [e1, hc]
      · rw [← hst]; simp only [leaveFile]; rw [e2, ht]
      · rw [← hst]; rfl
      · rw [← hst]; rfl
      · rw [← hst]; exact hcur
    · cases h

end

end Trion.Asm.Multi
