import TrionModel.Lemmas.SimpBasic
import TrionModel.Lemmas.SimpArith
/-!
# Soundness of the simplifier, part 1: truncating division facts, `valC ⊆ valZ`, neutralisation
-/
namespace Trion.Simp
open Trion

/-! ### truncating division / remainder -/

theorem tdiv_tdiv_nat (X A B : Nat) : ((X : Int).tdiv A).tdiv B = (X : Int).tdiv ((A : Int) * B) := by
  rw [← Int.ofNat_tdiv, ← Int.ofNat_tdiv, ← Int.natCast_mul, ← Int.ofNat_tdiv, Nat.div_div_eq_div_mul]

/-- `(x / a) / b = x / (a·b)` for truncating division, all signs, zero divisors included -/
theorem tdiv_tdiv (x a b : Int) : (x.tdiv a).tdiv b = x.tdiv (a * b) := by
  rcases Int.natAbs_eq x with hx | hx <;> rcases Int.natAbs_eq a with ha | ha <;>
    rcases Int.natAbs_eq b with hb | hb <;> rw [hx, ha, hb] <;>
    simp only [Int.neg_tdiv, Int.tdiv_neg, Int.neg_mul, Int.mul_neg, Int.neg_neg, tdiv_tdiv_nat]

theorem tdiv_comm (x a b : Int) : (x.tdiv a).tdiv b = (x.tdiv b).tdiv a := by
  rw [tdiv_tdiv, tdiv_tdiv, Int.mul_comm]

/-- `|r| < |z| → r tmod z = r` -/
theorem tmod_eq_self_of_natAbs_lt {r z : Int} (h : r.natAbs < z.natAbs) : r.tmod z = r := by
  rcases Int.natAbs_eq r with hr | hr <;> rcases Int.natAbs_eq z with hz | hz <;>
    rw [hr, hz] <;> simp only [Int.neg_tmod, Int.tmod_neg, ← Int.ofNat_tmod, Nat.mod_eq_of_lt h]

/-- `|y| ≤ |z| ∧ y ≠ 0 → (x tmod y) tmod z = x tmod y` -/
theorem tmod_tmod_of_natAbs_le {x y z : Int} (hy : y ≠ 0) (h : y.natAbs ≤ z.natAbs) :
    (x.tmod y).tmod z = x.tmod y := by
  apply tmod_eq_self_of_natAbs_lt
  rw [Int.natAbs_tmod]
  have : x.natAbs % y.natAbs < y.natAbs := Nat.mod_lt _ (by omega)
  omega

/-! ### `valC ⊆ valZ` -/

theorem liftBin_eq_some {f : Int → Int → Option Int} {x y : Option Int} {v : Int}
    (h : liftBin f x y = some v) : ∃ a b, x = some a ∧ y = some b ∧ f a b = some v := by
  cases x <;> cases y <;> simp_all [liftBin]

theorem opC_range {op : BinOp} {a b v : Int} (ha : inI64 a = true) (hb : inI64 b = true)
    (h : opC op a b = some v) : inI64 v = true := by
  unfold opC at h
  cases hf : foldBin op a b with
  | ok w => simp only [hf, Option.some.injEq] at h; subst h; exact foldBin_range ha hb hf
  | error k => simp [hf] at h

theorem valC_range (ρ : Env) (a : Arg) {v : Int} (h : valC ρ a = some v) : inI64 v = true := by
  induction a using Arg.ind generalizing v with
  | const w => simp only [valC] at h; exact (checked_eq_some.1 h).2 ▸ (checked_eq_some.1 h).1
  | ident s =>
    simp only [valC] at h
    cases hr : ρ s with
    | none => simp [hr] at h
    | some w => simp only [hr, Option.bind_some] at h; exact (checked_eq_some.1 h).2 ▸ (checked_eq_some.1 h).1
  | bin op l r ihl ihr =>
    simp only [valC] at h
    obtain ⟨a, b, h1, h2, h3⟩ := liftBin_eq_some h
    exact opC_range (ihl h1) (ihr h2) h3
  | neg a ih =>
    simp only [valC] at h
    cases ha : valC ρ a with
    | none => simp [ha] at h
    | some w =>
      simp only [ha, Option.bind_some, checkedNeg] at h
      exact (checked_eq_some.1 h).2 ▸ (checked_eq_some.1 h).1
  | not a ih =>
    simp only [valC] at h
    cases ha : valC ρ a with
    | none => simp [ha] at h
    | some w =>
      simp only [ha, Option.map_some, Option.some.injEq] at h
      subst h
      have := (inI64_iff w).1 (ih ha)
      rw [inI64_iff]; unfold bnot; omega
  | str s => simp [valC] at h
  | addr a _ => simp [valC] at h
  | seq as => simp [valC] at h
  | func n as => simp [valC] at h

theorem opC_opZ {op : BinOp} {a b v : Int} (ha : inI64 a = true) (hb : inI64 b = true)
    (h : opC op a b = some v) : opZ op a b = some v := by
  unfold opC at h
  cases op <;> simp only [foldBin] at h <;> simp only [opZ]
  case add =>
    cases hc : checkedAdd a b with
    | none => simp [hc] at h
    | some w => simp only [hc, Option.some.injEq] at h; subst h; rw [(checked_eq_some.1 hc).2]
  case sub =>
    cases hc : checkedSub a b with
    | none => simp [hc] at h
    | some w => simp only [hc, Option.some.injEq] at h; subst h; rw [(checked_eq_some.1 hc).2]
  case mul =>
    cases hc : checkedMul a b with
    | none => simp [hc] at h
    | some w => simp only [hc, Option.some.injEq] at h; subst h; rw [(checked_eq_some.1 hc).2]
  case div =>
    by_cases h0 : b = 0
    · simp [h0] at h
    · simp only [h0, if_false, checkedDiv] at h ⊢
      cases hc : checked (a.tdiv b) with
      | none => simp [hc] at h
      | some w => simp only [hc, Option.some.injEq] at h; subst h; rw [(checked_eq_some.1 hc).2]
  case mod =>
    by_cases h0 : b = 0
    · simp [h0] at h
    · simp only [h0, if_false, checkedRem] at h ⊢
      by_cases h1 : a = i64Min ∧ b = -1
      · simp [h1] at h
      · simpa [h1] using h
  case band => simpa [ha, hb] using h
  case bor => simpa [ha, hb] using h
  case bxor => simpa [ha, hb] using h
  case shl =>
    cases hc : checkedShl a b with
    | none => simp [hc] at h
    | some w => simpa [hc, ha] using h
  case shr =>
    cases hc : checkedShr a b with
    | none => simp [hc] at h
    | some w => simpa [hc, ha] using h

/-- every checked value is the ideal value -/
theorem valC_sub_valZ (ρ : Env) (a : Arg) {v : Int} (h : valC ρ a = some v) : valZ ρ a = some v := by
  induction a using Arg.ind generalizing v with
  | const w => simp only [valC] at h; simp only [valZ]; rw [(checked_eq_some.1 h).2]
  | ident s =>
    simp only [valC] at h
    cases hr : ρ s with
    | none => simp [hr] at h
    | some w =>
      simp only [hr, Option.bind_some] at h
      simp only [valZ, hr]; rw [(checked_eq_some.1 h).2]
  | bin op l r ihl ihr =>
    simp only [valC] at h
    obtain ⟨a, b, h1, h2, h3⟩ := liftBin_eq_some h
    simp only [valZ, ihl h1, ihr h2, liftBin]
    exact opC_opZ (valC_range ρ l h1) (valC_range ρ r h2) h3
  | neg a ih =>
    simp only [valC] at h
    cases ha : valC ρ a with
    | none => simp [ha] at h
    | some w =>
      simp only [ha, Option.bind_some, checkedNeg] at h
      simp only [valZ, ih ha, Option.map_some]; rw [(checked_eq_some.1 h).2]
  | not a ih =>
    simp only [valC] at h
    cases ha : valC ρ a with
    | none => simp [ha] at h
    | some w =>
      simp only [ha, Option.map_some] at h
      simp only [valZ, ih ha, Option.map_some]; exact h
  | str s => simp [valC] at h
  | addr a _ => simp [valC] at h
  | seq as => simp [valC] at h
  | func n as => simp [valC] at h

end Trion.Simp
