import TrionModel.Model.Trias
import TrionModel.Lemmas.Uf2
/-! Helper lemmas for C18 (post-processing of `trias`). -/
namespace Trion.Trias
open Trion.Uf2

/-- every segment starts on a page boundary inside the 32-bit address space -/
def PageStarts (segs : List Seg) : Prop := ∀ s ∈ segs, s.1 % 256 = 0 ∧ s.1 < 4294967296

def Addr32 (segs : List Seg) : Prop := ∀ s ∈ segs, s.1 < 4294967296

theorem padGo_starts (r : List Seg) : ∀ (cur : Seg), cur.1 % 256 = 0 → cur.1 < 4294967296 → Addr32 r →
    PageStarts (padGo cur r) := by
  induction r with
  | nil =>
    intro cur h1 h2 _ s hs
    simp [padGo] at hs; subst hs; exact ⟨h1, h2⟩
  | cons fd r ih =>
    intro cur h1 h2 ha
    obtain ⟨f, d⟩ := fd
    have hf : f < 4294967296 := ha (f, d) (by simp)
    have har : Addr32 r := fun s hs => ha s (by simp [hs])
    simp only [padGo]
    split
    · intro s hs
      rcases List.mem_cons.mp hs with h | h
      · subst h; exact ⟨h1, h2⟩
      · exact ih (f, d) (by simp only; omega) hf har s h
    · split
      · exact ih _ h1 h2 har
      · split
        · exact ih _ h1 h2 har
        · intro s hs
          rcases List.mem_cons.mp hs with h | h
          · subst h; exact ⟨h1, h2⟩
          · exact ih (f - f % 256, zeros (f % 256) ++ d) (by simp only; omega) (by simp only; omega) har s h

theorem padAll_starts (m : List Seg) (ha : Addr32 m) : PageStarts (padAll m) := by
  cases m with
  | nil => intro s hs; simp [padAll] at hs
  | cons fd r =>
    obtain ⟨f, d⟩ := fd
    have hf : f < 4294967296 := ha (f, d) (by simp)
    exact padGo_starts r _ (by simp only; omega) (by simp only; omega) (fun s hs => ha s (by simp [hs]))

theorem insertMerge_addr32 (a : Nat) (d : List UInt8) (ha : a < 4294967296) (m : List Seg) :
    Addr32 m → Addr32 (insertMerge a d m) := by
  induction m generalizing a d with
  | nil => intro _ s hs; simp [insertMerge] at hs; subst hs; exact ha
  | cons fe r ih =>
    obtain ⟨f, e⟩ := fe
    intro hm
    have hf : f < 4294967296 := hm (f, e) (by simp)
    have hr : Addr32 r := fun s hs => hm s (by simp [hs])
    simp only [insertMerge]
    split
    · intro s hs
      rcases List.mem_cons.mp hs with h | h
      · subst h; exact hf
      · exact ih a d ha hr s h
    · split
      · exact ih f (e ++ d) hf hr
      · split
        · intro s hs
          rcases List.mem_cons.mp hs with h | h
          · subst h; exact ha
          · exact hr s h
        · intro s hs
          rcases List.mem_cons.mp hs with h | h
          · subst h; exact ha
          · exact hm s h

theorem bootCrc_addr32 (m m1 : List Seg) (ha : Addr32 m) (h : bootCrc m = .ok m1) : Addr32 m1 := by
  unfold bootCrc at h
  split at h
  · split at h
    · cases h
    · cases h; exact insertMerge_addr32 _ _ (by decide) m ha
  · cases h; exact ha

/-- blocks of `write_all` with payload = alignment = 256 from a page-aligned address -/
theorem allBlks_256 (cfg : Cfg) (hps : cfg.ps = 256) (hal : cfg.al = 256) (nf : Bool) (fuel : Nat) :
    ∀ (d : List UInt8) (a no : Nat), a % 256 = 0 →
      ∀ b ∈ allBlks cfg nf fuel d a no, b.blen = 256 ∧ b.addr % 256 = 0 ∧ b.nf = nf := by
  induction fuel with
  | zero => intro d a no _ b hb; simp [allBlks] at hb
  | succ f ih =>
    intro d a no ha b hb
    by_cases hd : d = []
    · subst hd; simp [allBlks] at hb
    · have hemp : d.isEmpty = false := by simpa using hd
      have hdl : 0 < d.length := List.length_pos_iff.mpr hd
      simp only [allBlks, hemp, Bool.false_eq_true, if_false] at hb
      rcases List.mem_cons.mp hb with h | h
      · subst h
        refine ⟨?_, ha, rfl⟩
        simp only [hps, hal]
        split
        · rfl
        · unfold roundUp; split <;> omega
      · exact ih _ _ _ (by rw [hps]; omega) b h

/-- the blocks `writeSegs` appends, following the state -/
def segsBlks (st : St) : List Seg → List Blk
  | [] => []
  | (f, d) :: r => writeAllBlks st f d false ++ segsBlks (writeAll st f d false).1 r

theorem writeSegs_spec (segs : List Seg) : ∀ (st st' : St), Inv st → Addr32 segs → writeSegs st segs = .ok st' →
    Inv st' ∧ Extends st st' (segsBlks st segs) := by
  induction segs with
  | nil =>
    intro st st' hI _ h
    simp only [writeSegs] at h
    cases h
    exact ⟨hI, rfl, by simp [segsBlks, encAll], by simp [segsBlks], rfl, by simp [segsBlks, AllOk], by simp [segsBlks]⟩
  | cons fd r ih =>
    intro st st' hI ha h
    obtain ⟨f, d⟩ := fd
    have hf : f < 4294967296 := ha (f, d) (by simp)
    rcases writeAll_spec st hI f hf d false with ⟨st1, h1, hI1, hE1, _⟩ | ⟨e, h1, _⟩
    · simp only [writeSegs, h1] at h
      obtain ⟨hI2, hE2⟩ := ih st1 st' hI1 (fun s hs => ha s (by simp [hs])) h
      refine ⟨hI2, ?_⟩
      simp only [segsBlks, h1]
      refine ⟨by rw [hE2.cfg, hE1.cfg], ?_, ?_, by rw [hE2.isVec, hE1.isVec], ?_, ?_⟩
      · rw [hE2.out, hE1.out, hE1.cfg, encAll_append, List.append_assoc]
      · rw [hE2.count, hE1.count, List.length_append]; omega
      · intro b hb
        rcases List.mem_append.mp hb with h | h
        · exact hE1.ok b h
        · exact hE2.ok b h
      · intro k hk
        rcases Nat.lt_or_ge k (writeAllBlks st f d false).length with h | h
        · rw [List.getElem_append_left h]; exact hE1.no k h
        · rw [List.getElem_append_right h]
          have := hE2.no (k - (writeAllBlks st f d false).length) (by rw [List.length_append] at hk; omega)
          rw [this, hE1.count]; omega
    · simp only [writeSegs, h1] at h
      cases h

theorem segsBlks_256 (segs : List Seg) : ∀ (st : St), Inv st → st.cfg.ps = 256 → st.cfg.al = 256 → PageStarts segs →
    ∀ b ∈ segsBlks st segs, b.blen = 256 ∧ b.addr % 256 = 0 ∧ b.nf = false := by
  induction segs with
  | nil => intro st _ _ _ _ b hb; simp [segsBlks] at hb
  | cons fd r ih =>
    intro st hI hps hal hp b hb
    obtain ⟨f, d⟩ := fd
    have hf := hp (f, d) (by simp)
    simp only [segsBlks] at hb
    rcases List.mem_append.mp hb with h | h
    · exact allBlks_256 st.cfg hps hal false _ d f st.count hf.1 b h
    · rcases writeAll_spec st hI f hf.2 d false with ⟨st1, h1, hI1, hE1, _⟩ | ⟨e, h1, _⟩
      · rw [h1] at h
        exact ih st1 hI1 (by rw [hE1.cfg]; exact hps) (by rw [hE1.cfg]; exact hal) (fun s hs => hp s (by simp [hs])) b h
      · rw [h1] at h
        exact ih st hI hps hal (fun s hs => hp s (by simp [hs])) b h

theorem image_append (A B : List Block) (x : Nat) :
    image (A ++ B) x = match image B x with | some v => some v | none => image A x := by
  induction A with
  | nil => simp only [List.nil_append, image_nil]; cases image B x <;> rfl
  | cons a A ih =>
    simp only [List.cons_append, image_cons, ih]
    cases image B x <;> rfl

/-- the padded segment list read as a loader image: every segment supplies its bytes followed by zeros up
to the end of its last 256-byte page (a later segment wins, as in the file) -/
def segsImage : List Seg → Nat → Option UInt8
  | [], _ => none
  | (f, d) :: r, x => match segsImage r x with
    | some v => some v
    | none => expectImage f d (roundUp d.length 256) x

theorem segsBlks_image (segs : List Seg) : ∀ (st st' : St), Inv st → st.cfg.al = 256 → Addr32 segs →
    writeSegs st segs = .ok st' → ∀ t x,
      image ((segsBlks st segs).map (toBlock st.cfg t)) x = segsImage segs x := by
  induction segs with
  | nil => intro st st' _ _ _ _ t x; rfl
  | cons fd r ih =>
    intro st st' hI hal ha h t x
    obtain ⟨f, d⟩ := fd
    have hf : f < 4294967296 := ha (f, d) (by simp)
    rcases writeAll_spec st hI f hf d false with ⟨st1, h1, hI1, hE1, _⟩ | ⟨e, h1, _⟩
    · simp only [writeSegs, h1] at h
      have := ih st1 st' hI1 (by rw [hE1.cfg]; exact hal) (fun s hs => ha s (by simp [hs])) h t x
      rw [hE1.cfg] at this
      simp only [segsBlks, h1, List.map_append, image_append, this, segsImage]
      have h2 := image_allBlks st.cfg hI.valid false t d.length d f st.count (Nat.le_refl _) x
      rw [hal] at h2
      simp only [writeAllBlks, h2]
    · simp only [writeSegs, h1] at h
      cases h

end Trion.Trias
