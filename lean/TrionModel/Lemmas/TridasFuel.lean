import TrionModel.Lemmas.Tridas
/-!
# C20 — the loop bounds of the `tridas` model suffice

The Rust loops of `src/bin/disassembler.rs` have no bound; the model (`Model/Tridas.lean`) gives the inner loop the fuel
`len` and the outer loop the fuel `2·len + 2`.  Under `WellFormed` neither runs out:

* inner loop: every decoded instruction is an entry of `es`, hence at least one byte long, so `len - pos` decreases;
* outer loop: the measure `|queries| + #{entries of es not yet recorded in instrs}` decreases with every popped query and
  never increases inside the inner loop (a query is inserted only when the instruction at `addr` is recorded for the
  first time).  Initially it is `1 + |es| ≤ 1 + len`.
-/
namespace Trion.Tridas

/-! ## sizes of the set / map operations -/

theorem length_sinsert_le (x : Nat) : ∀ (l : List Nat), (sinsert x l).length ≤ l.length + 1
  | [] => by simp [sinsert]
  | y :: ys => by
    unfold sinsert
    split
    · simp
    · split
      · simp
      · have := length_sinsert_le x ys
        simp only [List.length_cons]
        omega

theorem length_sremove_le (x : Nat) : ∀ (l : List Nat), (sremove x l).length ≤ l.length
  | [] => by simp [sremove]
  | y :: ys => by
    unfold sremove
    split
    · simp
    · have := length_sremove_le x ys
      simp only [List.length_cons]
      omega

theorem mcontains_minsert {a : Nat} {e : Entry} {m : List Entry} :
    mcontains a (minsert e m) = true ↔ a = e.addr ∨ mcontains a m = true := by
  rw [mcontains_iff, mcontains_iff]
  constructor
  · rintro ⟨y, hy, hya⟩
    rcases mem_minsert hy with rfl | hy
    · exact .inl hya.symm
    · exact .inr ⟨y, hy, hya⟩
  · rintro (h | h)
    · exact ⟨e, minsert_mem_self e m, h.symm⟩
    · exact key_survives h

theorem filter_length_mono {α : Type} (p q : α → Bool) : ∀ (l : List α), (∀ x ∈ l, q x = true → p x = true) →
    (l.filter q).length ≤ (l.filter p).length
  | [], _ => by simp
  | y :: ys, h => by
    have ih := filter_length_mono p q ys (fun x hx => h x (List.mem_cons_of_mem _ hx))
    have hy := h y List.mem_cons_self
    simp only [List.filter_cons]
    cases hq : q y <;> cases hp : p y <;> simp_all <;> omega

theorem filter_length_strict {α : Type} (p q : α → Bool) (e : α) : ∀ (l : List α),
    (∀ x ∈ l, q x = true → p x = true) → e ∈ l → p e = true → q e = false →
    (l.filter q).length + 1 ≤ (l.filter p).length
  | [], _, he, _, _ => by cases he
  | y :: ys, h, he, hpe, hqe => by
    have hmono := filter_length_mono p q ys (fun x hx => h x (List.mem_cons_of_mem _ hx))
    have hy := h y List.mem_cons_self
    simp only [List.filter_cons]
    rcases List.mem_cons.1 he with rfl | he'
    · simp only [hpe, hqe, if_true, List.length_cons]
      simp
      omega
    · have ih := filter_length_strict p q e ys (fun x hx => h x (List.mem_cons_of_mem _ hx)) he' hpe hqe
      cases hq : q y <;> cases hp : p y <;> simp_all <;> omega

/-! ## the measure of the outer loop -/

/-- entries of the file not yet recorded in the map -/
def todo (es m : List Entry) : Nat := (es.filter (fun x => !mcontains x.addr m)).length

/-- `|queries| + #{unrecorded entries}` -/
def measure (es : List Entry) (st : St) : Nat := st.queries.length + todo es st.instrs

theorem todo_le_length (es m : List Entry) : todo es m ≤ es.length := List.length_filter_le _ _

theorem todo_minsert_le (es : List Entry) (e : Entry) (m : List Entry) : todo es (minsert e m) ≤ todo es m := by
  unfold todo
  apply filter_length_mono
  intro x _ hx
  cases hc : mcontains x.addr m
  · rfl
  · have := (mcontains_minsert (a := x.addr) (e := e) (m := m)).2 (.inr hc)
    rw [this] at hx; cases hx

theorem todo_minsert_lt {es : List Entry} {e : Entry} {m : List Entry} (he : e ∈ es)
    (hc : mcontains e.addr m = false) : todo es (minsert e m) + 1 ≤ todo es m := by
  unfold todo
  apply filter_length_strict _ _ e _ _ he
  · simp [hc]
  · have := (mcontains_minsert (a := e.addr) (e := e) (m := m)).2 (.inl rfl)
    simp [this]
  · intro x _ hx
    cases hc' : mcontains x.addr m
    · rfl
    · have := (mcontains_minsert (a := x.addr) (e := e) (m := m)).2 (.inr hc')
      rw [this] at hx; cases hx

theorem length_nextQueries_le (i : Instr) (addr : Nat) (st : St) :
    (nextQueries i addr st).length ≤ st.queries.length + (if mcontains addr st.instrs = false then 1 else 0) := by
  have h1 := length_sremove_le addr st.queries
  unfold nextQueries
  split
  · rename_i dst _
    have h2 := length_sinsert_le dst (sremove addr st.queries)
    by_cases hc : mcontains addr st.instrs = false
    · simp only [hc, if_true]
      split <;> omega
    · have hc' : mcontains addr st.instrs = true := by simpa using hc
      rw [hc']
      simp
      omega
  · omega

/-- one iteration of the inner loop does not increase the measure -/
theorem measure_step {es : List Entry} {e : Entry} (he : e ∈ es) (st : St) (br' : List Nat) :
    measure es { queries := nextQueries e.instr e.addr st, instrs := minsert e st.instrs, branches := br' } ≤
      measure es st := by
  have hq := length_nextQueries_le e.instr e.addr st
  unfold measure
  simp only
  cases hc : mcontains e.addr st.instrs
  · have := todo_minsert_lt he hc
    simp only [hc, if_true] at hq
    omega
  · have := todo_minsert_le es e st.instrs
    simp [hc] at hq
    omega

/-! ## the inner loop returns -/

theorem walk_ok {decode : Decoder} {b : List UInt8} {es : List Entry} (wf : WellFormed decode b es) :
    ∀ (fuel pos : Nat) (st : St), (pos < b.length → ∃ e ∈ es, e.addr = BASE + pos) → b.length ≤ pos + fuel →
      ∃ st', walk decode b fuel pos st = .ok st' ∧ measure es st' ≤ measure es st := by
  intro fuel
  induction fuel with
  | zero =>
    intro pos st _ hf
    simp only [walk]
    have : ¬ pos < b.length := by omega
    simp only [this, if_false]
    exact ⟨st, rfl, Nat.le_refl _⟩
  | succ fuel ih =>
    intro pos st hp hf
    simp only [walk]
    split
    · rename_i hlt
      obtain ⟨e, he, hea⟩ := hp hlt
      have hb := wf.bound e he
      have hd := wf.dec e he
      have hpos : e.addr - BASE = pos := by omega
      rw [hpos] at hd
      rw [hd]
      simp only
      have hsmall := wf.small
      have h1 : ¬ two32 ≤ BASE + pos := by omega
      have h2 : ¬ two32 ≤ BASE + pos + (e.after - e.addr) := by omega
      simp only [h1, h2, if_false]
      have hent : (⟨BASE + pos, e.instr, BASE + pos + (e.after - e.addr)⟩ : Entry) = e := by
        cases e; simp at hea hb ⊢; omega
      rw [hent, ← hea]
      have hstep := measure_step he st (nextBranches e.instr e.addr st)
      by_cases hr : getReturns e.instr = true
      · simp only [hr, if_true]
        have hnext : pos + (e.after - e.addr) = e.after - BASE := by omega
        rw [hnext]
        obtain ⟨st', hw, hm⟩ := ih (e.after - BASE)
          { queries := nextQueries e.instr e.addr st, instrs := minsert e st.instrs,
            branches := nextBranches e.instr e.addr st }
          (fun hlt2 => by
            have : BASE + (e.after - BASE) = e.after := by omega
            rw [this]
            exact wf.next e he hr (by omega))
          (by omega)
        exact ⟨st', hw, Nat.le_trans hm hstep⟩
      · simp only [hr]
        exact ⟨_, rfl, hstep⟩
    · exact ⟨st, rfl, Nat.le_refl _⟩

/-! ## the outer loop returns -/

theorem outer_ok {decode : Decoder} {b : List UInt8} {es : List Entry} (wf : WellFormed decode b es) :
    ∀ (fuel : Nat) (st : St), Inv es b.length st none → measure es st ≤ fuel →
      ∃ st', outer decode b fuel st = .ok st' := by
  intro fuel
  induction fuel with
  | zero =>
    intro st _ hm
    simp only [outer]
    unfold measure at hm
    have : st.queries = [] := List.eq_nil_of_length_eq_zero (by omega)
    rw [this]
    exact ⟨st, rfl⟩
  | succ fuel ih =>
    intro st hi hm
    simp only [outer]
    split
    · exact ⟨st, rfl⟩
    · rename_i start rest hq
      have hi1 : Inv es b.length { st with queries := rest } (some start) := inv_pop hi hq
      have hm1 : measure es { st with queries := rest } ≤ fuel := by
        unfold measure at hm ⊢
        rw [hq] at hm
        simp only [List.length_cons] at hm ⊢
        omega
      split
      · rename_i hin
        have hstart : BASE + (start - BASE) = start := by omega
        have hex : start - BASE < b.length → ∃ e ∈ es, e.addr = BASE + (start - BASE) := fun _ => by
          rw [hstart]; exact hi.qs start (by rw [hq]; simp) hin
        obtain ⟨st2, hw, hm2⟩ := walk_ok wf b.length (start - BASE) { st with queries := rest } hex (by omega)
        have hinv := walk_inv wf b.length (start - BASE) { st with queries := rest }
          (by rw [hstart]; exact hi1) hex
        rw [hw] at hinv ⊢
        exact ih st2 hinv (Nat.le_trans hm2 hm1)
      · rename_i hout
        exact ih _ (inv_close_hole wf hi1 hout) hm1

/-- strictly ascending addresses inside `[lo, hi)`: at most `hi - lo` entries -/
theorem sorted_length_le : ∀ (es : List Entry) (lo hi : Nat), Sorted es → (∀ e ∈ es, lo ≤ e.addr ∧ e.addr < hi) →
    es.length ≤ hi - lo
  | [], _, _, _, _ => by simp
  | x :: xs, lo, hi, hs, hb => by
    unfold Sorted at hs
    rw [List.pairwise_cons] at hs
    have hx := hb x List.mem_cons_self
    have ih := sorted_length_le xs (x.addr + 1) hi hs.2 (fun e he => by
      have := hs.1 e he
      have := hb e (List.mem_cons_of_mem _ he)
      omega)
    simp only [List.length_cons]
    omega

/-- the file has at most `len` instructions -/
theorem wf_length_le {decode : Decoder} {b : List UInt8} {es : List Entry} (wf : WellFormed decode b es) :
    es.length ≤ b.length := by
  have := sorted_length_le es BASE (BASE + b.length) wf.sorted (fun e he => by
    have := wf.bound e he
    omega)
  omega

/-- the traversal returns (no decoder `unwrap()` panic, no address overflow, and the model's loop bounds suffice) and has
recorded exactly the instructions of the file -/
theorem traverse_covers_ok {decode : Decoder} {b : List UInt8} {es : List Entry} (wf : WellFormed decode b es) :
    ∃ st, traverse decode b = .ok st ∧ st.instrs = es := by
  have h0 : Inv es b.length { queries := [BASE], instrs := [], branches := [] } none := by
    refine ⟨by simp [Sorted], by simp, by simp, by simp, .inr (.inl (by simp)), ?_⟩
    intro q hq _
    simp at hq
    rw [hq]; exact wf.first
  have hm : measure es { queries := [BASE], instrs := [], branches := [] } ≤ 2 * b.length + 2 := by
    unfold measure
    have h1 := todo_le_length es []
    have h2 := wf_length_le wf
    simp only [List.length_cons, List.length_nil]
    omega
  obtain ⟨st, hst⟩ := outer_ok wf (2 * b.length + 2) _ h0 hm
  have hc := traverse_covers wf
  unfold traverse at hc ⊢
  rw [hst] at hc
  exact ⟨st, hst, hc⟩

end Trion.Tridas
