import TrionModel.Lemmas.SimpBasic
import TrionModel.Lemmas.SimpArith
import TrionModel.Spec.Arith
/-!
# Lemmas for C07: on closed trees `evaluate` / `simplify` are bottom-up constant folding, and the
folding agrees with the specification `Arith.eval` away from the open corners.
-/
namespace Trion.Simp
open Trion

/-- machine value of a closed tree: what folding every node with `simplify_raw` yields -/
def valM : Arg → Except OvKind Int
  | .const v => .ok v
  | .bin op l r =>
    match valM l with
    | .ok a =>
      match valM r with
      | .ok b => foldBin op a b
      | .error k => .error k
    | .error k => .error k
  | .neg a =>
    match valM a with
    | .ok v => if v = i64Min then .error .negate else .ok (-v)
    | .error k => .error k
  | .not a =>
    match valM a with
    | .ok v => .ok (bnot v)
    | .error k => .error k
  | _ => .error .add

/-- the shape of every result on a closed tree -/
def closedRes (t : Arg) : ERes (Ev × Arg) → Prop
  | .ok (ev, a) => ev.cause = none ∧ ∃ v, valM t = .ok v ∧ a = .const v
  | .err (.simp (.overflow k)) => valM t = .error k
  | _ => False

theorem simplifyRaw_fold_consts (op : BinOp) (a b : Int) :
    simplifyRaw (.bin op (.const a) (.const b)) =
      match foldBin op a b with
      | .ok v => .ok (true, .const v)
      | .error k => .err (.overflow k) := by
  simp only [simplifyRaw, isBad, cval]
  cases foldBin op a b <;> simp

theorem closedRes_ok {t : Arg} {ev : Ev} {a : Arg} :
    closedRes t (.ok (ev, a)) ↔ (ev.cause = none ∧ ∃ v, valM t = .ok v ∧ a = .const v) := Iff.rfl
theorem closedRes_ov {t : Arg} {k : OvKind} :
    closedRes t (.err (.simp (.overflow k))) ↔ valM t = .error k := Iff.rfl

/-- a sub-result of the closed shape is either a constant or an overflow error -/
theorem closedRes_cases {t : Arg} {r : ERes (Ev × Arg)} (h : closedRes t r) :
    (∃ ev v, r = .ok (ev, .const v) ∧ ev.cause = none ∧ valM t = .ok v) ∨
    (∃ k, r = .err (.simp (.overflow k)) ∧ valM t = .error k) := by
  cases r with
  | ok p =>
    obtain ⟨ev, a⟩ := p
    obtain ⟨h1, v, h2, rfl⟩ := closedRes_ok.1 h
    exact .inl ⟨ev, v, rfl, h1, h2⟩
  | err e =>
    cases e with
    | noSuchVar n => exact h.elim
    | simp e => cases e with
      | badType _ _ => exact h.elim
      | overflow k => exact .inr ⟨k, rfl, h⟩
  | panic => exact h.elim

theorem evaluate_closed (lk : Bytes → Lookup) (isReg : Bytes → Bool) (t : Arg) (hc : Arith.closed t = true) :
    closedRes t (evaluate lk isReg t) := by
  induction t using Arg.ind with
  | const v => simp [evaluate, closedRes, valM]
  | bin op l r ihl ihr =>
    simp only [Arith.closed, Bool.and_eq_true] at hc
    rcases closedRes_cases (ihl hc.1) with ⟨e1, a, h1, hc1, hva⟩ | ⟨k, h1, hva⟩
    · rcases closedRes_cases (ihr hc.2) with ⟨e2, b, h2, hc2, hvb⟩ | ⟨k, h2, hvb⟩
      · simp only [evaluate, h1, h2, afterRaw, simplifyRaw_fold_consts]
        cases hf : foldBin op a b with
        | ok v => simp [closedRes_ok, valM, hva, hvb, hf, Ev.or, hc1, hc2]
        | error k => simp [closedRes_ov, valM, hva, hvb, hf]
      · simp [evaluate, h1, h2, closedRes_ov, valM, hva, hvb]
    · simp [evaluate, h1, closedRes_ov, valM, hva]
  | neg a ih =>
    simp only [Arith.closed] at hc
    rcases closedRes_cases (ih hc) with ⟨e1, v, h1, hc1, hv⟩ | ⟨k, h1, hv⟩
    · simp only [evaluate, h1, afterRaw, simplifyRaw]
      by_cases hm : v = i64Min <;> simp [hm, closedRes_ok, closedRes_ov, valM, hv, Ev.or, hc1]
    · simp [evaluate, h1, closedRes_ov, valM, hv]
  | not a ih =>
    simp only [Arith.closed] at hc
    rcases closedRes_cases (ih hc) with ⟨e1, v, h1, hc1, hv⟩ | ⟨k, h1, hv⟩
    · simp [evaluate, h1, afterRaw, simplifyRaw, closedRes_ok, valM, hv, Ev.or, hc1]
    · simp [evaluate, h1, closedRes_ov, valM, hv]
  | ident s => simp [Arith.closed] at hc
  | str s => simp [Arith.closed] at hc
  | addr a _ => simp [Arith.closed] at hc
  | seq as => simp [Arith.closed] at hc
  | func n as => simp [Arith.closed] at hc

end Trion.Simp

namespace Trion.Simp
open Trion

/-- the shape of every `simplify` result on a closed tree -/
def closedResS (t : Arg) : Res (Bool × Arg) → Prop
  | .ok (_, a) => ∃ v, valM t = .ok v ∧ a = .const v
  | .err (.overflow k) => valM t = .error k
  | _ => False

theorem closedResS_cases {t : Arg} {r : Res (Bool × Arg)} (h : closedResS t r) :
    (∃ c v, r = .ok (c, .const v) ∧ valM t = .ok v) ∨
    (∃ k, r = .err (.overflow k) ∧ valM t = .error k) := by
  cases r with
  | ok p =>
    obtain ⟨c, a⟩ := p
    obtain ⟨v, h2, rfl⟩ := h
    exact .inl ⟨c, v, rfl, h2⟩
  | err e =>
    cases e with
    | badType _ _ => exact h.elim
    | overflow k => exact .inr ⟨k, rfl, h⟩
  | panic => exact h.elim

theorem simplify_closed (t : Arg) (hc : Arith.closed t = true) : closedResS t (simplify t) := by
  induction t using Arg.ind with
  | const v => simp [simplify, closedResS, valM]
  | bin op l r ihl ihr =>
    simp only [Arith.closed, Bool.and_eq_true] at hc
    rcases closedResS_cases (ihl hc.1) with ⟨c1, a, h1, hva⟩ | ⟨k, h1, hva⟩
    · rcases closedResS_cases (ihr hc.2) with ⟨c2, b, h2, hvb⟩ | ⟨k, h2, hvb⟩
      · simp only [simplify, h1, h2, simplifyRaw_fold_consts]
        cases hf : foldBin op a b with
        | ok v => simp [closedResS, valM, hva, hvb, hf]
        | error k => simp [closedResS, valM, hva, hvb, hf]
      · simp [simplify, h1, h2, closedResS, valM, hva, hvb]
    · simp [simplify, h1, closedResS, valM, hva]
  | neg a ih =>
    simp only [Arith.closed] at hc
    rcases closedResS_cases (ih hc) with ⟨c1, v, h1, hv⟩ | ⟨k, h1, hv⟩
    · simp only [simplify, h1, simplifyRaw]
      by_cases hm : v = i64Min <;> simp [hm, closedResS, valM, hv]
    · simp [simplify, h1, closedResS, valM, hv]
  | not a ih =>
    simp only [Arith.closed] at hc
    rcases closedResS_cases (ih hc) with ⟨c1, v, h1, hv⟩ | ⟨k, h1, hv⟩
    · simp [simplify, h1, simplifyRaw, closedResS, valM, hv]
    · simp [simplify, h1, closedResS, valM, hv]
  | ident s => simp [Arith.closed] at hc
  | str s => simp [Arith.closed] at hc
  | addr a _ => simp [Arith.closed] at hc
  | seq as => simp [Arith.closed] at hc
  | func n as => simp [Arith.closed] at hc

/-! ### the folding agrees with the specification -/

/-- same value, or both an error -/
def agree : Except OvKind Int → Except Arith.Err Int → Prop
  | .ok v, .ok w => v = w
  | .error _, .error _ => True
  | _, _ => False

theorem inI64_eq_fits (v : Int) : inI64 v = Arith.fits v := by
  simp only [inI64, i64Min, i64Max, Arith.fits]
  by_cases h1 : (-9223372036854775808 : Int) ≤ v <;> by_cases h2 : v ≤ 9223372036854775807 <;> simp [h1, h2] <;> omega

theorem checked_agree (v : Int) (k : OvKind) :
    agree (match checked v with | some v => .ok v | none => .error k) (Arith.chk v) := by
  simp only [checked, Arith.chk, inI64_eq_fits]
  cases Arith.fits v <;> simp [agree]

theorem wrap_id {v : Int} (h0 : 0 ≤ v) (h1 : v < 9223372036854775808) : wrap v = v := by
  simp only [wrap, two63, two64]; omega

theorem foldBin_agree (op : BinOp) (a b : Int) (h : Arith.cornerFree op a b = true) :
    agree (foldBin op a b) (Arith.binop op a b) := by
  cases op with
  | add => exact checked_agree _ _
  | sub => exact checked_agree _ _
  | mul => exact checked_agree _ _
  | div =>
    simp only [foldBin, Arith.binop, checkedDiv]
    by_cases hb : b = 0
    · simp [hb, agree]
    · simp only [hb, if_false]; exact checked_agree _ _
  | mod =>
    simp only [foldBin, Arith.binop, checkedRem]
    by_cases hb : b = 0
    · simp [hb, agree]
    · simp only [Arith.cornerFree, Bool.not_eq_true', Bool.and_eq_false_iff, decide_eq_false_iff_not] at h
      have : ¬ (a = i64Min ∧ b = -1) := by
        rintro ⟨h1, h2⟩; simp [i64Min] at h1; rcases h with h | h <;> omega
      simp [hb, this, agree]
  | band => simp only [foldBin, Arith.binop, agree]; rfl
  | bor => simp only [foldBin, Arith.binop, agree]; rfl
  | bxor => simp only [foldBin, Arith.binop, agree]; rfl
  | shl =>
    simp only [foldBin, Arith.binop, checkedShl]
    by_cases hk : 0 ≤ b ∧ b < 64
    · simp only [Arith.cornerFree, hk, and_self, if_true, Bool.and_eq_true, decide_eq_true_eq] at h
      have hp : (0 : Int) ≤ a * 2 ^ b.toNat := Int.mul_nonneg h.1 (Int.pow_nonneg (by omega))
      simp [hk, agree, wrap_id hp h.2]
    · simp [hk, agree]
  | shr =>
    simp only [foldBin, Arith.binop, checkedShr]
    by_cases hk : 0 ≤ b ∧ b < 64
    · simp [hk, agree]
    · simp [hk, agree]

theorem valM_range (t : Arg) (hc : Arith.closed t = true) {v : Int} (h : valM t = .ok v) : inI64 v = true := by
  induction t using Arg.ind generalizing v with
  | const w =>
    simp only [valM, Except.ok.injEq] at h; subst h
    simpa [Arith.closed, inI64_eq_fits] using hc
  | bin op l r ihl ihr =>
    simp only [Arith.closed, Bool.and_eq_true] at hc
    simp only [valM] at h
    cases h1 : valM l with
    | error k => simp [h1] at h
    | ok a =>
      cases h2 : valM r with
      | error k => simp [h1, h2] at h
      | ok b =>
        simp only [h1, h2] at h
        exact foldBin_range (ihl hc.1 h1) (ihr hc.2 h2) h
  | neg a ih =>
    simp only [Arith.closed] at hc
    simp only [valM] at h
    cases h1 : valM a with
    | error k => simp [h1] at h
    | ok w =>
      simp only [h1] at h
      have hw := (inI64_iff w).1 (ih hc h1)
      by_cases hm : w = i64Min
      · simp [hm] at h
      · simp only [hm, if_false, Except.ok.injEq] at h
        subst h
        rw [inI64_iff]; simp only [i64Min] at hm; omega
  | not a ih =>
    simp only [Arith.closed] at hc
    simp only [valM] at h
    cases h1 : valM a with
    | error k => simp [h1] at h
    | ok w =>
      simp only [h1, Except.ok.injEq] at h
      subst h
      have hw := (inI64_iff w).1 (ih hc h1)
      rw [inI64_iff]; unfold bnot; omega
  | ident s => simp [Arith.closed] at hc
  | str s => simp [Arith.closed] at hc
  | addr a _ => simp [Arith.closed] at hc
  | seq as => simp [Arith.closed] at hc
  | func n as => simp [Arith.closed] at hc

theorem valM_agree (t : Arg) (hc : Arith.closed t = true) (hs : Arith.inScope t = true) :
    agree (valM t) (Arith.eval t) := by
  induction t using Arg.ind with
  | const v => simp [valM, Arith.eval, agree]
  | bin op l r ihl ihr =>
    simp only [Arith.closed, Bool.and_eq_true] at hc
    simp only [Arith.inScope, Bool.and_eq_true] at hs
    have hl := ihl hc.1 hs.1.1
    have hr := ihr hc.2 hs.1.2
    have h3 := hs.2
    simp only [valM, Arith.eval]
    cases h1 : valM l with
    | error k =>
      cases h1' : Arith.eval l with
      | error e => simp [agree]
      | ok w => simp [h1, h1', agree] at hl
    | ok a =>
      cases h1' : Arith.eval l with
      | error e => simp [h1, h1', agree] at hl
      | ok a' =>
        have : a = a' := by simpa [h1, h1', agree] using hl
        subst this
        cases h2 : valM r with
        | error k =>
          cases h2' : Arith.eval r with
          | error e => simp [agree]
          | ok w => simp [h2, h2', agree] at hr
        | ok b =>
          cases h2' : Arith.eval r with
          | error e => simp [h2, h2', agree] at hr
          | ok b' =>
            have : b = b' := by simpa [h2, h2', agree] using hr
            subst this
            simp only [h1', h2'] at h3
            exact foldBin_agree op a b h3
  | neg a ih =>
    simp only [Arith.closed] at hc
    simp only [Arith.inScope] at hs
    have ha := ih hc hs
    simp only [valM, Arith.eval]
    cases h1 : valM a with
    | error k =>
      cases h1' : Arith.eval a with
      | error e => simp [agree]
      | ok w => simp [h1, h1', agree] at ha
    | ok v =>
      cases h1' : Arith.eval a with
      | error e => simp [h1, h1', agree] at ha
      | ok v' =>
        have : v = v' := by simpa [h1, h1', agree] using ha
        subst this
        have hr := (inI64_iff v).1 (valM_range a hc h1)
        simp only [Arith.chk, Arith.fits, i64Min]
        by_cases hm : v = -9223372036854775808
        · subst hm; simp [agree]
        · have h1 : (-9223372036854775808 : Int) ≤ -v := by omega
          have h2 : -v < (9223372036854775808 : Int) := by omega
          simp [hm, h1, h2, agree]
  | not a ih =>
    simp only [Arith.closed] at hc
    simp only [Arith.inScope] at hs
    have ha := ih hc hs
    simp only [valM, Arith.eval]
    cases h1 : valM a with
    | error k =>
      cases h1' : Arith.eval a with
      | error e => simp [agree]
      | ok w => simp [h1, h1', agree] at ha
    | ok v =>
      cases h1' : Arith.eval a with
      | error e => simp [h1, h1', agree] at ha
      | ok v' =>
        have : v = v' := by simpa [h1, h1', agree] using ha
        subst this
        simp [agree, bnot]
  | ident s => simp [Arith.closed] at hc
  | str s => simp [Arith.closed] at hc
  | addr a _ => simp [Arith.closed] at hc
  | seq as => simp [Arith.closed] at hc
  | func n as => simp [Arith.closed] at hc

end Trion.Simp
