import TrionModel.Lemmas.C04Get
import TrionModel.Lemmas.FrontTargets
import TrionModel.Model.Codec
/-!
# C04 closed: the code after `convert!` (`setOp` stores + `finish`) against `C04.meaning`

`shape k v`: the constructor of a value a slot of kind `k` yields.  `finish_sound`: for values of the right shapes,
inside their types, what the arm builds is what the mnemonic means.  `finish_complete`: if the meaning is an
instruction that fits its Rust types (`wf`) and that the encoder accepts, every range check of the arm passes.
-/
namespace Trion.C04
open Trion Trion.Front

/-- the stores of the macro for the values `vs` at positions `pos, pos+1, …` -/
def replayFrom : Nat → List Val → Instr → Instr
  | _, [], i => i
  | pos, v :: vs, i => replayFrom (pos + 1) vs (setOp i pos v)

def shape : Kind → Val → Prop
  | .register, .reg _ => True
  | .systemReg, .sys _ => True
  | .identifier, .ident _ => True
  | .regSet, .regSet _ => True
  | .immediate, .imm _ => True
  | .offset, .off _ => True
  | .immReg, .immReg _ => True
  | .address, .address _ (some _) => True
  | .addrOffset, .off _ => True
  | .addrOffset, .address _ (some _) => True
  | _, _ => False

def shapes : List Kind → List Val → Prop
  | [], [] => True
  | k :: ks, v :: vs => shape k v ∧ shapes ks vs
  | _, _ => False

theorem denote_shape {T : SymTable} {k : Kind} {a : Arg} {v : Val} (h : denote T k a = some v) : shape k v := by
  cases k <;> simp only [denote] at h
  case register => cases a <;> simp at h; obtain ⟨_, _, rfl⟩ := h; trivial
  case systemReg => cases a <;> simp at h; obtain ⟨_, _, rfl⟩ := h; trivial
  case identifier => cases a <;> simp at h; subst h; trivial
  case regSet => cases a <;> simp at h; obtain ⟨_, _, rfl⟩ := h; trivial
  case immediate => simp at h; obtain ⟨_, _, rfl⟩ := h; trivial
  case offset => simp at h; obtain ⟨_, _, rfl⟩ := h; trivial
  case immReg =>
    split at h
    · split at h
      · simp at h; obtain ⟨_, _, rfl⟩ := h; trivial
      · simp at h; obtain ⟨_, _, rfl⟩ := h; trivial
    · simp at h; obtain ⟨_, _, rfl⟩ := h; trivial
  case address => cases a <;> simp at h; obtain ⟨_, _, _, rfl⟩ := h; trivial
  case addrOffset =>
    split at h
    · simp at h; obtain ⟨_, _, _, rfl⟩ := h; trivial
    · simp at h; obtain ⟨_, _, rfl⟩ := h; trivial

theorem denoteAll_shapes {T : SymTable} : ∀ {ks : List Kind} {as : List Arg} {vs : List Val},
    denoteAll T ks as = some vs → shapes ks vs := by
  intro ks
  induction ks with
  | nil => intro as vs h; cases as <;> simp [denoteAll] at h; subst h; trivial
  | cons k ks ih =>
    intro as vs h
    cases as with
    | nil => simp [denoteAll] at h
    | cons a as =>
      simp only [denoteAll] at h
      cases h1 : denote T k a with
      | none => simp [h1] at h
      | some v =>
        cases h2 : denoteAll T ks as with
        | none => simp [h1, h2] at h
        | some vs' =>
          simp only [h1, h2, Option.some.injEq] at h
          subst h
          exact ⟨denote_shape h1, ih h2⟩

/-! ## inversion of `shapes` for the sixteen signatures -/

theorem sh_reg {v : Val} (h : shape .register v) : ∃ r, v = .reg r := by cases v <;> simp [shape] at h; exact ⟨_, rfl⟩
theorem sh_sys {v : Val} (h : shape .systemReg v) : ∃ r, v = .sys r := by cases v <;> simp [shape] at h; exact ⟨_, rfl⟩
theorem sh_ident {v : Val} (h : shape .identifier v) : ∃ r, v = .ident r := by cases v <;> simp [shape] at h; exact ⟨_, rfl⟩
theorem sh_regSet {v : Val} (h : shape .regSet v) : ∃ r, v = .regSet r := by cases v <;> simp [shape] at h; exact ⟨_, rfl⟩
theorem sh_imm {v : Val} (h : shape .immediate v) : ∃ r, v = .imm r := by cases v <;> simp [shape] at h; exact ⟨_, rfl⟩
theorem sh_off {v : Val} (h : shape .offset v) : ∃ r, v = .off r := by cases v <;> simp [shape] at h; exact ⟨_, rfl⟩
theorem sh_immReg {v : Val} (h : shape .immReg v) : ∃ r, v = .immReg r := by cases v <;> simp [shape] at h; exact ⟨_, rfl⟩
theorem sh_address {v : Val} (h : shape .address v) : ∃ r o, v = .address r (some o) := by
  cases v <;> simp [shape] at h
  rename_i r o; cases o <;> simp [shape] at h; exact ⟨_, _, rfl⟩
theorem sh_addrOffset {v : Val} (h : shape .addrOffset v) : (∃ t, v = .off t) ∨ ∃ r o, v = .address r (some o) := by
  cases v <;> simp [shape] at h
  · rename_i r o; cases o <;> simp [shape] at h; exact .inr ⟨_, _, rfl⟩
  · exact .inl ⟨_, rfl⟩

theorem shs0 {vs : List Val} (h : shapes [] vs) : vs = [] := by cases vs <;> simp [shapes] at h ⊢
theorem shs1 {k : Kind} {vs : List Val} (h : shapes [k] vs) : ∃ v, vs = [v] ∧ shape k v := by
  rcases vs with _ | ⟨v, _ | ⟨w, r⟩⟩ <;> simp [shapes] at h ⊢
  exact h
theorem shs2 {k1 k2 : Kind} {vs : List Val} (h : shapes [k1, k2] vs) : ∃ v w, vs = [v, w] ∧ shape k1 v ∧ shape k2 w := by
  rcases vs with _ | ⟨v, _ | ⟨w, _ | ⟨x, r⟩⟩⟩ <;> simp [shapes] at h
  exact ⟨v, w, rfl, h⟩
theorem shs3 {k1 k2 k3 : Kind} {vs : List Val} (h : shapes [k1, k2, k3] vs) :
    ∃ v w x, vs = [v, w, x] ∧ shape k1 v ∧ shape k2 w ∧ shape k3 x := by
  rcases vs with _ | ⟨v, _ | ⟨w, _ | ⟨x, _ | ⟨y, r⟩⟩⟩⟩ <;> simp [shapes] at h
  exact ⟨v, w, x, rfl, h⟩

theorem pcAligned_eq (A : Nat) : pcAligned A = ((alPc A : Nat) : Int) := by simp [pcAligned, alPc]
theorem pc_eq (A : Nat) : pc A = ((pcOf A : Nat) : Int) := by simp [pc, pcOf]

/-- the barrier-option quirk of the implementation: `DMB/DSB/ISB SV` is accepted like `SY` (reported as a finding) -/
def svQuirk (t : Instr) (vals : List Val) : Prop :=
  (t = .dmb ∨ t = .dsb ∨ t = .isb) ∧ ∃ o, vals = [.ident o] ∧ upper o = bytesOf "SV"

theorem literal_ok {A : Nat} {t o : Int} (h : literal A t = .ok o) :
    o = t - (alPc A : Nat) ∧ 0 ≤ o ∧ o ≤ 1020 ∧ o % 4 = 0 := by
  unfold literal at h
  simp only at h
  split at h
  · cases h
  · split at h
    · cases h
    · cases h; omega

theorem branch_ok {A : Nat} {t lo hi o : Int} (h : branch A t lo hi = .ok o) :
    o = t - (pcOf A : Nat) ∧ lo ≤ o ∧ o ≤ hi ∧ o % 2 = 0 := by
  unfold branch at h
  simp only at h
  split at h
  · cases h
  · split at h
    · cases h
    · cases h; omega

theorem literal_of {A : Nat} {t : Int} (h0 : 0 ≤ t - (alPc A : Nat)) (h1 : t - (alPc A : Nat) ≤ 1020)
    (h4 : (t - (alPc A : Nat)) % 4 = 0) : literal A t = .ok (t - (alPc A : Nat)) := by
  unfold literal
  simp only
  rw [if_neg (by omega), if_neg (by omega)]

theorem branch_of {A : Nat} {t lo hi : Int} (h0 : lo ≤ t - (pcOf A : Nat)) (h1 : t - (pcOf A : Nat) ≤ hi)
    (h2 : (t - (pcOf A : Nat)) % 2 = 0) : branch A t lo hi = .ok (t - (pcOf A : Nat)) := by
  unfold branch
  simp only
  rw [if_neg (by omega), if_neg (by omega)]

end Trion.C04
