import TrionModel.Lemmas.LexRun
/-!
# Helper lemmas for the tokenizer model, part 6: exact values of literals
-/
namespace Trion.Lex
open Trion.Pos (isCont adv)

/-! ### ASCII input is accepted whole by `from_utf8` -/

theorem decodeChar_ascii_cons (b : UInt8) (tl : Bytes) (h : b.toNat < 128) : decodeChar (b :: tl) = some (b.toNat, 1) := by
  simp [decodeChar, h]

theorem validUpToF_ascii (f : Nat) (d : Bytes) (h : ∀ b ∈ d, b.toNat < 128) (hf : d.length ≤ f) :
    validUpToF f d = d.length := by
  induction f generalizing d with
  | zero =>
    have : d = [] := List.length_eq_zero_iff.mp (by omega)
    subst this; rfl
  | succ f ih =>
    cases d with
    | nil => simp [validUpToF, decodeChar]
    | cons b tl =>
      rw [validUpToF, decodeChar_ascii_cons b tl (h b (by simp))]
      simp only [List.drop_succ_cons, List.drop_zero]
      rw [ih tl (fun x hx => h x (by simp [hx])) (by simp at hf; omega)]
      simp; omega

theorem new_ascii (bs : Bytes) (h : ∀ b ∈ bs, b.toNat < 128) : State.new bs = ⟨bs, false, 1, 1⟩ := by
  have hv : validUpTo bs = bs.length := validUpToF_ascii _ _ h (Nat.le_refl _)
  simp [State.new, hv]

/-! ### `from_str_radix` is positional notation with an overflow check -/

/-- positional value of a digit string, most significant digit first -/
def valueFrom (radix : Nat) (ds : Bytes) (acc : Nat) : Nat :=
  ds.foldl (fun a b => a * radix + (digitVal radix b).getD 0) acc

theorem valueFrom_ge (radix : Nat) (hr : 1 ≤ radix) (ds : Bytes) (acc : Nat) : acc ≤ valueFrom radix ds acc := by
  induction ds generalizing acc with
  | nil => simp [valueFrom]
  | cons b ds ih =>
    have := ih (acc * radix + (digitVal radix b).getD 0)
    simp only [valueFrom, List.foldl_cons] at this ⊢
    have h2 : acc ≤ acc * radix := Nat.le_mul_of_pos_right acc hr
    omega

theorem parseDigits_eq (radix max : Nat) (hr : 1 ≤ radix) (ds : Bytes) (acc : Nat)
    (hd : ∀ b ∈ ds, isDigit radix b = true) (hacc : acc ≤ max) :
    parseDigits radix max ds acc = if valueFrom radix ds acc ≤ max then some (valueFrom radix ds acc) else none := by
  induction ds generalizing acc with
  | nil => simp [parseDigits, valueFrom, hacc]
  | cons b ds ih =>
    have hb := hd b (by simp)
    unfold isDigit at hb
    cases hv : digitVal radix b with
    | none => simp [hv] at hb
    | some v =>
      simp only [parseDigits, hv]
      have hstep : valueFrom radix (b :: ds) acc = valueFrom radix ds (acc * radix + v) := by
        simp [valueFrom, hv]
      rw [hstep]
      by_cases hov : acc * radix + v > max
      · simp only [hov, if_true]
        have := valueFrom_ge radix hr ds (acc * radix + v)
        have : ¬ valueFrom radix ds (acc * radix + v) ≤ max := by omega
        simp [this]
      · simp only [hov, if_false]
        exact ih _ (fun x hx => hd x (by simp [hx])) (by omega)

/-! ### a state that begins with a token byte -/

theorem punct_digit : ∀ c, c < 256 → 48 ≤ c → c ≤ 57 → punct c = none := by decide +kernel

theorem skipLoop_none (f : Nat) (s : State) (b0 : UInt8) (tl : Bytes) (hd : s.data = b0 :: tl)
    (h1 : isSpace b0 = false) (h2 : b0.toNat ≠ 47) : skipLoop (f + 1) s = .go s := by
  have hsp : skipSpaces s = some s := by
    simp [skipSpaces, hd, position, h1]
  have hs1 : ∀ y, startsWith2 s.data 47 y = false := by
    intro y
    rw [hd]
    cases tl <;> simp [startsWith2, h2]
  have hlen : (s.data.length == 0) = false := by simp [hd]
  simp [skipLoop, hlen, hsp, hs1]

theorem isDigit_noncont {r : Nat} {b : UInt8} (h : isDigit r b = true) : isCont b = false := by
  have := isDigit_ascii h
  rw [isCont_false_iff]; omega

/-- the number arm computes positional notation: on `pfx ++ ds ++ rest` where `pfx` is what prefix
detection sees, `ds` the digit run and `rest` does not continue it -/
theorem lexNumber_exact (s : State) (pfx ds rest : Bytes) (r : Nat)
    (hdata : s.data = pfx ++ ds ++ rest)
    (hoff : (if (startsWith2 s.data 48 98 || startsWith2 s.data 48 111 || startsWith2 s.data 48 120) = true then 2 else 0) = pfx.length)
    (hrad : (if startsWith2 s.data 48 98 = true then 2 else if startsWith2 s.data 48 111 = true then 8
      else if startsWith2 s.data 48 120 = true then 16 else 10) = r)
    (hds : ∀ b ∈ ds, isDigit r b = true)
    (hds0 : ∀ b, (ds ++ rest).head? = some b → isCont b = false)
    (hrest : rest = [] ∧ s.utfErr = false ∨ ∃ b tl, rest = b :: tl ∧ isDigit r b = false ∧ isCont b = false) :
    lexNumber s = match i64FromStrRadix ds r with
      | some v => .tok ⟨s.line, s.col, .num v⟩ ⟨rest, s.utfErr, s.line, s.col + (pfx ++ ds).length⟩
      | none => fail s .badNumber := by
  unfold lexNumber
  simp only [hoff, hrad]
  have hrest0 : ∀ b, rest.head? = some b → isCont b = false := by
    intro b hb
    rcases hrest with ⟨rfl, _⟩ | ⟨b', tl, rfl, _, hc⟩
    · simp at hb
    · simp at hb; subst hb; exact hc
  have hsl : sliceFrom s.data pfx.length = some (ds ++ rest) := by
    rw [hdata, List.append_assoc]; exact sliceFrom_split pfx (ds ++ rest) hds0
  rw [hsl]
  simp only
  have htail : lexNumberTail s pfx.length r ds.length = match i64FromStrRadix ds r with
      | some v => .tok ⟨s.line, s.col, .num v⟩ ⟨rest, s.utfErr, s.line, s.col + (pfx ++ ds).length⟩
      | none => fail s .badNumber := by
    unfold lexNumberTail
    rw [hdata, slice_split pfx ds rest hds0 hrest0]
    simp only
    cases i64FromStrRadix ds r with
    | none => rfl
    | some v =>
      simp only
      unfold emit
      simp only [if_true]
      have := sliceFrom_split (pfx ++ ds) rest hrest0
      rw [← hdata] at this
      simp only [List.length_append] at this ⊢
      rw [this]
  rcases hrest with ⟨rfl, hue⟩ | ⟨b', tl, rfl, hnd, hc⟩
  · have hpos : position (fun b => !isDigit r b) (ds ++ []) = none :=
      position_none_of_all _ (by intro x hx; simp at hx; simp [hds x hx])
    rw [hpos]
    simp only [hue, Bool.false_eq_true, if_false]
    have hlen : s.data.length = pfx.length + ds.length := by rw [hdata]; simp
    have : ¬ s.data.length < pfx.length := by omega
    simp only [this, if_false]
    have : s.data.length - pfx.length = ds.length := by omega
    rw [this, htail]
    simp [hue]
  · have hpos : position (fun b => !isDigit r b) (ds ++ b' :: tl) = some ds.length :=
      position_append_of_all ds b' tl (by intro x hx; simp [hds x hx]) (by simp [hnd])
    rw [hpos]
    simp only
    exact htail

theorem doNext_number (s : State) (b0 : UInt8) (tl : Bytes) (hd : s.data = b0 :: tl)
    (h0 : 48 ≤ b0.toNat ∧ b0.toNat ≤ 57) : doNext s = lexNumber s := by
  unfold doNext
  have e0 : s.data[0]? = some b0 := by rw [hd]; rfl
  rw [e0]
  simp only
  rw [punct_digit b0.toNat (UInt8.toNat_lt b0) h0.1 h0.2]
  simp only
  have c1 : (b0.toNat == 60) = false := by simp; omega
  have c2 : (b0.toNat == 62) = false := by simp; omega
  have c3 : (decide (48 ≤ b0.toNat) && decide (b0.toNat ≤ 57)) = true := by simp; omega
  simp [c1, c2, c3]

/-- `next()` on a state that starts with a digit -/
theorem nextToken_number (s : State) (b0 : UInt8) (tl : Bytes) (hd : s.data = b0 :: tl)
    (h0 : 48 ≤ b0.toNat ∧ b0.toNat ≤ 57) :
    nextToken s = match lexNumber s with
      | .err e s2 => .err e s2.clear
      | r => r := by
  unfold nextToken
  rw [skipLoop_none s.data.length s b0 tl hd (by simp [isSpace]; omega) (by omega)]
  simp only
  have : (!s.data.isEmpty) = true := by simp [hd]
  simp only [this, if_true]
  rw [doNext_number s b0 tl hd h0]
  cases lexNumber s <;> rfl

/-- the four ways of writing a radix -/
def radixPrefix (r : Nat) : Bytes :=
  if r = 2 then [48, 98] else if r = 8 then [48, 111] else if r = 16 then [48, 120] else []

theorem digitVal_lt {r : Nat} {b : UInt8} {v : Nat} (h : digitVal r b = some v) : v < r := by
  unfold digitVal at h
  simp only at h
  split at h
  · split at h
    · simp at h; omega
    · simp at h
  · simp at h

theorem isDigit10_range {b : UInt8} (h : isDigit 10 b = true) : 48 ≤ b.toNat ∧ b.toNat ≤ 57 := by
  unfold isDigit at h
  cases hv : digitVal 10 b with
  | none => simp [hv] at h
  | some v =>
    have hlt := digitVal_lt hv
    unfold digitVal at hv
    simp only at hv
    split at hv
    · rename_i w hw
      split at hw
      · omega
      · split at hw
        · simp at hw; split at hv
          · simp at hv; omega
          · simp at hv
        · split at hw
          · simp at hw; split at hv
            · simp at hv; omega
            · simp at hv
          · simp at hw
    · simp at hv

/-- prefix detection on `radixPrefix r ++ ds ++ rest` -/
theorem prefix_detect (r : Nat) (hr : r = 2 ∨ r = 8 ∨ r = 10 ∨ r = 16) (ds rest : Bytes)
    (hds : ∀ b ∈ ds, isDigit r b = true) (hne : r = 10 → ds ≠ [])
    (hrest : r = 10 → ∀ b, rest.head? = some b → isDigit 10 b = false → b.toNat ≠ 98 ∧ b.toNat ≠ 111 ∧ b.toNat ≠ 120) :
    let d := radixPrefix r ++ ds ++ rest
    (if (startsWith2 d 48 98 || startsWith2 d 48 111 || startsWith2 d 48 120) = true then 2 else 0) = (radixPrefix r).length ∧
    (if startsWith2 d 48 98 = true then 2 else if startsWith2 d 48 111 = true then 8
      else if startsWith2 d 48 120 = true then 16 else 10) = r := by
  rcases hr with rfl | rfl | rfl | rfl
  · simp [radixPrefix, startsWith2]
  · simp [radixPrefix, startsWith2]
  · -- decimal: the second byte is a decimal digit or the non-digit that ends the run
    simp only [radixPrefix]
    simp only [show ¬ (10 = 2) by omega, show ¬ (10 = 8) by omega, show ¬ (10 = 16) by omega, if_false, List.nil_append]
    have key : ∀ y, (y = 98 ∨ y = 111 ∨ y = 120) → startsWith2 (ds ++ rest) 48 y = false := by
      intro y hy
      cases ds with
      | nil => exact absurd rfl (hne rfl)
      | cons a ds' =>
        cases ds' with
        | cons b ds'' =>
          have hb := isDigit10_range (hds b (by simp))
          simp [startsWith2]
          intro _; omega
        | nil =>
          cases rest with
          | nil => simp [startsWith2]
          | cons b rest' =>
            simp [startsWith2]
            intro _
            by_cases hdg : isDigit 10 b = true
            · have := isDigit10_range hdg; omega
            · have := hrest rfl b rfl (by simpa using hdg); omega
    simp [key 98 (by omega), key 111 (by omega), key 120 (by omega)]
  · simp [radixPrefix, startsWith2]

/-! ### raw strings -/

/-- a byte that may stand for itself inside a string: TAB or printable ASCII other than `"` and `\` -/
def isRawStrByte (b : UInt8) : Bool :=
  b.toNat == 9 || (decide (32 ≤ b.toNat) && decide (b.toNat ≤ 126) && b.toNat != 34 && b.toNat != 92)

theorem punct_quote : punct 34 = none := by decide

theorem doNext_string (s : State) (b0 : UInt8) (tl : Bytes) (hd : s.data = b0 :: tl)
    (h0 : b0.toNat = 34) : doNext s = lexString s := by
  unfold doNext
  have e0 : s.data[0]? = some b0 := by rw [hd]; rfl
  rw [e0]
  simp only
  rw [h0, punct_quote]
  simp

theorem good_ascii (d : Bytes) (h : ∀ b ∈ d, b.toNat < 128) : Good d := by
  intro pre b c post hd _
  rw [isCont_false_iff]
  have := h c (by rw [hd]; simp)
  omega

/-- the string arm on a string without escapes: the payload is the text between the quotes -/
theorem lexString_raw (body : Bytes) (hb : ∀ b ∈ body, isRawStrByte b = true) (l c : Nat) :
    lexString ⟨34 :: body ++ [34], false, l, c⟩ =
      .tok ⟨l, c, .str body⟩ ⟨[], false, l, c + (body.length + 2)⟩ := by
  have hbody : ∀ b ∈ body, b.toNat < 128 ∧ b.toNat ≠ 10 ∧ isStrStop b = false := by
    intro b hx
    have := hb b hx
    simp [isRawStrByte] at this
    simp [isStrStop]
    omega
  have hq : isCont (34 : UInt8) = false := by decide
  have hnc : ∀ b, (body ++ [34]).head? = some b → isCont b = false := by
    intro b hx
    cases body with
    | nil => simp at hx; subst hx; exact hq
    | cons a t =>
      simp at hx; subst hx
      rw [isCont_false_iff]; have := (hbody a (by simp)).1; omega
  have hall : ∀ b ∈ (34 : UInt8) :: body ++ [34], b.toNat < 128 ∧ b.toNat ≠ 10 := by
    intro b hx
    simp at hx
    rcases hx with rfl | hx | rfl
    · decide
    · exact ⟨(hbody b hx).1, (hbody b hx).2.1⟩
    · decide
  unfold lexString
  simp only
  have hlen : ((34 : UInt8) :: body ++ [34]).length = (body.length + 1) + 1 := by simp
  have hloop : strLoop (34 :: body ++ [34]) ((34 : UInt8) :: body ++ [34]).length 1 [] = .ok (body.length + 2) [] := by
    rw [hlen, strLoop]
    have h1 : sliceFrom ((34 : UInt8) :: body ++ [34]) 1 = some (body ++ [34]) := by
      have := sliceFrom_split [(34 : UInt8)] (body ++ [34]) hnc
      simpa using this
    rw [h1]
    simp only
    have h2 : position isStrStop (body ++ [34]) = some body.length :=
      position_append_of_all body 34 [] (fun x hx => (hbody x hx).2.2) (by decide)
    rw [h2]
    simp only
    have h3 : ((34 : UInt8) :: body ++ [34])[1 + body.length]? = some 34 := by
      have := getElem?_append_length ((34 : UInt8) :: body) 34 []
      simp at this ⊢
      rw [show 1 + body.length = body.length + 1 by omega]
      simpa using this
    rw [h3]
    simp
    omega
  rw [hloop]
  simp only [List.isEmpty_nil, Bool.not_true, Bool.false_eq_true, if_false]
  have : ¬ body.length + 2 < 1 := by omega
  simp only [this, if_false]
  have hsl : slice ((34 : UInt8) :: body ++ [34]) 1 (body.length + 2 - 1) = some body := by
    have := slice_split [(34 : UInt8)] body [34] hnc (by intro b hx; simp at hx; subst hx; exact hq)
    rw [show body.length + 2 - 1 = [(34 : UInt8)].length + body.length by simp; omega]
    simpa using this
  rw [hsl]
  simp only
  unfold emit
  simp only [Bool.false_eq_true, if_false]
  have hto : sliceTo ((34 : UInt8) :: body ++ [34]) (body.length + 2) = some (34 :: body ++ [34]) := by
    have := isBoundary_length ((34 : UInt8) :: body ++ [34])
    simp [sliceTo] at this ⊢
    rw [show body.length + 2 = body.length + 1 + 1 by omega]
    simp [this]
    exact List.take_of_length_le (by simp)
  have hfrom : sliceFrom ((34 : UInt8) :: body ++ [34]) (body.length + 2) = some [] := by
    have := isBoundary_length ((34 : UInt8) :: body ++ [34])
    simp [sliceFrom] at this ⊢
    rw [show body.length + 2 = body.length + 1 + 1 by omega]
    simp [this]
  rw [hto, hfrom]
  simp only
  rw [updatePos_eq (good_ascii _ (fun b hx => (hall b hx).1)), Pos.adv_ascii _ _ hall]
  simp

end Trion.Lex
