import TrionModel.Lemmas.LexRun
/-!
# Helper lemmas for the tokenizer model, part 6: exact values of literals
-/
namespace Trion.Lex
open Trion.Pos (isCont adv)

/-! ### ASCII input is accepted whole by `from_utf8` -/

theorem decodeChar_ascii_cons (b : UInt8) (tl : Bytes) (h : b.toNat < 128) : decodeChar (b :: tl) = some (b.toNat, 1) := by
  simp [decodeChar, h]

theorem validUpToF_ascii (f : Nat) (d : Bytes) (h : ∀ b ∈ d, b.toNat < 128) (hf : d.length ≤ f) :
    validUpToF f d = d.length := by
  induction f generalizing d with
  | zero =>
    have : d = [] := List.length_eq_zero_iff.mp (by omega)
    subst this; rfl
  | succ f ih =>
    cases d with
    | nil => simp [validUpToF, decodeChar]
    | cons b tl =>
      rw [validUpToF, decodeChar_ascii_cons b tl (h b (by simp))]
      simp only [List.drop_succ_cons, List.drop_zero]
      rw [ih tl (fun x hx => h x (by simp [hx])) (by simp at hf; omega)]
      simp; omega

theorem new_ascii (bs : Bytes) (h : ∀ b ∈ bs, b.toNat < 128) : State.new bs = ⟨bs, false, 1, 1⟩ := by
  have hv : validUpTo bs = bs.length := validUpToF_ascii _ _ h (Nat.le_refl _)
  simp [State.new, hv]

/-! ### `from_str_radix` is positional notation with an overflow check -/

/-- positional value of a digit string, most significant digit first -/
def valueFrom (radix : Nat) (ds : Bytes) (acc : Nat) : Nat :=
  ds.foldl (fun a b => a * radix + (digitVal radix b).getD 0) acc

theorem valueFrom_ge (radix : Nat) (hr : 1 ≤ radix) (ds : Bytes) (acc : Nat) : acc ≤ valueFrom radix ds acc := by
  induction ds generalizing acc with
  | nil => simp [valueFrom]
  | cons b ds ih =>
    have := ih (acc * radix + (digitVal radix b).getD 0)
    simp only [valueFrom, List.foldl_cons] at this ⊢
    have h2 : acc ≤ acc * radix := Nat.le_mul_of_pos_right acc hr
    omega

theorem parseDigits_eq (radix max : Nat) (hr : 1 ≤ radix) (ds : Bytes) (acc : Nat)
    (hd : ∀ b ∈ ds, isDigit radix b = true) (hacc : acc ≤ max) :
    parseDigits radix max ds acc = if valueFrom radix ds acc ≤ max then some (valueFrom radix ds acc) else none := by
  induction ds generalizing acc with
  | nil => simp [parseDigits, valueFrom, hacc]
  | cons b ds ih =>
    have hb := hd b (by simp)
    unfold isDigit at hb
    cases hv : digitVal radix b with
    | none => simp [hv] at hb
    | some v =>
      simp only [parseDigits, hv]
      have hstep : valueFrom radix (b :: ds) acc = valueFrom radix ds (acc * radix + v) := by
        simp [valueFrom, hv]
      rw [hstep]
      by_cases hov : acc * radix + v > max
      · simp only [hov, if_true]
        have := valueFrom_ge radix hr ds (acc * radix + v)
        have : ¬ valueFrom radix ds (acc * radix + v) ≤ max := by omega
        simp [this]
      · simp only [hov, if_false]
        exact ih _ (fun x hx => hd x (by simp [hx])) (by omega)

/-! ### a state that begins with a token byte -/

theorem punct_digit : ∀ c, c < 256 → 48 ≤ c → c ≤ 57 → punct c = none := by decide +kernel

theorem skipLoop_none (f : Nat) (s : State) (b0 : UInt8) (tl : Bytes) (hd : s.data = b0 :: tl)
    (h1 : isSpace b0 = false) (h2 : b0.toNat ≠ 47) : skipLoop (f + 1) s = .go s := by
  have hsp : skipSpaces s = some s := by
    simp [skipSpaces, hd, position, h1]
  have hs1 : ∀ y, startsWith2 s.data 47 y = false := by
    intro y
    rw [hd]
    cases tl <;> simp [startsWith2, h2]
  have hlen : (s.data.length == 0) = false := by simp [hd]
  simp [skipLoop, hlen, hsp, hs1]

theorem isDigit_noncont {r : Nat} {b : UInt8} (h : isDigit r b = true) : isCont b = false := by
  have := isDigit_ascii h
  rw [isCont_false_iff]; omega

/-- the number arm computes positional notation: on `pfx ++ ds ++ rest` where `pfx` is what prefix
detection sees, `ds` the digit run and `rest` does not continue it -/
theorem lexNumber_exact (s : State) (pfx ds rest : Bytes) (r : Nat)
    (hdata : s.data = pfx ++ ds ++ rest)
    (hoff : (if (startsWith2 s.data 48 98 || startsWith2 s.data 48 111 || startsWith2 s.data 48 120) = true then 2 else 0) = pfx.length)
    (hrad : (if startsWith2 s.data 48 98 = true then 2 else if startsWith2 s.data 48 111 = true then 8
      else if startsWith2 s.data 48 120 = true then 16 else 10) = r)
    (hds : ∀ b ∈ ds, isDigit r b = true)
    (hds0 : ∀ b, (ds ++ rest).head? = some b → isCont b = false)
    (hrest : rest = [] ∧ s.utfErr = false ∨ ∃ b tl, rest = b :: tl ∧ isDigit r b = false ∧ isCont b = false) :
    lexNumber s = match i64FromStrRadix ds r with
      | some v => .tok ⟨s.line, s.col, .num v⟩ ⟨rest, s.utfErr, s.line, s.col + (pfx ++ ds).length⟩
      | none => fail s .badNumber := by
  unfold lexNumber
  simp only [hoff, hrad]
  have hrest0 : ∀ b, rest.head? = some b → isCont b = false := by
    intro b hb
    rcases hrest with ⟨rfl, _⟩ | ⟨b', tl, rfl, _, hc⟩
    · simp at hb
    · simp at hb; subst hb; exact hc
  have hsl : sliceFrom s.data pfx.length = some (ds ++ rest) := by
    rw [hdata, List.append_assoc]; exact sliceFrom_split pfx (ds ++ rest) hds0
  rw [hsl]
  simp only
  have htail : lexNumberTail s pfx.length r ds.length = match i64FromStrRadix ds r with
      | some v => .tok ⟨s.line, s.col, .num v⟩ ⟨rest, s.utfErr, s.line, s.col + (pfx ++ ds).length⟩
      | none => fail s .badNumber := by
    unfold lexNumberTail
    rw [hdata, slice_split pfx ds rest hds0 hrest0]
    simp only
    cases i64FromStrRadix ds r with
    | none => rfl
    | some v =>
      simp only
      unfold emit
      simp only [if_true]
      have := sliceFrom_split (pfx ++ ds) rest hrest0
      rw [← hdata] at this
      simp only [List.length_append] at this ⊢
      rw [this]
  rcases hrest with ⟨rfl, hue⟩ | ⟨b', tl, rfl, hnd, hc⟩
  · have hpos : position (fun b => !isDigit r b) (ds ++ []) = none :=
      position_none_of_all _ (by intro x hx; simp at hx; simp [hds x hx])
    rw [hpos]
    simp only [hue, Bool.false_eq_true, if_false]
    have hlen : s.data.length = pfx.length + ds.length := by rw [hdata]; simp
    have : ¬ s.data.length < pfx.length := by omega
    simp only [this, if_false]
    have : s.data.length - pfx.length = ds.length := by omega
    rw [this, htail]
    simp [hue]
  · have hpos : position (fun b => !isDigit r b) (ds ++ b' :: tl) = some ds.length :=
      position_append_of_all ds b' tl (by intro x hx; simp [hds x hx]) (by simp [hnd])
    rw [hpos]
    simp only
    exact htail

theorem doNext_number (s : State) (b0 : UInt8) (tl : Bytes) (hd : s.data = b0 :: tl)
    (h0 : 48 ≤ b0.toNat ∧ b0.toNat ≤ 57) : doNext s = lexNumber s := by
  unfold doNext
  have e0 : s.data[0]? = some b0 := by rw [hd]; rfl
  rw [e0]
  simp only
  rw [punct_digit b0.toNat (UInt8.toNat_lt b0) h0.1 h0.2]
  simp only
  have c1 : (b0.toNat == 60) = false := by simp; omega
  have c2 : (b0.toNat == 62) = false := by simp; omega
  have c3 : (decide (48 ≤ b0.toNat) && decide (b0.toNat ≤ 57)) = true := by simp; omega
  simp [c1, c2, c3]

/-- `next()` on a state that starts with a digit -/
theorem nextToken_number (s : State) (b0 : UInt8) (tl : Bytes) (hd : s.data = b0 :: tl)
    (h0 : 48 ≤ b0.toNat ∧ b0.toNat ≤ 57) :
    nextToken s = match lexNumber s with
      | .err e s2 => .err e s2.clear
      | r => r := by
  unfold nextToken
  rw [skipLoop_none s.data.length s b0 tl hd (by simp [isSpace]; omega) (by omega)]
  simp only
  have : (!s.data.isEmpty) = true := by simp [hd]
  simp only [this, if_true]
  rw [doNext_number s b0 tl hd h0]
  cases lexNumber s <;> rfl

/-- the four ways of writing a radix -/
def radixPrefix (r : Nat) : Bytes :=
  if r = 2 then [48, 98] else if r = 8 then [48, 111] else if r = 16 then [48, 120] else []

theorem digitVal_lt {r : Nat} {b : UInt8} {v : Nat} (h : digitVal r b = some v) : v < r := by
  unfold digitVal at h
  simp only at h
  split at h
  · split at h
    · simp at h; omega
    · simp at h
  · simp at h

theorem isDigit10_range {b : UInt8} (h : isDigit 10 b = true) : 48 ≤ b.toNat ∧ b.toNat ≤ 57 := by
  unfold isDigit at h
  cases hv : digitVal 10 b with
  | none => simp [hv] at h
  | some v =>
    have hlt := digitVal_lt hv
    unfold digitVal at hv
    simp only at hv
    split at hv
    · rename_i w hw
      split at hw
      · omega
      · split at hw
        · simp at hw; split at hv
          · simp at hv; omega
          · simp at hv
        · split at hw
          · simp at hw; split at hv
            · simp at hv; omega
            · simp at hv
          · simp at hw
    · simp at hv

/-- prefix detection on `radixPrefix r ++ ds ++ rest` -/
theorem prefix_detect (r : Nat) (hr : r = 2 ∨ r = 8 ∨ r = 10 ∨ r = 16) (ds rest : Bytes)
    (hds : ∀ b ∈ ds, isDigit r b = true) (hne : r = 10 → ds ≠ [])
    (hrest : r = 10 → ∀ b, rest.head? = some b → isDigit 10 b = false → b.toNat ≠ 98 ∧ b.toNat ≠ 111 ∧ b.toNat ≠ 120) :
    let d := radixPrefix r ++ ds ++ rest
    (if (startsWith2 d 48 98 || startsWith2 d 48 111 || startsWith2 d 48 120) = true then 2 else 0) = (radixPrefix r).length ∧
    (if startsWith2 d 48 98 = true then 2 else if startsWith2 d 48 111 = true then 8
      else if startsWith2 d 48 120 = true then 16 else 10) = r := by
  rcases hr with rfl | rfl | rfl | rfl
  · simp [radixPrefix, startsWith2]
  · simp [radixPrefix, startsWith2]
  · -- decimal: the second byte is a decimal digit or the non-digit that ends the run
    simp only [radixPrefix]
    simp only [show ¬ (10 = 2) by omega, show ¬ (10 = 8) by omega, show ¬ (10 = 16) by omega, if_false, List.nil_append]
    have key : ∀ y, (y = 98 ∨ y = 111 ∨ y = 120) → startsWith2 (ds ++ rest) 48 y = false := by
      intro y hy
      cases ds with
      | nil => exact absurd rfl (hne rfl)
      | cons a ds' =>
        cases ds' with
        | cons b ds'' =>
          have hb := isDigit10_range (hds b (by simp))
          simp [startsWith2]
          intro _; omega
        | nil =>
          cases rest with
          | nil => simp [startsWith2]
          | cons b rest' =>
            simp [startsWith2]
            intro _
            by_cases hdg : isDigit 10 b = true
            · have := isDigit10_range hdg; omega
            · have := hrest rfl b rfl (by simpa using hdg); omega
    simp [key 98 (by omega), key 111 (by omega), key 120 (by omega)]
  · simp [radixPrefix, startsWith2]

end Trion.Lex
