import TrionModel.Lemmas.CodecWf
namespace Trion.Codec
theorem wfBlock7 : wfBlock 7 8 := by decide +kernel
end Trion.Codec
