import TrionModel.Lemmas.Seg
namespace Trion.Seg
open Trion.Map Trion.Dict

theorem abs_none_of_ge_aux {lo : Nat} {ps : Segs} (ok : Ok lo ps) {k : Nat} (h : 4294967296 ≤ k) :
    abs ps k = none := by
  induction ps generalizing lo with
  | nil => rfl
  | cons s r ih =>
    obtain ⟨f, x⟩ := s
    obtain ⟨_, _, h3, h4⟩ := ok
    have : ¬ (f ≤ k ∧ k < f + x.length) := by omega
    simp only [abs, this, if_false]
    exact ih h4

theorem abs_none_of_ge {ps : Segs} (inv : MInv ps) {k : Nat} (h : 4294967296 ≤ k) : abs ps k = none :=
  abs_none_of_ge_aux inv h

theorem image_some {s : State} {seg : Active} (h : s.active = some seg) (k : Nat) :
    image s k = if seg.base ≤ k ∧ k < seg.base + seg.buf.length then seg.buf[k - seg.base]? else abs s.map k := by
  simp only [image, h]

theorem image_none' {s : State} (h : s.active = none) (k : Nat) : image s k = abs s.map k := by
  simp only [image, h]

/-- a rewrite through the map of a range that is fully occupied -/
theorem put_zero {s : State} (inv : Inv s) (addr : Nat) (d : List UInt8)
    (H : ∀ k, addr ≤ k → k < addr + d.length → (abs s.map k).isSome = true) :
    ∃ m', Map.put s.map addr d = (.ok 0, m') ∧ MInv m' ∧ abs m' = Dict.put (abs s.map) addr d := by
  by_cases hd : d = []
  · subst hd
    refine ⟨s.map, rfl, inv.1, ?_⟩
    funext k
    rw [put_apply, if_neg (by simp only [List.length_nil]; omega)]
  · have hpos : 0 < d.length := List.length_pos_iff.mpr hd
    have hbound : addr + d.length ≤ 4294967296 := by
      by_cases c : addr + d.length ≤ 4294967296
      · exact c
      · exfalso
        have h1 := H (addr + d.length - 1) (by omega) (by omega)
        rw [abs_none_of_ge inv.1 (by omega)] at h1
        simp at h1
    obtain ⟨p1, p2, p3⟩ := put_refines_aux s.map addr d inv.1 hbound
    rw [fresh_all_some _ _ _ (fun k hk => H _ (by omega) (by omega))] at p1
    exact ⟨(Map.put s.map addr d).2, Prod.ext p1 rfl, p2, p3⟩

theorem viaMap_spec {s : State} (inv : Inv s) (addr : Nat) (d : List UInt8) (m' : Segs)
    (hm : MInv m') (habs : abs m' = Dict.put (abs s.map) addr d)
    (H : ∀ k, addr ≤ k → k < addr + d.length → (abs s.map k).isSome = true) :
    Inv { s with map := m' } ∧
    (∀ k, ¬ (addr ≤ k ∧ k < addr + d.length) → image { s with map := m' } k = image s k) ∧
    (∀ i, i < d.length → image { s with map := m' } (addr + i) = d[i]?) := by
  have hout : ∀ k, ¬ (addr ≤ k ∧ k < addr + d.length) → abs m' k = abs s.map k := by
    intro k hk; rw [habs, put_apply, if_neg hk]
  have hin : ∀ k, (addr ≤ k ∧ k < addr + d.length) → abs m' k = d[k - addr]? := by
    intro k hk; rw [habs, put_apply, if_pos hk]
  have hcap : ∀ seg, s.active = some seg → ∀ k, seg.base ≤ k → k < seg.base + seg.maxLen →
      ¬ (addr ≤ k ∧ k < addr + d.length) := by
    intro seg ha k k1 k2 hr
    have h1 := (inv.2.1 seg ha).2.2.2 k k1 k2
    have h2 := H k hr.1 hr.2
    rw [h1] at h2
    simp at h2
  refine ⟨⟨hm, fun sg hs => ?_, fun p hp => ?_⟩, ?_, ?_⟩
  · have hs : s.active = some sg := hs
    obtain ⟨a1, a2, a3, a4⟩ := inv.2.1 sg hs
    refine ⟨a1, a2, a3, fun k k1 k2 => ?_⟩
    show abs m' k = none
    rw [hout k (hcap sg hs k k1 k2)]
    exact a4 k k1 k2
  · rcases inv.2.2 p hp with h | h
    · left
      intro k k1 k2
      show (abs m' k).isSome = true
      by_cases c : addr ≤ k ∧ k < addr + d.length
      · rw [hin k c, List.getElem?_eq_getElem (by omega)]; rfl
      · rw [hout k c]; exact h k k1 k2
    · right; exact h
  · intro k hk
    cases ha : s.active with
    | none =>
      rw [image_none' (s := ⟨m', none, s.pending⟩) rfl, image_none' ha]
      exact hout k hk
    | some seg =>
      rw [image_some (s := ⟨m', some seg, s.pending⟩) rfl, image_some ha]
      show (if seg.base ≤ k ∧ k < seg.base + seg.buf.length then seg.buf[k - seg.base]? else abs m' k) = _
      rw [hout k hk]
  · intro i hi
    cases ha : s.active with
    | none =>
      rw [image_none' (s := ⟨m', none, s.pending⟩) rfl]
      show abs m' (addr + i) = _
      rw [hin _ (by omega)]
      congr 1; omega
    | some seg =>
      rw [image_some (s := ⟨m', some seg, s.pending⟩) rfl]
      show (if seg.base ≤ addr + i ∧ addr + i < seg.base + seg.buf.length then seg.buf[addr + i - seg.base]?
        else abs m' (addr + i)) = _
      have a1 := (inv.2.1 seg ha).1
      have := hcap seg ha (addr + i)
      rw [if_neg (by omega), hin _ (by omega)]
      congr 1; omega

theorem writeAt_inplace (seg : Active) (addr : Nat) (d : List UInt8) (hb : seg.base ≤ addr)
    (he : addr + d.length ≤ seg.base + seg.buf.length) (hc : addr ≤ seg.cur) :
    ∃ buf', seg.writeAt addr d = ({ seg with buf := buf' }, .ok) ∧ buf'.length = seg.buf.length ∧
      ∀ j, buf'[j]? = if addr - seg.base ≤ j ∧ j < addr - seg.base + d.length then d[j - (addr - seg.base)]?
        else seg.buf[j]? := by
  unfold Active.writeAt
  rw [if_neg (fun h => h ⟨hb, hc⟩)]
  dsimp only
  rw [if_neg (by omega), if_neg (by omega)]
  by_cases c : addr - seg.base < seg.buf.length
  · rw [if_pos c]
    refine ⟨_, rfl, ?_, ?_⟩
    · simp [List.length_take, List.length_drop]; omega
    · intro j
      by_cases cj : addr - seg.base ≤ j ∧ j < addr - seg.base + d.length
      · rw [if_pos cj, List.append_assoc, List.getElem?_append_right (by simp [List.length_take]; omega),
          List.getElem?_append_left (by simp [List.length_take]; omega)]
        congr 1
        simp [List.length_take]; omega
      · rw [if_neg cj]
        by_cases c3 : j < addr - seg.base
        · rw [List.append_assoc, List.getElem?_append_left (by simp [List.length_take]; omega),
            List.getElem?_take_of_lt c3]
        · rw [List.getElem?_append_right (by simp [List.length_take]; omega), List.getElem?_drop]
          congr 1
          simp [List.length_take]; omega
  · rw [if_neg c]
    have hd : d = [] := List.eq_nil_of_length_eq_zero (by omega)
    subst hd
    refine ⟨_, rfl, by simp, ?_⟩
    intro j
    rw [if_neg (by simp only [List.length_nil]; omega), List.append_nil]

theorem rewrite_viaMap {s : State} {addr : Nat} {d : List UInt8} {hit : Option (Nat × Nat)} {m' : Segs}
    (hf : Map.find s.map addr .exact = .ok hit)
    (hn : ∀ seg, s.active = some seg → ¬ (hit.isNone ∧ addr ≥ seg.base ∧ addr ≤ seg.cur))
    (hp : Map.put s.map addr d = (.ok 0, m')) :
    rewrite s addr d = ({ s with map := m' }, .ok) := by
  unfold rewrite
  rw [hf, hp]
  cases ha : s.active with
  | none => rfl
  | some seg =>
    dsimp only
    rw [if_neg (hn seg ha)]
    rfl

theorem rewrite_writeAt {s : State} {addr : Nat} {d : List UInt8} {hit : Option (Nat × Nat)} {seg seg' : Active}
    {out : Out}
    (hf : Map.find s.map addr .exact = .ok hit) (ha : s.active = some seg)
    (hc : hit.isNone ∧ addr ≥ seg.base ∧ addr ≤ seg.cur)
    (hw : seg.writeAt addr d = (seg', out)) :
    rewrite s addr d = ({ s with active := some seg' }, out) := by
  unfold rewrite
  rw [hf, ha]
  dsimp only
  rw [if_pos hc, hw]

theorem rewrite_spec {s : State} (inv : Inv s) (addr : Nat) (d : List UInt8)
    (hp : (addr, d.length) ∈ s.pending) :
    (rewrite s addr d).2 = .ok ∧ Inv (rewrite s addr d).1 ∧
    (∀ k, ¬ (addr ≤ k ∧ k < addr + d.length) → image (rewrite s addr d).1 k = image s k) ∧
    (∀ i, i < d.length → image (rewrite s addr d).1 (addr + i) = d[i]?) ∧
    (rewrite s addr d).1.pending = s.pending := by
  have P : Placed s (addr, d.length) := inv.2.2 (addr, d.length) hp
  have hfind : ∃ hit, Map.find s.map addr .exact = .ok hit ∧
      (hit.isNone = true ↔ abs s.map addr = none) := by
    rcases find_exact_spec inv.1 addr with ⟨_, hf, hn⟩ | ⟨j, sg, hj, _, hf, h1, h2⟩
    · exact ⟨none, hf, by simp [hn]⟩
    · refine ⟨_, hf, ?_⟩
      obtain ⟨a1, _⟩ := abs_of_idx inv.1 hj
      rw [a1 addr h1 h2, List.getElem?_eq_getElem (by omega)]
      simp
  obtain ⟨hit, hf, hhit⟩ := hfind
  -- the write-in-place branch is taken exactly when the statement lies in the active buffer
  by_cases hbr : ∃ seg, s.active = some seg ∧ (hit.isNone ∧ addr ≥ seg.base ∧ addr ≤ seg.cur)
  · obtain ⟨seg, ha, hc⟩ := hbr
    obtain ⟨a1, a2, a3, a4⟩ := inv.2.1 seg ha
    have hbase : seg.base ≤ u32Max := by unfold u32Max; omega
    have hcb := cur_bounds seg hbase
    have hrange : seg.base ≤ addr ∧ addr + d.length ≤ seg.base + seg.buf.length := by
      rcases P with h | ⟨sg, hs, h1, h2⟩
      · by_cases hd : d.length = 0
        · have := hc.2.1; have := hc.2.2; omega
        · exfalso
          have h1 := h addr (Nat.le_refl _) (by show addr < addr + d.length; omega)
          rw [hhit.mp hc.1] at h1
          simp at h1
      · rw [ha] at hs; cases hs
        exact ⟨h1, h2⟩
    obtain ⟨buf', hw, hl, hg⟩ := writeAt_inplace seg addr d hrange.1 hrange.2 hc.2.2
    rw [rewrite_writeAt hf ha hc hw]
    refine ⟨rfl, ⟨inv.1, fun sg hs => ?_, fun p hp' => ?_⟩, fun k hk => ?_, fun i hi => ?_, rfl⟩
    · have hs : some { seg with buf := buf' } = some sg := hs
      cases hs
      exact ⟨by show buf'.length ≤ seg.maxLen; rw [hl]; exact a1, a2, a3, a4⟩
    · rcases inv.2.2 p hp' with h | ⟨sg, hs, h1, h2⟩
      · exact Or.inl h
      · rw [ha] at hs; cases hs
        right
        exact ⟨_, rfl, h1, by show p.1 + p.2 ≤ seg.base + buf'.length; rw [hl]; exact h2⟩
    · rw [image_some (s := { s with active := some { seg with buf := buf' } }) rfl, image_some ha]
      show (if seg.base ≤ k ∧ k < seg.base + buf'.length then buf'[k - seg.base]? else abs s.map k) = _
      rw [hl, hg]
      by_cases c : seg.base ≤ k ∧ k < seg.base + seg.buf.length
      · rw [if_pos c, if_pos c, if_neg (by omega)]
      · rw [if_neg c, if_neg c]
    · rw [image_some (s := { s with active := some { seg with buf := buf' } }) rfl]
      show (if seg.base ≤ addr + i ∧ addr + i < seg.base + buf'.length then buf'[addr + i - seg.base]?
        else abs s.map (addr + i)) = _
      rw [hl, if_pos (by omega), hg, if_pos (by omega)]
      congr 1; omega
  · have hn : ∀ seg, s.active = some seg → ¬ (hit.isNone ∧ addr ≥ seg.base ∧ addr ≤ seg.cur) :=
      fun seg ha hc => hbr ⟨seg, ha, hc⟩
    have H : ∀ k, addr ≤ k → k < addr + d.length → (abs s.map k).isSome = true := by
      rcases P with h | ⟨seg, ha, h1, h2⟩
      · exact h
      · intro k k1 k2
        exfalso
        apply hn seg ha
        obtain ⟨a1, a2, a3, a4⟩ := inv.2.1 seg ha
        have h1 : seg.base ≤ addr := h1
        have h2 : addr + d.length ≤ seg.base + seg.buf.length := h2
        refine ⟨hhit.mpr (a4 addr h1 (by omega)), h1, ?_⟩
        unfold Active.cur u32Max
        omega
    obtain ⟨m', hput, hm, habs⟩ := put_zero inv addr d H
    rw [rewrite_viaMap hf hn hput]
    obtain ⟨v1, v2, v3⟩ := viaMap_spec inv addr d m' hm habs H
    exact ⟨rfl, v1, v2, v3, rfl⟩

end Trion.Seg
