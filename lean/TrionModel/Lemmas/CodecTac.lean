import TrionModel.Model.Codec
/-! Shared tactics and the per-instruction round-trip statement `RT` for the codec proofs (C01–C03).

Method (DESIGN §4): unfold the encoder arm, obtain the halfword as an arithmetic expression in the
operand values, then resolve every `if` of the decoder by `omega`. -/
namespace Trion.Codec
open Trion

theorem SysReg.toNat_le (s : SysReg) : s.toNat ≤ 20 := by cases s <;> simp [SysReg.toNat]
theorem SysReg.ofNat?_toNat (s : SysReg) : SysReg.ofNat? s.toNat = some s := by cases s <;> rfl

/-- walk through the 16-bit decoder: resolve `if`s by linear arithmetic, unfold sub-decoders on demand -/
macro "dec16" : tactic => `(tactic| (
  repeat (first
    | simp only [withReg, withCond]
    | simp only [Fin.val_ofNat]
    | simp only [and_true, true_and, and_false, false_and, or_true, true_or, or_false, false_or,
        not_true_eq_false, not_false_eq_true, if_true, if_false, ne_eq]
    | rw [if_neg (by omega)]
    | rw [if_pos (by omega)]
    | unfold decode16 | unfold dec00000 | unfold decShift | unfold dec00011 | unfold dec01000 | unfold decDataProc
    | unfold dec0101 | unfold decLdStImm | unfold dec10110 | unfold dec10111 | unfold decHint | unfold dec1101)))

/-- the same for the 32-bit decoder -/
macro "dec32" : tactic => `(tactic| (
  repeat (first
    | simp only [withReg, withCond]
    | simp only [Fin.val_ofNat]
    | simp only [and_true, true_and, and_false, false_and, or_true, true_or, or_false, false_or,
        not_true_eq_false, not_false_eq_true, if_true, if_false, ne_eq]
    | rw [if_neg (by omega)]
    | rw [if_pos (by omega)]
    | unfold decode32 | unfold decBarrier)))

/-- equality of two decoded results, field by field -/
macro "fin_eq" : tactic => `(tactic| (
  simp [Fin.ext_iff, imm, mkSet, sext2, Reg.sp, Reg.pc, Cond.always] <;> omega))

/-- Round trip of one instruction at the level of halfwords: whatever the encoder emits is a single
halfword below the 32-bit space that `decode16` maps back, or a pair in the 32-bit space that
`decode32` maps back. -/
def RT (i : Instr) : Prop := ∀ hws, encode i = .ok hws → i.wf →
   (∃ w, hws = [w] ∧ w < 65536 ∧ w / 2048 < 29 ∧ decode16 w = .ok (2, i)) ∨
   (∃ w0 w1, hws = [w0, w1] ∧ w0 < 65536 ∧ w1 < 65536 ∧ 29 ≤ w0 / 2048 ∧ w0 / 2048 < 32 ∧
      decode32 w0 w1 = .ok (4, i))

/-- all 16-bit encoder arms -/
macro "rt16" : tactic => `(tactic| (
  intro hws h wf
  try simp only [Instr.wf, ImmReg.wf, inI32] at wf
  (simp only [encode, lo2, lo3, unrep, true_or, false_or, or_true, or_false, Bool.false_eq_true, Bool.true_eq_false,
    if_true, if_false, reduceCtorEq] at h) <;>
  ((repeat' split at h) <;> (try cases h)) <;>
  (left; refine ⟨_, rfl, by omega, by omega, ?_⟩; dec16; try fin_eq)))

end Trion.Codec
