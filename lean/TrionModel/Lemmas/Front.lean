import TrionModel.Spec.Front
/-!
# Helper lemmas for the front end (C04, C19)
-/
namespace Trion.Front
open Trion.Show
set_option maxRecDepth 8000

/-! ## association lists with distinct keys -/

theorem lookup_some_of_mem {α β} [BEq α] [LawfulBEq α] (t : List (α × β)) (k : α) (v : β)
    (hn : (t.map Prod.fst).Nodup) (hm : (k, v) ∈ t) : t.lookup k = some v := by
  induction t with
  | nil => cases hm
  | cons p t ih =>
    obtain ⟨k', v'⟩ := p
    simp only [List.map_cons, List.nodup_cons] at hn
    rcases List.mem_cons.mp hm with h | h
    · cases h; simp [List.lookup]
    · have hne : (k == k') = false := by
        apply Bool.eq_false_iff.mpr
        intro he
        have := eq_of_beq he
        subst this
        exact hn.1 (List.mem_map.mpr ⟨(k, v), h, rfl⟩)
      simp [List.lookup, hne, ih hn.2 h]

theorem mem_of_lookup_some {α β} [BEq α] [LawfulBEq α] (t : List (α × β)) (k : α) (v : β)
    (h : t.lookup k = some v) : (k, v) ∈ t := by
  induction t with
  | nil => simp [List.lookup] at h
  | cons p t ih =>
    obtain ⟨k', v'⟩ := p
    simp only [List.lookup] at h
    split at h
    · rename_i he
      have := eq_of_beq he
      subst this
      cases h
      exact List.mem_cons_self
    · exact List.mem_cons_of_mem _ (ih h)


/-! ## register names -/

theorem regl_regName : ∀ r : Reg, regl (regName r) = some r := by decide
theorem sysl_sysName (s : SysReg) : sysl (sysName s) = some s := by cases s <;> decide
theorem isRegister_regName : ∀ r : Reg, isRegister (regName r) = true := by decide
theorem regTable_nodup : (regTable.map Prod.fst).Nodup := by decide
theorem regTable_len : ∀ p ∈ regTable, p.1.length ≤ 4 := by decide

theorem reg_names_proof (s : Bytes) (r : Reg) : regl s = some r ↔ upper s ∈ names r := by
  unfold regl names
  constructor
  · intro h
    split at h
    · have := mem_of_lookup_some _ _ _ h
      exact List.mem_map.mpr ⟨(upper s, r), List.mem_filter.mpr ⟨this, by simp⟩, rfl⟩
    · cases h
  · intro h
    obtain ⟨p, hp, hk⟩ := List.mem_map.mp h
    obtain ⟨hp1, hv⟩ := List.mem_filter.mp hp
    have hlen : s.length ≤ 4 := by
      have := regTable_len p hp1
      rw [hk] at this
      simpa [upper] using this
    rw [if_pos hlen]
    apply lookup_some_of_mem _ _ _ regTable_nodup
    obtain ⟨k, v⟩ := p
    simp at hv hk
    subst hv; subst hk
    exact hp1


/-! ## register sets: the list printed for a set reads back as that set -/

theorem regset_roundtrip_aux (bits idx : Nat) : ∀ (fuel i : Nat) (acc : RegSet), i + fuel = 16 → acc.val = bits % 2 ^ i →
    regset idx ((regSetList bits fuel i).map rA) acc = .ok (Fin.ofNat 65536 (bits % 65536)) := by
  intro fuel
  induction fuel with
  | zero =>
    intro i acc hi hacc
    have : i = 16 := by omega
    subst this
    simp [regSetList, regset]
    apply Fin.ext
    simp [Fin.ofNat, hacc]
  | succ fuel ih =>
    intro i acc hi hacc
    have hi16 : i < 16 := by omega
    have hstep := Nat.mod_pow_succ (x := bits) (b := 2) (k := i)
    have hpow : 2 ^ i * 2 ≤ 65536 := by
      have : 2 ^ (i + 1) ≤ 2 ^ 16 := Nat.pow_le_pow_right (by decide) (by omega)
      simpa [Nat.pow_succ] using this
    have hlt : bits % 2 ^ i < 2 ^ i := Nat.mod_lt _ (Nat.pow_pos (by decide))
    unfold regSetList
    by_cases hb : bits / 2 ^ i % 2 ≠ 0
    · rw [if_pos hb]
      simp only [List.map_cons, rA, regset, regl_regName]
      apply ih (i + 1) _ (by omega)
      have hb1 : bits / 2 ^ i % 2 = 1 := by omega
      have hv : (Fin.ofNat 16 i).val = i := by simp [Fin.ofNat, Nat.mod_eq_of_lt hi16]
      unfold addBit
      rw [hv, hacc, Nat.div_eq_of_lt hlt]
      simp only [Nat.zero_mod, Nat.zero_ne_one, ↓reduceIte]
      simp only [Fin.ofNat]
      rw [Nat.mod_eq_of_lt (by omega), hstep, hb1]
      omega
    · rw [if_neg hb]
      apply ih (i + 1) acc (by omega)
      have hb0 : bits / 2 ^ i % 2 = 0 := by omega
      rw [hacc, hstep, hb0]; omega

theorem regset_roundtrip (rs : RegSet) (idx : Nat) :
    regset idx ((regSetList rs.val 16 0).map rA) 0 = .ok rs := by
  have := regset_roundtrip_aux rs.val idx 16 0 0 (by omega) (by simp [Nat.mod_one])
  rw [this]
  congr 1
  apply Fin.ext
  simp [Fin.ofNat, Nat.mod_eq_of_lt rs.isLt]

end Trion.Front

namespace Trion.Show
open Trion.Front
set_option maxRecDepth 8000

/-! ## the printed mnemonic is in the table, with the expected template -/

theorem mnemonic_b : ∀ c : Cond, mnemonic (bytesOf "B" ++ condName c) = some (.b c 0) := by decide

theorem mnemonic_parts (i : Instr) (a : Nat) : mnemonic (parts i a).1 = some (template i) := by
  cases i
  case b c off => exact mnemonic_b c
  case add f _ _ _ => cases f <;> simp only [parts, template, sfx] <;> decide
  case sub f _ _ _ => cases f <;> simp only [parts, template, sfx] <;> decide
  case mov f _ _ => cases f <;> simp only [parts, template, sfx] <;> decide
  case cps e => cases e <;> simp only [parts, template] <;> decide
  case ldr d ad o =>
    have h : mnemonic (bytesOf "LDR") = some (.ldr 0 0 (.imm 0)) := by decide
    simp only [parts, template]
    split
    · split <;> exact h
    · exact h
  all_goals (simp only [parts, template]; decide)

end Trion.Show
