import TrionModel.Lemmas.C06Mention
import TrionModel.Lemmas.C06Last
/-!
# `.du* e` where the expression `e` mentions an undefined name: statement and retry
-/
namespace Trion.C04
open Trion Trion.Asm Trion.Front

/-- over a table without an entry for `n`, the evaluation of a tree that mentions `n` is `NoSuchVariable` (leaving a tree
that still mentions `n`) or an evaluation error -/
theorem evalIn_mentions (tbl : Asm.Table) (n : Bytes) (hr : isRegister n = false) (hf : tbl.find n = none) (a : Arg)
    (hm : Simp.mentions n a = true) :
    (∃ m a', Asm.evalIn tbl a = .ok (.noSuch m a') ∧ Simp.mentions n a' = true) ∨
    (∃ e a', Asm.evalIn tbl a = .ok (.err e a')) := by
  have hl : (fun x => tbl.get x) n = .notFound := by simp [Asm.Table.get, hf]
  have w := (Simp.evaluateE_mentions (fun x => tbl.get x) isRegister n hr hl).1 a hm
  unfold Asm.evalIn
  cases h : Simp.evaluateE (fun x => tbl.get x) isRegister a with
  | ok ev a' => rw [h] at w; exact w.elim
  | nosuch m a' => rw [h] at w; exact .inl ⟨m, a', rfl, w⟩
  | err e a' => exact .inr ⟨_, a', rfl⟩
  | panic => exact absurd h (Asm.evaluateE_ne_panic _ _ _)

theorem evalArg_mentions (env : Asm.Env) (st : Asm.St) (tbl : Asm.Table) (henv : env.paths ≠ []) (hl : st.locals = some tbl)
    (n : Bytes) (hr : isRegister n = false) (hf : tbl.find n = none) (a : Arg) (hm : Simp.mentions n a = true) :
    (∃ m a', Asm.evalArg env st a = .ok (.noSuch m a') ∧ Simp.mentions n a' = true) ∨
    (∃ e a', Asm.evalArg env st a = .ok (.err e a')) := by
  have hp : env.paths.isEmpty = false := by cases h : env.paths with | nil => exact absurd h henv | cons => rfl
  have : Asm.evalArg env st a = Asm.evalIn tbl a := by simp [Asm.evalArg, Asm.evalTable, hp, hl]
  rw [this]
  exact evalIn_mentions tbl n hr hf a hm

/-- `.du* e` with `e` mentioning an undefined name: either a diagnostic at once (evaluation error met first, or no room
for the placeholder), or the statement returns `Ok` having queued exactly one retry of itself whose tree still mentions
the name -/
theorem du_mentions_stmt (du : Asm.DU) (env : Asm.Env) (st : Asm.St) (tbl : Asm.Table) (henv : env.paths ≠ [])
    (hl : st.locals = some tbl) (hlt : st.localTasks = some []) (l c : Nat) (n : Bytes) (a : Arg)
    (hr : isRegister n = false) (hf : tbl.find n = none) (hm : Simp.mentions n a = true) :
    ∀ st' r, Asm.duDirective du env st l c [a] = .ok (st', r) →
      st.errors.length + 1 ≤ st'.errors.length ∨
      (r = .ok ∧ st'.locals = some tbl ∧ st'.errors = st.errors ∧
        ∃ d, st'.localTasks = some [.data d false] ∧ Simp.mentions n d.arg = true ∧ d.du = du) := by
  intro st' r h
  unfold Asm.duDirective at h
  cases hc : Asm.currAddr st with
  | none => rw [hc] at h; simp only at h; cases h; left; simp
  | some addr =>
    rw [hc] at h
    rcases evalArg_mentions env st tbl henv hl n hr hf a hm with ⟨m, a1, hev, hm1⟩ | ⟨e, a1, hev⟩
    · simp only [Asm.arity, List.length_cons, List.length_nil, Nat.zero_add, if_true, Asm.DataExpr.apply, hev] at h
      cases hw : Asm.DataExpr.writeData ⟨du, env.curName, l, c, addr, a1, false⟩ st (List.replicate du.size 0xBE) with
      | stop s => rw [hw] at h; cases h
      | ok q =>
        obtain ⟨d2, st2, r2⟩ := q
        rw [hw] at h
        have hg := Asm.writeData_grew hw
        unfold Asm.DataExpr.writeData at hw
        cases r2 with
        | err lv =>
          simp only at h; cases h
          left; simpa [Asm.Grew] using hg
        | ok =>
          simp only at h
          cases hs : Asm.DataExpr.schedule d2 st2 false with
          | stop s => rw [hs] at h; cases h
          | ok st3 =>
            rw [hs] at h
            cases h
            right
            split at hw
            · rename_i s' p' hws
              cases hw
              simp only [Asm.DataExpr.schedule, Asm.addTask, Bool.false_eq_true, if_false, hlt] at hs
              cases hs
              exact ⟨rfl, hl, rfl, ⟨du, env.curName, l, c, addr, a1, p'⟩, by simp, hm1, rfl⟩
            · cases hw
            · cases hw
    · left
      simp only [Asm.arity, List.length_cons, List.length_nil, Nat.zero_add, if_true, Asm.DataExpr.apply, hev] at h
      cases hw : Asm.DataExpr.writeData ⟨du, env.curName, l, c, addr, a1, false⟩
          (st.pushIn env.curName l c (Asm.DataExpr.kindApply ⟨du, env.curName, l, c, addr, a, false⟩ (.eval e)))
          (List.replicate du.size 0xBE) with
      | stop s => rw [hw] at h; cases h
      | ok q =>
        obtain ⟨d2, st2, r2⟩ := q
        rw [hw] at h
        have hg := Asm.writeData_grew hw
        cases r2 with
        | err lv =>
          simp only at h; cases h
          simp [Asm.Grew] at hg; omega
        | ok =>
          simp only at h
          cases hs : Asm.DataExpr.schedule d2 st2 false with
          | stop s => rw [hs] at h; cases h
          | ok st3 =>
            rw [hs] at h
            cases h
            have := Asm.addTask_errs hs
            rw [this]
            simp [Asm.Grew] at hg; omega

/-- the retry of `.du* e` whose tree still mentions the undefined name reports (`NoSuchVariable`, or the evaluation
error met first) -/
theorem du_mentions_task (d : Asm.DataExpr) (env : Asm.Env) (st : Asm.St) (tbl : Asm.Table) (henv : env.paths ≠ [])
    (hl : st.locals = some tbl) (n : Bytes) (hm : Simp.mentions n d.arg = true) (hr : isRegister n = false)
    (hf : tbl.find n = none) :
    ∀ st' r, Asm.runTask Asm.encoder env st (.data d false) = .ok (st', r) → st.errors.length + 1 ≤ st'.errors.length := by
  intro st' r h
  rcases evalArg_mentions env st tbl henv hl n hr hf d.arg hm with ⟨m, a1, hev, _⟩ | ⟨e, a1, hev⟩
  · simp only [Asm.runTask, Asm.runDataTask, Asm.DataExpr.apply, hev, Bool.false_eq_true, if_false] at h
    cases h
    simp
  · simp only [Asm.runTask, Asm.runDataTask, Asm.DataExpr.apply, hev] at h
    cases h
    simp

end Trion.C04
