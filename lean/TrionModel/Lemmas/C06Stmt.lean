import TrionModel.Lemmas.C06Dir
import TrionModel.Lemmas.C04Prog
/-!
# Statement-level facts for C06 "invalid constructs are reported": what each invalid statement does to the state
-/
namespace Trion.C04
open Trion Trion.Asm Trion.Front

section
variable (fs : Bytes → Option Bytes) (inc : Asm.Inc) (env : Asm.Env) (st : Asm.St) (tbl : Asm.Table)
  (henv : env.paths ≠ []) (hl : st.locals = some tbl) (l c : Nat)
include henv hl

theorem evalArg_eq (a : Arg) : Asm.evalArg env st a = Asm.evalIn tbl a := by
  have hp : env.paths.isEmpty = false := by cases h : env.paths with | nil => exact absurd h henv | cons => rfl
  simp [Asm.evalArg, Asm.evalTable, hp, hl]

theorem evalArg_str (s : Bytes) : Asm.evalArg env st (.str s) = .ok (.complete (.str s)) := by
  rw [evalArg_eq env st tbl henv hl]; simp [Asm.evalIn, Simp.evaluateE]

theorem evalArg_value (hn : Asm.Table.NoDef tbl) {b : Arg} {v : Int} (hv : value (tabOf tbl) b = some v) :
    Asm.evalArg env st b = .ok (.complete (.const v)) := by
  rw [evalArg_eq env st tbl henv hl]; exact evalIn_of_value hn hv

theorem evalArg_undef {n : Bytes} (hr : isRegister n = false) (hf : tbl.find n = none) :
    Asm.evalArg env st (.ident n) = .ok (.noSuch n (.ident n)) := by
  rw [evalArg_eq env st tbl henv hl]; simp [Asm.evalIn, Simp.evaluateE, hr, Asm.Table.get, hf]

/-! ### (a) register names as constant names -/

theorem const_reserved (hn : Asm.Table.NoDef tbl) {name : Bytes} (hr : isRegister name = true) {b : Arg} {v : Int}
    (hv : value (tabOf tbl) b = some v) :
    Asm.directive fs inc env st l c (bytesOf "const") [.ident name, b] =
      .ok (st.push env l c (.dirApply "const" (.constReserved name)), .err .fatal) := by
  rw [directive_const]
  simp [Asm.constDirective, Asm.arity, Asm.evalStrict, evalArg_value env st tbl henv hl hn hv, Asm.insertConstant, hr]

omit henv hl in
theorem global_reserved {name : Bytes} (hr : isRegister name = true) :
    Asm.directive fs inc env st l c (bytesOf "global") [.ident name] =
      .ok (st.push env l c (.dirApply "global" (.constReserved name)), .err .fatal) := by
  rw [directive_global]
  simp [Asm.globalDirective, Asm.arity, Asm.GDir.name, Asm.deferConstant, hr]

/-! ### (c) wrong operand kind -/

omit henv hl in
theorem const_kind0 (a b : Arg) (ha : ∀ s, a ≠ .ident s) :
    Asm.directive fs inc env st l c (bytesOf "const") [a, b] =
      .ok (st.push env l c (.dirArgType "const" 0 .ident a.ty), .err .trivial) := by
  rw [directive_const]
  cases a <;> first | (exact absurd rfl (ha _)) | simp [Asm.constDirective, Asm.arity]

theorem addr_kind (s : Bytes) :
    Asm.directive fs inc env st l c (bytesOf "addr") [.str s] =
      .ok (st.push env l c (.dirArgType "addr" 0 .const .str), .err .trivial) := by
  rw [directive_addr]
  simp [Asm.addrDirective, Asm.arity, Asm.evalStrict, evalArg_str env st tbl henv hl, Arg.ty]

theorem const_kind1 (name s : Bytes) :
    Asm.directive fs inc env st l c (bytesOf "const") [.ident name, .str s] =
      .ok (st.push env l c (.dirArgType "const" 1 .const .str), .err .trivial) := by
  rw [directive_const]
  simp [Asm.constDirective, Asm.arity, Asm.evalStrict, evalArg_str env st tbl henv hl, Arg.ty]

theorem align_kind (hact : st.seg.active.isSome = true) (s : Bytes) :
    Asm.directive fs inc env st l c (bytesOf "align") [.str s] =
      .ok (st.push env l c (.dirArgType "align" 0 .const .str), .err .trivial) := by
  rw [directive_align]
  cases hc : st.seg.active with
  | none => simp [hc] at hact
  | some seg => simp [Asm.alignDirective, hc, Asm.arity, Asm.evalStrict, evalArg_str env st tbl henv hl, Arg.ty]

omit henv hl in
theorem gdir_kind (g : Asm.GDir) (a : Arg) (ha : ∀ s, a ≠ .ident s) :
    Asm.globalDirective g env st l c [a] = .ok (st.push env l c (.dirArgType g.name 0 .str a.ty), .err .trivial) := by
  cases a <;> first | (exact absurd rfl (ha _)) | simp [Asm.globalDirective, Asm.arity]

omit henv hl in
theorem include_kind (a : Arg) (ha : ∀ s, a ≠ .str s) :
    Asm.directive fs inc env st l c (bytesOf "include") [a] =
      .ok (st.push env l c (.dirArgType "include" 0 .str a.ty), .err .trivial) := by
  rw [directive_include]
  cases a <;> first | (exact absurd rfl (ha _)) | simp [Asm.includeDirective, Asm.arity]

omit henv hl in
theorem string_kind (dir : String) (hact : st.seg.active.isSome = true) (a : Arg) (ha : ∀ s, a ≠ .str s) :
    Asm.stringDirective fs dir env st l c [a] = .ok (st.push env l c (.dirArgType dir 0 .str a.ty), .err .trivial) := by
  cases a <;> first | (exact absurd rfl (ha _)) | simp [Asm.stringDirective, active_some hact, Asm.arity]

/-! ### (e) out-of-range values -/

theorem addr_range (hn : Asm.Table.NoDef tbl) {b : Arg} {v : Int} (hv : value (tabOf tbl) b = some v)
    (hr : ¬ (0 ≤ v ∧ v ≤ 4294967295)) :
    Asm.directive fs inc env st l c (bytesOf "addr") [b] =
      .ok (st.push env l c (.dirApply "addr" (.addrRange v)), .err .fatal) := by
  rw [directive_addr]
  simp only [Asm.addrDirective, Asm.arity, List.length_cons, List.length_nil, Nat.zero_add, if_true, Asm.evalStrict,
    evalArg_value env st tbl henv hl hn hv, if_neg hr]

theorem align_range (hn : Asm.Table.NoDef tbl) (hact : st.seg.active.isSome = true) {b : Arg} {v : Int}
    (hv : value (tabOf tbl) b = some v) (hr : ¬ (0 < v ∧ v ≤ 4294967295)) :
    Asm.directive fs inc env st l c (bytesOf "align") [b] =
      .ok (st.push env l c (.dirApply "align" (.alignRange v)), .err .fatal) := by
  rw [directive_align]
  cases hc : st.seg.active with
  | none => simp [hc] at hact
  | some seg =>
    simp only [Asm.alignDirective, hc, Option.isNone_some, Bool.false_eq_true, if_false, Asm.arity, List.length_cons,
      List.length_nil, Nat.zero_add, if_true, Asm.evalStrict, evalArg_value env st tbl henv hl hn hv, if_neg hr]

/-! ### (f) undefined and duplicate symbols -/

theorem addr_undefined {n : Bytes} (hr : isRegister n = false) (hf : tbl.find n = none) :
    Asm.directive fs inc env st l c (bytesOf "addr") [.ident n] =
      .ok (st.push env l c (.dirApply "addr" (.eval (.noSuch n))), .err .fatal) := by
  rw [directive_addr]
  simp [Asm.addrDirective, Asm.arity, Asm.evalStrict, evalArg_undef env st tbl henv hl hr hf]

theorem const_undefined (name : Bytes) {n : Bytes} (hr : isRegister n = false) (hf : tbl.find n = none) :
    Asm.directive fs inc env st l c (bytesOf "const") [.ident name, .ident n] =
      .ok (st.push env l c (.dirApply "const" (.eval (.noSuch n))), .err .fatal) := by
  rw [directive_const]
  simp [Asm.constDirective, Asm.arity, Asm.evalStrict, evalArg_undef env st tbl henv hl hr hf]

theorem align_undefined (hact : st.seg.active.isSome = true) {n : Bytes} (hr : isRegister n = false) (hf : tbl.find n = none) :
    Asm.directive fs inc env st l c (bytesOf "align") [.ident n] =
      .ok (st.push env l c (.dirApply "align" (.eval (.noSuch n))), .err .fatal) := by
  rw [directive_align]
  cases hc : st.seg.active with
  | none => simp [hc] at hact
  | some seg => simp [Asm.alignDirective, hc, Asm.arity, Asm.evalStrict, evalArg_undef env st tbl henv hl hr hf]

theorem const_duplicate (hn : Asm.Table.NoDef tbl) {name : Bytes} (hr : isRegister name = false) {w : Int}
    (hf : tbl.find name = some (some w)) {b : Arg} {v : Int} (hv : value (tabOf tbl) b = some v) :
    Asm.directive fs inc env st l c (bytesOf "const") [.ident name, b] =
      .ok (st.push env l c (.dirApply "const" (.constDirDuplicate name)), .err .fatal) := by
  rw [directive_const]
  simp [Asm.constDirective, Asm.arity, Asm.evalStrict, evalArg_value env st tbl henv hl hn hv, Asm.insertConstant, hr, hl, hf]

end

/-! ### labels, and (g) writes before any `.addr` -/

theorem label_reserved (fs : Bytes → Option Bytes) (enc : Asm.Encoder) (inc : Asm.Inc) (env : Asm.Env) (st : Asm.St)
    (l c : Nat) (name : Bytes) (hact : st.seg.active.isSome = true) (hr : isRegister name = true) :
    Asm.statement fs enc inc env st ⟨l, c, .label name⟩ = .ok (st.push env l c (.label (.constReserved name)), .err .fatal) := by
  cases hc : st.seg.active with
  | none => simp [hc] at hact
  | some seg => simp [Asm.statement, Asm.currAddr, hc, Asm.insertConstant, hr, Asm.CErr.inner]

theorem label_duplicate (fs : Bytes → Option Bytes) (enc : Asm.Encoder) (inc : Asm.Inc) (env : Asm.Env) (st : Asm.St)
    (tbl : Asm.Table) (hl : st.locals = some tbl) (l c : Nat) (name : Bytes) (hact : st.seg.active.isSome = true)
    (hr : isRegister name = false) {w : Int} (hf : tbl.find name = some (some w)) :
    Asm.statement fs enc inc env st ⟨l, c, .label name⟩ =
      .ok (st.push env l c (.label (.constDuplicate name .loc)), .err .fatal) := by
  cases hc : st.seg.active with
  | none => simp [hc] at hact
  | some seg => simp [Asm.statement, Asm.currAddr, hc, Asm.insertConstant, hr, hl, hf, Asm.CErr.inner]

theorem label_inactive (fs : Bytes → Option Bytes) (enc : Asm.Encoder) (inc : Asm.Inc) (env : Asm.Env) (st : Asm.St)
    (l c : Nat) (name : Bytes) (hact : st.seg.active = none) :
    Asm.statement fs enc inc env st ⟨l, c, .label name⟩ = .ok (st.push env l c .inactive, .err .fatal) := by
  simp [Asm.statement, Asm.currAddr, hact]

theorem instr_inactive (fs : Bytes → Option Bytes) (enc : Asm.Encoder) (inc : Asm.Inc) (env : Asm.Env) (st : Asm.St)
    (l c : Nat) (name : Bytes) (args : Args) (hact : st.seg.active = none) :
    Asm.statement fs enc inc env st ⟨l, c, .instruction name args⟩ = .ok (st.push env l c .inactive, .err .fatal) := by
  simp [Asm.statement, hact]

theorem instr_unknown (fs : Bytes → Option Bytes) (enc : Asm.Encoder) (inc : Asm.Inc) (env : Asm.Env) (st : Asm.St)
    (l c : Nat) (name : Bytes) (args : Args) (hact : st.seg.active.isSome = true) (hm : mnemonic name = none) :
    Asm.statement fs enc inc env st ⟨l, c, .instruction name args⟩ =
      .ok (st.push env l c (.instrNotFound (foldName name)), .err .fatal) := by
  cases hc : st.seg.active with
  | none => simp [hc] at hact
  | some seg => simp [Asm.statement, hc, Asm.instruction, Asm.currAddr, hm]

theorem du_inactive (du : Asm.DU) (env : Asm.Env) (st : Asm.St) (l c : Nat) (args : List Arg) (hact : st.seg.active = none) :
    Asm.duDirective du env st l c args = .ok (st.push env l c (.dirApply du.name .dataInactive), .err .fatal) := by
  simp [Asm.duDirective, Asm.currAddr, hact]

theorem string_inactive (fs : Bytes → Option Bytes) (dir : String) (env : Asm.Env) (st : Asm.St) (l c : Nat) (args : List Arg)
    (hact : st.seg.active = none) :
    Asm.stringDirective fs dir env st l c args = .ok (st.push env l c (.dirApply dir .dataInactive), .err .fatal) := by
  simp [Asm.stringDirective, hact]

theorem align_inactive (env : Asm.Env) (st : Asm.St) (l c : Nat) (args : List Arg) (hact : st.seg.active = none) :
    Asm.alignDirective env st l c args = .ok (st.push env l c (.dirApply "align" .alignInactive), .err .fatal) := by
  simp [Asm.alignDirective, hact]

end Trion.C04
