import TrionModel.Lemmas.AsmStmtPos
/-!
# `Trion.Asm`: the round counters of the two task loops never run out (`Stop.loop` is unreachable)

A task never queues a local task, and what it queues globally is a retry with `global = true`, which queues
nothing: the local loop is finished after one round, the global loop after two.
-/
namespace Trion.Asm
open Trion

/-- closing step: the outcome is `ok`, a panic, or the `stop` of a callee that never loops -/
macro "nl_close" : tactic =>
  `(tactic| (intro h; first | (cases h; done) | skip))

theorem getConstant_nl {st : St} {n : Bytes} {r : Realm} : getConstant st n r ≠ .stop .loop := by
  unfold getConstant; splits; all_goals (intro h; cases h)
theorem insertConstant_nl {st : St} {n : Bytes} {v : Int} {r : Realm} : insertConstant st n v r ≠ .stop .loop := by
  unfold insertConstant; splits; all_goals (intro h; cases h)
theorem deferConstant_nl {st : St} {n : Bytes} {r : Realm} : deferConstant st n r ≠ .stop .loop := by
  unfold deferConstant; splits; all_goals (intro h; cases h)
theorem addTask_nl {st : St} {t : Task} {r : Realm} : addTask st t r ≠ .stop .loop := by
  unfold addTask; splits; all_goals (intro h; cases h)
theorem evalTable_nl {env : Env} {st : St} : evalTable env st ≠ .stop .loop := by
  unfold evalTable; splits; all_goals (intro h; cases h)
theorem evalIn_nl {t : Table} {a : Arg} : evalIn t a ≠ .stop .loop := by
  unfold evalIn; splits; all_goals (intro h; cases h)
theorem evalArg_nl {env : Env} {st : St} {a : Arg} : evalArg env st a ≠ .stop .loop := by
  unfold evalArg; splits
  all_goals (first | exact evalIn_nl | (intro h; first | (cases h; done) | (cases h; exact absurd ‹evalTable _ _ = _› evalTable_nl)))
theorem segStep_nl {s : Seg.State} {op : Seg.Op} : segStep s op ≠ .stop .loop := by
  unfold segStep; splits; all_goals (intro h; cases h)
theorem writeStmt_nl {s : Seg.State} {p : Bool} {a : Nat} {d : Bytes} : writeStmt s p a d ≠ .stop .loop := by
  unfold writeStmt; splits
  all_goals (intro h; first | (cases h; done) | (cases h; exact absurd ‹segStep _ _ = _› segStep_nl))
theorem writeData_nl {d : DataExpr} {st : St} {b : Bytes} : d.writeData st b ≠ .stop .loop := by
  unfold DataExpr.writeData; splits
  all_goals (intro h; first | (cases h; done) | (cases h; exact absurd ‹writeStmt _ _ _ _ = _› writeStmt_nl))
theorem writer_nl {d : DataExpr} {st : St} : d.writer st ≠ .stop .loop := by
  unfold DataExpr.writer; splits
  all_goals (first | exact writeData_nl | (intro h; cases h))
theorem apply_nl {d : DataExpr} {env : Env} {st : St} {loc : Bool} : d.apply env st loc ≠ .stop .loop := by
  unfold DataExpr.apply; splits
  all_goals (intro h; first | (cases h; done) | (cases h; exact absurd ‹DataExpr.writer _ _ = _› writer_nl) | (cases h; exact absurd ‹evalArg _ _ _ = _› evalArg_nl))
theorem dschedule_nl {d : DataExpr} {st : St} {g : Bool} : d.schedule st g ≠ .stop .loop := addTask_nl
theorem ischedule_nl {i : ArmInstr} {st : St} {g : Bool} : i.schedule st g ≠ .stop .loop := addTask_nl

theorem duDirective_nl {du : DU} {env : Env} {st : St} {l c : Nat} {args : List Arg} :
    duDirective du env st l c args ≠ .stop .loop := by
  unfold duDirective; splits
  all_goals (intro h; first | (cases h; done) | (cases h; exact absurd ‹DataExpr.apply _ _ _ _ = _› apply_nl) | (cases h; exact absurd ‹DataExpr.writeData _ _ _ = _› writeData_nl) | (cases h; exact absurd ‹DataExpr.schedule _ _ _ = _› dschedule_nl))

theorem runDataTask_nl {d : DataExpr} {g : Bool} {env : Env} {st : St} : runDataTask d g env st ≠ .stop .loop := by
  unfold runDataTask; splits
  all_goals (intro h; first | (cases h; done) | (cases h; exact absurd ‹DataExpr.apply _ _ _ _ = _› apply_nl) | (cases h; exact absurd ‹DataExpr.schedule _ _ _ = _› dschedule_nl))

theorem assembleI_nl {i : ArmInstr} {env : Env} {st : St} {loc : Bool} : i.assemble env st loc ≠ .stop .loop := by
  unfold ArmInstr.assemble; splits
  all_goals (intro h; first | (cases h; done) | (cases h; exact absurd ‹evalTable _ _ = _› evalTable_nl))

theorem writeInstr_nl {enc : Encoder} {i : ArmInstr} {st : St} {df : Bool} : i.writeInstr enc st df ≠ .stop .loop := by
  unfold ArmInstr.writeInstr; splits
  all_goals (intro h; first | (cases h; done) | (cases h; exact absurd ‹writeStmt _ _ _ _ = _› writeStmt_nl))

theorem instruction_nl {enc : Encoder} {env : Env} {st : St} {l c : Nat} {name : Bytes} {args : List Arg} :
    instruction enc env st l c name args ≠ .stop .loop := by
  unfold instruction; splits
  all_goals (intro h; first | (cases h; done) | (cases h; exact absurd ‹ArmInstr.assemble _ _ _ _ = _› assembleI_nl) | (cases h; exact absurd ‹ArmInstr.writeInstr _ _ _ _ = _› writeInstr_nl) | (cases h; exact absurd ‹ArmInstr.schedule _ _ _ = _› ischedule_nl))

theorem runInstrTask_nl {enc : Encoder} {i : ArmInstr} {g : Bool} {env : Env} {st : St} :
    runInstrTask enc i g env st ≠ .stop .loop := by
  unfold runInstrTask; splits
  all_goals (intro h; first | (cases h; done) | (cases h; exact absurd ‹ArmInstr.assemble _ _ _ _ = _› assembleI_nl) | (cases h; exact absurd ‹ArmInstr.writeInstr _ _ _ _ = _› writeInstr_nl) | (cases h; exact absurd ‹ArmInstr.schedule _ _ _ = _› ischedule_nl))

theorem runGlobalCopy_nl {n : Bytes} {l c : Nat} {env : Env} {st : St} : runGlobalCopy n l c env st ≠ .stop .loop := by
  unfold runGlobalCopy; splits
  all_goals (intro h; first | (cases h; done) | (cases h; exact absurd ‹insertConstant _ _ _ _ = _› insertConstant_nl) | (cases h; exact absurd ‹getConstant _ _ _ = _› getConstant_nl))

theorem globalDirective_nl {g : GDir} {env : Env} {st : St} {l c : Nat} {args : List Arg} :
    globalDirective g env st l c args ≠ .stop .loop := by
  unfold globalDirective; splits
  all_goals (intro h; first | (cases h; done) | (cases h; exact absurd ‹insertConstant _ _ _ _ = _› insertConstant_nl) | (cases h; exact absurd ‹getConstant _ _ _ = _› getConstant_nl) | (cases h; exact absurd ‹deferConstant _ _ _ = _› deferConstant_nl) | (cases h; exact absurd ‹addTask _ _ _ = _› addTask_nl))

theorem evalStrict_nl {dir : String} {env : Env} {st : St} {l c : Nat} {a : Arg} :
    evalStrict dir env st l c a ≠ .stop .loop := by
  unfold evalStrict; splits
  all_goals (intro h; first | (cases h; done) | (cases h; exact absurd ‹evalArg _ _ _ = _› evalArg_nl))

theorem addrDirective_nl {env : Env} {st : St} {l c : Nat} {args : List Arg} : addrDirective env st l c args ≠ .stop .loop := by
  unfold addrDirective; splits
  all_goals (intro h; first | (cases h; done) | (cases h; exact absurd ‹evalStrict _ _ _ _ _ _ = _› evalStrict_nl) | (cases h; exact absurd ‹segStep _ _ = _› segStep_nl))

theorem alignDirective_nl {env : Env} {st : St} {l c : Nat} {args : List Arg} : alignDirective env st l c args ≠ .stop .loop := by
  unfold alignDirective; splits
  all_goals (intro h; first | (cases h; done) | (cases h; exact absurd ‹evalStrict _ _ _ _ _ _ = _› evalStrict_nl) | (cases h; exact absurd ‹segStep _ _ = _› segStep_nl))

theorem constDirective_nl {env : Env} {st : St} {l c : Nat} {args : List Arg} : constDirective env st l c args ≠ .stop .loop := by
  unfold constDirective; splits
  all_goals (intro h; first | (cases h; done) | (cases h; exact absurd ‹evalStrict _ _ _ _ _ _ = _› evalStrict_nl) | (cases h; exact absurd ‹insertConstant _ _ _ _ = _› insertConstant_nl))

theorem appendData_nl {dir : String} {env : Env} {st : St} {l c : Nat} {d : Bytes} : appendData dir env st l c d ≠ .stop .loop := by
  unfold appendData; splits
  all_goals (intro h; first | (cases h; done) | (cases h; exact absurd ‹segStep _ _ = _› segStep_nl))

theorem stringDirective_nl {fs : Bytes → Option Bytes} {dir : String} {env : Env} {st : St} {l c : Nat} {args : List Arg} :
    stringDirective fs dir env st l c args ≠ .stop .loop := by
  unfold stringDirective; splits
  all_goals (first | exact appendData_nl | (intro h; cases h))

/-- what the recursive call of `.include` has to satisfy -/
def IncNl (inc : Inc) : Prop := ∀ env st data path, inc env st data path ≠ .stop .loop

theorem includeDirective_nl {fs : Bytes → Option Bytes} {inc : Inc} (hinc : IncNl inc) {env : Env} {st : St} {l c : Nat}
    {args : List Arg} : includeDirective fs inc env st l c args ≠ .stop .loop := by
  unfold includeDirective; splits
  all_goals (intro h; first | (cases h; done) | (cases h; exact absurd ‹inc _ _ _ _ = _› (hinc _ _ _ _)))

theorem directive_nl {fs : Bytes → Option Bytes} {inc : Inc} (hinc : IncNl inc) {env : Env} {st : St} {l c : Nat}
    {name : Bytes} {args : List Arg} : directive fs inc env st l c name args ≠ .stop .loop := by
  delta directive
  by_cases h0 : name = bytesOf "addr"
  · rw [if_pos h0]; exact addrDirective_nl
  rw [if_neg h0]
  by_cases h1 : name = bytesOf "align"
  · rw [if_pos h1]; exact alignDirective_nl
  rw [if_neg h1]
  by_cases h2 : name = bytesOf "const"
  · rw [if_pos h2]; exact constDirective_nl
  rw [if_neg h2]
  by_cases h3 : name = bytesOf "du8"
  · rw [if_pos h3]; exact duDirective_nl
  rw [if_neg h3]
  by_cases h4 : name = bytesOf "du16"
  · rw [if_pos h4]; exact duDirective_nl
  rw [if_neg h4]
  by_cases h5 : name = bytesOf "du32"
  · rw [if_pos h5]; exact duDirective_nl
  rw [if_neg h5]
  by_cases h6 : name = bytesOf "dhex"
  · rw [if_pos h6]; exact stringDirective_nl
  rw [if_neg h6]
  by_cases h7 : name = bytesOf "dstr"
  · rw [if_pos h7]; exact stringDirective_nl
  rw [if_neg h7]
  by_cases h8 : name = bytesOf "dfile"
  · rw [if_pos h8]; exact stringDirective_nl
  rw [if_neg h8]
  by_cases h9 : name = bytesOf "global"
  · rw [if_pos h9]; exact globalDirective_nl
  rw [if_neg h9]
  by_cases h10 : name = bytesOf "import"
  · rw [if_pos h10]; exact globalDirective_nl
  rw [if_neg h10]
  by_cases h11 : name = bytesOf "export"
  · rw [if_pos h11]; exact globalDirective_nl
  rw [if_neg h11]
  by_cases h12 : name = bytesOf "include"
  · rw [if_pos h12]; exact includeDirective_nl hinc
  rw [if_neg h12]
  intro h; cases h

theorem statement_nl {fs : Bytes → Option Bytes} {enc : Encoder} {inc : Inc} (hinc : IncNl inc) {env : Env} {st : St}
    {el : Element} : statement fs enc inc env st el ≠ .stop .loop := by
  unfold statement; splits
  all_goals (first | exact directive_nl hinc | exact instruction_nl | (intro h; first | (cases h; done) | (cases h; exact absurd ‹insertConstant _ _ _ _ = _› insertConstant_nl)))

theorem doAssemble_nl {fs : Bytes → Option Bytes} {enc : Encoder} {inc : Inc} (hinc : IncNl inc) {env : Env}
    (err : Option ParseErr) : ∀ (els : List Element) (st : St), doAssemble fs enc inc env els err st ≠ .stop .loop := by
  intro els
  induction els with
  | nil => intro st; cases err <;> (intro h; cases h)
  | cons el els ih =>
    intro st
    simp only [doAssemble]
    split
    · exact ih _
    · intro h; cases h
    · intro h; cases h; exact absurd ‹statement _ _ _ _ _ _ = _› (statement_nl hinc)

theorem runTask_nl {enc : Encoder} {env : Env} {st : St} {t : Task} : runTask enc env st t ≠ .stop .loop := by
  cases t with
  | data d g => exact runDataTask_nl
  | instr i g => exact runInstrTask_nl
  | globalCopy n l c => exact runGlobalCopy_nl

/-! ## what a task does to the queues -/

def Q (st st' : St) : Prop := st'.localTasks = st.localTasks ∧ st'.globalTasks = st.globalTasks

theorem writeData_q {d : DataExpr} {st : St} {b : Bytes} : ∀ d' st' r, d.writeData st b = .ok (d', st', r) → Q st st' := by
  unfold DataExpr.writeData; splits
  all_goals (intro d' st' r h; first | (cases h; done) | (cases h; exact ⟨rfl, rfl⟩))

theorem writer_q {d : DataExpr} {st : St} : ∀ d' st' r, d.writer st = .ok (d', st', r) → Q st st' := by
  unfold DataExpr.writer; splits
  all_goals (first | exact writeData_q | (intro d' st' r h; cases h; exact ⟨rfl, rfl⟩))

theorem apply_q {d : DataExpr} {env : Env} {st : St} {loc : Bool} : ∀ d' st' op, d.apply env st loc = .ok (d', st', op) → Q st st' := by
  unfold DataExpr.apply; splits
  all_goals (intro d' st' op h; first | (cases h; done) | (cases h; exact ⟨rfl, rfl⟩) | (cases h; exact writer_q _ _ _ ‹DataExpr.writer _ _ = _›))

theorem assembleI_q {i : ArmInstr} {env : Env} {st : St} {loc : Bool} : ∀ i' st' op, i.assemble env st loc = .ok (i', st', op) → Q st st' := by
  unfold ArmInstr.assemble; splits
  all_goals (intro i' st' op h; first | (cases h; done) | (cases h; exact ⟨rfl, rfl⟩))

theorem writeInstr_q {enc : Encoder} {i : ArmInstr} {st : St} {df : Bool} : ∀ i' st' r, i.writeInstr enc st df = .ok (i', st', r) → Q st st' := by
  unfold ArmInstr.writeInstr; splits
  all_goals (intro i' st' r h; first | (cases h; done) | (cases h; exact ⟨rfl, rfl⟩))

/-- the flag of a retry -/
def Task.isG : Task → Bool
  | .data _ g => g
  | .instr _ g => g
  | .globalCopy .. => true

/-- a task leaves the local queue alone and appends at most its own global retry to the global queue -/
def TaskFrame (t : Task) (st st' : St) : Prop :=
  st'.localTasks = st.localTasks ∧
  ∃ new, st'.globalTasks = st.globalTasks ++ new ∧ (∀ x ∈ new, x.isG = true) ∧ (t.isG = true → new = [])

theorem frame_of_q {t : Task} {st st' : St} (h : Q st st') : TaskFrame t st st' :=
  ⟨h.1, [], (by rw [h.2]; simp), fun _ hx => (by cases hx), fun _ => rfl⟩

theorem Q.trans {a b c : St} (h1 : Q a b) (h2 : Q b c) : Q a c := ⟨h2.1.trans h1.1, h2.2.trans h1.2⟩

theorem q_pushIn (st : St) (f : Bytes) (l c : Nat) (k : Kind) : Q st (st.pushIn f l c k) := ⟨rfl, rfl⟩

theorem addTask_global {st st' : St} {t : Task} (h : addTask st t .global = .ok st') :
    st'.localTasks = st.localTasks ∧ st'.globalTasks = st.globalTasks ++ [t] := by
  simp only [addTask, Out.ok.injEq] at h; subst h; exact ⟨rfl, rfl⟩

theorem runDataTask_frame {d : DataExpr} {g : Bool} {env : Env} {st : St} :
    ∀ st' r, runDataTask d g env st = .ok (st', r) → TaskFrame (.data d g) st st' := by
  unfold runDataTask; splits
  all_goals (intro st' r h)
  all_goals (first | (cases h; done) | skip)
  all_goals (have w1 := apply_q _ _ _ ‹DataExpr.apply _ _ _ _ = _›)
  · cases h; exact frame_of_q w1
  · cases h; exact frame_of_q (w1.trans (q_pushIn ..))
  · rename_i hg _ _ hs
    cases h
    have hs' := addTask_global (show addTask _ _ .global = _ from by simpa [DataExpr.schedule] using hs)
    refine ⟨hs'.1.trans w1.1, [_], by rw [hs'.2, w1.2], fun x hx => ?_, fun hq => ?_⟩
    · simp only [List.mem_singleton] at hx; subst hx; rfl
    · exact absurd hq hg
  · cases h; exact frame_of_q w1

theorem runInstrTask_frame {enc : Encoder} {i : ArmInstr} {g : Bool} {env : Env} {st : St} :
    ∀ st' r, runInstrTask enc i g env st = .ok (st', r) → TaskFrame (.instr i g) st st' := by
  unfold runInstrTask; splits
  all_goals (intro st' r h)
  all_goals (first | (cases h; done) | skip)
  all_goals (have w1 := assembleI_q _ _ _ ‹ArmInstr.assemble _ _ _ _ = _›)
  · cases h; exact frame_of_q (w1.trans (writeInstr_q _ _ _ ‹ArmInstr.writeInstr _ _ _ _ = _›))
  · cases h; exact frame_of_q (w1.trans (q_pushIn ..))
  · rename_i hg _ _ hs
    cases h
    have hs' := addTask_global (show addTask _ _ .global = _ from by simpa [ArmInstr.schedule] using hs)
    refine ⟨hs'.1.trans w1.1, [_], by rw [hs'.2, w1.2], fun x hx => ?_, fun hq => ?_⟩
    · simp only [List.mem_singleton] at hx; subst hx; rfl
    · exact absurd hq hg
  · cases h; exact frame_of_q w1

theorem runGlobalCopy_frame {n : Bytes} {l c : Nat} {env : Env} {st : St} :
    ∀ st' r, runGlobalCopy n l c env st = .ok (st', r) → TaskFrame (.globalCopy n l c) st st' := by
  unfold runGlobalCopy; splits
  all_goals (intro st' r h)
  all_goals (first | (cases h; done) | (cases h; exact frame_of_q (q_pushIn ..)) | skip)
  all_goals (have w1 := insertConstant_same ‹insertConstant _ _ _ _ = _›)
  all_goals (cases h; first | exact frame_of_q ⟨w1.2.2, w1.2.1⟩ | exact frame_of_q (Q.trans ⟨w1.2.2, w1.2.1⟩ (q_pushIn ..)))

theorem runTask_frame {enc : Encoder} {env : Env} {st : St} {t : Task} :
    ∀ st' r, runTask enc env st t = .ok (st', r) → TaskFrame t st st' := by
  cases t with
  | data d g => exact runDataTask_frame
  | instr i g => exact runInstrTask_frame
  | globalCopy n l c => exact runGlobalCopy_frame

/-! ## the local loop -/

theorem localRound_nl {enc : Encoder} {env : Env} : ∀ (ts : List Task) (st : St) (res : Res),
    localRound enc env ts st res ≠ .stop .loop ∧
    ∀ st' r, localRound enc env ts st res = .ok (st', r) → st'.localTasks = st.localTasks := by
  intro ts
  induction ts with
  | nil => intro st res; exact ⟨by simp [localRound], fun st' r h => by simp only [localRound] at h; cases h; rfl⟩
  | cons t ts ih =>
    intro st res
    simp only [localRound]
    split
    · rename_i st1 hr
      have f := (runTask_frame _ _ hr).1
      exact ⟨(ih _ _).1, fun st' r h => ((ih _ _).2 _ _ h).trans f⟩
    · rename_i st1 l hr
      have f := (runTask_frame _ _ hr).1
      split
      · exact ⟨by simp, fun st' r h => by cases h; exact f⟩
      · exact ⟨(ih _ _).1, fun st' r h => ((ih _ _).2 _ _ h).trans f⟩
    · rename_i r hr
      exact ⟨fun h => by cases h; exact runTask_nl hr, fun st' r h => by cases h⟩

theorem localLoop_nl {enc : Encoder} {env : Env} (n : Nat) (ts : List Task) (st : St) (res : Res)
    (hl : st.localTasks = some []) : localLoop enc env (n + 2) ts st res ≠ .stop .loop := by
  simp only [localLoop]
  split
  · simp
  · have lr := localRound_nl (enc := enc) (env := env) ts st res
    split
    · rename_i st1 res1 hr
      have h1 := (lr.2 _ _ hr).trans hl
      simp only [h1]
      split
      · simp
      · simp [localLoop]
    · rename_i r hr
      intro h; cases h; exact lr.1 hr

/-! ## the global loop -/

theorem globalRound_nl {enc : Encoder} {env : Env} : ∀ (ts : List Task) (st : St),
    globalRound enc env ts st ≠ .stop .loop ∧
    ∀ st' ab, globalRound enc env ts st = .ok (st', ab) →
      ∃ new, st'.globalTasks = st.globalTasks ++ new ∧ (∀ x ∈ new, x.isG = true) ∧
        ((∀ t ∈ ts, t.isG = true) → new = []) := by
  intro ts
  induction ts with
  | nil =>
    intro st
    exact ⟨by simp [globalRound], fun st' ab h => by
      simp only [globalRound] at h; cases h; exact ⟨[], (by simp), fun _ hx => (by cases hx), fun _ => rfl⟩⟩
  | cons t ts ih =>
    intro st
    simp only [globalRound]
    split
    · rename_i st1 r hr
      obtain ⟨_, n1, e1, g1, z1⟩ := runTask_frame _ _ hr
      split
      · exact ⟨by simp, fun st' ab h => by
          cases h
          exact ⟨n1, e1, g1, fun hall => z1 (hall t List.mem_cons_self)⟩⟩
      · refine ⟨(ih _).1, fun st' ab h => ?_⟩
        obtain ⟨n2, e2, g2, z2⟩ := (ih _).2 _ _ h
        refine ⟨n1 ++ n2, by rw [e2, e1, List.append_assoc], fun x hx => ?_, fun hall => ?_⟩
        · rcases List.mem_append.mp hx with hx | hx
          · exact g1 x hx
          · exact g2 x hx
        · rw [z1 (hall t List.mem_cons_self), z2 (fun x hx => hall x (List.mem_cons_of_mem _ hx))]; rfl
    · rename_i r hr
      exact ⟨fun h => by cases h; exact runTask_nl hr, fun st' ab h => by cases h⟩

theorem globalLoop_nl {enc : Encoder} {env : Env} (n : Nat) (ts : List Task) (st : St)
    (hg : st.globalTasks = []) : globalLoop enc env (n + 3) ts st ≠ .stop .loop := by
  simp only [globalLoop]
  split
  · simp
  · have r1 := globalRound_nl (enc := enc) (env := env) ts st
    split
    · rename_i st1 ab1 h1
      obtain ⟨n1, e1, g1, _⟩ := r1.2 _ _ h1
      rw [hg, List.nil_append] at e1
      split
      · simp
      · -- second round: only retries with `global = true`
        split
        · simp
        · have r2 := globalRound_nl (enc := enc) (env := env) st1.globalTasks { st1 with globalTasks := [] }
          split
          · rename_i st2 ab2 h2
            obtain ⟨n2, e2, _, z2⟩ := r2.2 _ _ h2
            have : n2 = [] := z2 (by rw [e1]; exact g1)
            rw [this] at e2
            simp only [List.append_nil] at e2
            split
            · simp
            · simp [globalLoop, e2]
          · rename_i r h2
            intro h; cases h; exact r2.1 h2
    · rename_i r h1
      intro h; cases h; exact r1.1 h1

theorem finalize_nl {enc : Encoder} {env : Env} {st : St} : finalize enc env st ≠ .stop .loop := by
  unfold finalize
  have := globalLoop_nl (enc := enc) (env := env) 5 st.globalTasks { st with globalTasks := [] } rfl
  split
  · simp
  · rename_i r hr
    intro h; cases h; exact this hr

/-! ## files -/

theorem parseFile_nl {data : Bytes} : parseFile data ≠ .stop .loop := by
  unfold parseFile; splits; all_goals (intro h; cases h)

theorem fileBody_nl {fs : Bytes → Option Bytes} {enc : Encoder} {inc : Inc} (hinc : IncNl inc) {env : Env} {data : Bytes}
    {st : St} : fileBody fs enc inc env data st ≠ .stop .loop := by
  unfold fileBody
  split
  · split
    · split
      · simp
      · split
        · simp
        · exact localLoop_nl 6 _ _ _ rfl
    · rename_i r hr
      intro h; cases h; exact doAssemble_nl hinc _ _ _ hr
  · rename_i r hr
    intro h; cases h; exact parseFile_nl hr

theorem assembleFile_nl (fs : Bytes → Option Bytes) (enc : Encoder) : ∀ fuel, IncNl (assembleFile fs enc fuel) := by
  intro fuel
  induction fuel with
  | zero => intro env st data path; simp [assembleFile]
  | succ fuel ih =>
    intro env st data path
    simp only [assembleFile, List.length_cons, Nat.add_one_ne_zero, if_false, ne_eq, not_true_eq_false]
    split
    · simp
    · rename_i r hr
      intro h; cases h; exact fileBody_nl ih hr

/-- the round counters of the task loops never run out -/
theorem runWith_no_loop (enc : Encoder) (fs : Bytes → Option Bytes) (main : Bytes) : runWith enc fs main ≠ .loop := by
  unfold runWith
  split
  · simp
  · split
    · split
      · simp
      · simp
      · split
        · simp
        · simp
        · simp
        · rename_i hf; exact absurd hf finalize_nl
    · simp
    · simp
    · rename_i ha; exact absurd ha (assembleFile_nl fs enc _ _ _ _ _)

end Trion.Asm

