import TrionModel.Lemmas.AsmBase
/-!
# `Front.assemble` never changes the constructor of the instruction it fills in — hence the length of the
encoding of a placeholder equals the length of the final encoding
-/
namespace Trion.Front
open Trion
open Trion.Asm (ilen)

theorem ilen_setOp (i : Instr) (pos : Nat) (v : Val) : ilen (setOp i pos v) = ilen i := by
  cases i <;> simp only [setOp] <;> (try rfl) <;> split <;> rfl

theorem ilen_finish {addr : Nat} {i j : Instr} {vals : List Val} {n : Nat} (h : finish addr i vals n = .ok j) :
    ilen j = ilen i := by
  unfold finish at h
  split at h
  all_goals (repeat' split at h)
  all_goals (first | (cases h; done) | skip)
  all_goals (cases h)
  all_goals rfl

theorem ilen_conv (eval : Arg → EvalOut) (loc : Bool) : ∀ (ks : List Kind) (pos : Nat) (pre rest : List Arg) (done : Nat)
    (instr : Instr) (vals : List Val),
    (∀ args d i vs, conv eval loc ks pos pre rest done instr vals = .ok args d i vs → ilen i = ilen instr) ∧
    (∀ args d i r, conv eval loc ks pos pre rest done instr vals = .stop args d i r → ilen i = ilen instr) := by
  intro ks
  induction ks with
  | nil =>
    intro pos pre rest done instr vals
    refine ⟨fun args d i vs h => ?_, fun args d i r h => ?_⟩
    · simp only [conv] at h; cases h; rfl
    · simp only [conv] at h; cases h
  | cons k ks ih =>
    intro pos pre rest done instr vals
    cases rest with
    | nil =>
      refine ⟨fun args d i vs h => ?_, fun args d i r h => ?_⟩
      · simp [conv] at h
      · simp only [conv] at h; cases h; rfl
    | cons x rest =>
      refine ⟨fun args d i vs h => ?_, fun args d i r h => ?_⟩
      · simp only [conv] at h
        split at h
        · rw [(ih _ _ _ _ _ _).1 _ _ _ _ h, ilen_setOp]
        · cases h
      · simp only [conv] at h
        split at h
        · rw [(ih _ _ _ _ _ _).2 _ _ _ _ h, ilen_setOp]
        · cases h; rfl

/-- `ArmInstr::assemble` keeps the address and the constructor of the instruction -/
theorem assemble_keeps (st : St) (eval : Arg → EvalOut) (loc : Bool) :
    (assemble st eval loc).1.addr = st.addr ∧ ilen (assemble st eval loc).1.instr = ilen st.instr := by
  unfold assemble
  simp only
  split
  · exact ⟨rfl, rfl⟩
  · split
    · exact ⟨rfl, rfl⟩
    · split
      · rename_i hc
        exact ⟨rfl, (ilen_conv eval loc _ _ _ _ _ _ _).2 _ _ _ _ hc⟩
      · rename_i hc
        have hi := (ilen_conv eval loc _ _ _ _ _ _ _).1 _ _ _ _ hc
        split
        · rename_i hf
          exact ⟨rfl, by rw [ilen_finish hf, hi]⟩
        · exact ⟨rfl, hi⟩

end Trion.Front
