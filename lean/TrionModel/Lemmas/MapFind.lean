import TrionModel.Lemmas.MapLocate
/-!
# Memory map: what `locate` / `find` / `get` mean in the dictionary
-/
namespace Trion.Map
open Trion.Dict

theorem locLin_exact_spec {lo : Nat} {ps : Segs} (ok : Ok lo ps) (a i : Nat) :
    (locLin a .exact ps i = .none ∧ abs ps a = none) ∨
    (∃ j s, locLin a .exact ps i = .idx (i + j) ∧ ps[j]? = some s ∧ s.1 ≤ a ∧ a < s.1 + s.2.length) := by
  induction ps generalizing lo i with
  | nil => left; exact ⟨rfl, rfl⟩
  | cons s r ih =>
    obtain ⟨f, x⟩ := s
    obtain ⟨o1, o2, o3, o4⟩ := ok
    have hx : 0 < x.length := List.length_pos_iff.mpr o2
    rw [locLin_cons]
    by_cases c1 : a < f
    · left
      simp only [c1, if_true]
      refine ⟨trivial, ?_⟩
      rw [abs_cons, if_neg (by omega)]
      exact abs_none_of_lt o4 (by omega)
    · by_cases c2 : a > segLast (f, x)
      · simp only [c1, c2, if_false, if_true]
        have c2' : a ≥ f + x.length := by unfold segLast at c2; simp only at c2; omega
        rcases ih o4 (i + 1) with ⟨h1, h2⟩ | ⟨j, s, h1, h2, h3, h4⟩
        · left; refine ⟨h1, ?_⟩
          rw [abs_cons, if_neg (by omega)]; exact h2
        · right; refine ⟨j + 1, s, ?_, ?_, h3, h4⟩
          · rw [h1]; congr 1; omega
          · simpa using h2
      · right
        simp only [c1, c2, if_false]
        refine ⟨0, (f, x), rfl, rfl, by simp only; omega, ?_⟩
        unfold segLast at c2; simp only at c2 ⊢; omega

theorem locLin_above_spec {lo : Nat} {ps : Segs} (ok : Ok lo ps) (a i : Nat) :
    (locLin a .above ps i = .none ∧ ∀ k, a ≤ k → abs ps k = none) ∨
    (∃ j s, locLin a .above ps i = .idx (i + j) ∧ ps[j]? = some s ∧
      ((s.1 ≤ a ∧ a < s.1 + s.2.length) ∨ (a < s.1 ∧ ∀ k, a ≤ k → k < s.1 → abs ps k = none))) := by
  induction ps generalizing lo i with
  | nil => left; exact ⟨rfl, fun _ _ => rfl⟩
  | cons s r ih =>
    obtain ⟨f, x⟩ := s
    obtain ⟨o1, o2, o3, o4⟩ := ok
    have hx : 0 < x.length := List.length_pos_iff.mpr o2
    rw [locLin_cons]
    by_cases c1 : a < f
    · right
      simp only [c1, if_true]
      refine ⟨0, (f, x), rfl, rfl, Or.inr ⟨c1, fun k hk1 hk2 => ?_⟩⟩
      rw [abs_cons, if_neg (by simp only at hk2; omega)]
      exact abs_none_of_lt o4 (by simp only at hk2; omega)
    · by_cases c2 : a > segLast (f, x)
      · simp only [c1, c2, if_false, if_true]
        have c2' : a ≥ f + x.length := by unfold segLast at c2; simp only at c2; omega
        rcases ih o4 (i + 1) with ⟨h1, h2⟩ | ⟨j, s, h1, h2, h3⟩
        · left; refine ⟨h1, fun k hk => ?_⟩
          rw [abs_cons, if_neg (by omega)]; exact h2 k hk
        · right; refine ⟨j + 1, s, ?_, ?_, ?_⟩
          · rw [h1]; congr 1; omega
          · simpa using h2
          · rcases h3 with h3 | ⟨h3, h4⟩
            · exact Or.inl h3
            · refine Or.inr ⟨h3, fun k hk1 hk2 => ?_⟩
              rw [abs_cons, if_neg (by omega)]; exact h4 k hk1 hk2
      · right
        simp only [c1, c2, if_false]
        refine ⟨0, (f, x), rfl, rfl, Or.inl ⟨by simp only; omega, ?_⟩⟩
        unfold segLast at c2; simp only at c2 ⊢; omega

/-- a segment of the list is a maximal run of the dictionary, holding exactly its data -/
theorem abs_of_idx {lo : Nat} {ps : Segs} (ok : Ok lo ps) {j : Nat} {s : Seg} (h : ps[j]? = some s) :
    (∀ k, s.1 ≤ k → k < s.1 + s.2.length → abs ps k = s.2[k - s.1]?) ∧
    abs ps (s.1 + s.2.length) = none ∧ (∀ k, k + 1 = s.1 → abs ps k = none) ∧
    s.2 ≠ [] ∧ s.1 + s.2.length ≤ 4294967296 := by
  induction ps generalizing lo j with
  | nil => simp at h
  | cons t r ih =>
    obtain ⟨f, x⟩ := t
    obtain ⟨o1, o2, o3, o4⟩ := ok
    cases j with
    | zero =>
      simp only [List.getElem?_cons_zero, Option.some.injEq] at h
      subst h
      refine ⟨fun k h1 h2 => ?_, ?_, fun k hk => ?_, o2, o3⟩
      · rw [abs_cons, if_pos ⟨h1, h2⟩]
      · rw [abs_cons, if_neg (by simp only; omega)]; exact abs_none_of_lt o4 (by simp only; omega)
      · rw [abs_cons, if_neg (by simp only at hk; omega)]; exact abs_none_of_lt o4 (by simp only at hk; omega)
    | succ j =>
      simp only [List.getElem?_cons_succ] at h
      have hlb := Ok_lb o4 h
      obtain ⟨i1, i2, i3, i4, i5⟩ := ih o4 h
      refine ⟨fun k h1 h2 => ?_, ?_, fun k hk => ?_, i4, i5⟩
      · rw [abs_cons, if_neg (by omega)]; exact i1 k h1 h2
      · rw [abs_cons, if_neg (by omega)]; exact i2
      · rw [abs_cons, if_neg (by omega)]; exact i3 k hk

theorem find_exact_spec {lo : Nat} {ps : Segs} (ok : Ok lo ps) (a : Nat) :
    (locate ps a .exact = .none ∧ find ps a .exact = .ok none ∧ abs ps a = none) ∨
    (∃ (j : Nat) (s : Seg), ps[j]? = some s ∧ locate ps a .exact = .idx j ∧
      find ps a .exact = .ok (some (s.1, segLast s)) ∧ s.1 ≤ a ∧ a < s.1 + s.2.length) := by
  unfold find
  rw [locate_eq_locLin ok]
  rcases locLin_exact_spec ok a 0 with ⟨h1, h2⟩ | ⟨j, s, h1, h2, h3, h4⟩
  · left; rw [h1]; exact ⟨rfl, rfl, h2⟩
  · right; rw [h1, Nat.zero_add]
    refine ⟨j, s, h2, rfl, ?_, h3, h4⟩
    simp only [h2]

theorem find_above_spec {lo : Nat} {ps : Segs} (ok : Ok lo ps) (a : Nat) :
    (find ps a .above = .ok none ∧ ∀ k, a ≤ k → abs ps k = none) ∨
    (∃ (j : Nat) (s : Seg), ps[j]? = some s ∧ find ps a .above = .ok (some (s.1, segLast s)) ∧
      ((s.1 ≤ a ∧ a < s.1 + s.2.length) ∨ (a < s.1 ∧ ∀ k, a ≤ k → k < s.1 → abs ps k = none))) := by
  unfold find
  rw [locate_eq_locLin ok]
  rcases locLin_above_spec ok a 0 with ⟨h1, h2⟩ | ⟨j, s, h1, h2, h3⟩
  · left; rw [h1]; exact ⟨rfl, h2⟩
  · right; rw [h1, Nat.zero_add]
    refine ⟨j, s, h2, ?_, h3⟩
    simp only [h2]

end Trion.Map
