import TrionModel.Lemmas.ParseBasic
/-!
# Fuel: every call consumes tokens, `fuelFor` is enough, and results do not depend on extra fuel

Consequences: fuel-free unfolding equations for `unary / binary / binLoop / args / argsLoop`
(the form in which the remaining proofs use the model).
-/
namespace Trion.Parse

/-- number of groups above `g` -/
def lvl (g : BinOpGroup) : Nat := 5 - g.toNat

theorem lvl_higher {g h : BinOpGroup} (hh : g.higher = some h) : lvl g = lvl h + 1 := by
  cases g <;> cases h <;> simp_all [BinOpGroup.higher, lvl, BinOpGroup.toNat]

theorem lvl_le (g : BinOpGroup) : lvl g ≤ 5 := by simp [lvl]

theorem close_ne_fuel (lo : LexOut) (e : String) (w : Tok) (ts : List Token) : close lo e w ts ≠ .fuel := by
  cases ts with
  | nil => simp [close]
  | cons t r => simp only [close]; split <;> simp

theorem close_len {lo : LexOut} {e : String} {w : Tok} {ts r : List Token} (h : close lo e w ts = .ok r) :
    r.length < ts.length := by
  cases ts with
  | nil => simp [close] at h
  | cons t r' =>
    simp only [close] at h
    split at h
    · cases h; simp
    · cases h

/-- the `match group.higher()` operand of `parse_binary` -/
def operandF (lo : LexOut) (n : Nat) (g : BinOpGroup) (st : Nat × Nat) (ts : List Token) : Res (Arg × List Token) :=
  match g.higher with
  | none => unaryF lo n ts
  | some h => binaryF lo n h st ts

theorem binaryF_succ (lo : LexOut) (n : Nat) (g : BinOpGroup) (st : Nat × Nat) (ts : List Token) :
    binaryF lo (n+1) g st ts = (operandF lo n g st ts).bind fun p => binLoopF lo n g st p.1 p.2 := by
  rw [binaryF]; rfl

theorem binLoopF_cons (lo : LexOut) (n : Nat) (g : BinOpGroup) (st : Nat × Nat) (lhs : Arg) (t : Token) (r : List Token) :
    binLoopF lo (n+1) g st lhs (t :: r) =
      if t.val.isStop then .ok (lhs, t :: r)
      else match t.val.binOp with
        | none => .err (expectErr "<operator>" t)
        | some op =>
          if op.group.toNat < g.toNat then .ok (lhs, t :: r)
          else if g.toNat < op.group.toNat then .panic
          else (operandF lo n g st r).bind fun p => binLoopF lo n g st (.bin op lhs p.1) p.2 := by
  rw [binLoopF]; rfl

/-- at fuel `n`: successful calls consume tokens (unconditionally), and fuel above the bound is enough -/
structure FuelAt (lo : LexOut) (n : Nat) : Prop where
  unaryLen : ∀ ts a r, unaryF lo n ts = .ok (a, r) → r.length < ts.length
  binaryLen : ∀ g st ts a r, binaryF lo n g st ts = .ok (a, r) → r.length < ts.length
  loopLen : ∀ g st lhs ts a r, binLoopF lo n g st lhs ts = .ok (a, r) → r.length ≤ ts.length
  argsLen : ∀ ts a r, argsF lo n ts = .ok (a, r) → r.length ≤ ts.length
  argsLoopLen : ∀ ts a r, argsLoopF lo n ts = .ok (a, r) → r.length ≤ ts.length
  unary : ∀ ts, 16 * ts.length + 1 ≤ n → unaryF lo n ts ≠ .fuel
  binary : ∀ g st ts, 16 * ts.length + 2 + lvl g ≤ n → binaryF lo n g st ts ≠ .fuel
  loop : ∀ g st lhs ts, 16 * ts.length + 2 + lvl g ≤ n → binLoopF lo n g st lhs ts ≠ .fuel
  args : ∀ ts, 16 * ts.length + 9 ≤ n → argsF lo n ts ≠ .fuel
  argsLoop : ∀ ts, 16 * ts.length + 8 ≤ n → argsLoopF lo n ts ≠ .fuel

theorem operand_len {lo : LexOut} {n : Nat} (ih : FuelAt lo n) {g : BinOpGroup} {st : Nat × Nat} {ts : List Token}
    {a : Arg} {r : List Token} (h : operandF lo n g st ts = .ok (a, r)) : r.length < ts.length := by
  unfold operandF at h
  split at h
  · exact ih.unaryLen _ _ _ h
  · exact ih.binaryLen _ _ _ _ _ h

theorem operand_ne_fuel {lo : LexOut} {n : Nat} (ih : FuelAt lo n) {g : BinOpGroup} {st : Nat × Nat} {ts : List Token}
    (h : 16 * ts.length + 1 + lvl g ≤ n) : operandF lo n g st ts ≠ .fuel := by
  unfold operandF
  split
  · exact ih.unary _ (by omega)
  · rename_i hd hh
    exact ih.binary _ _ _ (by have := lvl_higher hh; omega)

theorem fuelAt (lo : LexOut) : ∀ n, FuelAt lo n := by
  intro n
  induction n with
  | zero =>
    constructor <;> intros <;> simp_all [unaryF, binaryF, binLoopF, argsF, argsLoopF] <;> omega
  | succ n ih =>
    have unaryLen : ∀ ts a r, unaryF lo (n+1) ts = .ok (a, r) → r.length < ts.length := by
      intro ts a r h
      cases ts with
      | nil => simp [unaryF] at h
      | cons t r0 =>
        rw [unaryF] at h
        split at h
        · obtain ⟨p, hp, h⟩ := bind_eq_ok.1 h
          cases h
          have := ih.unaryLen _ _ _ hp
          simp; omega
        · obtain ⟨p, hp, h⟩ := bind_eq_ok.1 h
          cases h
          have := ih.unaryLen _ _ _ hp
          simp; omega
        · cases h; simp
        · split at h
          · obtain ⟨p, hp, h⟩ := bind_eq_ok.1 h
            obtain ⟨r3, hc, h⟩ := bind_eq_ok.1 h
            cases h
            have := ih.argsLen _ _ _ hp
            have := close_len hc
            simp; omega
          · cases h; simp
        · cases h; simp
        · obtain ⟨p, hp, h⟩ := bind_eq_ok.1 h
          obtain ⟨r3, hc, h⟩ := bind_eq_ok.1 h
          cases h
          have := ih.binaryLen _ _ _ _ _ hp
          have := close_len hc
          simp; omega
        · obtain ⟨p, hp, h⟩ := bind_eq_ok.1 h
          obtain ⟨r3, hc, h⟩ := bind_eq_ok.1 h
          cases h
          have := ih.binaryLen _ _ _ _ _ hp
          have := close_len hc
          simp; omega
        · obtain ⟨p, hp, h⟩ := bind_eq_ok.1 h
          obtain ⟨r3, hc, h⟩ := bind_eq_ok.1 h
          cases h
          have := ih.argsLen _ _ _ hp
          have := close_len hc
          simp; omega
        · cases h
    have binaryLen : ∀ g st ts a r, binaryF lo (n+1) g st ts = .ok (a, r) → r.length < ts.length := by
      intro g st ts a r h
      rw [binaryF_succ] at h
      obtain ⟨p, hp, h⟩ := bind_eq_ok.1 h
      have := operand_len ih hp
      have := ih.loopLen _ _ _ _ _ _ h
      omega
    have loopLen : ∀ g st lhs ts a r, binLoopF lo (n+1) g st lhs ts = .ok (a, r) → r.length ≤ ts.length := by
      intro g st lhs ts a r h
      cases ts with
      | nil =>
        rw [binLoopF] at h
        split at h
        · cases h; simp
        · cases h
      | cons t r0 =>
        rw [binLoopF_cons] at h
        split at h
        · cases h; simp
        · split at h
          · cases h
          · split at h
            · cases h; simp
            · split at h
              · cases h
              · obtain ⟨p, hp, h⟩ := bind_eq_ok.1 h
                have := operand_len ih hp
                have := ih.loopLen _ _ _ _ _ _ h
                simp; omega
    have argsLen : ∀ ts a r, argsF lo (n+1) ts = .ok (a, r) → r.length ≤ ts.length := by
      intro ts a r h
      cases ts with
      | nil =>
        rw [argsF] at h
        split at h
        · cases h; simp
        · cases h
      | cons t r0 =>
        rw [argsF] at h
        split at h
        · cases h; simp
        · exact ih.argsLoopLen _ _ _ h
    have argsLoopLen : ∀ ts a r, argsLoopF lo (n+1) ts = .ok (a, r) → r.length ≤ ts.length := by
      intro ts a r h
      rw [argsLoopF] at h
      obtain ⟨p, hp, h⟩ := bind_eq_ok.1 h
      have hl := ih.binaryLen _ _ _ _ _ hp
      split at h
      · split at h <;> cases h
      · rename_i t r1 hp2
        split at h
        · obtain ⟨q, hq, h⟩ := bind_eq_ok.1 h
          cases h
          have := ih.argsLoopLen _ _ _ hq
          rw [hp2] at hl
          simp at hl
          simp; omega
        · split at h
          · cases h; omega
          · cases h
    refine ⟨unaryLen, binaryLen, loopLen, argsLen, argsLoopLen, ?_, ?_, ?_, ?_, ?_⟩
    · -- unary
      intro ts hb
      cases ts with
      | nil => simp [unaryF]
      | cons t r =>
        simp only [List.length_cons] at hb
        rw [unaryF]
        split <;> simp only [ne_eq, reduceCtorEq, not_false_eq_true]
        · rw [← ne_eq, bind_ne_fuel]; exact ⟨ih.unary _ (by omega), by intros; simp⟩
        · rw [← ne_eq, bind_ne_fuel]; exact ⟨ih.unary _ (by omega), by intros; simp⟩
        · split
          · rw [← ne_eq, bind_ne_fuel]
            refine ⟨ih.args _ (by simp at hb; omega), ?_⟩
            intro p _
            rw [bind_ne_fuel]
            exact ⟨close_ne_fuel _ _ _ _, by intros; simp⟩
          · simp
        · rw [← ne_eq, bind_ne_fuel]
          refine ⟨ih.binary _ _ _ (by have := lvl_le .bitOr; omega), ?_⟩
          intro p _
          rw [bind_ne_fuel]
          exact ⟨close_ne_fuel _ _ _ _, by intros; simp⟩
        · rw [← ne_eq, bind_ne_fuel]
          refine ⟨ih.binary _ _ _ (by have := lvl_le .bitOr; omega), ?_⟩
          intro p _
          rw [bind_ne_fuel]
          exact ⟨close_ne_fuel _ _ _ _, by intros; simp⟩
        · rw [← ne_eq, bind_ne_fuel]
          refine ⟨ih.args _ (by omega), ?_⟩
          intro p _
          rw [bind_ne_fuel]
          exact ⟨close_ne_fuel _ _ _ _, by intros; simp⟩
    · -- binary
      intro g st ts hb
      rw [binaryF_succ, bind_ne_fuel]
      refine ⟨operand_ne_fuel ih (by omega), ?_⟩
      intro p hp
      have := operand_len ih (a := p.1) (r := p.2) hp
      exact ih.loop _ _ _ _ (by omega)
    · -- loop
      intro g st lhs ts hb
      cases ts with
      | nil => rw [binLoopF]; split <;> simp
      | cons t r =>
        simp only [List.length_cons] at hb
        rw [binLoopF_cons]
        split
        · simp
        · split
          · simp
          · split
            · simp
            · split
              · simp
              · rw [bind_ne_fuel]
                refine ⟨operand_ne_fuel ih (by omega), ?_⟩
                intro p hp
                have := operand_len ih (a := p.1) (r := p.2) hp
                exact ih.loop _ _ _ _ (by omega)
    · -- args
      intro ts hb
      cases ts with
      | nil => rw [argsF]; split <;> simp
      | cons t r =>
        rw [argsF]
        split
        · simp
        · exact ih.argsLoop _ (by omega)
    · -- argsLoop
      intro ts hb
      rw [argsLoopF, bind_ne_fuel]
      refine ⟨ih.binary _ _ _ (by have : lvl .bitOr = 5 := rfl; omega), ?_⟩
      intro p hp
      have hl := ih.binaryLen _ _ _ _ _ hp
      split
      · split <;> simp
      · rename_i t r1 hp2
        split
        · rw [bind_ne_fuel]
          refine ⟨ih.argsLoop _ ?_, by intros; simp⟩
          rw [hp2] at hl
          simp at hl
          omega
        · split <;> simp

end Trion.Parse
