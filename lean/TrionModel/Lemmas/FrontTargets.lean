import TrionModel.Lemmas.Front
/-! # PC-relative target arithmetic of `Front.build` (C04 `b_target`, `adr_ldr_target`) -/
namespace Trion.Front
set_option maxRecDepth 8000

theorem branch_ok_iff (a : Nat) (tgt lo hi off : Int) :
    branch a tgt lo hi = .ok off ↔ off = tgt - (pcOf a : Nat) ∧ lo ≤ off ∧ off ≤ hi ∧ off % 2 = 0 := by
  unfold branch
  by_cases h1 : tgt - (pcOf a : Nat) < lo ∨ tgt - (pcOf a : Nat) > hi
  · simp only [h1, if_true]; constructor
    · intro h; cases h
    · rintro ⟨rfl, h2, h3, _⟩; omega
  · simp only [h1, if_false]
    by_cases h2 : (tgt - (pcOf a : Nat)) % 2 ≠ 0
    · rw [if_pos h2]; constructor
      · intro h; cases h
      · rintro ⟨rfl, _, _, h4⟩; omega
    · rw [if_neg h2]; constructor
      · intro h; cases h; omega
      · rintro ⟨rfl, _, _, _⟩; rfl

theorem literal_ok_iff (a : Nat) (tgt off : Int) :
    literal a tgt = .ok off ↔ off = tgt - (alPc a : Nat) ∧ 0 ≤ off ∧ off ≤ 1020 ∧ off % 4 = 0 := by
  unfold literal
  by_cases h1 : tgt < (alPc a : Nat) ∨ tgt - (alPc a : Nat) > 1020
  · simp only [h1, if_true]; constructor
    · intro h; cases h
    · rintro ⟨rfl, h2, h3, _⟩; omega
  · simp only [h1, if_false]
    by_cases h2 : (tgt - (alPc a : Nat)) % 4 ≠ 0
    · rw [if_pos h2]; constructor
      · intro h; cases h
      · rintro ⟨rfl, _, _, h4⟩; omega
    · rw [if_neg h2]; constructor
      · intro h; cases h; omega
      · rintro ⟨rfl, _, _, _⟩; rfl

theorem narrowU32_none {v : Int} (h : ¬ (0 ≤ v ∧ v ≤ 4294967295)) : narrowU32 v = none := by
  simp [narrowU32, h]
theorem narrowU32_some {v : Int} (h : 0 ≤ v ∧ v ≤ 4294967295) : narrowU32 v = some v := by
  simp [narrowU32, h]

theorem b_target_proof (a : Nat) (name : Bytes) (c : Cond) (x : Arg) (tgt : Int) (eval : Arg → EvalOut) (loc : Bool) (off : Int)
    (hm : mnemonic name = some (.b c 0)) (he : eval x = .complete (.const tgt)) :
    build a name [x] eval loc = .completed (.b c off) ↔
      (0 ≤ tgt ∧ tgt ≤ 4294967295) ∧ off = tgt - (pcOf a : Nat) ∧ bLo c ≤ off ∧ off ≤ bHi c ∧ off % 2 = 0 := by
  unfold build
  rw [hm]
  by_cases hr : 0 ≤ tgt ∧ tgt ≤ 4294967295
  · have hn := narrowU32_some hr
    by_cases hc : c.val = 14
    · cases hb : branch a tgt (-2048) 2046 with
      | ok o =>
        have := (branch_ok_iff a tgt (-2048) 2046 o).mp hb
        simp [assemble, kinds, conv, get, evalArg, he, hn, setOp, finish, hc, hb, bLo, bHi, hr]
        constructor
        · rintro rfl; exact this
        · rintro ⟨h, _⟩; omega
      | error d =>
        have : ¬ (off = tgt - (pcOf a : Nat) ∧ (-2048 : Int) ≤ off ∧ off ≤ 2046 ∧ off % 2 = 0) := by
          intro h; rw [(branch_ok_iff a tgt (-2048) 2046 off).mpr h] at hb; cases hb
        simp [assemble, kinds, conv, get, evalArg, he, hn, setOp, finish, hc, hb, bLo, bHi, hr]
        simpa using this
    · cases hb : branch a tgt (-256) 254 with
      | ok o =>
        have := (branch_ok_iff a tgt (-256) 254 o).mp hb
        simp [assemble, kinds, conv, get, evalArg, he, hn, setOp, finish, hc, hb, bLo, bHi, hr]
        constructor
        · rintro rfl; exact this
        · rintro ⟨h, _⟩; omega
      | error d =>
        have : ¬ (off = tgt - (pcOf a : Nat) ∧ (-256 : Int) ≤ off ∧ off ≤ 254 ∧ off % 2 = 0) := by
          intro h; rw [(branch_ok_iff a tgt (-256) 254 off).mpr h] at hb; cases hb
        simp [assemble, kinds, conv, get, evalArg, he, hn, setOp, finish, hc, hb, bLo, bHi, hr]
        simpa using this
  · have hn := narrowU32_none hr
    simp [assemble, kinds, conv, get, evalArg, he, hn, hr]

theorem bl_target_proof (a : Nat) (name : Bytes) (x : Arg) (tgt : Int) (eval : Arg → EvalOut) (loc : Bool) (off : Int)
    (hm : mnemonic name = some (.bl 0)) (he : eval x = .complete (.const tgt)) :
    build a name [x] eval loc = .completed (.bl off) ↔
      (0 ≤ tgt ∧ tgt ≤ 4294967295) ∧ off = tgt - (pcOf a : Nat) ∧ -16777216 ≤ off ∧ off ≤ 16777215 ∧ off % 2 = 0 := by
  unfold build
  rw [hm]
  by_cases hr : 0 ≤ tgt ∧ tgt ≤ 4294967295
  · have hn := narrowU32_some hr
    cases hb : branch a tgt (-16777216) 16777215 with
    | ok o =>
      have := (branch_ok_iff a tgt (-16777216) 16777215 o).mp hb
      simp [assemble, kinds, conv, get, evalArg, he, hn, setOp, finish, hb, hr]
      constructor
      · rintro rfl; exact this
      · rintro ⟨h, _⟩; omega
    | error d =>
      have : ¬ (off = tgt - (pcOf a : Nat) ∧ (-16777216 : Int) ≤ off ∧ off ≤ 16777215 ∧ off % 2 = 0) := by
        intro h; rw [(branch_ok_iff a tgt (-16777216) 16777215 off).mpr h] at hb; cases hb
      simp [assemble, kinds, conv, get, evalArg, he, hn, setOp, finish, hb, hr]
      simpa using this
  · have hn := narrowU32_none hr
    simp [assemble, kinds, conv, get, evalArg, he, hn, hr]

theorem adr_target_proof (a : Nat) (name s : Bytes) (d d' : Reg) (x : Arg) (tgt : Int) (eval : Arg → EvalOut) (loc : Bool) (off : Int)
    (hm : mnemonic name = some (.adr 0 0)) (hs : regl s = some d) (he : eval x = .complete (.const tgt)) :
    build a name [.ident s, x] eval loc = .completed (.adr d' off) ↔
      d' = d ∧ (0 ≤ tgt ∧ tgt ≤ 4294967295) ∧ off = tgt - (alPc a : Nat) ∧ 0 ≤ off ∧ off ≤ 1020 ∧ off % 4 = 0 := by
  unfold build
  rw [hm]
  by_cases hr : 0 ≤ tgt ∧ tgt ≤ 4294967295
  · have hn := narrowU32_some hr
    cases hb : literal a tgt with
    | ok o =>
      have := (literal_ok_iff a tgt o).mp hb
      simp [assemble, kinds, conv, get, evalArg, he, hs, hn, setOp, finish, hb, hr]
      constructor
      · rintro ⟨rfl, rfl⟩; exact ⟨rfl, this⟩
      · rintro ⟨rfl, h, _⟩; exact ⟨rfl, by omega⟩
    | error e =>
      have : ¬ (off = tgt - (alPc a : Nat) ∧ (0 : Int) ≤ off ∧ off ≤ 1020 ∧ off % 4 = 0) := by
        intro h; rw [(literal_ok_iff a tgt off).mpr h] at hb; cases hb
      simp [assemble, kinds, conv, get, evalArg, he, hs, hn, setOp, finish, hb, hr]
      intro _; simpa using this
  · have hn := narrowU32_none hr
    simp [assemble, kinds, conv, get, evalArg, he, hs, hn, hr]

theorem ldr_target_proof (a : Nat) (name s : Bytes) (d d' ad : Reg) (x : Arg) (tgt : Int) (eval : Arg → EvalOut) (loc : Bool) (o : ImmReg)
    (hm : mnemonic name = some (.ldr 0 0 (.imm 0))) (hs : regl s = some d) (he : eval x = .complete (.const tgt)) :
    build a name [.ident s, x] eval loc = .completed (.ldr d' ad o) ↔
      d' = d ∧ ad = Reg.pc ∧ (0 ≤ tgt ∧ tgt ≤ 4294967295) ∧
        ∃ off, o = .imm off ∧ off = tgt - (alPc a : Nat) ∧ 0 ≤ off ∧ off ≤ 1020 ∧ off % 4 = 0 := by
  unfold build
  rw [hm]
  by_cases hr : 0 ≤ tgt ∧ tgt ≤ 4294967295
  · have hn := narrowU32_some hr
    cases hb : literal a tgt with
    | ok v =>
      have := (literal_ok_iff a tgt v).mp hb
      simp [assemble, kinds, conv, get, evalArg, he, hs, hn, setOp, finish, hb, hr]
      constructor
      · rintro ⟨rfl, rfl, rfl⟩; exact ⟨rfl, rfl, v, rfl, this⟩
      · rintro ⟨rfl, rfl, off, rfl, h, _⟩; exact ⟨rfl, rfl, by rw [this.1, h]⟩
    | error e =>
      have : ∀ off, ¬ (off = tgt - (alPc a : Nat) ∧ (0 : Int) ≤ off ∧ off ≤ 1020 ∧ off % 4 = 0) := by
        intro off h; rw [(literal_ok_iff a tgt off).mpr h] at hb; cases hb
      simp [assemble, kinds, conv, get, evalArg, he, hs, hn, setOp, finish, hb, hr]
      intro _ _ off _; simpa using this off
  · have hn := narrowU32_none hr
    simp [assemble, kinds, conv, get, evalArg, he, hs, hn, hr]
end Trion.Front
