import TrionModel.Lemmas.LayoutMain
/-!
# C05 helper lemmas, part 6: a successful run implies the reference is defined; environment agreement
-/
namespace Trion.Layout
open Ref

theorem isSome_of_pos {st : State} {a : Nat} (h : pos st = some a) : st.active.isSome = true := by
  unfold pos at h
  cases hact : st.active with
  | none => rw [hact] at h; cases h
  | some s => rfl

/-- what a successful step does to "is a region selected" and to the environment -/
theorem step_shape (st st' : State) (s : Stmt) (hi : Inv st) (h : step st s = .ok st') :
    (match s with | .addr _ => True | .const _ _ _ => True | _ => st.active.isSome = true) ∧
    (match s with | .addr _ => st'.active.isSome = true | _ => st'.active = st.active ∨
        ∃ a bs, st.active = some a ∧ st'.active = some { a with buf := a.buf ++ bs }) ∧
    (match s with
      | .label n => ∃ a, st.active = some a ∧ st.env.get n = none ∧ st'.env = (n, (a.curr : Int)) :: st.env
      | .const n _ v => st.env.get n = none ∧ st'.env = (n, v) :: st.env
      | _ => st'.env = st.env) := by
  have happ : ∀ bs, append st bs = .ok st' → st.active.isSome = true ∧
      (st'.active = st.active ∨ ∃ a bs, st.active = some a ∧ st'.active = some { a with buf := a.buf ++ bs }) ∧
      st'.env = st.env := by
    intro bs hb
    obtain ⟨a, hact, _, rfl⟩ := append_ok st st' bs hb
    exact ⟨by rw [hact]; rfl, Or.inr ⟨a, bs, hact, rfl⟩, rfl⟩
  cases s with
  | addr a =>
    obtain ⟨_, k2, _, _, _, k6⟩ := changeSeg_ok st st' a hi.1 h
    exact ⟨trivial, isSome_of_pos k6, k2⟩
  | align n =>
    rw [step_align] at h
    cases hact : st.active with
    | none => rw [hact] at h; cases h
    | some s =>
      rw [hact] at h; simp only at h
      split at h
      · cases h
      · split at h
        · cases h; exact ⟨rfl, Or.inl hact, rfl⟩
        · have := happ _ h
          rw [hact] at this
          exact this
  | label n =>
    unfold step at h
    cases hact : st.active with
    | none => rw [hact] at h; cases h
    | some s =>
      rw [hact] at h; simp only at h
      obtain ⟨hn, rfl⟩ := insertConst_ok _ _ _ _ h
      exact ⟨rfl, Or.inl hact, s, rfl, hn, rfl⟩
  | const n deps v =>
    simp only [step] at h
    split at h
    · obtain ⟨hn, rfl⟩ := insertConst_ok _ _ _ _ h
      exact ⟨trivial, Or.inl rfl, hn, rfl⟩
    · cases h
  | raw bs => exact happ bs h
  | emit len deps final =>
    unfold step at h
    cases hact : st.active with
    | none => rw [hact] at h; cases h
    | some s =>
      rw [hact] at h; simp only at h
      split at h
      · have := happ _ h
        rw [hact] at this
        exact this
      · cases happ' : append st (placeholder len) with
        | error e => rw [happ'] at h; cases h
        | ok st1 =>
          rw [happ'] at h; simp only at h
          cases h
          obtain ⟨a, hact', _, rfl⟩ := append_ok st st1 _ happ'
          rw [hact] at hact'; cases hact'
          exact ⟨rfl, Or.inr ⟨s, _, rfl, rfl⟩, rfl⟩


/-- weak correspondence: a region is selected iff the reference has a cursor; same defined symbols -/
def W (st : State) (c : Option Nat) (e : Env) : Prop :=
  st.active.isSome = c.isSome ∧ ∀ n, (st.env.get n).isSome = (e.get n).isSome

theorem env_get_cons (n : Nat) (v : Int) (e : Env) (m : Nat) :
    Env.get ((n, v) :: e) m = if n = m then some v else e.get m := rfl

theorem W.cons {st : State} {c : Option Nat} {e : Env} (hw : W st c e) (st1 : State) (n : Nat) (v v' : Int)
    (ha : st1.active.isSome = st.active.isSome) (he : st1.env = (n, v) :: st.env) : W st1 c ((n, v') :: e) := by
  refine ⟨ha.trans hw.1, fun m => ?_⟩
  rw [he, env_get_cons, env_get_cons]
  by_cases h : n = m
  · rw [if_pos h, if_pos h]; rfl
  · rw [if_neg h, if_neg h]; exact hw.2 m

theorem isSome_keep {st st1 : State}
    (h : st1.active = st.active ∨ ∃ a bs, st.active = some a ∧ st1.active = some { a with buf := a.buf ++ bs }) :
    st1.active.isSome = st.active.isSome := by
  rcases h with h | ⟨a, bs, h1, h2⟩
  · rw [h]
  · rw [h1, h2]; rfl

theorem steps_weak (p : List Stmt) (st st' : State) (c c2 : Option Nat) (e : Env) (im : Img)
    (hi : Inv st) (hwf : ∀ s ∈ p, s.wf = true) (hw : W st c e) (hc2 : c2.isSome = st.active.isSome)
    (hl : ∀ x n, (some x, Stmt.label n) ∈ trace c p → x < top)
    (h : steps st p = .ok st') : pass1 c e p ≠ none ∧ pass2 c2 im p ≠ none := by
  induction p generalizing st c c2 e im with
  | nil => exact ⟨by simp [pass1], by simp [pass2]⟩
  | cons s r ih =>
    unfold steps at h
    cases hs : step st s with
    | error err => rw [hs] at h; cases h
    | ok st1 =>
      rw [hs] at h; simp only at h
      have hi1 := step_inv st st1 s hi (hwf s List.mem_cons_self) hs
      have hwf1 : ∀ x ∈ r, x.wf = true := fun x hx => hwf x (List.mem_cons_of_mem _ hx)
      have hl1 : ∀ x n, (some x, Stmt.label n) ∈ trace (next c s) r → x < top :=
        fun x n hx => hl x n (List.mem_cons_of_mem _ hx)
      obtain ⟨sh1, sh2, sh3⟩ := step_shape st st1 s hi hs
      cases s with
      | addr a =>
        simp only at sh2 sh3
        exact ih st1 (some a) (some a) e im hi1 hwf1 ⟨sh2, by rw [sh3]; exact hw.2⟩ sh2.symm hl1 h
      | label n =>
        simp only at sh1 sh2 sh3
        obtain ⟨a, ha, hn, he⟩ := sh3
        have hk := isSome_keep sh2
        cases c with
        | none => have := hw.1; rw [sh1] at this; cases this
        | some x =>
          have hx : x < top := hl x n List.mem_cons_self
          have hen : e.get n = none := by
            have := hw.2 n; rw [hn] at this
            cases hg : e.get n with
            | none => rfl
            | some v => rw [hg] at this; cases this
          have e1 : pass1 (some x) e (.label n :: r) = pass1 (some x) ((n, (x : Int)) :: e) r := by
            simp only [pass1, hen, if_pos hx]
          rw [e1]
          exact ih st1 (some x) c2 _ im hi1 hwf1 (hw.cons st1 n _ _ hk he) (hc2.trans hk.symm) hl1 h
      | const n deps v =>
        simp only at sh2 sh3
        obtain ⟨hn, he⟩ := sh3
        have hk := isSome_keep sh2
        have hen : e.get n = none := by
          have := hw.2 n; rw [hn] at this
          cases hg : e.get n with
          | none => rfl
          | some v => rw [hg] at this; cases this
        have e1 : pass1 c e (.const n deps v :: r) = pass1 c ((n, v) :: e) r := by
          simp only [pass1, hen]
        rw [e1]
        exact ih st1 c c2 _ im hi1 hwf1 (hw.cons st1 n _ _ hk he) (hc2.trans hk.symm) hl1 h
      | align n =>
        simp only at sh1 sh2 sh3
        have hk := isSome_keep sh2
        cases c with
        | none => have := hw.1; rw [sh1] at this; cases this
        | some x =>
          cases c2 with
          | none => rw [sh1] at hc2; cases hc2
          | some y =>
            exact ih st1 _ _ e _ hi1 hwf1 ⟨hk.trans hw.1, by rw [sh3]; exact hw.2⟩ (by rw [hk, sh1]; rfl) hl1 h
      | raw bs =>
        simp only at sh1 sh2 sh3
        have hk := isSome_keep sh2
        cases c with
        | none => have := hw.1; rw [sh1] at this; cases this
        | some x =>
          cases c2 with
          | none => rw [sh1] at hc2; cases hc2
          | some y =>
            exact ih st1 _ _ e _ hi1 hwf1 ⟨hk.trans hw.1, by rw [sh3]; exact hw.2⟩ (by rw [hk, sh1]; rfl) hl1 h
      | emit len deps final =>
        simp only at sh1 sh2 sh3
        have hk := isSome_keep sh2
        cases c with
        | none => have := hw.1; rw [sh1] at this; cases this
        | some x =>
          cases c2 with
          | none => rw [sh1] at hc2; cases hc2
          | some y =>
            exact ih st1 _ _ e _ hi1 hwf1 ⟨hk.trans hw.1, by rw [sh3]; exact hw.2⟩ (by rw [hk, sh1]; rfl) hl1 h

theorem layout_eq (p : List Stmt) (h : pass1 none [] p ≠ none) : layout p = pass2 none [] p := by
  unfold layout
  cases h1 : pass1 none [] p with
  | none => exact absurd h1 h
  | some e => rfl

theorem layout_some (p : List Stmt) (img : Img) (h : layout p = some img) :
    pass1 none [] p ≠ none ∧ pass2 none [] p = some img := by
  unfold layout at h
  cases h1 : pass1 none [] p with
  | none => rw [h1] at h; cases h
  | some e => rw [h1] at h; exact ⟨by simp, h⟩

theorem run_ref_defined (p : List Stmt) (img : Img) (h : run p = .ok img) (hwf : ∀ s ∈ p, s.wf = true)
    (hl : NoLabelAtTop p) : layout p ≠ none := by
  obtain ⟨st, _, _, hs, _⟩ := run_ok p img h
  obtain ⟨h1, h2⟩ := steps_weak p {} st none none [] [] inv_init hwf ⟨rfl, fun _ => rfl⟩ rfl hl hs
  rw [layout_eq p h1]; exact h2

end Trion.Layout
