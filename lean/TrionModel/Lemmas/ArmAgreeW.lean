import TrionModel.Lemmas.ArmTac
/-! Agreement of the ARMv6-M table with the decoder model on all 32-bit patterns. -/
set_option linter.unusedSimpArgs false
set_option linter.unusedVariables false
namespace Trion.Codec
open Trion Trion.Arm

theorem sysm_eq (n : Nat) : Arm.sysm n = SysReg.ofNat? n := by
  by_cases h : n < 21
  · have all : ∀ k : Fin 21, Arm.sysm k.val = SysReg.ofNat? k.val := by decide
    exact all ⟨n, h⟩
  · unfold Arm.sysm SysReg.ofNat?
    split <;> first | omega | (split <;> first | omega | rfl)

/-! the bit runs of the word `h0 * 65536 + h1` that the 32-bit rows look at, in terms of the halfwords -/
theorem wb_0_8 (h0 h1 : Nat) (b0 : h0 < 65536) (b1 : h1 < 65536) :
    (h0 * 65536 + h1) % 256 = h1 % 256 := by omega
theorem wb_0_11 (h0 h1 : Nat) (b0 : h0 < 65536) (b1 : h1 < 65536) :
    (h0 * 65536 + h1) % 2048 = h1 % 2048 := by omega
theorem wb_0_12 (h0 h1 : Nat) (b0 : h0 < 65536) (b1 : h1 < 65536) :
    (h0 * 65536 + h1) % 4096 = h1 % 4096 := by omega
theorem wb_0_32 (h0 h1 : Nat) (b0 : h0 < 65536) (b1 : h1 < 65536) :
    (h0 * 65536 + h1) % 4294967296 = h0 % 65536 * 65536 + h1 := by omega
theorem wb_8_4 (h0 h1 : Nat) (b0 : h0 < 65536) (b1 : h1 < 65536) :
    (h0 * 65536 + h1) / 256 % 16 = h1 / 256 % 16 := by omega
theorem wb_8_8 (h0 h1 : Nat) (b0 : h0 < 65536) (b1 : h1 < 65536) :
    (h0 * 65536 + h1) / 256 % 256 = h1 / 256 % 256 := by omega
theorem wb_11_1 (h0 h1 : Nat) (b0 : h0 < 65536) (b1 : h1 < 65536) :
    (h0 * 65536 + h1) / 2048 % 2 = h1 / 2048 % 2 := by omega
theorem wb_12_1 (h0 h1 : Nat) (b0 : h0 < 65536) (b1 : h1 < 65536) :
    (h0 * 65536 + h1) / 4096 % 2 = h1 / 4096 % 2 := by omega
theorem wb_12_4 (h0 h1 : Nat) (b0 : h0 < 65536) (b1 : h1 < 65536) :
    (h0 * 65536 + h1) / 4096 % 16 = h1 / 4096 % 16 := by omega
theorem wb_12_20 (h0 h1 : Nat) (b0 : h0 < 65536) (b1 : h1 < 65536) :
    (h0 * 65536 + h1) / 4096 % 1048576 = h0 % 65536 * 16 + h1 / 4096 := by omega
theorem wb_13_1 (h0 h1 : Nat) (b0 : h0 < 65536) (b1 : h1 < 65536) :
    (h0 * 65536 + h1) / 8192 % 2 = h1 / 8192 % 2 := by omega
theorem wb_14_2 (h0 h1 : Nat) (b0 : h0 < 65536) (b1 : h1 < 65536) :
    (h0 * 65536 + h1) / 16384 % 4 = h1 / 16384 % 4 := by omega
theorem wb_16_4 (h0 h1 : Nat) (b0 : h0 < 65536) (b1 : h1 < 65536) :
    (h0 * 65536 + h1) / 65536 % 16 = h0 % 16 := by omega
theorem wb_16_10 (h0 h1 : Nat) (b0 : h0 < 65536) (b1 : h1 < 65536) :
    (h0 * 65536 + h1) / 65536 % 1024 = h0 % 1024 := by omega
theorem wb_20_12 (h0 h1 : Nat) (b0 : h0 < 65536) (b1 : h1 < 65536) :
    (h0 * 65536 + h1) / 1048576 % 4096 = h0 / 16 % 4096 := by omega
theorem wb_26_1 (h0 h1 : Nat) (b0 : h0 < 65536) (b1 : h1 < 65536) :
    (h0 * 65536 + h1) / 67108864 % 2 = h0 / 1024 % 2 := by omega
theorem wb_27_5 (h0 h1 : Nat) (b0 : h0 < 65536) (b1 : h1 < 65536) :
    (h0 * 65536 + h1) / 134217728 % 32 = h0 / 2048 % 32 := by omega

/-- `SignExtend(S:I1:I2:imm10:imm11:'0')` as a difference -/
theorem bl_spec (s j k a b : Nat) (hs : s < 2) (ha : a < 1024) (hb : b < 2048) :
    sx 25 (s * 16777216 + ibit j s * 8388608 + ibit k s * 4194304 + a * 4096 + b * 2) =
      ((ibit j s * 8388608 + ibit k s * 4194304 + a * 4096 + b * 2 : Nat) : Int) - ((s * 16777216 : Nat) : Int) := by
  unfold sx ibit
  have : s = 0 ∨ s = 1 := by omega
  rcases this with rfl | rfl <;> (repeat' split) <;> omega

theorem decodeIn_cons (rw : Row) (rest : List Row) (w n : Nat) :
    decodeIn (rw :: rest) w n =
      if rw.n = n ∧ fits w rw.fixed then
        (if rw.unpred (fieldOf w rw.fields) then none else some (rw.ins (fieldOf w rw.fields)))
      else decodeIn rest w n := by
  by_cases h : rw.n = n ∧ fits w rw.fixed
  · rw [if_pos h, decodeIn_cons_hit _ _ _ _ h]
  · rw [if_neg h, decodeIn_cons_skip _ _ _ _ h]

theorem decodeIn_nil (w n : Nat) : decodeIn [] w n = none := rfl

/-- resolve the `if`s of the goal by linear arithmetic -/
macro "ifs_goal" : tactic => `(tactic| (
  repeat (first
    | rw [if_neg (by omega)]
    | rw [if_pos (by omega)])))

set_option maxHeartbeats 4000000 in
theorem spec32 (h0 h1 : Nat) (b0 : h0 < 65536) (b1 : h1 < 65536) (t : 29 ≤ h0 / 2048) :
    decodeIn table32 (h0 * 65536 + h1) 32 = toOpt (decode32 h0 h1) := by
  -- the table side as a chain of `if`s over the two halfwords, once
  simp only [table32, decodeIn_cons, decodeIn_nil, fits, fieldOf, segVal, Nat.reducePow, Char.reduceEq, if_true, if_false,
    reduceIte, Nat.zero_mul, Nat.zero_add, and_true, true_and, Bool.false_eq_true, Nat.div_one,
    wb_0_8 h0 h1 b0 b1, wb_0_11 h0 h1 b0 b1, wb_0_12 h0 h1 b0 b1, wb_0_32 h0 h1 b0 b1, wb_8_4 h0 h1 b0 b1, wb_8_8 h0 h1 b0 b1, wb_11_1 h0 h1 b0 b1, wb_12_1 h0 h1 b0 b1, wb_12_4 h0 h1 b0 b1, wb_12_20 h0 h1 b0 b1, wb_13_1 h0 h1 b0 b1, wb_14_2 h0 h1 b0 b1, wb_16_4 h0 h1 b0 b1, wb_16_10 h0 h1 b0 b1, wb_20_12 h0 h1 b0 b1, wb_26_1 h0 h1 b0 b1, wb_27_5 h0 h1 b0 b1]
  generalize hres : decode32 h0 h1 = res
  dec_split at hres
  all_goals (subst hres; simp only [toOpt]; ifs_goal)
  all_goals try rfl
  -- BL: the four combinations of I1, I2
  all_goals try (rw [bl_spec _ _ _ _ _ (by omega) (by omega) (by omega)]; simp [ibit, *]; done)
  -- MSR / MRS: UNPREDICTABLE operands; the special register is `SysReg.ofNat?` (= the table's `sysm`) of SYSm
  all_goals try (simp [sysm_eq, Arm.sys, Arm.r, Fin.ext_iff, *]; done)
  all_goals (simp [sysm_eq, Arm.sys, Arm.r, Fin.ext_iff, *] <;> omega)

/-- no 32-bit row matches when the first halfword is not in the 32-bit space -/
theorem spec32_low (h0 h1 : Nat) (b0 : h0 < 65536) (b1 : h1 < 65536) (t : h0 / 2048 < 29) :
    decodeIn table32 (h0 * 65536 + h1) 32 = none := by
  simp only [table32, decodeIn_cons, decodeIn_nil, fits, fieldOf, segVal, Nat.reducePow, Char.reduceEq, if_true, if_false,
    reduceIte, Nat.zero_mul, Nat.zero_add, and_true, true_and, Bool.false_eq_true, Nat.div_one,
    wb_0_8 h0 h1 b0 b1, wb_0_11 h0 h1 b0 b1, wb_0_12 h0 h1 b0 b1, wb_0_32 h0 h1 b0 b1, wb_8_4 h0 h1 b0 b1, wb_8_8 h0 h1 b0 b1, wb_11_1 h0 h1 b0 b1, wb_12_1 h0 h1 b0 b1, wb_12_4 h0 h1 b0 b1, wb_12_20 h0 h1 b0 b1, wb_13_1 h0 h1 b0 b1, wb_14_2 h0 h1 b0 b1, wb_16_4 h0 h1 b0 b1, wb_16_10 h0 h1 b0 b1, wb_20_12 h0 h1 b0 b1, wb_26_1 h0 h1 b0 b1, wb_27_5 h0 h1 b0 b1]
  ifs_goal

end Trion.Codec
