import TrionModel.Lemmas.ShowProg
import TrionModel.Model.Tridas
/-!
# The text of a tridas listing, and the tokenizer + parser on it (C20, text level)

`lineText` is what the `println!`s of `src/bin/disassembler.rs` write for a line of the listing model:
`.addr 0x20000000;⏎`, an empty line, `l_XXXXXXXX:⏎`, `⇥<instr.at(addr)>⏎`.
`parseFile_listing`: the tokenizer and parser models read the whole text as exactly the statements of the lines
(`lineVals`), without error.
-/
namespace Trion.Tridas
open Trion.Lex Trion.Show

def lineText : Line → Bytes
  | .header => bytesOf ".addr 0x20000000;\n"
  | .blank => [10]
  | .label a => label a ++ bytesOf ":\n"
  | .instr a i => [9] ++ text i a ++ [10]

/-- stdout of `tridas` for a listing -/
def listingText (ls : List Line) : Bytes := (ls.map lineText).flatten

def linePieces : Line → List Piece
  | .header => [.tok [46] .dirMark, .tok (bytesOf "addr") (.ident (bytesOf "addr")), sp,
      .tok (bytesOf "0x20000000") (.num 0x20000000), .tok [59] .term, nl]
  | .blank => [nl]
  | .label a => [.tok (label a) (.ident (label a)), .tok [58] .labelMark, nl]
  | .instr a i => .ws [9] :: (stmtPieces (parts i a) ++ [nl])

/-- the statements a line denotes -/
def lineVals : Line → List ElemVal
  | .header => [.directive (bytesOf "addr") (Args.ofList [.const 0x20000000])]
  | .blank => []
  | .label a => [.label (label a)]
  | .instr a i => [.instruction (parts i a).1 (Args.ofList (parts i a).2)]

/-- the instruction lines carry no negative literal (true of every decoded instruction) -/
def LinesOk (ls : List Line) : Prop := ∀ a i, Line.instr a i ∈ ls → LitOk i

theorem valid_line (l : Line) (hl : ∀ a i, l = .instr a i → LitOk i) (rest : List Piece) (nx : Option UInt8)
    (hr : Valid rest nx) : Valid (linePieces l ++ rest) nx := by
  cases l with
  | header =>
    have hnum : TokOk (bytesOf "0x20000000") (.num 0x20000000) (some 59) := by
      have := TokOk.num 16 (bytesOf "20000000") 0x20000000 (some 59) (by omega) (by decide) (by decide) (by decide)
        (follow_of_not_ident (by decide))
      exact this
    exact ⟨TokOk.punct 46 .dirMark _ (by decide) (by decide),
      TokOk.ident _ _ (by decide) (follow_of_not_ident (by decide)), by decide,
      hnum, TokOk.punct 59 .term _ (by decide) (by decide), by decide, hr⟩
  | blank => exact ⟨by decide, hr⟩
  | label a =>
    exact ⟨TokOk.ident _ _ (identOk_label a) (follow_of_not_ident (by decide)),
      TokOk.punct 58 .labelMark _ (by decide) (by decide), by decide, hr⟩
  | instr a i =>
    have hlit := hl a i rfl
    refine ⟨by decide, ?_⟩
    show Valid ((stmtPieces (parts i a) ++ [nl]) ++ rest) nx
    rw [List.append_assoc]
    exact valid_append (valid_stmt (parts i a) (name_ok i a) (args_ok i a hlit) _) ⟨by decide, hr⟩

theorem valid_lines (ls : List Line) (h : LinesOk ls) : Valid (ls.flatMap linePieces) none := by
  induction ls with
  | nil => trivial
  | cons l r ih =>
    simp only [List.flatMap_cons]
    exact valid_line l (fun a i e => h a i (by simp [e])) _ _ (ih (fun a i m => h a i (by simp [m])))

theorem pbytes_line (l : Line) (hl : ∀ a i, l = .instr a i → LitOk i) : pbytes (linePieces l) = lineText l := by
  cases l with
  | header => decide
  | blank => rfl
  | label a => simp [linePieces, lineText, pbytes, Piece.bytes, nl, bytesOf]
  | instr a i =>
    have hlit := hl a i rfl
    simp only [linePieces, lineText, pbytes, Piece.bytes, pbytes_append, pbytes_stmt _ (args_ok i a hlit),
      text_eq_render_proof, nl]
    simp

theorem pbytes_lines (ls : List Line) (h : LinesOk ls) : pbytes (ls.flatMap linePieces) = listingText ls := by
  induction ls with
  | nil => rfl
  | cons l r ih =>
    simp only [List.flatMap_cons, pbytes_append, listingText, List.map_cons, List.flatten_cons]
    rw [pbytes_line l (fun a i e => h a i (by simp [e])), ih (fun a i m => h a i (by simp [m]))]
    rfl

theorem tokVals_line (l : Line) (hl : ∀ a i, l = .instr a i → LitOk i) :
    tokVals (linePieces l) = ((lineVals l).map Render.elemVal).flatten := by
  cases l with
  | header => simp [linePieces, lineVals, tokVals, sp, nl, Render.elemVal, Render.args, Render.arg, Args.ofList]
  | blank => rfl
  | label a => simp [linePieces, lineVals, tokVals, nl, Render.elemVal]
  | instr a i =>
    have hlit := hl a i rfl
    simp [linePieces, lineVals, tokVals, tokVals_append, nl, tokVals_stmt _ (args_ok i a hlit)]

theorem tokVals_lines (ls : List Line) (h : LinesOk ls) :
    tokVals (ls.flatMap linePieces) = (((ls.flatMap lineVals)).map Render.elemVal).flatten := by
  induction ls with
  | nil => rfl
  | cons l r ih =>
    simp only [List.flatMap_cons, tokVals_append, List.map_append, List.flatten_append]
    rw [tokVals_line l (fun a i e => h a i (by simp [e])), ih (fun a i m => h a i (by simp [m]))]

theorem lineVals_wf (ls : List Line) (h : LinesOk ls) : ∀ ev ∈ ls.flatMap lineVals, ev.wf := by
  intro ev hev
  simp only [List.mem_flatMap] at hev
  obtain ⟨l, hl, hm⟩ := hev
  cases l with
  | header =>
    simp [lineVals] at hm; subst hm
    exact dir_wf (bytesOf "addr", [.const 0x20000000]) (by decide)
      (by intro x hx; simp at hx; subst hx; exact opnd_const _ (by decide))
  | blank => simp [lineVals] at hm
  | label a =>
    simp [lineVals] at hm; subst hm
    simp only [ElemVal.wf]
    intro e
    have := identOk_label a
    rw [e] at this; simp [identOk] at this
  | instr a i =>
    simp [lineVals] at hm; subst hm
    exact stmt_wf _ (name_ok i a) (args_ok i a (h a i hl))

/-- **the tokenizer and the parser on the text of a listing**: exactly the statements of its lines, no error -/
theorem parseFile_listing (ls : List Line) (h : LinesOk ls) :
    ∃ els, Asm.parseFile (listingText ls) = .ok (els, none) ∧ els.map (·.val) = ls.flatMap lineVals := by
  have hv := valid_lines ls h
  have hlex := tokens_pieces _ hv
  rw [pbytes_lines ls h] at hlex
  have hvals : (lexed (1, 1) (ls.flatMap linePieces)).map (·.val) = ((ls.flatMap lineVals).map Render.elemVal).flatten := by
    rw [lexed_vals, tokVals_lines ls h]
  obtain ⟨els, hall, hels⟩ := Parse.all_of_vals _ (lineVals_wf ls h) _ hvals
    (Pos.adv (1, 1) (listingText ls)).1 (Pos.adv (1, 1) (listingText ls)).2
  exact ⟨els, by simp [Asm.parseFile, hlex, hall], hels⟩

end Trion.Tridas
