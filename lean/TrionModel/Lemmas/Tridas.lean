import TrionModel.Model.Tridas
/-! Helper lemmas for C20 (core Lean only). -/
namespace Trion.Tridas

/-- every label line is immediately followed by the instruction line of the same address -/
def labelsAttached : List Line → Bool
  | [] => true
  | .label a :: .instr b i :: r => (a == b) && labelsAttached (.instr b i :: r)
  | .label _ :: _ => false
  | .header :: r => labelsAttached r
  | .blank :: r => labelsAttached r
  | .instr _ _ :: r => labelsAttached r

theorem labelsAttached_render (br : List Nat) : ∀ (es : List Entry) (space : Bool) (last : Nat),
    labelsAttached (render br es space last) = true := by
  intro es
  induction es with
  | nil => intro _ _; rfl
  | cons e r ih =>
    intro space last
    have h := ih (!getReturns e.instr) e.after
    unfold render
    by_cases hg : e.addr ≠ last <;> by_cases hb : e.addr ∈ br <;> cases space <;>
      simp [hg, hb, labelsAttached, h]

/-- number of label lines for address `a` -/
def labelCount (a : Nat) (ls : List Line) : Nat := ls.count (Line.label a)

theorem count_label_render (br : List Nat) (a : Nat) : ∀ (es : List Entry) (space : Bool) (last : Nat),
    labelCount a (render br es space last) =
      if br.contains a then (es.filter (fun e => e.addr == a)).length else 0 := by
  intro es
  induction es with
  | nil => intro _ _; simp [render, labelCount]
  | cons e r ih =>
    intro space last
    have h := ih (!getReturns e.instr) e.after
    unfold labelCount at h ⊢
    unfold render
    by_cases hg : e.addr ≠ last <;> by_cases hb : e.addr ∈ br <;> cases space <;>
      by_cases ha : e.addr = a <;>
      simp_all [List.count_cons, List.count_append, List.filter_cons]

end Trion.Tridas

namespace Trion.Tridas

/-! ## `BTreeMap` as a strictly sorted list -/

def Sorted (es : List Entry) : Prop := es.Pairwise (fun x y => x.addr < y.addr)

theorem mem_minsert {e x : Entry} : ∀ {es : List Entry}, x ∈ minsert e es → x = e ∨ x ∈ es
  | [], h => by simp [minsert] at h; exact .inl h
  | y :: ys, h => by
    unfold minsert at h
    split at h
    · simp at h; rcases h with h | h | h
      · exact .inl h
      · exact .inr (by simp [h])
      · exact .inr (by simp [h])
    · split at h
      · simp at h; rcases h with h | h
        · exact .inl h
        · exact .inr (by simp [h])
      · simp at h; rcases h with h | h
        · exact .inr (by simp [h])
        · rcases mem_minsert h with h | h
          · exact .inl h
          · exact .inr (by simp [h])

theorem minsert_sorted {e : Entry} : ∀ {es : List Entry}, Sorted es → Sorted (minsert e es)
  | [], _ => by simp [minsert, Sorted]
  | y :: ys, h => by
    unfold Sorted at h ⊢
    rw [List.pairwise_cons] at h
    unfold minsert
    split
    · rename_i hlt
      rw [List.pairwise_cons]
      refine ⟨?_, List.pairwise_cons.2 h⟩
      intro z hz
      simp at hz
      rcases hz with rfl | hz
      · exact hlt
      · exact Nat.lt_trans hlt (h.1 z hz)
    · split
      · rename_i heq
        rw [List.pairwise_cons]
        exact ⟨fun z hz => by rw [heq]; exact h.1 z hz, h.2⟩
      · rename_i hnlt hne
        rw [List.pairwise_cons]
        refine ⟨?_, minsert_sorted h.2⟩
        intro z hz
        rcases mem_minsert hz with rfl | hz
        · omega
        · exact h.1 z hz

theorem minsert_mem_self (e : Entry) : ∀ (es : List Entry), e ∈ minsert e es
  | [] => by simp [minsert]
  | y :: ys => by
    unfold minsert
    split
    · simp
    · split
      · simp
      · simp [minsert_mem_self e ys]

/-- entries at other addresses survive an insertion -/
theorem mem_minsert_of_mem {e x : Entry} (hne : x.addr ≠ e.addr) : ∀ {es : List Entry}, x ∈ es → x ∈ minsert e es
  | [], h => by cases h
  | y :: ys, h => by
    unfold minsert
    split
    · simp at h ⊢; exact .inr h
    · split
      · rename_i heq
        simp at h ⊢
        rcases h with rfl | h
        · exact absurd heq.symm hne
        · exact .inr h
      · simp at h ⊢
        rcases h with rfl | h
        · exact .inl rfl
        · exact .inr (mem_minsert_of_mem hne h)

/-- in a sorted map an address has at most one entry -/
theorem sorted_unique {es : List Entry} (h : Sorted es) {x y : Entry} (hx : x ∈ es) (hy : y ∈ es)
    (ha : x.addr = y.addr) : x = y := by
  induction es with
  | nil => cases hx
  | cons z zs ih =>
    unfold Sorted at h
    rw [List.pairwise_cons] at h
    simp at hx hy
    rcases hx with rfl | hx <;> rcases hy with rfl | hy
    · rfl
    · have := h.1 y hy; omega
    · have := h.1 x hx; omega
    · exact ih h.2 hx hy

theorem sorted_filter_length {es : List Entry} (h : Sorted es) (a : Nat) :
    (es.filter (fun e => e.addr == a)).length = if ∃ e ∈ es, e.addr = a then 1 else 0 := by
  induction es with
  | nil => simp
  | cons z zs ih =>
    unfold Sorted at h
    rw [List.pairwise_cons] at h
    have ih' := ih h.2
    by_cases hz : z.addr = a
    · have hnone : ¬ ∃ e ∈ zs, e.addr = a := by
        rintro ⟨e, he, hea⟩
        have := h.1 e he; omega
      simp [List.filter_cons, hz]
      rw [if_neg hnone] at ih'
      simpa using ih'
    · have hz' : ¬ a = z.addr := fun e => hz e.symm
      simp [List.filter_cons, hz]
      rw [ih']

theorem walk_sorted (decode : Decoder) (buf : List UInt8) : ∀ (fuel pos : Nat) (st st' : St),
    Sorted st.instrs → walk decode buf fuel pos st = .ok st' → Sorted st'.instrs := by
  intro fuel
  induction fuel with
  | zero =>
    intro pos st st' hs h
    simp only [walk] at h
    split at h <;> cases h
    exact hs
  | succ fuel ih =>
    intro pos st st' hs h
    simp only [walk] at h
    split at h
    · split at h
      · cases h
      · split at h
        · cases h
        · split at h
          · cases h
          · split at h
            · exact ih _ _ _ (minsert_sorted hs) h
            · cases h; exact minsert_sorted hs
    · cases h; exact hs

theorem outer_sorted (decode : Decoder) (buf : List UInt8) : ∀ (fuel : Nat) (st st' : St),
    Sorted st.instrs → outer decode buf fuel st = .ok st' → Sorted st'.instrs := by
  intro fuel
  induction fuel with
  | zero =>
    intro st st' hs h
    simp only [outer] at h
    split at h <;> cases h
    exact hs
  | succ fuel ih =>
    intro st st' hs h
    simp only [outer] at h
    split at h
    · cases h; exact hs
    · split at h
      · split at h
        · cases h
        · rename_i st1 hw
          exact ih _ _ (walk_sorted decode buf _ _ _ _ (by exact hs) hw) h
      · exact ih _ _ (by exact hs) h

theorem traverse_sorted {decode : Decoder} {buf : List UInt8} {st : St} (h : traverse decode buf = .ok st) :
    Sorted st.instrs :=
  outer_sorted decode buf _ _ _ (by simp [Sorted]) h

end Trion.Tridas

namespace Trion.Tridas

/-! ## `BTreeSet` operations: membership -/

theorem mem_sinsert {x a : Nat} : ∀ {l : List Nat}, x ∈ sinsert a l ↔ x = a ∨ x ∈ l
  | [] => by simp [sinsert]
  | y :: ys => by
    unfold sinsert
    split
    · simp
    · split
      · rename_i h; subst h; simp
      · simp only [List.mem_cons, mem_sinsert (l := ys)]
        constructor
        · rintro (h | h | h)
          · exact .inr (.inl h)
          · exact .inl h
          · exact .inr (.inr h)
        · rintro (h | h | h)
          · exact .inr (.inl h)
          · exact .inl h
          · exact .inr (.inr h)

theorem mem_of_mem_sremove {x a : Nat} : ∀ {l : List Nat}, x ∈ sremove a l → x ∈ l
  | [], h => by simp [sremove] at h
  | y :: ys, h => by
    unfold sremove at h
    split at h
    · exact List.mem_cons_of_mem _ h
    · simp at h ⊢
      rcases h with h | h
      · exact .inl h
      · exact .inr (mem_of_mem_sremove h)

theorem mem_sremove_of_ne {x a : Nat} (hne : x ≠ a) : ∀ {l : List Nat}, x ∈ l → x ∈ sremove a l
  | [], h => by cases h
  | y :: ys, h => by
    unfold sremove
    split
    · rename_i heq
      simp at h
      rcases h with h | h
      · exact absurd (h.trans heq.symm) hne
      · exact h
    · simp at h ⊢
      rcases h with h | h
      · exact .inl h
      · exact .inr (mem_sremove_of_ne hne h)

theorem mcontains_iff {a : Nat} {m : List Entry} : mcontains a m = true ↔ ∃ e ∈ m, e.addr = a := by
  simp [mcontains]

/-- two strictly sorted maps with the same entries are equal -/
theorem sorted_ext : ∀ {a b : List Entry}, Sorted a → Sorted b → (∀ x, x ∈ a ↔ x ∈ b) → a = b
  | [], [], _, _, _ => rfl
  | [], y :: ys, _, _, h => by have := (h y).2 (by simp); cases this
  | x :: xs, [], _, _, h => by have := (h x).1 (by simp); cases this
  | x :: xs, y :: ys, ha, hb, h => by
    unfold Sorted at ha hb
    rw [List.pairwise_cons] at ha hb
    have hxy : x = y := by
      have hx : x ∈ y :: ys := (h x).1 (by simp)
      have hy : y ∈ x :: xs := (h y).2 (by simp)
      simp at hx hy
      rcases hx with hx | hx
      · exact hx
      · rcases hy with hy | hy
        · exact hy.symm
        · have h1 := hb.1 x hx
          have h2 := ha.1 y hy
          omega
    subst hxy
    congr 1
    apply sorted_ext ha.2 hb.2
    intro z
    constructor
    · intro hz
      have := (h z).1 (by simp [hz])
      simp at this
      rcases this with rfl | this
      · have := ha.1 z hz; omega
      · exact this
    · intro hz
      have := (h z).2 (by simp [hz])
      simp at this
      rcases this with rfl | this
      · have := hb.1 z hz; omega
      · exact this

end Trion.Tridas

namespace Trion.Tridas

/-! ## the hypothesis of the property and the traversal invariant -/

/-- the address lies inside the file (`start >= BASE && start - BASE < buff.len()`) -/
def inFile (len d : Nat) : Prop := BASE ≤ d ∧ d - BASE < len

/-- reachable from the first instruction by fall-through and direct branches -/
inductive Reach (es : List Entry) (len : Nat) : Nat → Prop
  | base : Reach es len BASE
  | fall {e : Entry} : e ∈ es → Reach es len e.addr → getReturns e.instr = true → e.after < BASE + len →
      Reach es len e.after
  | branch {e : Entry} {d : Nat} : e ∈ es → Reach es len e.addr → getBranch e.instr e.addr = some d →
      inFile len d → Reach es len d

/-- `es` is the segmentation of the file `b` into valid instructions (address, instruction, address after it), every
in-file branch target is an instruction boundary, and every instruction is reachable from the first.
(`BASE ≤ e.addr` is not a field: it follows from `reach` and `size`, see `WellFormed.bound`.  `next` is only required
of instructions that fall through, `getReturns`.) -/
structure WellFormed (decode : Decoder) (b : List UInt8) (es : List Entry) : Prop where
  small : BASE + b.length < two32
  sorted : Sorted es
  first : ∃ e ∈ es, e.addr = BASE
  size : ∀ e ∈ es, e.addr < e.after ∧ e.after ≤ BASE + b.length
  next : ∀ e ∈ es, getReturns e.instr = true → e.after < BASE + b.length → ∃ e' ∈ es, e'.addr = e.after
  dec : ∀ e ∈ es, decode (b.drop (e.addr - BASE)) = some (e.after - e.addr, e.instr)
  targets : ∀ e ∈ es, ∀ d, getBranch e.instr e.addr = some d → inFile b.length d → ∃ e' ∈ es, e'.addr = d
  reach : ∀ e ∈ es, Reach es b.length e.addr

/-- reachable addresses are not below `BASE` -/
theorem reach_base_le {es : List Entry} {len : Nat} (hs : ∀ e ∈ es, e.addr < e.after) {a : Nat}
    (h : Reach es len a) : BASE ≤ a := by
  induction h with
  | base => exact Nat.le_refl _
  | @fall e he _ _ _ ih => have := hs e he; omega
  | @branch e d _ _ _ hin _ => exact hin.1

/-- every entry lies inside the file -/
theorem WellFormed.bound {decode : Decoder} {b : List UInt8} {es : List Entry} (wf : WellFormed decode b es) :
    ∀ e ∈ es, BASE ≤ e.addr ∧ e.addr < e.after ∧ e.after ≤ BASE + b.length := fun e he =>
  ⟨reach_base_le (fun x hx => (wf.size x hx).1) (wf.reach e he), wf.size e he⟩

/-- invariant of the traversal; `hole` = the address the inner loop is about to decode -/
structure Inv (es : List Entry) (len : Nat) (st : St) (hole : Option Nat) : Prop where
  sorted : Sorted st.instrs
  sub : ∀ x ∈ st.instrs, x ∈ es
  fall : ∀ x ∈ st.instrs, getReturns x.instr = true → x.after < BASE + len →
    (∃ y ∈ st.instrs, y.addr = x.after) ∨ hole = some x.after
  br : ∀ x ∈ st.instrs, ∀ d, getBranch x.instr x.addr = some d → inFile len d →
    (∃ y ∈ st.instrs, y.addr = d) ∨ d ∈ st.queries ∨ hole = some d
  base : (∃ y ∈ st.instrs, y.addr = BASE) ∨ BASE ∈ st.queries ∨ hole = some BASE
  qs : ∀ q ∈ st.queries, inFile len q → ∃ e ∈ es, e.addr = q

theorem key_survives {e : Entry} {m : List Entry} {a : Nat} (h : ∃ y ∈ m, y.addr = a) :
    ∃ y ∈ minsert e m, y.addr = a := by
  obtain ⟨y, hy, hya⟩ := h
  by_cases hne : y.addr = e.addr
  · exact ⟨e, minsert_mem_self e m, by rw [← hne, hya]⟩
  · exact ⟨y, mem_minsert_of_mem hne hy, hya⟩

/-- the queries after one decoded instruction -/
def stepQueries (e : Entry) (st : St) : List Nat := nextQueries e.instr e.addr st

theorem stepQueries_keep {e : Entry} {st : St} {d : Nat} (h : d ∈ st.queries) (hne : d ≠ e.addr) :
    d ∈ stepQueries e st := by
  unfold stepQueries nextQueries
  split
  · split
    · exact mem_sinsert.2 (.inr (mem_sremove_of_ne hne h))
    · exact mem_sremove_of_ne hne h
  · exact mem_sremove_of_ne hne h

theorem stepQueries_sub {e : Entry} {st : St} {q : Nat} (h : q ∈ stepQueries e st) :
    q ∈ st.queries ∨ getBranch e.instr e.addr = some q := by
  unfold stepQueries nextQueries at h
  split at h
  · rename_i dst hb
    split at h
    · rcases mem_sinsert.1 h with h | h
      · exact .inr (by rw [hb, h])
      · exact .inl (mem_of_mem_sremove h)
    · exact .inl (mem_of_mem_sremove h)
  · exact .inl (mem_of_mem_sremove h)

/-- one iteration of the inner loop keeps the invariant and moves the hole to the next instruction -/
theorem inv_step {decode : Decoder} {b : List UInt8} {es : List Entry} (wf : WellFormed decode b es)
    {st : St} {e : Entry} (he : e ∈ es) (hi : Inv es b.length st (some e.addr)) (br' : List Nat) :
    Inv es b.length { queries := stepQueries e st, instrs := minsert e st.instrs, branches := br' }
      (if getReturns e.instr = true then some e.after else none) := by
  have self_in : ∃ y ∈ minsert e st.instrs, y.addr = e.addr := ⟨e, minsert_mem_self e _, rfl⟩
  refine ⟨minsert_sorted hi.sorted, ?_, ?_, ?_, ?_, ?_⟩
  · intro x hx
    rcases mem_minsert hx with rfl | hx
    · exact he
    · exact hi.sub x hx
  · intro x hx hr hlt
    rcases mem_minsert hx with rfl | hx
    · right; simp [hr]
    · rcases hi.fall x hx hr hlt with h | h
      · exact .inl (key_survives h)
      · left; rw [← Option.some.inj h]; exact self_in
  · intro x hx d hd hin
    -- old entries
    have old : ∀ x ∈ st.instrs, getBranch x.instr x.addr = some d →
        (∃ y ∈ minsert e st.instrs, y.addr = d) ∨ d ∈ stepQueries e st := by
      intro x hx hd
      rcases hi.br x hx d hd hin with h | h | h
      · exact .inl (key_survives h)
      · by_cases hde : d = e.addr
        · left; rw [hde]; exact self_in
        · exact .inr (stepQueries_keep h hde)
      · left; cases h; exact self_in
    rcases mem_minsert hx with rfl | hx
    · by_cases hde : d = x.addr
      · left; rw [hde]; exact self_in
      · by_cases hc : mcontains x.addr st.instrs = true
        · obtain ⟨y, hy, hya⟩ := mcontains_iff.1 hc
          have : y = x := sorted_unique wf.sorted (hi.sub y hy) he hya
          subst this
          rcases old y hy hd with h | h
          · exact .inl h
          · exact .inr (.inl h)
        · right; left
          unfold stepQueries nextQueries
          rw [hd]
          have hc' : mcontains x.addr st.instrs = false := by simpa using hc
          simp only [hc', and_true, ne_eq, hde, not_false_eq_true, if_true]
          exact mem_sinsert.2 (.inl rfl)
    · rcases old x hx hd with h | h
      · exact .inl h
      · exact .inr (.inl h)
  · rcases hi.base with h | h | h
    · exact .inl (key_survives h)
    · by_cases hbe : BASE = e.addr
      · left; rw [hbe]; exact self_in
      · exact .inr (.inl (stepQueries_keep h hbe))
    · left; rw [← Option.some.inj h]; exact self_in
  · intro q hq hin
    rcases stepQueries_sub hq with h | h
    · exact hi.qs q h hin
    · exact wf.targets e he q h hin

end Trion.Tridas

namespace Trion.Tridas

theorem wf_len_pos {decode : Decoder} {b : List UInt8} {es : List Entry} (wf : WellFormed decode b es) :
    0 < b.length := by
  obtain ⟨e, he, hea⟩ := wf.first
  have := wf.bound e he
  omega

/-- a hole outside the file is no hole -/
theorem inv_close_hole {decode : Decoder} {b : List UInt8} {es : List Entry} (wf : WellFormed decode b es)
    {st : St} {h : Nat} (hi : Inv es b.length st (some h)) (hout : ¬ inFile b.length h) :
    Inv es b.length st none := by
  refine ⟨hi.sorted, hi.sub, ?_, ?_, ?_, hi.qs⟩
  · intro x hx hr hlt
    rcases hi.fall x hx hr hlt with h1 | h1
    · exact .inl h1
    · exfalso
      have hb := wf.bound x (hi.sub x hx)
      apply hout
      rw [Option.some.inj h1]
      unfold inFile; omega
  · intro x hx d hd hin
    rcases hi.br x hx d hd hin with h1 | h1 | h1
    · exact .inl h1
    · exact .inr (.inl h1)
    · exfalso; apply hout; rw [Option.some.inj h1]; exact hin
  · rcases hi.base with h1 | h1 | h1
    · exact .inl h1
    · exact .inr (.inl h1)
    · exfalso; apply hout; rw [Option.some.inj h1]
      have := wf_len_pos wf
      unfold inFile; omega

/-- what the traversal loops may return: a state satisfying `P`, or the model's fuel bound (never a Rust panic) -/
def OkOrFuel (r : Except Panic St) (P : St → Prop) : Prop :=
  match r with
  | .ok st => P st
  | .error p => p = .fuel

theorem walk_inv {decode : Decoder} {b : List UInt8} {es : List Entry} (wf : WellFormed decode b es) :
    ∀ (fuel pos : Nat) (st : St), Inv es b.length st (some (BASE + pos)) →
      (pos < b.length → ∃ e ∈ es, e.addr = BASE + pos) →
      OkOrFuel (walk decode b fuel pos st) (fun st' => Inv es b.length st' none) := by
  intro fuel
  induction fuel with
  | zero =>
    intro pos st hi _
    simp only [walk]
    split
    · rfl
    · rename_i hlt
      exact inv_close_hole wf hi (by unfold inFile; omega)
  | succ fuel ih =>
    intro pos st hi hp
    simp only [walk]
    split
    · rename_i hlt
      obtain ⟨e, he, hea⟩ := hp hlt
      have hb := wf.bound e he
      have hd := wf.dec e he
      have hpos : e.addr - BASE = pos := by omega
      rw [hpos] at hd
      rw [hd]
      simp only
      have hsmall := wf.small
      have h1 : ¬ two32 ≤ BASE + pos := by omega
      have h2 : ¬ two32 ≤ BASE + pos + (e.after - e.addr) := by omega
      simp only [h1, h2, if_false]
      have hent : (⟨BASE + pos, e.instr, BASE + pos + (e.after - e.addr)⟩ : Entry) = e := by
        cases e; simp at hea hb ⊢; omega
      rw [hent, ← hea]
      have hstep := inv_step wf he (by rw [hea]; exact hi) (nextBranches e.instr e.addr st)
      by_cases hr : getReturns e.instr = true
      · simp only [hr, if_true] at hstep ⊢
        have hnext : pos + (e.after - e.addr) = e.after - BASE := by omega
        rw [hnext]
        apply ih
        · have : BASE + (e.after - BASE) = e.after := by omega
          rw [this]; exact hstep
        · intro hlt2
          have : BASE + (e.after - BASE) = e.after := by omega
          rw [this]
          exact wf.next e he hr (by omega)
      · simp only [hr] at hstep ⊢
        exact hstep
    · rename_i hlt
      exact inv_close_hole wf hi (by unfold inFile; omega)

/-- popping the smallest query opens a hole at it -/
theorem inv_pop {es : List Entry} {len : Nat} {st : St} {start : Nat} {rest : List Nat}
    (hi : Inv es len st none) (hq : st.queries = start :: rest) :
    Inv es len { st with queries := rest } (some start) := by
  refine ⟨hi.sorted, hi.sub, ?_, ?_, ?_, ?_⟩
  · intro x hx hr hlt
    rcases hi.fall x hx hr hlt with h | h
    · exact .inl h
    · cases h
  · intro x hx d hd hin
    rcases hi.br x hx d hd hin with h | h | h
    · exact .inl h
    · rw [hq] at h
      simp at h
      rcases h with h | h
      · exact .inr (.inr (by rw [h]))
      · exact .inr (.inl h)
    · cases h
  · rcases hi.base with h | h | h
    · exact .inl h
    · rw [hq] at h
      simp at h
      rcases h with h | h
      · exact .inr (.inr (by rw [h]))
      · exact .inr (.inl h)
    · cases h
  · intro q hq' hin
    exact hi.qs q (by rw [hq]; exact List.mem_cons_of_mem _ hq') hin

theorem outer_inv {decode : Decoder} {b : List UInt8} {es : List Entry} (wf : WellFormed decode b es) :
    ∀ (fuel : Nat) (st : St), Inv es b.length st none →
      OkOrFuel (outer decode b fuel st) (fun st' => Inv es b.length st' none ∧ st'.queries = []) := by
  intro fuel
  induction fuel with
  | zero =>
    intro st hi
    simp only [outer]
    split
    · rename_i hq; exact ⟨hi, hq⟩
    · rfl
  | succ fuel ih =>
    intro st hi
    simp only [outer]
    split
    · rename_i hq; exact ⟨hi, hq⟩
    · rename_i start rest hq
      have hi1 : Inv es b.length { st with queries := rest } (some start) := inv_pop hi hq
      split
      · rename_i hin
        have hw := walk_inv wf b.length (start - BASE) { st with queries := rest }
          (by have : BASE + (start - BASE) = start := by omega
              rw [this]; exact hi1)
          (fun _ => by
            have : BASE + (start - BASE) = start := by omega
            rw [this]
            exact hi.qs start (by rw [hq]; simp) hin)
        unfold OkOrFuel at hw
        split
        · rename_i p hwp; rw [hwp] at hw; simp only [OkOrFuel]; exact hw
        · rename_i st2 hwp; rw [hwp] at hw; exact ih _ hw
      · rename_i hout
        exact ih _ (inv_close_hole wf hi1 hout)

end Trion.Tridas

namespace Trion.Tridas

theorem reach_in {decode : Decoder} {b : List UInt8} {es : List Entry} (wf : WellFormed decode b es) {st : St}
    (hi : Inv es b.length st none) (hq : st.queries = []) :
    ∀ a, Reach es b.length a → ∃ y ∈ st.instrs, y.addr = a := by
  intro a hr
  induction hr with
  | base =>
    rcases hi.base with h | h | h
    · exact h
    · rw [hq] at h; cases h
    · cases h
  | @fall e he _ hret hlt ih =>
    obtain ⟨y, hy, hya⟩ := ih
    have : y = e := sorted_unique wf.sorted (hi.sub y hy) he hya
    subst this
    rcases hi.fall y hy hret hlt with h | h
    · exact h
    · cases h
  | @branch e d he _ hb hin ih =>
    obtain ⟨y, hy, hya⟩ := ih
    have : y = e := sorted_unique wf.sorted (hi.sub y hy) he hya
    subst this
    rcases hi.br y hy d hb hin with h | h | h
    · exact h
    · rw [hq] at h; cases h
    · cases h

theorem traverse_covers {decode : Decoder} {b : List UInt8} {es : List Entry} (wf : WellFormed decode b es) :
    OkOrFuel (traverse decode b) (fun st => st.instrs = es) := by
  have h0 : Inv es b.length { queries := [BASE], instrs := [], branches := [] } none := by
    refine ⟨by simp [Sorted], by simp, by simp, by simp, .inr (.inl (by simp)), ?_⟩
    intro q hq _
    simp at hq
    rw [hq]; exact wf.first
  have h := outer_inv wf (2 * b.length + 2) _ h0
  unfold traverse
  unfold OkOrFuel at h ⊢
  split
  · rename_i st hst
    rw [hst] at h
    obtain ⟨hi, hq⟩ := h
    apply sorted_ext hi.sorted wf.sorted
    intro x
    constructor
    · exact hi.sub x
    · intro hx
      obtain ⟨y, hy, hya⟩ := reach_in wf hi hq x.addr (wf.reach x hx)
      have : y = x := sorted_unique wf.sorted (hi.sub y hy) hx hya
      rw [← this]; exact hy
  · rename_i p hp
    rw [hp] at h; exact h

/-- the instruction lines of a listing -/
def instrLines : List Line → List (Nat × Instr)
  | [] => []
  | .instr a i :: r => (a, i) :: instrLines r
  | _ :: r => instrLines r

theorem instrLines_append (l1 l2 : List Line) : instrLines (l1 ++ l2) = instrLines l1 ++ instrLines l2 := by
  induction l1 with
  | nil => rfl
  | cons x xs ih => cases x <;> simp [instrLines, ih]

theorem instrLines_render (br : List Nat) : ∀ (es : List Entry) (space : Bool) (last : Nat),
    instrLines (render br es space last) = es.map (fun e => (e.addr, e.instr)) := by
  intro es
  induction es with
  | nil => intro _ _; rfl
  | cons e r ih =>
    intro space last
    have h := ih (!getReturns e.instr) e.after
    unfold render
    by_cases hg : e.addr ≠ last <;> by_cases hb : e.addr ∈ br <;> cases space <;>
      simp [hg, hb, instrLines, instrLines_append, h]

end Trion.Tridas

namespace Trion.Tridas

/-- every recorded instruction's branch target is in `branches` -/
def BrInv (st : St) : Prop := ∀ x ∈ st.instrs, ∀ d, getBranch x.instr x.addr = some d → d ∈ st.branches

theorem brInv_step {st : St} (hs : BrInv st) (i : Instr) (addr after : Nat) :
    BrInv ⟨nextQueries i addr st, minsert ⟨addr, i, after⟩ st.instrs, nextBranches i addr st⟩ := by
  intro x hx d hd
  simp only at hx ⊢
  unfold nextBranches
  rcases mem_minsert hx with rfl | hx
  · simp only at hd
    rw [hd]; exact mem_sinsert.2 (.inl rfl)
  · have := hs x hx d hd
    split
    · exact mem_sinsert.2 (.inr this)
    · exact this

theorem walk_brInv (decode : Decoder) (buf : List UInt8) : ∀ (fuel pos : Nat) (st st' : St),
    BrInv st → walk decode buf fuel pos st = .ok st' → BrInv st' := by
  intro fuel
  induction fuel with
  | zero =>
    intro pos st st' hs h
    simp only [walk] at h
    split at h <;> cases h
    exact hs
  | succ fuel ih =>
    intro pos st st' hs h
    simp only [walk] at h
    split at h
    · split at h
      · cases h
      · rename_i n i _
        split at h
        · cases h
        · split at h
          · cases h
          · have hnew := brInv_step hs i (BASE + pos) (BASE + pos + n)
            split at h
            · exact ih _ _ _ hnew h
            · cases h; exact hnew
    · cases h; exact hs

theorem outer_brInv (decode : Decoder) (buf : List UInt8) : ∀ (fuel : Nat) (st st' : St),
    BrInv st → outer decode buf fuel st = .ok st' → BrInv st' := by
  intro fuel
  induction fuel with
  | zero =>
    intro st st' hs h
    simp only [outer] at h
    split at h <;> cases h
    exact hs
  | succ fuel ih =>
    intro st st' hs h
    simp only [outer] at h
    split at h
    · cases h; exact hs
    · split at h
      · split at h
        · cases h
        · rename_i st1 hw
          exact ih _ _ (walk_brInv decode buf _ _ _ _ (by exact hs) hw) h
      · exact ih _ _ (by exact hs) h

theorem traverse_brInv {decode : Decoder} {buf : List UInt8} {st : St} (h : traverse decode buf = .ok st) :
    BrInv st :=
  outer_brInv decode buf _ _ _ (by intro x hx; cases hx) h

/-- consecutive entries from address `a` to address `z` -/
def Chain : List Entry → Nat → Nat → Prop
  | [], a, z => a = z
  | e :: r, a, z => e.addr = a ∧ e.addr < e.after ∧ Chain r e.after z

/-- the bytes of the entry inside the file -/
def slice (b : List UInt8) (e : Entry) : List UInt8 := (b.drop (e.addr - BASE)).take (e.after - e.addr)

theorem chain_flatten (b : List UInt8) : ∀ (es : List Entry) (a z : Nat), Chain es a z → BASE ≤ a →
    (es.map (slice b)).flatten = (b.drop (a - BASE)).take (z - a) := by
  intro es
  induction es with
  | nil => intro a z h _; simp [Chain] at h; subst h; simp
  | cons e r ih =>
    intro a z h ha
    obtain ⟨h1, h2, h3⟩ := h
    have := ih e.after z h3 (by omega)
    simp only [List.map_cons, List.flatten_cons, this, slice]
    subst h1
    have hz : e.addr < e.after := h2
    -- take n l ++ take m (drop n l) = take (n + m) l
    have hle : e.after ≤ z ∨ z < e.after := by omega
    have key : ∀ (l : List UInt8) (n m : Nat), l.take n ++ (l.drop n).take m = l.take (n + m) := by
      intro l n m
      rw [List.take_add]
    have hd : b.drop (e.after - BASE) = (b.drop (e.addr - BASE)).drop (e.after - e.addr) := by
      rw [List.drop_drop]
      have hh : e.after - BASE = e.addr - BASE + (e.after - e.addr) := by omega
      rw [hh]
    rw [hd, key]
    rcases hle with hle | hlt
    · have hh : e.after - e.addr + (z - e.after) = z - e.addr := by omega
      rw [hh]
    · -- a chain never goes backwards, so this case is empty; both sides still agree by truncation
      have hzz : z - e.after = 0 := by omega
      have : ∀ (r : List Entry) (a z : Nat), Chain r a z → a ≤ z := by
        intro r
        induction r with
        | nil => intro a z h; simp [Chain] at h; omega
        | cons x xs ihx => intro a z h; obtain ⟨h1, h2, h3⟩ := h; have := ihx _ _ h3; omega
      have := this r e.after z h3
      omega

theorem chain_le : ∀ (r : List Entry) (a z : Nat), Chain r a z → a ≤ z
  | [], a, z, h => by simp [Chain] at h; omega
  | x :: xs, a, z, h => by obtain ⟨h1, h2, h3⟩ := h; have := chain_le xs _ _ h3; omega

/-- a chain is strictly ascending, stays inside `[a, z]`, and every entry ending before `z` has a successor -/
theorem chain_facts : ∀ (es : List Entry) (a z : Nat), Chain es a z →
    Sorted es ∧ (∀ e ∈ es, a ≤ e.addr ∧ e.addr < e.after ∧ e.after ≤ z) ∧
    (∀ e ∈ es, e.after < z → ∃ e' ∈ es, e'.addr = e.after)
  | [], _, _, _ => by simp [Sorted]
  | e :: r, a, z, h => by
    obtain ⟨h1, h2, h3⟩ := h
    obtain ⟨ihs, ihb, ihn⟩ := chain_facts r e.after z h3
    have hle := chain_le r e.after z h3
    refine ⟨?_, ?_, ?_⟩
    · unfold Sorted at ihs ⊢
      rw [List.pairwise_cons]
      exact ⟨fun x hx => by have := ihb x hx; omega, ihs⟩
    · intro x hx
      rcases List.mem_cons.1 hx with rfl | hx
      · omega
      · have := ihb x hx; omega
    · intro x hx hlt
      rcases List.mem_cons.1 hx with rfl | hx
      · cases r with
        | nil => simp [Chain] at h3; omega
        | cons y ys => exact ⟨y, by simp, h3.1⟩
      · obtain ⟨y, hy, hya⟩ := ihn x hx hlt
        exact ⟨y, List.mem_cons_of_mem _ hy, hya⟩

/-- for a gap-free segmentation (`Chain`) of a non-empty file the fields `sorted`, `first`, `size`, `next` of
`WellFormed` come for free -/
theorem WellFormed.of_chain {decode : Decoder} {b : List UInt8} {es : List Entry}
    (small : BASE + b.length < two32) (nonempty : 0 < b.length) (chain : Chain es BASE (BASE + b.length))
    (dec : ∀ e ∈ es, decode (b.drop (e.addr - BASE)) = some (e.after - e.addr, e.instr))
    (targets : ∀ e ∈ es, ∀ d, getBranch e.instr e.addr = some d → inFile b.length d → ∃ e' ∈ es, e'.addr = d)
    (reach : ∀ e ∈ es, Reach es b.length e.addr) : WellFormed decode b es := by
  obtain ⟨hs, hb, hn⟩ := chain_facts es _ _ chain
  refine ⟨small, hs, ?_, fun e he => (hb e he).2, fun e he _ hlt => hn e he hlt, dec, targets, reach⟩
  cases es with
  | nil => have : BASE = BASE + b.length := chain
           omega
  | cons e r => exact ⟨e, by simp, chain.1⟩

end Trion.Tridas
