import TrionModel.Model.Tridas
/-! Helper lemmas for C20 (core Lean only). -/
namespace Trion.Tridas

/-- every label line is immediately followed by the instruction line of the same address -/
def labelsAttached : List Line → Bool
  | [] => true
  | .label a :: .instr b i :: r => (a == b) && labelsAttached (.instr b i :: r)
  | .label _ :: _ => false
  | .header :: r => labelsAttached r
  | .blank :: r => labelsAttached r
  | .instr _ _ :: r => labelsAttached r

theorem labelsAttached_render (br : List Nat) : ∀ (es : List Entry) (space : Bool) (last : Nat),
    labelsAttached (render br es space last) = true := by
  intro es
  induction es with
  | nil => intro _ _; rfl
  | cons e r ih =>
    intro space last
    have h := ih (!getReturns e.instr) e.after
    unfold render
    by_cases hg : e.addr ≠ last <;> by_cases hb : e.addr ∈ br <;> cases space <;>
      simp [hg, hb, labelsAttached, h]

/-- number of label lines for address `a` -/
def labelCount (a : Nat) (ls : List Line) : Nat := ls.count (Line.label a)

theorem count_label_render (br : List Nat) (a : Nat) : ∀ (es : List Entry) (space : Bool) (last : Nat),
    labelCount a (render br es space last) =
      if br.contains a then (es.filter (fun e => e.addr == a)).length else 0 := by
  intro es
  induction es with
  | nil => intro _ _; simp [render, labelCount]
  | cons e r ih =>
    intro space last
    have h := ih (!getReturns e.instr) e.after
    unfold labelCount at h ⊢
    unfold render
    by_cases hg : e.addr ≠ last <;> by_cases hb : e.addr ∈ br <;> cases space <;>
      by_cases ha : e.addr = a <;>
      simp_all [List.count_cons, List.count_append, List.filter_cons]

end Trion.Tridas

namespace Trion.Tridas

/-! ## `BTreeMap` as a strictly sorted list -/

def Sorted (es : List Entry) : Prop := es.Pairwise (fun x y => x.addr < y.addr)

theorem mem_minsert {e x : Entry} : ∀ {es : List Entry}, x ∈ minsert e es → x = e ∨ x ∈ es
  | [], h => by simp [minsert] at h; exact .inl h
  | y :: ys, h => by
    unfold minsert at h
    split at h
    · simp at h; rcases h with h | h | h
      · exact .inl h
      · exact .inr (by simp [h])
      · exact .inr (by simp [h])
    · split at h
      · simp at h; rcases h with h | h
        · exact .inl h
        · exact .inr (by simp [h])
      · simp at h; rcases h with h | h
        · exact .inr (by simp [h])
        · rcases mem_minsert h with h | h
          · exact .inl h
          · exact .inr (by simp [h])

theorem minsert_sorted {e : Entry} : ∀ {es : List Entry}, Sorted es → Sorted (minsert e es)
  | [], _ => by simp [minsert, Sorted]
  | y :: ys, h => by
    unfold Sorted at h ⊢
    rw [List.pairwise_cons] at h
    unfold minsert
    split
    · rename_i hlt
      rw [List.pairwise_cons]
      refine ⟨?_, List.pairwise_cons.2 h⟩
      intro z hz
      simp at hz
      rcases hz with rfl | hz
      · exact hlt
      · exact Nat.lt_trans hlt (h.1 z hz)
    · split
      · rename_i heq
        rw [List.pairwise_cons]
        exact ⟨fun z hz => by rw [heq]; exact h.1 z hz, h.2⟩
      · rename_i hnlt hne
        rw [List.pairwise_cons]
        refine ⟨?_, minsert_sorted h.2⟩
        intro z hz
        rcases mem_minsert hz with rfl | hz
        · omega
        · exact h.1 z hz

theorem minsert_mem_self (e : Entry) : ∀ (es : List Entry), e ∈ minsert e es
  | [] => by simp [minsert]
  | y :: ys => by
    unfold minsert
    split
    · simp
    · split
      · simp
      · simp [minsert_mem_self e ys]

/-- entries at other addresses survive an insertion -/
theorem mem_minsert_of_mem {e x : Entry} (hne : x.addr ≠ e.addr) : ∀ {es : List Entry}, x ∈ es → x ∈ minsert e es
  | [], h => by cases h
  | y :: ys, h => by
    unfold minsert
    split
    · simp at h ⊢; exact .inr h
    · split
      · rename_i heq
        simp at h ⊢
        rcases h with rfl | h
        · exact absurd heq.symm hne
        · exact .inr h
      · simp at h ⊢
        rcases h with rfl | h
        · exact .inl rfl
        · exact .inr (mem_minsert_of_mem hne h)

/-- in a sorted map an address has at most one entry -/
theorem sorted_unique {es : List Entry} (h : Sorted es) {x y : Entry} (hx : x ∈ es) (hy : y ∈ es)
    (ha : x.addr = y.addr) : x = y := by
  induction es with
  | nil => cases hx
  | cons z zs ih =>
    unfold Sorted at h
    rw [List.pairwise_cons] at h
    simp at hx hy
    rcases hx with rfl | hx <;> rcases hy with rfl | hy
    · rfl
    · have := h.1 y hy; omega
    · have := h.1 x hx; omega
    · exact ih h.2 hx hy

theorem sorted_filter_length {es : List Entry} (h : Sorted es) (a : Nat) :
    (es.filter (fun e => e.addr == a)).length = if ∃ e ∈ es, e.addr = a then 1 else 0 := by
  induction es with
  | nil => simp
  | cons z zs ih =>
    unfold Sorted at h
    rw [List.pairwise_cons] at h
    have ih' := ih h.2
    by_cases hz : z.addr = a
    · have hnone : ¬ ∃ e ∈ zs, e.addr = a := by
        rintro ⟨e, he, hea⟩
        have := h.1 e he; omega
      simp [List.filter_cons, hz]
      rw [if_neg hnone] at ih'
      simpa using ih'
    · have hz' : ¬ a = z.addr := fun e => hz e.symm
      simp [List.filter_cons, hz]
      rw [ih']

theorem walk_sorted (decode : Decoder) (buf : List UInt8) : ∀ (fuel pos : Nat) (st st' : St),
    Sorted st.instrs → walk decode buf fuel pos st = .ok st' → Sorted st'.instrs := by
  intro fuel
  induction fuel with
  | zero =>
    intro pos st st' hs h
    simp only [walk] at h
    split at h <;> cases h
    exact hs
  | succ fuel ih =>
    intro pos st st' hs h
    simp only [walk] at h
    split at h
    · split at h
      · cases h
      · split at h
        · cases h
        · split at h
          · cases h
          · split at h
            · exact ih _ _ _ (minsert_sorted hs) h
            · cases h; exact minsert_sorted hs
    · cases h; exact hs

theorem outer_sorted (decode : Decoder) (buf : List UInt8) : ∀ (fuel : Nat) (st st' : St),
    Sorted st.instrs → outer decode buf fuel st = .ok st' → Sorted st'.instrs := by
  intro fuel
  induction fuel with
  | zero =>
    intro st st' hs h
    simp only [outer] at h
    split at h <;> cases h
    exact hs
  | succ fuel ih =>
    intro st st' hs h
    simp only [outer] at h
    split at h
    · cases h; exact hs
    · split at h
      · split at h
        · cases h
        · rename_i st1 hw
          exact ih _ _ (walk_sorted decode buf _ _ _ _ (by exact hs) hw) h
      · exact ih _ _ (by exact hs) h

theorem traverse_sorted {decode : Decoder} {buf : List UInt8} {st : St} (h : traverse decode buf = .ok st) :
    Sorted st.instrs :=
  outer_sorted decode buf _ _ _ (by simp [Sorted]) h

end Trion.Tridas
